import random, itertools, sys
from bigtree import *
from bigtree.utils.iterators import *
random.seed(int(sys.argv[1]) if len(sys.argv)>1 else 0)

def rand_shape(n):
    # returns parent array for random ordered tree with n nodes
    par=[-1]
    for i in range(1,n):
        par.append(random.randrange(0,i) if random.random()<0.6 else max(0,i-1-random.randrange(0,min(i,3))))
    return par
def build(par, names=None, cls=Node):
    n=len(par)
    names = names or [f"n{i}" for i in range(n)]
    nodes=[cls(names[0])]
    for i in range(1,n):
        nodes.append(cls(names[i], parent=nodes[par[i]]))
    return nodes
def spec_pre(n, stop=None, md=0):
    if (md and n.depth>md) or (stop and stop(n)): return []
    out=[n]
    for c in n.children: out+=spec_pre(c,stop,md)
    return out
def spec_post(n, stop=None, md=0):
    if (md and n.depth>md) or (stop and stop(n)): return []
    out=[]
    for c in n.children: out+=spec_post(c,stop,md)
    return out+[n]
def spec_levels(n, stop=None, md=0):
    levels=[]; cur=[n]
    while cur:
        kept=[x for x in cur if not ((md and x.depth>md) or (stop and stop(x)))]
        levels.append(kept)
        cur=[c for x in kept for c in x.children]
    return levels
bad=0
for it in range(3000):
    n=random.randint(1,14)
    par=rand_shape(n)
    nodes=build(par)
    root=nodes[0]
    start=random.choice(nodes)
    S=set(random.sample(range(n), random.randint(0,n//3)))
    F=set(random.sample(range(n), random.randint(0,n)))
    idx={id(x):i for i,x in enumerate(nodes)}
    stop=(lambda x: idx[id(x)] in S) if random.random()<0.5 else None
    filt=(lambda x: idx[id(x)] in F) if random.random()<0.5 else None
    md=random.choice([0,0,1,2,3,4,5])
    f=lambda L:[x for x in L if (not filt or filt(x))]
    exp=f(spec_pre(start,stop,md)); got=list(preorder_iter(start,filt,stop,md))
    if exp!=got: bad+=1; print("PRE mismatch",par,idx[id(start)],S,F,md); break
    exp=f(spec_post(start,stop,md)); got=list(postorder_iter(start,filt,stop,md))
    if exp!=got: bad+=1; print("POST mismatch"); break
    lv=spec_levels(start,stop,md)
    exp=f([x for l in lv for x in l]); got=list(levelorder_iter(start,filt,stop,md))
    if exp!=got: bad+=1; print("LEVEL mismatch"); break
    gg=[list(g) for g in levelordergroup_iter(start,filt,stop,md)]
    if [x for g in gg for x in g]!=got: bad+=1; print("LEVELGROUP flatten mismatch",par,idx[id(start)],S,F,md); break
    zz=[(l if i%2==0 else l[::-1]) for i,l in enumerate(lv)]
    exp=f([x for l in zz for x in l]); got=list(zigzag_iter(start,filt,stop,md))
    if exp!=got: bad+=1; print("ZIGZAG mismatch",par,idx[id(start)],S,F,md,[idx[id(x)] for x in exp],[idx[id(x)] for x in got]); break
    gz=[list(g) for g in zigzaggroup_iter(start,filt,stop,md)]
    if [x for g in gz for x in g]!=got: bad+=1; print("ZZGROUP flatten mismatch"); break
    # group counts
    nonempty_levels=[l for l in spec_levels(start,stop,md)]
    # number of groups vs number of levels with candidates
    cand_levels=0; cur=[start]
    while cur:
        if cand_levels and md and cur[0].depth>md: break
        cand_levels+=1
        kept=[x for x in cur if not ((md and x.depth>md) or (stop and stop(x)))]
        cur=[c for x in kept for c in x.children]
    if len(gg)!=cand_levels or len(gz)!=cand_levels: bad+=1; print("GROUP COUNT mismatch",len(gg),len(gz),cand_levels,par,idx[id(start)],S,md); break
print("traversal bad:",bad)
