from bigtree import *
root=Node("r")
# 11 branches each with a leaf named "x", plus a node named "x1" 
for i in range(11):
    b=Node(f"b{i}",parent=root); Node("x",parent=b)
Node("x1",parent=root)
g=tree_to_dot(root)
names=[n.get_name() for n in g.get_nodes()]
print(len(names), len(set(names)), 1+11*2+1)
print(sorted(names)[-6:])
