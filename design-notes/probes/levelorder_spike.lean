/-! Spike: rose trees, gate + preorder spec, level-order impl with next_level lists -/

inductive Tree where
  | node (id : Nat) (cs : List Tree)
deriving Repr

namespace Tree

def id : Tree → Nat | node i _ => i
def cs : Tree → List Tree | node _ cs => cs

/-- custom induction principle -/
theorem ind {P : Tree → Prop} (h : ∀ i cs, (∀ c ∈ cs, P c) → P (node i cs)) : ∀ t, P t
  | node i cs => h i cs (fun c _ => ind h c)

mutual
def pre : Tree → List Nat
  | node i cs => i :: preL cs
def preL : List Tree → List Nat
  | [] => []
  | c :: cs => pre c ++ preL cs
end

theorem preL_eq (cs : List Tree) : preL cs = (cs.map pre).flatten := by
  induction cs with
  | nil => simp [preL]
  | cons c cs ih => simp [preL, ih]

def height : Tree → Nat
  | node _ cs => 1 + heightL cs
where heightL : List Tree → Nat
  | [] => 0
  | c :: cs => max (height c) (heightL cs)

/-- level order, implementation-shaped: process a level, collect next_level, recurse (fuel) -/
def levelImpl : Nat → List Tree → List Nat
  | 0, _ => []
  | f+1, ts =>
    let next := (ts.map cs).flatten
    ts.map id ++ (if next.isEmpty then [] else levelImpl f next)

/-- spec: layers -/
def layer : Nat → Tree → List Nat
  | 0, node i _ => [i]
  | d+1, node _ cs => layerL d cs
where layerL (d : Nat) : List Tree → List Nat
  | [] => []
  | c :: cs => layer d c ++ layerL d cs

theorem layerL_eq (d : Nat) (cs : List Tree) : layer.layerL d cs = (cs.map (layer d)).flatten := by
  induction cs with
  | nil => simp [layer.layerL]
  | cons c cs ih => simp [layer.layerL, ih]

def layersOfForest (ts : List Tree) (d : Nat) : List Nat := (ts.map (layer d)).flatten

theorem layers_succ (ts : List Tree) (d : Nat) :
    layersOfForest ts (d+1) = layersOfForest ((ts.map cs).flatten) d := by
  induction ts with
  | nil => simp [layersOfForest]
  | cons t ts ih =>
    cases t with
    | node i cs =>
      simp only [layersOfForest] at ih ⊢
      simp [layer, layerL_eq, Tree.cs, ih]


theorem layersOfForest_zero (ts : List Tree) : layersOfForest ts 0 = ts.map id := by
  induction ts with
  | nil => simp [layersOfForest]
  | cons t ts ih =>
    cases t with
    | node i cs => simp only [layersOfForest] at ih ⊢; simp [layer, Tree.id, ih]

theorem heightL_next (ts : List Tree) :
    height.heightL ((ts.map cs).flatten) = height.heightL ts - 1 := by
  induction ts with
  | nil => simp [height.heightL]
  | cons t ts ih =>
    cases t with
    | node i cs =>
      have happ : ∀ (a b : List Tree), height.heightL (a ++ b) = max (height.heightL a) (height.heightL b) := by
        intro a b
        induction a with
        | nil => simp [height.heightL]
        | cons x xs ihx => simp [height.heightL, ihx, Nat.max_assoc]
      simp only [List.map_cons, List.flatten_cons, happ, ih, height.heightL, height, Tree.cs]
      omega

theorem next_empty_iff (ts : List Tree) :
    ((ts.map cs).flatten).isEmpty = true ↔ height.heightL ts ≤ 1 := by
  induction ts with
  | nil => simp [height.heightL]
  | cons t ts ih =>
    cases t with
    | node i cs =>
      cases cs with
      | nil =>
        simp only [List.map_cons, List.flatten_cons, Tree.cs, List.nil_append, height.heightL, height]
        rw [ih]; omega
      | cons c cs' =>
        simp only [List.map_cons, List.flatten_cons, Tree.cs, List.cons_append, List.isEmpty_cons,
          height.heightL, height]
        have : 1 ≤ height c := by cases c; simp [height]
        constructor
        · intro h; cases h
        · intro h; omega

theorem levelImpl_eq (f : Nat) (ts : List Tree) (hf : height.heightL ts ≤ f) (hne : ts ≠ []) :
    levelImpl f ts = ((List.range (height.heightL ts)).map (layersOfForest ts)).flatten := by
  induction f generalizing ts with
  | zero =>
    exfalso
    cases ts with
    | nil => exact hne rfl
    | cons t ts => cases t; simp [height.heightL, height] at hf
  | succ f ih =>
    have hpos : 1 ≤ height.heightL ts := by
      cases ts with
      | nil => exact absurd rfl hne
      | cons t ts => cases t; simp [height.heightL, height]; omega
    simp only [levelImpl]
    by_cases he : ((ts.map cs).flatten).isEmpty = true
    · have h1 : height.heightL ts = 1 := by have := (next_empty_iff ts).1 he; omega
      simp [he, h1, layersOfForest_zero]
    · have hne' : (ts.map cs).flatten ≠ [] := by
        intro h; apply he; simp [h]
      have hh := heightL_next ts
      have := ih ((ts.map cs).flatten) (by omega) hne'
      simp only [he, Bool.false_eq_true, if_false, this, hh]
      obtain ⟨k, hk⟩ : ∃ k, height.heightL ts = k + 1 := ⟨height.heightL ts - 1, by omega⟩
      simp only [hk, Nat.add_sub_cancel, List.range_succ_eq_map, List.map_cons, List.flatten_cons,
        layersOfForest_zero, List.map_map]
      congr 2
      apply List.map_congr_left
      intro d _
      simp [Function.comp, layers_succ]

end Tree
