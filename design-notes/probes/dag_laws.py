import random, sys
from bigtree import *
random.seed(int(sys.argv[1]) if len(sys.argv)>1 else 0)
bad=0
for it in range(3000):
    n=random.randint(2,9)
    order=list(range(n)); random.shuffle(order)   # topological order
    edges=set()
    for j in range(1,n):
        # connect to at least one earlier to keep weakly connected
        k=random.randint(1,min(j,3))
        for i in random.sample(range(j),k): edges.add((order[i],order[j]))
    el=list(edges); random.shuffle(el)
    nodes=[DAGNode(f"n{i}") for i in range(n)]
    for a,b in el:
        if random.random()<0.5: nodes[b].parents=[nodes[a]]
        else: nodes[a].children=[nodes[b]]
    for s in range(n):
        got=[(int(p.name[1:]),int(c.name[1:])) for p,c in dag_iterator(nodes[s])]
        if sorted(got)!=sorted(edges): bad+=1; print("dag_iter mismatch",el,s,got); break
    # round trip
    rel=dag_to_list(nodes[0]); d2=list_to_dag(rel)
    got=set((p.name,c.name) for p,c in dag_iterator(d2))
    if got!=set((f"n{a}",f"n{b}") for a,b in edges): bad+=1; print("rt mismatch")
    dd=dag_to_dict(nodes[0]); d3=dict_to_dag(dd)
    got=set((p.name,c.name) for p,c in dag_iterator(d3))
    if got!=set((f"n{a}",f"n{b}") for a,b in edges): bad+=1; print("rt dict mismatch")
    df=dag_to_dataframe(nodes[0]); d4=dataframe_to_dag(df)
    got=set((p.name,c.name) for p,c in dag_iterator(d4))
    if got!=set((f"n{a}",f"n{b}") for a,b in edges): bad+=1; print("rt df mismatch")
    # reach
    import itertools
    reach={i:set() for i in range(n)}
    ch={i:[b for a,b in edges if a==i] for i in range(n)}
    def dfs(i,acc):
        for c in ch[i]:
            if c not in acc: acc.add(c); dfs(c,acc)
    for i in range(n): dfs(i,reach[i])
    for i in range(n):
        d=[int(x.name[1:]) for x in nodes[i].descendants]
        a=[int(x.name[1:]) for x in nodes[i].ancestors]
        if sorted(d)!=sorted(reach[i]) or len(set(d))!=len(d): bad+=1; print("desc mismatch")
        anc=[j for j in range(n) if i in reach[j]]
        if sorted(a)!=sorted(anc) or len(set(a))!=len(a): bad+=1; print("anc mismatch")
    if bad: break
print("dag bad",bad)
