import random, sys, itertools
from bigtree import *
from bigtree.utils.exceptions import *
random.seed(int(sys.argv[1]) if len(sys.argv)>1 else 0)
def rand_nodes(n, cls=Node):
    nodes=[cls("n0")]
    for i in range(1,n):
        nodes.append(cls(f"n{i}",parent=random.choice(nodes[-3:] if random.random()<0.5 else nodes)))
    return nodes
bad={}
def B(k,*a):
    bad[k]=bad.get(k,0)+1
    if bad[k]<3: print("FAIL",k,*a)
for it in range(1500):
    nodes=rand_nodes(random.randint(1,14)); root=nodes[0]
    par={id(n):n.parent for n in nodes}
    def anc(n):
        out=[]; x=n.parent
        while x is not None: out.append(x); x=x.parent
        return out
    def sub(n):
        out=[n]
        for c in n.children: out+=sub(c)
        return out
    def dist(a,b):
        A=[a]+anc(a); Bn=[b]+anc(b)
        for i,x in enumerate(A):
            if x in Bn: return i+Bn.index(x)
    for n in nodes:
        if list(n.ancestors)!=anc(n): B("anc")
        if list(n.descendants)!=sub(n)[1:]: B("desc")
        if list(n.leaves)!=[x for x in sub(n) if not x.children]: B("leaves")
        if n.depth!=len(anc(n))+1: B("depth")
        if n.root is not ([n]+anc(n))[-1]: B("root")
        if n.max_depth!=max(len(anc(x))+1 for x in nodes): B("max_depth")
        S=sub(n); dm=max(dist(a,b) for a in S for b in S)
        if n.diameter!=dm: B("diameter",n.diameter,dm)
        sib=tuple(c for c in n.parent.children if c is not n) if n.parent else ()
        if tuple(n.siblings)!=sib: B("siblings")
        if list(n.node_path)!=anc(n)[::-1]+[n]: B("node_path")
    a,b=random.choice(nodes),random.choice(nodes)
    p=list(a.go_to(b))
    if p[0] is not a or p[-1] is not b or len(p)!=dist(a,b)+1 or len(set(map(id,p)))!=len(p): B("go_to")
    for x,y in zip(p,p[1:]):
        if not (x.parent is y or y.parent is x): B("go_to adj")
    # prune
    targets=random.sample(nodes[1:],min(len(nodes)-1,random.randint(1,2))) if len(nodes)>1 else []
    # non nested
    if targets and not any(t1 is not t2 and (t1 in anc(t2)) for t1 in targets for t2 in targets):
        exact=random.random()<0.5; md=random.choice([0,0,2,3])
        try:
            pr=prune_tree(root,[t.path_name for t in targets],exact=exact,max_depth=md)
            got=[x.path_name for x in preorder_iter(pr)]
            keep=[]
            for x in sub(root):
                k=any(x is t or x in anc(t) or ((not exact) and t in anc(x)) for t in targets)
                if md and x.depth>md: k=False
                if k: keep.append(x.path_name)
            if got!=keep: B("prune",[t.path_name for t in targets],exact,md,got,keep)
        except Exception as e: B("prune exc",repr(e))
    # relation
    edges=[(n.parent.name,n.name) for n in nodes[1:]]
    if edges:
        random.shuffle(edges)
        t2=list_to_tree_by_relation(edges)
        got=sorted((x.parent.name,x.name) for x in preorder_iter(t2) if x.parent)
        if got!=sorted(edges): B("relation edges")
        for x in preorder_iter(t2):
            exp=[c for p,c in edges if p==x.name]
            if [c.name for c in x.children]!=exp: B("relation order")
print("bad",bad)
# binary heap
from bigtree import list_to_binarytree
for n in range(1,40):
    t=list_to_binarytree(list(range(100,100+n)))
    L=[None]*n
    def walk(x,i):
        if x is None: return
        L[i]=x.val; walk(x.left,2*i+1) if 2*i+1<n or x.left else None; walk(x.right,2*i+2) if 2*i+2<n or x.right else None
    walk(t,0)
    assert L==list(range(100,100+n)),(n,L)
print("heap ok")
