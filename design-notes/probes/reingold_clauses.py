import random, sys
from bigtree import *
random.seed(int(sys.argv[1]) if len(sys.argv)>1 else 0)
def rand_tree(n):
    nodes=[Node("n0")]
    for i in range(1,n):
        nodes.append(Node(f"n{i}",parent=random.choice(nodes[-4:] if random.random()<0.5 else nodes)))
    return nodes[0]
EPS=1e-9
cnt={"y":0,"mid":0,"sib":0,"cousin":0,"neg":0,"total":0,"cousin_trees":0}
for it in range(20000):
    t=rand_tree(random.randint(1,16))
    ss=random.choice([1.0,0.5,2.0,1.5]); st=random.choice([1.0,0.5,2.0,3.0]); ls=random.choice([1.0,2.0,0.5])
    reingold_tilford(t,ss,st,ls)
    cnt["total"]+=1
    levels=[list(g) for g in levelordergroup_iter(t)]
    md=t.max_depth
    ct=False
    for d,lv in enumerate(levels,1):
        for a,b in zip(lv,lv[1:]):
            if abs(a.y-b.y)>EPS: cnt["y"]+=1
            if b.x-a.x < min(ss,st)-EPS:
                if a.parent is b.parent: cnt["sib"]+=1
                else: cnt["cousin"]+=1; ct=True
            if a.parent is b.parent and b.x-a.x<ss-EPS: cnt["sib"]+=1
        for a in lv:
            if abs(a.y-(md-d)*ls)>EPS: cnt["y"]+=1
            if a.x< -EPS: cnt["neg"]+=1
            if a.children and abs(a.x-(a.children[0].x+a.children[-1].x)/2)>EPS: cnt["mid"]+=1
    cnt["cousin_trees"]+=ct
print(cnt)
