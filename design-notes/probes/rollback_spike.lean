/-! Spike: rollback lemmas for the children setter -/

theorem erase_insertIdx (l : List Nat) (v : Nat) (hv : v ∈ l) (hn : l.Nodup) :
    (l.erase v).insertIdx (l.idxOf v) v = l := by
  induction l with
  | nil => cases hv
  | cons a l ih =>
    by_cases h : a = v
    · subst h; simp
    · have hv' : v ∈ l := by
        cases hv with
        | head => exact absurd rfl h
        | tail _ h' => exact h'
      have : (a == v) = false := by simp [h]
      simp [List.idxOf_cons, this, ih hv' (List.nodup_cons.1 hn).2]

def keep (x : Nat) (R : List Nat) (y : Nat) : Bool := y != x && !R.contains y
def keepR (R : List Nat) (y : Nat) : Bool := !R.contains y

theorem reinsert_one (l : List Nat) (x : Nat) (R : List Nat) (hn : l.Nodup) (hx : x ∈ l)
    (hxR : x ∉ R) (hlt : ∀ r ∈ R, r ∈ l → l.idxOf x < l.idxOf r) :
    (l.filter (keep x R)).insertIdx (l.idxOf x) x = l.filter (keepR R) := by
  induction l with
  | nil => cases hx
  | cons a l ih =>
    have hnl := (List.nodup_cons.1 hn)
    by_cases h : a = x
    · subst h
      have hfil : l.filter (keep a R) = l.filter (keepR R) := by
        apply List.filter_congr
        intro y hy
        have : y ≠ a := fun e => hnl.1 (e ▸ hy)
        simp [keep, keepR, this]
      have h1 : keep a R a = false := by simp [keep]
      have h2 : keepR R a = true := by simp [keepR, hxR]
      simp [List.filter_cons, h1, h2, hfil]
    · have hx' : x ∈ l := by
        cases hx with
        | head => exact absurd rfl h
        | tail _ h' => exact h'
      have haR : a ∉ R := by
        intro haR
        have := hlt a haR (List.mem_cons_self)
        simp [List.idxOf_cons, h] at this
      have hbeq : (a == x) = false := by simp [h]
      have ih' := ih hnl.2 hx' (by
        intro r hr hrl
        have := hlt r hr (List.mem_cons_of_mem _ hrl)
        have hra : (a == r) = false := by
          simp; intro e; exact haR (e ▸ hr)
        simpa [List.idxOf_cons, hbeq, hra] using this)
      have h1 : keep x R a = true := by simp [keep, h, haR]
      have h2 : keepR R a = true := by simp [keepR, haR]
      simp [List.filter_cons, h1, h2, List.idxOf_cons, hbeq, ih']
