import random, sys
from bigtree import *
from bigtree.utils.exceptions import *
random.seed(int(sys.argv[1]) if len(sys.argv)>1 else 0)
FAIL={"pre":False,"post":False}
class HB(BaseNode):
    def _BaseNode__pre_assign_parent(self,p):
        if FAIL["pre"]: raise RuntimeError("pre")
    def _BaseNode__post_assign_parent(self,p):
        if FAIL["post"]: raise RuntimeError("post")
    def _BaseNode__pre_assign_children(self,c):
        if FAIL["pre"]: raise RuntimeError("pre")
    def _BaseNode__post_assign_children(self,c):
        if FAIL["post"]: raise RuntimeError("post")
class HN(Node):
    def _Node__pre_assign_parent(self,p):
        if FAIL["pre"]: raise RuntimeError("pre")
    def _Node__post_assign_parent(self,p):
        if FAIL["post"]: raise RuntimeError("post")
    def _Node__pre_assign_children(self,c):
        if FAIL["pre"]: raise RuntimeError("pre")
    def _Node__post_assign_children(self,c):
        if FAIL["post"]: raise RuntimeError("post")
class HBin(BinaryNode):
    def _BinaryNode__pre_assign_parent(self,p):
        if FAIL["pre"]: raise RuntimeError("pre")
    def _BinaryNode__post_assign_parent(self,p):
        if FAIL["post"]: raise RuntimeError("post")
    def _BinaryNode__pre_assign_children(self,c):
        if FAIL["pre"]: raise RuntimeError("pre")
    def _BinaryNode__post_assign_children(self,c):
        if FAIL["post"]: raise RuntimeError("post")
def snap(nodes):
    return [(None if n.parent is None else nodes.index(n.parent), [None if c is None else nodes.index(c) for c in n.children]) for n in nodes]
def wf(nodes, binary=False):
    for i,n in enumerate(nodes):
        ch=[c for c in n.children if c is not None]
        if len(set(map(id,ch)))!=len(ch): return "dup child"
        for c in ch:
            if c.parent is not n: return "child parent mismatch"
        if n.parent is not None and sum(1 for c in n.parent.children if c is n)!=1: return "not once in parent"
        if binary and len(n.children)!=2: return "slots!=2"
        # acyclic
        seen=set(); x=n
        while x is not None:
            if id(x) in seen: return "cycle"
            seen.add(id(x)); x=x.parent
    return None
def run(cls, binary=False, named=False, iters=2000):
    bad=0
    for it in range(iters):
        k=random.randint(2,6); FAIL["pre"]=False; FAIL["post"]=False
        if cls is HB: nodes=[cls() for i in range(k)]
        elif binary: nodes=[cls(i) for i in range(k)]
        else: nodes=[cls(random.choice("abc")) for i in range(k)]
        hist=[]
        for step in range(random.randint(1,25)):
            before=snap(nodes)
            FAIL["pre"]=random.random()<0.1; FAIL["post"]=random.random()<0.15
            op=random.choice(["parent","children","delch","append","left","right"] if binary else ["parent","children","delch","append","extend","sort"])
            a=random.randrange(k)
            try:
                if op=="parent":
                    b=random.choice([None]+list(range(k))); hist.append((op,a,b,dict(FAIL))); nodes[a].parent = None if b is None else nodes[b]
                elif op=="children":
                    if binary:
                        L=[random.choice([None]+list(range(k))) for _ in range(2)]
                    else:
                        L=[random.randrange(k) for _ in range(random.randint(0,4))]
                    hist.append((op,a,L,dict(FAIL))); nodes[a].children=[None if x is None else nodes[x] for x in L]
                elif op=="delch":
                    hist.append((op,a)); del nodes[a].children
                elif op=="append":
                    b=random.randrange(k); hist.append((op,a,b,dict(FAIL))); nodes[a].append(nodes[b])
                elif op=="extend":
                    L=[random.randrange(k) for _ in range(random.randint(0,3))]; hist.append((op,a,L,dict(FAIL))); nodes[a].extend([nodes[x] for x in L])
                elif op=="sort":
                    hist.append((op,a)); nodes[a].sort(key=lambda n: id(n)%7)
                elif op=="left":
                    b=random.choice([None]+list(range(k))); hist.append((op,a,b,dict(FAIL))); nodes[a].left=None if b is None else nodes[b]
                elif op=="right":
                    b=random.choice([None]+list(range(k))); hist.append((op,a,b,dict(FAIL))); nodes[a].right=None if b is None else nodes[b]
                ok=True
            except (TreeError,RuntimeError,TypeError,ValueError) as e:
                ok=False
                if op!="extend" and snap(nodes)!=before:
                    bad+=1; print(cls.__name__,"ROLLBACK FAIL",hist[-1],before,snap(nodes),repr(e)); break
            w=wf(nodes,binary)
            if w: bad+=1; print(cls.__name__,"WF FAIL",w,hist[-3:]); break
        if bad>3: break
    print(cls.__name__,"bad",bad)
run(HB); run(HN,named=True); run(HBin,binary=True)
