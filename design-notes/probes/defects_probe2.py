from bigtree import *
import copy
b=BinaryNode(1); c=BinaryNode(2,parent=b)
try: print("bin diameter", b.diameter)
except Exception as e: print("bin diameter ->", type(e).__name__, e)
print("bin max_depth", b.max_depth, [n.name for n in b.descendants], [n.name for n in b.leaves])
# RT twice
t=list_to_tree(["r/a","r/b/c","r/b/d/e","r/f/g/h","r/f/g/i"])
reingold_tilford(t); xs1=[(n.name,n.x,n.y) for n in preorder_iter(t)]
reingold_tilford(t); xs2=[(n.name,n.x,n.y) for n in preorder_iter(t)]
print(xs1==xs2); print(xs1); print(xs2)
# find_relative_paths absolute
r=list_to_tree(["a/b/c","a/d"])
print(find_relative_paths(r,"/a/zzz"), find_relative_paths(r,"/a/b",min_count=2))
# shallow copy aliasing
a=Node("a"); x=Node("x",parent=a); s=copy.copy(a); print(s.children, x.parent is a)
try:
    import pydot; print("pydot ok", pydot.__version__)
except Exception as e: print("no pydot", e)
try:
    import PIL; print("PIL ok")
except Exception as e: print("no PIL", e)
import pandas, polars; print(pandas.__version__, polars.__version__)
try:
    import matplotlib; print("mpl", matplotlib.__version__)
except Exception as e: print("no mpl")
# get_tree_diff with different sep
t1=list_to_tree(["a\\b","a\\c"],sep="\\"); t2=list_to_tree(["a\\c"],sep="\\")
try:
    d=get_tree_diff(t1,t2); print("diff sep:", [n.path_name for n in preorder_iter(d)])
except Exception as e: print("diff sep ->", type(e).__name__, e)
