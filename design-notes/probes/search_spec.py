import random, sys
from bigtree import *
from bigtree.utils.exceptions import *
random.seed(int(sys.argv[1]) if len(sys.argv)>1 else 0)
NAMES=["a","b","ab","ba","c"]
bad={}
def B(k,*a):
    bad[k]=bad.get(k,0)+1
    if bad[k]<3: print("FAIL",k,*a)
def rand_tree(n):
    root=Node(random.choice(NAMES)); nodes=[root]
    for i in range(n):
        p=random.choice(nodes); nm=random.choice(NAMES)
        if any(c.name==nm for c in p.children): continue
        nodes.append(Node(nm,parent=p,age=random.choice([1,2,3])))
    return nodes
def spec_resolve(node, comps, wildcard):
    # returns list or raises
    if not comps: return [node]
    c=comps[0]
    if c==".": return spec_resolve(node,comps[1:],wildcard)
    if c=="..":
        if node.parent is None: raise SearchError("root")
        return spec_resolve(node.parent,comps[1:],wildcard)
    if c=="*":
        out=[]
        for ch in node.children: out+=spec_resolve(ch,comps[1:],wildcard)
        return out
    m=[ch for ch in node.children if ch.name==c]
    if not m:
        if wildcard: return []
        raise SearchError("missing")
    return spec_resolve(m[0],comps[1:],wildcard)
for it in range(3000):
    nodes=rand_tree(random.randint(0,12)); root=nodes[0]
    start=random.choice(nodes)
    def pre(n,md):
        if md and n.depth>md: return []
        out=[n]
        for c in n.children: out+=pre(c,md)
        return out
    md=random.choice([0,0,1,2,3])
    q=random.choice(NAMES)
    exp=[n for n in pre(start,md) if n.name==q]
    if list(find_names(start,q,md))!=exp: B("find_names")
    try:
        r=find_name(start,q,md)
        if len(exp)>1: B("find_name no error")
        elif (r is None)!=(len(exp)==0) or (exp and r is not exp[0]): B("find_name result")
    except SearchError:
        if len(exp)<=1: B("find_name spurious error")
    suf=random.choice([n.path_name for n in nodes])[random.randint(0,3):]
    exp=[n for n in pre(start,0) if n.path_name.endswith(suf.rstrip("/"))]
    if list(find_paths(start,suf))!=exp: B("find_paths",suf)
    v=random.choice([1,2,3]); exp=[n for n in pre(start,md) if n.get_attr("age")==v]
    if list(find_attrs(start,"age",v,md))!=exp: B("find_attrs")
    mn,mx=random.randint(0,3),random.randint(0,3)
    cond=lambda n: n.get_attr("age")==v
    exp=[n for n in pre(start,md) if cond(n)]
    try:
        r=findall(start,cond,md,mn,mx)
        if (mn and len(exp)<mn) or (mx and len(exp)>mx): B("findall no error")
        elif list(r)!=exp: B("findall result")
    except SearchError:
        if not((mn and len(exp)<mn) or (mx and len(exp)>mx)): B("findall spurious")
    # full path
    p=random.choice(nodes).path_name
    for variant in (p,p+"/",p[1:],p[1:]+"/"):
        if find_full_path(start,variant) is not [n for n in nodes if n.path_name==p][0]: B("full_path",variant)
    miss=p+"/zz"
    if find_full_path(start,miss) is not None: B("full path miss")
    # relative
    comps=[random.choice([".","..","*"]+NAMES) for _ in range(random.randint(1,5))]
    rp="/".join(comps)
    try: exp=spec_resolve(start,comps,"*" in rp); e1=None
    except SearchError: e1=True
    try: got=list(find_relative_paths(start,rp)); e2=None
    except SearchError: e2=True
    if e1!=e2: B("relative err",rp,e1,e2)
    elif not e1 and [id(x) for x in got]!=[id(x) for x in exp]: B("relative",rp)
    # children
    exp=[c for c in start.children if c.name==q]
    if list(find_children(start,lambda n:n.name==q))!=exp: B("find_children")
print("bad",bad)
