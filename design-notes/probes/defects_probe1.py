from bigtree import Node, BinaryNode, BaseNode, DAGNode, list_to_tree, add_path_to_tree, print_tree, shift_nodes, get_tree_diff, nested_dict_to_tree, reingold_tilford, preorder_iter
from bigtree.utils.exceptions import TreeError
# C02 rollback order
class H(Node):
    fail=False
    def _Node__post_assign_children(self, new_children):
        if H.fail: raise RuntimeError("boom")
p=H("p"); x=H("x",parent=p); y=H("y",parent=p); z=H("z",parent=p); q=H("q")
H.fail=True
try: q.children=[y,x]
except TreeError as e: print("raised", type(e).__name__)
H.fail=False
print("C02 p.children after failed q.children=[y,x]:", [c.name for c in p.children])
# C05
r=list_to_tree(["a/xa/b"])
n=add_path_to_tree(r,"a/b",duplicate_name_allowed=False)
print("C05:", n.path_name, [x.path_name for x in preorder_iter(r)])
# C11
b=BinaryNode(1); c=BinaryNode(2,parent=b)
del b.children
print("C11 children after del:", b.children)
try: print(b.left)
except Exception as e: print("left ->", type(e).__name__, e)
try: BinaryNode(3).parent=b; print("ok attach")
except Exception as e: print("attach ->", type(e).__name__, e)
# C15
t1=list_to_tree(["a/b","a/bc"]); t2=list_to_tree(["a/bc"])
d=get_tree_diff(t1,t2); print("C15:", [x.path_name for x in preorder_iter(d)])
t1=list_to_tree(["a/b(","a/c"]); t2=list_to_tree(["a/c"])
try:
    d=get_tree_diff(t1,t2); print([x.path_name for x in preorder_iter(d)])
except Exception as e: print("C15 paren ->", type(e).__name__, e)
t1=list_to_tree(["a/b.c","a/bxc"]); t2=list_to_tree(["a/bxc"])
d=get_tree_diff(t1,t2, only_diff=False); print("C15 dot:", [x.path_name for x in preorder_iter(d)])
# C19
t=nested_dict_to_tree({"name":"r","children":[{"name":"a"},{"name":"b","children":[{"name":"c"},{"name":"d","children":[{"name":"e"}]}]},{"name":"f","children":[{"name":"g","children":[{"name":"h"},{"name":"i"}]}]}]})
reingold_tilford(t)
for n in preorder_iter(t): print(n.path_name, n.x, n.y)
