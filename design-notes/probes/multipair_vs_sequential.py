import random, sys, itertools
from bigtree import *
from bigtree.utils.exceptions import *
random.seed(int(sys.argv[1]) if len(sys.argv)>1 else 0)
def rand_tree(n):
    nodes=[Node("r")]
    for i in range(1,n):
        p=random.choice(nodes)
        nm=random.choice("abcdef")
        if any(c.name==nm for c in p.children): continue
        nodes.append(Node(nm,parent=p,tag=i))
    return nodes[0]
def sig(t): return (t.name,t.get_attr("tag"),tuple(sig(c) for c in t.children))
stats={"same":0,"diff":0,"err_both":0,"err_one":0}
for it in range(4000):
    t=rand_tree(random.randint(3,12))
    allp=[n.path_name for n in preorder_iter(t) if not n.is_root]
    if len(allp)<2: continue
    k=random.randint(2,3)
    fr=random.sample(allp,min(k,len(allp)))
    to=[]
    for f in fr:
        dest_parent=random.choice([n.path_name for n in preorder_iter(t)])
        if random.random()<0.3: dest_parent+="/new"
        to.append(dest_parent+"/"+f.split("/")[-1])
    flags=dict(overriding=random.random()<0.6, merge_children=random.random()<0.5, merge_leaves=False, delete_children=random.random()<0.2, skippable=random.random()<0.3, with_full_path=True)
    if not flags["merge_children"] and random.random()<0.3: flags["merge_leaves"]=True
    cp=random.random()<0.5
    fn=copy_nodes if cp else shift_nodes
    t1=t.copy(); t2=t.copy()
    e1=e2=None
    try: fn(t1,fr,to,**flags)
    except Exception as e: e1=type(e).__name__
    try:
        for f,o in zip(fr,to): fn(t2,[f],[o],**flags)
    except Exception as e: e2=type(e).__name__
    if e1 or e2:
        if e1 and e2: stats["err_both"]+=1
        else: stats["err_one"]+=1
        continue
    if sig(t1)==sig(t2): stats["same"]+=1
    else:
        stats["diff"]+=1
        if stats["diff"]<3: print("DIFF",fr,to,flags,cp); print_tree(t); print_tree(t1); print_tree(t2)
print(stats)
