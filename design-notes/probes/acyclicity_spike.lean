/-- pointer-level store: parent and ordered children per node id -/
structure Store where
  n : Nat
  parent : Nat → Option Nat
  children : Nat → List Nat

namespace Store

def IsParent (s : Store) (p c : Nat) : Prop := s.parent c = some p

structure WF (s : Store) : Prop where
  up   : ∀ c p, s.parent c = some p → c ∈ s.children p
  down : ∀ p c, c ∈ s.children p → s.parent c = some p
  nodup : ∀ p, (s.children p).Nodup
  acyc : ∀ v, Acc s.IsParent v

/-- ancestors by fuel -/
def anc (s : Store) : Nat → Nat → List Nat
  | 0, _ => []
  | f+1, v => match s.parent v with
    | none => []
    | some p => p :: anc s f p

/-- reflexive-transitive "a is an ancestor-or-self of v" -/
inductive Reach (s : Store) : Nat → Nat → Prop
  | refl (v) : Reach s v v
  | step {a p v} : Reach s a p → s.parent v = some p → Reach s a v

def setParentRaw (s : Store) (v : Nat) (np : Option Nat) : Store :=
  let cur := s.parent v
  let ch1 : Nat → List Nat := fun x => if some x = cur then (s.children x).erase v else s.children x
  let ch2 : Nat → List Nat := fun x => if some x = np then ch1 x ++ [v] else ch1 x
  { s with parent := fun x => if x = v then np else s.parent x, children := ch2 }

theorem acyc_setParent (s : Store) (h : ∀ v, Acc s.IsParent v) (v p : Nat)
    (hne : p ≠ v) (hnr : ¬ Reach s v p) :
    ∀ x, Acc (setParentRaw s v (some p)).IsParent x := by
  -- nodes whose old chain avoids v are accessible in the new store
  have key : ∀ y, ¬ Reach s v y → Acc (setParentRaw s v (some p)).IsParent y := by
    intro y
    induction h y with
    | intro y _ ih =>
      intro hy
      constructor
      intro q hq
      have hyv : y ≠ v := fun e => hy (e ▸ Reach.refl _)
      have hq' : s.parent y = some q := by
        simpa [IsParent, setParentRaw, hyv] using hq
      exact ih q hq' (fun hr => hy (Reach.step hr hq'))
  have hv : Acc (setParentRaw s v (some p)).IsParent v := by
    constructor
    intro q hq
    have : q = p := by
      have : some p = some q := by simpa [IsParent, setParentRaw] using hq
      exact (Option.some.inj this).symm
    subst this
    exact key q hnr
  intro x
  induction h x with
  | intro x _ ih =>
    by_cases hx : x = v
    · subst hx; exact hv
    · constructor
      intro q hq
      have hq' : s.parent x = some q := by
        simpa [IsParent, setParentRaw, hx] using hq
      exact ih q hq'

end Store
