import random, sys, os
from bigtree import *
from bigtree.utils.exceptions import *
random.seed(int(sys.argv[1]) if len(sys.argv)>1 else 0)
FAIL={"pre":False,"post":False}
class HD(DAGNode):
    def _DAGNode__pre_assign_parents(self,p):
        if FAIL["pre"]: raise RuntimeError("pre")
    def _DAGNode__post_assign_parents(self,p):
        if FAIL["post"]: raise RuntimeError("post")
    def _DAGNode__pre_assign_children(self,c):
        if FAIL["pre"]: raise RuntimeError("pre")
    def _DAGNode__post_assign_children(self,c):
        if FAIL["post"]: raise RuntimeError("post")
def snap(nodes): return [([nodes.index(p) for p in n.parents],[nodes.index(c) for c in n.children]) for n in nodes]
def dwf(nodes):
    for n in nodes:
        if len(set(map(id,n.parents)))!=len(n.parents) or len(set(map(id,n.children)))!=len(n.children): return "dup"
        for c in n.children:
            if not any(p is n for p in c.parents): return "asym1"
        for p in n.parents:
            if not any(c is n for c in p.children): return "asym2"
    # acyclic
    col={}
    def dfs(x):
        col[id(x)]=1
        for c in x.children:
            if col.get(id(c))==1: return True
            if id(c) not in col and dfs(c): return True
        col[id(x)]=2; return False
    for n in nodes:
        if id(n) not in col and dfs(n): return "cycle"
    return None
bad=0
for it in range(3000):
    k=random.randint(2,6); FAIL["pre"]=FAIL["post"]=False
    nodes=[HD(f"n{i}") for i in range(k)]
    for step in range(random.randint(1,20)):
        before=snap(nodes); FAIL["pre"]=random.random()<0.1; FAIL["post"]=random.random()<0.15
        a=random.randrange(k); op=random.choice(["parents","children","rshift","lshift","delch","delitem"])
        L=[random.randrange(k) for _ in range(random.randint(0,3))]
        desc=(op,a,L,dict(FAIL))
        try:
            if op=="parents": nodes[a].parents=[nodes[x] for x in L]
            elif op=="children": nodes[a].children=[nodes[x] for x in L]
            elif op=="rshift": nodes[a]>>nodes[L[0] if L else 0]
            elif op=="lshift": nodes[a]<<nodes[L[0] if L else 0]
            elif op=="delch": del nodes[a].children
            elif op=="delitem": del nodes[a][f"n{L[0] if L else 0}"]
            after=snap(nodes)
            # only adds
            if op in("parents","children","rshift","lshift"):
                for i,(p,c) in enumerate(before):
                    if after[i][0][:len(p)]!=p or after[i][1][:len(c)]!=c: bad+=1; print("not only-add",desc)
        except (TreeError,RuntimeError,TypeError) as e:
            if snap(nodes)!=before: bad+=1; print("DAG ROLLBACK FAIL",desc,before,snap(nodes))
        w=dwf(nodes)
        if w: bad+=1; print("DWF",w,desc); break
print("dag hist bad",bad)
# C03 histories
NAMES=["a","b","ab","ba","a"]
for it in range(2000):
    k=random.randint(2,7)
    nodes=[Node(random.choice(NAMES)) for _ in range(k)]
    for step in range(random.randint(1,20)):
        a=random.randrange(k); op=random.choice(["parent","children","delitem","sep"])
        try:
            if op=="parent": nodes[a].parent=random.choice([None]+nodes)
            elif op=="children": nodes[a].children=[nodes[random.randrange(k)] for _ in range(random.randint(0,4))]
            elif op=="delitem": del nodes[a][random.choice(NAMES)]
            else: nodes[a].sep=random.choice(["/",".","|"])
        except TreeError: pass
        for n in nodes:
            nm=[c.name for c in n.children]
            if len(set(nm))!=len(nm): bad+=1; print("DUP SIBLING")
            sep=n.root._sep
            exp=sep+sep.join(x.name for x in n.node_path)
            if n.path_name!=exp or n.sep!=sep or n.depth!=len(list(n.node_path)): bad+=1; print("PATH")
            if sep not in "".join(NAMES):
                if find_full_path(random.choice(list(n.root.descendants) or [n.root]), n.path_name) is not n: bad+=1; print("LOOKUP")
print("c03 bad",bad)
