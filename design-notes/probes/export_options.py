import random, sys
from bigtree import *
random.seed(int(sys.argv[1]) if len(sys.argv)>1 else 0)
def rand_tree(n):
    nodes=[Node("n0",age=0)]
    for i in range(1,n):
        nodes.append(Node(f"n{i}",parent=random.choice(nodes[-4:] if random.random()<0.6 else nodes),age=i))
    return nodes
bad=0
for it in range(1500):
    nodes=rand_tree(random.randint(1,20)); root=nodes[0]; start=random.choice(nodes)
    md=random.choice([0,0,1,2,3,5]); sd=random.choice([0,0,1,2,3]); lo=random.random()<0.4
    def pre(n):
        out=[n]
        for c in n.children: out+=pre(c)
        return out
    exp=[n for n in pre(start) if (not md or n.depth<=md) and (not sd or n.depth>sd) and (not lo or n.is_leaf)]
    d=tree_to_dict(start,name_key="name",parent_key="parent",attr_dict={"age":"AGE"},max_depth=md,skip_depth=sd,leaf_only=lo)
    if list(d.keys())!=[n.path_name for n in exp]: bad+=1; print("dict keys")
    for n in exp:
        r=d[n.path_name]
        if r["name"]!=n.name or r["AGE"]!=n.age or r["parent"]!=(n.parent.name if n.parent else None): bad+=1; print("dict rec")
    df=tree_to_dataframe(start,parent_col="parent",attr_dict={"age":"AGE"},max_depth=md,skip_depth=sd,leaf_only=lo)
    if len(exp)==0:
        if len(df)!=0: bad+=1; print("df nonempty")
    else:
        if list(df["path"])!=[n.path_name for n in exp] or list(df["AGE"])!=[n.age for n in exp]: bad+=1; print("df rows")
    pf=tree_to_polars(start,parent_col="parent",attr_dict={"age":"AGE"},max_depth=md,skip_depth=sd,leaf_only=lo)
    if len(exp) and list(pf["path"])!=[n.path_name for n in exp]: bad+=1; print("pl rows")
    nd=tree_to_nested_dict(start,max_depth=md,attr_dict={"age":"AGE"}) if (not md or start.depth<=md) else None
    def nest(n):
        dd={"name":n.name,"AGE":n.age}
        ch=[nest(c) for c in n.children if (not md or c.depth<=md)]
        if ch: dd["children"]=ch
        return dd
    if nd is not None and nd!=nest(start): bad+=1; print("nested")
print("c06 opts bad",bad)
