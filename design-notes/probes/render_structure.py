import random, sys
from bigtree import *
from bigtree.utils.constants import ExportConstants
random.seed(int(sys.argv[1]) if len(sys.argv)>1 else 0)
def rand_tree(n):
    nodes=[Node("n0")]
    for i in range(1,n):
        nodes.append(Node(f"n{i}",parent=random.choice(nodes[-4:] if random.random()<0.6 else nodes)))
    return nodes
bad=0
for it in range(2000):
    nodes=rand_tree(random.randint(1,20)); root=nodes[0]
    style=random.choice(list(ExportConstants.PRINT_STYLES))
    stem,branch,final=ExportConstants.PRINT_STYLES[style]; gap=" "*len(stem)
    md=random.choice([0,0,2,3,5])
    start=random.choice(nodes)
    if sum(1 for n in nodes if n.path_name.endswith(start.path_name))!=1: continue
    rows=list(yield_tree(root,node_name_or_path=start.path_name,max_depth=md,style=style))
    # expected: preorder of subtree at start limited to relative depth md
    def pre(n,d):
        if md and d>md: return []
        out=[(n,d)]
        for c in n.children: out+=pre(c,d+1)
        return out
    exp=pre(start,1)
    if [r[2].name for r in rows]!=[n.name for n,d in exp]: bad+=1; print("ORDER"); continue
    for (pre_s,fill,node),(orig,d) in zip(rows,exp):
        if d==1:
            if pre_s or fill: bad+=1; print("root prefix")
            continue
        has_right = orig.right_sibling is not None
        if fill!=(branch if has_right else final): bad+=1; print("fill")
        # ancestors at relative depth 2..d-1
        chain=list(orig.node_path)[-(d):]  # from start to orig
        expect=""
        for anc in chain[1:-1]:
            expect += stem if anc.right_sibling is not None else gap
        if pre_s!=expect: bad+=1; print("stems",repr(pre_s),repr(expect))
    # hyield sanity: number of leaves lines
    lines=hyield_tree(root,style="const")
    leaves=[l.name for l in root.leaves]
    got=[ln.rstrip().split(" ")[-1] for ln in lines if ln.strip() and ln.rstrip().split(" ")[-1].startswith("n")]
    # every leaf ends a line, in order
    ends=[g for g in got if g in leaves]
    if ends!=leaves: bad+=1; print("hleaf order",ends,leaves)
print("c18 bad",bad)
