import random, sys
from bigtree import *
random.seed(int(sys.argv[1]) if len(sys.argv)>1 else 0)
ALPH=["a","b","bc","b.c","b(","x+","a b","c)","ab","*","[z]","b$","^a","a|b","\\d"]
def rand_tree(n,sep="/"):
    root=Node("r",sep=sep); nodes=[root]
    for i in range(n):
        p=random.choice(nodes); nm=random.choice(ALPH)
        if any(c.name==nm for c in p.children): continue
        kw={"age":random.choice([1,2,3])} if random.random()<0.6 else {}
        nodes.append(Node(nm,parent=p,**kw))
    return root
def paths(t): return {tuple(x.name for x in n.node_path): n for n in preorder_iter(t)}
bad=0; n_none=0
for it in range(1500):
    sep=random.choice(["/","/","-" ,"\\"]) if False else "/"
    t1=rand_tree(random.randint(0,8)); t2=t1.copy()
    # mutate t2
    for _ in range(random.randint(0,3)):
        ns=list(preorder_iter(t2))
        r=random.random()
        if r<0.4 and len(ns)>1:
            random.choice(ns[1:]).parent=None
        elif r<0.8:
            p=random.choice(ns); nm=random.choice(ALPH)
            if not any(c.name==nm for c in p.children): Node(nm,parent=p,age=random.choice([1,2]))
        else:
            random.choice(ns).set_attrs({"age":random.choice([1,2,3,None])})
    P1,P2=paths(t1),paths(t2)
    only=random.random()<0.5
    attr=["age"] if random.random()<0.6 else []
    try:
        d=get_tree_diff(t1,t2,only_diff=only,attr_list=attr)
    except Exception as e:
        bad+=1; print("EXC",type(e).__name__,e); 
        if bad>5: break
        continue
    rem={p for p in P1 if p not in P2}; add={p for p in P2 if p not in P1}
    chg=set()
    if attr:
        for p in P1:
            if p in P2:
                a,b=P1[p].get_attr("age"),P2[p].get_attr("age")
                if a!=b: chg.add(p)
    def mark(p):
        out=[]
        for i in range(len(p)):
            q=p[:i+1]; s=p[i]
            if q in rem: s+=" (-)"
            elif q in add: s+=" (+)"
            elif q in chg: s+=" (~)"
            out.append(s)
        return tuple(out)
    allp=set(P1)|set(P2)
    marked=rem|add|chg
    if only:
        keep={q[:i+1] for q in marked for i in range(len(q))}
    else: keep=allp
    exp={mark(p) for p in keep}
    if d is None:
        n_none+=1
        if exp and not (only and not marked)==False and marked: bad+=1; print("None but expected",exp)
        if only and not marked: continue
        if not only: bad+=1; print("None with only_diff False")
        continue
    got=set(tuple(x.name for x in n.node_path) for n in preorder_iter(d))
    if got!=exp:
        bad+=1
        if bad<4: print("MISMATCH only=",only,attr, sorted(got^exp)); print_tree(t1,attr_list=["age"]); print_tree(t2,attr_list=["age"]); print_tree(d)
print("bad",bad,"none",n_none)
