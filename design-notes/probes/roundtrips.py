import random, sys, io, contextlib, string
import pandas as pd, polars as pl
from bigtree import *
random.seed(int(sys.argv[1]) if len(sys.argv)>1 else 0)
ALPH="abcXY01 ._-+(),:;[]=\"*"   # names alphabet incl. newick specials (no ' and no /)
def rname():
    return "".join(random.choice(ALPH) for _ in range(random.randint(1,3))).strip() or "z"
def rand_tree(n, alph_simple=False):
    root=Node(rname() if not alph_simple else "r")
    nodes=[root]
    for i in range(1,n):
        p=random.choice(nodes)
        for _ in range(20):
            nm=rname() if not alph_simple else random.choice("abcde")+str(random.randint(0,3))
            if all(c.name!=nm for c in p.children): break
        else: continue
        kw={}
        if random.random()<0.5: kw["age"]=random.choice([1,2,30,0])
        if random.random()<0.3: kw["tag"]=random.choice(["x","y z","q:r"])
        nodes.append(Node(nm,parent=p,**kw))
    return root
def sig(t, attrs=("age","tag")):
    return (t.name, tuple((a,t.get_attr(a)) for a in attrs if t.get_attr(a) is not None), tuple(sig(c,attrs) for c in t.children))
stats={}
def rec(k,ok):
    stats.setdefault(k,[0,0]); stats[k][0]+=1; stats[k][1]+= (0 if ok else 1)
for it in range(400):
    t=rand_tree(random.randint(1,12))
    s=sig(t)
    # dict
    d=tree_to_dict(t,all_attrs=True)
    try:
        t2=dict_to_tree(d); ok=sig(t2)==s
    except Exception as e: ok=False; err=e
    rec("dict",ok)
    if not ok: print("dict fail", s)
    nd=tree_to_nested_dict(t,all_attrs=True)
    t2=nested_dict_to_tree(nd); rec("nested",sig(t2)==s)
    df=tree_to_dataframe(t,all_attrs=True)
    try:
        t2=dataframe_to_tree(df.drop(columns=["name"])) ; ok=sig(t2)==s
    except Exception as e: ok=False; print("df exc",e)
    rec("df",ok)
    if not ok and stats["df"][1]<3: print("df fail", s, sig(t2))
    try:
        pf=tree_to_polars(t,all_attrs=True)
        t2=polars_to_tree(pf.drop("name")); ok=sig(t2)==s
    except Exception as e: ok=False; print("pl exc",type(e),e)
    rec("polars",ok)
    if not ok and stats["polars"][1]<3: print("pl fail", s, sig(t2))
    # newick names only
    nw=tree_to_newick(t)
    try:
        t2=newick_to_tree(nw); ok=sig(t2,())==sig(t,())
    except Exception as e: ok=False; print("newick exc",e,nw)
    rec("newick",ok)
    if not ok and stats["newick"][1]<5: print("newick fail", nw, sig(t,()), sig(t2,()))
    # print_tree / str_to_tree
    for style in ["const","ansi","ascii","rounded","double","const_bold"]:
        buf=io.StringIO()
        with contextlib.redirect_stdout(buf): print_tree(t,style=style)
        txt=buf.getvalue()
        from bigtree.utils.constants import ExportConstants
        pre=list(ExportConstants.PRINT_STYLES[style])
        try:
            import re
            t2=str_to_tree(txt, tree_prefix_list=[re.escape(p) for p in pre]+["    "]) if len(t.children) else str_to_tree(txt)
            ok=sig(t2,())==sig(t,())
        except Exception as e: ok=False; 
        rec("print-"+style,ok)
        if not ok and stats["print-"+style][1]<2: print("print fail",style,repr(txt))
print(stats)
