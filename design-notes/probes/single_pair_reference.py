import random, sys, copy as cp
from bigtree import *
from bigtree.utils.exceptions import *
random.seed(int(sys.argv[1]) if len(sys.argv)>1 else 0)
# reference model on nested lists: node = [name, tag, children]
def rt(n):
    return [n.name, n.get_attr("tag"), [rt(c) for c in n.children]]
def find(t, path):  # path list of names from root
    if t[0]!=path[0]: return None
    cur=t
    for nm in path[1:]:
        m=[c for c in cur[2] if c[0]==nm]
        if not m: return None
        cur=m[0]
    return cur
def parent_of(t, node):
    for c in t[2]:
        if c is node: return t
        r=parent_of(c,node)
        if r: return r
    return None
def detach(t,node):
    p=parent_of(t,node)
    if p: p[2]=[c for c in p[2] if c is not node]
    return p
class Rej(Exception): pass
def attach(p,node):
    if any(c[0]==node[0] for c in p[2]): raise Rej("dup")
    p[2].append(node)
def contains(a,b):
    return a is b or any(contains(c,b) for c in a[2])
def leaves(n):
    return [n] if not n[2] else [l for c in n[2] for l in leaves(c)]
def addpath(t,path):
    cur=t
    for nm in path[1:]:
        m=[c for c in cur[2] if c[0]==nm]
        if m: cur=m[0]
        else:
            new=[nm,None,[]]; cur[2].append(new); cur=new
    return cur
def ref(t, fr, to, copy, overriding, merge_children, merge_leaves, delete_children):
    F=find(t,fr)
    if F is None: raise Rej("notfound")
    if to is None:
        P=None
    else:
        if fr[-1]!=to[-1]: raise Rej("name")
        if to[0]!=t[0]: raise Rej("root")
        D=find(t,to)
        if D is not None:
            if D is F:
                if merge_children:
                    P=parent_of(t,D); detach(t,D)
                    if P is None: P="NONE"
                elif merge_leaves:
                    P=parent_of(t,D)
                    if P is None: P="NONE"
                else: raise Rej("same")
            elif merge_children:
                if not overriding: P=D
                else:
                    P=parent_of(t,D); detach(t,D); merge_children=False
                    if P is None: P="NONE"
            elif merge_leaves:
                if overriding: D[2]=[]
                P=D
            else:
                if not overriding: raise Rej("exists")
                P=parent_of(t,D); detach(t,D)
                if P is None: P="NONE"
        else:
            P=addpath(t,to[:-1])
    if P=="NONE": P=None
    in_tree = contains(t,F)
    if copy: F=cp.deepcopy(F)
    def setparent(n,p):
        # loop check
        if p is not None and (p is n or contains(n,p)): raise Rej("loop")
        if contains(t,n) and n is not t: detach(t,n)
        elif n is t and p is not None: raise Rej("loop")  # root can't move under itself
        if p is not None: attach(p,n)
    if merge_children:
        for c in list(F[2]):
            if delete_children: c[2]=[]
            if P is not None and (P is c or contains(c,P)): raise Rej("loop")
            if not copy: F[2]=[x for x in F[2] if x is not c]
            if P is not None: attach(P,c)
        if not copy and contains(t,F) and F is not t: detach(t,F)
    elif merge_leaves:
        for l in leaves(F):
            if l is F and not copy:
                if P is not None and P is F: raise Rej("loop")
                if contains(t,F) and F is not t: detach(t,F)
                if P is not None: attach(P,l)
                continue
            if not copy:
                pp=parent_of(F,l) if l is not F else None
                if pp: pp[2]=[x for x in pp[2] if x is not l]
            if P is not None: attach(P,l)
    else:
        if delete_children: F[2]=[]
        if not copy: setparent(F,P)
        else:
            if P is not None: attach(P,F)
    return t
def rand_tree(n):
    nodes=[Node("r",tag=0)]
    for i in range(1,n):
        p=random.choice(nodes); nm=random.choice("abcde")
        if any(c.name==nm for c in p.children): continue
        nodes.append(Node(nm,parent=p,tag=i))
    return nodes
stats={"ok":0,"rej_both":0,"mismatch":0,"rej_mismatch":0}
for it in range(20000):
    nodes=rand_tree(random.randint(2,10)); t=nodes[0]
    if len(nodes)<2: continue
    F=random.choice(nodes[1:]); fr=[x.name for x in F.node_path]
    destp=random.choice(nodes); to=[x.name for x in destp.node_path]
    if random.random()<0.3: to=to+[random.choice("xyz")]
    samenode=random.random()<0.1
    to=to+[fr[-1]]
    if samenode: to=list(fr)
    if random.random()<0.05: to=None
    copy=random.random()<0.4
    ov=random.random()<0.5; mc=random.random()<0.35; ml=(not mc) and random.random()<0.3; dc=random.random()<0.2
    if copy and to is None: continue
    if to is None and (mc or ml): continue
    if to is not None and to[:len(fr)]==fr and to!=fr: continue
    model=rt(t)
    try: exp=ref(model,fr,to,copy,ov,mc,ml,dc); e1=None
    except Rej as e: e1=str(e)
    fn=copy_nodes if copy else shift_nodes
    try:
        fn(t,["/".join(fr)],[None if to is None else "/".join(to)],overriding=ov,merge_children=mc,merge_leaves=ml,delete_children=dc,with_full_path=True); e2=None
    except (TreeError,NotFoundError,ValueError,SearchError,AttributeError) as e: e2=type(e).__name__
    if e1 or e2:
        if e1 and e2: stats["rej_both"]+=1
        else:
            stats["rej_mismatch"]+=1
            if stats["rej_mismatch"]<4: print("REJ MISMATCH",fr,to,dict(copy=copy,ov=ov,mc=mc,ml=ml,dc=dc),e1,e2); print_tree(t)
        continue
    if rt(t)==exp: stats["ok"]+=1
    else:
        stats["mismatch"]+=1
        if stats["mismatch"]<4: print("MISMATCH",fr,to,dict(copy=copy,ov=ov,mc=mc,ml=ml,dc=dc)); print(exp); print(rt(t))
print(stats)
