/-! Spike: dag_iterator as fuel-bounded DFS; the entry-order-independent invariant -/

structure G where
  n : Nat
  parents : Nat → List Nat
  children : Nat → List Nat

structure St where
  visited : List Nat
  out : List (Nat × Nat)

namespace G

def emit (g : G) (v : Nat) (vis : List Nat) : List (Nat × Nat) :=
  ((g.parents v).filter (fun p => !vis.contains p)).map (fun p => (p, v)) ++
  ((g.children v).filter (fun c => !vis.contains c)).map (fun c => (v, c))

mutual
def visit (g : G) : Nat → Nat → St → St
  | 0, _, st => st
  | f+1, v, st =>
    let vis := v :: st.visited
    visitAll g f (g.parents v ++ g.children v) { visited := vis, out := st.out ++ g.emit v vis }
def visitAll (g : G) : Nat → List Nat → St → St
  | _, [], st => st
  | f, m :: ms, st => visitAll g f ms (if st.visited.contains m then st else visit g f m st)
end

def dagIter (g : G) (v : Nat) : List (Nat × Nat) := (g.visit (g.n + 1) v ⟨[], []⟩).out

def exParents : Nat → List Nat
  | 2 => [0,1] | 3 => [0,2] | 4 => [3] | _ => []
def exChildren : Nat → List Nat
  | 0 => [2,3] | 1 => [2] | 2 => [3] | 3 => [4] | _ => []
def ex : G := { n := 5, parents := exParents, children := exChildren }
#eval ex.dagIter 2   -- python: [('a','c'),('b','c'),('c','d'),('a','d'),('d','e')] order for start c

/-- monotonicity of visited -/
theorem mono (g : G) : ∀ f,
    (∀ v st x, x ∈ st.visited → x ∈ (g.visit f v st).visited) ∧
    (∀ ms st x, x ∈ st.visited → x ∈ (g.visitAll f ms st).visited) := by
  intro f
  induction f with
  | zero =>
    refine ⟨fun v st x h => by simpa [visit] using h, ?_⟩
    intro ms
    induction ms with
    | nil => intro st x h; simpa [visitAll] using h
    | cons m ms ih =>
      intro st x h
      simp only [visitAll]
      apply ih
      split
      · exact h
      · simpa [visit] using h
  | succ f ihf =>
    have hAll : ∀ (k : Nat), (∀ v st x, x ∈ st.visited → x ∈ (g.visit k v st).visited) →
        ∀ ms st x, x ∈ st.visited → x ∈ (g.visitAll k ms st).visited := by
      intro k hk ms
      induction ms with
      | nil => intro st x h; simpa [visitAll] using h
      | cons m ms ih =>
        intro st x h
        simp only [visitAll]
        apply ih
        split
        · exact h
        · exact hk m st x h
    have hV : ∀ v st x, x ∈ st.visited → x ∈ (g.visit (f+1) v st).visited := by
      intro v st x h
      simp only [visit]
      apply ihf.2
      simp [h]
    exact ⟨hV, hAll (f+1) hV⟩

end G
