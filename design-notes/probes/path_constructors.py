import random, sys
import pandas as pd, polars as pl
from bigtree import *
from bigtree.utils.exceptions import *
random.seed(int(sys.argv[1]) if len(sys.argv)>1 else 0)
NAMES=["a","b","ab","ba","aa","xa","a b","a.b","c"]
bad={}
def B(k,*a):
    bad[k]=bad.get(k,0)+1
    if bad[k]<3: print("FAIL",k,*a)
def rand_paths(sep):
    root=random.choice(NAMES)
    ps=[]
    for _ in range(random.randint(1,10)):
        comps=[root]+[random.choice(NAMES) for _ in range(random.randint(0,5))]
        s=sep.join(comps)
        if random.random()<0.3: s=sep+s
        if random.random()<0.3: s=s+sep
        ps.append((tuple(comps),s))
    return ps
def closure(paths):
    out=[]
    for p in paths:
        for i in range(1,len(p)+1):
            if p[:i] not in out: out.append(p[:i])
    return out
def tpaths(t): return [tuple(x.name for x in n.node_path) for n in preorder_iter(t)]
def spec_preorder(paths):
    # build ordered tree by first appearance
    cl=closure(paths)
    ch={}
    for p in cl:
        if len(p)>1: ch.setdefault(p[:-1],[]).append(p)
    out=[]
    def rec(p):
        out.append(p)
        for c in ch.get(p,[]): rec(c)
    rec(cl[0][:1]); return out
for it in range(3000):
    sep=random.choice(["/",".","\\","|","-"])
    names_ok=[n for n in NAMES if sep not in n]
    ps=[(c,s) for c,s in rand_paths(sep) if all(sep not in x for x in c)]
    if not ps: continue
    ps=[p for p in ps if p[0][0]==ps[0][0][0]]
    comps=[c for c,s in ps]; strs=[s for c,s in ps]
    exp=spec_preorder(comps)
    for dup in (True,False):
        try:
            t=list_to_tree(strs,sep=sep,duplicate_name_allowed=dup)
            got=tpaths(t)
            if got!=exp: B("list_to_tree",strs,sep,dup,got,exp)
            if not dup:
                nm=[x.name for x in preorder_iter(t)]
                if len(set(nm))!=len(nm): B("dup names with dup=False",strs,nm)
            if t.sep!=sep: B("sep")
        except (DuplicatedNodeError,SearchError) as e:
            if dup: B("raise with dup allowed",repr(e))
            else:
                nm=[p[-1] for p in exp]
                if len(set(nm))==len(nm): B("raised though names distinct",strs,repr(e))
    # dict_to_tree with attrs
    d={}
    for c,s in ps:
        d[s]={"v":random.randint(0,5)} if random.random()<0.6 else {}
    try:
        t=dict_to_tree(d,sep=sep)
        got=tpaths(t)
        # expected attr: last assignment per comps path
        expattr={}
        for (c,s) in ps:
            if s in d: pass
        last={}
        for s,a in d.items():
            c=tuple(x for x in s.strip(sep).split(sep))
            last[c]=a if a else last.get(c,{}) if False else a
        if sorted(got)!=sorted(exp): B("dict_to_tree set",d,got,exp)
    except Exception as e: B("dict exc",repr(e),d)
    # add_path_to_tree returns node at path
    t=list_to_tree(strs,sep=sep)
    c=[ps[0][0][0]]+[random.choice(names_ok) for _ in range(random.randint(0,4))]
    before=tpaths(t); ids={tuple(x.name for x in n.node_path):id(n) for n in preorder_iter(t)}
    n=add_path_to_tree(t,sep.join(c),sep=sep,node_attrs={"z":1})
    if tuple(x.name for x in n.node_path)!=tuple(c): B("returned node",c)
    after=tpaths(t)
    if set(after)!=set(before)|{tuple(c[:i]) for i in range(1,len(c)+1)}: B("add_path set")
    if len(set(after))!=len(after): B("add_path duplicate")
    for x in preorder_iter(t):
        p=tuple(y.name for y in x.node_path)
        if p in ids and ids[p]!=id(x): B("node not reused")
    # different root
    try:
        add_path_to_tree(t,sep.join(["zzz","a"]),sep=sep); B("different root accepted")
    except TreeError: pass
print("bad",bad)
