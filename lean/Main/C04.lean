import BigtreeModel.DriverLib
import BigtreeModel.Drv.C04
def main : IO Unit := runDriver Drv.C04.handle
