import BigtreeModel.DriverLib
import BigtreeModel.Drv.C14
def main : IO Unit := runDriver Drv.C14.handle
