import BigtreeModel.DriverLib
import BigtreeModel.Drv.C01
def main : IO Unit := runDriver Drv.C01.handle
