import BigtreeModel.DriverLib
import BigtreeModel.Drv.C12
def main : IO Unit := runDriver Drv.C12.handle
