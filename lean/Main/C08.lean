import BigtreeModel.DriverLib
import BigtreeModel.Drv.C08
def main : IO Unit := runDriver Drv.C08.handle
