import BigtreeModel.DriverLib
import BigtreeModel.Drv.C18
def main : IO Unit := runDriver Drv.C18.handle
