import BigtreeModel.DriverLib
import BigtreeModel.Drv.C16
def main : IO Unit := runDriver Drv.C16.handle
