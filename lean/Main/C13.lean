import BigtreeModel.DriverLib
import BigtreeModel.Drv.C13
def main : IO Unit := runDriver Drv.C13.handle
