import BigtreeModel.DriverLib
import BigtreeModel.Drv.C11
def main : IO Unit := runDriver Drv.C11.handle
