import BigtreeModel.DriverLib
import BigtreeModel.Drv.C06
def main : IO Unit := runDriver Drv.C06.handle
