import BigtreeModel.DriverLib
import BigtreeModel.Drv.C03
def main : IO Unit := runDriver Drv.C03.handle
