import BigtreeModel.DriverLib
import BigtreeModel.Drv.C02
def main : IO Unit := runDriver Drv.C02.handle
