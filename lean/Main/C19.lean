import BigtreeModel.DriverLib
import BigtreeModel.Drv.C19
def main : IO Unit := runDriver Drv.C19.handle
