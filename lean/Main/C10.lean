import BigtreeModel.DriverLib
import BigtreeModel.Drv.C10
def main : IO Unit := runDriver Drv.C10.handle
