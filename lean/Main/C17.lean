import BigtreeModel.DriverLib
import BigtreeModel.Drv.C17
def main : IO Unit := runDriver Drv.C17.handle
