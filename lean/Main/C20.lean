import BigtreeModel.DriverLib
import BigtreeModel.Drv.C20
def main : IO Unit := runDriver Drv.C20.handle
