import BigtreeModel.DriverLib
import BigtreeModel.Drv.C15
def main : IO Unit := runDriver Drv.C15.handle
