import BigtreeModel.DriverLib
import BigtreeModel.Drv.C05
def main : IO Unit := runDriver Drv.C05.handle
