import BigtreeModel.DriverLib
import BigtreeModel.Drv.C07
def main : IO Unit := runDriver Drv.C07.handle
