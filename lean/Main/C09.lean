import BigtreeModel.DriverLib
import BigtreeModel.Drv.C09
def main : IO Unit := runDriver Drv.C09.handle
