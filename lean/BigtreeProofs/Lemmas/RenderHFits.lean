import BigtreeProofs.Lemmas.RenderHBands
/-!
# `HFits` holds for the padding `hyield_tree` computes (`padOf`), and trivially without intermediate names
-/

namespace Render

theorem HTree.induct2 {P : HTree → Prop} {Q : List HTree → Prop} (hole : P .hole)
    (node : ∀ n cs, Q cs → P (.node n cs)) (nil : Q [])
    (cons : ∀ c cs, P c → Q cs → Q (c :: cs)) : (∀ t, P t) ∧ (∀ l, Q l) :=
  ⟨fun t => HTree.rec (motive_1 := P) (motive_2 := Q) hole node nil cons t,
   fun l => HTree.rec_1 (motive_1 := P) (motive_2 := Q) hole node nil cons l⟩

theorem HFits_mono_aux (inter : Bool) :
    (∀ t : HTree, ∀ (pad pad' : Nat → Nat) (d : Nat), (∀ e, d ≤ e → pad e ≤ pad' e) →
      HFits inter pad d t → HFits inter pad' d t) ∧
    (∀ cs : List HTree, ∀ (pad pad' : Nat → Nat) (d : Nat), (∀ e, d ≤ e → pad e ≤ pad' e) →
      HFitsL inter pad d cs → HFitsL inter pad' d cs) := by
  apply HTree.induct2
  · intro pad pad' d _ _; simp [HFits]
  · intro n cs ih pad pad' d hle h
    rw [HFits] at h ⊢
    refine ⟨fun hi hr => Nat.le_trans (h.1 hi hr) (hle d (Nat.le_refl _)), ?_⟩
    exact ih pad pad' (d + 1) (fun e he => hle e (by omega)) h.2
  · intro pad pad' d _ _; simp [HFitsL]
  · intro c cs ih1 ih2 pad pad' d hle h
    rw [HFitsL] at h ⊢
    exact ⟨ih1 pad pad' d hle h.1, ih2 pad pad' d hle h.2⟩

theorem HFits_false_aux :
    (∀ t : HTree, ∀ (pad : Nat → Nat) (d : Nat), HFits false pad d t) ∧
    (∀ cs : List HTree, ∀ (pad : Nat → Nat) (d : Nat), HFitsL false pad d cs) := by
  apply HTree.induct2
  · intro pad d; simp [HFits]
  · intro n cs ih pad d; rw [HFits]; exact ⟨by simp, ih pad (d + 1)⟩
  · intro pad d; simp [HFitsL]
  · intro c cs ih1 ih2 pad d; rw [HFitsL]; exact ⟨ih1 pad d, ih2 pad d⟩

/-- without intermediate node names there is nothing to fit -/
theorem HFits_false (pad : Nat → Nat) (d : Nat) (t : HTree) : HFits false pad d t :=
  HFits_false_aux.1 t pad d

theorem padAt_node_zero (n : Str) (cs : List HTree) : padAt (.node n cs) 0 = n.length := by
  rw [padAt]
theorem padAt_node_succ (n : Str) (cs : List HTree) (k : Nat) :
    padAt (.node n cs) (k + 1) = padAt.padAtL cs k := by
  rw [padAt]
theorem padAtL_cons (c : HTree) (cs : List HTree) (k : Nat) :
    padAt.padAtL (c :: cs) k = max (padAt c k) (padAt.padAtL cs k) := by
  rw [padAt.padAtL]

theorem HFits_padAt_aux (inter : Bool) :
    (∀ t : HTree, ∀ d : Nat, HFits inter (fun e => padAt t (e - d)) d t) ∧
    (∀ cs : List HTree, ∀ d : Nat, HFitsL inter (fun e => padAt.padAtL cs (e - d)) d cs) := by
  apply HTree.induct2
  · intro d; simp [HFits]
  · intro n cs ih d
    rw [HFits]
    refine ⟨fun _ _ => ?_, ?_⟩
    · show n.length ≤ padAt (.node n cs) (d - d)
      rw [Nat.sub_self, padAt_node_zero]; exact Nat.le_refl _
    refine (HFits_mono_aux inter).2 cs _ _ (d + 1) ?_ (ih (d + 1))
    intro e he
    have : e - d = (e - (d + 1)) + 1 := by omega
    show padAt.padAtL cs (e - (d + 1)) ≤ padAt (.node n cs) (e - d)
    rw [this, padAt_node_succ]; exact Nat.le_refl _
  · intro d; simp [HFitsL]
  · intro c cs ih1 ih2 d
    rw [HFitsL]
    constructor
    · refine (HFits_mono_aux inter).1 c _ _ d ?_ (ih1 d)
      intro e _; show padAt c (e - d) ≤ padAt.padAtL (c :: cs) (e - d)
      rw [padAtL_cons]; exact Nat.le_max_left _ _
    · refine (HFits_mono_aux inter).2 cs _ _ d ?_ (ih2 d)
      intro e _; show padAt.padAtL cs (e - d) ≤ padAt.padAtL (c :: cs) (e - d)
      rw [padAtL_cons]; exact Nat.le_max_right _ _

/-- the padding computed by `hyield_tree` fits the tree it was computed from -/
theorem HFits_padOf (inter : Bool) (t : HTree) : HFits inter (padOf inter t) 1 t := by
  cases inter with
  | false => exact HFits_false _ _ _
  | true =>
    refine (HFits_mono_aux true).1 t _ _ 1 ?_ ((HFits_padAt_aux true).1 t 1)
    intro e he
    have : decide (e ≥ 1) = true := by simpa using he
    simp [padOf, this]
end Render
