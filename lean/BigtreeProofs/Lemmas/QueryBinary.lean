import BigtreeModel.Query
import BigtreeProofs.Lemmas.QueryProps
/-! Helper lemmas for C12: BinaryNode (two slots, possibly empty) against its generic view. -/

namespace Query

theorem toTrees_nil : BTree.nil.toTrees = [] := rfl

theorem toTrees_node (i : Nat) (n : Str) (a : Attrs) (l r : BTree) :
    (BTree.node i n a l r).toTrees = [.node i n a (l.toTrees ++ r.toTrees)] := rfl

theorem toTrees_eq_nil_iff (b : BTree) : b.toTrees = [] ↔ b = .nil := by
  cases b <;> simp [BTree.toTrees]

theorem isLeafB_node (i : Nat) (n : Str) (a : Attrs) (l r : BTree) :
    isLeafB (.node i n a l r) = (l.toTrees ++ r.toTrees).isEmpty := by
  cases l <;> cases r <;> simp [isLeafB, BTree.toTrees]

theorem recDiamL_singleton (d : Nat) (t : Tree) : recDiamL d [t] = ([(recDiam d t).1], (recDiam d t).2) := by
  simp [recDiamL]

theorem recDiamL_pair (d : Nat) (t u : Tree) :
    recDiamL d [t, u] = ([(recDiam d t).1, (recDiam (recDiam d t).2 u).1], (recDiam (recDiam d t).2 u).2) := by
  simp [recDiamL]

theorem recDiamB_eq : ∀ (b : BTree) (t : Tree), b.toTrees = [t] → ∀ d, recDiamB d b = recDiam d t := by
  intro b
  induction b with
  | nil => intro t h; simp [BTree.toTrees] at h
  | node i n a l r ihl ihr =>
    intro t h d
    rw [toTrees_node] at h
    have ht : t = .node i n a (l.toTrees ++ r.toTrees) := by simpa using h.symm
    subst ht
    cases l with
    | nil =>
      cases r with
      | nil => simp [recDiamB, recDiam, BTree.toTrees]
      | node i2 n2 a2 l2 r2 =>
        have e := ihr _ (toTrees_node i2 n2 a2 l2 r2)
        simp only [recDiamB, recDiam, toTrees_nil, toTrees_node, List.nil_append]
        simp [recDiamL_singleton, e]
    | node i1 n1 a1 l1 r1 =>
      have e1 := ihl _ (toTrees_node i1 n1 a1 l1 r1)
      cases r with
      | nil =>
        simp only [recDiamB, recDiam, toTrees_nil, toTrees_node, List.append_nil]
        simp [recDiamL_singleton, e1]
      | node i2 n2 a2 l2 r2 =>
        have e2 := ihr _ (toTrees_node i2 n2 a2 l2 r2)
        simp only [recDiamB, recDiam, toTrees_node]
        simp [recDiamL_pair, e1, e2]

theorem diameterB_eq (b : BTree) (t : Tree) (h : b.toTrees = [t]) : diameterB b = diameter t := by
  cases b with
  | nil => simp [BTree.toTrees] at h
  | node i n a l r =>
    rw [toTrees_node] at h
    have ht : t = .node i n a (l.toTrees ++ r.toTrees) := by simpa using h.symm
    subst ht
    unfold diameterB diameter
    rw [isLeafB_node, recDiamB_eq _ _ (toTrees_node i n a l r)]
    simp

theorem isLeafB_eq (b : BTree) (t : Tree) (h : b.toTrees = [t]) : isLeafB b = t.children.isEmpty := by
  cases b with
  | nil => simp [BTree.toTrees] at h
  | node i n a l r =>
    rw [toTrees_node] at h
    have ht : t = .node i n a (l.toTrees ++ r.toTrees) := by simpa using h.symm
    subst ht
    rw [isLeafB_node]; simp

end Query
