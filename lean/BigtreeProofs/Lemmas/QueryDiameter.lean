import BigtreeModel.Query
import BigtreeProofs.Lemmas.QueryProps
import BigtreeProofs.Lemmas.QueryGoTo
import BigtreeProofs.Lemmas.Search
/-! Helper lemmas for C12 (Tier 2): diameter = the largest number of edges between two nodes of
the subtree. -/

namespace Query

/-! ### the two largest entries -/

/-- maximum of a list (0 for the empty list), by structural recursion -/
def lmax : List Nat → Nat
  | [] => 0
  | x :: xs => max x (lmax xs)

theorem lmax_heights (cs : List Tree) : lmax (heights cs) = Iter.height.heightL cs := by
  induction cs with
  | nil => rfl
  | cons c cs ih => simp [heights, lmax, Iter.height.heightL] at *; rw [ih]

theorem mem_insertDesc (x y : Nat) (s : List Nat) : y ∈ insertDesc x s ↔ y = x ∨ y ∈ s := by
  induction s with
  | nil => simp [insertDesc]
  | cons z zs ih =>
    simp only [insertDesc]
    split
    · simp
    · simp only [List.mem_cons, ih]
      constructor
      · rintro (h | h | h)
        · exact Or.inr (Or.inl h)
        · exact Or.inl h
        · exact Or.inr (Or.inr h)
      · rintro (h | h | h)
        · exact Or.inr (Or.inl h)
        · exact Or.inl h
        · exact Or.inr (Or.inr h)

theorem insertDesc_sorted (x : Nat) (s : List Nat) (hs : s.Pairwise (· ≥ ·)) :
    (insertDesc x s).Pairwise (· ≥ ·) := by
  induction s with
  | nil => simp [insertDesc]
  | cons z zs ih =>
    simp only [insertDesc]
    rw [List.pairwise_cons] at hs
    split
    · rename_i hxz
      rw [List.pairwise_cons]
      refine ⟨?_, List.pairwise_cons.2 hs⟩
      intro y hy
      rcases List.mem_cons.1 hy with rfl | hy
      · exact hxz
      · exact Nat.le_trans (hs.1 y hy) hxz
    · rename_i hxz
      rw [List.pairwise_cons]
      refine ⟨?_, ih hs.2⟩
      intro y hy
      rcases (mem_insertDesc x y zs).1 hy with rfl | hy
      · show y ≤ z; omega
      · exact hs.1 y hy

theorem sortDesc_sorted (l : List Nat) : (sortDesc l).Pairwise (· ≥ ·) := by
  induction l with
  | nil => simp [sortDesc]
  | cons x xs ih => exact insertDesc_sorted x _ ih

theorem head_insertDesc (x : Nat) (s : List Nat) :
    (insertDesc x s).head?.getD 0 = max x (s.head?.getD 0) := by
  cases s with
  | nil => simp [insertDesc]
  | cons z zs =>
    simp only [insertDesc]
    split
    · rename_i h; simp; omega
    · rename_i h; simp; omega

theorem head_sortDesc (l : List Nat) : (sortDesc l).head?.getD 0 = lmax l := by
  induction l with
  | nil => rfl
  | cons x xs ih => rw [sortDesc, head_insertDesc, ih, lmax]

theorem take2_insertDesc (x : Nat) (s : List Nat) (hs : s.Pairwise (· ≥ ·)) :
    ((insertDesc x s).take 2).sum = max ((s.take 2).sum) (x + s.head?.getD 0) := by
  cases s with
  | nil => simp [insertDesc]
  | cons y ys =>
    cases ys with
    | nil =>
      simp only [insertDesc]
      split <;> simp <;> omega
    | cons z r =>
      have hyz : z ≤ y := (List.pairwise_cons.1 hs).1 z (by simp)
      simp only [insertDesc]
      split
      · simp; omega
      · split
        · simp; omega
        · simp; omega

theorem top2Sum_cons (x : Nat) (l : List Nat) : top2Sum (x :: l) = max (top2Sum l) (x + lmax l) := by
  unfold top2Sum nlargest
  rw [sortDesc, take2_insertDesc x _ (sortDesc_sorted l), head_sortDesc]

theorem top2Sum_nil : top2Sum [] = 0 := rfl

theorem top2Sum_mono (x : Nat) (l : List Nat) : top2Sum l ≤ top2Sum (x :: l) := by
  rw [top2Sum_cons]; exact Nat.le_max_left _ _

theorem lmax_le_top2Sum (l : List Nat) : lmax l ≤ top2Sum l := by
  induction l with
  | nil => simp [lmax]
  | cons x xs ih =>
    rw [top2Sum_cons, lmax]
    omega

/-! ### distances -/

theorem dist_nil_left (v : Addr) : dist [] v = v.length := by simp [dist, lcpLen]
theorem dist_nil_right (u : Addr) : dist u [] = u.length := by
  cases u <;> simp [dist, lcpLen]

theorem dist_cons_same (k : Nat) (x y : Addr) : dist (k :: x) (k :: y) = dist x y := by
  have h1 := lcpLen_le_left x y
  have h2 := lcpLen_le_right x y
  simp only [dist, lcpLen, ↓reduceIte, List.length_cons]
  omega

theorem dist_cons_ne {j k : Nat} (h : j ≠ k) (x y : Addr) :
    dist (j :: x) (k :: y) = x.length + y.length + 2 := by
  simp only [dist, lcpLen, h, ↓reduceIte, List.length_cons]
  omega

theorem dist_append_left (a x y : Addr) : dist (a ++ x) (a ++ y) = dist x y := by
  induction a with
  | nil => rfl
  | cons k ks ih => simp only [List.cons_append, dist_cons_same, ih]

/-! ### upper bound: no two nodes are further apart than `diamSpec` -/

theorem dist_le_L_of (cs : List Tree)
    (ih : ∀ c ∈ cs, ∀ u ∈ locs c, ∀ v ∈ locs c, dist u v ≤ diamSpec c) :
    ∀ k, ∀ u ∈ locsL k cs, ∀ v ∈ locsL k cs,
      dist u v ≤ max (top2Sum (heights cs)) (diamSpecL cs) := by
  induction cs with
  | nil => intro k u hu; simp [locsL] at hu
  | cons c cs ihc =>
    intro k u hu v hv
    have ihc' := ihc (fun c hc => ih c (by simp [hc])) (k + 1)
    have hlen := locsL_length_le_of cs (fun t _ => locs_length_lt_height t) (k + 1)
    rw [locsL_cons, List.mem_append] at hu hv
    have hh : heights (c :: cs) = Iter.height c :: heights cs := rfl
    rw [hh, top2Sum_cons, diamSpecL, lmax_heights]
    rcases hu with hu | hu <;> rcases hv with hv | hv
    · rcases List.mem_map.1 hu with ⟨x, hx, rfl⟩
      rcases List.mem_map.1 hv with ⟨y, hy, rfl⟩
      rw [dist_cons_same]
      have := ih c (by simp) x hx y hy
      omega
    · rcases List.mem_map.1 hu with ⟨x, hx, rfl⟩
      rcases locsL_head_ge (k + 1) cs v hv with ⟨j, y, hj, rfl⟩
      rw [dist_cons_ne (by omega)]
      have h1 := locs_length_lt_height c x hx
      have h2 := hlen _ hv
      simp only [List.length_cons] at h2
      omega
    · rcases List.mem_map.1 hv with ⟨y, hy, rfl⟩
      rcases locsL_head_ge (k + 1) cs u hu with ⟨j, x, hj, rfl⟩
      rw [dist_cons_ne (by omega)]
      have h1 := locs_length_lt_height c y hy
      have h2 := hlen _ hu
      simp only [List.length_cons] at h2
      omega
    · have := ihc' u hu v hv
      omega

theorem dist_le_diamSpec : ∀ (t : Tree), ∀ u ∈ locs t, ∀ v ∈ locs t, dist u v ≤ diamSpec t := by
  intro t
  induction t using Tree.ind with
  | h i n a cs ih =>
    intro u hu v hv
    rw [locs_node, List.mem_cons] at hu hv
    rw [diamSpec]
    have hlen := locsL_length_le_of cs (fun t _ => locs_length_lt_height t) 0
    have hm := lmax_le_top2Sum (heights cs)
    rw [lmax_heights] at hm
    rcases hu with rfl | hu <;> rcases hv with rfl | hv
    · simp [dist, lcpLen]
    · rw [dist_nil_left]; have := hlen v hv; omega
    · rw [dist_nil_right]; have := hlen u hu; omega
    · exact dist_le_L_of cs ih 0 u hu v hv

/-! ### the bound is attained -/

theorem mem_cons_locsL_lift {k : Nat} {c : Tree} {cs : List Tree} {u : Addr}
    (h : u ∈ ([] :: locsL (k + 1) cs)) : u ∈ ([] :: locsL k (c :: cs)) := by
  rcases List.mem_cons.1 h with rfl | h
  · simp
  · rw [locsL_cons]; simp [h]

theorem exists_pair_top2 (cs : List Tree) : ∀ k,
    ∃ u ∈ ([] :: locsL k cs), ∃ v ∈ ([] :: locsL k cs), dist u v = top2Sum (heights cs) := by
  induction cs with
  | nil => intro k; exact ⟨[], by simp, [], by simp, by simp [dist, lcpLen, heights, top2Sum_nil]⟩
  | cons c cs ih =>
    intro k
    have hh : heights (c :: cs) = Iter.height c :: heights cs := rfl
    rw [hh, top2Sum_cons, lmax_heights]
    rcases Nat.le_total (top2Sum (heights cs)) (Iter.height c + Iter.height.heightL cs) with hle | hle
    · rw [Nat.max_eq_right hle]
      rcases exists_loc_height c with ⟨x, hx, hxl⟩
      have hu : k :: x ∈ ([] :: locsL k (c :: cs)) := by
        rw [locsL_cons]; simp [hx]
      by_cases hcs : cs = []
      · subst hcs
        refine ⟨k :: x, hu, [], by simp, ?_⟩
        rw [dist_nil_right]
        simp [Iter.height.heightL]; omega
      · rcases exists_locL_height_of cs hcs (fun t _ => exists_loc_height t) (k + 1) with ⟨v, hv, hvl⟩
        rcases locsL_head_ge (k + 1) cs v hv with ⟨j, y, hj, rfl⟩
        refine ⟨k :: x, hu, j :: y, mem_cons_locsL_lift (by simp [hv]), ?_⟩
        rw [dist_cons_ne (by omega)]
        simp only [List.length_cons] at hvl
        omega
    · rw [Nat.max_eq_left hle]
      rcases ih (k + 1) with ⟨u, hu, v, hv, hd⟩
      exact ⟨u, mem_cons_locsL_lift hu, v, mem_cons_locsL_lift hv, hd⟩

theorem exists_pair_diamL_of (cs : List Tree)
    (ih : ∀ c ∈ cs, ∃ u ∈ locs c, ∃ v ∈ locs c, dist u v = diamSpec c) : ∀ k,
    ∃ u ∈ ([] :: locsL k cs), ∃ v ∈ ([] :: locsL k cs), dist u v = diamSpecL cs := by
  induction cs with
  | nil => intro k; exact ⟨[], by simp, [], by simp, by simp [dist, lcpLen, diamSpecL]⟩
  | cons c cs ihc =>
    intro k
    rw [diamSpecL]
    rcases Nat.le_total (diamSpec c) (diamSpecL cs) with hle | hle
    · rw [Nat.max_eq_right hle]
      rcases ihc (fun c hc => ih c (by simp [hc])) (k + 1) with ⟨u, hu, v, hv, hd⟩
      exact ⟨u, mem_cons_locsL_lift hu, v, mem_cons_locsL_lift hv, hd⟩
    · rw [Nat.max_eq_left hle]
      rcases ih c (by simp) with ⟨x, hx, y, hy, hd⟩
      refine ⟨k :: x, ?_, k :: y, ?_, by rw [dist_cons_same, hd]⟩
      · rw [locsL_cons]; simp [hx]
      · rw [locsL_cons]; simp [hy]

theorem exists_pair_diamSpec : ∀ (t : Tree), ∃ u ∈ locs t, ∃ v ∈ locs t, dist u v = diamSpec t := by
  intro t
  induction t using Tree.ind with
  | h i n a cs ih =>
    rw [locs_node, diamSpec]
    rcases Nat.le_total (top2Sum (heights cs)) (diamSpecL cs) with hle | hle
    · rw [Nat.max_eq_right hle]; exact exists_pair_diamL_of cs ih 0
    · rw [Nat.max_eq_left hle]; exact exists_pair_top2 cs 0

end Query
