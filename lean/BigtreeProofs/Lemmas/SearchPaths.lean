import BigtreeModel.Search
import BigtreeProofs.Lemmas.Search
import BigtreeProofs.Lemmas.QueryGoTo
/-! Helper lemmas for C09: `find_relative_paths` (accumulator = denotation) and `find_full_path`. -/

namespace Search
open Query

/-! ### the accumulator-style `resolve` against `resolveSpec` -/

theorem foldlM_acc_eq (f : Addr → List Addr → Except Err (List Addr)) (g : Addr → Except Err (List Addr))
    (h : ∀ ch acc, f ch acc = (g ch).map (acc ++ ·)) :
    ∀ (l : List Addr) (acc : List Addr),
      l.foldlM (fun acc' ch => f ch acc') acc = ((l.mapM g).map List.flatten).map (acc ++ ·) := by
  intro l
  induction l with
  | nil => intro acc; simp [pure, Except.pure, Except.map]
  | cons ch l ih =>
    intro acc
    rw [List.foldlM_cons, List.mapM_cons, h ch acc]
    cases hg : g ch with
    | error e => simp [bind, Except.bind, Except.map]
    | ok r =>
      simp only [Except.map, bind, Except.bind]
      rw [ih (acc ++ r)]
      cases l.mapM g with
      | error e => simp [Except.map]
      | ok rs => simp [Except.map, pure, Except.pure, List.append_assoc]

theorem resolve_eq_spec (R : Tree) (wild : Bool) : ∀ (cs : List Str) (a : Addr) (acc : List Addr),
    resolve R wild cs a acc = (resolveSpec R wild cs a).map (acc ++ ·) := by
  intro cs
  induction cs with
  | nil => intro a acc; simp [resolve, resolveSpec, Except.map]
  | cons c cs ih =>
    intro a acc
    rw [resolve, resolveSpec]
    by_cases h1 : (c == ['.']) = true
    · simp only [h1, ↓reduceIte]; exact ih a acc
    · simp only [h1, Bool.false_eq_true, ↓reduceIte]
      by_cases h2 : (c == ['.', '.']) = true
      · simp only [h2, ↓reduceIte]
        cases parent a with
        | none => simp [Except.map]
        | some p => exact ih p acc
      · simp only [h2, Bool.false_eq_true, ↓reduceIte]
        by_cases h3 : (c == ['*']) = true
        · simp only [h3, ↓reduceIte]
          exact foldlM_acc_eq (fun ch acc' => resolve R wild cs ch acc') (resolveSpec R wild cs)
            (fun ch acc' => ih ch acc') (childrenOf R a) acc
        · simp only [h3, Bool.false_eq_true, ↓reduceIte]
          rw [findChildByName_eq]
          cases hcn : childrenNamed R a c with
          | nil => cases wild <;> simp [Except.map]
          | cons x xs =>
            cases xs with
            | nil => exact ih x acc
            | cons y ys => simp [Except.map]

/-! ### children found by name -/

/-- sibling names are unique everywhere in the tree (what `Node` enforces) -/
def SibUnique (R : Tree) : Prop :=
  ∀ (p : Addr) (j k : Nat), (sub R (p ++ [j])).isSome → (sub R (p ++ [k])).isSome →
    nameAt R (p ++ [j]) = nameAt R (p ++ [k]) → j = k

theorem mem_childrenOf_iff (R : Tree) (p x : Addr) :
    x ∈ childrenOf R p ↔ ∃ k, x = p ++ [k] ∧ (sub R x).isSome := by
  cases h : sub R p with
  | none =>
    simp only [childrenOf_of_none h, List.not_mem_nil, false_iff, not_exists, not_and]
    rintro k rfl hs
    have := sub_isSome_of_append hs
    simp [h] at this
  | some t =>
    rw [childrenOf_of_sub h]
    simp only [List.mem_map, List.mem_range]
    constructor
    · rintro ⟨k, hk, rfl⟩
      refine ⟨k, rfl, ?_⟩
      rw [sub_snoc, h]
      simp [List.getElem?_eq_getElem hk]
    · rintro ⟨k, rfl, hs⟩
      refine ⟨k, ?_, rfl⟩
      rw [sub_snoc, h] at hs
      simp only [Option.bind_some] at hs
      by_cases hk : k < t.children.length
      · exact hk
      · rw [List.getElem?_eq_none (by omega)] at hs
        simp at hs

theorem childrenOf_nodup (R : Tree) (p : Addr) : (childrenOf R p).Nodup := by
  cases h : sub R p with
  | none => simp [childrenOf_of_none h]
  | some t => rw [childrenOf_eq_childList h]; exact childList_nodup p _

theorem findChildByName_sound {R : Tree} {p ch : Addr} {c : Str}
    (h : findChildByName R p c = .ok (some ch)) :
    ∃ k, ch = p ++ [k] ∧ (sub R ch).isSome ∧ nameAt R ch = some c := by
  rw [findChildByName_eq] at h
  have hmem : ch ∈ childrenNamed R p c := by
    cases hcn : childrenNamed R p c with
    | nil => simp [hcn] at h
    | cons x xs =>
      cases xs with
      | nil => simp only [hcn, Except.ok.injEq, Option.some.injEq] at h; simp [h]
      | cons y ys => simp [hcn] at h
  rw [childrenNamed, List.mem_filter] at hmem
  rcases (mem_childrenOf_iff R p ch).1 hmem.1 with ⟨k, rfl, hs⟩
  exact ⟨k, rfl, hs, by simpa [nameIs] using hmem.2⟩

theorem nodup_all_eq_singleton {α : Type} {l : List α} {x : α} (hn : l.Nodup) (hx : x ∈ l)
    (hall : ∀ y ∈ l, y = x) : l = [x] := by
  cases l with
  | nil => simp at hx
  | cons y ys =>
    have hy : y = x := hall y (by simp)
    subst hy
    cases ys with
    | nil => rfl
    | cons z zs =>
      have hz : z = y := hall z (by simp)
      subst hz
      simp at hn

theorem findChildByName_complete {R : Tree} (hu : SibUnique R) {p : Addr} {k : Nat} {c : Str}
    (hs : (sub R (p ++ [k])).isSome) (hc : nameAt R (p ++ [k]) = some c) :
    findChildByName R p c = .ok (some (p ++ [k])) := by
  rw [findChildByName_eq]
  have hmem : p ++ [k] ∈ childrenNamed R p c := by
    rw [childrenNamed, List.mem_filter]
    exact ⟨(mem_childrenOf_iff R p _).2 ⟨k, rfl, hs⟩, by simp [nameIs, hc]⟩
  have hall : ∀ y ∈ childrenNamed R p c, y = p ++ [k] := by
    intro y hy
    rw [childrenNamed, List.mem_filter] at hy
    rcases (mem_childrenOf_iff R p y).1 hy.1 with ⟨j, rfl, hsj⟩
    have hn : nameAt R (p ++ [j]) = some c := by simpa [nameIs] using hy.2
    rw [hu p j k hsj hs (by rw [hn, hc])]
  have hnd : (childrenNamed R p c).Nodup :=
    List.Sublist.nodup List.filter_sublist (childrenOf_nodup R p)
  rw [nodup_all_eq_singleton hnd hmem hall]

/-! ### the descent of `find_full_path` -/

theorem nameAt_getD_of_some {R : Tree} {x : Addr} {c : Str} (h : nameAt R x = some c) :
    (nameAt R x).getD [] = c := by simp [h]

theorem fullPathLoop_sound (R : Tree) : ∀ (cs : List Str) (p v : Addr) (o : Option Addr),
    fullPathLoop R cs p o = .ok (some v) → (o = some p) → (sub R p).isSome →
    ∃ ks, v = p ++ ks ∧ (sub R v).isSome ∧ pathNames R v = pathNames R p ++ cs := by
  intro cs
  induction cs with
  | nil =>
    intro p v o h ho hp
    subst ho
    simp only [fullPathLoop, Except.ok.injEq, Option.some.injEq] at h
    subst h
    exact ⟨[], by simp, hp, by simp⟩
  | cons c cs ih =>
    intro p v o h _ hp
    rw [fullPathLoop] at h
    cases hf : findChildByName R p c with
    | error e => simp [hf] at h
    | ok r =>
      cases r with
      | none => simp [hf] at h
      | some ch =>
        simp only [hf] at h
        rcases findChildByName_sound hf with ⟨k, rfl, hs, hn⟩
        rcases ih (p ++ [k]) v (some (p ++ [k])) h rfl hs with ⟨ks, rfl, hv, hpn⟩
        refine ⟨k :: ks, by simp, hv, ?_⟩
        rw [hpn, pathNames_snoc, nameAt_getD_of_some hn]
        simp

/-- names met below `p` on the way down along `ks` -/
def stepNames (R : Tree) : Addr → Addr → List Str
  | _, [] => []
  | p, k :: ks => (nameAt R (p ++ [k])).getD [] :: stepNames R (p ++ [k]) ks

theorem pathNames_append (R : Tree) : ∀ (ks p : Addr),
    pathNames R (p ++ ks) = pathNames R p ++ stepNames R p ks := by
  intro ks
  induction ks with
  | nil => intro p; simp [stepNames]
  | cons k ks ih =>
    intro p
    have : p ++ k :: ks = (p ++ [k]) ++ ks := by simp
    rw [this, ih, pathNames_snoc, stepNames]
    simp

theorem fullPathLoop_complete {R : Tree} (hu : SibUnique R) : ∀ (ks p : Addr) (o : Option Addr),
    (sub R (p ++ ks)).isSome → o = some p →
    fullPathLoop R (stepNames R p ks) p o = .ok (some (p ++ ks)) := by
  intro ks
  induction ks with
  | nil => intro p o _ ho; subst ho; simp [stepNames, fullPathLoop]
  | cons k ks ih =>
    intro p o hs _
    have e : p ++ k :: ks = (p ++ [k]) ++ ks := by simp
    rw [e] at hs
    have hk : (sub R (p ++ [k])).isSome := sub_isSome_of_append hs
    have hn : nameAt R (p ++ [k]) = some ((nameAt R (p ++ [k])).getD []) := by
      simp only [nameAt] at *
      cases hsub : sub R (p ++ [k]) with
      | none => simp [hsub] at hk
      | some t => simp
    rw [stepNames, fullPathLoop, findChildByName_complete hu hk hn]
    simp only
    rw [e]
    exact ih (p ++ [k]) _ hs rfl

theorem findFullPath_iff {R : Tree} (s : Char) (a : Addr) (q : Str)
    (hsep : ∀ (x : Addr) (t : Tree), sub R x = some t → s ∉ t.name) (hu : SibUnique R) (v : Addr) :
    findFullPath R [s] a q = .ok (some v) ↔
      (sub R v).isSome ∧ join [s] (pathNames R v) = lstrip [s] (rstrip [s] q) := by
  unfold findFullPath
  simp only [root_eq_nil]
  have hroot : (nameAt R []).getD [] = R.name := by simp [nameAt]
  rw [hroot]
  constructor
  · intro h
    by_cases hh : (split [s] (lstrip [s] (rstrip [s] q))).head? != some R.name
    · simp [hh] at h
    · simp only [hh, Bool.false_eq_true, ↓reduceIte] at h
      rcases fullPathLoop_sound R _ [] v _ h rfl (by simp) with ⟨ks, _, hv, hpn⟩
      refine ⟨hv, ?_⟩
      have hsplit : split [s] (lstrip [s] (rstrip [s] q)) = pathNames R v := by
        rw [hpn, pathNames_nil]
        have hne := split_single_ne_nil s (lstrip [s] (rstrip [s] q))
        cases hsp : split [s] (lstrip [s] (rstrip [s] q)) with
        | nil => exact absurd hsp hne
        | cons w ws =>
          rw [hsp] at hh
          simp only [List.head?_cons, bne_iff_ne, ne_eq, Option.some.injEq, Decidable.not_not] at hh
          simp [hh]
      rw [← hsplit, join_split_single]
  · rintro ⟨hv, hj⟩
    have hnames : ∀ w ∈ pathNames R v, s ∉ w := by
      intro w hw
      simp only [pathNames, List.mem_map] at hw
      rcases hw with ⟨b, hb, rfl⟩
      rcases mem_nodePathSpec.1 hb with ⟨m, _, rfl⟩
      have hsome : (sub R (v.take m)).isSome := by
        apply sub_isSome_of_append (b := v.drop m)
        rw [List.take_append_drop]; exact hv
      cases hsub : sub R (v.take m) with
      | none => simp [hsub] at hsome
      | some t => simpa [nameAt, hsub] using hsep _ t hsub
    have hpn : pathNames R v = R.name :: stepNames R [] v := by
      have := pathNames_append R v []
      simpa [pathNames_nil] using this
    have hsplit : split [s] (lstrip [s] (rstrip [s] q)) = pathNames R v := by
      rw [← hj]
      exact split_join_single s _ (by rw [hpn]; simp) hnames
    rw [hsplit, hpn]
    simp only [List.head?_cons, bne_self_eq_false, Bool.false_eq_true, ↓reduceIte, List.drop_one,
      List.tail_cons]
    have := fullPathLoop_complete hu v [] (some []) (by simpa using hv) rfl
    simpa using this

end Search
