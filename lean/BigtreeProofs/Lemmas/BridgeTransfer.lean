import BigtreeProofs.Lemmas.BridgeAddr
import BigtreeProofs.Lemmas.BridgeTree
/-!
# Bridge A→B, part 7: helpers for the transfer corollaries (pre-order of a read-back tree)
-/

namespace Iter

/-- the configuration of a traversal without filter, stop condition and depth limit -/
def Cfg.all : Cfg := { filt := fun _ => true, stop := fun _ => false, maxDepth := 0 }

theorem admit_all (d : Nat) (t : Tree) : Cfg.all.admit d t = true := by
  simp [Cfg.admit, Cfg.all]

mutual
theorem gate_all : ∀ (d : Nat) (t : Tree), gate Cfg.all d t = t
  | d, .node i n a cs => by simp only [gate]; rw [gateL_all (d + 1) cs]
theorem gateL_all : ∀ (d : Nat) (ts : List Tree), gateL Cfg.all d ts = ts
  | _, [] => rfl
  | d, t :: ts => by simp only [gateL, admit_all, if_true]; rw [gate_all d t, gateL_all d ts]
end

end Iter

namespace Store
open Iter Query

/-- the pre-order of a subtree is a contiguous piece of the pre-order of the tree -/
theorem pre_sub_infix : ∀ (a : Addr) (t u : Tree), sub t a = some u →
    ∃ l1 l3, pre t = l1 ++ pre u ++ l3 := by
  intro a
  induction a with
  | nil =>
    intro t u h
    simp only [sub_nil, Option.some.injEq] at h
    subst h
    exact ⟨[], [], by simp⟩
  | cons k ks ih =>
    intro t u h
    rw [sub_cons] at h
    cases hk : t.children[k]? with
    | none => simp [hk] at h
    | some c =>
      simp only [hk, Option.bind_some] at h
      obtain ⟨m1, m3, hm⟩ := ih c u h
      obtain ⟨hlt, hget⟩ := List.getElem?_eq_some_iff.1 hk
      have hsplit : t.children = t.children.take k ++ c :: t.children.drop (k + 1) := by
        rw [← hget]
        exact (List.take_append_drop k t.children).symm.trans (by rw [List.drop_eq_getElem_cons hlt])
      have hpre : preL t.children
          = preL (t.children.take k) ++ (pre c ++ preL (t.children.drop (k + 1))) := by
        have := congrArg preL hsplit
        rwa [preL_append] at this
      refine ⟨t.id :: preL (t.children.take k) ++ m1, m3 ++ preL (t.children.drop (k + 1)), ?_⟩
      rw [Tree.pre_eq t, hpre, hm]
      simp [List.append_assoc]

/-- in the pre-order of the read-back of `r` a parent comes before its child -/
theorem pre_parent_before {s : Store} (hw : WF s) (f : Nat) (hf : s.n ≤ f) {r p x : Nat}
    (hr : Reach s r p) (hp : s.parent x = some p) :
    ∃ l1 l2 l3, pre (treeOf s f r) = l1 ++ p :: (l2 ++ x :: l3) := by
  obtain ⟨a, ha⟩ := addr_of_reach hw f hf hr
  obtain ⟨l1, l3, h⟩ := pre_sub_infix a _ _ ha
  have hx : x ∈ ((s.children p).map fun c => pre (treeOf s f c)).flatten := by
    simp only [List.mem_flatten, List.mem_map]
    exact ⟨_, ⟨x, hw.up x p hp, rfl⟩, (mem_pre_treeOf hw f hf x x).2 (Reach.refl x)⟩
  obtain ⟨m1, m2, hm⟩ := List.append_of_mem hx
  refine ⟨l1, m1, m2 ++ l3, ?_⟩
  rw [h, pre_treeOf hw p f hf, hm]
  simp [List.append_assoc]

end Store
