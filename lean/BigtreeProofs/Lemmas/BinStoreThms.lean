import BigtreeProofs.Lemmas.BinStoreBasic
/-! Theorems about the two-slot store that are shared by C11, C02 (BinaryNode part) and C20
(BinaryNode part): roll-back restores the snapshot exactly; assertions are pure guards. -/

namespace BinStore

/-! ### consequences of `BWF` -/

theorem BWF.not_self_parent {s : Store} (h : BWF s) (v : Nat) : s.parent v ≠ some v := by
  intro e
  have : ∀ x, Acc (IsParent s) x → x ≠ v := by
    intro x hx
    induction hx with
    | intro x _ ih =>
      intro hxv
      subst hxv
      exact ih x e rfl
  exact this v (h.acyc v) rfl

theorem BWF.not_self_slot {s : Store} (h : BWF s) (v : Nat) : some v ∉ s.slots v :=
  fun hm => h.not_self_parent v (h.down v v hm)

theorem BWF.idx_of_parent {s : Store} (h : BWF s) {c p : Nat} (hp : s.parent c = some p) :
    ∃ i, idx? (s.slots p) c = some i := idx?_isSome (h.up c p hp)

theorem BWF.not_mem_of_parent_ne {s : Store} (h : BWF s) {c : Nat} {p : Nat}
    (hp : s.parent c ≠ some p) : some c ∉ s.slots p := fun hm => hp (h.down p c hm)

/-! ### C02, parent setter -/

theorem parentTry_rollback {s : Store} (h : BWF s) (f : Fault) (v : Nat) (np : Option Nat) :
    parentRollback (parentTry f s v (s.parent v) np).1 v (s.parent v)
      (parentTry f s v (s.parent v) np).2.1 np = s := by
  cases hcur : s.parent v with
  | none =>
    cases np with
    | none =>
      refine Store.ext' ?_ (fun x => ?_) (fun x => ?_) <;> simp [parentTry, detach, attach, parentRollback] <;> grind
    | some p =>
      have hv : some v ∉ s.slots p := h.not_mem_of_parent_ne (by simp [hcur])
      cases hj : firstNone (s.slots p) with
      | none =>
        refine Store.ext' ?_ (fun x => ?_) (fun x => ?_) <;>
          simp [parentTry, detach, attach, parentRollback, fillFirst_false, hj, idx?_eq_none.2 hv] <;> grind
      | some j =>
        have h1 := idx?_set_firstNone hj hv
        have h2 := firstNone_get hj
        refine Store.ext' ?_ (fun x => ?_) (fun x => ?_) <;>
          simp [parentTry, detach, attach, parentRollback, fillFirst_false, hj, h1, h2] <;> grind
  | some cp =>
    obtain ⟨i, hi⟩ := h.idx_of_parent hcur
    have hcnt := h.distinct cp v
    have hclr := set_idx_none hi hcnt
    have hback := set_idx_clear hi hcnt
    cases np with
    | none =>
      refine Store.ext' ?_ (fun x => ?_) (fun x => ?_) <;> simp [parentTry, detach, attach, parentRollback, hi, hclr, hback] <;> grind
    | some p =>
      by_cases hpc : p = cp
      · subst hpc
        have hv : some v ∉ clear v (s.slots p) := not_mem_clear v _
        cases hj : firstNone (clear v (s.slots p)) with
        | none =>
          refine Store.ext' ?_ (fun x => ?_) (fun x => ?_) <;>
            simp [parentTry, detach, attach, parentRollback, hi, hclr, hback, fillFirst_false, hj,
              idx?_eq_none.2 hv] <;> grind
        | some j =>
          have h1 := idx?_set_firstNone hj hv
          have h2 := firstNone_get hj
          refine Store.ext' ?_ (fun x => ?_) (fun x => ?_) <;>
            simp [parentTry, detach, attach, parentRollback, hi, hclr, hback, fillFirst_false, hj, h1, h2] <;> grind
      · have hv : some v ∉ s.slots p := h.not_mem_of_parent_ne (by simp [hcur]; exact fun e => hpc e.symm)
        cases hj : firstNone (s.slots p) with
        | none =>
          refine Store.ext' ?_ (fun x => ?_) (fun x => ?_) <;>
            simp [parentTry, detach, attach, parentRollback, hi, hclr, fillFirst_false, hj, hpc,
              idx?_eq_none.2 hv] <;> grind
        | some j =>
          have h1 := idx?_set_firstNone hj hv
          have h2 := firstNone_get hj
          refine Store.ext' ?_ (fun x => ?_) (fun x => ?_) <;>
            simp [parentTry, detach, attach, parentRollback, hi, hclr, fillFirst_false, hj, h1, h2, hpc] <;> grind

/-- **C02 (BinaryNode, parent setter).** Whatever makes `v.parent = np` raise — wrong type, loop,
a full parent, the pre-hook, the post-hook — the store afterwards is the store before:
every node's parent and every node's slot list. For both settings of the assertion switch. -/
theorem setParent_rej_id {s : Store} (h : BWF s) (a : Bool) (f : Fault) (v : Nat) (np : Option Nat)
    (hr : (setParent a f s v np).2 = .rej) : (setParent a f s v np).1 = s := by
  unfold setParent at hr ⊢
  by_cases h1 : (a && parentTypeBad s np) = true
  · simp [h1]
  · by_cases h2 : (a && parentLoopBad s v np) = true
    · simp [h1, h2]
    · by_cases h3 : f = Fault.pre
      · simp [h1, h2, h3]
      · by_cases h4 : (parentTry f s v (s.parent v) np).2.2 = true
        · simp only [h1, h2, h3, h4, if_true, if_false]
          exact parentTry_rollback h f v np
        · simp [h1, h2, h3, h4] at hr

/-! ### the deleter -/

theorem delChildrenBody_spec {s : Store} (h : BWF s) (v : Nat) :
    ∃ s1, delChildrenBody s v = (s1, false) ∧ s1.n = s.n ∧
      (∀ x, s1.parent x = if s.parent x = some v then none else s.parent x) ∧
      (∀ x, s1.slots x = if x = v then [none, none] else s.slots x) := by
  obtain ⟨o1, o2, hl⟩ := two_of_len (h.len2 v)
  have hd := h.down v
  have hc := h.distinct v
  have hup := h.up
  have hns := h.not_self_slot v
  rw [hl] at hd hc hns
  cases o1 with
  | none =>
    cases o2 with
    | none =>
      refine ⟨s, by simp [delChildrenBody, hl, delLoop], rfl, fun x => ?_, fun x => ?_⟩
      · split
        · rename_i hx; have := hup x v hx; simp [hl] at this
        · rfl
      · split
        · rename_i hx; subst hx; exact hl
        · rfl
    | some k2 =>
      have hp2 : s.parent k2 = some v := hd k2 (by simp)
      refine ⟨setPar (setSlotAt s v 1 none) k2 none,
        by simp [delChildrenBody, hl, delLoop, delOne, hp2, idx?], rfl, fun x => ?_, fun x => ?_⟩
      · have := hup x v
        simp [hl] at this
        simp; grind
      · simp [hl] <;> grind
  | some k1 =>
    have hp1 : s.parent k1 = some v := hd k1 (by simp)
    cases o2 with
    | none =>
      refine ⟨setPar (setSlotAt s v 0 none) k1 none,
        by simp [delChildrenBody, hl, delLoop, delOne, hp1, idx?], rfl, fun x => ?_, fun x => ?_⟩
      · have := hup x v
        simp [hl] at this
        simp; grind
      · simp [hl] <;> grind
    | some k2 =>
      have hp2 : s.parent k2 = some v := hd k2 (by simp)
      have hne : k1 ≠ k2 := by
        intro e; subst e
        have := hc k1
        simp at this
      have hne' : k2 ≠ k1 := fun e => hne e.symm
      refine ⟨setPar (setSlotAt (setPar (setSlotAt s v 0 none) k1 none) v 1 none) k2 none,
        by simp [delChildrenBody, hl, delLoop, delOne, hp1, hp2, idx?, hne'], rfl,
        fun x => ?_, fun x => ?_⟩
      · have := hup x v
        simp [hl] at this
        simp; grind
      · simp [hl] <;> grind

end BinStore
