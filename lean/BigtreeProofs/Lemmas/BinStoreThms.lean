import BigtreeProofs.Lemmas.BinStoreBasic
/-! Theorems about the two-slot store that are shared by C11, C02 (BinaryNode part) and C20
(BinaryNode part): roll-back restores the snapshot exactly; assertions are pure guards. -/

namespace BinStore

/-! ### consequences of `BWF` -/

theorem BWF.not_self_parent {s : Store} (h : BWF s) (v : Nat) : s.parent v ≠ some v := by
  intro e
  have : ∀ x, Acc (IsParent s) x → x ≠ v := by
    intro x hx
    induction hx with
    | intro x _ ih =>
      intro hxv
      subst hxv
      exact ih x e rfl
  exact this v (h.acyc v) rfl

theorem BWF.not_self_slot {s : Store} (h : BWF s) (v : Nat) : some v ∉ s.slots v :=
  fun hm => h.not_self_parent v (h.down v v hm)

theorem BWF.idx_of_parent {s : Store} (h : BWF s) {c p : Nat} (hp : s.parent c = some p) :
    ∃ i, idx? (s.slots p) c = some i := idx?_isSome (h.up c p hp)

theorem BWF.not_mem_of_parent_ne {s : Store} (h : BWF s) {c : Nat} {p : Nat}
    (hp : s.parent c ≠ some p) : some c ∉ s.slots p := fun hm => hp (h.down p c hm)

/-! ### C02, parent setter -/

theorem parentTry_rollback {s : Store} (h : BWF s) (f : Fault) (v : Nat) (np : Option Nat) :
    parentRollback (parentTry f s v (s.parent v) np).1 v (s.parent v)
      (parentTry f s v (s.parent v) np).2.1 np = s := by
  cases hcur : s.parent v with
  | none =>
    cases np with
    | none =>
      refine Store.ext' ?_ (fun x => ?_) (fun x => ?_) <;> simp [parentTry, detach, attach, parentRollback] <;> grind
    | some p =>
      have hv : some v ∉ s.slots p := h.not_mem_of_parent_ne (by simp [hcur])
      cases hj : firstNone (s.slots p) with
      | none =>
        refine Store.ext' ?_ (fun x => ?_) (fun x => ?_) <;>
          simp [parentTry, detach, attach, parentRollback, fillFirst_false, hj, idx?_eq_none.2 hv] <;> grind
      | some j =>
        have h1 := idx?_set_firstNone hj hv
        have h2 := firstNone_get hj
        refine Store.ext' ?_ (fun x => ?_) (fun x => ?_) <;>
          simp [parentTry, detach, attach, parentRollback, fillFirst_false, hj, h1, h2] <;> grind
  | some cp =>
    obtain ⟨i, hi⟩ := h.idx_of_parent hcur
    have hcnt := h.distinct cp v
    have hclr := set_idx_none hi hcnt
    have hback := set_idx_clear hi hcnt
    cases np with
    | none =>
      refine Store.ext' ?_ (fun x => ?_) (fun x => ?_) <;> simp [parentTry, detach, attach, parentRollback, hi, hclr, hback] <;> grind
    | some p =>
      by_cases hpc : p = cp
      · subst hpc
        have hv : some v ∉ clear v (s.slots p) := not_mem_clear v _
        cases hj : firstNone (clear v (s.slots p)) with
        | none =>
          refine Store.ext' ?_ (fun x => ?_) (fun x => ?_) <;>
            simp [parentTry, detach, attach, parentRollback, hi, hclr, hback, fillFirst_false, hj,
              idx?_eq_none.2 hv] <;> grind
        | some j =>
          have h1 := idx?_set_firstNone hj hv
          have h2 := firstNone_get hj
          refine Store.ext' ?_ (fun x => ?_) (fun x => ?_) <;>
            simp [parentTry, detach, attach, parentRollback, hi, hclr, hback, fillFirst_false, hj, h1, h2] <;> grind
      · have hv : some v ∉ s.slots p := h.not_mem_of_parent_ne (by simp [hcur]; exact fun e => hpc e.symm)
        cases hj : firstNone (s.slots p) with
        | none =>
          refine Store.ext' ?_ (fun x => ?_) (fun x => ?_) <;>
            simp [parentTry, detach, attach, parentRollback, hi, hclr, fillFirst_false, hj, hpc,
              idx?_eq_none.2 hv] <;> grind
        | some j =>
          have h1 := idx?_set_firstNone hj hv
          have h2 := firstNone_get hj
          refine Store.ext' ?_ (fun x => ?_) (fun x => ?_) <;>
            simp [parentTry, detach, attach, parentRollback, hi, hclr, fillFirst_false, hj, h1, h2, hpc] <;> grind

/-- **C02 (BinaryNode, parent setter).** Whatever makes `v.parent = np` raise — wrong type, loop,
a full parent, the pre-hook, the post-hook — the store afterwards is the store before:
every node's parent and every node's slot list. For both settings of the assertion switch. -/
theorem setParent_rej_id {s : Store} (h : BWF s) (a : Bool) (f : Fault) (v : Nat) (np : Option Nat)
    (hr : (setParent a f s v np).2 = .rej) : (setParent a f s v np).1 = s := by
  unfold setParent at hr ⊢
  by_cases h1 : (a && parentTypeBad s np) = true
  · simp [h1]
  · by_cases h2 : (a && parentLoopBad s v np) = true
    · simp [h1, h2]
    · by_cases h3 : f = Fault.pre
      · simp [h1, h2, h3]
      · by_cases h4 : (parentTry f s v (s.parent v) np).2.2 = true
        · simp only [h1, h2, h3, h4, if_true, if_false]
          exact parentTry_rollback h f v np
        · simp [h1, h2, h3, h4] at hr

/-! ### the deleter -/

theorem delChildrenBody_spec {s : Store} (h : BWF s) (v : Nat) :
    ∃ s1, delChildrenBody s v = (s1, false) ∧ s1.n = s.n ∧
      (∀ x, s1.parent x = if s.parent x = some v then none else s.parent x) ∧
      (∀ x, s1.slots x = if x = v then [none, none] else s.slots x) := by
  obtain ⟨o1, o2, hl⟩ := two_of_len (h.len2 v)
  have hd := h.down v
  have hc := h.distinct v
  have hup := h.up
  have hns := h.not_self_slot v
  rw [hl] at hd hc hns
  cases o1 with
  | none =>
    cases o2 with
    | none =>
      refine ⟨s, by simp [delChildrenBody, hl, delLoop], rfl, fun x => ?_, fun x => ?_⟩
      · split
        · rename_i hx; have := hup x v hx; simp [hl] at this
        · rfl
      · split
        · rename_i hx; subst hx; exact hl
        · rfl
    | some k2 =>
      have hp2 : s.parent k2 = some v := hd k2 (by simp)
      refine ⟨setPar (setSlotAt s v 1 none) k2 none,
        by simp [delChildrenBody, hl, delLoop, delOne, hp2, idx?], rfl, fun x => ?_, fun x => ?_⟩
      · have := hup x v
        simp [hl] at this
        simp; grind
      · simp [hl] <;> grind
  | some k1 =>
    have hp1 : s.parent k1 = some v := hd k1 (by simp)
    cases o2 with
    | none =>
      refine ⟨setPar (setSlotAt s v 0 none) k1 none,
        by simp [delChildrenBody, hl, delLoop, delOne, hp1, idx?], rfl, fun x => ?_, fun x => ?_⟩
      · have := hup x v
        simp [hl] at this
        simp; grind
      · simp [hl] <;> grind
    | some k2 =>
      have hp2 : s.parent k2 = some v := hd k2 (by simp)
      have hne : k1 ≠ k2 := by
        intro e; subst e
        have := hc k1
        simp at this
      have hne' : k2 ≠ k1 := fun e => hne e.symm
      refine ⟨setPar (setSlotAt (setPar (setSlotAt s v 0 none) k1 none) v 1 none) k2 none,
        by simp [delChildrenBody, hl, delLoop, delOne, hp1, hp2, idx?, hne'], rfl,
        fun x => ?_, fun x => ?_⟩
      · have := hup x v
        simp [hl] at this
        simp; grind
      · simp [hl] <;> grind

/-! ### the children setter: closed form of the `try` body -/

/-- facts about a member `k` of the new children after the deleter has run (`s1`) -/
theorem member_facts {s s1 : Store} (h : BWF s) (v k : Nat)
    (hp1 : ∀ x, s1.parent x = if s.parent x = some v then none else s.parent x) :
    (s1.parent k = none ∧ ∀ x, x ≠ v → clear k (s.slots x) = s.slots x) ∨
    (∃ q i, s1.parent k = some q ∧ q ≠ v ∧ s.parent k = some q ∧ idx? (s.slots q) k = some i ∧
      (s.slots q).set i none = clear k (s.slots q) ∧ ∀ x, x ≠ q → clear k (s.slots x) = s.slots x) := by
  cases hp : s.parent k with
  | none =>
    left
    refine ⟨by simp [hp1, hp], fun x _ => clear_of_not_mem (h.not_mem_of_parent_ne (by simp [hp]))⟩
  | some q =>
    by_cases hq : q = v
    · subst hq
      left
      refine ⟨by simp [hp1, hp], fun x hx => clear_of_not_mem (h.not_mem_of_parent_ne ?_)⟩
      simp [hp]; exact fun e => hx e.symm
    · right
      obtain ⟨i, hi⟩ := h.idx_of_parent hp
      refine ⟨q, i, by simp [hp1, hp, hq], hq, rfl, hi, set_idx_none hi (h.distinct q k),
        fun x hx => clear_of_not_mem (h.not_mem_of_parent_ne ?_)⟩
      simp [hp]; exact fun e => hx e.symm

theorem childrenTry_spec {s : Store} (h : BWF s) (f : Fault) (v : Nat) (c1 c2 : Option Nat)
    (hd : ∀ k, c1 = some k → c2 ≠ some k) :
    ∃ t, childrenTry f s v [c1, c2] = (t, decide (f = Fault.post)) ∧ t.n = s.n ∧
      (∀ x, t.parent x = if c1 = some x ∨ c2 = some x then some v
                          else if s.parent x = some v then none else s.parent x) ∧
      (∀ x, t.slots x = if x = v then [c1, c2] else clearO c2 (clearO c1 (s.slots x))) := by
  obtain ⟨s1, hdel, hn1, hp1, hs1⟩ := delChildrenBody_spec h v
  cases c1 with
  | none =>
    cases c2 with
    | none =>
      refine ⟨setSlots s1 v [none, none], by simp [childrenTry, hdel, assignLoop], by simp [hn1],
        fun x => by simp [hp1], fun x => by simp [hs1] <;> grind⟩
    | some k2 =>
      rcases member_facts h v k2 hp1 with ⟨hk, hcl⟩ | ⟨q, i, hk, hqv, hpk, hi, hset, hcl⟩
      · refine ⟨setPar (setSlots s1 v [none, some k2]) k2 (some v),
          by simp [childrenTry, hdel, assignLoop, stealOne, hk], by simp [hn1], fun x => ?_, fun x => ?_⟩
        · simp [hp1]; grind
        · simp [hs1]; grind
      · refine ⟨setPar (setSlotAt (setSlots s1 v [none, some k2]) q i none) k2 (some v),
          by simp [childrenTry, hdel, assignLoop, stealOne, hk, hqv, hs1, hi], by simp [hn1], fun x => ?_, fun x => ?_⟩
        · simp [hp1]; grind
        · simp [hs1, hqv]; grind
  | some k1 =>
    rcases member_facts h v k1 hp1 with ⟨hk1, hcl1⟩ | ⟨q1, i1, hk1, hqv1, hpk1, hi1, hset1, hcl1⟩
    · cases c2 with
      | none =>
        refine ⟨setPar (setSlots s1 v [some k1, none]) k1 (some v),
          by simp [childrenTry, hdel, assignLoop, stealOne, hk1], by simp [hn1], fun x => ?_, fun x => ?_⟩
        · simp [hp1] <;> grind
        · simp [hs1] <;> grind
      | some k2 =>
        have hne : k2 ≠ k1 := fun e => hd k1 rfl (by rw [e])
        have hcomm := fun x => clear_comm k2 k1 (s.slots x)
        rcases member_facts h v k2 hp1 with ⟨hk2, hcl2⟩ | ⟨q2, i2, hk2, hqv2, hpk2, hi2, hset2, hcl2⟩
        · refine ⟨setPar (setPar (setSlots s1 v [some k1, some k2]) k1 (some v)) k2 (some v),
            by simp [childrenTry, hdel, assignLoop, stealOne, hk1, hk2, hne], by simp [hn1],
            fun x => ?_, fun x => ?_⟩
          · simp [hp1] <;> grind
          · simp [hs1] <;> grind
        · refine ⟨setPar (setSlotAt (setPar (setSlots s1 v [some k1, some k2]) k1 (some v)) q2 i2 none) k2 (some v),
            by simp [childrenTry, hdel, assignLoop, stealOne, hk1, hk2, hne, hqv2, hs1, hi2], by simp [hn1],
            fun x => ?_, fun x => ?_⟩
          · simp [hp1] <;> grind
          · simp [hs1, hqv2] <;> grind
    · cases c2 with
      | none =>
        refine ⟨setPar (setSlotAt (setSlots s1 v [some k1, none]) q1 i1 none) k1 (some v),
          by simp [childrenTry, hdel, assignLoop, stealOne, hk1, hqv1, hs1, hi1], by simp [hn1],
          fun x => ?_, fun x => ?_⟩
        · simp [hp1] <;> grind
        · simp [hs1, hqv1] <;> grind
      | some k2 =>
        have hne : k2 ≠ k1 := fun e => hd k1 rfl (by rw [e])
        have hcomm := fun x => clear_comm k2 k1 (s.slots x)
        rcases member_facts h v k2 hp1 with ⟨hk2, hcl2⟩ | ⟨q2, i2, hk2, hqv2, hpk2, hi2, hset2, hcl2⟩
        · refine ⟨setPar (setPar (setSlotAt (setSlots s1 v [some k1, some k2]) q1 i1 none) k1 (some v)) k2 (some v),
            by simp [childrenTry, hdel, assignLoop, stealOne, hk1, hk2, hne, hqv1, hs1, hi1], by simp [hn1],
            fun x => ?_, fun x => ?_⟩
          · simp [hp1] <;> grind
          · simp [hs1, hqv1] <;> grind
        · by_cases hqq : q2 = q1
          · subst hqq
            have hi2' : idx? (clear k1 (s.slots q2)) k2 = some i2 := by rw [idx?_clear_ne _ hne]; exact hi2
            have hset2' : (clear k1 (s.slots q2)).set i2 none = clear k2 (clear k1 (s.slots q2)) := by
              rw [clear_set_none, hset2, clear_comm]
            refine ⟨setPar (setSlotAt (setPar (setSlotAt (setSlots s1 v [some k1, some k2]) q2 i1 none) k1 (some v)) q2 i2 none) k2 (some v),
              by simp [childrenTry, hdel, assignLoop, stealOne, hk1, hk2, hne, hqv1, hs1, hi1, hset1, hi2'], by simp [hn1],
              fun x => ?_, fun x => ?_⟩
            · simp [hp1] <;> grind
            · simp [hs1, hqv1, hset1, hset2'] <;> grind
          · refine ⟨setPar (setSlotAt (setPar (setSlotAt (setSlots s1 v [some k1, some k2]) q1 i1 none) k1 (some v)) q2 i2 none) k2 (some v),
              by simp [childrenTry, hdel, assignLoop, stealOne, hk1, hk2, hne, hqv1, hqv2, hs1, hi1, hi2, hqq], by simp [hn1],
              fun x => ?_, fun x => ?_⟩
            · simp [hp1] <;> grind
            · simp [hs1, hqv1, hqv2, hqq] <;> grind

/-! ### the children setter: the roll-back code -/

@[simp] theorem restoreStolen_n (t : Store) (l) : (restoreStolen t l).n = t.n := by
  induction l generalizing t with
  | nil => rfl
  | cons e l ih => obtain ⟨c, i, p⟩ := e; simp [restoreStolen, ih]

@[simp] theorem restoreOrphans_n (t : Store) (l) : (restoreOrphans t l).n = t.n := by
  induction l generalizing t with
  | nil => rfl
  | cons e l ih => simp [restoreOrphans, ih]

@[simp] theorem restoreOrphans_slots (t : Store) (l) : (restoreOrphans t l).slots = t.slots := by
  induction l generalizing t with
  | nil => rfl
  | cons e l ih => simp [restoreOrphans, ih]

theorem restoreOrphans_parent (t : Store) (l) (x : Nat) :
    (restoreOrphans t l).parent x = if x ∈ l then none else t.parent x := by
  induction l generalizing t with
  | nil => simp [restoreOrphans]
  | cons e l ih =>
    simp only [restoreOrphans, ih, setPar_parent, List.mem_cons]
    grind

@[simp] theorem reparentOld_n (v : Nat) (t : Store) (l) : (reparentOld v t l).n = t.n := by
  induction l generalizing t with
  | nil => rfl
  | cons e l ih => cases e <;> simp [reparentOld, ih]

@[simp] theorem reparentOld_slots (v : Nat) (t : Store) (l) : (reparentOld v t l).slots = t.slots := by
  induction l generalizing t with
  | nil => rfl
  | cons e l ih => cases e <;> simp [reparentOld, ih]

theorem reparentOld_parent (v : Nat) (t : Store) (l) (x : Nat) :
    (reparentOld v t l).parent x = if some x ∈ l then some v else t.parent x := by
  induction l generalizing t with
  | nil => simp [reparentOld]
  | cons e l ih =>
    cases e with
    | none => simp [reparentOld, ih]
    | some c =>
      simp only [reparentOld, ih, setPar_parent, List.mem_cons, Option.some.injEq]
      grind

/-- facts about a member `k` of the new children in the snapshot state -/
theorem snap_facts {s : Store} (h : BWF s) (k : Nat) :
    (s.parent k = none ∧ ∀ x, clear k (s.slots x) = s.slots x) ∨
    (∃ p i, s.parent k = some p ∧ idx? (s.slots p) k = some i ∧
      (clear k (s.slots p)).set i (some k) = s.slots p ∧ ∀ x, x ≠ p → clear k (s.slots x) = s.slots x) := by
  cases hp : s.parent k with
  | none =>
    left
    exact ⟨rfl, fun x => clear_of_not_mem (h.not_mem_of_parent_ne (by simp [hp]))⟩
  | some p =>
    right
    obtain ⟨i, hi⟩ := h.idx_of_parent hp
    refine ⟨p, i, rfl, hi, set_idx_clear hi (h.distinct p k),
      fun x hx => clear_of_not_mem (h.not_mem_of_parent_ne ?_)⟩
    simp [hp]; exact fun e => hx e.symm

theorem childrenRollback_spec {s t : Store} (h : BWF s) (v : Nat) (c1 c2 : Option Nat)
    (hd : ∀ k, c1 = some k → c2 ≠ some k) (hn : t.n = s.n)
    (hpt : ∀ x, t.parent x = if c1 = some x ∨ c2 = some x then some v
                          else if s.parent x = some v then none else s.parent x)
    (hst : ∀ x, t.slots x = if x = v then [c1, c2] else clearO c2 (clearO c1 (s.slots x))) :
    ∃ stolen, snapStolen s [c1, c2] [] = some stolen ∧
      childrenRollback t v stolen (snapOrphans s [c1, c2]) (s.slots v) = s := by
  have hdown := fun x => h.down v x
  have hup := fun x => h.up x v
  cases c1 with
  | none =>
    cases c2 with
    | none =>
      refine ⟨[], by simp [snapStolen], Store.ext' (by simp [childrenRollback, hn]) (fun x => ?_) (fun x => ?_)⟩
      · simp [childrenRollback, reparentOld_parent, restoreOrphans_parent, restoreStolen, snapOrphans, hpt] <;> grind
      · simp [childrenRollback, restoreStolen, hst] <;> grind
    | some k2 =>
      rcases snap_facts h k2 with ⟨hk2, hcl2⟩ | ⟨p2, i2, hk2, hi2, hb2, hcl2⟩
      · refine ⟨[], by simp [snapStolen, hk2], Store.ext' (by simp [childrenRollback, hn]) (fun x => ?_) (fun x => ?_)⟩
        · simp [childrenRollback, reparentOld_parent, restoreOrphans_parent, restoreStolen, snapOrphans, hpt, hk2] <;> grind
        · simp [childrenRollback, restoreStolen, hst] <;> grind
      · refine ⟨[(k2, i2, p2)], by simp [snapStolen, hk2, hi2, dictSet], Store.ext' (by simp [childrenRollback, hn]) (fun x => ?_) (fun x => ?_)⟩
        · simp [childrenRollback, reparentOld_parent, restoreOrphans_parent, restoreStolen, snapOrphans, hpt, hk2] <;> grind
        · simp [childrenRollback, restoreStolen, hst] <;> grind
  | some k1 =>
    rcases snap_facts h k1 with ⟨hk1, hcl1⟩ | ⟨p1, i1, hk1, hi1, hb1, hcl1⟩
    · cases c2 with
      | none =>
        refine ⟨[], by simp [snapStolen, hk1], Store.ext' (by simp [childrenRollback, hn]) (fun x => ?_) (fun x => ?_)⟩
        · simp [childrenRollback, reparentOld_parent, restoreOrphans_parent, restoreStolen, snapOrphans, hpt, hk1] <;> grind
        · simp [childrenRollback, restoreStolen, hst] <;> grind
      | some k2 =>
        have hne : k2 ≠ k1 := fun e => hd k1 rfl (by rw [e])
        have hcomm := fun x => clear_comm k2 k1 (s.slots x)
        rcases snap_facts h k2 with ⟨hk2, hcl2⟩ | ⟨p2, i2, hk2, hi2, hb2, hcl2⟩
        · refine ⟨[], by simp [snapStolen, hk1, hk2], Store.ext' (by simp [childrenRollback, hn]) (fun x => ?_) (fun x => ?_)⟩
          · simp [childrenRollback, reparentOld_parent, restoreOrphans_parent, restoreStolen, snapOrphans, hpt, hk1, hk2] <;> grind
          · simp [childrenRollback, restoreStolen, hst] <;> grind
        · refine ⟨[(k2, i2, p2)], by simp [snapStolen, hk1, hk2, hi2, dictSet], Store.ext' (by simp [childrenRollback, hn]) (fun x => ?_) (fun x => ?_)⟩
          · simp [childrenRollback, reparentOld_parent, restoreOrphans_parent, restoreStolen, snapOrphans, hpt, hk1, hk2] <;> grind
          · simp [childrenRollback, restoreStolen, hst] <;> grind
    · cases c2 with
      | none =>
        refine ⟨[(k1, i1, p1)], by simp [snapStolen, hk1, hi1, dictSet], Store.ext' (by simp [childrenRollback, hn]) (fun x => ?_) (fun x => ?_)⟩
        · simp [childrenRollback, reparentOld_parent, restoreOrphans_parent, restoreStolen, snapOrphans, hpt, hk1] <;> grind
        · simp [childrenRollback, restoreStolen, hst] <;> grind
      | some k2 =>
        have hne : k2 ≠ k1 := fun e => hd k1 rfl (by rw [e])
        have hne' : k1 ≠ k2 := fun e => hne e.symm
        have hcomm := fun x => clear_comm k2 k1 (s.slots x)
        have hsw := fun (M : List (Option Nat)) => clear_set_some_ne (k := k2) (c := k1) M i1 hne'
        rcases snap_facts h k2 with ⟨hk2, hcl2⟩ | ⟨p2, i2, hk2, hi2, hb2, hcl2⟩
        · refine ⟨[(k1, i1, p1)], by simp [snapStolen, hk1, hk2, hi1, dictSet], Store.ext' (by simp [childrenRollback, hn]) (fun x => ?_) (fun x => ?_)⟩
          · simp [childrenRollback, reparentOld_parent, restoreOrphans_parent, restoreStolen, snapOrphans, hpt, hk1, hk2] <;> grind
          · simp [childrenRollback, restoreStolen, hst] <;> grind
        · refine ⟨[(k1, i1, p1), (k2, i2, p2)], by simp [snapStolen, hk1, hk2, hi1, hi2, dictSet, hne'], Store.ext' (by simp [childrenRollback, hn]) (fun x => ?_) (fun x => ?_)⟩
          · simp [childrenRollback, reparentOld_parent, restoreOrphans_parent, restoreStolen, snapOrphans, hpt, hk1, hk2] <;> grind
          · simp [childrenRollback, restoreStolen, hst] <;> grind


/-! ### C02, children setter -/

theorem normChildren_some {l new : List (Option Nat)} (h : normChildren l = some new) :
    ∃ c1 c2, new = [c1, c2] := by
  unfold normChildren at h
  by_cases h0 : l.length = 0
  · simp [h0] at h; exact ⟨none, none, h.symm⟩
  · simp only [h0, if_false] at h
    by_cases h2 : l.length = 2
    · simp [h2] at h; subst h; exact two_of_len h2
    · simp [h2] at h

/-- what `__check_children_loop` establishes for `[c1, c2]` -/
structure ValidNew (s : Store) (v : Nat) (c1 c2 : Option Nat) : Prop where
  range : ∀ k, c1 = some k ∨ c2 = some k → k < s.n
  ne_self : ∀ k, c1 = some k ∨ c2 = some k → k ≠ v
  not_anc : ∀ k, c1 = some k ∨ c2 = some k → k ∉ anc s s.n v
  distinct : ∀ k, c1 = some k → c2 ≠ some k

theorem childrenLoopBad_two {s : Store} {v : Nat} {c1 c2 : Option Nat} :
    childrenLoopBad s v [c1, c2] [] = false ↔ ValidNew s v c1 c2 := by
  constructor
  · intro hb
    cases c1 <;> cases c2 <;> simp [childrenLoopBad] at hb <;>
      constructor <;> intro k <;> simp <;> grind
  · intro hv
    cases c1 with
    | none =>
      cases c2 with
      | none => simp [childrenLoopBad]
      | some b =>
        have r2 := hv.range b (Or.inr rfl)
        have s2 := hv.ne_self b (Or.inr rfl)
        have a2 := hv.not_anc b (Or.inr rfl)
        simp [childrenLoopBad]
        exact ⟨r2, s2, a2⟩
    | some a =>
      have r1 := hv.range a (Or.inl rfl)
      have s1 := hv.ne_self a (Or.inl rfl)
      have a1 := hv.not_anc a (Or.inl rfl)
      cases c2 with
      | none =>
        simp [childrenLoopBad]
        exact ⟨r1, s1, a1⟩
      | some b =>
        have r2 := hv.range b (Or.inr rfl)
        have s2 := hv.ne_self b (Or.inr rfl)
        have a2 := hv.not_anc b (Or.inr rfl)
        have d := hv.distinct a rfl
        simp [childrenLoopBad]
        refine ⟨r1, s1, a1, r2, s2, a2, ?_⟩
        intro e; exact d (by rw [e])

/-- **C02 (BinaryNode, children setter).** Whatever makes `v.children = l` raise with the checks
on — wrong length, a member that is not a node, self, an ancestor, a repeated member, the pre-hook,
the post-hook — the store afterwards is the store before. -/
theorem setChildren_rej_id {s : Store} (h : BWF s) (f : Fault) (v : Nat) (l : List (Option Nat))
    (hr : (setChildren true f s v l).2 = .rej) : (setChildren true f s v l).1 = s := by
  unfold setChildren at hr ⊢
  cases hnorm : normChildren l with
  | none => rfl
  | some new =>
    obtain ⟨c1, c2, rfl⟩ := normChildren_some hnorm
    by_cases hb : childrenLoopBad s v [c1, c2] [] = true
    · simp [hb]
    · have hv := childrenLoopBad_two.1 (by simpa using hb)
      obtain ⟨t, ht, hn, hpt, hst⟩ := childrenTry_spec h f v c1 c2 hv.distinct
      obtain ⟨stolen, hsn, hroll⟩ := childrenRollback_spec h v c1 c2 hv.distinct hn hpt hst
      simp only [hnorm, hb, hsn, ht] at hr ⊢
      by_cases hpre : f = Fault.pre
      · simp [hpre]
      · by_cases hpost : f = Fault.post
        · simp [hpost, hroll]
        · simp [hpre, hpost] at hr


/-- repeated member `[k, k]` (only reachable with the checks off): the `try` body and the roll-back -/
theorem childrenRepeat_rollback {s : Store} (h : BWF s) (f : Fault) (v k : Nat) :
    ∃ stolen t, snapStolen s [some k, some k] [] = some stolen ∧
      childrenTry f s v [some k, some k] = (t, decide (f = Fault.post)) ∧
      childrenRollback t v stolen (snapOrphans s [some k, some k]) (s.slots v) = s := by
  obtain ⟨s1, hdel, hn1, hp1, hs1⟩ := delChildrenBody_spec h v
  have hup := fun x => h.up x v
  have hdown := fun x => h.down v x
  rcases member_facts h v k hp1 with ⟨hk1, hcl1⟩ | ⟨q, i, hk1, hqv, hpk, hi, hset, hcl1⟩
  · -- after the deleter `k` has no parent: it was an orphan or a child of `v`
    rcases snap_facts h k with ⟨hk, hcl⟩ | ⟨p, j, hk, hj, hb, hcl⟩
    · refine ⟨[], _, by simp [snapStolen, hk],
        by simp [childrenTry, hdel, assignLoop, stealOne, hk1, idx?]; rfl, ?_⟩
      refine Store.ext' (by simp [childrenRollback, hn1]) (fun x => ?_) (fun x => ?_)
      · simp [childrenRollback, reparentOld_parent, restoreOrphans_parent, restoreStolen, snapOrphans, hk, hp1] <;> grind
      · simp [childrenRollback, restoreStolen, hs1] <;> grind
    · refine ⟨[(k, j, p)], _, by simp [snapStolen, hk, hj, dictSet],
        by simp [childrenTry, hdel, assignLoop, stealOne, hk1, idx?]; rfl, ?_⟩
      have hpv : p = v := by
        have := hp1 k
        rw [hk1, hk] at this
        by_cases e : p = v
        · exact e
        · simp [e] at this
      subst hpv
      refine Store.ext' (by simp [childrenRollback, hn1]) (fun x => ?_) (fun x => ?_)
      · simp [childrenRollback, reparentOld_parent, restoreOrphans_parent, restoreStolen, snapOrphans, hk, hp1] <;> grind
      · simp [childrenRollback, restoreStolen, hs1] <;> grind
  · have hb := set_idx_clear hi (h.distinct q k)
    have hvq : ¬ v = q := fun e => hqv e.symm
    refine ⟨[(k, i, q)], _, by simp [snapStolen, hpk, hi, dictSet],
      by simp [childrenTry, hdel, assignLoop, stealOne, hk1, hqv, hvq, hs1, hi, idx?]; rfl, ?_⟩
    refine Store.ext' (by simp [childrenRollback, hn1]) (fun x => ?_) (fun x => ?_)
    · simp [childrenRollback, reparentOld_parent, restoreOrphans_parent, restoreStolen, snapOrphans, hpk, hp1] <;> grind
    · simp [childrenRollback, restoreStolen, hs1, hset, hqv] <;> grind


/-- **C02 (BinaryNode, children setter), both settings of the assertion switch.** From a well-formed
store a raising `v.children = l` changes nothing — also with the checks off, where self, ancestors
and repeated members reach the assignment loop and only a hook can raise. -/
theorem setChildren_rej_id_any {s : Store} (h : BWF s) (a : Bool) (f : Fault) (v : Nat)
    (l : List (Option Nat)) (hr : (setChildren a f s v l).2 = .rej) : (setChildren a f s v l).1 = s := by
  unfold setChildren at hr ⊢
  cases hnorm : normChildren l with
  | none => rfl
  | some new =>
    obtain ⟨c1, c2, rfl⟩ := normChildren_some hnorm
    by_cases hb : (a && childrenLoopBad s v [c1, c2] []) = true
    · simp [hb]
    · by_cases hrep : ∃ k, c1 = some k ∧ c2 = some k
      · obtain ⟨k, rfl, rfl⟩ := hrep
        obtain ⟨stolen, t, hsn, ht, hroll⟩ := childrenRepeat_rollback h f v k
        simp only [hnorm, hb, hsn, ht] at hr ⊢
        by_cases hpre : f = Fault.pre
        · simp [hpre]
        · by_cases hpost : f = Fault.post
          · simp [hpost, hroll]
          · simp [hpre, hpost] at hr
      · have hd : ∀ k, c1 = some k → c2 ≠ some k := fun k e1 e2 => hrep ⟨k, e1, e2⟩
        obtain ⟨t, ht, hn, hpt, hst⟩ := childrenTry_spec h f v c1 c2 hd
        obtain ⟨stolen, hsn, hroll⟩ := childrenRollback_spec h v c1 c2 hd hn hpt hst
        simp only [hnorm, hb, hsn, ht] at hr ⊢
        by_cases hpre : f = Fault.pre
        · simp [hpre]
        · by_cases hpost : f = Fault.post
          · simp [hpost, hroll]
          · simp [hpre, hpost] at hr

/-- `v.left = x` is `v.children = [x, v.right]` -/
theorem setLeft_rej_id {s : Store} (h : BWF s) (f : Fault) (v : Nat) (x : Option Nat)
    (hr : (setLeft true f s v x).2 = .rej) : (setLeft true f s v x).1 = s := by
  unfold setLeft at hr ⊢
  cases hs : slotAt? s v 1 with
  | none => rfl
  | some r => simp only [hs] at hr ⊢; exact setChildren_rej_id h f v _ hr

theorem setRight_rej_id {s : Store} (h : BWF s) (f : Fault) (v : Nat) (x : Option Nat)
    (hr : (setRight true f s v x).2 = .rej) : (setRight true f s v x).1 = s := by
  unfold setRight at hr ⊢
  cases hs : slotAt? s v 0 with
  | none => rfl
  | some r => simp only [hs] at hr ⊢; exact setChildren_rej_id h f v _ hr

theorem delChildren_ok {s : Store} (h : BWF s) (v : Nat) : (delChildren s v).2 = .ok := by
  obtain ⟨s1, hd, _⟩ := delChildrenBody_spec h v
  simp [delChildren, hd]

/-- **C02 (BinaryNode).** Every rejected call — any operation, any argument, any fault — leaves the
whole store unchanged (checks on). -/
theorem step_rej_id {s : Store} (h : BWF s) (op : Op) (hr : (step true s op).2 = .rej) :
    (step true s op).1 = s := by
  unfold step at hr ⊢
  by_cases hsub : s.n ≤ op.subject
  · simp [hsub]
  · simp only [hsub, if_false] at hr ⊢
    cases op with
    | parent v np f => exact setParent_rej_id h true f v np hr
    | children v l f =>
      cases l with
      | none => rfl
      | some l => exact setChildren_rej_id h f v l hr
    | left v x f => exact setLeft_rej_id h f v x hr
    | right v x f => exact setRight_rej_id h f v x hr
    | del v => simp [delChildren_ok h v] at hr
    | sort v sw => simp at hr

/-- **C02 (BinaryNode), both settings of the assertion switch**, one call from a well-formed store -/
theorem step_rej_id_any {s : Store} (h : BWF s) (a : Bool) (op : Op) (hr : (step a s op).2 = .rej) :
    (step a s op).1 = s := by
  unfold step at hr ⊢
  by_cases hsub : s.n ≤ op.subject
  · simp [hsub]
  · simp only [hsub, if_false] at hr ⊢
    cases op with
    | parent v np f => exact setParent_rej_id h a f v np hr
    | children v l f =>
      cases l with
      | none => rfl
      | some l => exact setChildren_rej_id_any h a f v l hr
    | left v x f =>
      simp only [setLeft] at hr ⊢
      cases hs : slotAt? s v 1 with
      | none => rfl
      | some r => simp only [hs] at hr ⊢; exact setChildren_rej_id_any h a f v _ hr
    | right v x f =>
      simp only [setRight] at hr ⊢
      cases hs : slotAt? s v 0 with
      | none => rfl
      | some r => simp only [hs] at hr ⊢; exact setChildren_rej_id_any h a f v _ hr
    | del v => simp [delChildren_ok h v] at hr
    | sort v sw => simp at hr

/-! ### C20 (BinaryNode part): the assertion block is a pure guard -/

theorem setParent_off_same {s : Store} {f : Fault} {v : Nat} {np : Option Nat}
    (hok : (setParent true f s v np).2 = .ok) : setParent false f s v np = setParent true f s v np := by
  unfold setParent at hok ⊢
  by_cases h1 : parentTypeBad s np = true
  · simp [h1] at hok
  by_cases h2 : parentLoopBad s v np = true
  · simp [h1, h2] at hok
  simp [h1, h2]

theorem setChildren_off_same {s : Store} {f : Fault} {v : Nat} {l : List (Option Nat)}
    (hok : (setChildren true f s v l).2 = .ok) : setChildren false f s v l = setChildren true f s v l := by
  unfold setChildren at hok ⊢
  cases hnorm : normChildren l with
  | none => rfl
  | some new =>
    by_cases hb : childrenLoopBad s v new [] = true
    · simp [hnorm, hb] at hok
    · simp [hb]

/-- **C20 (BinaryNode).** A call accepted with the checks on gives the same outcome and the same
store with the checks off: the `if ASSERTIONS:` blocks only ever reject. -/
theorem assertions_off_same {s : Store} {op : Op} (hok : (step true s op).2 = .ok) :
    step false s op = step true s op := by
  unfold step at hok ⊢
  by_cases hsub : s.n ≤ op.subject
  · simp [hsub]
  · simp only [hsub, if_false] at hok ⊢
    cases op with
    | parent v np f => exact setParent_off_same hok
    | children v l f =>
      cases l with
      | none => rfl
      | some l => exact setChildren_off_same hok
    | left v x f =>
      simp only [setLeft] at hok ⊢
      cases hs : slotAt? s v 1 with
      | none => rfl
      | some r => simp only [hs] at hok ⊢; exact setChildren_off_same hok
    | right v x f =>
      simp only [setRight] at hok ⊢
      cases hs : slotAt? s v 0 with
      | none => rfl
      | some r => simp only [hs] at hok ⊢; exact setChildren_off_same hok
    | del v => rfl
    | sort v sw => rfl

/-- switching the checks off only removes rejections -/
theorem off_only_removes_rejections {s : Store} {op : Op} (hr : (step false s op).2 = .rej) :
    (step true s op).2 = .rej := by
  cases h : (step true s op).2 with
  | rej => rfl
  | ok => rw [assertions_off_same h, h] at hr; cases hr

/-- every call of the history is accepted with the checks on -/
def AllOk : Store → List Op → Prop
  | _, [] => True
  | s, op :: ops => (step true s op).2 = .ok ∧ AllOk (step true s op).1 ops

instance decAllOk : ∀ (s : Store) (ops : List Op), Decidable (AllOk s ops)
  | _, [] => isTrue trivial
  | s, op :: ops =>
    match decEq (step true s op).2 .ok, decAllOk (step true s op).1 ops with
    | isTrue h1, isTrue h2 => isTrue ⟨h1, h2⟩
    | isFalse h1, _ => isFalse fun h => h1 h.1
    | _, isFalse h2 => isFalse fun h => h2 h.2

/-- **C20 (BinaryNode), histories.** A history accepted with the checks on produces, call by call,
the same outcomes and the same stores with the checks off. -/
theorem trace_assertions_off_same : ∀ (s : Store) (ops : List Op), AllOk s ops →
    trace false s ops = trace true s ops
  | _, [], _ => rfl
  | s, op :: ops, h => by
    simp only [trace]
    rw [assertions_off_same h.1, trace_assertions_off_same _ ops h.2]

theorem run_assertions_off_same : ∀ (s : Store) (ops : List Op), AllOk s ops →
    run false s ops = run true s ops
  | _, [], _ => rfl
  | s, op :: ops, h => by
    simp only [run, List.foldl_cons]
    rw [assertions_off_same h.1]
    exact run_assertions_off_same _ ops h.2

/-- the accepted sub-history (what the harness feeds to both configurations): rejected calls of a
history change nothing (C02), so dropping them gives an accepted history with the same final store -/
def acceptedOps : Store → List Op → List Op
  | _, [] => []
  | s, op :: ops =>
    if (step true s op).2 = .ok then op :: acceptedOps (step true s op).1 ops
    else acceptedOps s ops

theorem acceptedOps_allOk : ∀ (s : Store) (ops : List Op), AllOk s (acceptedOps s ops)
  | _, [] => trivial
  | s, op :: ops => by
    simp only [acceptedOps]
    split
    · rename_i h; exact ⟨h, acceptedOps_allOk _ ops⟩
    · exact acceptedOps_allOk _ ops

example : AllOk (init 3) [.children 0 (some [some 1, some 2]) .none, .parent 2 none .none, .left 1 (some 2) .none] := by
  decide


end BinStore
