import BigtreeProofs.Lemmas.StorePathD
/-!
# Paths on the pointer store, part E: `find_full_path` with the leading separator omitted and with
a trailing separator added
-/

namespace Store

theorem rstrip_snoc_sep (d c : Char) (t : Str) (h : c ≠ d) : rstrip [d] (t ++ [c] ++ [d]) = t ++ [c] := by
  simp [rstrip, lstrip, h]

theorem lstrip_stop (d c : Char) (t : Str) (h : c ≠ d) : lstrip [d] (c :: t) = c :: t := by
  simp [lstrip, h]

/-- shape of a joined route: it starts with a non-separator and ends with a non-separator -/
theorem join_shape (d : Char) (names : List Str) (hne : names ≠ []) (hn : ∀ x ∈ names, x ≠ [] ∧ d ∉ x) :
    (∃ c t, c ≠ d ∧ join [d] names = c :: t) ∧ (∃ c t, c ≠ d ∧ join [d] names = t ++ [c]) := by
  constructor
  · cases names with
    | nil => exact absurd rfl hne
    | cons f rest =>
      have hf := hn f List.mem_cons_self
      obtain ⟨t, ht⟩ := join_cons_head [d] f rest
      cases f with
      | nil => exact absurd rfl hf.1
      | cons c0 f' => exact ⟨c0, f' ++ t, fun e => hf.2 (by simp [e]), by rw [ht]; rfl⟩
  · obtain ⟨init, ln, rfl⟩ : ∃ init ln, names = init ++ [ln] :=
      ⟨names.dropLast, names.getLast hne, (List.dropLast_concat_getLast hne).symm⟩
    have hln := hn ln (by simp)
    obtain ⟨w, c, rfl⟩ : ∃ w c, ln = w ++ [c] :=
      ⟨ln.dropLast, ln.getLast hln.1, (List.dropLast_concat_getLast hln.1).symm⟩
    have hc : c ≠ d := fun e => hln.2 (by simp [e])
    by_cases hi : init = []
    · subst hi; exact ⟨c, w, hc, by simp [join]⟩
    · exact ⟨c, join [d] init ++ [d] ++ w, hc, by rw [join_snoc [d] init _ hi]; simp [List.append_assoc]⟩

/-- without the leading separator nothing is stripped -/
theorem strip_path_noLead (d : Char) (names : List Str) (hne : names ≠ []) (hn : ∀ x ∈ names, x ≠ [] ∧ d ∉ x) :
    lstrip [d] (rstrip [d] (join [d] names)) = join [d] names := by
  obtain ⟨⟨c0, t0, hc0, h0⟩, ⟨c1, t1, hc1, h1⟩⟩ := join_shape d names hne hn
  rw [h1, rstrip_snoc_stop d c1 t1 hc1, ← h1, h0, lstrip_stop d c0 t0 hc0]

/-- a trailing separator is stripped -/
theorem strip_path_trail (d : Char) (names : List Str) (hne : names ≠ []) (hn : ∀ x ∈ names, x ≠ [] ∧ d ∉ x) :
    lstrip [d] (rstrip [d] ([d] ++ join [d] names ++ [d])) = join [d] names := by
  obtain ⟨⟨c0, t0, hc0, h0⟩, ⟨c1, t1, hc1, h1⟩⟩ := join_shape d names hne hn
  have e : [d] ++ join [d] names ++ [d] = ([d] ++ t1) ++ [c1] ++ [d] := by rw [h1]; simp [List.append_assoc]
  rw [e, rstrip_snoc_sep d c1 _ hc1]
  have e2 : [d] ++ t1 ++ [c1] = d :: c0 :: t0 := by
    have : t1 ++ [c1] = c0 :: t0 := by rw [← h1, h0]
    simp [this]
  rw [e2, lstrip_cons_stop d c0 t0 hc0, ← h0]

/-- the lookup only depends on the stripped path -/
theorem findFullPath_congr (s : Store) (start : Nat) (p q : Str)
    (h : lstrip (sep s start) (rstrip (sep s start) p) = lstrip (sep s start) (rstrip (sep s start) q)) :
    findFullPath s start p = findFullPath s start q := by
  unfold findFullPath
  simp only [h]

/-- `find_full_path` accepts the path name without its leading separator and with a trailing one -/
theorem findFullPath_variants {s : Store} (hw : WF s) (hu : SibUnique s) (d : Char) (start v : Nat)
    (hst : SameTree s start v) (hsep : sep s v = [d])
    (hn : ∀ x ∈ pathNodes s v, s.name x ≠ [] ∧ d ∉ s.name x) :
    findFullPath s start ((pathName s v).drop (sep s v).length) = some (some v) ∧
    findFullPath s start (pathName s v ++ sep s v) = some (some v) := by
  have hsep' : sep s start = [d] := by
    simp only [sep] at hsep ⊢; rw [hst]; exact hsep
  have hnames : ∀ x ∈ pathNames s v, x ≠ [] ∧ d ∉ x := by
    intro x hx
    obtain ⟨y, hy, rfl⟩ := List.mem_map.1 hx
    exact hn y hy
  have base := findFullPath_pathName hw hu d start v hst hsep hn
  have hstrip := strip_path d _ (pathNames_ne_nil s v) hnames
  constructor
  · rw [← base]
    apply findFullPath_congr
    rw [hsep', pathName_eq, hsep]
    simp only [List.length_singleton, List.singleton_append, List.drop_succ_cons, List.drop_zero]
    rw [strip_path_noLead d _ (pathNames_ne_nil s v) hnames]
    have := hstrip
    simp only [List.singleton_append] at this
    rw [this]
  · rw [← base]
    apply findFullPath_congr
    rw [hsep', pathName_eq, hsep, strip_path_trail d _ (pathNames_ne_nil s v) hnames, hstrip]

end Store
