import BigtreeProofs.Lemmas.BridgeIds
import BigtreeProofs.Lemmas.BridgeTree
/-!
# Bridge A→B, part 5: the closed form of the parent setter (`reparent`) read back as a forest edit
-/

namespace Store
open Iter Tree

/-- looking for `v` in the read-back of one of its ancestors-or-self finds the read-back of `v` -/
theorem subtree_treeOf {s : Store} (hw : WF s) (f : Nat) (hf : s.n ≤ f) (v : Nat) :
    ∀ r, Reach s r v → subtree v (treeOf s f r) = some (treeOf s f v) := by
  intro r
  induction r using children_induction hw with
  | h r ih =>
    intro hr
    by_cases hrv : r = v
    · subst hrv
      have := subtree_self (treeOf s f r)
      rwa [treeOf_id] at this
    · rw [treeOf_unfold hw r f hf]
      simp only [subtree, if_neg hrv]
      apply subtreeL_some
      · intro t ht
        obtain ⟨c, hc, rfl⟩ := List.mem_map.1 ht
        by_cases hcv : Reach s c v
        · exact Or.inr (ih c hc hcv)
        · exact Or.inl (subtree_none v _ (fun hm => hcv ((mem_pre_treeOf hw f hf c v).1 hm)))
      · rcases (reach_top_iff hw r v).1 hr with h | ⟨c, hc, hcv⟩
        · exact absurd h.symm hrv
        · exact ⟨_, List.mem_map.2 ⟨c, hc, rfl⟩, ih c hc hcv⟩

theorem subtree_treeOf_none {s : Store} (hw : WF s) (f : Nat) (hf : s.n ≤ f) (v r : Nat) (h : ¬ Reach s r v) :
    subtree v (treeOf s f r) = none :=
  subtree_none v _ (fun hm => h ((mem_pre_treeOf hw f hf r v).1 hm))

/-- looking for a node in the forest finds its read-back -/
theorem subtreeL_forest {s : Store} (hw : WF s) (v : Nat) (hv : v < s.n) :
    subtreeL v (forest s) = some (treeOf s s.n v) := by
  obtain ⟨h1, h2⟩ := rootOf_is_root hw v
  apply subtreeL_some
  · intro t ht
    obtain ⟨r, _, rfl⟩ := List.mem_map.1 ht
    by_cases hrv : Reach s r v
    · exact Or.inr (subtree_treeOf hw s.n (Nat.le_refl _) v r hrv)
    · exact Or.inl (subtree_treeOf_none hw s.n (Nat.le_refl _) v r hrv)
  · exact ⟨_, List.mem_map.2 ⟨rootOf s s.n v, (mem_roots _).2 ⟨reach_lt hw h2 hv, h1⟩, rfl⟩,
      subtree_treeOf hw s.n (Nat.le_refl _) v _ h2⟩

theorem subtreeL_forest_none {s : Store} (hw : WF s) (v : Nat) (hv : s.n ≤ v) :
    subtreeL v (forest s) = none := by
  apply subtreeL_none
  intro hm
  have := (mem_preL_forest hw v).1 hm
  omega

/-! ## detaching -/

theorem filter_ne_eq_erase {l : List Nat} (hn : l.Nodup) (v : Nat) :
    l.filter (fun x => decide (x ≠ v)) = l.erase v := by
  rw [hn.erase_eq_filter]
  apply List.filter_congr
  intro x _
  by_cases h : x = v <;> simp [h]

theorem filter_id_treeOf (s : Store) (f v : Nat) :
    ((fun t : Tree => decide (t.id ≠ v)) ∘ treeOf s f) = fun c => decide (c ≠ v) := by
  funext c; simp

theorem reparent_none_children {s : Store} (hw : WF s) (v x : Nat) :
    (reparent s v none).children x = (s.children x).filter fun c => decide (c ≠ v) := by
  rw [reparent_children]
  simp only [reduceCtorEq, if_false]
  split
  · exact (filter_ne_eq_erase (hw.nodup x) v).symm
  · rename_i h
    symm
    apply List.filter_eq_self.2
    intro c hc
    have : c ≠ v := fun e => h (e ▸ hw.down x c hc)
    simpa using this

theorem wf_reparent_none {s : Store} (hw : WF s) (v : Nat) (hv : v < s.n) : WF (reparent s v none) :=
  wf_reparent hw v none hv (by simp)

/-- reading back after `v.parent = None` = removing `v`'s subtree from every read-back -/
theorem detach_treeOf {s : Store} (hw : WF s) (v : Nat) (hv : v < s.n) (f : Nat) (hf : s.n ≤ f) :
    ∀ x, detach v (treeOf s f x) = treeOf (reparent s v none) f x := by
  have hw1 := wf_reparent_none hw v hv
  intro x
  induction x using children_induction hw with
  | h x ih =>
    rw [treeOf_unfold hw x f hf, treeOf_unfold hw1 x f hf]
    simp only [detach, detachL_eq, List.filter_map, List.map_map, reparent_none_children hw,
      filter_id_treeOf]
    congr 1
    apply List.map_congr_left
    intro c hc
    have hc' : c ∈ s.children x := (List.mem_filter.1 hc).1
    simpa using ih c hc'

/-- `v`'s own subtree is not affected by detaching `v` -/
theorem treeOf_reparent_none_self {s : Store} (hw : WF s) (v : Nat) (hv : v < s.n) (f : Nat) (hf : s.n ≤ f) :
    treeOf (reparent s v none) f v = treeOf s f v := by
  rw [← detach_treeOf hw v hv f hf v]
  have := detach_root_id (treeOf s f v) (nodup_pre_treeOf hw f hf v)
  rwa [treeOf_id] at this

/-! ## attaching -/

theorem reparent_root_children {s : Store} (v p x : Nat) (hroot : s.parent v = none) :
    (reparent s v (some p)).children x = if p = x then s.children x ++ [v] else s.children x := by
  rw [reparent_children]
  simp [hroot]

/-- reading back after a ROOT `v` got the parent `p` = appending `v`'s tree below `p` in every read-back -/
theorem appendChild_treeOf {s : Store} (hw : WF s) (v p : Nat) (hv : v < s.n) (hp : p < s.n)
    (hroot : s.parent v = none) (hnr : ¬ Reach s v p) (f : Nat) (hf : s.n ≤ f) :
    ∀ x, appendChild p (treeOf s f v) (treeOf s f x) = treeOf (reparent s v (some p)) f x := by
  have hw2 : WF (reparent s v (some p)) :=
    wf_reparent hw v (some p) hv (by intro q hq; cases hq; exact ⟨hp, hnr⟩)
  have hpT : p ∉ pre (treeOf s f v) := fun hm => hnr ((mem_pre_treeOf hw f hf v p).1 hm)
  intro x
  induction x using children_induction hw2 with
  | h x ih =>
    rw [treeOf_unfold hw x f hf, treeOf_unfold hw2 x f hf]
    simp only [appendChild, appendChildL_eq, List.map_map]
    have hname : (reparent s v (some p)).name x = s.name x := rfl
    rw [hname]
    congr 1
    rw [reparent_root_children v p x hroot] at ih ⊢
    by_cases hx : p = x
    · subst hx
      simp only [if_true, List.map_append, List.map_cons, List.map_nil] at ih ⊢
      have hv' := ih v (by simp)
      rw [appendChild_of_not_mem p _ _ hpT] at hv'
      rw [← hv']
      congr 1
      apply List.map_congr_left
      intro c hc
      simpa using ih c (by simp [hc])
    · have hx' : x ≠ p := fun e => hx e.symm
      simp only [if_neg hx, if_neg hx'] at ih ⊢
      apply List.map_congr_left
      intro c hc
      simpa using ih c hc

/-! ## both steps -/

theorem reparent_two_steps (s : Store) (v : Nat) (np : Option Nat) :
    reparent s v np = reparent (reparent s v none) v np := by
  apply ext' <;> try rfl
  · funext x
    simp only [reparent_parent]
    by_cases hx : x = v <;> simp [hx]
  · funext x
    simp only [reparent_children, reparent_parent]
    simp

theorem reach_of_reparent_none {s : Store} {v a b : Nat} (h : Reach (reparent s v none) a b) : Reach s a b := by
  induction h with
  | refl => exact Reach.refl _
  | step hr hp ih =>
    rename_i q w
    rw [reparent_parent] at hp
    by_cases hw' : w = v
    · simp [hw'] at hp
    · rw [if_neg hw'] at hp
      exact Reach.step ih hp

/-- the read-back after an accepted `v.parent = p`: take `v`'s subtree out, append it below `p` -/
theorem treeOf_reparent_some {s : Store} (hw : WF s) (v p : Nat) (hv : v < s.n) (hp : p < s.n)
    (hnr : ¬ Reach s v p) (f : Nat) (hf : s.n ≤ f) (x : Nat) :
    treeOf (reparent s v (some p)) f x = appendChild p (treeOf s f v) (detach v (treeOf s f x)) := by
  have hw1 := wf_reparent_none hw v hv
  rw [reparent_two_steps, detach_treeOf hw v hv f hf x, ← treeOf_reparent_none_self hw v hv f hf]
  exact (appendChild_treeOf hw1 v p hv hp (by simp [reparent_parent]) (fun h => hnr (reach_of_reparent_none h))
    f hf x).symm

/-! ## roots -/

theorem roots_reparent_some (s : Store) (v p : Nat) :
    roots (reparent s v (some p)) = (roots s).filter fun x => decide (x ≠ v) := by
  simp only [roots, List.filter_filter]
  apply List.filter_congr
  intro x _
  show ((reparent s v (some p)).parent x).isNone = _
  rw [reparent_parent]
  by_cases hx : x = v <;> simp [hx]

theorem mem_roots_reparent_none {s : Store} (v : Nat) (hv : v < s.n) (x : Nat) :
    x ∈ roots (reparent s v none) ↔ x = v ∨ x ∈ roots s := by
  simp only [mem_roots, reparent_parent]
  show x < s.n ∧ _ ↔ _ ∨ (x < s.n ∧ _)
  by_cases hx : x = v
  · subst hx; simp [hv]
  · simp [hx]

theorem roots_reparent_none_perm {s : Store} (v : Nat) (hv : v < s.n) :
    (roots (reparent s v none)).Perm (v :: (roots s).filter fun x => decide (x ≠ v)) := by
  rw [List.perm_ext_iff_of_nodup (roots_nodup _)]
  · intro x
    rw [mem_roots_reparent_none v hv]
    by_cases hx : x = v <;> simp [hx]
  · refine List.nodup_cons.2 ⟨by simp, (roots_nodup s).filter _⟩

/-! ## the forest -/

theorem detachL_forest {s : Store} (hw : WF s) (v : Nat) (hv : v < s.n) :
    detachL v (forest s) = ((roots s).filter fun x => decide (x ≠ v)).map (treeOf (reparent s v none) s.n) := by
  simp only [forest, detachL_eq, List.filter_map, List.map_map, filter_id_treeOf]
  apply List.map_congr_left
  intro x _
  exact detach_treeOf hw v hv s.n (Nat.le_refl _) x

/-- accepted `v.parent = p`, on forests: exactly `Forest.move` (as lists, in the order of the roots) -/
theorem forest_reparent_some {s : Store} (hw : WF s) (v p : Nat) (hv : v < s.n) (hp : p < s.n)
    (hnr : ¬ Reach s v p) : forest (reparent s v (some p)) = Forest.move (forest s) v p := by
  unfold Forest.move
  rw [subtreeL_forest hw v hv]
  simp only [appendChildL_eq, detachL_eq]
  show (roots (reparent s v (some p))).map (treeOf (reparent s v (some p)) s.n) = _
  rw [roots_reparent_some]
  simp only [forest, List.filter_map, List.map_map, filter_id_treeOf]
  apply List.map_congr_left
  intro x _
  exact treeOf_reparent_some hw v p hv hp hnr s.n (Nat.le_refl _) x

/-- accepted `v.parent = None`, on forests: `Forest.toRoot`, up to the order of the trees -/
theorem forest_reparent_none {s : Store} (hw : WF s) (v : Nat) (hv : v < s.n) :
    (forest (reparent s v none)).Perm (Forest.toRoot (forest s) v) := by
  unfold Forest.toRoot
  rw [subtreeL_forest hw v hv]
  simp only
  rw [detachL_forest hw v hv, ← treeOf_reparent_none_self hw v hv s.n (Nat.le_refl _)]
  exact (roots_reparent_none_perm v hv).map _

end Store
