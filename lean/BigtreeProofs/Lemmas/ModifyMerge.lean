import BigtreeProofs.Lemmas.ModifyEdit
/-!
# C08 helper lemmas: attaching several nodes under one parent (`merge_children`)
-/
namespace Modify

variable {cfg : Cfg} {c : Char}

/-- `e` lies below one of the children `pp/kid` -/
def underAny (pp : List Str) (kids : List Tree) (e : Entry) : Bool :=
  kids.any (fun kid => under (pp ++ [kid.name]) e)

theorem sibling_addresses_disjoint (pp : List Str) {a b : Str} (hab : a ≠ b) (e : Entry)
    (h : under (pp ++ [a]) e = true) : under (pp ++ [b]) e = false := by
  apply not_under_both (p := pp ++ [a]) (q := pp ++ [b]) _ _ e h
  · cases h' : (pp ++ [a]).isPrefixOf (pp ++ [b]) with
    | false => rfl
    | true =>
      rw [List.isPrefixOf_iff_prefix] at h'
      have := h'.sublist.eq_of_length (by simp)
      simp at this; exact absurd this hab
  · cases h' : (pp ++ [b]).isPrefixOf (pp ++ [a]) with
    | false => rfl
    | true =>
      rw [List.isPrefixOf_iff_prefix] at h'
      have := h'.sublist.eq_of_length (by simp)
      simp at this; exact absurd this.symm hab

theorem getRel_appendAt_self {pp : List Str} {x t P : Tree} (hP : getRel pp t = some P) :
    getRel pp (modifyAt pp (appendKid x) t) = some (appendKid x P) :=
  getRel_modifyAt_self hP (appendKid_name _ _)

theorem appendKid_children (x P : Tree) : (appendKid x P).children = P.children ++ [x] := by
  cases P; rfl

/-- attaching the nodes `kids` (distinct names, none of them a child name of the parent) one
after the other as last children of the node at `pp` -/
theorem attachAll_facts {pp : List Str} (kids : List Tree) {t P : Tree}
    (hu : SibUnique t) (hP : getRel pp t = some P)
    (hnd : (kids.map Tree.name).Nodup)
    (hdisj : ∀ kid ∈ kids, ∀ y ∈ P.children, y.name ≠ kid.name)
    (hsu : ∀ kid ∈ kids, SibUnique kid) :
    ∃ t', attachAll pp kids t = .ok t' ∧ SibUnique t' ∧
      (∀ kid ∈ kids, (flat t').filter (under (pp ++ [kid.name]))
          = (flat kid).map (rebase (pp ++ [kid.name]))) ∧
      (flat t').filter (fun e => !underAny pp kids e) = flat t := by
  induction kids generalizing t P with
  | nil =>
    refine ⟨t, rfl, hu, by simp, ?_⟩
    rw [List.filter_eq_self]; intro e _; simp [underAny]
  | cons kid rest ih =>
    simp only [List.map_cons, List.nodup_cons] at hnd
    have hnew : ∀ y ∈ P.children, y.name ≠ kid.name := hdisj kid (by simp)
    have hku : SibUnique kid := hsu kid (by simp)
    have hsu1 : SibUnique (modifyAt pp (appendKid kid) t) := hu.appendAt hP hku hnew
    have hP1 := getRel_appendAt_self (x := kid) hP
    have hdisj1 : ∀ k' ∈ rest, ∀ y ∈ (appendKid kid P).children, y.name ≠ k'.name := by
      intro k' hk' y hy
      rw [appendKid_children, List.mem_append] at hy
      rcases hy with hy | hy
      · exact hdisj k' (by simp [hk']) y hy
      · simp at hy; subst hy
        intro h
        exact hnd.1 (h ▸ List.mem_map.2 ⟨k', hk', rfl⟩)
    obtain ⟨t', hatt, hsu', hkids, hrest⟩ :=
      ih hsu1 hP1 hnd.2 hdisj1 (fun k' hk' => hsu k' (by simp [hk']))
    have hold := flat_appendAt_old hP hnew hu
    have hnw := flat_appendAt_new hP hnew hu hku
    -- entries below the first new child are not below any of the others
    have hsep : ∀ e, under (pp ++ [kid.name]) e = true → underAny pp rest e = false := by
      intro e he
      simp only [underAny]
      rw [List.any_eq_false]
      intro k' hk'
      have hne : kid.name ≠ k'.name := fun h => hnd.1 (h ▸ List.mem_map.2 ⟨k', hk', rfl⟩)
      simp [sibling_addresses_disjoint pp hne e he]
    refine ⟨t', by simp only [attachAll, attachOne_ok hP hnew, hatt], hsu', ?_, ?_⟩
    · intro k' hk'
      rcases List.mem_cons.1 hk' with rfl | hk'
      · rw [← hnw, ← hrest, List.filter_filter]
        apply List.filter_congr
        intro e _
        cases hue : under (pp ++ [k'.name]) e with
        | false => rfl
        | true => simp [hsep e hue]
      · exact hkids k' hk'
    · have : ∀ l : List Entry, l.filter (fun e => !underAny pp (kid :: rest) e)
          = (l.filter (fun e => !underAny pp rest e)).filter (fun e => !under (pp ++ [kid.name]) e) := by
        intro l
        rw [List.filter_filter]
        apply List.filter_congr
        intro e _
        simp only [underAny, List.any_cons]
        cases under (pp ++ [kid.name]) e <;> simp
      rw [this, hrest, hold]

theorem stripIf_map_names (b : Bool) (cs : List Tree) :
    (cs.map (stripIf b)).map Tree.name = cs.map Tree.name := by
  simp [List.map_map, Function.comp_def, stripIf_name]

/-- `merge_children` onto an existing destination (no overriding): the children of the from-node
become children of the destination, the from-node is gone -/
theorem merge_children_core (hc : cfg.Plain c) (hcp : cfg.copy = false) (hmc : cfg.mergeChildren = true)
    (hml : cfg.mergeLeaves = false) (hov : cfg.overriding = false)
    (t : Tree) (k : Nat) (fpar tpar : List Str) (l : Str) (F D : Tree)
    (hu : SibUnique t)
    (fs : Str) (hfr : FromOK cfg t fs (fpar ++ [l]) F l) (hgt : GoodNames c (t.name :: tpar ++ [l]))
    (hD : getRel (tpar ++ [l]) t = some D)
    (h1 : (fpar ++ [l]).isPrefixOf (tpar ++ [l]) = false)
    (h2 : (tpar ++ [l]).isPrefixOf (fpar ++ [l]) = false)
    (hclash : ∀ x ∈ F.children, ∀ y ∈ D.children, y.name ≠ x.name) :
    ∃ t', copyOrShift cfg (st0 t k)
        [(fs, some (pathStr c t.name (tpar ++ [l])))] = .ok (st0 t' k) ∧
      SibUnique t' ∧
      (∀ x ∈ F.children, (flat t').filter (under (tpar ++ [l] ++ [x.name]))
          = (flat (stripIf cfg.deleteChildren x)).map (rebase (tpar ++ [l] ++ [x.name]))) ∧
      (flat t').filter (fun e => !underAny (tpar ++ [l]) F.children e)
        = (flat t).filter (fun e => !under (fpar ++ [l]) e) := by
  have hfpne : fpar ++ [l] ≠ [] := by simp
  have hF := hfr.found
  have hFu : SibUnique F := hu.sub hF
  let kids := F.children.map (stripIf cfg.deleteChildren)
  have hknames : kids.map Tree.name = F.children.map Tree.name := stripIf_map_names _ _
  obtain ⟨ta, hatt, hsua, hkids, hresta⟩ := attachAll_facts (pp := tpar ++ [l]) kids hu hD
    (by rw [hknames]; exact hFu.kids)
    (by
      intro kid hkid y hy
      obtain ⟨x, hx, rfl⟩ := List.mem_map.1 hkid
      rw [stripIf_name]; exact hclash x hx y hy)
    (by
      intro kid hkid
      obtain ⟨x, hx, rfl⟩ := List.mem_map.1 hkid
      exact sibUnique_stripIf (hFu.child hx))
  have hany : ∀ e, underAny (tpar ++ [l]) kids e = underAny (tpar ++ [l]) F.children e := by
    intro e
    simp only [underAny, kids, List.any_map, Function.comp_def, stripIf_name]
  -- entries below a merged child are not below the from-address
  have hsep : ∀ x ∈ F.children, ∀ e, under (tpar ++ [l] ++ [x.name]) e = true →
      under (fpar ++ [l]) e = false := by
    intro x _ e he
    apply not_under_both (p := tpar ++ [l] ++ [x.name]) (q := fpar ++ [l]) _ _ e he
    · cases h : (tpar ++ [l] ++ [x.name]).isPrefixOf (fpar ++ [l]) with
      | false => rfl
      | true =>
        have : (tpar ++ [l]).isPrefixOf (fpar ++ [l]) = true := by
          rw [List.isPrefixOf_iff_prefix] at h ⊢
          exact (List.prefix_append _ _).trans h
        rw [this] at h2; cases h2
    · cases h : (fpar ++ [l]).isPrefixOf (tpar ++ [l] ++ [x.name]) with
      | false => rfl
      | true =>
        rw [List.isPrefixOf_iff_prefix] at h
        obtain ⟨s, hs⟩ := h
        cases hsl : s.reverse with
        | nil =>
          simp at hsl; subst hsl; simp only [List.append_nil] at hs
          have : (tpar ++ [l]).isPrefixOf (fpar ++ [l]) = true := by
            rw [List.isPrefixOf_iff_prefix, hs]; exact List.prefix_append _ _
          rw [this] at h2; cases h2
        | cons z zs =>
          have : s = zs.reverse ++ [z] := by rw [← List.reverse_reverse s, hsl]; simp
          subst this
          rw [← List.append_assoc] at hs
          have := List.append_inj_left' hs rfl
          have : (fpar ++ [l]).isPrefixOf (tpar ++ [l]) = true := by
            rw [List.isPrefixOf_iff_prefix]; exact ⟨zs.reverse, this⟩
          rw [this] at h1; cases h1
  refine ⟨removeAt (fpar ++ [l]) ta, ?_, hsua.removeAt, ?_, ?_⟩
  · have hgt' : GoodNames c (t.name :: (tpar ++ [l])) := by simpa using hgt
    rw [copyOrShift_single _ _ (valid_move hc (st0 t k) fs (fpar ++ [l]) F tpar l (by simp [hml]) hfr hgt)]
    simp only [norm, hfr.norm, normTo_pathStr hc _ _ hgt']
    unfold step
    have hr := resolveFrom_of (st0 t k) hfr
    have hne : (fpar ++ [l] == tpar ++ [l]) = false := by
      cases h : (fpar ++ [l] == tpar ++ [l]) with
      | false => rfl
      | true =>
        have : fpar ++ [l] = tpar ++ [l] := by simpa using h
        rw [this, List.isPrefixOf_iff_prefix.2 (List.prefix_refl _)] at h1; cases h1
    have hdec : decideTo cfg (st0 t k) (fpar ++ [l]) (some (pathStr c t.name (tpar ++ [l])))
        = .ok ⟨t, k, some (tpar ++ [l]), true⟩ := by
      unfold decideTo
      simp only [if_neg (pathStr_ne_nil (c := c) t.name (tpar ++ [l])), hc.tsep]
      rw [findFullPath_pathStr t (tpar ++ [l]) hgt', hD]
      simp only [Option.map_some, decideExisting, hne, Bool.and_false, Bool.false_eq_true, if_false, hmc,
        hov, Bool.not_false, if_true]
    have hkids' : (F.children.map (fun c => if cfg.deleteChildren = true then setKids [] c else c)) = kids := rfl
    simp only [hr, hdec, attach, Option.isNone_none, if_true, hF, Option.getD_some,
      Option.isSome_some, hcp, Bool.not_false, Bool.and_true, Bool.false_eq_true, if_false,
      attachChildren, loops, h1, Bool.true_and, hkids', hatt]
  · intro x hx
    rw [flat_removeAt hfpne hsua, List.filter_filter]
    have hx' : stripIf cfg.deleteChildren x ∈ kids := List.mem_map.2 ⟨x, hx, rfl⟩
    have := hkids _ hx'
    rw [stripIf_name] at this
    rw [← this]
    apply List.filter_congr
    intro e _
    cases hue : under (tpar ++ [l] ++ [x.name]) e with
    | false => rfl
    | true => simp [hsep x hx e hue]
  · rw [flat_removeAt hfpne hsua, List.filter_filter]
    have : ∀ l' : List Entry,
        l'.filter (fun e => !underAny (tpar ++ [l]) F.children e && !under (fpar ++ [l]) e)
          = (l'.filter (fun e => !underAny (tpar ++ [l]) kids e)).filter (fun e => !under (fpar ++ [l]) e) := by
      intro l'
      rw [List.filter_filter]
      apply List.filter_congr
      intro e _
      rw [hany e, Bool.and_comm]
    rw [this, hresta]

end Modify
