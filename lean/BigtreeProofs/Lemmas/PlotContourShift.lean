import BigtreeModel.Plot
import BigtreeProofs.Lemmas.Plot
import BigtreeProofs.Lemmas.PlotContourLevels
import BigtreeProofs.Lemmas.PlotContourWalk
/-!
# What `_get_subtree_shift` guarantees

* `gss_ge_first` — the result is at least the accumulated shift plus the shift found on the current
  level (every level only adds);
* `gss_cover` — for `left_idx = 0` (no scaling) the result separates the walked nodes on every level
  the lock-step walk visits, and those are the last / first nodes of the true levels;
* `gss_top_exact`, `gss_top_shallow` — the call made by `_first_pass` for a sibling pair: under the
  pair condition of `Sk.exact` every node of the left subtree is `sub` left of every node of the right
  subtree on the same level once the right subtree has moved by `result * (1 - li/ri)` relative to the
  left one.

Only core Lean is used.
-/

namespace Plot

/-! ## `Rat` -/

theorem rat_le_mul_of_div_le {need f r : Rat} (hf : 0 < f) (h : need / f ≤ r) : need ≤ r * f := by
  have hne : f ≠ 0 := by intro h0; subst h0; exact absurd hf (by decide)
  have := Rat.mul_le_mul_of_nonneg_right h (Rat.le_of_lt hf)
  rwa [Rat.div_mul_cancel hne] at this

theorem rat_factor_pos {i j : Nat} (h : i < j) : (0 : Rat) < 1 - (i : Rat) / (j : Rat) := by
  have hj : (0 : Rat) < (j : Rat) := Rat.natCast_pos.mpr (by omega)
  have hne : (j : Rat) ≠ 0 := by intro h0; rw [h0] at hj; exact absurd hj (by decide)
  have hij : (i : Rat) < (j : Rat) := Rat.natCast_lt_natCast.mpr h
  have h1 := Rat.mul_lt_mul_of_pos_right hij (Rat.inv_pos.mpr hj)
  rw [Rat.mul_inv_cancel _ hne] at h1
  rw [Rat.div_def]
  grind

theorem rat_factor_zero (ri : Nat) : (1 : Rat) - ((0 : Nat) : Rat) / (ri : Rat) = 1 := by
  grind

/-! ## unfolding -/

/-- `new_shift` of a non-initial call -/
def nsh (sub : Rat) (li ri : Nat) (left right : PT) (lcum rcum cum : Rat) : Rat :=
  max ((left.x + left.shift + lcum + sub - (right.x + right.shift + rcum + cum)) /
    (1 - (li : Rat) / (ri : Rat))) 0

theorem nsh_nonneg (sub : Rat) (li ri : Nat) (left right : PT) (lcum rcum cum : Rat) :
    0 ≤ nsh sub li ri left right lcum rcum cum := by
  unfold nsh; grind

theorem gss_succ_false (sub : Rat) (li ri fuel : Nat) (left : PT) (lsibs : List PT) (right : PT)
    (rsibs : List PT) (lcum rcum cum : Rat) :
    getSubtreeShift sub li ri (fuel + 1) left lsibs right rsibs lcum rcum cum false =
      match (scanLeft left lsibs).children.reverse, (scanRight right rsibs).children with
      | lc :: lrest, rc :: rrest =>
        getSubtreeShift sub li ri fuel lc lrest rc rrest
          (lcum + (scanLeft left lsibs).mod + (scanLeft left lsibs).shift)
          (rcum + (scanRight right rsibs).mod + (scanRight right rsibs).shift)
          (cum + nsh sub li ri left right lcum rcum cum) false
      | _, _ => cum + nsh sub li ri left right lcum rcum cum := by
  simp only [getSubtreeShift, nsh, Bool.false_eq_true, if_false]
  generalize (scanLeft left lsibs).children.reverse = A
  generalize (scanRight right rsibs).children = B
  cases A <;> cases B <;> rfl

theorem gss_succ_true (sub : Rat) (li ri fuel : Nat) (left : PT) (lsibs : List PT) (right : PT)
    (rsibs : List PT) (lcum rcum cum : Rat) :
    getSubtreeShift sub li ri (fuel + 1) left lsibs right rsibs lcum rcum cum true =
      match left.children.reverse, right.children with
      | lc :: lrest, rc :: rrest =>
        getSubtreeShift sub li ri fuel lc lrest rc rrest
          (lcum + left.mod + left.shift) (rcum + right.mod + right.shift) (cum + 0) false
      | _, _ => cum + 0 := by
  simp only [getSubtreeShift, if_true]
  generalize left.children.reverse = A
  generalize right.children = B
  cases A <;> cases B <;> rfl

/-! ## every level only adds -/

theorem gss_ge (sub : Rat) (li ri : Nat) : ∀ (fuel : Nat) (left : PT) (lsibs : List PT) (right : PT)
    (rsibs : List PT) (lcum rcum cum : Rat),
    cum ≤ getSubtreeShift sub li ri fuel left lsibs right rsibs lcum rcum cum false := by
  intro fuel
  induction fuel with
  | zero => intros; simp [getSubtreeShift]
  | succ fuel ih =>
    intro left lsibs right rsibs lcum rcum cum
    rw [gss_succ_false]
    have h0 := nsh_nonneg sub li ri left right lcum rcum cum
    split
    · have := ih ‹_› ‹_› ‹_› ‹_› (lcum + (scanLeft left lsibs).mod + (scanLeft left lsibs).shift)
        (rcum + (scanRight right rsibs).mod + (scanRight right rsibs).shift)
        (cum + nsh sub li ri left right lcum rcum cum)
      grind
    · grind

theorem gss_ge_first (sub : Rat) (li ri : Nat) (fuel : Nat) (left : PT) (lsibs : List PT) (right : PT)
    (rsibs : List PT) (lcum rcum cum : Rat) :
    cum + nsh sub li ri left right lcum rcum cum ≤
      getSubtreeShift sub li ri (fuel + 1) left lsibs right rsibs lcum rcum cum false := by
  rw [gss_succ_false]
  split
  · exact gss_ge sub li ri fuel _ _ _ _ _ _ _
  · exact Rat.le_refl

/-! ## list helpers -/

theorem eq_snoc_of_reverse_eq_cons {α : Type} {l : List α} {a : α} {r : List α}
    (h : l.reverse = a :: r) : l = r.reverse ++ [a] := by
  have := congrArg List.reverse h
  simpa using this

theorem getLast?_append_of_ne_nil {α : Type} (pre : List α) {X : List α} (h : X ≠ []) :
    (pre ++ X).getLast? = X.getLast? := by
  rw [List.getLast?_append]
  cases hX : X.getLast? with
  | none => exact absurd (List.getLast?_eq_none_iff.mp hX) h
  | some z => rfl

theorem head?_append_of_ne_nil {α : Type} {X : List α} (post : List α) (h : X ≠ []) :
    (X ++ post).head? = X.head? := by
  cases X with
  | nil => exact absurd rfl h
  | cons a X => rfl

theorem exists_getLast?_of_ne_nil {α : Type} {X : List α} (h : X ≠ []) : ∃ z, X.getLast? = some z := by
  cases hX : X.getLast? with
  | none => exact absurd (List.getLast?_eq_none_iff.mp hX) h
  | some z => exact ⟨z, rfl⟩

theorem exists_head?_of_ne_nil {α : Type} {X : List α} (h : X ≠ []) : ∃ z, X.head? = some z := by
  cases X with
  | nil => exact absurd rfl h
  | cons a X => exact ⟨a, rfl⟩

/-! ## the lock-step walk without scaling (`left_idx = 0`) -/

/-- on every level `n` that the fuel, the right walk of the left group and the left walk of the right
    group reach, the last node of the left group's level is `sub` left of the first node of the right
    group's level after the right group has moved by the result -/
theorem gss_cover (sub : Rat) (ri : Nat) : ∀ (fuel : Nat) (left : PT) (lsibs : List PT) (right : PT)
    (rsibs : List PT) (lcum rcum cum : Rat) (n : Nat),
    n < fuel → n < Sk.rwalkL ((lsibs.reverse ++ [left]).map PT.sk) →
    n < Sk.lwalkL ((right :: rsibs).map PT.sk) →
    ∀ a b, (flv lcum (lsibs.reverse ++ [left]) n).getLast? = some a →
      (flv rcum (right :: rsibs) n).head? = some b →
      a + sub ≤ b + getSubtreeShift sub 0 ri fuel left lsibs right rsibs lcum rcum cum false := by
  intro fuel
  induction fuel with
  | zero => intro _ _ _ _ _ _ _ n h; omega
  | succ fuel ih =>
    intro left lsibs right rsibs lcum rcum cum n hf hl hr a b ha hb
    cases n with
    | zero =>
      have h1 := gss_ge_first sub 0 ri fuel left lsibs right rsibs lcum rcum cum
      rw [flv_zero] at ha hb
      simp at ha hb
      have h2 : left.x + left.shift + lcum + sub - (right.x + right.shift + rcum + cum) ≤
          nsh sub 0 ri left right lcum rcum cum := by
        unfold nsh
        rw [rat_factor_zero]
        grind
      grind
    | succ n =>
      -- the scanned nodes carry the next level of both walks
      rw [rwalk_scanLeft, PT.sk_eq, Sk.rwalk_node] at hl
      rw [lwalk_scanRight, PT.sk_eq, Sk.lwalk_node] at hr
      have hl' : n < Sk.rwalkL ((scanLeft left lsibs).children.map PT.sk) := by omega
      have hr' : n < Sk.lwalkL ((scanRight right rsibs).children.map PT.sk) := by omega
      have hlne : flv (lcum + (scanLeft left lsibs).mod + (scanLeft left lsibs).shift)
          (scanLeft left lsibs).children n ≠ [] :=
        (flv_ne_iff _ _ _).mpr (Nat.lt_of_lt_of_le hl' (Sk.rwalkL_le _))
      have hrne : flv (rcum + (scanRight right rsibs).mod + (scanRight right rsibs).shift)
          (scanRight right rsibs).children n ≠ [] :=
        (flv_ne_iff _ _ _).mpr (Nat.lt_of_lt_of_le hr' (Sk.lwalkL_le _))
      obtain ⟨pre, hpre⟩ := flv_scanLeft lcum n lsibs left
      obtain ⟨post, hpost⟩ := flv_scanRight rcum n rsibs right
      rw [hpre, plv_succ, getLast?_append_of_ne_nil pre hlne] at ha
      rw [hpost, plv_succ, head?_append_of_ne_nil post hrne] at hb
      rw [gss_succ_false]
      split
      · next lc lrest rc rrest hlc hrc =>
        have hL := eq_snoc_of_reverse_eq_cons hlc
        rw [hL] at ha hl'
        rw [hrc] at hb hr'
        exact ih lc lrest rc rrest _ _ _ n (by omega) hl' hr' a b ha hb
      · next hno =>
        exfalso
        have h1 : (scanLeft left lsibs).children ≠ [] := by
          intro h0; rw [h0] at hlne; simp [flv] at hlne
        have h2 : (scanRight right rsibs).children ≠ [] := by
          intro h0; rw [h0] at hrne; simp [flv] at hrne
        cases hlc : (scanLeft left lsibs).children.reverse with
        | nil => simp at hlc; exact h1 hlc
        | cons lc lrest =>
          cases hrc : (scanRight right rsibs).children with
          | nil => exact h2 hrc
          | cons rc rrest => exact hno lc lrest rc rrest hlc hrc

/-! ## the call of `_first_pass` for one sibling pair -/

/-- pair `(0, j)` with exact facing walks -/
theorem gss_top_exact (sub : Rat) (ri : Nat) (l node : PT) {m : Rat} (hm : 0 ≤ m)
    (hl : ∀ c n, Sorted m (plv c l n)) (hn : ∀ c n, Sorted m (plv c node n))
    (hex : Sk.pairExact l.sk node.sk = true) :
    ∀ n p q, p ∈ plv 0 l (n + 1) → q ∈ plv 0 node (n + 1) →
      p + sub ≤ q + getSubtreeShift sub 0 ri (l.height + 1) l [] node [] 0 0 0 true := by
  intro n p q hp hq
  have h1 := mem_plv_height hp
  have h2 := mem_plv_height hq
  have hex' : min l.sk.height node.sk.height ≤ min l.sk.rwalk node.sk.lwalk := by
    simpa [Sk.pairExact] using hex
  have hlw : n + 1 < l.sk.rwalk := by omega
  have hrw : n + 1 < node.sk.lwalk := by omega
  rw [PT.sk_eq, Sk.rwalk_node] at hlw
  rw [PT.sk_eq, Sk.lwalk_node] at hrw
  have hl' : n < Sk.rwalkL (l.children.map PT.sk) := by omega
  have hr' : n < Sk.lwalkL (node.children.map PT.sk) := by omega
  rw [plv_succ] at hp hq
  have hsl := hl 0 (n + 1)
  have hsn := hn 0 (n + 1)
  rw [plv_succ] at hsl hsn
  have hlne : flv (0 + l.mod + l.shift) l.children n ≠ [] := by intro h0; rw [h0] at hp; simp at hp
  have hrne : flv (0 + node.mod + node.shift) node.children n ≠ [] := by
    intro h0; rw [h0] at hq; simp at hq
  obtain ⟨a, ha⟩ := exists_getLast?_of_ne_nil hlne
  obtain ⟨b, hb⟩ := exists_head?_of_ne_nil hrne
  have hpa := sorted_le_last hm hsl ha p hp
  have hbq := sorted_head_le hm hsn hb q hq
  rw [gss_succ_true]
  split
  · next lc lrest rc rrest hlc hrc =>
    have hL : l.children = lrest.reverse ++ [lc] := eq_snoc_of_reverse_eq_cons hlc
    rw [hL] at ha hl'
    rw [hrc] at hb hr'
    have hfu : n < l.height := by rw [PT.height_eq_sk]; omega
    have := gss_cover sub ri l.height lc lrest rc rrest _ _ (0 + 0) n hfu hl' hr' a b ha hb
    grind
  · next hno =>
    exfalso
    have h1 : l.children ≠ [] := by intro h0; rw [h0] at hlne; simp [flv] at hlne
    have h2 : node.children ≠ [] := by intro h0; rw [h0] at hrne; simp [flv] at hrne
    cases hlc : l.children.reverse with
    | nil => simp at hlc; exact h1 hlc
    | cons lc lrest =>
      cases hrc : node.children with
      | nil => exact h2 hrc
      | cons rc rrest => exact hno lc lrest rc rrest hlc hrc

/-- pair `(i, j)`, any `i < j`, with a single common level below the two siblings -/
theorem gss_top_shallow (sub : Rat) (li ri : Nat) (hlt : li < ri) (l node : PT) {m : Rat} (hm : 0 ≤ m)
    (hl : ∀ c n, Sorted m (plv c l n)) (hn : ∀ c n, Sorted m (plv c node n))
    (hsh : Sk.shallow l.sk node.sk = true) :
    ∀ n p q, p ∈ plv 0 l (n + 1) → q ∈ plv 0 node (n + 1) →
      p + sub - q ≤ getSubtreeShift sub li ri (l.height + 1) l [] node [] 0 0 0 true *
        (1 - (li : Rat) / (ri : Rat)) := by
  intro n p q hp hq
  have h1 := mem_plv_height hp
  have h2 := mem_plv_height hq
  have hsh' : min l.sk.height node.sk.height ≤ 2 := by simpa [Sk.shallow] using hsh
  have hn0 : n = 0 := by omega
  subst hn0
  rw [plv_succ] at hp hq
  have hsl := hl 0 1
  have hsn := hn 0 1
  rw [plv_succ] at hsl hsn
  have hlne : flv (0 + l.mod + l.shift) l.children 0 ≠ [] := by intro h0; rw [h0] at hp; simp at hp
  have hrne : flv (0 + node.mod + node.shift) node.children 0 ≠ [] := by
    intro h0; rw [h0] at hq; simp at hq
  obtain ⟨a, ha⟩ := exists_getLast?_of_ne_nil hlne
  obtain ⟨b, hb⟩ := exists_head?_of_ne_nil hrne
  have hpa := sorted_le_last hm hsl ha p hp
  have hbq := sorted_head_le hm hsn hb q hq
  have hf := rat_factor_pos hlt
  obtain ⟨F, hF⟩ : ∃ F, l.height = F + 1 := ⟨l.height - 1, by have := height_pos l; omega⟩
  rw [gss_succ_true]
  split
  · next lc lrest rc rrest hlc hrc =>
    have hL : l.children = lrest.reverse ++ [lc] := eq_snoc_of_reverse_eq_cons hlc
    rw [hL, flv_zero] at ha
    rw [hrc, flv_zero] at hb
    simp at ha hb
    rw [hF]
    have h3 := gss_ge_first sub li ri F lc lrest rc rrest (0 + l.mod + l.shift)
      (0 + node.mod + node.shift) (0 + 0)
    have h4 : (a + sub - b) / (1 - (li : Rat) / (ri : Rat)) ≤
        nsh sub li ri lc rc (0 + l.mod + l.shift) (0 + node.mod + node.shift) (0 + 0) := by
      unfold nsh
      subst ha; subst hb
      have : lc.x + lc.shift + (0 + l.mod + l.shift) + sub - (rc.x + rc.shift + (0 + node.mod + node.shift))
          = lc.x + lc.shift + (0 + l.mod + l.shift) + sub -
            (rc.x + rc.shift + (0 + node.mod + node.shift) + (0 + 0)) := by grind
      rw [this]
      grind
    have h5 : (a + sub - b) / (1 - (li : Rat) / (ri : Rat)) ≤
        getSubtreeShift sub li ri (F + 1) lc lrest rc rrest (0 + l.mod + l.shift)
          (0 + node.mod + node.shift) (0 + 0) false := by grind
    have h6 := rat_le_mul_of_div_le hf h5
    grind
  · next hno =>
    exfalso
    have h1 : l.children ≠ [] := by intro h0; rw [h0] at hlne; simp [flv] at hlne
    have h2 : node.children ≠ [] := by intro h0; rw [h0] at hrne; simp [flv] at hrne
    cases hlc : l.children.reverse with
    | nil => simp at hlc; exact h1 hlc
    | cons lc lrest =>
      cases hrc : node.children with
      | nil => exact h2 hrc
      | cons rc rrest => exact hno lc lrest rc rrest hlc hrc

end Plot
