import BigtreeProofs.Lemmas.DagBasic
/-! `ancestors`, `descendants`, `siblings` of the DAG model against reachability. -/

namespace Dag
open List

theorem mem_preRaw {g : Dag} {f v x : Nat} :
    x ∈ g.preRaw f v ↔ ∃ k, k < f ∧ ReachN g k v x := by
  induction f generalizing v with
  | zero => simp [preRaw]
  | succ f ih =>
    simp only [preRaw, mem_cons, mem_flatMap]
    constructor
    · rintro (rfl | ⟨c, hc, hx⟩)
      · exact ⟨0, by omega, .zero _⟩
      · obtain ⟨k, hk, hr⟩ := ih.1 hx
        exact ⟨k + 1, by omega, .succ hc hr⟩
    · rintro ⟨k, hk, hr⟩
      cases k with
      | zero => exact Or.inl hr.zero_eq.symm
      | succ k =>
        obtain ⟨c, hc, hr'⟩ := hr.succ_inv
        exact Or.inr ⟨c, hc, ih.2 ⟨k, by omega, hr'⟩⟩

theorem mem_ancRaw {g : Dag} (wf : g.DWF) {f v x : Nat} (hv : v ∈ g.nodes) :
    x ∈ g.ancRaw f v ↔ x ∈ g.nodes ∧ ∃ k, k < f ∧ ReachN g (k + 1) x v := by
  induction f generalizing v with
  | zero => simp [ancRaw]
  | succ f ih =>
    simp only [ancRaw, mem_flatMap, mem_append, mem_singleton]
    constructor
    · rintro ⟨p, hp, hx | rfl⟩
      · obtain ⟨hpn, hvp⟩ := wf.par_closed _ hv _ hp
        obtain ⟨hxn, k, hk, hr⟩ := (ih hpn).1 hx
        exact ⟨hxn, k + 1, by omega, hr.snoc hvp⟩
      · obtain ⟨hpn, hvp⟩ := wf.par_closed _ hv _ hp
        exact ⟨hpn, 0, by omega, .succ hvp (.zero _)⟩
    · rintro ⟨hxn, k, hk, hr⟩
      obtain ⟨b, hrb, hvb⟩ := hr.snoc_inv
      have hbn := hrb.mem_nodes wf hxn
      have hbp := (wf.chi_closed _ hbn _ hvb).2
      refine ⟨b, hbp, ?_⟩
      cases k with
      | zero => exact Or.inr hrb.zero_eq
      | succ k => exact Or.inl ((ih hbn).2 ⟨hxn, k, by omega, hrb⟩)

theorem mem_ancestors {g : Dag} (wf : g.DWF) {v x : Nat} (hv : v ∈ g.nodes) :
    x ∈ g.ancestors v ↔ x ∈ g.nodes ∧ g.Reach x v := by
  unfold ancestors
  split
  · rename_i hemp
    simp only [not_mem_nil, false_iff, not_and]
    intro hxn hr
    obtain ⟨k, hk⟩ := reach_iff_reachN.1 hr
    obtain ⟨b, hrb, hvb⟩ := hk.snoc_inv
    have hbn := hrb.mem_nodes wf hxn
    have hbp := (wf.chi_closed _ hbn _ hvb).2
    have : g.parents v = [] := by simpa using hemp
    rw [this] at hbp; cases hbp
  · rw [mem_dedup, mem_ancRaw wf hv]
    constructor
    · rintro ⟨hxn, k, _, hr⟩
      exact ⟨hxn, reach_iff_reachN.2 ⟨k, hr⟩⟩
    · rintro ⟨hxn, hr⟩
      obtain ⟨k, hk⟩ := reach_iff_reachN.1 hr
      have := reachN_lt wf hxn hk
      exact ⟨hxn, k, by omega, hk⟩

theorem mem_descendants {g : Dag} (wf : g.DWF) {v x : Nat} (hv : v ∈ g.nodes) :
    x ∈ g.descendants v ↔ g.Reach v x := by
  unfold descendants
  rw [mem_dedup, mem_filter, mem_preRaw]
  constructor
  · rintro ⟨⟨k, _, hr⟩, hne⟩
    cases k with
    | zero => exact absurd hr.zero_eq.symm (by simpa using hne)
    | succ k => exact reach_iff_reachN.2 ⟨k, hr⟩
  · intro hr
    obtain ⟨k, hk⟩ := reach_iff_reachN.1 hr
    have := reachN_lt wf hv hk
    refine ⟨⟨k + 1, this, hk⟩, ?_⟩
    have := reach_ne wf hv hr
    simpa using fun h => this h.symm

theorem mem_siblings {g : Dag} {v x : Nat} :
    x ∈ g.siblings v ↔ x ≠ v ∧ ∃ p, p ∈ g.parents v ∧ x ∈ g.children p := by
  unfold siblings
  split
  · rename_i hemp
    have : g.parents v = [] := by simpa using hemp
    simp [this]
  · simp only [mem_flatMap, mem_filter, bne_iff_ne, ne_eq]
    constructor
    · rintro ⟨p, hp, hx, hne⟩; exact ⟨hne, p, hp, hx⟩
    · rintro ⟨hne, p, hp, hx⟩; exact ⟨p, hp, hx, hne⟩

end Dag
