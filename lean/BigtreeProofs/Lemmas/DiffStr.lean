import BigtreeModel.Helper
import BigtreeModel.HelperDiff
/-!
# String lemmas for `get_tree_diff` (C15)

`join` / `pathName` / `split` / `strip` for a single-character separator, the string order
`strLt` (strict total order) and the descending duplicate-free sort `sortedDesc`.
Core Lean only.
-/

namespace Helper


theorem join_nil (sep : Str) : join sep [] = [] := rfl

theorem join_singleton (sep x : Str) : join sep [x] = x := by
  simp [join, List.intercalate]

theorem join_cons_cons (sep x y : Str) (ys : List Str) :
    join sep (x :: y :: ys) = x ++ sep ++ join sep (y :: ys) := by
  simp [join, List.intercalate]

theorem pathName_eq_join (c : Char) (xs : List Str) (h : xs ≠ []) :
    pathName [c] xs = join [c] ([] :: xs) := by
  cases xs with
  | nil => exact absurd rfl h
  | cons y ys => rw [join_cons_cons]; rfl

theorem join_append (sep : Str) (xs ys : List Str) (hx : xs ≠ []) (hy : ys ≠ []) :
    join sep (xs ++ ys) = join sep xs ++ sep ++ join sep ys := by
  induction xs with
  | nil => exact absurd rfl hx
  | cons x xs ih =>
    cases xs with
    | nil =>
      cases ys with
      | nil => exact absurd rfl hy
      | cons y ys => simp [join_cons_cons, join_singleton]
    | cons x' xs =>
      have := ih (by simp)
      simp only [List.cons_append] at this ⊢
      rw [join_cons_cons, this, join_cons_cons]
      simp [List.append_assoc]

/-! ## split -/

theorem splitGo_free (c : Char) (x : Str) (hx : c ∉ x) (acc : Str) :
    splitGo [c] 0 acc x = [acc.reverse ++ x] := by
  induction x generalizing acc with
  | nil => simp [splitGo]
  | cons d ds ih =>
    have hd : c ≠ d := fun h => hx (by simp [h])
    have hds : c ∉ ds := fun h => hx (by simp [h])
    simp [splitGo, List.isPrefixOf, hd, ih hds]

theorem splitGo_free_sep (c : Char) (x : Str) (hx : c ∉ x) (acc r : Str) :
    splitGo [c] 0 acc (x ++ c :: r) = (acc.reverse ++ x) :: splitGo [c] 0 [] r := by
  induction x generalizing acc with
  | nil => simp [splitGo, List.isPrefixOf]
  | cons d ds ih =>
    have hd : c ≠ d := fun h => hx (by simp [h])
    have hds : c ∉ ds := fun h => hx (by simp [h])
    simp [splitGo, List.isPrefixOf, hd, ih hds]

theorem splitGo_join (c : Char) (xs : List Str) (hne : xs ≠ []) (h : ∀ x ∈ xs, c ∉ x) :
    splitGo [c] 0 [] (join [c] xs) = xs := by
  induction xs with
  | nil => exact absurd rfl hne
  | cons x xs ih =>
    cases xs with
    | nil => simpa [join_singleton] using splitGo_free c x (h x (by simp)) []
    | cons y ys =>
      rw [join_cons_cons, List.append_assoc]
      show splitGo [c] 0 [] (x ++ c :: join [c] (y :: ys)) = _
      rw [splitGo_free_sep c x (h x (by simp)), ih (by simp) (fun z hz => h z (List.mem_cons_of_mem _ hz))]
      simp

/-- split is a left inverse of join on non-empty lists of separator-free pieces -/
theorem split_join (c : Char) (xs : List Str) (hne : xs ≠ []) (h : ∀ x ∈ xs, c ∉ x) :
    split [c] (join [c] xs) = xs := by
  simpa [split] using splitGo_join c xs hne h

theorem split_pathName (c : Char) (xs : List Str) (hne : xs ≠ []) (h : ∀ x ∈ xs, c ∉ x) :
    split [c] (pathName [c] xs) = [] :: xs := by
  rw [pathName_eq_join c xs hne]
  exact split_join c ([] :: xs) (by simp) (by
    intro x hx
    rcases List.mem_cons.1 hx with rfl | hx
    · simp
    · exact h x hx)

theorem join_inj (c : Char) (xs ys : List Str) (hx : xs ≠ []) (hy : ys ≠ [])
    (h1 : ∀ x ∈ xs, c ∉ x) (h2 : ∀ y ∈ ys, c ∉ y) (h : join [c] xs = join [c] ys) : xs = ys := by
  rw [← split_join c xs hx h1, ← split_join c ys hy h2, h]

theorem pathName_inj (c : Char) (xs ys : List Str) (hx : xs ≠ []) (hy : ys ≠ [])
    (h1 : ∀ x ∈ xs, c ∉ x) (h2 : ∀ y ∈ ys, c ∉ y) (h : pathName [c] xs = pathName [c] ys) :
    xs = ys := by
  apply join_inj c xs ys hx hy h1 h2
  simpa [pathName] using h

theorem join_ne_nil (c : Char) (xs : List Str) (hne : xs ≠ []) (h : ∀ x ∈ xs, x ≠ []) :
    join [c] xs ≠ [] := by
  cases xs with
  | nil => exact absurd rfl hne
  | cons x xs =>
    have hx := h x (by simp)
    cases xs with
    | nil => simpa [join_singleton] using hx
    | cons y ys => rw [join_cons_cons]; simp [hx]

theorem pathName_ne_nil (c : Char) (xs : List Str) : pathName [c] xs ≠ [] := by
  simp [pathName]

/-! ## strip -/

theorem lstrip_of_head (c : Char) (s : Str) (h : ∀ d, s.head? = some d → d ≠ c) :
    lstrip [c] s = s := by
  cases s with
  | nil => rfl
  | cons d ds =>
    have : d ≠ c := h d rfl
    simp [lstrip, List.dropWhile, this]

theorem lstrip_sep_cons (c : Char) (s : Str) : lstrip [c] (c :: s) = lstrip [c] s := by
  simp [lstrip, List.dropWhile]

theorem rstrip_of_last (c : Char) (s : Str) (h : ∀ d, s.getLast? = some d → d ≠ c) :
    rstrip [c] s = s := by
  unfold rstrip
  have : (s.reverse.dropWhile fun d => [c].contains d) = s.reverse := by
    apply lstrip_of_head c s.reverse
    simpa [List.head?_reverse] using h
  rw [this, List.reverse_reverse]

theorem join_head? (c : Char) (x : Str) (xs : List Str) (hx : x ≠ []) :
    (join [c] (x :: xs)).head? = x.head? := by
  cases x with
  | nil => exact absurd rfl hx
  | cons d ds =>
    cases xs with
    | nil => simp [join_singleton]
    | cons y ys => simp [join_cons_cons]

theorem getLast?_append_ne {l l' : Str} (h : l' ≠ []) : (l ++ l').getLast? = l'.getLast? := by
  cases hh : l'.getLast? with
  | none => exact absurd (List.getLast?_eq_none_iff.1 hh) h
  | some a => simp [List.getLast?_append, hh]

theorem join_getLast? (c : Char) (xs : List Str) (hne : xs ≠ []) (hl : xs.getLast hne ≠ []) :
    (join [c] xs).getLast? = (xs.getLast hne).getLast? := by
  induction xs with
  | nil => exact absurd rfl hne
  | cons x xs ih =>
    cases xs with
    | nil => simp [join_singleton]
    | cons y ys =>
      have hl' : (y :: ys).getLast (by simp) ≠ [] := by simpa using hl
      have ih' := ih (by simp) hl'
      have hj : join [c] (y :: ys) ≠ [] := by
        intro h0
        rw [h0] at ih'
        exact hl' (List.getLast?_eq_none_iff.1 ih'.symm)
      rw [join_cons_cons, getLast?_append_ne hj, ih']
      simp

theorem strip_join (c : Char) (xs : List Str) (hne : xs ≠ []) (h : ∀ x ∈ xs, x ≠ [] ∧ c ∉ x) :
    strip [c] (join [c] xs) = join [c] xs := by
  unfold strip
  have h1 : lstrip [c] (join [c] xs) = join [c] xs := by
    apply lstrip_of_head
    cases xs with
    | nil => exact absurd rfl hne
    | cons x xs =>
      have ⟨hx1, hx2⟩ := h x (by simp)
      rw [join_head? c x xs hx1]
      intro d hd e
      subst e
      exact hx2 (List.mem_of_mem_head? hd)
  rw [h1]
  apply rstrip_of_last
  have ⟨hl1, hl2⟩ := h (xs.getLast hne) (List.getLast_mem hne)
  rw [join_getLast? c xs hne hl1]
  intro d hd e
  subst e
  exact hl2 (List.mem_of_getLast? hd)

/-- strip removes exactly the leading separator of a path name whose components are non-empty and separator-free -/
theorem strip_pathName (c : Char) (xs : List Str) (hne : xs ≠ []) (h : ∀ x ∈ xs, x ≠ [] ∧ c ∉ x) :
    strip [c] (pathName [c] xs) = join [c] xs := by
  have := strip_join c xs hne h
  unfold strip at this ⊢
  rw [show pathName [c] xs = c :: join [c] xs from rfl, lstrip_sep_cons]
  exact this

/-- a proper list-prefix gives a proper string-prefix of the path names -/
theorem pathName_prefix (c : Char) (xs ys : List Str) (hx : xs ≠ []) (hy : ys ≠ []) :
    ∃ s, s ≠ [] ∧ pathName [c] (xs ++ ys) = pathName [c] xs ++ s := by
  refine ⟨[c] ++ join [c] ys, by simp, ?_⟩
  simp [pathName, join_append [c] xs ys hx hy]

/-! ## the string order -/


theorem char_lt_total (a b : Char) : a < b ∨ a = b ∨ b < a := by
  by_cases h1 : a < b
  · exact .inl h1
  · by_cases h2 : b < a
    · exact .inr (.inr h2)
    · exact .inr (.inl (Char.le_antisymm (Char.not_lt.1 h2) (Char.not_lt.1 h1)))

theorem strLt_cons_cons (a b : Char) (as bs : Str) :
    strLt (a :: as) (b :: bs) = true ↔ a < b ∨ (a = b ∧ strLt as bs = true) := by
  simp [strLt]

theorem strLt_irrefl (a : Str) : strLt a a = false := by
  induction a with
  | nil => rfl
  | cons x xs ih => simp [strLt, Char.lt_irrefl, ih]

theorem strLt_asymm (a b : Str) (h : strLt a b = true) : strLt b a = false := by
  induction a generalizing b with
  | nil => cases b <;> simp [strLt]
  | cons x xs ih =>
    cases b with
    | nil => simp [strLt] at h
    | cons y ys =>
      rw [Bool.eq_false_iff]
      intro h'
      rw [strLt_cons_cons] at h h'
      rcases h with h | ⟨rfl, h⟩
      · rcases h' with h' | ⟨rfl, _⟩
        · exact Char.lt_asymm h h'
        · exact Char.lt_irrefl _ h
      · rcases h' with h' | ⟨_, h'⟩
        · exact Char.lt_irrefl _ h'
        · rw [ih ys h] at h'; cases h'

theorem strLt_trans (a b c : Str) (h1 : strLt a b = true) (h2 : strLt b c = true) :
    strLt a c = true := by
  induction a generalizing b c with
  | nil =>
    cases c with
    | nil => cases b <;> simp [strLt] at h2
    | cons z zs => simp [strLt]
  | cons x xs ih =>
    cases b with
    | nil => simp [strLt] at h1
    | cons y ys =>
      cases c with
      | nil => simp [strLt] at h2
      | cons z zs =>
        rw [strLt_cons_cons] at h1 h2 ⊢
        rcases h1 with h1 | ⟨rfl, h1⟩
        · rcases h2 with h2 | ⟨rfl, _⟩
          · exact .inl (Char.lt_trans h1 h2)
          · exact .inl h1
        · rcases h2 with h2 | ⟨rfl, h2⟩
          · exact .inl h2
          · exact .inr ⟨rfl, ih ys zs h1 h2⟩

theorem strLt_total (a b : Str) : strLt a b = true ∨ a = b ∨ strLt b a = true := by
  induction a generalizing b with
  | nil => cases b <;> simp [strLt]
  | cons x xs ih =>
    cases b with
    | nil => simp [strLt]
    | cons y ys =>
      rw [strLt_cons_cons, strLt_cons_cons]
      rcases char_lt_total x y with h | rfl | h
      · exact .inl (.inl h)
      · rcases ih ys with h | rfl | h
        · exact .inl (.inr ⟨rfl, h⟩)
        · exact .inr (.inl rfl)
        · exact .inr (.inr (.inr ⟨rfl, h⟩))
      · exact .inr (.inr (.inl h))

theorem strLt_append (a s : Str) (hs : s ≠ []) : strLt a (a ++ s) = true := by
  induction a with
  | nil =>
    cases s with
    | nil => exact absurd rfl hs
    | cons c cs => simp [strLt]
  | cons x xs ih => simp [strLt, ih]

/-! ## the descending sort -/

theorem mem_insDesc (x y : Str) (ps : List Str) : y ∈ insDesc x ps ↔ y = x ∨ y ∈ ps := by
  induction ps with
  | nil => simp [insDesc]
  | cons p ps ih =>
    unfold insDesc
    split
    · simp
    · split
      · rename_i _ h
        have : x = p := by simpa using h
        subst this
        simp
      · simp [ih]
        grind

theorem mem_sortedDesc (ps : List Str) (x : Str) : x ∈ sortedDesc ps ↔ x ∈ ps := by
  induction ps with
  | nil => simp [sortedDesc]
  | cons p ps ih =>
    have : sortedDesc (p :: ps) = insDesc p (sortedDesc ps) := rfl
    rw [this, mem_insDesc, ih]
    simp

theorem insDesc_pairwise (x : Str) (ps : List Str)
    (h : ps.Pairwise (fun a b => strLt b a = true)) :
    (insDesc x ps).Pairwise (fun a b => strLt b a = true) := by
  induction ps with
  | nil => simp [insDesc]
  | cons p ps ih =>
    rw [List.pairwise_cons] at h
    unfold insDesc
    split
    · rename_i hpx
      rw [List.pairwise_cons]
      refine ⟨?_, List.pairwise_cons.2 h⟩
      intro b hb
      rcases List.mem_cons.1 hb with rfl | hb
      · exact hpx
      · exact strLt_trans _ _ _ (h.1 b hb) hpx
    · rename_i hpx
      split
      · exact List.pairwise_cons.2 h
      · rename_i hne
        have hne' : x ≠ p := by simpa using hne
        have hxp : strLt x p = true := by
          rcases strLt_total x p with h' | h' | h'
          · exact h'
          · exact absurd h' hne'
          · exact absurd h' hpx
        rw [List.pairwise_cons]
        refine ⟨?_, ih h.2⟩
        intro b hb
        rcases (mem_insDesc x b ps).1 hb with rfl | hb
        · exact hxp
        · exact h.1 b hb

theorem sortedDesc_pairwise (ps : List Str) :
    (sortedDesc ps).Pairwise (fun a b => strLt b a = true) := by
  induction ps with
  | nil => simp [sortedDesc]
  | cons p ps ih => exact insDesc_pairwise p _ ih

theorem sortedDesc_nodup (ps : List Str) : (sortedDesc ps).Nodup := by
  refine (sortedDesc_pairwise ps).imp ?_
  intro a b h e
  subst e
  rw [strLt_irrefl] at h
  cases h

/-- in the descending order no string comes before one of its proper extensions -/
theorem sortedDesc_no_prefix_before (ps : List Str) :
    (sortedDesc ps).Pairwise (fun a b => ¬ ∃ s, s ≠ [] ∧ b = a ++ s) := by
  refine (sortedDesc_pairwise ps).imp ?_
  rintro a b h ⟨s, hs, rfl⟩
  rw [strLt_asymm _ _ (strLt_append a s hs)] at h
  cases h

theorem sortedDesc_eq_nil (ps : List Str) : sortedDesc ps = [] ↔ ps = [] := by
  constructor
  · intro h
    cases ps with
    | nil => rfl
    | cons p ps =>
      have := (mem_sortedDesc (p :: ps) p).2 (by simp)
      rw [h] at this
      cases this
  · rintro rfl; rfl

end Helper
