import Batteries.Data.List.Perm
import BigtreeProofs.Lemmas.ModifyFrame
import BigtreeProofs.Lemmas.ModifyReplace
import BigtreeProofs.Lemmas.ModifyObjs
/-!
# C08 helper lemmas: the frame of one `replace_logic` pair, for every flag combination

`replace_logic` re-appends the later siblings of the replaced node one by one, so intermediate trees are
permutations of each other rather than sublists; the frame is therefore stated with `List.Subperm`
(sub-multiset): the entries (path, identity, attributes) of the old destination tree that are neither
below the from-node (same-tree shift) nor below the replaced node all occur in the result, with at
least their multiplicity.  No hypothesis on the tree or the strings.
-/
namespace Modify
open List

/-! ### permutations of child lists -/

theorem flatL_perm_of_perm {l r : List Tree} (h : l.Perm r) : (flatL l).Perm (flatL r) := by
  induction h with
  | nil => exact Perm.refl _
  | cons x _ ih => rw [flatL_cons, flatL_cons]; exact Perm.append_left _ ih
  | swap x y l =>
    simp only [flatL_cons]
    rw [← List.append_assoc, ← List.append_assoc]
    exact Perm.append_right _ perm_append_comm
  | trans _ _ ih1 ih2 => exact ih1.trans ih2

theorem eraseChild_perm {n : Str} {cs : List Tree} {x : Tree} (h : findChild n cs = some x) :
    (eraseChild n cs ++ [x]).Perm cs := by
  obtain ⟨l, r, rfl, hl, hx⟩ := findChild_split h
  rw [eraseChild_split hl hx]
  simp only [List.append_assoc]
  exact Perm.append_left _ (perm_append_comm.trans (by simp))

theorem reappendKid_perm (nm : Str) (cs : List Tree) : (reappendKid nm cs).Perm cs := by
  unfold reappendKid
  cases h : findChild nm cs with
  | none => exact Perm.refl _
  | some x => exact eraseChild_perm h

theorem flat_perm_reappendFn (nm : Str) (P : Tree) : (flat (reappendFn nm P)).Perm (flat P) := by
  cases P with
  | node i n a cs =>
    simp only [reappendFn, setKids, Tree.children_node, flat_node]
    exact Perm.cons _ (flatL_perm_of_perm (reappendKid_perm nm cs))

/-! ### lifting a permutation through `modifyAt` -/

theorem flatL_mapChild_perm (n : Str) (g : Tree → Tree) (hname : ∀ x, (g x).name = x.name)
    (hg : ∀ x, (flat (g x)).Perm (flat x)) :
    ∀ cs, (flatL (mapChild n g cs)).Perm (flatL cs) := by
  intro cs
  induction cs with
  | nil => simp [mapChild]
  | cons c cs ih =>
    simp only [mapChild]
    split
    · rw [flatL_cons, flatL_cons, hname]
      exact Perm.append_right _ ((hg c).map _)
    · rw [flatL_cons, flatL_cons]
      exact Perm.append_left _ ih

theorem flat_perm_modifyAt (g : Tree → Tree) (hname : ∀ x, (g x).name = x.name)
    (hg : ∀ x, (flat (g x)).Perm (flat x)) :
    ∀ (p : List Str) (t : Tree), (flat (modifyAt p g t)).Perm (flat t) := by
  intro p
  induction p with
  | nil => intro t; exact hg t
  | cons n ns ih =>
    intro t
    cases t with
    | node i nm a cs =>
      simp only [modifyAt, flat_node]
      exact Perm.cons _ (flatL_mapChild_perm n _ (modifyAt_name ns g hname) ih cs)

theorem flat_perm_reappend (pp : List Str) (nm : Str) (t : Tree) : (flat (reappend pp nm t)).Perm (flat t) := by
  rw [reappend_eq]
  exact flat_perm_modifyAt _ (reappendFn_name nm) (flat_perm_reappendFn nm) pp t

theorem flat_perm_reappendAll (pp : List Str) : ∀ (ns : List Str) (t : Tree),
    (flat (reappendAll pp ns t)).Perm (flat t)
  | [], t => Perm.refl _
  | n :: ns, t => by
    simp only [reappendAll]
    exact (flat_perm_reappendAll pp ns _).trans (flat_perm_reappend pp n t)

/-! ### the step -/

theorem replaceAt_sub {live0 : Bool} {fp dp pp : List Str} {Fm t0 t : Tree}
    (h : replaceAt live0 fp dp pp Fm t0 = .ok t) :
    ((flat t0).filter (fun e => !(live0 && under fp e) && !under dp e)) <+~ flat t := by
  unfold replaceAt at h
  simp only at h
  split at h
  · cases h
  · split at h
    · cases h
    · next t2 h2 =>
      simp only [Except.ok.injEq] at h; subst h
      refine Subperm.trans ?_ (flat_perm_reappendAll pp _ t2).symm.subperm
      refine Sublist.subperm ?_
      refine Sublist.trans ?_ (attachOne_sub h2)
      have h1 := flat_filter_sub_removeAt dp t0
      generalize hl : (live0 && (getRel fp (removeAt dp t0)).isSome) = live
      cases live with
      | false =>
        simp only [Bool.false_eq_true, if_false]
        refine Sublist.trans ?_ h1
        exact filter_mono _ _ (by intro e he; simp only [Bool.and_eq_true] at he; exact he.2) _
      | true =>
        simp only [if_true]
        have h3 := flat_filter_sub_removeAt fp (removeAt dp t0)
        refine Sublist.trans ?_ h3
        have h1' := h1.filter (fun e => !under fp e)
        refine Sublist.trans ?_ h1'
        rw [List.filter_filter]
        exact filter_mono _ _ (by
          intro e he
          simp only [Bool.and_eq_true, Bool.not_eq_true', Bool.and_eq_false_iff] at he ⊢
          have hl0 : live0 = true := by
            cases live0 with
            | true => rfl
            | false => simp at hl
          rcases he.1 with h | h
          · rw [hl0] at h; cases h
          · exact ⟨h, he.2⟩) _

/-- the handle of the node to be replaced -/
def replHandle (cfg : Cfg) (st : St) : Option Str → Option (List Str)
  | none => none
  | some tp =>
    match findFullPath cfg.tsep st.dst tp with
    | .ok (some (dp, _)) => some dp
    | _ => none

/-- **Frame of one replace pair, every flag combination.** -/
theorem stepReplace_sub {cfg : Cfg} {st st' : St} {pr : Str × Option Str} {fp : List Str} {F : Tree}
    (hres : resolveFrom cfg st pr.1 = .ok (some (fp, F))) (h : stepReplace cfg st pr = .ok st') :
    ((flat st.dst).filter (fun e =>
      !touched (if st.src.isNone && !cfg.copy then some fp else none) (replHandle cfg st pr.2) e)) <+~
      flat st'.dst := by
  unfold stepReplace at h
  simp only [hres] at h
  cases htp : pr.2 with
  | none => simp [htp] at h
  | some tp =>
    simp only [htp] at h
    cases hf : findFullPath cfg.tsep st.dst tp with
    | error e => simp [hf] at h
    | ok o =>
      cases o with
      | none => simp [hf] at h
      | some x =>
        obtain ⟨dp, X⟩ := x
        simp only [hf] at h
        split at h
        · cases h
        · cases hp : parentOf dp with
          | none => simp [hp] at h
          | some pp =>
            simp only [hp] at h
            split at h
            · cases h
            · next t hr =>
              simp only [Except.ok.injEq] at h; subst h
              simp only
              have hs := replaceAt_sub hr
              refine Subperm.trans (Sublist.subperm ?_) hs
              -- `del from_node.children` (same-tree shift) touches only entries below `fp`
              generalize hl : (st.src.isNone && !cfg.copy) = live at *
              have hkeep : ∀ (T : Tree),
                  ((flat st.dst).filter (fun e => !(live && under fp e))).Sublist (flat T) →
                  ((flat st.dst).filter (fun e =>
                    !touched (if live = true then some fp else none) (some dp) e)).Sublist
                  ((flat T).filter (fun e => !(live && under fp e) && !under dp e)) := by
                intro T hT
                have := hT.filter (fun e => !(live && under fp e) && !under dp e)
                refine Sublist.trans ?_ this
                rw [List.filter_filter]
                apply filter_mono
                intro e he
                cases live <;> simp_all [touched]
              simp only [replHandle, hf]
              cases live with
              | false =>
                simp only [Bool.false_and, Bool.false_eq_true, if_false] at hkeep ⊢
                exact hkeep st.dst (by simp)
              | true =>
                simp only [Bool.true_and, if_true] at hkeep ⊢
                cases cfg.deleteChildren with
                | true =>
                  simp only [if_true]
                  apply hkeep
                  exact flat_filter_sub_modifyAt (setKids []) (fun x => setKids_name [] x) fp st.dst
                | false =>
                  simp only [Bool.false_eq_true, if_false]
                  exact hkeep st.dst List.filter_sublist

end Modify

/-! ## nothing is invented by a replace pair -/
namespace Modify
open List

theorem objs_perm_of_flat_perm {t t' : Tree} (h : (flat t').Perm (flat t)) : ∀ x ∈ objs t', x ∈ objs t := by
  intro x hx
  exact (h.map (·.2)).subset hx

theorem replaceAt_objs {live0 : Bool} {fp dp pp : List Str} {Fm t0 t : Tree}
    (h : replaceAt live0 fp dp pp Fm t0 = .ok t) : ∀ x ∈ objs t, x ∈ objs t0 ∨ x ∈ objs Fm := by
  unfold replaceAt at h
  simp only at h
  split at h
  · cases h
  · split at h
    · cases h
    · next t2 h2 =>
      simp only [Except.ok.injEq] at h; subst h
      intro x hx
      have hx2 : x ∈ objs t2 := objs_perm_of_flat_perm (flat_perm_reappendAll pp _ t2) x hx
      rcases attachOne_objs h2 x hx2 with h3 | h3
      · left
        have h4 : x ∈ objs (removeAt dp t0) := by
          split at h3
          · exact objs_removeAt_sub fp _ x h3
          · exact h3
        exact objs_removeAt_sub dp t0 x h4
      · exact Or.inr h3

/-- one replace pair: every node of the result is an old object of the destination tree, or (shift) of the
tree the from-node was looked up in, or a fresh copy -/
theorem stepReplace_objs {cfg : Cfg} {st st' : St} {pr : Str × Option Str} {fp : List Str} {F : Tree}
    (hres : resolveFrom cfg st pr.1 = .ok (some (fp, F))) (h : stepReplace cfg st pr = .ok st') :
    st.next ≤ st'.next ∧
    ∀ x ∈ objs st'.dst, Known (objs st.dst ++ (if cfg.copy then [] else objs F)) st.next st'.next x := by
  unfold stepReplace at h
  simp only [hres] at h
  cases htp : pr.2 with
  | none => simp [htp] at h
  | some tp =>
    simp only [htp] at h
    cases hf : findFullPath cfg.tsep st.dst tp with
    | error e => simp [hf] at h
    | ok o =>
      cases o with
      | none => simp [hf] at h
      | some y =>
        obtain ⟨dp, X⟩ := y
        simp only [hf] at h
        split at h
        · cases h
        · cases hp : parentOf dp with
          | none => simp [hp] at h
          | some pp =>
            simp only [hp] at h
            split at h
            · cases h
            · next t hr =>
              simp only [Except.ok.injEq] at h; subst h
              simp only
              have hcore := replaceAt_objs hr
              have ht0 : ∀ x ∈ objs (if (st.src.isNone && !cfg.copy) && cfg.deleteChildren
                  then modifyAt fp (setKids []) st.dst else st.dst), x ∈ objs st.dst := by
                intro x hx
                split at hx
                · exact objs_modifyAt_sub (setKids []) objs_setKids_nil fp st.dst x hx
                · exact hx
              cases hcp : cfg.copy with
              | true =>
                simp only [hcp, if_true] at hcore ⊢
                obtain ⟨hk, hrel⟩ := objs_relabel F st.next
                refine ⟨hk, ?_⟩
                intro x hx
                rcases hcore x hx with h1 | h1
                · exact Or.inl (by simpa using ht0 x (by simpa [hcp] using h1))
                · have h2 : x ∈ objs (relabel st.next F).1 := by
                    split at h1
                    · exact objs_setKids_nil _ x h1
                    · exact h1
                  exact Or.inr (hrel x h2)
              | false =>
                simp only [hcp, Bool.false_eq_true, if_false] at hcore ⊢
                refine ⟨Nat.le_refl _, ?_⟩
                intro x hx
                rcases hcore x hx with h1 | h1
                · exact Or.inl (List.mem_append_left _ (ht0 x (by simpa [hcp] using h1)))
                · have h2 : x ∈ objs F := by
                    split at h1
                    · exact objs_setKids_nil _ x h1
                    · exact h1
                  exact Or.inl (List.mem_append_right _ h2)

end Modify
