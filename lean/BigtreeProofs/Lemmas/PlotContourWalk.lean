import BigtreeModel.Plot
import BigtreeProofs.Lemmas.Plot
import BigtreeProofs.Lemmas.PlotContourLevels
/-!
# The walks of `_get_subtree_shift` against the true contours

* heights and walk lengths of shapes (`Sk.height`, `Sk.rwalk`, `Sk.lwalk`): a walk is never longer
  than the subtree is high; a level of the annotated tree is non-empty exactly below the height;
* `scanLeft` / `scanRight` find the node that carries the next level of the walk: the walk length of
  the sibling group is the walk length of the scanned node, and the next level of the scanned node is a
  suffix / prefix of the next level of the whole group.

Only core Lean is used.
-/

namespace Plot

theorem Sk.ind {P : Sk → Prop} (h : ∀ cs, (∀ c ∈ cs, P c) → P (.node cs)) : ∀ t, P t
  | .node cs => h cs (fun c _ => Sk.ind h c)

theorem PT.sk_node (x m s : Rat) (cs : List PT) : (PT.node x m s cs).sk = .node (cs.map PT.sk) := by
  simp [PT.sk, PT.skL_eq_map]

theorem PT.sk_eq (t : PT) : t.sk = .node (t.children.map PT.sk) := by
  cases t; simp [PT.sk_node]

/-! ## heights -/

theorem Sk.height_pos : ∀ t : Sk, 1 ≤ t.height
  | .node _ => by simp [Sk.height]

theorem Sk.lt_heightL_iff {n : Nat} : ∀ {l : List Sk}, n < Sk.heightL l ↔ ∃ k ∈ l, n < k.height
  | [] => by simp [Sk.heightL]
  | c :: cs => by
    simp only [Sk.heightL, List.mem_cons, exists_eq_or_imp, ← Sk.lt_heightL_iff (l := cs)]
    omega

theorem Sk.height_node (cs : List Sk) : (Sk.node cs).height = 1 + Sk.heightL cs := by
  simp [Sk.height]

theorem Sk.hasKids_node (cs : List Sk) : (Sk.node cs).hasKids = !cs.isEmpty := rfl

theorem PT.hasKids_sk (t : PT) : t.sk.hasKids = !t.children.isEmpty := by
  rw [PT.sk_eq, Sk.hasKids_node]; simp

/-- a level of the annotated subtree is non-empty exactly when it is above the height -/
theorem plv_ne_iff : ∀ (t : PT) (c : Rat) (n : Nat), plv c t n ≠ [] ↔ n < t.sk.height := by
  apply PT.ind
  intro x m s cs ih c n
  rw [PT.sk_node, Sk.height_node]
  cases n with
  | zero => simp [plv]; omega
  | succ n =>
    simp only [plv, flv_eq_flatMap, ne_eq, List.flatMap_eq_nil_iff, Classical.not_forall]
    rw [show n + 1 < 1 + Sk.heightL (cs.map PT.sk) ↔ n < Sk.heightL (cs.map PT.sk) by omega,
      Sk.lt_heightL_iff]
    constructor
    · rintro ⟨k, hk⟩
      have hk' : k ∈ cs ∧ plv (c + m + s) k n ≠ [] := by
        simpa [Classical.not_imp] using hk
      exact ⟨k.sk, List.mem_map.mpr ⟨k, hk'.1, rfl⟩, (ih k hk'.1 _ n).mp hk'.2⟩
    · rintro ⟨k, hk, hn⟩
      obtain ⟨k0, hk0, rfl⟩ := List.mem_map.mp hk
      exact ⟨k0, by simpa [Classical.not_imp] using ⟨hk0, (ih k0 hk0 _ n).mpr hn⟩⟩

theorem flv_ne_iff (ks : List PT) (c : Rat) (n : Nat) : flv c ks n ≠ [] ↔ n < Sk.heightL (ks.map PT.sk) := by
  rw [Sk.lt_heightL_iff, flv_eq_flatMap]
  simp only [ne_eq, List.flatMap_eq_nil_iff, Classical.not_forall]
  constructor
  · rintro ⟨k, hk⟩
    have hk' : k ∈ ks ∧ plv c k n ≠ [] := by simpa [Classical.not_imp] using hk
    exact ⟨k.sk, List.mem_map.mpr ⟨k, hk'.1, rfl⟩, (plv_ne_iff k c n).mp hk'.2⟩
  · rintro ⟨k, hk, hn⟩
    obtain ⟨k0, hk0, rfl⟩ := List.mem_map.mp hk
    exact ⟨k0, by simpa [Classical.not_imp] using ⟨hk0, (plv_ne_iff k0 c n).mpr hn⟩⟩

theorem mem_plv_height {t : PT} {c : Rat} {n : Nat} {p : Rat} (h : p ∈ plv c t n) : n < t.sk.height :=
  (plv_ne_iff t c n).mp (by intro h0; rw [h0] at h; simp at h)

theorem PT.height_eq_sk : ∀ t : PT, t.height = t.sk.height := by
  apply PT.ind
  intro x m s cs ih
  rw [PT.sk_node, Sk.height_node, PT.height]
  congr 1
  induction cs with
  | nil => rfl
  | cons c cs ihc =>
    simp only [PT.height.heightL, List.map_cons, Sk.heightL]
    rw [ih c (by simp), ihc (fun k hk => ih k (by simp [hk]))]

/-! ## the walks are not longer than the subtrees are high -/

theorem Sk.rwalkL_le_of (cs : List Sk) (h : ∀ c ∈ cs, c.rwalk ≤ c.height) : Sk.rwalkL cs ≤ Sk.heightL cs := by
  induction cs with
  | nil => simp [Sk.rwalkL]
  | cons c cs ih =>
    simp only [Sk.rwalkL, Sk.heightL]
    split
    · have := ih (fun k hk => h k (by simp [hk])); omega
    · have := h c (by simp); omega

theorem Sk.rwalk_le : ∀ t : Sk, t.rwalk ≤ t.height := by
  apply Sk.ind
  intro cs ih
  simp only [Sk.rwalk, Sk.height]
  have := Sk.rwalkL_le_of cs ih
  omega

theorem Sk.rwalkL_le (cs : List Sk) : Sk.rwalkL cs ≤ Sk.heightL cs :=
  Sk.rwalkL_le_of cs (fun c _ => Sk.rwalk_le c)

theorem Sk.lwalkL_le_of (cs : List Sk) (h : ∀ c ∈ cs, c.lwalk ≤ c.height) : Sk.lwalkL cs ≤ Sk.heightL cs := by
  induction cs with
  | nil => simp [Sk.lwalkL]
  | cons c cs ih =>
    simp only [Sk.lwalkL, Sk.heightL]
    split
    · have := h c (by simp); omega
    · have := ih (fun k hk => h k (by simp [hk])); omega

theorem Sk.lwalk_le : ∀ t : Sk, t.lwalk ≤ t.height := by
  apply Sk.ind
  intro cs ih
  simp only [Sk.lwalk, Sk.height]
  have := Sk.lwalkL_le_of cs ih
  omega

theorem Sk.lwalkL_le (cs : List Sk) : Sk.lwalkL cs ≤ Sk.heightL cs :=
  Sk.lwalkL_le_of cs (fun c _ => Sk.lwalk_le c)

theorem Sk.rwalk_node (cs : List Sk) : (Sk.node cs).rwalk = 1 + Sk.rwalkL cs := by simp [Sk.rwalk]
theorem Sk.lwalk_node (cs : List Sk) : (Sk.node cs).lwalk = 1 + Sk.lwalkL cs := by simp [Sk.lwalk]

/-! ## the right walk of a sibling group seen from its last member -/

theorem Sk.rwalkL_snoc_kids (x : Sk) (hx : x.hasKids = true) : ∀ A : List Sk, Sk.rwalkL (A ++ [x]) = x.rwalk
  | [] => by simp [Sk.rwalkL]
  | a :: A => by
    have : (A ++ [x]).any Sk.hasKids = true := by simp [hx]
    simp only [List.cons_append, Sk.rwalkL, this, if_true]
    exact Sk.rwalkL_snoc_kids x hx A

theorem Sk.rwalkL_snoc_leaf (x : Sk) (hx : x.hasKids = false) : ∀ A : List Sk, A ≠ [] →
    Sk.rwalkL (A ++ [x]) = Sk.rwalkL A
  | [], h => absurd rfl h
  | a :: A, _ => by
    have hany : (A ++ [x]).any Sk.hasKids = A.any Sk.hasKids := by simp [hx]
    simp only [List.cons_append, Sk.rwalkL, hany]
    split
    · next h =>
      have hne : A ≠ [] := by intro h0; subst h0; simp at h
      exact Sk.rwalkL_snoc_leaf x hx A hne
    · rfl

/-- the walk length of the group (`lsibs` nearest first, then `cur`) is that of the scanned node -/
theorem rwalk_scanLeft : ∀ (lsibs : List PT) (cur : PT),
    Sk.rwalkL ((lsibs.reverse ++ [cur]).map PT.sk) = (scanLeft cur lsibs).sk.rwalk
  | [], cur => by simp [scanLeft, Sk.rwalkL]
  | l :: ls, cur => by
    simp only [scanLeft]
    have hk := PT.hasKids_sk cur
    split
    · next h =>
      rw [← rwalk_scanLeft ls l, List.map_append, List.map_cons, List.map_nil, List.reverse_cons]
      apply Sk.rwalkL_snoc_leaf
      · rw [hk, h]; rfl
      · simp
    · next h =>
      rw [List.map_append, List.map_cons, List.map_nil]
      apply Sk.rwalkL_snoc_kids
      rw [hk]; simpa using h

theorem lwalk_scanRight : ∀ (rsibs : List PT) (cur : PT),
    Sk.lwalkL ((cur :: rsibs).map PT.sk) = (scanRight cur rsibs).sk.lwalk
  | [], cur => by simp [scanRight, Sk.lwalkL]
  | r :: rs, cur => by
    simp only [scanRight]
    have hk := PT.hasKids_sk cur
    split
    · next h =>
      rw [← lwalk_scanRight rs r]
      simp only [List.map_cons, Sk.lwalkL, hk, h]
      simp
    · next h =>
      have : cur.sk.hasKids = true := by rw [hk]; simpa using h
      simp only [List.map_cons, Sk.lwalkL, this]
      simp

/-- the next level of the scanned node is a suffix of the next level of the group -/
theorem flv_scanLeft (c : Rat) (n : Nat) : ∀ (lsibs : List PT) (cur : PT),
    ∃ pre, flv c (lsibs.reverse ++ [cur]) (n + 1) = pre ++ plv c (scanLeft cur lsibs) (n + 1)
  | [], cur => ⟨[], by simp [scanLeft, flv]⟩
  | l :: ls, cur => by
    simp only [scanLeft]
    split
    · next h =>
      obtain ⟨pre, hpre⟩ := flv_scanLeft c n ls l
      refine ⟨pre, ?_⟩
      rw [flv_append, List.reverse_cons, hpre]
      have : cur.children = [] := by simpa using h
      simp [flv, plv_succ, this]
    · exact ⟨flv c (List.reverse (l :: ls)) (n + 1), by rw [flv_append]; simp [flv]⟩

/-- the next level of the scanned node is a prefix of the next level of the group -/
theorem flv_scanRight (c : Rat) (n : Nat) : ∀ (rsibs : List PT) (cur : PT),
    ∃ post, flv c (cur :: rsibs) (n + 1) = plv c (scanRight cur rsibs) (n + 1) ++ post
  | [], cur => ⟨[], by simp [scanRight, flv]⟩
  | r :: rs, cur => by
    simp only [scanRight]
    split
    · next h =>
      obtain ⟨post, hpost⟩ := flv_scanRight c n rs r
      refine ⟨post, ?_⟩
      have : cur.children = [] := by simpa using h
      rw [flv, hpost]
      simp [flv, plv_succ, this]
    · exact ⟨flv c (r :: rs) (n + 1), by simp [flv]⟩

end Plot
