import Mathlib.Data.List.Nodup
import BigtreeModel.Paths
import BigtreeProofs.Lemmas.PathsAddr
import BigtreeProofs.Lemmas.PathsSet
import BigtreeProofs.Lemmas.PathsInsert
/-!
# The loop of `add_path_to_tree` with `duplicate_name_allowed=True` (C05)
-/

namespace Paths
open Str

/-! ## `find_child_by_name` -/

theorem mem_childIdxs (c : Str) : ∀ (cs : List Tree) (k j : Nat),
    j ∈ childIdxs c k cs ↔ k ≤ j ∧ ∃ d, cs[j - k]? = some d ∧ d.name = c := by
  intro cs
  induction cs with
  | nil => intro k j; simp [childIdxs]
  | cons x xs ih =>
    intro k j
    unfold childIdxs
    by_cases hx : x.name = c
    · simp only [hx, if_true, List.mem_cons, ih]
      constructor
      · rintro (rfl | ⟨h1, d, h2, h3⟩)
        · exact ⟨Nat.le_refl _, x, by simp, hx⟩
        · refine ⟨by omega, d, ?_, h3⟩
          have : j - k = (j - (k + 1)) + 1 := by omega
          rw [this, List.getElem?_cons_succ]; exact h2
      · rintro ⟨h1, d, h2, h3⟩
        by_cases hjk : j = k
        · exact .inl hjk
        · right
          refine ⟨by omega, d, ?_, h3⟩
          have : j - k = (j - (k + 1)) + 1 := by omega
          rw [this, List.getElem?_cons_succ] at h2; exact h2
    · simp only [hx, if_false, ih]
      constructor
      · rintro ⟨h1, d, h2, h3⟩
        refine ⟨by omega, d, ?_, h3⟩
        have : j - k = (j - (k + 1)) + 1 := by omega
        rw [this, List.getElem?_cons_succ]; exact h2
      · rintro ⟨h1, d, h2, h3⟩
        by_cases hjk : j = k
        · subst hjk
          simp at h2; subst h2; exact absurd h3 hx
        · refine ⟨by omega, d, ?_, h3⟩
          have : j - k = (j - (k + 1)) + 1 := by omega
          rw [this, List.getElem?_cons_succ] at h2; exact h2

theorem childIdxs_nil_iff (c : Str) (cs : List Tree) :
    childIdxs c 0 cs = [] ↔ c ∉ cs.map Tree.name := by
  constructor
  · intro h hm
    rw [List.mem_map] at hm
    obtain ⟨d, hd, hn⟩ := hm
    obtain ⟨j, hj, rfl⟩ := List.getElem_of_mem hd
    have : j ∈ childIdxs c 0 cs :=
      (mem_childIdxs c cs 0 j).mpr ⟨Nat.zero_le _, cs[j], by simp [List.getElem?_eq_getElem hj], hn⟩
    rw [h] at this; cases this
  · intro h
    cases hc : childIdxs c 0 cs with
    | nil => rfl
    | cons j js =>
      have : j ∈ childIdxs c 0 cs := by rw [hc]; exact List.mem_cons_self
      obtain ⟨_, d, hd, hn⟩ := (mem_childIdxs c cs 0 j).mp this
      exact absurd (List.mem_map.mpr ⟨d, List.mem_of_getElem? hd, hn⟩) h

theorem childIdxs_single (c : Str) (cs : List Tree) (k : Nat) (h : childIdxs c 0 cs = [k]) :
    ∃ d, cs[k]? = some d ∧ d.name = c := by
  have : k ∈ childIdxs c 0 cs := by rw [h]; exact List.mem_cons_self
  obtain ⟨_, d, hd, hn⟩ := (mem_childIdxs c cs 0 k).mp this
  exact ⟨d, by simpa using hd, hn⟩

/-! ## frame -/

/-- every node of `t` is still there in `t'`: same address, id, name, attributes, path -/
def Frame (t t' : Tree) : Prop :=
  ∀ b n, nodeAt b t = some n → ∃ n', nodeAt b t' = some n' ∧ n'.id = n.id ∧ n'.name = n.name ∧
    n'.attrs = n.attrs ∧ namesAlong b t' = namesAlong b t

theorem Frame.refl (t : Tree) : Frame t t := fun _ n h => ⟨n, h, rfl, rfl, rfl, rfl⟩

theorem Frame.trans {t t' t'' : Tree} (h1 : Frame t t') (h2 : Frame t' t'') : Frame t t'' := by
  intro b n hn
  obtain ⟨n', hn', a1, a2, a3, a4⟩ := h1 b n hn
  obtain ⟨n'', hn'', b1, b2, b3, b4⟩ := h2 b n' hn'
  exact ⟨n'', hn'', b1.trans a1, b2.trans a2, b3.trans a3, b4.trans a4⟩

theorem frame_appendChild (new : Tree) (a : Addr) (t : Tree) :
    Frame t (modifyAt (appendChild new) a t) := by
  intro b n hn
  obtain ⟨n', h1, h2, h3, h4, h5⟩ := nodeAt_modifyAt_grows (grows_appendChild new) a b t n hn
  refine ⟨n', h1, h2, h3, ?_, namesAlong_modifyAt_grows (grows_appendChild new) a b t n hn⟩
  by_cases hba : b = a
  · rw [h5 hba]; simp
  · exact h4 hba

/-! ## the loop -/

/-- `pre ++ r` for the non-empty prefixes `r` of `rest` -/
def extensions (pre rest : List Str) : List (List Str) := (prefixes rest).map (pre ++ ·)

theorem extensions_cons (pre : List Str) (c : Str) (rest : List Str) :
    extensions pre (c :: rest) = (pre ++ [c]) :: extensions (pre ++ [c]) rest := by
  simp [extensions, prefixes, List.map_map, Function.comp_def]

theorem prefixes_cons_eq (b0 : Str) (rest : List Str) :
    prefixes (b0 :: rest) = [b0] :: extensions [b0] rest := by
  simp [extensions, prefixes]

theorem insertLoop_dup (treeSep : Str) (attrs : Attrs) : ∀ (rest pre : List Str) (t : Tree) (paddr : Addr)
    (fresh : Nat) (p t' : Tree) (ad : Addr) (fr' : Nat),
    SibUnique t → nodeAt paddr t = some p → namesAlong paddr t = pre →
    insertLoop treeSep true attrs rest pre t paddr fresh = .ok (t', ad, fr') →
    SibUnique t' ∧ (∃ n, nodeAt ad t' = some n) ∧ namesAlong ad t' = pre ++ rest ∧
    (∀ q, q ∈ paths t' ↔ q ∈ paths t ∨ q ∈ extensions pre rest) ∧ Frame t t' := by
  intro rest
  induction rest with
  | nil =>
    intro pre t paddr fresh p t' ad fr' hs hp hn h
    simp only [insertLoop, Except.ok.injEq, Prod.mk.injEq] at h
    obtain ⟨rfl, rfl, rfl⟩ := h
    exact ⟨hs, ⟨p, hp⟩, by simpa using hn, by simp [extensions, prefixes], Frame.refl _⟩
  | cons c rest ih =>
    intro pre t paddr fresh p t' ad fr' hs hp hn h
    unfold insertLoop at h
    simp only [lookup, if_true, hp] at h
    cases hci : childIdxs c 0 p.children with
    | nil =>
      rw [hci] at h
      simp only at h
      split at h
      · cases h
      · -- a new last child
        simp only [Option.map, Option.getD] at h
        generalize hnew : Tree.node fresh c (if rest.isEmpty = true then attrs else []) [] = new at h
        have hcn : c ∉ p.children.map Tree.name := (childIdxs_nil_iff c p.children).mp hci
        have hs1 : SibUnique (modifyAt (appendChild new) paddr t) := by
          rw [← hnew]; exact sibUnique_appendChild _ _ _ paddr t p hs hp hcn
        have hp1 : nodeAt paddr (modifyAt (appendChild new) paddr t) = some (appendChild new p) := by
          rw [nodeAt_modifyAt_self, hp]; rfl
        have hk1 : (appendChild new p).children[p.children.length]? = some new := by simp
        have hp2 : nodeAt (paddr ++ [p.children.length]) (modifyAt (appendChild new) paddr t) = some new := by
          rw [nodeAt_append, hp1]; simp [nodeAt_cons]
        have hnm : new.name = c := by rw [← hnew]; rfl
        have hn2 : namesAlong (paddr ++ [p.children.length]) (modifyAt (appendChild new) paddr t)
            = pre ++ [c] := by
          rw [namesAlong_snoc _ _ _ _ _ hp1 hk1,
            namesAlong_modifyAt_grows (grows_appendChild new) paddr paddr t p hp, hn, hnm]
        obtain ⟨r1, r2, r3, r4, r5⟩ := ih _ _ _ _ _ _ _ _ hs1 hp2 hn2 h
        refine ⟨r1, r2, by simpa using r3, ?_, (frame_appendChild new paddr t).trans r5⟩
        intro q
        rw [r4 q, extensions_cons, List.mem_cons]
        have := mem_paths_appendChild fresh c (if rest.isEmpty = true then attrs else []) paddr t p q hp
        rw [hnew, hn] at this
        rw [this]
        constructor
        · rintro ((h1 | h1) | h1)
          · exact .inl h1
          · exact .inr (.inl h1)
          · exact .inr (.inr h1)
        · rintro (h1 | h1 | h1)
          · exact .inl (.inl h1)
          · exact .inl (.inr h1)
          · exact .inr h1
    | cons k ks =>
      rw [hci] at h
      cases ks with
      | cons k2 ks2 => simp at h
      | nil =>
        simp only at h
        obtain ⟨d, hd, hdn⟩ := childIdxs_single c p.children k hci
        have hp2 : nodeAt (paddr ++ [k]) t = some d := by
          rw [nodeAt_append, hp]; simp [nodeAt_cons, hd]
        have hn2 : namesAlong (paddr ++ [k]) t = pre ++ [c] := by
          rw [namesAlong_snoc _ _ _ _ _ hp hd, hn, hdn]
        obtain ⟨r1, r2, r3, r4, r5⟩ := ih _ _ _ _ _ _ _ _ hs hp2 hn2 h
        refine ⟨r1, r2, by simpa using r3, ?_, r5⟩
        intro q
        rw [r4 q, extensions_cons, List.mem_cons]
        have hin : pre ++ [c] ∈ paths t := (mem_paths_addr t _).mpr ⟨_, d, hp2, hn2⟩
        constructor
        · rintro (h1 | h1)
          · exact .inl h1
          · exact .inr (.inr h1)
        · rintro (h1 | rfl | h1)
          · exact .inl h1
          · exact .inl hin
          · exact .inr h1

end Paths

namespace Paths
open Str

/-- everything about one `add_path_to_tree` call (duplicates allowed), on components -/
theorem addComps_dup (treeSep : Str) (t : Tree) (fresh : Nat) (branch : List Str) (attrs : Attrs)
    (t' : Tree) (ad : Addr) (fr' : Nat) (hs : SibUnique t)
    (h : addComps treeSep true t fresh branch attrs = .ok (t', ad, fr')) :
    SibUnique t' ∧
    (∃ n, nodeAt ad t' = some n) ∧ namesAlong ad t' = branch ∧
    (∀ q, q ∈ paths t' ↔ q ∈ paths t ∨ q ∈ prefixes branch) ∧
    (∀ b n, nodeAt b t = some n → ∃ n', nodeAt b t' = some n' ∧ n'.id = n.id ∧ n'.name = n.name ∧
      namesAlong b t' = namesAlong b t ∧ (b ≠ ad → n'.attrs = n.attrs) ∧
      (b = ad → n'.attrs = updateAttrs n.attrs attrs)) := by
  unfold addComps at h
  cases branch with
  | nil => cases h
  | cons b0 rest =>
    simp only at h
    split at h
    · cases h
    · rename_i hb0
      have hb0 : b0 = t.name := by simpa using hb0
      cases hl : insertLoop treeSep true attrs rest [b0] t [] fresh with
      | error e => rw [hl] at h; cases h
      | ok r =>
        obtain ⟨t1, ad1, fr1⟩ := r
        rw [hl] at h
        simp only [Except.ok.injEq, Prod.mk.injEq] at h
        obtain ⟨rfl, rfl, rfl⟩ := h
        obtain ⟨r1, ⟨n1, r2⟩, r3, r4, r5⟩ :=
          insertLoop_dup treeSep attrs rest [b0] t [] fresh t t1 ad1 fr1 hs rfl (by simp [hb0]) hl
        refine ⟨sibUnique_modifyAt_same _ (setAttrs_name attrs) (setAttrs_children attrs) _ _ r1,
          ⟨setAttrs attrs n1, by rw [nodeAt_modifyAt_self, r2]; rfl⟩, ?_, ?_, ?_⟩
        · rw [namesAlong_modifyAt_grows (grows_setAttrs attrs) ad1 ad1 t1 n1 r2, r3]; rfl
        · intro q
          rw [paths_modifyAt_same _ (setAttrs_name attrs) (setAttrs_children attrs), r4 q,
            prefixes_cons_eq, List.mem_cons]
          have hroot : [b0] ∈ paths t := by rw [hb0, paths_eq]; simp
          constructor
          · rintro (h1 | h1)
            · exact .inl h1
            · exact .inr (.inr h1)
          · rintro (h1 | rfl | h1)
            · exact .inl h1
            · exact .inl hroot
            · exact .inr h1
        · intro b n hn
          obtain ⟨n', a1, a2, a3, a4, a5⟩ := r5 b n hn
          obtain ⟨n'', b1, b2, b3, b4, b5⟩ := nodeAt_modifyAt_grows (grows_setAttrs attrs) ad1 b t1 n' a1
          refine ⟨n'', b1, b2.trans a2, b3.trans a3, ?_, ?_, ?_⟩
          · rw [namesAlong_modifyAt_grows (grows_setAttrs attrs) ad1 b t1 n' a1, a5]
          · intro hne; rw [b4 hne, a4]
          · intro he; rw [b5 he]; simp [a4]

end Paths
