import BigtreeProofs.Lemmas.DagIter
import BigtreeProofs.Lemmas.DagCons
/-! Facts that connect the exports (built on `dagIter`) with the constructor lemmas. -/

namespace Dag
open List

theorem ureach_nbr {g : Dag} {a b : Nat} (h : g.UReach a b) :
    a = b ∨ ∃ y, y ∈ g.parents a ∨ y ∈ g.children a := by
  induction h with
  | refl => exact Or.inl rfl
  | @step b c _ hy ih =>
    rcases ih with rfl | ih
    · exact Or.inr ⟨c, hy⟩
    · exact Or.inr ih

/-- in a weakly connected DAG with at least one edge every node is an end point of an edge -/
theorem node_has_edge {g : Dag} (wf : g.DWF) (hc : g.Connected) (hne : g.edges ≠ []) {x : Nat}
    (hx : x ∈ g.nodes) : ∃ e ∈ g.edges, x = e.1 ∨ x = e.2 := by
  obtain ⟨⟨p, c⟩, he⟩ := exists_mem_of_ne_nil _ hne
  obtain ⟨hp, hpc⟩ := mem_edges.1 he
  have hcn := (wf.chi_closed _ hp _ hpc).1
  have hne' : p ≠ c := fun h => wf.acyclic p hp (.edge (h ▸ hpc))
  have key : ∀ w ∈ g.nodes, w ≠ x → ∃ e ∈ g.edges, x = e.1 ∨ x = e.2 := by
    intro w hw hwx
    rcases ureach_nbr (hc x hx w hw) with h | ⟨y, hy | hy⟩
    · exact absurd h.symm hwx
    · have := wf.par_closed _ hx _ hy
      exact ⟨(y, x), mem_edges.2 ⟨this.1, this.2⟩, Or.inr rfl⟩
    · exact ⟨(x, y), mem_edges.2 ⟨hx, hy⟩, Or.inl rfl⟩
  by_cases h : p = x
  · exact ⟨(p, c), he, Or.inl h.symm⟩
  · exact key p hp h

/-- a list of edges of a well-formed DAG is an acyclic relation -/
theorem relAcyclic_of_edges {g : Dag} (wf : g.DWF) {rel : List Edge} (h : ∀ e ∈ rel, e ∈ g.edges) :
    RelAcyclic rel := by
  intro x hx
  have hmono : ∀ a b, b ∈ (relGraph rel).children a → b ∈ g.children a := fun a b hb =>
    (mem_edges.1 (h _ (mem_relGraph_children.1 hb))).2
  have hxn : x ∈ g.nodes := by
    cases hx with
    | edge hb => exact (mem_edges.1 (h _ (mem_relGraph_children.1 hb))).1
    | step hb _ => exact (mem_edges.1 (h _ (mem_relGraph_children.1 hb))).1
  exact wf.acyclic x hxn (reach_mono hmono hx)

/-- the shared last step of the three round-trip theorems: a constructor that stores a relation
    with the same members as `g.edges` has rebuilt `g` -/
theorem rebuilt_of_tracks {g : Dag} (wf : g.DWF) (hc : g.Connected) (hne : g.edges ≠ [])
    {rel : List Edge} (hrel : ∀ e, e ∈ rel ↔ e ∈ g.edges) {g' : Dag} (t : Tracks rel g')
    (hnodes : ∀ x ∈ g'.nodes, x ∈ g.nodes) :
    g'.DWF ∧ (∀ e, e ∈ g'.edges ↔ e ∈ g.edges) ∧ (∀ x, x ∈ g'.nodes ↔ x ∈ g.nodes) := by
  refine ⟨t.dwf (relAcyclic_of_edges wf fun e he => (hrel e).1 he),
    fun e => t.edges_iff.trans (hrel e), fun x => ⟨hnodes x, fun hx => ?_⟩⟩
  obtain ⟨e, he, hxe⟩ := node_has_edge wf hc hne hx
  have := t.ends_mem e ((hrel e).2 he)
  rcases hxe with rfl | rfl
  · exact this.1
  · exact this.2

theorem endsOnly_nodes {g : Dag} (wf : g.DWF) {rel : List Edge} (h : ∀ e ∈ rel, e ∈ g.edges)
    {g' : Dag} (hk : EndsOnly rel g') : ∀ x ∈ g'.nodes, x ∈ g.nodes := by
  intro x hx
  obtain ⟨e, he, hxe⟩ := hk x hx
  obtain ⟨h1, h2⟩ := mem_edges.1 (h e he)
  rcases hxe with rfl | rfl
  · exact h1
  · exact (wf.chi_closed _ h1 _ h2).1

end Dag
