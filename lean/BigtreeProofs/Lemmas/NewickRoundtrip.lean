import BigtreeProofs.Lemmas.NewickSteps
/-! Helper lemmas for C06 (Newick): the stack invariant "reading `write t` from a clean state at
depth `d` ends in the same state with the name pending and exactly `t`'s children parked at depth
`d+1`", and the round trip for names. Core Lean only. -/

namespace Newick
open Export

/-- names only -/
def noAttrs : Attrs → Attrs := fun _ => []

/-! ### what the writer emits with default options -/

mutual
def ws (c : Chars) : Tree → Str
  | .node _ n _ cs => if cs.isEmpty then serialize c n else '(' :: wsL c cs ++ ')' :: serialize c n
def wsL (c : Chars) : List Tree → Str
  | [] => []
  | [t] => ws c t
  | t :: u :: ts => ws c t ++ ',' :: wsL c (u :: ts)
end

theorem nameStr_default (c : Chars) (r : Bool) (n : Str) (a : Attrs) (l : Bool) :
    nameStr c {} r n a l = some (serialize c n) := by
  simp [nameStr]

theorem attrStr_default (c : Chars) (a : Attrs) : attrStr c {} a = [] := by
  simp [attrStr]

mutual
theorem write_default (c : Chars) : ∀ (t : Tree) (r : Bool), write c {} r t = some (ws c t)
  | .node i n a cs, r => by
    rw [write, nameStr_default, ws]
    simp only [attrStr_default, List.append_nil]
    by_cases h : cs.isEmpty = true
    · simp [h]
    · simp only [h, Bool.false_eq_true, if_false]
      rw [writeL_default c cs]
theorem writeL_default (c : Chars) : ∀ (ts : List Tree), writeL c {} ts = some (wsL c ts)
  | [] => by simp [writeL, wsL]
  | [t] => by rw [writeL, wsL, write_default c t]
  | t :: u :: ts => by
    rw [writeL, wsL, write_default c t, writeL_default c (u :: ts)]
end

/-! ### the stack invariant -/

/-- nothing pending, nothing parked above the current depth -/
def Ready (s : PState) : Prop :=
  s.st = .str ∧ s.cur = false ∧ s.cum = [] ∧ s.cumVal = [] ∧ ∀ k, k > s.depth → s.dn k = []

/-- the name pending and the children parked one level down -/
def parked (s : PState) (t : Tree) : PState :=
  { s with cum := t.name, dn := upd s.dn (s.depth + 1) (canonWithL noAttrs t.children) }

/-- the node created from a parked state, appended at the current depth -/
def created (s : PState) (t : Tree) : PState :=
  { s with dn := upd s.dn s.depth (s.dn s.depth ++ [canonWith noAttrs t]) }

theorem canonWith_node (t : Tree) :
    canonWith noAttrs t = .node 0 t.name [] (canonWithL noAttrs t.children) := by
  cases t; simp [canonWith, noAttrs]

theorem createNew_parked_tree (s : PState) (t : Tree) (hR : Ready s) (hok : NodeOK t) :
    createNew (parked s t) = some { created s t with cum := t.name, cur := true } := by
  obtain ⟨h1, h2, h3, h4, h5⟩ := hR
  have hd : dupNames ((parked s t).dn ((parked s t).depth + 1)) = false := by
    simp only [parked, upd_same]
    apply dupNames_false
    rw [canonL_names]
    exact hok.2.2
  rw [createNew_parked (parked s t) (by simpa [parked] using hok.1) hd]
  simp only [parked, created, upd_same, upd_upd, canonWith_node]
  rw [upd_self_eq s.dn (s.depth + 1) [] (h5 _ (by omega))]
  rw [upd_other s.dn (s.depth + 1) s.depth _ (by omega)]

/-- what the parser needs of a tree -/
def Good (c : Chars) (t : Tree) : Prop := AllNodes NodeOK t ∧ AllNodes (fun u => c.quote ∉ u.name) t
def GoodL (c : Chars) (ts : List Tree) : Prop := AllNodesL NodeOK ts ∧ AllNodesL (fun u => c.quote ∉ u.name) ts

theorem good_node (c : Chars) (i n a cs) (h : Good c (.node i n a cs)) :
    NodeOK (.node i n a cs) ∧ c.quote ∉ n ∧ GoodL c cs := by
  obtain ⟨h1, h2⟩ := h
  rw [allNodes_node] at h1 h2
  exact ⟨h1.1, h2.1, h1.2, h2.2⟩

theorem goodL_cons (c : Chars) (t ts) (h : GoodL c (t :: ts)) : Good c t ∧ GoodL c ts := by
  obtain ⟨h1, h2⟩ := h
  rw [allNodesL_cons] at h1 h2
  exact ⟨⟨h1.1, h2.1⟩, h1.2, h2.2⟩

theorem good_ok (c : Chars) (t : Tree) (h : Good c t) : NodeOK t := by
  cases t with
  | node i n a cs => exact (good_node c i n a cs h).1

/-- after a child has been read: `,` creates it and stays at this depth -/
theorem go_sep_after (c : Chars) (hc : c.OK) (la pre : Str) (s : PState) (t : Tree) (rest : Str)
    (hR : Ready s) (hok : NodeOK t) :
    go c la pre (parked s t) (',' :: rest) = go c la pre (created s t) rest := by
  have hq : c.nodeSep = ',' := hc.2.2.2.2.2.2.2.2
  rw [← hq]
  have hcr := createNew_parked_tree s t hR hok
  obtain ⟨h1, h2, h3, h4, h5⟩ := hR
  rw [go_step c la pre (parked s t) c.nodeSep rest _ 0
    (step_nodeSep_new c hc.1 la pre (parked s t) _ rest (by simpa [parked] using h1) (by simpa [parked] using h2) hcr
      (by simpa [created] using h4))]
  rw [List.drop_zero]
  congr 1
  obtain ⟨dn, counter, depth, st, cur, cum, cumVal⟩ := s
  simp only at h2 h3
  subst h2 h3
  rfl

/-- after the last child has been read: `)` creates it and returns to the parent's depth -/
theorem go_close_after (c : Chars) (hc : c.OK) (la pre : Str) (s : PState) (t : Tree) (rest : Str)
    (hR : Ready s) (hok : NodeOK t) :
    go c la pre (parked s t) (')' :: rest) = go c la pre { created s t with depth := s.depth - 1 } rest := by
  have hq : c.closeB = ')' := hc.2.2.1
  rw [← hq]
  have hcr := createNew_parked_tree s t hR hok
  obtain ⟨h1, h2, h3, h4, h5⟩ := hR
  rw [go_step c la pre (parked s t) c.closeB rest _ 0
    (step_close_new c hc.1 la pre (parked s t) _ rest (by simpa [parked] using h1) (by simpa [parked] using h2) hcr
      (by simpa [created] using h4))]
  rw [List.drop_zero]
  congr 1
  obtain ⟨dn, counter, depth, st, cur, cum, cumVal⟩ := s
  simp only at h2 h3
  subst h2 h3
  rfl

theorem ready_created (s : PState) (t : Tree) (hR : Ready s) : Ready (created s t) := by
  obtain ⟨h1, h2, h3, h4, h5⟩ := hR
  refine ⟨h1, h2, h3, h4, ?_⟩
  intro k hk
  simp only [created] at hk ⊢
  rw [upd_other _ _ _ _ (by omega)]
  exact h5 k hk

mutual
theorem go_ws (c : Chars) (hc : c.OK) (la pre : Str) : ∀ (t : Tree) (s : PState) (rest : Str),
    Ready s → Good c t → go c la pre s (ws c t ++ rest) = go c la pre (parked s t) rest
  | .node i n a cs, s, rest, hR, hg => by
    obtain ⟨hok, hq, hcs⟩ := good_node c i n a cs hg
    have hR' := hR
    obtain ⟨h1, h2, h3, h4, h5⟩ := hR
    rw [ws]
    cases cs with
    | nil =>
      simp only [List.isEmpty_nil, if_true]
      rw [go_name c hc la pre n s rest hq h1 h3]
      congr 1
      simp only [parked, Tree.name_node, Tree.children_node, canonWithL]
      rw [upd_self_eq s.dn (s.depth + 1) [] (h5 _ (by omega))]
    | cons d ds =>
      simp only [List.isEmpty_cons, Bool.false_eq_true, if_false]
      have ho : c.openB = '(' := hc.2.1
      rw [← ho]
      simp only [List.cons_append, List.append_assoc]
      rw [go_step c la pre s c.openB _ _ 0 (step_open c la pre s _ h1 h2 h3 h4)]
      rw [List.drop_zero]
      have hR1 : Ready { s with depth := s.depth + 1 } := by
        refine ⟨h1, h2, h3, h4, ?_⟩
        intro k hk
        exact h5 k (by simp only at hk; omega)
      have hcl : c.closeB = ')' := hc.2.2.1
      rw [go_wsL c hc la pre (d :: ds) (by simp) { s with depth := s.depth + 1 } (serialize c n ++ rest) hR1 hcs]
      simp only
      have hgn := go_name c hc la pre n
        { s with depth := s.depth + 1 - 1,
                 dn := upd s.dn (s.depth + 1) (s.dn (s.depth + 1) ++ canonWithL noAttrs (d :: ds)) }
        rest hq h1 h3
      rw [hgn]
      congr 1
      simp only [parked, Tree.name_node, Tree.children_node]
      rw [h5 (s.depth + 1) (by omega)]
      simp
theorem go_wsL (c : Chars) (hc : c.OK) (la pre : Str) : ∀ (ts : List Tree), ts ≠ [] → ∀ (s : PState) (rest : Str),
    Ready s → GoodL c ts →
    go c la pre s (wsL c ts ++ ')' :: rest)
      = go c la pre { s with depth := s.depth - 1, dn := upd s.dn s.depth (s.dn s.depth ++ canonWithL noAttrs ts) } rest
  | [], h, _, _, _, _ => absurd rfl h
  | [t], _, s, rest, hR, hg => by
    obtain ⟨hgt, _⟩ := goodL_cons c t [] hg
    rw [wsL, go_ws c hc la pre t s _ hR hgt, go_close_after c hc la pre s t rest hR (good_ok c t hgt)]
    simp [created, canonWithL]
  | t :: u :: ts, _, s, rest, hR, hg => by
    obtain ⟨hgt, hgts⟩ := goodL_cons c t (u :: ts) hg
    rw [wsL, List.append_assoc, List.cons_append, go_ws c hc la pre t s _ hR hgt,
      go_sep_after c hc la pre s t _ hR (good_ok c t hgt)]
    rw [go_wsL c hc la pre (u :: ts) (by simp) (created s t) rest (ready_created s t hR) hgts]
    congr 1
    simp only [created, upd_same, upd_upd, List.append_assoc, List.singleton_append]
    rfl
end

/-! ### the whole string -/

theorem serialize_ne_nil (c : Chars) (n : Str) (h : n ≠ []) : serialize c n ≠ [] := by
  unfold serialize
  split
  · simp
  · exact h

theorem ws_ne_nil (c : Chars) (t : Tree) (h : NodeOK t) : ws c t ≠ [] := by
  cases t with
  | node i n a cs =>
    rw [ws]
    split
    · exact serialize_ne_nil c n h.1
    · simp

theorem ready_init : Ready PState.init := by
  simp [Ready, PState.init]

/-- `newick_to_tree(tree_to_newick(t))` for the default writer options -/
theorem parse_ws (c : Chars) (hc : c.OK) (la pre : Str) (t : Tree) (hg : Good c t) :
    parse c la pre (ws c t) = some (canonWith noAttrs t) := by
  have hok := good_ok c t hg
  unfold parse
  rw [if_neg (ws_ne_nil c t hok)]
  have hgo : run c la pre (ws c t).length PState.init (ws c t) = some (parked PState.init t) := by
    have := go_ws c hc la pre t PState.init [] ready_init hg
    rw [List.append_nil, go_nil] at this
    exact this
  rw [hgo]
  simp only
  unfold finish
  have hd : (parked PState.init t).depth = 1 := rfl
  rw [if_neg (by rw [hd]; simp)]
  have hdn : (parked PState.init t).dn 1 = [] := by
    simp [parked, PState.init, upd]
  rw [hdn]
  simp only
  rw [createNew_parked_tree PState.init t ready_init hok]
  simp [created, PState.init, upd]

end Newick
