import BigtreeModel.Plot
import BigtreeProofs.Lemmas.Plot
import BigtreeProofs.Lemmas.PlotContourLevels
import BigtreeProofs.Lemmas.PlotContourWalk
import BigtreeProofs.Lemmas.PlotContourShift
/-!
# The first pass separates all cousins on the class `Sk.exact`

* `Cross sub a b` — every node of the sibling subtree `a` is `sub` left of every node of the sibling
  subtree `b` on the same level (below the two roots); `CS` — `Cross` for any two children of every node;
* `tidy_sorted` — `Good` (mid-point / preliminary `x`), `MonoPT` (shifts non-decreasing in a sibling
  group) and `CS` make every level of the annotated tree sorted with gap `m ≤ sib, sub`;
* `InvC` — the invariant of the sibling loop; `shiftSiblings_invC` is the step: the shift found by
  `maxShift` moves the new subtree far enough from every left sibling, and spreading the left siblings
  proportionally never brings two of them closer;
* `firstPass_sorted` — the result for a whole tree of the class.

Only core Lean is used.
-/

namespace Plot

/-! ## cross separation of sibling subtrees -/

/-- below the two sibling roots, `a` is `sub` left of `b` on every level -/
def Cross (sub : Rat) (a b : PT) : Prop :=
  ∀ n, ∀ p ∈ plv 0 a (n + 1), ∀ q ∈ plv 0 b (n + 1), p + sub ≤ q

mutual
/-- any two children of any node are `Cross` -/
def CS (sub : Rat) : PT → Prop
  | .node _ _ _ cs => cs.Pairwise (Cross sub) ∧ CSL sub cs
def CSL (sub : Rat) : List PT → Prop
  | [] => True
  | c :: cs => CS sub c ∧ CSL sub cs
end

theorem csl_iff {sub : Rat} : ∀ {cs : List PT}, CSL sub cs ↔ ∀ c ∈ cs, CS sub c
  | [] => by simp [CSL]
  | c :: cs => by simp [CSL, csl_iff (cs := cs)]

theorem cs_node {sub x m s : Rat} {cs : List PT} :
    CS sub (.node x m s cs) ↔ cs.Pairwise (Cross sub) ∧ ∀ c ∈ cs, CS sub c := by
  simp [CS, csl_iff]

theorem cs_iff_children {sub : Rat} (t : PT) :
    CS sub t ↔ t.children.Pairwise (Cross sub) ∧ ∀ c ∈ t.children, CS sub c := by
  cases t; simp [cs_node]

theorem cs_addShift {sub e : Rat} : ∀ {t : PT}, CS sub (t.addShift e) ↔ CS sub t
  | .node x m s cs => by simp [PT.addShift, cs_node]

theorem cross_addShift {sub e1 e2 : Rat} {a b : PT} (h : Cross sub a b) (he : e1 ≤ e2) :
    Cross sub (a.addShift e1) (b.addShift e2) := by
  intro n p hp q hq
  rw [plv_addShift] at hp hq
  obtain ⟨p0, hp0, rfl⟩ := List.mem_map.mp hp
  obtain ⟨q0, hq0, rfl⟩ := List.mem_map.mp hq
  have := h n p0 hp0 q0 hq0
  grind

/-- every level of the subtree is sorted with gap `m`, wherever the subtree is put -/
def SortedT (m : Rat) (t : PT) : Prop := ∀ c n, Sorted m (plv c t n)

theorem sortedT_addShift {m e : Rat} {t : PT} (h : SortedT m t) : SortedT m (t.addShift e) := by
  intro c n
  rw [plv_addShift]
  exact sorted_map_add (h c n)

/-! ## siblings: from the chain of preliminary `x` and monotone shifts to all pairs -/

theorem xchain_head_le {sib : Rat} (hs : 0 ≤ sib) : ∀ (l : List PT) (a : PT),
    Chain (fun u v => v = u + sib) ((a :: l).map PT.x) → ∀ b ∈ l, a.x + sib ≤ b.x
  | [], _, _, b, hb => by simp at hb
  | b :: l, a, hc, b', hb' => by
    simp only [List.map, Chain] at hc
    rcases List.mem_cons.mp hb' with rfl | hb'
    · have := hc.1; grind
    · have h1 := xchain_head_le hs l b (by simpa [List.map] using hc.2) b' hb'
      have := hc.1
      grind

theorem sep_pairwise {sib : Rat} (hs : 0 ≤ sib) : ∀ (l : List PT), XChain sib l →
    (l.map PT.shift).Pairwise (· ≤ ·) →
    l.Pairwise (fun a b => a.x + a.shift + sib ≤ b.x + b.shift)
  | [], _, _ => List.Pairwise.nil
  | a :: l, hx, hm => by
    simp only [List.map, List.pairwise_cons] at hm
    rw [List.pairwise_cons]
    refine ⟨?_, sep_pairwise hs l ?_ hm.2⟩
    · intro b hb
      have h1 := xchain_head_le hs l a hx b hb
      have h2 := hm.1 b.shift (List.mem_map.mpr ⟨b, hb, rfl⟩)
      grind
    · unfold XChain at hx ⊢
      cases l with
      | nil => trivial
      | cons b l => simp only [List.map, Chain] at hx ⊢; exact hx.2

/-- `Good`, monotone shifts and cross separation give sorted levels -/
theorem tidy_sorted {sib sub m : Rat} (hm : 0 ≤ m) (h1 : m ≤ sib) (h2 : m ≤ sub) :
    ∀ t : PT, Good sib t → MonoPT t → CS sub t → SortedT m t := by
  apply PT.ind
  intro x md s cs ih hg hmono hcs c n
  rw [good_node] at hg
  unfold MonoPT at hmono
  rw [PT.allGroups_node] at hmono
  rw [cs_node] at hcs
  cases n with
  | zero => simp [plv, Sorted]
  | succ n =>
    simp only [plv]
    apply flv_sorted
    · intro k hk
      exact ih k hk (hg.2.2 k hk) (hmono.2 k hk) (hcs.2 k hk) _ n
    · cases n with
      | zero =>
        have hs : 0 ≤ sib := by grind
        refine (sep_pairwise hs cs hg.2.1 hmono.1).imp ?_
        intro a b hab p hp q hq
        rw [plv_zero] at hp hq
        simp at hp hq
        subst hp; subst hq
        grind
      | succ n =>
        refine hcs.1.imp ?_
        intro a b hab p hp q hq
        have e : c + md + s = 0 + (c + md + s) := by grind
        rw [e, plv_add] at hp hq
        obtain ⟨p0, hp0, rfl⟩ := List.mem_map.mp hp
        obtain ⟨q0, hq0, rfl⟩ := List.mem_map.mp hq
        have := hab n p0 hp0 q0 hq0
        grind

/-! ## the shift loop -/

theorem bumpPT_append (s : Rat) (j : Nat) : ∀ (m : Nat) (l1 l2 : List PT),
    bumpPT s j m (l1 ++ l2) = bumpPT s j m l1 ++ bumpPT s j (m + l1.length) l2
  | _, [], _ => by simp [bumpPT]
  | m, a :: l1, l2 => by
    simp only [List.cons_append, bumpPT, List.length_cons, bumpPT_append s j (m + 1) l1 l2]
    congr 3
    omega

theorem bumpPT_mem_idx {s : Rat} {j : Nat} {k : PT} : ∀ {m : Nat} {l : List PT}, k ∈ bumpPT s j m l →
    ∃ (i : Nat) (h : i < l.length), k = (l[i]).addShift (s * ((m + i : Nat) : Rat) / (j : Rat))
  | _, [], h => by simp [bumpPT] at h
  | m, a :: l, h => by
    simp only [bumpPT, List.mem_cons] at h
    rcases h with rfl | h
    · exact ⟨0, by simp, by simp⟩
    · obtain ⟨i, hi, rfl⟩ := bumpPT_mem_idx (m := m + 1) (l := l) h
      refine ⟨i + 1, by simpa using hi, ?_⟩
      have : m + 1 + i = m + (i + 1) := by omega
      simp [this]

theorem bumpPT_cross {sub s : Rat} (hs : 0 ≤ s) (j : Nat) : ∀ (m : Nat) (l : List PT),
    l.Pairwise (Cross sub) → (bumpPT s j m l).Pairwise (Cross sub)
  | _, [], _ => by simp [bumpPT]
  | m, a :: l, h => by
    rw [List.pairwise_cons] at h
    simp only [bumpPT, List.pairwise_cons]
    refine ⟨?_, bumpPT_cross hs j (m + 1) l h.2⟩
    intro b' hb'
    obtain ⟨i, hi, rfl⟩ := bumpPT_mem_idx hb'
    exact cross_addShift (h.1 _ (List.getElem_mem hi)) (rat_scale_mono hs (by omega) j)

theorem maxShift_acc_le (sub : Rat) (node : PT) (ri : Nat) : ∀ (l : List PT) (idx : Nat) (acc : Rat),
    acc ≤ maxShift sub node ri l idx acc
  | [], _, _ => by simp [maxShift]
  | k :: l, idx, acc => by
    simp only [maxShift]
    have := maxShift_acc_le sub node ri l (idx + 1)
      (max acc (getSubtreeShift sub idx ri (k.height + 1) k [] node [] 0 0 0 true))
    grind

/-- the shift is at least what every left sibling asks for -/
theorem maxShift_ge (sub : Rat) (node : PT) (ri : Nat) : ∀ (l : List PT) (idx : Nat) (acc : Rat)
    (i : Nat) (h : i < l.length),
    getSubtreeShift sub (idx + i) ri (l[i].height + 1) l[i] [] node [] 0 0 0 true ≤
      maxShift sub node ri l idx acc
  | [], _, _, i, h => by simp at h
  | k :: l, idx, acc, 0, _ => by
    simp only [maxShift, List.getElem_cons_zero, Nat.add_zero]
    have := maxShift_acc_le sub node ri l (idx + 1)
      (max acc (getSubtreeShift sub idx ri (k.height + 1) k [] node [] 0 0 0 true))
    grind
  | k :: l, idx, acc, i + 1, h => by
    simp only [maxShift, List.getElem_cons_succ]
    have := maxShift_ge sub node ri l (idx + 1)
      (max acc (getSubtreeShift sub idx ri (k.height + 1) k [] node [] 0 0 0 true)) i (by simpa using h)
    have e : idx + 1 + i = idx + (i + 1) := by omega
    rw [e] at this
    exact this

/-- invariant of the sibling loop for the cousin clause -/
structure InvC (m sub : Rat) (done : List PT) : Prop where
  each : ∀ k ∈ done, SortedT m k ∧ CS sub k
  cross : done.Pairwise (Cross sub)

/-- the pair condition of `Sk.groupOK` for the pair `(i, ·)` -/
def PairCond (i : Nat) (a b : Sk) : Prop :=
  (i = 0 ∧ Sk.pairExact a b = true) ∨ Sk.shallow a b = true

/-- what `_get_subtree_shift` returns for the pair `(i, j)` is enough once scaled by `1 - i/j` -/
theorem gss_top (sub : Rat) (i j : Nat) (hij : i < j) (l node : PT) {m : Rat} (hm : 0 ≤ m)
    (hl : SortedT m l) (hn : SortedT m node) (hc : PairCond i l.sk node.sk) :
    ∀ n p q, p ∈ plv 0 l (n + 1) → q ∈ plv 0 node (n + 1) →
      p + sub - q ≤ getSubtreeShift sub i j (l.height + 1) l [] node [] 0 0 0 true *
        (1 - (i : Rat) / (j : Rat)) := by
  intro n p q hp hq
  rcases hc with ⟨rfl, hex⟩ | hsh
  · have := gss_top_exact sub j l node hm hl hn hex n p q hp hq
    rw [rat_factor_zero]
    grind
  · exact gss_top_shallow sub i j hij l node hm hl hn hsh n p q hp hq

theorem rat_shift_enough {need r s : Rat} {i j : Nat} (hij : i < j)
    (h1 : need ≤ r * (1 - (i : Rat) / (j : Rat))) (h2 : r ≤ s) :
    need + s * (i : Rat) / (j : Rat) ≤ s * (j : Rat) / (j : Rat) := by
  have hf := rat_factor_pos hij
  have h3 := Rat.mul_le_mul_of_nonneg_right h2 (Rat.le_of_lt hf)
  have hj : (j : Rat) ≠ 0 := by
    have : (0 : Rat) < (j : Rat) := Rat.natCast_pos.mpr (by omega)
    intro h0; rw [h0] at this; exact absurd this (by decide)
  rw [Rat.mul_div_cancel hj]
  have e : s * (1 - (i : Rat) / (j : Rat)) = s - s * (i : Rat) / (j : Rat) := by
    simp only [Rat.div_def]; grind
  grind

theorem shiftSiblings_invC {m sub : Rat} (hm : 0 ≤ m) {done : List PT} {node : PT} {tl : List Rat}
    (hinv : InvC m sub done) (hnode : SortedT m node ∧ CS sub node)
    (hpair : ∀ (i : Nat) (h : i < done.length), PairCond i (done[i]).sk node.sk) :
    InvC m sub (shiftSiblings sub done node tl).1 := by
  unfold shiftSiblings
  by_cases hj : done.length = 0
  · simp only [hj, if_true]
    have : done = [] := List.length_eq_zero_iff.mp hj
    subst this
    exact ⟨by intro k hk; simp at hk; subst hk; exact hnode, by simp⟩
  · simp only [hj, if_false]
    have hs : 0 ≤ maxShift sub node done.length done 0 0 :=
      maxShift_nonneg sub node _ done 0 0 (Rat.le_refl)
    refine ⟨?_, ?_⟩
    · intro k hk
      obtain ⟨i, hi, rfl⟩ := bumpPT_mem_idx hk
      have hmem : (done ++ [node])[i] ∈ done ++ [node] := List.getElem_mem hi
      have hk0 : SortedT m (done ++ [node])[i] ∧ CS sub (done ++ [node])[i] := by
        rcases List.mem_append.mp hmem with h | h
        · exact hinv.each _ h
        · simp at h; rw [h]; exact hnode
      exact ⟨sortedT_addShift hk0.1, cs_addShift.mpr hk0.2⟩
    · rw [bumpPT_append, List.pairwise_append]
      refine ⟨bumpPT_cross hs _ 0 done hinv.cross, by simp [bumpPT], ?_⟩
      intro a' ha' b' hb'
      simp only [bumpPT, List.mem_singleton, Nat.zero_add] at hb'
      subst hb'
      obtain ⟨i, hi, rfl⟩ := bumpPT_mem_idx ha'
      simp only [Nat.zero_add]
      intro n p hp q hq
      rw [plv_addShift] at hp hq
      obtain ⟨p0, hp0, rfl⟩ := List.mem_map.mp hp
      obtain ⟨q0, hq0, rfl⟩ := List.mem_map.mp hq
      have hg := gss_top sub i done.length hi done[i] node hm (hinv.each _ (List.getElem_mem hi)).1
        hnode.1 (hpair i hi) n p0 q0 hp0 hq0
      have hmx := maxShift_ge sub node done.length done 0 0 i hi
      rw [Nat.zero_add] at hmx
      have := rat_shift_enough hi hg hmx
      grind

/-! ## shapes along the loop -/

theorem ST.sk_eq (t : ST) : t.sk = .node (t.children.map ST.sk) := by
  cases t; simp [ST.sk, ST.skL_eq_map]

theorem Sk.exactL_iff : ∀ {cs : List Sk}, Sk.exactL cs = true ↔ ∀ c ∈ cs, c.exact = true
  | [] => by simp [Sk.exactL]
  | c :: cs => by simp [Sk.exactL, Sk.exactL_iff (cs := cs)]

theorem Sk.exact_node {cs : List Sk} :
    (Sk.node cs).exact = true ↔ Sk.groupOK cs = true ∧ ∀ c ∈ cs, c.exact = true := by
  simp [Sk.exact, Sk.exactL_iff]

theorem Sk.exactFrom_iff {c0 : Sk} : ∀ {cs : List Sk},
    Sk.exactFrom c0 cs = true ↔ ∀ c ∈ cs, Sk.pairExact c0 c = true
  | [] => by simp [Sk.exactFrom]
  | c :: cs => by simp [Sk.exactFrom, Sk.exactFrom_iff (cs := cs)]

theorem Sk.shallowFrom_iff {c0 : Sk} : ∀ {cs : List Sk},
    Sk.shallowFrom c0 cs = true ↔ ∀ c ∈ cs, Sk.shallow c0 c = true
  | [] => by simp [Sk.shallowFrom]
  | c :: cs => by simp [Sk.shallowFrom, Sk.shallowFrom_iff (cs := cs)]

theorem Sk.shallowPairs_iff : ∀ {cs : List Sk},
    Sk.shallowPairs cs = true ↔ cs.Pairwise (fun a b => Sk.shallow a b = true)
  | [] => by simp [Sk.shallowPairs]
  | c :: cs => by simp [Sk.shallowPairs, Sk.shallowFrom_iff, Sk.shallowPairs_iff (cs := cs)]

/-- the indexed reading of `groupOK` -/
theorem Sk.groupOK_pair {G : List Sk} (h : Sk.groupOK G = true) (i j : Nat) (hij : i < j)
    (hj : j < G.length) : PairCond i (G[i]'(by omega)) G[j] := by
  cases G with
  | nil => simp at hj
  | cons c0 rest =>
    simp only [Sk.groupOK, Bool.and_eq_true, Sk.exactFrom_iff, Sk.shallowPairs_iff] at h
    cases i with
    | zero =>
      left
      refine ⟨rfl, ?_⟩
      obtain ⟨j', rfl⟩ : ∃ j', j = j' + 1 := ⟨j - 1, by omega⟩
      simp only [List.getElem_cons_zero, List.getElem_cons_succ]
      exact h.1 _ (List.getElem_mem _)
    | succ i' =>
      right
      obtain ⟨j', rfl⟩ : ∃ j', j = j' + 1 := ⟨j - 1, by omega⟩
      simp only [List.getElem_cons_succ]
      exact List.pairwise_iff_getElem.mp h.2 i' j' _ _ (by omega)

/-- what the induction over the tree provides for one member of the sibling group -/
def NodeC (P : Params) (m : Rat) (t : ST) : Prop :=
  ∀ (done : List PT) (h : Rat),
    SortedT m (place P.sib done h (fpKids P t)) ∧ CS P.sub (place P.sib done h (fpKids P t))

theorem place_sk' (P : Params) (done : List PT) (h : Rat) (t : ST) :
    (place P.sib done h (fpKids P t)).sk = t.sk := by
  rw [place_sk, fpKids_sk, ← ST.sk_eq]

theorem fpGroup_invC (P : Params) {m : Rat} (hm : 0 ≤ m) (G : List Sk) (hG : Sk.groupOK G = true) :
    ∀ (ts : List ST), (∀ t ∈ ts, NodeC P m t) → ∀ (done : List PT) (pend : List Rat),
      InvC m P.sub done → done.map PT.sk ++ ts.map ST.sk = G → InvC m P.sub (fpGroup P ts done pend)
  | [], _, done, pend, hinv, _ => by simpa [fpGroup] using hinv
  | t :: ts, hts, done, pend, hinv, hshape => by
    simp only [fpGroup]
    have hnode := hts t (by simp) done (pend.headD 0)
    have hlen : done.length < G.length := by
      rw [← hshape]; simp
    have hGj : G[done.length] = t.sk := by
      simp [← hshape]
    have hpair : ∀ (i : Nat) (h : i < done.length),
        PairCond i (done[i]).sk (place P.sib done (pend.headD 0) (fpKids P t)).sk := by
      intro i hi
      have := Sk.groupOK_pair hG i done.length hi hlen
      rw [hGj] at this
      have hGi : G[i]'(by omega) = (done[i]).sk := by
        simp [← hshape, List.getElem_append_left, hi]
      rw [hGi] at this
      rw [place_sk']
      exact this
    apply fpGroup_invC P hm G hG ts (fun t ht => hts t (by simp [ht])) _ _
      (shiftSiblings_invC hm hinv hnode hpair)
    rw [shiftSiblings_sk, place_sk', ← hshape]
    simp

theorem fpKids_invC (P : Params) {m : Rat} (hm : 0 ≤ m) (h1 : m ≤ P.sib) (h2 : m ≤ P.sub) :
    ∀ t : ST, t.sk.exact = true → t.Mono → InvC m P.sub (fpKids P t) := by
  apply ST.ind
  intro s cs ih hex hmono
  rw [ST.sk_eq, Sk.exact_node] at hex
  unfold ST.Mono at hmono
  rw [ST.allGroups_node] at hmono
  simp only [ST.children_node] at hex
  simp only [fpKids]
  apply fpGroup_invC P hm (cs.map ST.sk) hex.1 cs ?_ [] _ ⟨by simp, by simp⟩ (by simp)
  intro t ht done h
  have hinv := ih t ht (hex.2 _ (List.mem_map.mpr ⟨t, ht, rfl⟩)) (hmono.2 t ht)
  have hgood := place_good P.sib done h _ (fpKids_ok P t)
  have hq := fpKids_q bumpClosed_mono P t (hmono.2 t ht)
  have hmn : MonoPT (place P.sib done h (fpKids P t)) := place_allGroups _ _ _ _ hq.1 hq.2
  have hcs : CS P.sub (place P.sib done h (fpKids P t)) := by
    rw [cs_iff_children, place_children]
    exact ⟨hinv.cross, fun c hc => (hinv.each c hc).2⟩
  exact ⟨tidy_sorted hm h1 h2 _ hgood hmn hcs, hcs⟩

/-- on the class `Sk.exact` every level of the annotated tree is sorted with gap `m ≤ sib, sub` -/
theorem firstPass_sorted (P : Params) {m : Rat} (hm : 0 ≤ m) (h1 : m ≤ P.sib) (h2 : m ≤ P.sub)
    (t : ST) (hex : t.sk.exact = true) (hmono : t.Mono) : SortedT m (firstPass P t) := by
  have hinv := fpKids_invC P hm h1 h2 t hex hmono
  apply tidy_sorted hm h1 h2 _ (firstPass_good P t) (firstPass_q bumpClosed_mono P t hmono)
  simp only [firstPass]
  rw [cs_node]
  exact ⟨hinv.cross, fun c hc => (hinv.each c hc).2⟩

/-- the cousin clause for the three passes on a tree of the class whose entry shifts are monotone -/
theorem passes_level_sorted (P : Params) {m : Rat} (hm : 0 ≤ m) (h1 : m ≤ P.sib) (h2 : m ≤ P.sub)
    (t : ST) (hex : t.sk.exact = true) (hmono : t.Mono) (d : Nat) :
    ((passes P t).level d).Pairwise (fun a b => a.x + m ≤ b.x) := by
  cases d with
  | zero => rw [level_zero]; exact List.Pairwise.nil
  | succ d =>
    rw [level_eq_lvl, passes_eq, ← List.pairwise_map (f := FT.x) (R := fun a b => a + m ≤ b), fin_lvl]
    rw [List.pairwise_map]
    refine (firstPass_sorted P hm h1 h2 t hex hmono 0 d).imp ?_
    intro a b hab
    grind

end Plot
