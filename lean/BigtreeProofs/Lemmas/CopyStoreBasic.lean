import BigtreeModel.CopyStore
/-!
# Lemmas for C07 (Model A: pointer-level store with deep copy)

The separation/frame argument is done once for an arbitrary "side" predicate `Q : Nat → Prop`
(`SepQ`, `Inv`); the two sides of `Sep s k` are the instances `Q = (k ≤ ·)` and `Q = (· < k)`.
-/

namespace CopyStore

/-! ## cells of a modified store -/

theorem Store.cell?_modify (s : Store) (j : Nat) (f : Cell → Cell) (i : Nat) :
    (s.modify j f).cell? i = if j = i then (s.cell? i).map f else s.cell? i := by
  simp only [Store.modify, Store.cell?, List.getElem?_modify]
  by_cases h : j = i
  · simp [h]
  · simp [h]

theorem Store.cell?_modify_ne (s : Store) (j : Nat) (f : Cell → Cell) (i : Nat) (h : j ≠ i) :
    (s.modify j f).cell? i = s.cell? i := by
  rw [Store.cell?_modify, if_neg h]

theorem Store.cell?_modify_self (s : Store) (j : Nat) (f : Cell → Cell) :
    (s.modify j f).cell? j = (s.cell? j).map f := by
  rw [Store.cell?_modify, if_pos rfl]

@[simp] theorem Store.n_modify (s : Store) (j : Nat) (f : Cell → Cell) : (s.modify j f).n = s.n := by
  simp [Store.modify, Store.n, List.length_modify]

theorem Store.cell?_lt (s : Store) (i : Nat) (c : Cell) (h : s.cell? i = some c) : i < s.n := by
  unfold Store.cell? at h
  unfold Store.n
  rcases List.getElem?_eq_some_iff.1 h with ⟨h', _⟩
  exact h'

theorem Store.cell?_ge (s : Store) (i : Nat) (h : s.n ≤ i) : s.cell? i = none := by
  unfold Store.cell?; exact List.getElem?_eq_none h

/-! ## the generic separation predicate and the invariant -/

/-- all links of cell `c` (stored at `i`) stay on `i`'s side of `Q` -/
def LinkOK (Q : Nat → Prop) (i : Nat) (c : Cell) : Prop :=
  (∀ p, c.parent = some p → (Q i ↔ Q p)) ∧ (∀ ch ∈ c.children, (Q i ↔ Q ch))

/-- no link crosses the boundary of `Q` -/
def SepQ (s : Store) (Q : Nat → Prop) : Prop := ∀ i c, s.cell? i = some c → LinkOK Q i c

theorem sep_iff_lt (s : Store) (k : Nat) : Sep s k ↔ SepQ s (· < k) := Iff.rfl

theorem sep_iff_ge (s : Store) (k : Nat) : Sep s k ↔ SepQ s (k ≤ ·) := by
  unfold Sep SepQ LinkOK
  constructor
  · intro h i c hc
    refine ⟨fun p hp => ?_, fun ch hch => ?_⟩
    · have := (h i c hc).1 p hp; omega
    · have := (h i c hc).2 ch hch; omega
  · intro h i c hc
    refine ⟨fun p hp => ?_, fun ch hch => ?_⟩
    · have := (h i c hc).1 p hp; omega
    · have := (h i c hc).2 ch hch; omega

/-- `st` is separated and agrees with `s0` off the `Q` side -/
def Inv (Q : Nat → Prop) (s0 st : Store) : Prop :=
  SepQ st Q ∧ ∀ i, ¬ Q i → st.cell? i = s0.cell? i

theorem Inv.refl {Q : Nat → Prop} {s : Store} (h : SepQ s Q) : Inv Q s s := ⟨h, fun _ _ => rfl⟩

/-- a cell all of whose links are on the `Q` side, stored on the `Q` side -/
theorem linkOK_of_all {Q : Nat → Prop} {j : Nat} {c : Cell} (hj : Q j)
    (hp : ∀ p, c.parent = some p → Q p) (hc : ∀ ch ∈ c.children, Q ch) : LinkOK Q j c :=
  ⟨fun p h => ⟨fun _ => hp p h, fun _ => hj⟩, fun ch h => ⟨fun _ => hc ch h, fun _ => hj⟩⟩

theorem inv_modify {Q : Nat → Prop} {s0 st : Store} (j : Nat) (f : Cell → Cell)
    (h : Inv Q s0 st) (hj : Q j) (hf : ∀ c, st.cell? j = some c → LinkOK Q j (f c)) :
    Inv Q s0 (st.modify j f) := by
  refine ⟨fun i c hc => ?_, fun i hi => ?_⟩
  · rw [Store.cell?_modify] at hc
    by_cases e : j = i
    · subst e
      rw [if_pos rfl] at hc
      cases hcj : st.cell? j with
      | none => rw [hcj] at hc; cases hc
      | some c0 =>
        rw [hcj] at hc
        simp only [Option.map_some, Option.some.injEq] at hc
        subst hc
        exact hf c0 hcj
    · rw [if_neg e] at hc
      exact h.1 i c hc
  · have e : j ≠ i := fun e => hi (e ▸ hj)
    rw [Store.cell?_modify_ne _ _ _ _ e]
    exact h.2 i hi

/-- removing a child id from a children list -/
theorem inv_eraseChild {Q : Nat → Prop} {s0 st : Store} (j v : Nat) (h : Inv Q s0 st) (hj : Q j) :
    Inv Q s0 (st.modify j fun c => { c with children := c.children.erase v }) := by
  apply inv_modify j _ h hj
  intro c hc
  have := h.1 j c hc
  exact ⟨this.1, fun ch hch => this.2 ch (List.mem_of_mem_erase hch)⟩

/-- writing the parent field -/
theorem inv_setParentField {Q : Nat → Prop} {s0 st : Store} (j : Nat) (p : Option Nat)
    (h : Inv Q s0 st) (hj : Q j) (hp : ∀ q, p = some q → Q q) :
    Inv Q s0 (st.modify j fun c => { c with parent := p }) := by
  apply inv_modify j _ h hj
  intro c hc
  have := h.1 j c hc
  exact ⟨fun q hq => ⟨fun _ => hp q hq, fun _ => hj⟩, this.2⟩

/-- appending a child id -/
theorem inv_appendChild {Q : Nat → Prop} {s0 st : Store} (j v : Nat)
    (h : Inv Q s0 st) (hj : Q j) (hv : Q v) :
    Inv Q s0 (st.modify j fun c => { c with children := c.children ++ [v] }) := by
  apply inv_modify j _ h hj
  intro c hc
  have := h.1 j c hc
  refine ⟨this.1, fun ch hch => ?_⟩
  rcases List.mem_append.1 hch with h1 | h1
  · exact this.2 ch h1
  · simp only [List.mem_singleton] at h1
    subst h1
    exact ⟨fun _ => hv, fun _ => hj⟩

/-- changing only name/attrs -/
theorem inv_payload {Q : Nat → Prop} {s0 st : Store} (j : Nat) (f : Cell → Cell)
    (h : Inv Q s0 st) (hj : Q j)
    (hf : ∀ c, (f c).parent = c.parent ∧ (f c).children = c.children) :
    Inv Q s0 (st.modify j f) := by
  apply inv_modify j _ h hj
  intro c hc
  have := h.1 j c hc
  unfold LinkOK
  rw [(hf c).1, (hf c).2]
  exact this

/-! ## the mutators preserve the invariant -/

theorem parentOf_eq_some {s : Store} {v p : Nat} (h : s.parentOf v = some p) :
    ∃ c, s.cell? v = some c ∧ c.parent = some p := by
  unfold Store.parentOf at h
  cases hc : s.cell? v with
  | none => rw [hc] at h; cases h
  | some c => rw [hc] at h; exact ⟨c, rfl, h⟩

theorem sepQ_parent {Q : Nat → Prop} {s : Store} (hs : SepQ s Q) {v p : Nat}
    (h : s.parentOf v = some p) (hv : Q v) : Q p := by
  rcases parentOf_eq_some h with ⟨c, hc, hp⟩
  exact ((hs v c hc).1 p hp).1 hv

theorem sepQ_children {Q : Nat → Prop} {s : Store} (hs : SepQ s Q) {v : Nat} (hv : Q v) :
    ∀ ch ∈ s.childrenOf v, Q ch := by
  intro ch hch
  unfold Store.childrenOf at hch
  cases hc : s.cell? v with
  | none => rw [hc] at hch; simp at hch
  | some c =>
    rw [hc] at hch
    simp only [Option.map_some, Option.getD_some] at hch
    exact ((hs v c hc).2 ch hch).1 hv

theorem inv_setParent {Q : Nat → Prop} {s0 st : Store} (v : Nat) (p : Option Nat)
    (h : Inv Q s0 st) (hv : Q v) (hp : ∀ q, p = some q → Q q) :
    Inv Q s0 (setParent st v p) := by
  unfold setParent
  cases hcv : st.cell? v with
  | none => exact h
  | some cv =>
    -- the old-parent step
    have h1 : Inv Q s0 (match cv.parent with
        | none => st
        | some cp => st.modify cp fun c => { c with children := c.children.erase v }) := by
      cases hcp : cv.parent with
      | none => exact h
      | some cp =>
        have hq : Q cp := ((h.1 v cv hcv).1 cp hcp).1 hv
        exact inv_eraseChild cp v h hq
    have h2 := inv_setParentField v p h1 hv hp
    cases p with
    | none => exact h2
    | some q =>
      simp only
      split
      · exact h
      · exact inv_appendChild q v h2 (hp q rfl) hv

theorem inv_dropChild {Q : Nat → Prop} {s0 st : Store} (c : Nat) (h : Inv Q s0 st) (hc : Q c) :
    Inv Q s0 (dropChild st c) := by
  unfold dropChild
  cases hp : st.parentOf c with
  | none => exact h
  | some p =>
    have hq : Q p := sepQ_parent h.1 hp hc
    exact inv_setParentField c none (inv_eraseChild p c h hq) hc (fun _ e => by cases e)

/-- folding an invariant-preserving operation over ids of the `Q` side -/
theorem inv_foldl {Q : Nat → Prop} {s0 : Store} (g : Store → Nat → Store)
    (hg : ∀ st c, Inv Q s0 st → Q c → Inv Q s0 (g st c)) :
    ∀ (l : List Nat) (st : Store), Inv Q s0 st → (∀ c ∈ l, Q c) → Inv Q s0 (l.foldl g st)
  | [], _, h, _ => h
  | c :: l, st, h, hl => by
    rw [List.foldl_cons]
    exact inv_foldl g hg l (g st c) (hg st c h (hl c (List.mem_cons_self)))
      (fun d hd => hl d (List.mem_cons_of_mem _ hd))

theorem inv_delChildren {Q : Nat → Prop} {s0 st : Store} (v : Nat) (h : Inv Q s0 st) (hv : Q v) :
    Inv Q s0 (delChildren st v) := by
  unfold delChildren
  exact inv_foldl dropChild (fun st c h hc => inv_dropChild c h hc) _ st h (sepQ_children h.1 hv)

theorem inv_setAttr {Q : Nat → Prop} {s0 st : Store} (v : Nat) (k : Str) (x : Val)
    (h : Inv Q s0 st) (hv : Q v) : Inv Q s0 (setAttr st v k x) := by
  unfold setAttr
  exact inv_payload v _ h hv (fun _ => ⟨rfl, rfl⟩)

theorem inv_setName {Q : Nat → Prop} {s0 st : Store} (v : Nat) (nm : Str)
    (h : Inv Q s0 st) (hv : Q v) : Inv Q s0 (setName st v nm) := by
  unfold setName
  exact inv_payload v _ h hv (fun _ => ⟨rfl, rfl⟩)

theorem inv_step {Q : Nat → Prop} {s0 st : Store} (op : Op) (h : Inv Q s0 st)
    (ha : ∀ a ∈ op.args, Q a) : Inv Q s0 (step st op) := by
  cases op with
  | setParent v p =>
    cases p with
    | none => exact inv_setParent v none h (ha v (by simp [Op.args])) (fun _ e => by cases e)
    | some q =>
      refine inv_setParent v (some q) h (ha v (by simp [Op.args])) (fun q' e => ?_)
      cases e
      exact ha q (by simp [Op.args])
  | delChildren v => exact inv_delChildren v h (ha v (by simp [Op.args]))
  | setAttr v k x => exact inv_setAttr v k x h (ha v (by simp [Op.args]))
  | setName v nm => exact inv_setName v nm h (ha v (by simp [Op.args]))

theorem inv_run {Q : Nat → Prop} {s0 : Store} :
    ∀ (ops : List Op) (st : Store), Inv Q s0 st → (∀ op ∈ ops, ∀ a ∈ op.args, Q a) →
      Inv Q s0 (run st ops)
  | [], _, h, _ => h
  | op :: ops, st, h, ha => by
    unfold run
    rw [List.foldl_cons]
    exact inv_run ops (step st op) (inv_step op h (ha op List.mem_cons_self))
      (fun o ho => ha o (List.mem_cons_of_mem _ ho))

/-! ## sizes -/

theorem n_setParent (s : Store) (v : Nat) (p : Option Nat) : (setParent s v p).n = s.n := by
  unfold setParent
  cases s.cell? v with
  | none => rfl
  | some cv =>
    rcases cv with ⟨par, chs, nm, av⟩
    cases p with
    | none => cases par <;> simp
    | some q =>
      simp only
      split
      · rfl
      · cases par <;> simp

/-! ## the two sides of `Sep` -/

theorem inv_hi_of_sep {s : Store} {k : Nat} (h : Sep s k) : Inv (k ≤ ·) s s :=
  Inv.refl ((sep_iff_ge s k).1 h)

theorem inv_lo_of_sep {s : Store} {k : Nat} (h : Sep s k) : Inv (· < k) s s :=
  Inv.refl ((sep_iff_lt s k).1 h)

theorem Inv.hi {s0 st : Store} {k : Nat} (h : Inv (k ≤ ·) s0 st) :
    Sep st k ∧ ∀ i, i < k → st.cell? i = s0.cell? i :=
  ⟨(sep_iff_ge st k).2 h.1, fun i hi => h.2 i (by omega)⟩

theorem Inv.lo {s0 st : Store} {k : Nat} (h : Inv (· < k) s0 st) :
    Sep st k ∧ ∀ i, k ≤ i → st.cell? i = s0.cell? i :=
  ⟨(sep_iff_lt st k).2 h.1, fun i hi => h.2 i (by omega)⟩

theorem Inv.trans_frame {Q : Nat → Prop} {s0 s1 st : Store} (h : Inv Q s1 st)
    (h0 : ∀ i, ¬ Q i → s1.cell? i = s0.cell? i) : Inv Q s0 st :=
  ⟨h.1, fun i hi => (h.2 i hi).trans (h0 i hi)⟩

/-! ## alloc and deepCopy -/

theorem alloc_cell_lt (s : Store) (nm : Str) (a : Attrs) (i : Nat) (h : i < s.n) :
    (alloc s nm a).1.cell? i = s.cell? i := by
  simp only [alloc, Store.cell?]
  exact List.getElem?_append_left h

theorem alloc_cell_n (s : Store) (nm : Str) (a : Attrs) :
    (alloc s nm a).1.cell? s.n = some ⟨none, [], nm, a⟩ := by
  simp [alloc, Store.cell?, Store.n]

theorem alloc_n (s : Store) (nm : Str) (a : Attrs) : (alloc s nm a).1.n = s.n + 1 := by
  simp [alloc, Store.n]

theorem alloc_snd (s : Store) (nm : Str) (a : Attrs) : (alloc s nm a).2 = s.n := rfl

/-- allocation on the `Q` side -/
theorem inv_alloc {Q : Nat → Prop} {s0 st : Store} (nm : Str) (a : Attrs)
    (h : Inv Q s0 st) (hn : ∀ i, st.n ≤ i → Q i) : Inv Q s0 (alloc st nm a).1 := by
  refine ⟨fun i c hc => ?_, fun i hi => ?_⟩
  · have hlt := Store.cell?_lt _ _ _ hc
    rw [alloc_n] at hlt
    by_cases e : i < st.n
    · rw [alloc_cell_lt _ _ _ _ e] at hc
      exact h.1 i c hc
    · have e' : i = st.n := by omega
      subst e'
      rw [alloc_cell_n] at hc
      cases hc
      exact ⟨fun p hp => (by cases hp), fun ch hch => (by cases hch)⟩
  · have e : i < st.n := by
      rcases Nat.lt_or_ge i st.n with e | e
      · exact e
      · exact absurd (hn i e) hi
    rw [alloc_cell_lt _ _ _ _ e]
    exact h.2 i hi

theorem deepCopy_n (s : Store) (v : Nat) : (deepCopy s v).1.n = s.n + s.n := by
  simp [deepCopy, Store.n]

theorem deepCopy_snd (s : Store) (v : Nat) : (deepCopy s v).2 = v + s.n := rfl

theorem deepCopy_cell_lo (s : Store) (v i : Nat) (h : i < s.n) :
    (deepCopy s v).1.cell? i = s.cell? i := by
  simp only [deepCopy, Store.cell?]
  exact List.getElem?_append_left h

theorem deepCopy_cell_hi (s : Store) (v j : Nat) :
    (deepCopy s v).1.cell? (j + s.n) = (s.cell? j).map (shiftCell s.n) := by
  simp only [deepCopy, Store.cell?]
  rw [List.getElem?_append_right (by unfold Store.n; omega)]
  simp [Store.n]

/-- every cell of the copy is an old cell or a shifted old cell -/
theorem deepCopy_cell_cases (s : Store) (v i : Nat) (c : Cell) (h : (deepCopy s v).1.cell? i = some c) :
    (i < s.n ∧ s.cell? i = some c) ∨
    (∃ j c0, i = j + s.n ∧ s.cell? j = some c0 ∧ c = shiftCell s.n c0) := by
  by_cases e : i < s.n
  · left; rw [deepCopy_cell_lo _ _ _ e] at h; exact ⟨e, h⟩
  · right
    have : i = (i - s.n) + s.n := by omega
    rw [this, deepCopy_cell_hi] at h
    cases hc : s.cell? (i - s.n) with
    | none => rw [hc] at h; cases h
    | some c0 =>
      rw [hc] at h
      simp only [Option.map_some, Option.some.injEq] at h
      exact ⟨i - s.n, c0, this, hc, h.symm⟩

theorem sep_deepCopy (s : Store) (v k : Nat) (hs : Sep s k) (hk : k ≤ s.n) :
    Sep (deepCopy s v).1 k := by
  intro i c hc
  rcases deepCopy_cell_cases s v i c hc with ⟨_, h0⟩ | ⟨j, c0, rfl, _, rfl⟩
  · exact hs i c h0
  · refine ⟨fun p hp => ?_, fun ch hch => ?_⟩
    · simp only [shiftCell, Option.map_eq_some_iff] at hp
      rcases hp with ⟨p0, _, rfl⟩
      omega
    · simp only [shiftCell, List.mem_map] at hch
      rcases hch with ⟨c1, _, rfl⟩
      omega

theorem closed_sep (s : Store) (hc : Closed s) : Sep s s.n := by
  intro i c h
  have hi := Store.cell?_lt _ _ _ h
  refine ⟨fun p hp => ?_, fun ch hch => ?_⟩
  · have := (hc i c h).1 p hp; omega
  · have := (hc i c h).2 ch hch; omega

theorem closed_deepCopy (s : Store) (v : Nat) (hc : Closed s) : Closed (deepCopy s v).1 := by
  intro i c h
  rw [deepCopy_n]
  rcases deepCopy_cell_cases s v i c h with ⟨_, h0⟩ | ⟨j, c0, rfl, h0, rfl⟩
  · refine ⟨fun p hp => ?_, fun ch hch => ?_⟩
    · have := (hc i c h0).1 p hp; omega
    · have := (hc i c h0).2 ch hch; omega
  · refine ⟨fun p hp => ?_, fun ch hch => ?_⟩
    · simp only [shiftCell, Option.map_eq_some_iff] at hp
      rcases hp with ⟨p0, hp0, rfl⟩
      have := (hc j c0 h0).1 p0 hp0; omega
    · simp only [shiftCell, List.mem_map] at hch
      rcases hch with ⟨c1, hc1, rfl⟩
      have := (hc j c0 h0).2 c1 hc1; omega

/-! ## `toTree` of the copy -/

theorem shiftIdsL_eq_map (k : Nat) : ∀ ts : List Tree, shiftIdsL k ts = ts.map (shiftIds k)
  | [] => by simp [shiftIdsL]
  | t :: ts => by simp [shiftIdsL, shiftIdsL_eq_map k ts]

theorem toTree_deepCopy (s : Store) (v0 : Nat) :
    ∀ f v, toTree (deepCopy s v0).1 f (v + s.n) = shiftIds s.n (toTree s f v)
  | 0, v => by simp [toTree, shiftIds, shiftIdsL]
  | f + 1, v => by
    simp only [toTree]
    rw [deepCopy_cell_hi]
    cases hc : s.cell? v with
    | none => simp [shiftIds, shiftIdsL]
    | some c =>
      simp only [Option.map_some, shiftIds, shiftIdsL_eq_map, shiftCell, List.map_map]
      congr 1
      apply List.map_congr_left
      intro ch _
      exact toTree_deepCopy s v0 f ch

/-! ## a Boolean checker for `Closed` -/

def closedB (s : Store) : Bool :=
  s.cells.all fun c =>
    (match c.parent with
      | none => true
      | some p => decide (p < s.n)) && c.children.all fun ch => decide (ch < s.n)

theorem closed_of_closedB (s : Store) (h : closedB s = true) : Closed s := by
  intro i c hc
  unfold closedB at h
  rw [List.all_eq_true] at h
  have := h c (List.mem_of_getElem? hc)
  simp only [Bool.and_eq_true, List.all_eq_true, decide_eq_true_eq] at this
  refine ⟨fun p hp => ?_, this.2⟩
  have h1 := this.1
  rw [hp] at h1
  simpa using h1

end CopyStore
