import BigtreeModel.Search
import BigtreeProofs.Lemmas.QueryAddr
import BigtreeProofs.Lemmas.QueryPre
import BigtreeProofs.Lemmas.QueryProps
import BigtreeProofs.Lemmas.SearchStr
/-! Helper lemmas for C09: findall / find / children / full path / relative path. -/

namespace Query

/-! ### every node of a tree has one address -/

theorem locsL_head_ge (k : Nat) (ts : List Tree) : ∀ x ∈ locsL k ts, ∃ j y, k ≤ j ∧ x = j :: y := by
  induction ts generalizing k with
  | nil => intro x hx; simp [locsL] at hx
  | cons t ts ih =>
    intro x hx
    rw [locsL_cons, List.mem_append] at hx
    rcases hx with hx | hx
    · rcases List.mem_map.1 hx with ⟨y, _, rfl⟩
      exact ⟨k, y, Nat.le_refl _, rfl⟩
    · rcases ih (k + 1) x hx with ⟨j, y, hj, rfl⟩
      exact ⟨j, y, by omega, rfl⟩

theorem locsL_nodup_of (ts : List Tree) (ih : ∀ t ∈ ts, (locs t).Nodup) : ∀ k, (locsL k ts).Nodup := by
  induction ts with
  | nil => intro k; simp [locsL]
  | cons t ts iht =>
    intro k
    rw [locsL_cons, List.nodup_append]
    refine ⟨nodup_map_inj (fun x y e => by simpa using e) (ih t (by simp)),
      iht (fun t ht => ih t (by simp [ht])) (k + 1), ?_⟩
    intro x hx y hy e
    rcases List.mem_map.1 hx with ⟨x', _, rfl⟩
    rcases locsL_head_ge (k + 1) ts y hy with ⟨j, y', hj, rfl⟩
    simp only [List.cons.injEq] at e
    omega

theorem locs_nodup : ∀ t : Tree, (locs t).Nodup := by
  intro t
  induction t using Tree.ind with
  | h i n a cs ih =>
    rw [locs_node, List.nodup_cons]
    exact ⟨fun h => locsL_ne_nil 0 cs [] h rfl, locsL_nodup_of cs ih 0⟩

theorem subtreeLocs_nodup (R : Tree) (a : Addr) : (subtreeLocs R a).Nodup := by
  unfold subtreeLocs
  cases sub R a with
  | none => simp
  | some t => exact nodup_map_inj (fun x y e => List.append_cancel_left e) (locs_nodup t)

/-- the members of `subtreeLocs R a` are exactly the valid addresses extending `a` -/
theorem mem_locs_iff : ∀ (t : Tree) (x : Addr), x ∈ locs t ↔ (sub t x).isSome := by
  intro t
  induction t using Tree.ind with
  | h i n a cs ih =>
    intro x
    cases x with
    | nil => simp [locs_node]
    | cons k ks =>
      rw [locs_node, sub_cons]
      simp only [List.mem_cons, reduceCtorEq, false_or, Tree.children_node]
      -- membership in locsL 0 cs with head k
      have key : ∀ (j : Nat) (ts : List Tree), (∀ t ∈ ts, ∀ x, x ∈ locs t ↔ (sub t x).isSome) →
          ((k :: ks) ∈ locsL j ts ↔ j ≤ k ∧ ((ts[k - j]?).bind fun c => sub c ks).isSome) := by
        intro j ts
        induction ts generalizing j with
        | nil => intro _; simp [locsL]
        | cons t ts iht =>
          intro hts
          rw [locsL_cons, List.mem_append, iht (j + 1) (fun t ht => hts t (by simp [ht]))]
          constructor
          · rintro (h | h)
            · rcases List.mem_map.1 h with ⟨y, hy, e⟩
              simp only [List.cons.injEq] at e
              rcases e with ⟨rfl, rfl⟩
              refine ⟨Nat.le_refl _, ?_⟩
              simp only [Nat.sub_self, List.getElem?_cons_zero, Option.bind_some]
              exact (hts t (by simp) y).1 hy
            · refine ⟨by omega, ?_⟩
              have e : k - j = (k - (j + 1)) + 1 := by omega
              rw [e, List.getElem?_cons_succ]
              exact h.2
          · rintro ⟨hjk, h⟩
            by_cases e : j = k
            · subst e
              left
              simp only [Nat.sub_self, List.getElem?_cons_zero, Option.bind_some] at h
              exact List.mem_map.2 ⟨ks, (hts t (by simp) ks).2 h, rfl⟩
            · right
              refine ⟨by omega, ?_⟩
              have e : k - j = (k - (j + 1)) + 1 := by omega
              rw [e, List.getElem?_cons_succ] at h
              exact h
      rw [key 0 cs ih]
      simp

theorem mem_subtreeLocs_iff (R : Tree) (a x : Addr) :
    x ∈ subtreeLocs R a ↔ ∃ y, x = a ++ y ∧ (sub R x).isSome := by
  unfold subtreeLocs
  cases h : sub R a with
  | none =>
    simp only [List.not_mem_nil, false_iff, not_exists, not_and]
    rintro y rfl hs
    have := sub_isSome_of_append hs
    simp [h] at this
  | some t =>
    simp only [List.mem_map, mem_locs_iff]
    constructor
    · rintro ⟨y, hy, rfl⟩
      exact ⟨y, rfl, by simpa [sub_append, h] using hy⟩
    · rintro ⟨y, rfl, hs⟩
      exact ⟨y, by simpa [sub_append, h] using hs, rfl⟩

end Query

namespace Search
open Query

/-! ### findall / find -/

theorem searched_eq (R : Tree) (a : Addr) (md : Nat) :
    searched R a md = (subtreeLocs R a).filter (within md) := rfl

theorem preorderFrom_eq_searched (R : Tree) (a : Addr) (cond : Addr → Bool) (md : Nat) :
    preorderFrom R cond md a = (searched R a md).filter cond := by
  rw [preorderFrom_eq, searched_eq, List.filter_filter]
  apply List.filter_congr
  intro x _
  exact Bool.and_comm _ _

theorem checkResultCount_eq (n mn mx : Nat) :
    checkResultCount n mn mx =
      if (mn ≠ 0 ∧ n < mn) ∨ (mx ≠ 0 ∧ n > mx) then .error .search else .ok () := by
  unfold checkResultCount
  by_cases h1 : mn ≠ 0 ∧ n < mn
  · simp [h1]
  · by_cases h2 : mx ≠ 0 ∧ n > mx
    · have : ¬ (mn != 0 && decide (n < mn)) = true := by simpa using h1
      simp only [this, h2]
      simp [h2]
    · have e1 : ¬ (mn != 0 && decide (n < mn)) = true := by simpa using h1
      have e2 : ¬ (mx != 0 && decide (n > mx)) = true := by simpa using h2
      simp [e1, e2, h1, h2]

theorem findall_eq_spec (R : Tree) (a : Addr) (cond : Addr → Bool) (md mn mx : Nat) :
    findall R a cond md mn mx =
      if (mn ≠ 0 ∧ ((searched R a md).filter cond).length < mn)
          ∨ (mx ≠ 0 ∧ ((searched R a md).filter cond).length > mx)
      then .error .search else .ok ((searched R a md).filter cond) := by
  unfold findall
  simp only [preorderFrom_eq_searched, checkResultCount_eq]
  by_cases h : (mn ≠ 0 ∧ ((searched R a md).filter cond).length < mn)
      ∨ (mx ≠ 0 ∧ ((searched R a md).filter cond).length > mx)
  · rw [if_pos h, if_pos h]
  · rw [if_neg h, if_neg h]

theorem find_eq_spec (R : Tree) (a : Addr) (cond : Addr → Bool) (md : Nat) :
    find R a cond md =
      match (searched R a md).filter cond with
      | [] => .ok none
      | [x] => .ok (some x)
      | _ :: _ :: _ => .error .search := by
  unfold find
  rw [findall_eq_spec]
  cases h : (searched R a md).filter cond with
  | nil => simp
  | cons x xs =>
    cases xs with
    | nil => simp
    | cons y ys => simp

theorem findChildren_eq_spec (R : Tree) (a : Addr) (cond : Addr → Bool) (mn mx : Nat) :
    findChildren R a cond mn mx =
      if (mn ≠ 0 ∧ ((childrenOf R a).filter cond).length < mn)
          ∨ (mx ≠ 0 ∧ ((childrenOf R a).filter cond).length > mx)
      then .error .search else .ok ((childrenOf R a).filter cond) := by
  unfold findChildren
  simp only [checkResultCount_eq]
  by_cases h : (mn ≠ 0 ∧ ((childrenOf R a).filter cond).length < mn)
      ∨ (mx ≠ 0 ∧ ((childrenOf R a).filter cond).length > mx)
  · rw [if_pos h, if_pos h]
  · rw [if_neg h, if_neg h]

theorem findChild_eq_spec (R : Tree) (a : Addr) (cond : Addr → Bool) :
    findChild R a cond =
      match (childrenOf R a).filter cond with
      | [] => .ok none
      | [x] => .ok (some x)
      | _ :: _ :: _ => .error .search := by
  unfold findChild
  rw [findChildren_eq_spec]
  cases h : (childrenOf R a).filter cond with
  | nil => simp
  | cons x xs =>
    cases xs with
    | nil => simp
    | cons y ys => simp

theorem findChildByName_eq (R : Tree) (a : Addr) (name : Str) :
    findChildByName R a name =
      match childrenNamed R a name with
      | [] => .ok none
      | [x] => .ok (some x)
      | _ :: _ :: _ => .error .search := by
  unfold findChildByName childrenNamed
  exact findChild_eq_spec R a _

/-! ### path_name -/

theorem pathName_eq (R : Tree) (sep : Str) (a : Addr) :
    pathName R sep a = sep ++ join sep (pathNames R a) := by
  unfold pathName pathNames
  simp only [ancestors_eq_spec, self_ancestors_reverse]

theorem pathNames_snoc (R : Tree) (p : Addr) (k : Nat) :
    pathNames R (p ++ [k]) = pathNames R p ++ [(nameAt R (p ++ [k])).getD []] := by
  simp [pathNames, nodePathSpec_snoc]

theorem pathNames_nil (R : Tree) : pathNames R [] = [R.name] := by
  simp [pathNames, nodePathSpec, nameAt]

end Search
