import BigtreeModel.Render
import BigtreeProofs.Lemmas.RenderV
/-! Helper lemmas for C18.print_roundtrip, part 1: what `str_to_tree` reads off one rendered line
(`re.split(...)[-1].lstrip()` gives the name, `.index(name)` gives depth × glyph length). -/
namespace Render

/-! ### scanning: `re.split(...)[-1]` on a rendered line -/

theorem reSplitLast_skip (ps : List Str) : ∀ (k : Nat) (last s : Str), k ≤ s.length →
    reSplitLast ps k last s = reSplitLast ps 0 last (s.drop k)
  | 0, _, _, _ => by simp
  | k + 1, last, [], h => by simp at h
  | k + 1, last, c :: s, h => by
    simp only [reSplitLast, List.drop_succ_cons]
    exact reSplitLast_skip ps k last s (by simpa using h)

/-- no alternative matches at any position inside `a` -/
def NoMatchIn (ps : List Str) (a b : Str) : Prop :=
  ∀ i, i < a.length → ∀ p ∈ ps, p.isPrefixOf ((a ++ b).drop i) = false

theorem reSplitLast_nomatch (ps : List Str) : ∀ (a b last : Str), NoMatchIn ps a b →
    reSplitLast ps 0 last (a ++ b) = reSplitLast ps 0 last b
  | [], _, _, _ => rfl
  | c :: a, b, last, h => by
    have h0 : ps.find? (fun p => !p.isEmpty && p.isPrefixOf (c :: (a ++ b))) = none := by
      rw [List.find?_eq_none]
      intro p hp
      have := h 0 (by simp) p hp
      simp at this
      simp [this]
    simp only [List.cons_append, reSplitLast, h0]
    apply reSplitLast_nomatch ps a b last
    intro i hi p hp
    have := h (i + 1) (by simp; omega) p hp
    simpa using this
end Render

namespace Render

theorem styleOk_lengths {st : Style} (h : styleOk st = true) :
    st.branch.length = st.stem.length ∧ st.stemFinal.length = st.stem.length ∧ 0 < st.stem.length ∧
    st.branch ≠ st.stemFinal := by
  simp only [styleOk, Style.lengthsOk, Bool.and_eq_true, beq_iff_eq, decide_eq_true_eq] at h
  obtain ⟨⟨⟨⟨h1, h2⟩, h3⟩, h4⟩, _⟩ := h
  exact ⟨by omega, by omega, h3, h4⟩

theorem styleOk_window {st : Style} (h : styleOk st = true) {X Y : Str}
    (hX : X = st.stem ∨ X = st.gap) (hY : Y = st.stem ∨ Y = st.gap ∨ Y = st.branch ∨ Y = st.stemFinal)
    {o : Nat} (ho : o < st.stem.length) :
    X.drop o ++ Y.take o ≠ st.branch ∧ X.drop o ++ Y.take o ≠ st.stemFinal := by
  simp only [styleOk, Bool.and_eq_true, List.all_eq_true, List.mem_range] at h
  have := h.2 X (by rcases hX with rfl | rfl <;> simp) Y (by rcases hY with rfl | rfl | rfl | rfl <;> simp) o ho
  simpa using this

theorem gap_length (st : Style) : st.gap.length = st.stem.length := by simp [Style.gap]

/-- if `p` (of length `L`) is a prefix of `u ++ Y ++ rest` where `|u| ≤ L ≤ |u| + |Y|`, it is `u ++ Y.take (L - |u|)` -/
theorem prefix_window {p u Y rest : Str} (h : p.isPrefixOf (u ++ (Y ++ rest)) = true)
    (h1 : u.length ≤ p.length) (h2 : p.length ≤ u.length + Y.length) :
    p = u ++ Y.take (p.length - u.length) := by
  rw [List.isPrefixOf_iff_prefix] at h
  have := List.prefix_iff_eq_take.mp h
  have e : (u ++ (Y ++ rest)).take p.length = u ++ Y.take (p.length - u.length) := by
    rw [List.take_append, List.take_of_length_le h1, List.take_append]
    have : p.length - u.length - Y.length = 0 := by omega
    simp [this]
  rw [e] at this
  exact this

/-- scanning across one indentation block finds no connector -/
theorem block_nomatch {st : Style} (h : styleOk st = true) {X Y : Str}
    (hX : X = st.stem ∨ X = st.gap) (hY : Y = st.stem ∨ Y = st.gap ∨ Y = st.branch ∨ Y = st.stemFinal)
    (rest : Str) : NoMatchIn [st.branch, st.stemFinal] X (Y ++ rest) := by
  obtain ⟨lb, lf, lpos, _⟩ := styleOk_lengths h
  have lX : X.length = st.stem.length := by rcases hX with rfl | rfl <;> simp [gap_length]
  have lY : Y.length = st.stem.length := by rcases hY with rfl | rfl | rfl | rfl <;> simp [gap_length, lb, lf]
  intro i hi p hp
  rw [lX] at hi
  have w := styleOk_window h hX hY hi
  cases hc : p.isPrefixOf ((X ++ (Y ++ rest)).drop i) with
  | false => rfl
  | true =>
  exfalso
  rw [List.drop_append_of_le_length (by omega)] at hc
  have lp : p.length = st.stem.length := by
    simp at hp; rcases hp with rfl | rfl <;> assumption
  have := prefix_window hc (by simp; omega) (by simp; omega)
  have e : p.length - (X.drop i).length = i := by simp; omega
  rw [e] at this
  simp at hp
  rcases hp with rfl | rfl
  · exact w.1 this.symm
  · exact w.2 this.symm
end Render

namespace Render

theorem glyph_cases (st : Style) (b : Bool) : st.glyph b = st.stem ∨ st.glyph b = st.gap := by
  cases b <;> simp [Style.glyph]

theorem fill_cases (st : Style) (b : Bool) : st.fill b = st.branch ∨ st.fill b = st.stemFinal := by
  cases b <;> simp [Style.fill]

theorem scan_pre {st : Style} (h : styleOk st = true) (hr : Bool) (name last : Str) :
    ∀ anc : List Bool,
    reSplitLast [st.branch, st.stemFinal] 0 last ((anc.map st.glyph).flatten ++ (st.fill hr ++ name)) =
      reSplitLast [st.branch, st.stemFinal] 0 last (st.fill hr ++ name)
  | [] => by simp
  | [b] => by
    simp only [List.map_cons, List.map_nil, List.flatten_cons, List.flatten_nil, List.append_nil]
    exact reSplitLast_nomatch _ _ _ _
      (block_nomatch h (glyph_cases st b) (by rcases fill_cases st hr with e | e <;> simp [e]) name)
  | b :: b' :: anc => by
    have ih := scan_pre h hr name last (b' :: anc)
    simp only [List.map_cons, List.flatten_cons, List.append_assoc] at ih ⊢
    rw [reSplitLast_nomatch _ _ _ _
      (block_nomatch h (glyph_cases st b) (by rcases glyph_cases st b' with e | e <;> simp [e]) _)]
    exact ih

theorem isPrefixOf_self_append (a b : Str) : a.isPrefixOf (a ++ b) = true := by
  rw [List.isPrefixOf_iff_prefix]; exact List.prefix_append a b

theorem isPrefixOf_same_length {a b r : Str} (hl : a.length = b.length) (hne : a ≠ b) :
    a.isPrefixOf (b ++ r) = false := by
  cases h : a.isPrefixOf (b ++ r) with
  | false => rfl
  | true =>
    exfalso
    have := prefix_window (u := []) (Y := b) (rest := r) (by simpa using h) (by simp) (by simp; omega)
    simp [hl] at this
    exact hne this

/-- scanning the name finds nothing when neither connector occurs in it -/
theorem name_nomatch {st : Style} : ∀ (n : Str), hasInfix st.branch n = false → hasInfix st.stemFinal n = false →
    NoMatchIn [st.branch, st.stemFinal] n []
  | [], _, _ => by intro i hi; simp at hi
  | c :: n, h1, h2 => by
    simp only [hasInfix, Bool.or_eq_false_iff] at h1 h2
    have ih := name_nomatch n h1.2 h2.2
    intro i hi p hp
    cases i with
    | zero =>
      simp at hp ⊢
      rcases hp with rfl | rfl
      · exact h1.1
      · exact h2.1
    | succ i =>
      have := ih i (by simpa using hi) p hp
      simpa using this

theorem nameOk_parts {st : Style} {n : Str} (h : nameOk st n = true) :
    ∃ c tl, n = c :: tl ∧ pySpace c = false ∧ c ∉ st.stem ∧ c ∉ st.branch ∧ c ∉ st.stemFinal ∧ c ≠ ' ' ∧
      hasInfix st.branch n = false ∧ hasInfix st.stemFinal n = false := by
  match n, h with
  | c :: tl, h =>
    simp only [nameOk, Bool.and_eq_true, Bool.not_eq_true', List.contains_eq_mem, List.mem_append,
      List.mem_singleton, decide_eq_false_iff_not, not_or] at h
    obtain ⟨⟨⟨h1, h2⟩, h3⟩, h4⟩ := h
    exact ⟨c, tl, rfl, h1, h2.1.1.1, h2.1.1.2, h2.1.2, h2.2, h3, h4⟩

/-- `node_name` of a rendered line is the node's name -/
theorem nodeName_line {st : Style} (h : styleOk st = true) (anc : List Bool) (hr : Bool) {n : Str}
    (hn : nameOk st n = true) :
    nodeName [st.branch, st.stemFinal] ((anc.map st.glyph).flatten ++ st.fill hr ++ n) = n := by
  obtain ⟨lb, lf, lpos, hne⟩ := styleOk_lengths h
  obtain ⟨c, tl, rfl, hsp, _, _, _, _, i1, i2⟩ := nameOk_parts hn
  have hfill : ∀ last, reSplitLast [st.branch, st.stemFinal] 0 last (st.fill hr ++ c :: tl) = c :: tl := by
    intro last
    have hpos : 0 < (st.fill hr).length := by rcases fill_cases st hr with e | e <;> simp [e, lb, lf, lpos]
    obtain ⟨f0, ft, hf⟩ : ∃ f0 ft, st.fill hr = f0 :: ft := by
      match hh : st.fill hr with
      | [] => simp [hh] at hpos
      | f0 :: ft => exact ⟨f0, ft, rfl⟩
    have hfind : [st.branch, st.stemFinal].find? (fun p => !p.isEmpty && p.isPrefixOf (st.fill hr ++ c :: tl)) = some (st.fill hr) := by
      have nb : st.branch.isEmpty = false := by
        cases hb : st.branch with
        | nil => simp [hb] at lb; omega
        | cons _ _ => rfl
      have nf : st.stemFinal.isEmpty = false := by
        cases hb : st.stemFinal with
        | nil => simp [hb] at lf; omega
        | cons _ _ => rfl
      cases hr with
      | true => simp [Style.fill, List.find?, nb, isPrefixOf_self_append]
      | false =>
        simp only [Style.fill, List.find?, Bool.false_eq_true, ↓reduceIte, nb, nf, Bool.not_false, Bool.true_and,
          isPrefixOf_self_append]
        rw [isPrefixOf_same_length (by omega) hne]
    have : reSplitLast [st.branch, st.stemFinal] 0 last (f0 :: (ft ++ c :: tl)) =
        reSplitLast [st.branch, st.stemFinal] ((st.fill hr).length - 1) ((f0 :: (ft ++ c :: tl)).drop (st.fill hr).length) (ft ++ c :: tl) := by
      rw [reSplitLast]
      rw [hf, List.cons_append] at hfind
      rw [hfind, hf]
    rw [hf, List.cons_append, this]
    rw [reSplitLast_skip _ _ _ _ (by simp [hf])]
    have e1 : (f0 :: (ft ++ c :: tl)).drop (st.fill hr).length = c :: tl := by simp [hf]
    have e2 : (ft ++ c :: tl).drop ((st.fill hr).length - 1) = c :: tl := by simp [hf]
    rw [e1, e2]
    have := reSplitLast_nomatch [st.branch, st.stemFinal] (c :: tl) [] (c :: tl) (name_nomatch _ i1 i2)
    simpa [reSplitLast] using this
  unfold nodeName
  simp only [List.isEmpty_cons, Bool.false_eq_true, ↓reduceIte, List.append_assoc]
  rw [scan_pre h, hfill]
  simp [lstrip, List.dropWhile, hsp]
end Render

namespace Render

theorem isPrefixOf_refl' (a : Str) : a.isPrefixOf a = true := by
  simp

/-- the first occurrence of the name is where the name starts, when its first character occurs nowhere before -/
theorem indexOf_after (c : Char) (tl : Str) : ∀ (a : Str), c ∉ a → indexOf (c :: tl) (a ++ c :: tl) = some a.length
  | [], _ => by
    simp only [List.nil_append, indexOf, isPrefixOf_refl', ↓reduceIte, List.length_nil]
  | x :: a, h => by
    simp only [List.mem_cons, not_or] at h
    have hx : ((c :: tl).isPrefixOf (x :: (a ++ c :: tl))) = false := by
      simp [List.isPrefixOf, h.1]
    simp only [List.cons_append, indexOf, hx, Bool.false_eq_true, ↓reduceIte, indexOf_after c tl a h.2,
      Option.map_some, List.length_cons]

theorem not_mem_glyphs {st : Style} {c : Char} (h1 : c ∉ st.stem) (h2 : c ≠ ' ') :
    ∀ anc : List Bool, c ∉ (anc.map st.glyph).flatten
  | [] => by simp
  | b :: anc => by
    have ih := not_mem_glyphs h1 h2 anc
    simp only [List.map_cons, List.flatten_cons, List.mem_append, not_or]
    refine ⟨?_, ih⟩
    cases b
    · simp [Style.glyph, Style.gap]; intro _; exact h2
    · simpa [Style.glyph] using h1

theorem indexOf_line {st : Style} (h : styleOk st = true) (anc : List Bool) (hr : Bool) {n : Str}
    (hn : nameOk st n = true) :
    indexOf n ((anc.map st.glyph).flatten ++ st.fill hr ++ n) = some ((anc.length + 1) * st.stem.length) := by
  obtain ⟨lb, lf, lpos, hne⟩ := styleOk_lengths h
  obtain ⟨c, tl, rfl, hsp, m1, m2, m3, m4, i1, i2⟩ := nameOk_parts hn
  have hnot : c ∉ (anc.map st.glyph).flatten ++ st.fill hr := by
    simp only [List.mem_append, not_or]
    refine ⟨not_mem_glyphs m1 m4 anc, ?_⟩
    cases hr <;> simp [Style.fill, m2, m3]
  rw [indexOf_after c tl _ hnot]
  congr 1
  have lfill : (st.fill hr).length = st.stem.length := by cases hr <;> simp [Style.fill, lb, lf]
  have := glyphs_length st anc
  rw [List.length_append, this, lfill, Nat.add_mul]; omega
end Render
