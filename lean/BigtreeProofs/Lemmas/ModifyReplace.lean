import BigtreeProofs.Lemmas.ModifyEdit
/-!
# C08 helper lemmas: `replace_logic` — the child list of the destination's parent
-/
namespace Modify

variable {cfg : Cfg} {c : Char}

/-- what is observed of a child: name, object identity, attributes -/
def ent (x : Tree) : Str × Nat × Attrs := (x.name, x.id, x.attrs)

/-! ### `modifyAt` composes -/

theorem mapChild_mapChild (n : Str) (f g : Tree → Tree) (hg : ∀ x, (g x).name = x.name) (cs : List Tree) :
    mapChild n f (mapChild n g cs) = mapChild n (f ∘ g) cs := by
  induction cs with
  | nil => rfl
  | cons x cs ih =>
    by_cases hx : x.name = n
    · simp [mapChild, hx, hg]
    · have hx' : (x.name == n) = false := by simpa using hx
      simp [mapChild, hx', ih]

theorem modifyAt_modifyAt (p : List Str) (f g : Tree → Tree) (hg : ∀ x, (g x).name = x.name) (t : Tree) :
    modifyAt p f (modifyAt p g t) = modifyAt p (f ∘ g) t := by
  induction p generalizing t with
  | nil => rfl
  | cons n p ih =>
    cases t with
    | node i nm a cs =>
      simp only [modifyAt]
      rw [mapChild_mapChild n _ _ (fun x => modifyAt_name _ _ hg x)]
      congr 1
      have : (modifyAt p f ∘ modifyAt p g) = modifyAt p (f ∘ g) := funext (fun x => ih x)
      rw [this]

/-! ### re-appending children by name -/

/-- `_node.parent = None; _node.parent = parent` on the child list -/
def reappendKid (nm : Str) (cs : List Tree) : List Tree :=
  match findChild nm cs with
  | none => cs
  | some x => eraseChild nm cs ++ [x]

def reappendKids : List Str → List Tree → List Tree
  | [], cs => cs
  | n :: ns, cs => reappendKids ns (reappendKid n cs)

def reappendFn (nm : Str) (P : Tree) : Tree := setKids (reappendKid nm P.children) P

theorem reappend_eq (pp : List Str) (nm : Str) (t : Tree) :
    reappend pp nm t = modifyAt pp (reappendFn nm) t := by
  unfold reappend
  congr 1
  funext P
  unfold reappendFn reappendKid
  cases P with
  | node i n a cs =>
    simp only [Tree.children_node]
    cases findChild nm cs <;> simp [setKids]

theorem reappendFn_name (nm : Str) (P : Tree) : (reappendFn nm P).name = P.name := by
  simp [reappendFn]

theorem reappendAll_eq (pp : List Str) (ns : List Str) (t : Tree) :
    reappendAll pp ns t = modifyAt pp (fun P => setKids (reappendKids ns P.children) P) t := by
  induction ns generalizing t with
  | nil =>
    simp only [reappendAll, reappendKids]
    have : (fun P : Tree => setKids P.children P) = id := by
      funext P; cases P; rfl
    rw [this]
    clear this
    induction pp generalizing t with
    | nil => rfl
    | cons n p ih =>
      cases t with
      | node i nm a cs =>
        simp only [modifyAt]
        have : modifyAt p id = id := funext (fun x => (ih x).symm)
        rw [this]
        congr 1
        induction cs with
        | nil => rfl
        | cons x cs ihc => simp only [mapChild]; split <;> simp [← ihc]
  | cons n ns ih =>
    simp only [reappendAll, reappendKids]
    rw [ih, reappend_eq, modifyAt_modifyAt _ _ _ (reappendFn_name n)]
    congr 1
    funext P
    cases P
    simp [reappendFn, setKids]

/-- re-appending the block `A` (distinct names) moves it behind whatever followed it -/
theorem reappendKids_block (X A Y : List Tree) (hnd : ((X ++ A ++ Y).map Tree.name).Nodup) :
    reappendKids (A.map Tree.name) (X ++ A ++ Y) = X ++ Y ++ A := by
  induction A generalizing Y with
  | nil => simp [reappendKids]
  | cons a A ih =>
    simp only [List.map_cons, reappendKids]
    have hsplit : X ++ a :: A ++ Y = X ++ a :: (A ++ Y) := by simp
    have hX : ∀ y ∈ X, y.name ≠ a.name := by
      intro y hy h
      rw [hsplit, List.map_append, List.map_cons, List.nodup_append] at hnd
      exact hnd.2.2 _ (List.mem_map.2 ⟨y, hy, rfl⟩) _ (by simp) h
    have h1 : reappendKid a.name (X ++ a :: A ++ Y) = X ++ A ++ (Y ++ [a]) := by
      unfold reappendKid
      rw [hsplit, findChild_of_split hX rfl, eraseChild_split hX rfl]
      simp
    rw [h1, ih (Y ++ [a])]
    · simp
    · have : ((X ++ A ++ (Y ++ [a])).map Tree.name).Perm ((X ++ a :: A ++ Y).map Tree.name) := by
        apply List.Perm.map
        rw [hsplit]
        simp only [List.append_assoc]
        apply List.Perm.append_left
        refine List.Perm.trans ?_ (List.perm_middle (l₁ := []) |>.symm)
        simp only [List.nil_append]
        rw [← List.append_assoc]
        exact (List.perm_append_singleton a (A ++ Y))
      exact this.nodup_iff.2 hnd

/-- the siblings that follow the child called `d` -/
theorem laterNames_split {d : Str} {l r : List Tree} {x : Tree} (hl : ∀ y ∈ l, y.name ≠ d)
    (hx : x.name = d) : laterNames d (l ++ x :: r) = r.map Tree.name := by
  unfold laterNames
  induction l with
  | nil => simp [hx]
  | cons y l ih =>
    have hy : y.name ≠ d := hl y (by simp)
    have hy' : (y.name == d) = false := by simpa using hy
    simp only [List.cons_append, List.dropWhile, hy', Bool.not_false]
    exact ih (fun z hz => hl z (by simp [hz]))

/-! ### reading a node's child list off the entry list -/

/-- the entries of the children of the node at `q`, in sibling order -/
def kidsOf (q : List Str) (l : List Entry) : List Entry :=
  l.filter (fun e => under q e && e.1.length == q.length + 1)

theorem flatL_len1 (cs : List Tree) :
    (flatL cs).filter (fun e => e.1.length == 1) = cs.map (fun x => ([x.name], x.id, x.attrs)) := by
  induction cs with
  | nil => simp
  | cons x cs ih =>
    rw [flatL_cons, List.filter_append, ih, flat_eq x]
    simp only [List.map_cons, List.filter_cons]
    have : ((flatL x.children).map (pre x.name)).filter (fun e => e.1.length == 1) = [] := by
      rw [List.filter_eq_nil_iff]
      intro e he
      obtain ⟨e', he', rfl⟩ := List.mem_map.1 he
      obtain ⟨y, _, e'', _, rfl⟩ := flatL_head he'
      simp [pre]
    simp [pre, this]

theorem kidsOf_getRel {q : List Str} {t P : Tree} (hP : getRel q t = some P) (hu : SibUnique t) :
    kidsOf q (flat t) = P.children.map (fun x => (q ++ [x.name], x.id, x.attrs)) := by
  unfold kidsOf
  have h1 : (flat t).filter (fun e => under q e && e.1.length == q.length + 1)
      = ((flat t).filter (under q)).filter (fun e => e.1.length == q.length + 1) := by
    rw [List.filter_filter]
    apply List.filter_congr
    intro e _
    rw [Bool.and_comm]
  have h2 : ∀ l : List Entry, (l.map (rebase q)).filter (fun e => e.1.length == q.length + 1)
      = (l.filter (fun e => e.1.length == 1)).map (rebase q) := by
    intro l
    rw [List.filter_map]
    congr 1
    apply List.filter_congr
    intro e _
    simp only [rebase, Function.comp_def, List.length_append]
    by_cases h : e.1.length = 1
    · rw [h]; simp
    · have h' : q.length + e.1.length ≠ q.length + 1 := by omega
      have a1 : (q.length + e.1.length == q.length + 1) = false := by simpa using h'
      have a2 : (e.1.length == 1) = false := by simpa using h
      rw [a1, a2]
  rw [h1, flat_filter_under hP hu, h2, flat_eq P]
  simp only [List.filter_cons, List.length_nil]
  have h0 : ((0 : Nat) == 1) = false := rfl
  simp only [h0, Bool.false_eq_true, if_false]
  rw [flatL_len1, List.map_map]
  apply List.map_congr_left
  intro x _
  simp [rebase]

end Modify

namespace Modify

variable {cfg : Cfg} {c : Char}

theorem findChild_eraseChild_ne {n m : Str} (hnm : m ≠ n) (cs : List Tree) :
    findChild m (eraseChild n cs) = findChild m cs := by
  induction cs with
  | nil => rfl
  | cons x cs ih =>
    by_cases hx : x.name = n
    · have hxm : (n == m) = false := by
        have : n ≠ m := fun h => hnm h.symm
        simpa using this
      simp only [eraseChild, hx, beq_self_eq_true, if_true, findChild, List.find?_cons, hxm]
    · have hx' : (x.name == n) = false := by simpa using hx
      simp only [eraseChild, hx', Bool.false_eq_true, if_false, findChild, List.find?_cons] at ih ⊢
      rw [ih]

theorem findChild_mapChild_ne {n m : Str} (hnm : m ≠ n) (g : Tree → Tree)
    (hg : ∀ x, (g x).name = x.name) (cs : List Tree) :
    findChild m (mapChild n g cs) = findChild m cs := by
  induction cs with
  | nil => rfl
  | cons x cs ih =>
    by_cases hx : x.name = n
    · have hxm : (n == m) = false := by
        have : n ≠ m := fun h => hnm h.symm
        simpa using this
      simp only [mapChild, hx, beq_self_eq_true, if_true, findChild, List.find?_cons, hg, hxm]
    · have hx' : (x.name == n) = false := by simpa using hx
      simp only [mapChild, hx', Bool.false_eq_true, if_false, findChild, List.find?_cons] at ih ⊢
      rw [ih]

theorem findChild_mapChild_eq {n : Str} (g : Tree → Tree) (hg : ∀ x, (g x).name = x.name)
    (cs : List Tree) : findChild n (mapChild n g cs) = (findChild n cs).map g := by
  induction cs with
  | nil => rfl
  | cons x cs ih =>
    by_cases hx : x.name = n
    · simp [mapChild, hx, findChild, hg]
    · have hx' : (x.name == n) = false := by simpa using hx
      simp only [mapChild, hx', Bool.false_eq_true, if_false, findChild, List.find?_cons] at ih ⊢
      rw [ih]

/-- detaching the node at `p` does not change the subtree at an address that is neither above
nor below `p` -/
theorem getRel_removeAt_incomparable {p q : List Str} {t : Tree}
    (h1 : p.isPrefixOf q = false) (h2 : q.isPrefixOf p = false) :
    getRel q (removeAt p t) = getRel q t := by
  induction p generalizing q t with
  | nil => simp [List.isPrefixOf] at h1
  | cons n p ih =>
    cases q with
    | nil => simp [List.isPrefixOf] at h2
    | cons m q =>
      cases t with
      | node i nm a cs =>
        by_cases hnm : m = n
        · subst hnm
          have h1' : p.isPrefixOf q = false := by simpa [List.isPrefixOf] using h1
          have h2' : q.isPrefixOf p = false := by simpa [List.isPrefixOf] using h2
          cases p with
          | nil => simp [List.isPrefixOf] at h1'
          | cons n' p' =>
            simp only [removeAt, getRel_cons, Tree.children_node]
            rw [findChild_mapChild_eq _ (fun x => removeAt_name _ x)]
            cases findChild m cs with
            | none => rfl
            | some x => simp only [Option.map_some, Option.bind_some]; exact ih h1' h2'
        · cases p with
          | nil =>
            simp only [removeAt, getRel_cons, Tree.children_node, findChild_eraseChild_ne hnm]
          | cons n' p' =>
            simp only [removeAt, getRel_cons, Tree.children_node]
            rw [findChild_mapChild_ne hnm _ (fun x => removeAt_name _ x)]

theorem kidsOf_filter (q : List Str) (p : Entry → Bool) (l : List Entry) :
    kidsOf q (l.filter p) = (kidsOf q l).filter p := by
  unfold kidsOf
  rw [List.filter_filter, List.filter_filter]
  apply List.filter_congr
  intro e _
  rw [Bool.and_comm]

theorem under_snoc_snoc (q : List Str) (a b : Str) (x : Nat × Attrs) :
    under (q ++ [a]) (q ++ [b], x) = (a == b) := by
  simp only [under]
  by_cases h : a = b
  · subst h; simp [List.isPrefixOf_iff_prefix]
  · have : (a == b) = false := by simpa using h
    rw [this]
    cases h' : (q ++ [a]).isPrefixOf (q ++ [b]) with
    | false => rfl
    | true =>
      rw [List.isPrefixOf_iff_prefix] at h'
      have := h'.sublist.eq_of_length (by simp)
      simp at this; exact absurd this h

theorem map_ent_of_map_ent' (q : List Str) (l1 l2 : List Tree)
    (h : l1.map (fun x => (q ++ [x.name], x.id, x.attrs)) = l2.map (fun x => (q ++ [x.name], x.id, x.attrs))) :
    l1.map ent = l2.map ent := by
  induction l1 generalizing l2 with
  | nil => cases l2 <;> simp_all
  | cons x l1 ih =>
    cases l2 with
    | nil => simp at h
    | cons y l2 =>
      simp only [List.map_cons, List.cons.injEq, Prod.mk.injEq, List.append_cancel_left_eq] at h
      simp only [List.map_cons, List.cons.injEq]
      exact ⟨by simp [ent, h.1.1, h.1.2.1, h.1.2.2], ih l2 h.2⟩

end Modify

namespace Modify

variable {cfg : Cfg} {c : Char}

theorem validReplace_single (hc : cfg.Plain c) (t : Tree) (k : Nat) (fs : Str) (fp tp : List Str)
    (F : Tree) (f : Str) (hfr : FromOK cfg t fs fp F f) (hgt : GoodNames c (t.name :: tp)) :
    validReplace cfg (st0 t k) [(fs, some (pathStr c t.name tp))] = true := by
  unfold validReplace
  simp only [List.map_cons, List.map_nil, List.all_cons, List.all_nil, Bool.and_true, norm,
    hfr.norm, normTo_pathStr hc _ _ hgt, st0_tree, toRootOk_pathStr hc _ _ _ hgt]
  cases hw : cfg.withFullPath with
  | false => simp
  | true => simp [fromRootOk, hfr.root hw]

/-- `shift_and_replace_nodes(tree, [from], [to])` where the from-node is not a later sibling of
the replaced node: the from-node ends up exactly where the replaced node was. -/
theorem replace_core (hc : cfg.Plain c) (hcp : cfg.copy = false) (hdc : cfg.deleteChildren = false)
    (t : Tree) (k : Nat) (fpar tpar : List Str) (f d : Str) (F D P : Tree) (before after : List Tree)
    (hu : SibUnique t)
    (fs : Str) (hfr : FromOK cfg t fs (fpar ++ [f]) F f) (hgt : GoodNames c (t.name :: tpar ++ [d]))
    (hP : getRel tpar t = some P)
    (hsplit : P.children = before ++ D :: after) (hDn : D.name = d)
    (h1 : (fpar ++ [f]).isPrefixOf (tpar ++ [d]) = false)
    (h2 : (tpar ++ [d]).isPrefixOf (fpar ++ [f]) = false)
    (hlater : ∀ y ∈ after, y.name = f → fpar ≠ tpar)
    (hfree : ∀ y ∈ P.children, y.name = f → f = d ∨ fpar = tpar) :
    ∃ t' P' X A, replaceNodes cfg (st0 t k)
        [(fs, some (pathStr c t.name (tpar ++ [d])))] = .ok (st0 t' k) ∧
      getRel tpar t' = some P' ∧ P'.children = X ++ F :: A ∧
      X.map ent = (before.filter (fun x => !(decide (fpar = tpar) && x.name == f))).map ent ∧
      A.map ent = after.map ent := by
  have hfpne : fpar ++ [f] ≠ [] := by simp
  have hF := hfr.found
  have htpne : tpar ++ [d] ≠ [] := by simp
  -- the shape of the parent's child list
  have hPu : SibUnique P := hu.sub hP
  have hnd := hPu.kids
  rw [hsplit] at hnd
  have hbef : ∀ y ∈ before, y.name ≠ d := by
    intro y hy h
    rw [List.map_append, List.map_cons, List.nodup_append] at hnd
    exact hnd.2.2 _ (List.mem_map.2 ⟨y, hy, rfl⟩) _ (by simp [hDn]) h
  have haft : ∀ y ∈ after, y.name ≠ d := names_ne_of_nodup hDn hnd
  have hD : getRel (tpar ++ [d]) t = some D := by
    rw [getRel_append, hP]
    simp only [Option.bind_some, getRel_cons, hsplit, findChild_of_split hbef hDn, getRel_nil]
  -- D detached
  have hsu1 : SibUnique (removeAt (tpar ++ [d]) t) := hu.removeAt
  have hflat1 := flat_removeAt htpne hu
  have hF1 : getRel (fpar ++ [f]) (removeAt (tpar ++ [d]) t) = some F := by
    rw [getRel_removeAt_incomparable h2 h1, hF]
  -- F detached
  have hsu2 : SibUnique (removeAt (fpar ++ [f]) (removeAt (tpar ++ [d]) t)) := hsu1.removeAt
  have hflat2 := flat_removeAt hfpne hsu1
  rw [hflat1] at hflat2
  have hin : (fpar ++ [f]).isPrefixOf tpar = false := by
    cases h : (fpar ++ [f]).isPrefixOf tpar with
    | false => rfl
    | true =>
      have : (fpar ++ [f]).isPrefixOf (tpar ++ [d]) = true := by
        rw [List.isPrefixOf_iff_prefix] at h ⊢
        exact h.trans (List.prefix_append _ _)
      rw [this] at h1; cases h1
  have htpar2 : tpar ∈ paths (removeAt (fpar ++ [f]) (removeAt (tpar ++ [d]) t)) := by
    have hmem : tpar ∈ paths t := (mem_paths_iff hu).2 (by rw [hP]; rfl)
    obtain ⟨e, he, rfl⟩ := List.mem_map.1 hmem
    refine List.mem_map.2 ⟨e, ?_, rfl⟩
    rw [hflat2]
    refine List.mem_filter.2 ⟨List.mem_filter.2 ⟨he, ?_⟩, ?_⟩
    · simp [under, not_prefix_of_longer]
    · simp [under, hin]
  obtain ⟨P2, hP2⟩ := Option.isSome_iff_exists.1 ((mem_paths_iff hsu2).1 htpar2)
  -- its child list, read off the entry lists
  have hk2 := kidsOf_getRel hP2 hsu2
  rw [hflat2, kidsOf_filter, kidsOf_filter, kidsOf_getRel hP hu, hsplit] at hk2
  have hk2' : P2.children.map (fun x => (tpar ++ [x.name], x.id, x.attrs))
      = ((before.filter (fun x => !(decide (fpar = tpar) && x.name == f))) ++ after).map
          (fun x => (tpar ++ [x.name], x.id, x.attrs)) := by
    rw [← hk2, List.filter_map, List.filter_map, List.filter_filter]
    congr 1
    -- the predicate on siblings: not below `to`, not below `from`
    have hpred : ∀ x : Tree, x.name ≠ d →
        (((fun e => !under (fpar ++ [f]) e) ∘ fun x : Tree => (tpar ++ [x.name], x.id, x.attrs)) x &&
         ((fun e => !under (tpar ++ [d]) e) ∘ fun x : Tree => (tpar ++ [x.name], x.id, x.attrs)) x)
          = !(decide (fpar = tpar) && x.name == f) := by
      intro x hx
      simp only [Function.comp_def, under_snoc_snoc]
      have a1 : (d == x.name) = false := by simpa using (Ne.symm hx)
      rw [a1]
      simp only [Bool.not_false, Bool.and_true]
      congr 1
      -- below `from` iff it IS the from-node
      by_cases hpt : fpar = tpar
      · subst hpt
        rw [under_snoc_snoc]
        simp only [decide_true, Bool.true_and]
        by_cases hfx : f = x.name
        · simp [hfx]
        · have b1 : (f == x.name) = false := by simpa using hfx
          have b2 : (x.name == f) = false := by simpa using (Ne.symm hfx)
          rw [b1, b2]
      · have : under (fpar ++ [f]) (tpar ++ [x.name], x.id, x.attrs) = false := by
          cases hh : under (fpar ++ [f]) (tpar ++ [x.name], x.id, x.attrs) with
          | false => rfl
          | true =>
            exfalso
            simp only [under, List.isPrefixOf_iff_prefix] at hh
            obtain ⟨s, hs⟩ := hh
            cases hsl : s.reverse with
            | nil =>
              simp at hsl; subst hsl; simp only [List.append_nil] at hs
              exact hpt (List.append_inj_left' hs rfl)
            | cons z zs =>
              have : s = zs.reverse ++ [z] := by rw [← List.reverse_reverse s, hsl]; simp
              subst this
              rw [← List.append_assoc] at hs
              have := List.append_inj_left' hs rfl
              have hp : (fpar ++ [f]).isPrefixOf tpar = true := by
                rw [List.isPrefixOf_iff_prefix]; exact ⟨zs.reverse, this⟩
              rw [hp] at hin; cases hin
        rw [this]; simp [hpt]
    have hDq : (((fun e => !under (fpar ++ [f]) e) ∘ fun x : Tree => (tpar ++ [x.name], x.id, x.attrs)) D &&
         ((fun e => !under (tpar ++ [d]) e) ∘ fun x : Tree => (tpar ++ [x.name], x.id, x.attrs)) D) = false := by
      simp only [Function.comp_def, hDn, under_snoc_snoc]
      simp
    rw [List.filter_append, List.filter_cons, hDq]
    simp only [Bool.false_eq_true, if_false]
    congr 1
    · apply List.filter_congr
      intro x hx
      exact hpred x (hbef x hx)
    · rw [List.filter_eq_self]
      intro x hx
      rw [hpred x (haft x hx)]
      by_cases hpt : fpar = tpar
      · have : x.name ≠ f := fun h => hlater x hx h hpt
        simp [this]
      · simp [hpt]
  have hents := map_ent_of_map_ent' tpar _ _ hk2'
  rw [List.map_append] at hents
  obtain ⟨X, A, hXA, hX, hA⟩ := List.map_eq_append_iff.1 hents
  -- no child of the parent is called like the newcomer any more
  have hname_of_ent : ∀ (l1 l2 : List Tree), l1.map ent = l2.map ent → ∀ y ∈ l1, ∃ x ∈ l2, x.name = y.name := by
    intro l1 l2 h y hy
    have : ent y ∈ l2.map ent := h ▸ List.mem_map.2 ⟨y, hy, rfl⟩
    obtain ⟨x, hx, hxe⟩ := List.mem_map.1 this
    exact ⟨x, hx, by simpa [ent] using congrArg Prod.fst hxe⟩
  have hFn : F.name = f := getRel_name hF
  have hnewkid : ∀ y ∈ P2.children, y.name ≠ F.name := by
    intro y hy hyn
    rw [hFn] at hyn
    rw [hXA, List.mem_append] at hy
    rcases hy with hy | hy
    · obtain ⟨x, hx, hxn⟩ := hname_of_ent _ _ hX y hy
      obtain ⟨hxb, hxp⟩ := List.mem_filter.1 hx
      have hxf : x.name = f := hxn.trans hyn
      rcases hfree x (by rw [hsplit]; simp [hxb]) hxf with h | h
      · exact hbef x hxb (hxf.trans h)
      · simp [h, hxf] at hxp
    · obtain ⟨x, hx, hxn⟩ := hname_of_ent _ _ hA y hy
      have hxf : x.name = f := hxn.trans hyn
      rcases hfree x (by rw [hsplit]; simp [hx]) hxf with h | h
      · exact haft x hx (hxf.trans h)
      · exact hlater x hx hxf h
  -- attach, then re-append the later siblings
  have hP3 := getRel_modifyAt_self (f := appendKid F) hP2 (appendKid_name _ _)
  have hsu3 : SibUnique (modifyAt tpar (appendKid F) (removeAt (fpar ++ [f]) (removeAt (tpar ++ [d]) t))) :=
    hsu2.appendAt hP2 (hu.sub hF) hnewkid
  have hlaterN : laterNames d P.children = A.map Tree.name := by
    rw [hsplit, laterNames_split hbef hDn]
    have := congrArg (List.map (fun e : Str × Nat × Attrs => e.1)) hA
    simpa [List.map_map, Function.comp_def, ent] using this.symm
  have hnd3 := (hsu3.sub hP3).kids
  have hkids3 : (appendKid F P2).children = X ++ A ++ [F] := by
    cases P2; simp only [appendKid, Tree.children_node] at hXA ⊢; rw [hXA]
  rw [hkids3] at hnd3
  refine ⟨modifyAt tpar (fun Q => setKids (reappendKids (A.map Tree.name) Q.children) Q)
      (modifyAt tpar (appendKid F) (removeAt (fpar ++ [f]) (removeAt (tpar ++ [d]) t))),
    setKids (reappendKids (A.map Tree.name) (appendKid F P2).children) (appendKid F P2), X, A, ?_,
    getRel_modifyAt_self (f := fun Q => setKids (reappendKids (A.map Tree.name) Q.children) Q) hP3
      (setKids_name _ _), ?_, hX, hA⟩
  · have hgt' : GoodNames c (t.name :: (tpar ++ [d])) := by simpa using hgt
    unfold replaceNodes
    rw [validReplace_single hc t k fs _ _ F f hfr hgt']
    simp only [if_true, List.map_cons, List.map_nil, loopReplace, norm, hfr.norm,
      normTo_pathStr hc _ _ hgt']
    unfold stepReplace
    have hr := resolveFrom_of (st0 t k) hfr
    have hne : (fpar ++ [f] == tpar ++ [d]) = false := by
      cases h : (fpar ++ [f] == tpar ++ [d]) with
      | false => rfl
      | true =>
        have : fpar ++ [f] = tpar ++ [d] := by simpa using h
        rw [this, List.isPrefixOf_iff_prefix.2 (List.prefix_refl _)] at h1; cases h1
    simp only [hr, hc.tsep, findFullPath_pathStr t (tpar ++ [d]) hgt', hD, Option.map_some,
      Option.isNone_none, hne, Bool.and_false, Bool.false_eq_true, if_false, hcp, Bool.not_false,
      Bool.and_true, hdc, parentOf, htpne, List.dropLast_concat, replaceAt, hP, Option.getD_some,
      List.getLast?_concat, hlaterN, hF1, Option.isSome_some, if_true, hin,
      attachOne_ok hP2 hnewkid]
    rw [reappendAll_eq]
  · have hsk : ∀ (cs : List Tree) (X : Tree), (setKids cs X).children = cs := by
      intro cs X; cases X; rfl
    rw [hsk]
    rw [hkids3, reappendKids_block X A [F] hnd3]
    simp

end Modify
