import BigtreeModel.CopyStore
import BigtreeProofs.Lemmas.CopyStoreBasic
/-!
# Histories that also ATTACH fresh nodes (`Node(name, parent=v)`)

A grown node gets a fresh id, so the two sides of a copy can no longer be told apart by a numeric
boundary: a *world* carries the store and the side of every id; a node grown under `v` joins
`v`'s side. `Closed` (every link points into the store) is needed so that the fresh id is not
already referred to; it is preserved by every operation.
-/
namespace CopyStore

/-! ## `Closed` is preserved -/

theorem closed_modify {s : Store} (hc : Closed s) (j : Nat) (f : Cell → Cell)
    (hf : ∀ c, s.cell? j = some c →
      (∀ p, (f c).parent = some p → p < s.n) ∧ (∀ ch ∈ (f c).children, ch < s.n)) :
    Closed (s.modify j f) := by
  intro i c hic
  rw [Store.n_modify]
  rw [Store.cell?_modify] at hic
  by_cases e : j = i
  · subst e
    rw [if_pos rfl] at hic
    cases h0 : s.cell? j with
    | none => simp [h0] at hic
    | some c0 =>
      simp only [h0, Option.map_some, Option.some.injEq] at hic
      subst hic
      exact hf c0 h0
  · rw [if_neg e] at hic
    exact hc i c hic

theorem closed_erase {s : Store} (hc : Closed s) (j v : Nat) :
    Closed (s.modify j fun c => { c with children := c.children.erase v }) :=
  closed_modify hc j _ fun c h0 =>
    ⟨fun p hp => (hc j c h0).1 p hp, fun ch hch => (hc j c h0).2 ch (List.mem_of_mem_erase hch)⟩

theorem closed_parentField {s : Store} (hc : Closed s) (j : Nat) (p : Option Nat)
    (hp : ∀ q, p = some q → q < s.n) :
    Closed (s.modify j fun c => { c with parent := p }) :=
  closed_modify hc j _ fun c h0 => ⟨fun q hq => hp q hq, fun ch hch => (hc j c h0).2 ch hch⟩

theorem closed_append {s : Store} (hc : Closed s) (j v : Nat) (hv : v < s.n) :
    Closed (s.modify j fun c => { c with children := c.children ++ [v] }) :=
  closed_modify hc j _ fun c h0 =>
    ⟨fun p hp => (hc j c h0).1 p hp, fun ch hch => by
      rcases List.mem_append.mp hch with h | h
      · exact (hc j c h0).2 ch h
      · simp at h; omega⟩

theorem closed_payload {s : Store} (hc : Closed s) (j : Nat) (f : Cell → Cell)
    (h1 : ∀ c, (f c).parent = c.parent) (h2 : ∀ c, (f c).children = c.children) :
    Closed (s.modify j f) :=
  closed_modify hc j f fun c h0 =>
    ⟨fun p hp => (hc j c h0).1 p (by rw [← h1]; exact hp), fun ch hch => (hc j c h0).2 ch (by rw [← h2]; exact hch)⟩

theorem closed_setParent {s : Store} (hc : Closed s) (v : Nat) (p : Option Nat) : Closed (setParent s v p) := by
  unfold setParent
  cases hcv : s.cell? v with
  | none => exact hc
  | some cv =>
    have hvn : v < s.n := Store.cell?_lt _ _ _ hcv
    have h1 : Closed (match cv.parent with
        | none => s
        | some cp => s.modify cp fun c => { c with children := c.children.erase v }) := by
      cases cv.parent with
      | none => exact hc
      | some cp => exact closed_erase hc cp v
    have hn1 : (match cv.parent with
        | none => s
        | some cp => s.modify cp fun c => { c with children := c.children.erase v }).n = s.n := by
      cases cv.parent <;> simp
    cases p with
    | none => exact closed_parentField h1 v none (fun q hq => by cases hq)
    | some q =>
      simp only
      split
      · exact hc
      · rename_i hbad
        have hq : q < s.n := by
          cases hcq : s.cell? q with
          | none => simp [hcq] at hbad
          | some cq => exact Store.cell?_lt _ _ _ hcq
        have h2 := closed_parentField h1 v (some q) (fun q' hq' => by cases hq'; rw [hn1]; exact hq)
        exact closed_append h2 q v (by rw [Store.n_modify, hn1]; exact hvn)

theorem closed_dropChild {s : Store} (hc : Closed s) (c : Nat) : Closed (dropChild s c) := by
  unfold dropChild
  cases s.parentOf c with
  | none => exact hc
  | some p =>
    exact closed_parentField (closed_erase hc p c) c none (fun q hq => by cases hq)

theorem closed_foldl (g : Store → Nat → Store) (hg : ∀ s c, Closed s → Closed (g s c)) :
    ∀ (l : List Nat) (s : Store), Closed s → Closed (l.foldl g s)
  | [], _, h => h
  | c :: l, s, h => closed_foldl g hg l (g s c) (hg s c h)

theorem closed_step {s : Store} (hc : Closed s) (op : Op) : Closed (step s op) := by
  cases op with
  | setParent v p => exact closed_setParent hc v p
  | delChildren v => exact closed_foldl dropChild (fun s c h => closed_dropChild h c) _ s hc
  | setAttr v k x => exact closed_payload hc v _ (fun _ => rfl) (fun _ => rfl)
  | setName v nm => exact closed_payload hc v _ (fun _ => rfl) (fun _ => rfl)

theorem closed_alloc {s : Store} (hc : Closed s) (nm : Str) (a : Attrs) : Closed (alloc s nm a).1 := by
  intro i c hic
  rw [alloc_n]
  have hlt := Store.cell?_lt _ _ _ hic
  rw [alloc_n] at hlt
  by_cases e : i < s.n
  · rw [alloc_cell_lt _ _ _ _ e] at hic
    have := hc i c hic
    exact ⟨fun p hp => Nat.lt_succ_of_lt (this.1 p hp), fun ch hch => Nat.lt_succ_of_lt (this.2 ch hch)⟩
  · have e' : i = s.n := by omega
    subst e'
    rw [alloc_cell_n] at hic
    cases hic
    exact ⟨fun p hp => (by cases hp), fun ch hch => (by cases hch)⟩

theorem closed_grow {s : Store} (hc : Closed s) (v : Nat) (nm : Str) : Closed (grow s v nm) :=
  closed_setParent (closed_alloc hc nm []) _ _

theorem n_grow (s : Store) (v : Nat) (nm : Str) : (grow s v nm).n = s.n + 1 := by
  unfold grow; rw [n_setParent, alloc_n]

/-! ## worlds: a store with a side for every id -/

/-- an operation of a history: a mutation, or `Node(nm, parent=v)` -/
inductive HOp where
  | op (o : Op)
  | grow (v : Nat) (nm : Str)

def HOp.args : HOp → List Nat
  | .op o => o.args
  | .grow v _ => [v]

/-- the store and the side of every id (`true` = the copy's side) -/
structure World where
  st : Store
  side : Nat → Bool

/-- a grown node joins the side of the node it is attached to -/
def hstep (w : World) : HOp → World
  | .op o => ⟨step w.st o, w.side⟩
  | .grow v nm => ⟨grow w.st v nm, fun i => if i = w.st.n then w.side v else w.side i⟩

def hrun (w : World) (ops : List HOp) : World := ops.foldl hstep w

/-- every operation of the history has all its node arguments on side `b` at the time it runs -/
def AllOn (b : Bool) : World → List HOp → Prop
  | _, [] => True
  | w, op :: ops => (∀ a ∈ op.args, w.side a = b) ∧ AllOn b (hstep w op) ops

/-- every operation has all its arguments on one side (either one) at the time it runs -/
def EachOneSided : World → List HOp → Prop
  | _, [] => True
  | w, op :: ops => (∃ b, ∀ a ∈ op.args, w.side a = b) ∧ EachOneSided (hstep w op) ops

/-- no link joins the two sides -/
def WSep (w : World) : Prop := SepQ w.st fun i => w.side i = true

theorem sepQ_side (w : World) (b : Bool) (h : WSep w) : SepQ w.st fun i => w.side i = b := by
  cases b
  · intro i c hc
    have := h i c hc
    refine ⟨fun p hp => ?_, fun ch hch => ?_⟩
    · have := this.1 p hp
      cases hi : w.side i <;> cases hp' : w.side p <;> simp_all
    · have := this.2 ch hch
      cases hi : w.side i <;> cases hp' : w.side ch <;> simp_all
  · exact h

theorem wsep_of_side (st : Store) (side : Nat → Bool) (b : Bool) (h : SepQ st fun i => side i = b) :
    WSep ⟨st, side⟩ := by
  cases b
  · intro i c hc
    have := h i c hc
    refine ⟨fun p hp => ?_, fun ch hch => ?_⟩
    · have := this.1 p hp
      cases hi : side i <;> cases hp' : side p <;> simp_all
    · have := this.2 ch hch
      cases hi : side i <;> cases hp' : side ch <;> simp_all
  · exact h

/-- one step: the world stays closed and separated, old ids keep their side, and an operation on
    side `b` leaves every cell of the other side as it was -/
theorem hstep_frame (w : World) (op : HOp) (b : Bool) (hc : Closed w.st) (hs : WSep w)
    (ha : ∀ a ∈ op.args, w.side a = b) :
    Closed (hstep w op).st ∧ WSep (hstep w op) ∧ w.st.n ≤ (hstep w op).st.n
      ∧ (∀ i, i < w.st.n → (hstep w op).side i = w.side i)
      ∧ (∀ i, i < w.st.n → w.side i ≠ b → (hstep w op).st.cell? i = w.st.cell? i) := by
  cases op with
  | op o =>
    have hinv : Inv (fun i => w.side i = b) w.st w.st := Inv.refl (sepQ_side w b hs)
    have h1 := inv_step o hinv ha
    refine ⟨closed_step hc o, wsep_of_side _ _ b h1.1, ?_, fun _ _ => rfl, fun i _ hi => h1.2 i hi⟩
    cases o <;> simp [hstep, step, n_setParent, delChildren, setAttr, setName]
    · rename_i v
      -- delChildren keeps the size
      have : ∀ (l : List Nat) (s : Store), (l.foldl dropChild s).n = s.n := by
        intro l
        induction l with
        | nil => intro s; rfl
        | cons c l ih =>
          intro s
          rw [List.foldl_cons, ih]
          unfold dropChild
          cases s.parentOf c <;> simp
      rw [this]; exact Nat.le_refl _
  | grow v nm =>
    have hv : w.side v = b := ha v (by simp [HOp.args])
    let side' : Nat → Bool := fun i => if i = w.st.n then w.side v else w.side i
    have hQ : SepQ w.st fun i => w.side i = b := sepQ_side w b hs
    -- allocation: the fresh cell is on side b, nothing refers to it
    have h1 : Inv (fun i => side' i = b) w.st (alloc w.st nm []).1 := by
      refine ⟨fun i c hic => ?_, fun i hi => ?_⟩
      · have hlt := Store.cell?_lt _ _ _ hic
        rw [alloc_n] at hlt
        by_cases e : i < w.st.n
        · rw [alloc_cell_lt _ _ _ _ e] at hic
          have hl := hQ i c hic
          have hcl := hc i c hic
          have hi' : side' i = w.side i := by simp [side']; omega
          refine ⟨fun p hp => ?_, fun ch hch => ?_⟩
          · have : side' p = w.side p := by have := hcl.1 p hp; simp [side']; omega
            simp only [hi', this]; exact hl.1 p hp
          · have : side' ch = w.side ch := by have := hcl.2 ch hch; simp [side']; omega
            simp only [hi', this]; exact hl.2 ch hch
        · have e' : i = w.st.n := by omega
          subst e'
          rw [alloc_cell_n] at hic
          cases hic
          exact ⟨fun p hp => (by cases hp), fun ch hch => (by cases hch)⟩
      · have hne : i ≠ w.st.n := by
          intro e; apply hi; simp [side', e, hv]
        rcases Nat.lt_or_ge i w.st.n with e | e
        · exact alloc_cell_lt _ _ _ _ e
        · rw [Store.cell?_ge _ _ e, Store.cell?_ge]
          rw [alloc_n]; omega
    have h2 : Inv (fun i => side' i = b) w.st (grow w.st v nm) := by
      unfold grow
      apply inv_setParent _ _ h1
      · simp [alloc_snd, side', hv]
      · intro q hq
        cases hq
        by_cases e : v = w.st.n
        · simp [side', e, ← hv]
        · simp [side', e, hv]
    refine ⟨closed_grow hc v nm, wsep_of_side _ _ b h2.1, by simp [hstep, n_grow], ?_, ?_⟩
    · intro i hi
      simp [hstep]; omega
    · intro i hi hne
      apply h2.2 i
      have : side' i = w.side i := by simp [side']; omega
      show ¬ (side' i = b)
      rw [this]; exact hne

/-- a history all of whose operations (including the attaching of fresh nodes) act on side `b`
    leaves every cell of the other side exactly as it was -/
theorem hrun_frame (b : Bool) : ∀ (ops : List HOp) (w : World), Closed w.st → WSep w → AllOn b w ops →
    Closed (hrun w ops).st ∧ WSep (hrun w ops) ∧
      ∀ i, i < w.st.n → w.side i ≠ b → (hrun w ops).st.cell? i = w.st.cell? i
  | [], w, hc, hs, _ => ⟨hc, hs, fun _ _ _ => rfl⟩
  | op :: ops, w, hc, hs, ha => by
    obtain ⟨h1, h2, h3, h4, h5⟩ := hstep_frame w op b hc hs ha.1
    obtain ⟨g1, g2, g3⟩ := hrun_frame b ops (hstep w op) h1 h2 ha.2
    refine ⟨g1, g2, fun i hi hne => ?_⟩
    show (hrun (hstep w op) ops).st.cell? i = _
    rw [g3 i (by omega) (by rw [h4 i hi]; exact hne)]
    exact h5 i hi hne

/-- interleaved histories: the world stays closed and separated -/
theorem hrun_sep : ∀ (ops : List HOp) (w : World), Closed w.st → WSep w → EachOneSided w ops →
    Closed (hrun w ops).st ∧ WSep (hrun w ops)
  | [], _, hc, hs, _ => ⟨hc, hs⟩
  | op :: ops, w, hc, hs, ha => by
    obtain ⟨b, hb⟩ := ha.1
    obtain ⟨h1, h2, _⟩ := hstep_frame w op b hc hs hb
    exact hrun_sep ops (hstep w op) h1 h2 ha.2

end CopyStore
