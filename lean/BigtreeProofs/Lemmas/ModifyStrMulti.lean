import BigtreeModel.Modify
import BigtreeProofs.Lemmas.ModifyStep
import BigtreeProofs.Lemmas.StorePathF
/-! C08 for separators of ANY length: the string functions of the modify model (`Modify.splitGo` with the
arguments in another order and an explicit `sep ≠ []` test, `stripL` / `stripR`, a recursive `join`) are the store
model's, so `StorePathF`'s laws carry over: the components `find_full_path` / `add_path_to_tree` walk for a printed
path are the names, and `find_full_path` on a printed path returns the node at that address - for every non-empty
separator sharing no character with a name. -/

namespace Modify

theorem stripL_eq_store (set s : Str) : stripL set s = Store.lstrip set s := rfl

theorem stripR_eq_store (set s : Str) : stripR set s = Store.rstrip set s := rfl

theorem join_eq_store (sep : Str) : ∀ l : List Str, join sep l = Store.join sep l := by
  intro l
  induction l with
  | nil => rfl
  | cons p ps ih =>
    cases ps with
    | nil => rfl
    | cons q qs => rw [join_cons_cons, ih]; rfl

theorem splitGo_eq_store (sep : Str) (hsep : sep ≠ []) : ∀ (s : Str) (k : Nat) (acc : Str),
    splitGo sep s k acc = Store.splitAux sep k s acc := by
  intro s
  induction s with
  | nil => intro k acc; cases k <;> simp [splitGo, Store.splitAux]
  | cons c cs ih =>
    intro k acc
    cases k with
    | succ k => simp only [splitGo, Store.splitAux]; exact ih k acc
    | zero =>
      simp only [splitGo, Store.splitAux]
      by_cases hp : sep.isPrefixOf (c :: cs) = true
      · simp only [hp, hsep, ne_eq, not_false_eq_true, and_self, if_true]
        rw [ih]
      · simp only [hp, hsep, ne_eq, not_false_eq_true, true_and, Bool.false_eq_true, if_false]
        rw [ih]

theorem splitOn_eq_store (sep : Str) (hsep : sep ≠ []) (s : Str) : splitOn sep s = Store.split sep s :=
  splitGo_eq_store sep hsep s 0 []

/-- the components `find_full_path` / `add_path_to_tree` walk for a printed path, for every non-empty separator:
the names, when they are non-empty and share no character with the separator -/
theorem comps_pathName_multi (sp : Str) (hsp : sp ≠ []) (n : Str) (ns : List Str)
    (h : ∀ x ∈ n :: ns, x ≠ [] ∧ Store.Free sp x) :
    splitOn sp (stripL sp (stripR sp (pathName sp (n :: ns)))) = n :: ns := by
  rw [splitOn_eq_store sp hsp, stripL_eq_store, stripR_eq_store]
  have e : pathName sp (n :: ns) = sp ++ Store.join sp (n :: ns) ++ [] := by
    simp [pathName, join_eq_store]
  rw [e, Store.strip_path_multi sp (n :: ns) (by simp) h sp [] (fun x hx => hx) (by simp)]
  exact Store.split_join_multi sp hsp (n :: ns) (by simp) (fun x hx => (h x hx).2)

/-- ... also with further separator characters in front of / behind the printed path -/
theorem comps_pathName_multi' (sp : Str) (hsp : sp ≠ []) (n : Str) (ns : List Str)
    (h : ∀ x ∈ n :: ns, x ≠ [] ∧ Store.Free sp x) (lead trail : Str)
    (hl : ∀ x ∈ lead, x ∈ sp) (ht : ∀ x ∈ trail, x ∈ sp) :
    splitOn sp (stripL sp (stripR sp (lead ++ pathName sp (n :: ns) ++ trail))) = n :: ns := by
  rw [splitOn_eq_store sp hsp, stripL_eq_store, stripR_eq_store]
  have e : lead ++ pathName sp (n :: ns) ++ trail = (lead ++ sp) ++ Store.join sp (n :: ns) ++ trail := by
    simp [pathName, join_eq_store, List.append_assoc]
  have hlead : ∀ x ∈ lead ++ sp, x ∈ sp := by
    intro x hx
    rcases List.mem_append.1 hx with h1 | h1
    · exact hl x h1
    · exact h1
  rw [e, Store.strip_path_multi sp (n :: ns) (by simp) h (lead ++ sp) trail hlead ht]
  exact Store.split_join_multi sp hsp (n :: ns) (by simp) (fun x hx => (h x hx).2)

/-- `find_full_path` on a printed full path (any run of separator characters around it) returns the node at that
address, or nothing when there is none - for every non-empty separator -/
theorem findFullPath_printed_multi (sp : Str) (hsp : sp ≠ []) (t : Tree) (p : List Str)
    (h : ∀ x ∈ t.name :: p, x ≠ [] ∧ Store.Free sp x) (lead trail : Str)
    (hl : ∀ x ∈ lead, x ∈ sp) (ht : ∀ x ∈ trail, x ∈ sp) :
    findFullPath sp t (lead ++ pathName sp (t.name :: p) ++ trail) = .ok ((getRel p t).map (fun x => (p, x))) := by
  unfold findFullPath
  rw [comps_pathName_multi' sp hsp t.name p h lead trail hl ht]
  simp

end Modify
