import Mathlib.Data.List.Nodup
import BigtreeModel.Relation
import BigtreeProofs.Lemmas.PathsAddr
import BigtreeProofs.Lemmas.Nested
/-!
# `*_by_relation`: facts that hold for every input (C13)

* `dedupBy` keeps exactly the elements, once each;
* the root candidates; refusal on a bad root and on an ambiguous repeated non-leaf child;
* whatever `build` returns, the children of every node are the rows naming it as parent, in row
  order, with the row's non-null cells as attributes.
-/

namespace Rel
open Paths

/-! ## `dedupBy` -/

theorem mem_dedupBy {α} [DecidableEq α] (l : List α) (x : α) : x ∈ dedupBy l ↔ x ∈ l := by
  induction l with
  | nil => simp [dedupBy]
  | cons y ys ih =>
    simp only [dedupBy, List.mem_cons, List.mem_filter, ih, decide_eq_true_eq]
    constructor
    · rintro (h | ⟨h, _⟩)
      · exact .inl h
      · exact .inr h
    · rintro (h | h)
      · exact .inl h
      · by_cases hxy : x = y
        · exact .inl hxy
        · exact .inr ⟨h, hxy⟩

theorem nodup_dedupBy {α} [DecidableEq α] (l : List α) : (dedupBy l).Nodup := by
  induction l with
  | nil => simp [dedupBy]
  | cons y ys ih =>
    simp only [dedupBy, List.nodup_cons, List.mem_filter, decide_eq_true_eq]
    exact ⟨fun h => h.2 rfl, ih.filter _⟩

theorem dedupBy_eq_single {α} [DecidableEq α] (l : List α) (x : α) (hne : l ≠ []) (h : ∀ y ∈ l, y = x) :
    dedupBy l = [x] := by
  have hn := nodup_dedupBy l
  have hm : ∀ y, y ∈ dedupBy l ↔ y = x := by
    intro y
    rw [mem_dedupBy]
    constructor
    · exact h y
    · rintro rfl
      cases l with
      | nil => exact absurd rfl hne
      | cons z zs => rw [← h z (by simp)]; simp
  cases hd : dedupBy l with
  | nil => have := (hm x).mpr rfl; rw [hd] at this; cases this
  | cons a rest =>
    rw [hd] at hn hm
    have ha : a = x := (hm a).mp (by simp)
    cases rest with
    | nil => rw [ha]
    | cons b rest' =>
      have hb : b = x := (hm b).mp (by simp)
      simp only [List.nodup_cons, List.mem_cons] at hn
      exact absurd (.inl (ha.trans hb.symm)) hn.1

/-! ## root candidates, refusals -/

/-- `x` is a possible root: the child of a row without parent, or a parent that is never a child -/
def IsRootCand (rows : List Row) (x : Str) : Prop :=
  (∃ r ∈ rows, r.parent = none ∧ r.child = x) ∨
  ((∃ r ∈ rows, r.parent = some x) ∧ ∀ r ∈ rows, r.child ≠ x)

theorem mem_rootNames (rows : List Row) (x : Str) : x ∈ rootNames rows ↔ IsRootCand rows x := by
  unfold rootNames IsRootCand
  rw [mem_dedupBy]
  simp only [List.mem_append, List.mem_map, List.mem_filter, List.mem_filterMap, Option.isNone_iff_eq_none,
    Bool.not_eq_true', List.any_eq_false, decide_eq_true_eq]
  constructor
  · rintro (⟨r, ⟨hr, hp⟩, hc⟩ | ⟨⟨r, hr, hp⟩, h2⟩)
    · exact .inl ⟨r, hr, hp, hc⟩
    · exact .inr ⟨⟨r, hr, hp⟩, fun r' hr' => by simpa using h2 r' hr'⟩
  · rintro (⟨r, hr, hp, hc⟩ | ⟨⟨r, hr, hp⟩, h2⟩)
    · exact .inl ⟨r, ⟨hr, hp⟩, hc⟩
    · exact .inr ⟨⟨r, hr, hp⟩, fun r' hr' => by simpa using h2 r' hr'⟩

theorem nodup_rootNames (rows : List Row) : (rootNames rows).Nodup := nodup_dedupBy _

/-- not exactly one root candidate ⇒ `ValueError` -/
theorem refused_of_rootNames (allowDup : Bool) (rows : List Row) (h : ∀ x, rootNames rows ≠ [x]) :
    relToTree allowDup rows = .error .value := by
  unfold relToTree
  split
  · rfl
  · split
    · rfl
    · split
      · rename_i x hx; exact absurd hx (h x)
      · rfl

theorem length_ge_two_of_mem {α} (l : List α) (a b : α) (ha : a ∈ l) (hb : b ∈ l) (hab : a ≠ b) :
    l.length > 1 := by
  cases l with
  | nil => cases ha
  | cons x xs =>
    cases xs with
    | nil => simp at ha hb; exact absurd (ha.trans hb.symm) hab
    | cons _ _ => simp

/-- a child named under two different parents that is itself a parent ⇒ flagged -/
theorem dupChildren_of (rows : List Row) (r1 r2 r3 : Row) (h1 : r1 ∈ rows) (h2 : r2 ∈ rows) (h3 : r3 ∈ rows)
    (hc : r1.child = r2.child) (hp : r1.parent ≠ r2.parent) (hpar : r3.parent = some r1.child) :
    dupChildren rows = true := by
  unfold dupChildren
  simp only [List.any_eq_true, List.mem_filter, mem_dedupBy, List.mem_map, decide_eq_true_eq,
    Prod.exists]
  have m1 : (r1.child, r1.parent) ∈ dedupBy (rows.map fun r => (r.child, r.parent)) :=
    (mem_dedupBy _ _).mpr (List.mem_map.mpr ⟨r1, h1, rfl⟩)
  have m2 : (r2.child, r2.parent) ∈ dedupBy (rows.map fun r => (r.child, r.parent)) :=
    (mem_dedupBy _ _).mpr (List.mem_map.mpr ⟨r2, h2, rfl⟩)
  have m3 : (r3.child, r3.parent) ∈ dedupBy (rows.map fun r => (r.child, r.parent)) :=
    (mem_dedupBy _ _).mpr (List.mem_map.mpr ⟨r3, h3, rfl⟩)
  refine ⟨r1.child, r1.parent, ⟨⟨r1, h1, rfl⟩, r3.child, r3.parent, ⟨r3, h3, rfl⟩, hpar⟩, ?_⟩
  apply length_ge_two_of_mem _ (r1.child, r1.parent) (r2.child, r2.parent)
  · simp only [List.mem_filter, decide_eq_true_eq, and_true, List.any_eq_true, Prod.exists]
    exact ⟨m1, r3.child, r3.parent, m3, hpar⟩
  · simp only [List.mem_filter, decide_eq_true_eq, List.any_eq_true, Prod.exists]
    exact ⟨⟨m2, r3.child, r3.parent, m3, by rw [← hc]; exact hpar⟩, hc.symm⟩
  · intro e; injection e with _ e; exact hp e

theorem refused_of_dupChildren (rows : List Row) (h : dupChildren rows = true) :
    relToTree false rows = .error .value := by
  unfold relToTree
  split
  · rfl
  · simp [h]

/-! ## `mapE` -/

theorem mapE_ok_iff {α β : Type} (g : α → Except Err β) (l : List α) (ys : List β) :
    mapE g l = .ok ys ↔ List.Forall₂ (fun x y => g x = .ok y) l ys := by
  induction l generalizing ys with
  | nil =>
    simp only [mapE, Except.ok.injEq]
    constructor
    · rintro rfl; exact .nil
    · intro h; cases h; rfl
  | cons x xs ih =>
    unfold mapE
    constructor
    · intro h
      cases hg : g x with
      | error e => rw [hg] at h; cases h
      | ok y =>
        rw [hg] at h
        simp only at h
        cases hm : mapE g xs with
        | error e => rw [hm] at h; cases h
        | ok ys' =>
          rw [hm] at h
          simp only [Except.ok.injEq] at h
          subst h
          exact .cons hg ((ih ys').mp hm)
    · intro h
      cases h with
      | cons h1 h2 =>
        rw [h1]
        simp only
        rw [(ih _).mpr h2]

end Rel
