import BigtreeProofs.Lemmas.BinStoreThms
import BigtreeProofs.Lemmas.BinStoreAcyc
/-! The invariant `BWF` is preserved by every accepted operation of the two-slot store
(closed forms of the accepted paths + the six clauses of `BWF`). -/
namespace BinStore

/-! ### accepted `parent` assignment -/

/-- the list of `x` once `v` has left its old parent -/
def detached (s : Store) (v x : Nat) : List (Option Nat) :=
  if s.parent v = some x then clear v (s.slots x) else s.slots x

theorem setParent_ok {s : Store} {a : Bool} {f : Fault} {v : Nat} {np : Option Nat}
    (hok : (setParent a f s v np).2 = .ok) :
    (a && parentTypeBad s np) = false ∧ (a && parentLoopBad s v np) = false ∧ f ≠ Fault.pre ∧
    (parentTry f s v (s.parent v) np).2.2 = false ∧
    (setParent a f s v np).1 = (parentTry f s v (s.parent v) np).1 := by
  unfold setParent at hok ⊢
  by_cases h1 : (a && parentTypeBad s np) = true
  · simp [h1] at hok
  by_cases h2 : (a && parentLoopBad s v np) = true
  · simp [h1, h2] at hok
  by_cases h3 : f = Fault.pre
  · simp [h1, h2, h3] at hok
  by_cases h4 : (parentTry f s v (s.parent v) np).2.2 = true
  · simp [h1, h2, h3, h4] at hok
  simp [h1, h2, h3, h4]

/-- slot list of `x` after an accepted `v.parent = np` -/
def parentSlots (s : Store) (v : Nat) (np : Option Nat) (x : Nat) : List (Option Nat) :=
  match np with
  | none => detached s v x
  | some p =>
    if x = p then
      match firstNone (detached s v p) with
      | some j => (detached s v p).set j (some v)
      | none => detached s v p
    else detached s v x

/-- closed form of the `try` body of an accepted `v.parent = np` -/
theorem parentTry_spec {s : Store} (h : BWF s) (f : Fault) (v : Nat) (np : Option Nat)
    (h4 : (parentTry f s v (s.parent v) np).2.2 = false) :
    (parentTry f s v (s.parent v) np).1.n = s.n ∧
    (∀ x, (parentTry f s v (s.parent v) np).1.parent x = if x = v then np else s.parent x) ∧
    (∀ x, (parentTry f s v (s.parent v) np).1.slots x = parentSlots s v np x) ∧
    (∀ p, np = some p → ∃ j, firstNone (detached s v p) = some j) := by
  cases hcur : s.parent v with
  | none =>
    rw [hcur] at h4
    cases np with
    | none =>
      simp [parentTry, detach, attach, detached, parentSlots, hcur]
    | some p =>
      cases hj : firstNone (s.slots p) with
      | none => simp [parentTry, detach, attach, fillFirst_false, hj] at h4
      | some j =>
        simp [parentTry, detach, attach, detached, parentSlots, hcur, fillFirst_false, hj]
  | some cp =>
    rw [hcur] at h4
    obtain ⟨i, hi⟩ := h.idx_of_parent hcur
    have hclr := set_idx_none hi (h.distinct cp v)
    cases np with
    | none =>
      simp [parentTry, detach, attach, detached, parentSlots, hcur, hi, hclr] <;> grind
    | some p =>
      by_cases hpc : p = cp
      · subst hpc
        cases hj : firstNone (clear v (s.slots p)) with
        | none => simp [parentTry, detach, attach, hi, hclr, fillFirst_false, hj] at h4
        | some j =>
          simp [parentTry, detach, attach, detached, parentSlots, hcur, hi, hclr, fillFirst_false, hj] <;> grind
      · have hcp : ¬ cp = p := fun e => hpc e.symm
        cases hj : firstNone (s.slots p) with
        | none => simp [parentTry, detach, attach, hi, fillFirst_false, hj, hpc] at h4
        | some j =>
          simp [parentTry, detach, attach, detached, parentSlots, hcur, hi, hclr, fillFirst_false, hj, hpc, hcp] <;> grind


theorem mem_detached {s : Store} (h : BWF s) (v x c : Nat) :
    some c ∈ detached s v x ↔ c ≠ v ∧ some c ∈ s.slots x := by
  unfold detached
  by_cases hp : s.parent v = some x
  · simp only [hp, if_true]
    by_cases hc : c = v
    · subst hc; simp [not_mem_clear]
    · simp [mem_clear hc, hc]
  · simp only [hp, if_false]
    constructor
    · intro hm
      refine ⟨fun e => ?_, hm⟩
      subst e
      exact hp (h.down x c hm)
    · exact fun hm => hm.2

theorem count_detached {s : Store} (h : BWF s) (v x c : Nat) :
    (detached s v x).count (some c) ≤ 1 := by
  unfold detached
  split
  · exact Nat.le_trans (count_clear_le v c _) (h.distinct x c)
  · exact h.distinct x c

theorem detached_length {s : Store} (h : BWF s) (v x : Nat) : (detached s v x).length = 2 := by
  unfold detached; split <;> simp [h.len2 x]

theorem mem_parentSlots {s : Store} (h : BWF s) (v : Nat) (np : Option Nat) (x c : Nat)
    (h4 : ∀ p, np = some p → ∃ j, firstNone (detached s v p) = some j) :
    some c ∈ parentSlots s v np x ↔ (c = v ∧ np = some x) ∨ (c ≠ v ∧ some c ∈ s.slots x) := by
  cases np with
  | none => simp [parentSlots, mem_detached h]
  | some p =>
    obtain ⟨j, hj⟩ := h4 p rfl
    by_cases hx : x = p
    · subst hx
      simp only [parentSlots, if_true, hj, mem_set_firstNone hj, mem_detached h]
      grind
    · have : ¬ p = x := fun e => hx e.symm
      simp [parentSlots, hx, mem_detached h, this]

theorem count_parentSlots {s : Store} (h : BWF s) (v : Nat) (np : Option Nat) (x c : Nat) :
    (parentSlots s v np x).count (some c) ≤ 1 := by
  cases np with
  | none => exact count_detached h v x c
  | some p =>
    by_cases hx : x = p
    · subst hx
      simp only [parentSlots, if_true]
      cases hj : firstNone (detached s v x) with
      | none => exact count_detached h v x c
      | some j =>
        simp only [count_set_firstNone c hj]
        by_cases hc : c = v
        · subst hc
          have : some c ∉ detached s c x := fun hm => ((mem_detached h c x c).1 hm).1 rfl
          simp [count_eq_zero_of_not_mem this]
        · simp [hc]; exact count_detached h v x c
    · simp only [parentSlots, hx, if_false]; exact count_detached h v x c

theorem parentSlots_length {s : Store} (h : BWF s) (v : Nat) (np : Option Nat) (x : Nat) :
    (parentSlots s v np x).length = 2 := by
  cases np with
  | none => exact detached_length h v x
  | some p =>
    simp only [parentSlots]
    split
    · split <;> simp [detached_length h]
    · exact detached_length h v x

/-- an accepted `v.parent = np` keeps the store well-formed -/
theorem bwf_setParent {s : Store} (h : BWF s) (f : Fault) (v : Nat) (np : Option Nat) (hv : v < s.n)
    (hok : (setParent true f s v np).2 = .ok) : BWF (setParent true f s v np).1 := by
  obtain ⟨h1, h2, _, h4, heq⟩ := setParent_ok hok
  rw [heq]
  obtain ⟨en, ep, es, e4⟩ := parentTry_spec h f v np h4
  refine ⟨fun x => ?_, fun c q hc => ?_, fun q c hm => ?_, fun q c => ?_, ?_, fun c q hc => ?_⟩
  · rw [es]; exact parentSlots_length h v np x
  · rw [es, mem_parentSlots h v np q c e4]
    rw [ep] at hc
    by_cases hcv : c = v
    · left; simp [hcv] at hc; exact ⟨hcv, hc⟩
    · right; simp [hcv] at hc; exact ⟨hcv, h.up c q hc⟩
  · rw [es, mem_parentSlots h v np q c e4] at hm
    rw [ep]
    rcases hm with ⟨rfl, hnp⟩ | ⟨hcv, hm⟩
    · simp [hnp]
    · simp [hcv, h.down q c hm]
  · rw [es]; exact count_parentSlots h v np q c
  · cases np with
    | none =>
      refine acyc_reparent h.acyc v (fun _ => False) (fun x p hx => ?_) (fun c hc => hc.elim)
      right
      rw [ep] at hx
      by_cases hxv : x = v
      · simp [hxv] at hx
      · simp [hxv] at hx; exact ⟨fun e => e, hx⟩
    | some p =>
      simp [parentLoopBad] at h2
      refine acyc_reparent h.acyc p (fun x => x = v) (fun x q hx => ?_) (fun c hc => ?_)
      · rw [ep] at hx
        by_cases hxv : x = v
        · left; simp [hxv] at hx; exact ⟨hxv, hx.symm⟩
        · right; simp [hxv] at hx; exact ⟨hxv, hx⟩
      · subst hc
        exact ⟨fun e => h2.1 e.symm, fun hr => h2.2 ((anc_complete h.acyc h.range).2 hr)⟩
  · rw [ep] at hc
    rw [en]
    by_cases hcv : c = v
    · simp [hcv] at hc
      subst hc
      simp [parentTypeBad] at h1
      exact ⟨hcv ▸ hv, h1⟩
    · simp [hcv] at hc; exact h.range c q hc

/-! ### accepted `children` assignment -/

theorem setChildren_ok {s : Store} {f : Fault} {v : Nat} {l : List (Option Nat)}
    (h : BWF s) (hok : (setChildren true f s v l).2 = .ok) :
    ∃ c1 c2, normChildren l = some [c1, c2] ∧ ValidNew s v c1 c2 ∧ f = Fault.none ∧
      (setChildren true f s v l).1 = (childrenTry f s v [c1, c2]).1 := by
  unfold setChildren at hok ⊢
  cases hnorm : normChildren l with
  | none => simp [hnorm] at hok
  | some new =>
    obtain ⟨c1, c2, rfl⟩ := normChildren_some hnorm
    refine ⟨c1, c2, rfl, ?_⟩
    by_cases hb : childrenLoopBad s v [c1, c2] [] = true
    · simp [hnorm, hb] at hok
    · have hv := childrenLoopBad_two.1 (by simpa using hb)
      obtain ⟨t, ht, hn, hpt, hst⟩ := childrenTry_spec h f v c1 c2 hv.distinct
      obtain ⟨stolen, hsn, hroll⟩ := childrenRollback_spec h v c1 c2 hv.distinct hn hpt hst
      simp only [hnorm, hb, hsn, ht] at hok ⊢
      cases f <;> simp at hok ⊢
      exact hv

/-- an accepted `v.children = l` keeps the store well-formed -/
theorem bwf_setChildren {s : Store} (h : BWF s) (f : Fault) (v : Nat) (l : List (Option Nat)) (hv : v < s.n)
    (hok : (setChildren true f s v l).2 = .ok) : BWF (setChildren true f s v l).1 := by
  obtain ⟨c1, c2, _, hval, _, heq⟩ := setChildren_ok h hok
  rw [heq]
  obtain ⟨t, ht, en, ep, es⟩ := childrenTry_spec h f v c1 c2 hval.distinct
  rw [ht]
  simp only
  have hmem : ∀ q c, some c ∈ t.slots q ↔
      (q = v ∧ (c1 = some c ∨ c2 = some c)) ∨ (q ≠ v ∧ ¬(c1 = some c ∨ c2 = some c) ∧ some c ∈ s.slots q) := by
    intro q c
    rw [es]
    by_cases hq : q = v
    · simp [hq]; grind
    · simp only [hq, if_false, false_and, false_or, ne_eq, not_false_eq_true, true_and]
      cases c1 <;> cases c2 <;> simp <;> grind [mem_clear, not_mem_clear]
  refine ⟨fun x => ?_, fun c q hc => ?_, fun q c hm => ?_, fun q c => ?_, ?_, fun c q hc => ?_⟩
  · rw [es]; split
    · rfl
    · cases c1 <;> cases c2 <;> simp [h.len2 x]
  · rw [hmem]
    rw [ep] at hc
    by_cases hcn : c1 = some c ∨ c2 = some c
    · simp [hcn] at hc; left; exact ⟨hc.symm, hcn⟩
    · right
      simp only [hcn, if_false] at hc
      by_cases hpv : s.parent c = some v
      · simp [hpv] at hc
      · simp only [hpv, if_false] at hc
        refine ⟨fun e => hpv (e ▸ hc), hcn, h.up c q hc⟩
  · rw [hmem] at hm
    rw [ep]
    rcases hm with ⟨rfl, hcn⟩ | ⟨hq, hcn, hm⟩
    · simp [hcn]
    · have := h.down q c hm
      simp only [hcn, if_false, this]
      have : ¬ q = v := hq
      simp [this]
  · rw [es]
    split
    · have := hval.distinct
      cases c1 <;> cases c2 <;> simp [List.count_cons] <;> grind
    · refine Nat.le_trans ?_ (h.distinct q c)
      cases c1 <;> cases c2 <;> simp
      · exact count_clear_le _ _ _
      · exact count_clear_le _ _ _
      · exact Nat.le_trans (count_clear_le _ _ _) (count_clear_le _ _ _)
  · refine acyc_reparent h.acyc v (fun x => c1 = some x ∨ c2 = some x) (fun x p hx => ?_) (fun c hc => ?_)
    · rw [ep] at hx
      by_cases hcn : c1 = some x ∨ c2 = some x
      · left; simp [hcn] at hx; exact ⟨hcn, hx.symm⟩
      · right
        simp only [hcn, if_false] at hx
        refine ⟨hcn, ?_⟩
        by_cases hpv : s.parent x = some v
        · simp [hpv] at hx
        · simpa [hpv] using hx
    · exact ⟨hval.ne_self c hc, fun hr => hval.not_anc c hc ((anc_complete h.acyc h.range).2 hr)⟩
  · rw [ep] at hc
    rw [en]
    by_cases hcn : c1 = some c ∨ c2 = some c
    · simp [hcn] at hc; subst hc; exact ⟨hval.range c hcn, hv⟩
    · simp only [hcn, if_false] at hc
      by_cases hpv : s.parent c = some v
      · simp [hpv] at hc
      · simp only [hpv, if_false] at hc; exact h.range c q hc

/-! ### left / right / del / sort -/

theorem bwf_setLeft {s : Store} (h : BWF s) (f : Fault) (v : Nat) (x : Option Nat) (hv : v < s.n)
    (hok : (setLeft true f s v x).2 = .ok) : BWF (setLeft true f s v x).1 := by
  unfold setLeft at hok ⊢
  cases hs : slotAt? s v 1 with
  | none => simp [hs] at hok
  | some r => simp only [hs] at hok ⊢; exact bwf_setChildren h f v _ hv hok

theorem bwf_setRight {s : Store} (h : BWF s) (f : Fault) (v : Nat) (x : Option Nat) (hv : v < s.n)
    (hok : (setRight true f s v x).2 = .ok) : BWF (setRight true f s v x).1 := by
  unfold setRight at hok ⊢
  cases hs : slotAt? s v 0 with
  | none => simp [hs] at hok
  | some r => simp only [hs] at hok ⊢; exact bwf_setChildren h f v _ hv hok

/-- `del v.children` keeps the store well-formed -/
theorem bwf_delChildren {s : Store} (h : BWF s) (v : Nat) : BWF (delChildren s v).1 := by
  obtain ⟨s1, hd, en, ep, es⟩ := delChildrenBody_spec h v
  simp only [delChildren, hd]
  refine ⟨fun x => ?_, fun c q hc => ?_, fun q c hm => ?_, fun q c => ?_, ?_, fun c q hc => ?_⟩
  · rw [es]; split <;> simp [h.len2 x]
  · rw [ep] at hc
    by_cases hpv : s.parent c = some v
    · simp [hpv] at hc
    · simp only [hpv, if_false] at hc
      rw [es]
      have : ¬ q = v := fun e => hpv (e ▸ hc)
      simp only [this, if_false]
      exact h.up c q hc
  · rw [es] at hm
    by_cases hq : q = v
    · simp [hq] at hm
    · simp only [hq, if_false] at hm
      have := h.down q c hm
      rw [ep, this]
      have : ¬ some q = some v := fun e => hq (Option.some.inj e)
      simp [this]
  · rw [es]; split
    · simp
    · exact h.distinct q c
  · refine acyc_reparent h.acyc v (fun _ => False) (fun x p hx => ?_) (fun c hc => hc.elim)
    right
    rw [ep] at hx
    by_cases hpv : s.parent x = some v
    · simp [hpv] at hx
    · simp only [hpv, if_false] at hx; exact ⟨fun e => e, hx⟩
  · rw [ep] at hc
    rw [en]
    by_cases hpv : s.parent c = some v
    · simp [hpv] at hc
    · simp only [hpv, if_false] at hc; exact h.range c q hc

/-- `v.sort(key=…)` keeps the store well-formed -/
theorem bwf_sortChildren {s : Store} (h : BWF s) (v : Nat) (sw : Bool) : BWF (sortChildren s v sw) := by
  obtain ⟨o1, o2, hl⟩ := two_of_len (h.len2 v)
  have hd := h.down v
  have hu := fun c => h.up c v
  have hc := h.distinct v
  rw [hl] at hd hu hc
  unfold sortChildren
  cases o1 <;> cases o2 <;> cases sw <;> simp [hl, List.filter] <;> try exact h
  all_goals
    refine ⟨fun x => ?_, fun c q hcq => ?_, fun q c hm => ?_, fun q c => ?_, h.acyc, h.range⟩
    · simp only [setSlots_slots]; split <;> simp [h.len2 x]
    · simp only [setSlots_slots, setSlots_parent] at hcq ⊢
      split
      · rename_i hq; subst hq; have := hu c hcq; simp at this ⊢; grind
      · exact h.up c q hcq
    · simp only [setSlots_slots, setSlots_parent] at hm ⊢
      split at hm
      · rename_i hq; subst hq; apply hd; simp at hm ⊢; grind
      · exact h.down q c hm
    · simp only [setSlots_slots]
      split
      · have := hc c; simp [List.count_cons] at this ⊢; grind
      · exact h.distinct q c

/-- **invariant step**: every operation, every argument, every fault (checks on) -/
theorem bwf_step' {s : Store} (h : BWF s) (op : Op) : BWF (step true s op).1 := by
  cases hout : (step true s op).2 with
  | rej => rw [step_rej_id h op hout]; exact h
  | ok =>
    unfold step at hout ⊢
    by_cases hsub : s.n ≤ op.subject
    · simp [hsub] at hout
    · simp only [hsub, if_false] at hout ⊢
      have hv : op.subject < s.n := by omega
      cases op with
      | parent v np f => exact bwf_setParent h f v np hv hout
      | children v l f =>
        cases l with
        | none => simp at hout
        | some l => exact bwf_setChildren h f v l hv hout
      | left v x f => exact bwf_setLeft h f v x hv hout
      | right v x f => exact bwf_setRight h f v x hv hout
      | del v => exact bwf_delChildren h v
      | sort v sw => exact bwf_sortChildren h v sw

/-- dropping the rejected calls of a history does not change the final store (C02 + invariant) -/
theorem run_acceptedOps : ∀ (s : Store) (ops : List Op), BWF s →
    run true s (acceptedOps s ops) = run true s ops
  | _, [], _ => rfl
  | s, op :: ops, h => by
    simp only [acceptedOps]
    split
    · simp only [run, List.foldl_cons]
      exact run_acceptedOps _ ops (bwf_step' h op)
    · rename_i hno
      have hr : (step true s op).2 = .rej := by
        cases hh : (step true s op).2 with
        | ok => exact absurd hh hno
        | rej => rfl
      simp only [run, List.foldl_cons]
      rw [step_rej_id h op hr]
      exact run_acceptedOps s ops h

/-- no operation creates or destroys nodes -/
theorem step_n {s : Store} (h : BWF s) (op : Op) : (step true s op).1.n = s.n := by
  cases hout : (step true s op).2 with
  | rej => rw [step_rej_id h op hout]
  | ok =>
    unfold step at hout ⊢
    by_cases hsub : s.n ≤ op.subject
    · simp [hsub]
    · simp only [hsub, if_false] at hout ⊢
      have hch : ∀ f v l, (setChildren true f s v l).2 = .ok → (setChildren true f s v l).1.n = s.n := by
        intro f v l hok
        obtain ⟨c1, c2, _, hval, _, heq⟩ := setChildren_ok h hok
        obtain ⟨t, ht, en, _⟩ := childrenTry_spec h f v c1 c2 hval.distinct
        rw [heq, ht]; exact en
      cases op with
      | parent v np f =>
        obtain ⟨_, _, _, h4, heq⟩ := setParent_ok hout
        rw [heq]; exact (parentTry_spec h f v np h4).1
      | children v l f =>
        cases l with
        | none => rfl
        | some l => exact hch f v l hout
      | left v x f =>
        simp only [setLeft] at hout ⊢
        cases hs : slotAt? s v 1 with
        | none => rfl
        | some r => simp only [hs] at hout ⊢; exact hch f v _ hout
      | right v x f =>
        simp only [setRight] at hout ⊢
        cases hs : slotAt? s v 0 with
        | none => rfl
        | some r => simp only [hs] at hout ⊢; exact hch f v _ hout
      | del v =>
        obtain ⟨s1, hd, en, _⟩ := delChildrenBody_spec h v
        simp [delChildren, hd, en]
      | sort v sw => simp only [sortChildren]; split <;> rfl

theorem run_n {s : Store} (h : BWF s) : ∀ ops : List Op, (run true s ops).n = s.n := by
  intro ops
  induction ops generalizing s with
  | nil => rfl
  | cons op ops ih =>
    simp only [run, List.foldl_cons]
    have := ih (bwf_step' h op)
    simp only [run] at this
    rw [this, step_n h op]

end BinStore
