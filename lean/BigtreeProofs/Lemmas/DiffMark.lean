import BigtreeModel.Helper
import BigtreeModel.HelperDiff
import BigtreeProofs.Lemmas.DiffDefs
/-!
# C15 (get_tree_diff): marks (`relabel`, `markFull`, suffixes, `unmark`) and attribute comparison
-/
namespace Helper

/-! ## relabel -/

@[simp] theorem relabel_nil (fn : List Str → Str → Str) (anc : List Str) : relabel fn anc [] = [] := by
  simp [relabel]

@[simp] theorem relabel_cons (fn : List Str → Str → Str) (anc : List Str) (n : Str) (q : List Str) :
    relabel fn anc (n :: q) = fn (anc ++ [n]) n :: relabel fn (anc ++ [n]) q := by
  simp [relabel]

theorem relabel_length (fn : List Str → Str → Str) (anc q : List Str) :
    (relabel fn anc q).length = q.length := by
  induction q generalizing anc with
  | nil => simp
  | cons n q ih => simp [ih]

theorem relabel_append (fn : List Str → Str → Str) (anc q r : List Str) :
    relabel fn anc (q ++ r) = relabel fn anc q ++ relabel fn (anc ++ q) r := by
  induction q generalizing anc with
  | nil => simp
  | cons n q ih => simp [ih]

theorem relabel_take (fn : List Str → Str → Str) (anc q : List Str) (k : Nat) :
    (relabel fn anc q).take k = relabel fn anc (q.take k) := by
  induction q generalizing anc k with
  | nil => simp
  | cons n q ih =>
    cases k with
    | zero => simp
    | succ k => simp [ih]

theorem relabel_eq_range (fn : List Str → Str → Str) (anc q : List Str) :
    relabel fn anc q
      = (List.range q.length).map fun i => fn (anc ++ q.take (i + 1)) (q.getD i []) := by
  induction q generalizing anc with
  | nil => simp
  | cons n q ih =>
    rw [relabel_cons, ih, List.length_cons, List.range_succ_eq_map]
    simp [List.map_map, Function.comp_def]

theorem prefix_relabel_iff (fn : List Str → Str → Str) (anc p m : List Str) :
    m <+: relabel fn anc p ↔ ∃ p', p' <+: p ∧ m = relabel fn anc p' := by
  constructor
  · intro h
    refine ⟨p.take m.length, List.take_prefix _ _, ?_⟩
    rw [← relabel_take]
    exact (List.prefix_iff_eq_take.mp h)
  · rintro ⟨p', ⟨r, rfl⟩, rfl⟩
    rw [relabel_append]
    exact List.prefix_append _ _

theorem relabel_congr (fn gn : List Str → Str → Str) (anc q : List Str)
    (h : ∀ i, i < q.length →
      fn (anc ++ q.take (i + 1)) (q.getD i []) = gn (anc ++ q.take (i + 1)) (q.getD i [])) :
    relabel fn anc q = relabel gn anc q := by
  rw [relabel_eq_range, relabel_eq_range]
  apply List.map_congr_left
  intro i hi
  exact h i (List.mem_range.mp hi)

/-! ## markFull -/

theorem markFull_eq_relabel (st : List Str → Status) (p : List Str) :
    markFull st p = relabel (fun q n => n ++ (st q).suffix) [] p := by
  rw [relabel_eq_range]
  simp [markFull]

theorem markFull_length (st : List Str → Status) (p : List Str) :
    (markFull st p).length = p.length := by
  simp [markFull]

theorem markFull_take (st : List Str → Status) (p : List Str) (k : Nat) :
    (markFull st p).take k = markFull st (p.take k) := by
  simp [markFull_eq_relabel, relabel_take]

theorem prefix_markFull_iff (st : List Str → Status) (p m : List Str) :
    m <+: markFull st p ↔ ∃ p', p' <+: p ∧ m = markFull st p' := by
  simp [markFull_eq_relabel, prefix_relabel_iff]

theorem markFull_eq_nil (st : List Str → Status) (p : List Str) : markFull st p = [] ↔ p = [] := by
  rw [← List.length_eq_zero_iff, markFull_length, List.length_eq_zero_iff]

theorem markFull_getD (st : List Str → Status) (p : List Str) (i : Nat) (h : i < p.length) :
    (markFull st p).getD i [] = p.getD i [] ++ (st (p.take (i + 1))).suffix := by
  simp [markFull, List.getD_eq_getElem?_getD, h]

theorem getLastD_markFull (st : List Str → Status) (p : List Str) (h : p ≠ []) :
    (markFull st p).getLastD [] = p.getLast h ++ (st p).suffix := by
  have hl : 0 < p.length := List.length_pos_iff.mpr h
  have hne : markFull st p ≠ [] := by rwa [Ne, markFull_eq_nil]
  rw [List.getLastD_eq_getLast?, List.getLast?_eq_some_getLast hne]
  simp only [Option.getD_some]
  rw [List.getLast_eq_getElem]
  have := markFull_getD st p (p.length - 1) (by omega)
  rw [List.getD_eq_getElem?_getD, List.getElem?_eq_getElem (by rw [markFull_length]; omega)] at this
  simp only [Option.getD_some] at this
  simp only [markFull_length]
  rw [this, List.getLast_eq_getElem]
  have e : p.length - 1 + 1 = p.length := by omega
  rw [e, List.take_length]
  simp [List.getD_eq_getElem?_getD, List.getElem?_eq_getElem (show p.length - 1 < p.length by omega)]

theorem markFull_congr (st st' : List Str → Status) (p : List Str)
    (h : ∀ k, 0 < k → k ≤ p.length → st (p.take k) = st' (p.take k)) :
    markFull st p = markFull st' p := by
  unfold markFull
  apply List.map_congr_left
  intro i hi
  have hi := List.mem_range.mp hi
  rw [h (i + 1) (by omega) (by omega)]

theorem markFull_same (st : List Str → Status) (p : List Str)
    (h : ∀ k, k ≤ p.length → 0 < k → st (p.take k) = .same) : markFull st p = p := by
  apply List.ext_getElem (markFull_length st p)
  intro i h1 h2
  have := markFull_getD st p i h2
  rw [h (i + 1) (by omega) (by omega)] at this
  simpa [List.getD_eq_getElem?_getD, List.getElem?_eq_getElem, h1, h2, Status.suffix] using this

/-! ## marks as suffixes -/

theorem suffix_eq_nil_iff (s : Status) : s.suffix = [] ↔ s = .same := by
  cases s <;> simp [Status.suffix, sufRemoved, sufAdded, sufChanged]

theorem suffix_length (s : Status) (h : s ≠ .same) : s.suffix.length = 4 := by
  cases s <;> simp_all [Status.suffix, sufRemoved, sufAdded, sufChanged]

theorem not_mem_suffix (c : Char) (s : Status) (hc : c ∉ [' ', '(', ')', '-', '+', '~']) :
    c ∉ s.suffix := by
  cases s <;> simp_all [Status.suffix, sufRemoved, sufAdded, sufChanged]

theorem not_mem_marked (c : Char) (n : Str) (s : Status) (hc : c ∉ [' ', '(', ')', '-', '+', '~'])
    (hn : c ∉ n) : c ∉ n ++ s.suffix := by
  simp only [List.mem_append, not_or]
  exact ⟨hn, not_mem_suffix c s hc⟩

theorem marked_ne_nil (n : Str) (s : Status) (hn : n ≠ []) : n ++ s.suffix ≠ [] := by
  simp [hn]

/-- a suffix of the same length as the appended part is the appended part -/
theorem suffix_append_of_length_eq {α : Type} (a b n : List α) (h : a.length = b.length) :
    a <:+ n ++ b ↔ a = b := by
  constructor
  · rintro ⟨t, ht⟩
    exact (List.append_inj' ht h).2
  · rintro rfl
    exact List.suffix_append _ _

theorem sufRemoved_suffix_iff (n : Str) (s : Status) (h : ¬ endsWithMark n) :
    sufRemoved <:+ n ++ s.suffix ↔ s = .removed := by
  cases s
  case same => simpa [Status.suffix] using fun h' => h (Or.inl h')
  all_goals
    simp only [Status.suffix]
    rw [suffix_append_of_length_eq _ _ _ (by simp [sufRemoved, sufAdded, sufChanged])]
    simp [sufRemoved, sufAdded, sufChanged]

theorem sufAdded_suffix_iff (n : Str) (s : Status) (h : ¬ endsWithMark n) :
    sufAdded <:+ n ++ s.suffix ↔ s = .added := by
  cases s
  case same => simpa [Status.suffix] using fun h' => h (Or.inr (Or.inl h'))
  all_goals
    simp only [Status.suffix]
    rw [suffix_append_of_length_eq _ _ _ (by simp [sufRemoved, sufAdded, sufChanged])]
    simp [sufRemoved, sufAdded, sufChanged]

theorem sufChanged_suffix_iff (n : Str) (s : Status) (h : ¬ endsWithMark n) :
    sufChanged <:+ n ++ s.suffix ↔ s = .changed := by
  cases s
  case same => simpa [Status.suffix] using fun h' => h (Or.inr (Or.inr h'))
  all_goals
    simp only [Status.suffix]
    rw [suffix_append_of_length_eq _ _ _ (by simp [sufRemoved, sufAdded, sufChanged])]
    simp [sufRemoved, sufAdded, sufChanged]

theorem endsWithMark_marked_iff (n : Str) (s : Status) (h : ¬ endsWithMark n) :
    endsWithMark (n ++ s.suffix) ↔ s ≠ .same := by
  unfold endsWithMark
  rw [sufRemoved_suffix_iff n s h, sufAdded_suffix_iff n s h, sufChanged_suffix_iff n s h]
  cases s <;> simp

/-- a marked name equals an unmarked one only if nothing was added -/
theorem marked_eq_unmarked (n n' : Str) (s : Status) (h : ¬ endsWithMark n')
    (he : n ++ s.suffix = n') : s = .same ∧ n = n' := by
  subst he
  cases s
  case same => simp [Status.suffix]
  all_goals
    exfalso
    apply h
    simp only [endsWithMark, Status.suffix]
    first
      | exact Or.inl (List.suffix_append _ _)
      | exact Or.inr (Or.inl (List.suffix_append _ _))
      | exact Or.inr (Or.inr (List.suffix_append _ _))

theorem marked_inj (n n' : Str) (s s' : Status) (h : ¬ endsWithMark n) (h' : ¬ endsWithMark n')
    (he : n ++ s.suffix = n' ++ s'.suffix) : n = n' ∧ s = s' := by
  have hs : s = s' := by
    cases s
    case same =>
      exact ((marked_eq_unmarked n' n s' h (by simpa [Status.suffix] using he.symm)).1).symm
    case removed =>
      have : sufRemoved <:+ n' ++ s'.suffix := he ▸ List.suffix_append _ _
      exact ((sufRemoved_suffix_iff n' s' h').mp this).symm
    case added =>
      have : sufAdded <:+ n' ++ s'.suffix := he ▸ List.suffix_append _ _
      exact ((sufAdded_suffix_iff n' s' h').mp this).symm
    case changed =>
      have : sufChanged <:+ n' ++ s'.suffix := he ▸ List.suffix_append _ _
      exact ((sufChanged_suffix_iff n' s' h').mp this).symm
  subst hs
  exact ⟨List.append_cancel_right he, rfl⟩

/-! ## unmark -/

theorem unmark1_of_mark (n : Str) (h : endsWithMark n) : unmark1 n = n.take (n.length - 4) := by
  unfold unmark1
  rw [if_pos]
  simpa [endsWithMark, List.isSuffixOf_iff_suffix, or_assoc] using h

theorem unmark1_unmarked (n : Str) (h : ¬ endsWithMark n) : unmark1 n = n := by
  unfold unmark1
  rw [if_neg]
  simpa [endsWithMark, List.isSuffixOf_iff_suffix, or_assoc, and_assoc] using h

theorem unmark1_marked (n : Str) (s : Status) (h : ¬ endsWithMark n) :
    unmark1 (n ++ s.suffix) = n := by
  by_cases hs : s = .same
  · subst hs
    simpa [Status.suffix] using unmark1_unmarked n h
  · rw [unmark1_of_mark _ ((endsWithMark_marked_iff n s h).mpr hs)]
    simp [suffix_length s hs]

theorem unmark_markFull (st : List Str → Status) (p : List Str) (h : ∀ n ∈ p, ¬ endsWithMark n) :
    unmark (markFull st p) = p := by
  apply List.ext_getElem (by simp [unmark, markFull_length])
  intro i h1 h2
  have := markFull_getD st p i h2
  have h1' : i < (markFull st p).length := by rw [markFull_length]; exact h2
  rw [List.getD_eq_getElem?_getD, List.getD_eq_getElem?_getD, List.getElem?_eq_getElem h1',
    List.getElem?_eq_getElem h2] at this
  simp only [Option.getD_some] at this
  simp only [unmark, List.getElem_map, this]
  exact unmark1_marked _ _ (h _ (List.getElem_mem h2))

theorem markFull_inj (st : List Str → Status) (p q : List Str) (hp : ∀ n ∈ p, ¬ endsWithMark n)
    (hq : ∀ n ∈ q, ¬ endsWithMark n) (h : markFull st p = markFull st q) : p = q := by
  rw [← unmark_markFull st p hp, ← unmark_markFull st q hq, h]

/-! ## attribute comparison -/

theorem changedAttrs_eq_nil_iff (attrList : List Str) (a1 a2 : Attrs) :
    changedAttrs attrList a1 a2 = [] ↔ ∀ k ∈ attrList, getAttr a1 k = getAttr a2 k := by
  simp [changedAttrs, List.filterMap_eq_nil_iff]

theorem changedAttrs_ne_nil_iff (attrList : List Str) (a1 a2 : Attrs) :
    changedAttrs attrList a1 a2 ≠ [] ↔ ∃ k ∈ attrList, getAttr a1 k ≠ getAttr a2 k := by
  rw [Ne, changedAttrs_eq_nil_iff]
  simp

end Helper
