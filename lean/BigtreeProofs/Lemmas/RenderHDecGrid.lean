import BigtreeProofs.Lemmas.RenderHDecStep
/-!
# Blocks inside the grid, scanning the connector column, rows marked with the branch glyph

* `Emb`: a block sits at (row `off`, column `c`) of the grid, its rows being the rest of the grid rows;
* `scanCol_up`, `scanCol_down`;
* `HeadInv`, `marks_block`, `marks_joined`, `filter_range'_restrict`.
-/

namespace Render

/-! ### a block sitting inside the grid -/

/-- the rows `off …` of the grid, from column `c` on, are exactly `brows` -/
def Emb (grid : List Str) (off c : Nat) (brows : List Str) : Prop :=
  ∀ j row, brows[j]? = some row → (grid.getD (off + j) []).drop c = row

theorem Emb.append_left {grid : List Str} {off c : Nat} {A B : List Str} (h : Emb grid off c (A ++ B)) :
    Emb grid off c A := by
  intro j row hj
  have hlt : j < A.length := (List.getElem?_eq_some_iff.mp hj).1
  exact h j row (by rw [List.getElem?_append_left hlt]; exact hj)

theorem Emb.append_right {grid : List Str} {off c : Nat} {A B : List Str} (h : Emb grid off c (A ++ B))
    {k : Nat} (hk : A.length = k) : Emb grid (off + k) c B := by
  intro j row hj
  subst hk
  have := h (A.length + j) row (by rw [List.getElem?_append_right (by omega)]; simpa using hj)
  rw [← Nat.add_assoc] at this; exact this

theorem Emb.framed {grid : List Str} {off c W : Nat} {pre res : List Str}
    (h : Emb grid off c (List.zipWith (· ++ ·) pre res)) (hlen : pre.length = res.length)
    (hW : ∀ (j : Nat) (x : Str), pre[j]? = some x → x.length = W) : Emb grid off (c + W) res := by
  intro j row hj
  have hlt : j < res.length := (List.getElem?_eq_some_iff.mp hj).1
  have hp : pre[j]? = some (pre[j]'(by omega)) := List.getElem?_eq_getElem _
  have := h j (pre[j]'(by omega) ++ row) (by rw [List.getElem?_zipWith, hp, hj])
  rw [← List.drop_drop, this, ← hW j _ hp]
  simp

theorem Emb.charAt {grid : List Str} {off c : Nat} {brows : List Str} (h : Emb grid off c brows)
    {j : Nat} {row : Str} (hj : brows[j]? = some row) (i : Nat) :
    charAt grid (off + j) (c + i) = row[i]? := by
  unfold Render.charAt
  rw [← h j row hj, List.getElem?_drop]

theorem Emb.lt_length {grid : List Str} {off c : Nat} {brows : List Str} (h : Emb grid off c brows)
    {j : Nat} {row : Str} (hj : brows[j]? = some row) (hne : row ≠ []) : off + j < grid.length := by
  have := h j row hj
  rcases Nat.lt_or_ge (off + j) grid.length with h1 | h1
  · exact h1
  · rw [List.getD_eq_getElem?_getD, List.getElem?_eq_none h1] at this
    simp at this; exact absurd this hne

/-! ### scanning the connector column -/

theorem scanCol_up (S : HStyle) (grid : List Str) (k : Nat) (stop : Char) (top : Nat)
    (htop : charAt grid top k = some stop) :
    ∀ n r fuel, n < fuel → top + n + 1 = r →
      (∀ j, top < j → j < r → ∃ ch, charAt grid j k = some ch ∧ ch ≠ stop ∧ (ch = S.stem ∨ ch = S.subsequentChild)) →
      scanCol S grid k stop true fuel r = some top := by
  intro n
  induction n with
  | zero =>
    intro r fuel hf hr _
    obtain ⟨f, rfl⟩ : ∃ f, fuel = f + 1 := ⟨fuel - 1, by omega⟩
    have : r - 1 = top := by omega
    have hr0 : (r == 0) = false := by simp; omega
    simp [scanCol, hr0, this, htop]
  | succ n ih =>
    intro r fuel hf hr hbetween
    obtain ⟨f, rfl⟩ : ∃ f, fuel = f + 1 := ⟨fuel - 1, by omega⟩
    have hr0 : (r == 0) = false := by simp; omega
    obtain ⟨ch, h1, h2, h3⟩ := hbetween (r - 1) (by omega) (by omega)
    have hrec := ih (r - 1) f (by omega) (by omega) (fun j hj1 hj2 => hbetween j hj1 (by omega))
    have h3' : (ch == S.stem || ch == S.subsequentChild) = true := by
      rcases h3 with h | h <;> simp [h]
    simp [scanCol, hr0, h1, h2, h3', hrec]

theorem scanCol_down (S : HStyle) (grid : List Str) (k : Nat) (stop : Char) (bot : Nat)
    (hbot : charAt grid bot k = some stop) :
    ∀ n r fuel, n < fuel → r + n + 1 = bot →
      (∀ j, r < j → j < bot → ∃ ch, charAt grid j k = some ch ∧ ch ≠ stop ∧ (ch = S.stem ∨ ch = S.subsequentChild)) →
      scanCol S grid k stop false fuel r = some bot := by
  intro n
  induction n with
  | zero =>
    intro r fuel hf hr _
    obtain ⟨f, rfl⟩ : ∃ f, fuel = f + 1 := ⟨fuel - 1, by omega⟩
    have : r + 1 = bot := by omega
    simp [scanCol, this, hbot]
  | succ n ih =>
    intro r fuel hf hr hbetween
    obtain ⟨f, rfl⟩ : ∃ f, fuel = f + 1 := ⟨fuel - 1, by omega⟩
    obtain ⟨ch, h1, h2, h3⟩ := hbetween (r + 1) (by omega) (by omega)
    have hrec := ih (r + 1) f (by omega) (by omega) (fun j hj1 hj2 => hbetween j (by omega) hj2)
    have h3' : (ch == S.stem || ch == S.subsequentChild) = true := by
      rcases h3 with h | h <;> simp [h]
    simp [scanCol, h1, h2, h3', hrec]


/-! ### the rows marked with the branch glyph -/

theorem filter_range'_single (p : Nat → Bool) : ∀ (n lo i : Nat), i < n → p (lo + i) = true →
    (∀ j, j < n → j ≠ i → p (lo + j) = false) → (List.range' lo n).filter p = [lo + i] := by
  intro n
  induction n with
  | zero => intro lo i hi; omega
  | succ n ih =>
    intro lo i hi hp hq
    rw [List.range'_succ]
    cases i with
    | zero =>
      have : (List.range' (lo + 1) n).filter p = [] := by
        rw [List.filter_eq_nil_iff]
        intro a ha
        rw [List.mem_range'_1] at ha
        have := hq (a - lo) (by omega) (by omega)
        rw [show lo + (a - lo) = a by omega] at this
        simp [this]
      simp only [Nat.add_zero] at hp ⊢
      rw [List.filter_cons_of_pos hp, this]
    | succ i =>
      have h0 := hq 0 (by omega) (by omega)
      simp only [Nat.add_zero] at h0
      rw [List.filter_cons_of_neg (by simp [h0])]
      have := ih (lo + 1) i (by omega) (by rw [show lo + 1 + i = lo + (i + 1) by omega]; exact hp)
        (fun j hj hji => by rw [show lo + 1 + j = lo + (j + 1) by omega]; exact hq (j + 1) (by omega) (by omega))
      rw [this]; congr 1; omega

/-- head invariant of a block: the branch glyph starts the node's own row, a blank every other row -/
def HeadInv (b : Char) (p : List Str × Nat) : Prop :=
  ∀ j row, p.1[j]? = some row → row.head? = some (if j = p.2 then b else ' ')

theorem marks_block (S : HStyle) (hb : S.branch ≠ ' ') (grid : List Str) (off col : Nat) (p : List Str × Nat)
    (hp : PInv p) (hh : HeadInv S.branch p) (he : Emb grid off col p.1) :
    (List.range' off p.1.length).filter (fun r' => charAt grid r' col == some S.branch) = [off + p.2] := by
  have key : ∀ j, j < p.1.length → charAt grid (off + j) col = some (if j = p.2 then S.branch else ' ') := by
    intro j hj
    have hrow : p.1[j]? = some p.1[j] := List.getElem?_eq_getElem _
    have := he.charAt hrow 0
    rw [Nat.add_zero] at this
    rw [this, ← List.head?_eq_getElem?]
    exact hh j _ hrow
  apply filter_range'_single _ _ _ _ hp.lt
  · rw [key _ hp.lt]; simp
  · intro j hj hne
    rw [key j hj]; simp [hne]; exact fun h => hb h.symm

theorem cRows_shift (gap : Bool) (ps : List (List Str × Nat)) : ∀ off,
    cRows off gap ps = (cRows 0 gap ps).map (off + ·) := by
  induction ps with
  | nil => intro off; simp [cRows]
  | cons p ps ih =>
    intro off
    simp only [cRows, List.map_cons, Nat.zero_add]
    rw [ih (off + _ + _), ih (p.1.length + _), List.map_map]
    simp [Function.comp_def, Nat.add_assoc]

theorem Emb.split_cons {grid : List Str} {off c : Nat} {gap : Bool} {p : List Str × Nat}
    {ps : List (List Str × Nat)} (h : Emb grid off c (joinGap gap (p :: ps))) :
    Emb grid off c p.1 ∧ Emb grid (off + p.1.length + (if gap then 1 else 0)) c (joinGap gap ps) := by
  cases ps with
  | nil =>
    refine ⟨by simpa [joinGap] using h, ?_⟩
    intro j row hj; simp [joinGap] at hj
  | cons q r =>
    rw [Render.joinGap_cons _ _ _ (by simp)] at h
    refine ⟨h.append_left.append_left, ?_⟩
    have := h.append_right (k := p.1.length + (if gap then 1 else 0)) (by split <;> simp)
    rw [← Nat.add_assoc] at this; exact this

/-- the rows of the joined children blocks that start with the branch glyph are the children's own rows -/
theorem marks_joined (S : HStyle) (hb : S.branch ≠ ' ') (grid : List Str) (col : Nat) (gap : Bool)
    (ps : List (List Str × Nat)) (hinv : ∀ p ∈ ps, PInv p) (hh : ∀ p ∈ ps, HeadInv S.branch p) :
    ∀ off, Emb grid off col (joinGap gap ps) →
      (List.range' off (joinGap gap ps).length).filter (fun r' => charAt grid r' col == some S.branch)
        = cRows off gap ps := by
  induction ps with
  | nil => intro off _; simp [joinGap, cRows]
  | cons p ps ih =>
    intro off he
    obtain ⟨he1, he2⟩ := he.split_cons
    have hm := marks_block S hb grid off col p (hinv p (by simp)) (hh p (by simp)) he1
    have ih' := ih (fun q hq => hinv q (List.mem_cons_of_mem _ hq)) (fun q hq => hh q (List.mem_cons_of_mem _ hq))
      _ he2
    cases ps with
    | nil => simpa [joinGap, cRows] using hm
    | cons q r =>
      rw [joinGap_cons _ _ _ (by simp)] at he ⊢
      cases gap with
      | false =>
        simp only [Bool.false_eq_true, ↓reduceIte, List.append_nil, Nat.add_zero, List.length_append] at he ih' ⊢
        rw [← List.range'_append_1, List.filter_append, hm, ih']
        simp [cRows]
      | true =>
        simp only [↓reduceIte, List.length_append, List.length_cons, List.length_nil, Nat.zero_add] at he ih' ⊢
        rw [← List.range'_append_1, ← List.range'_append_1, List.filter_append, List.filter_append, hm,
          ← Nat.add_assoc, ih']
        have := he.append_left.append_right (k := p.1.length) rfl 0 [] (by simp)
        simp only [Nat.add_zero] at this
        have hnone : charAt grid (off + p.1.length) col = none := by
          unfold charAt
          rw [List.getElem?_eq_none_iff]; exact List.drop_eq_nil_iff.mp this
        simp [cRows, hnone]

/-- the filter restricted to the rows between the first and the last child gives the same list -/
theorem filter_range'_restrict (p : Nat → Bool) (off total first last : Nat) (L : List Nat)
    (hL : (List.range' off total).filter p = L) (hfl : first ≤ last) (hlt : last < total)
    (hb : ∀ x ∈ L, off + first ≤ x ∧ x ≤ off + last) :
    (List.range' (off + first) (last - first + 1)).filter p = L := by
  have e : total = first + ((last - first + 1) + (total - last - 1)) := by omega
  rw [e, ← List.range'_append_1, ← List.range'_append_1, List.filter_append, List.filter_append] at hL
  have h1 : (List.range' off first).filter p = [] := by
    rw [List.filter_eq_nil_iff]
    intro a ha hpa
    have : a ∈ L := by rw [← hL]; simp [List.mem_filter, ha, hpa]
    rw [List.mem_range'_1] at ha
    have := hb a this; omega
  have h3 : (List.range' (off + first + (last - first + 1)) (total - last - 1)).filter p = [] := by
    rw [List.filter_eq_nil_iff]
    intro a ha hpa
    have : a ∈ L := by rw [← hL]; simp [List.mem_filter, ha, hpa]
    rw [List.mem_range'_1] at ha
    have := hb a this; omega
  rw [h1, h3] at hL
  simpa using hL

end Render
