import BigtreeModel.Plot
/-!
# Lemmas about the Reingold–Tilford model (`BigtreeModel/Plot.lean`)

* `Chain` — "consecutive elements are related", with the few list lemmas needed;
* the first pass establishes `Good` on the annotated tree: every node with children sits at
  `midpoint children + mod`, and consecutive children are `sib` apart in `x + shift`;
* `fin` — second and third pass in one closed form; the four Tier-1 facts are read off it.

Only core Lean is used (no Mathlib).
-/

namespace Plot

/-! ## small facts about `Rat` -/

theorem rat_scale_mono {s : Rat} (hs : 0 ≤ s) {m k : Nat} (h : m ≤ k) (j : Nat) :
    s * (m : Rat) / (j : Rat) ≤ s * (k : Rat) / (j : Rat) := by
  have hmk : (m : Rat) ≤ (k : Rat) := by exact_mod_cast h
  have hj : 0 ≤ ((j : Rat))⁻¹ := by
    rcases Nat.eq_zero_or_pos j with h0 | hpos
    · subst h0; simp [Rat.inv_zero]
    · have : (0 : Rat) < (j : Rat) := by exact_mod_cast hpos
      exact Rat.le_of_lt (Rat.inv_pos.mpr this)
  rw [Rat.div_def, Rat.div_def]
  exact Rat.mul_le_mul_of_nonneg_right (Rat.mul_le_mul_of_nonneg_left hmk hs) hj

theorem le_maxL {a : Rat} : ∀ {l : List Rat}, a ∈ l → a ≤ maxL l
  | [b], h => by
    simp at h; subst h; simp [maxL]
  | b :: c :: rest, h => by
    simp only [maxL]
    rcases List.mem_cons.mp h with h | h
    · subst h; grind
    · have := le_maxL (l := c :: rest) h
      grind

/-! ## chains -/

/-- consecutive elements of the list are related by `R` -/
def Chain {α : Type} (R : α → α → Prop) : List α → Prop
  | [] => True
  | [_] => True
  | a :: b :: l => R a b ∧ Chain R (b :: l)

theorem chain_map {α β : Type} (f : α → β) (Q : β → β → Prop) :
    ∀ l : List α, Chain Q (l.map f) ↔ Chain (fun a b => Q (f a) (f b)) l
  | [] => Iff.rfl
  | [_] => Iff.rfl
  | a :: b :: l => by
    have ih := chain_map f Q (b :: l)
    simp only [List.map, Chain] at ih ⊢
    rw [ih]

theorem chain_imp {α : Type} {R S : α → α → Prop} (h : ∀ a b, R a b → S a b) :
    ∀ l : List α, Chain R l → Chain S l
  | [], _ => trivial
  | [_], _ => trivial
  | _ :: b :: l, hc => ⟨h _ _ hc.1, chain_imp h (b :: l) hc.2⟩

theorem chain_snoc {α : Type} {R : α → α → Prop} (n : α) :
    ∀ l : List α, Chain R l → (∀ z, l.getLast? = some z → R z n) → Chain R (l ++ [n])
  | [], _, _ => trivial
  | [a], _, h => ⟨h a rfl, trivial⟩
  | _ :: b :: l, hc, h => by
    refine ⟨hc.1, ?_⟩
    have := chain_snoc n (b :: l) hc.2 (by
      intro z hz; apply h; simpa [List.getLast?_cons_cons] using hz)
    simpa using this

theorem chain_get {α : Type} {R : α → α → Prop} :
    ∀ (l : List α), Chain R l → ∀ (i : Nat) (h : i + 1 < l.length), R (l[i]'(by omega)) l[i + 1]
  | [], _, i, h => by simp at h
  | [_], _, i, h => by simp at h
  | a :: b :: l, hc, 0, _ => hc.1
  | _ :: b :: l, hc, i + 1, h => by
    have := chain_get (b :: l) hc.2 i (by simpa using h)
    simpa using this

/-! ## `FT`: induction, subtrees -/

theorem FT.ind {P : FT → Prop}
    (h : ∀ x y cs, (∀ c ∈ cs, P c) → P (.node x y cs)) : ∀ t, P t
  | .node x y cs => h x y cs (fun c _ => FT.ind h c)

theorem PT.ind {P : PT → Prop}
    (h : ∀ x m s cs, (∀ c ∈ cs, P c) → P (.node x m s cs)) : ∀ t, P t
  | .node x m s cs => h x m s cs (fun c _ => PT.ind h c)

theorem mem_subtreesL {s : FT} : ∀ {cs : List FT}, s ∈ FT.subtreesL cs ↔ ∃ c ∈ cs, s ∈ c.subtrees
  | [] => by simp [FT.subtreesL]
  | c :: cs => by simp [FT.subtreesL, mem_subtreesL (cs := cs)]

theorem mem_subtrees_node {s : FT} {x y : Rat} {cs : List FT} :
    s ∈ (FT.node x y cs).subtrees ↔ s = .node x y cs ∨ ∃ c ∈ cs, s ∈ c.subtrees := by
  simp [FT.subtrees, mem_subtreesL]

theorem self_mem_subtrees : ∀ t : FT, t ∈ t.subtrees
  | .node x y cs => by simp [FT.subtrees]

theorem mem_withDepthL {p : Nat × FT} {d : Nat} :
    ∀ {cs : List FT}, p ∈ FT.withDepthL d cs ↔ ∃ c ∈ cs, p ∈ c.withDepth d
  | [] => by simp [FT.withDepthL]
  | c :: cs => by simp [FT.withDepthL, mem_withDepthL (cs := cs)]

theorem mem_withDepth_node {p : Nat × FT} {d : Nat} {x y : Rat} {cs : List FT} :
    p ∈ (FT.node x y cs).withDepth d ↔ p = (d, .node x y cs) ∨ ∃ c ∈ cs, p ∈ c.withDepth (d + 1) := by
  simp [FT.withDepth, mem_withDepthL]

theorem addXL_eq_map (a : Rat) : ∀ cs : List FT, addXL a cs = cs.map (addX a)
  | [] => rfl
  | c :: cs => by simp [addXL, addXL_eq_map a cs]

theorem addX_zero : ∀ t : FT, addX 0 t = t := by
  apply FT.ind
  intro x y cs ih
  simp only [addX, addXL_eq_map, Rat.add_zero]
  congr 1
  conv => rhs; rw [← List.map_id cs]
  exact List.map_congr_left (fun c hc => by simpa using ih c hc)

theorem thirdPass_eq (a : Rat) (t : FT) : thirdPass a t = addX a t := by
  unfold thirdPass
  split
  · next h => subst h; exact (addX_zero t).symm
  · rfl

/-! ## second + third pass in closed form -/

theorem secondPassL_eq_map (P : Params) (H d : Nat) (c : Rat) :
    ∀ cs : List PT, secondPassL P H d c cs = cs.map (secondPass P H d c)
  | [] => rfl
  | k :: cs => by simp [secondPassL, secondPassL_eq_map P H d c cs]

/-- final tree: second pass at depth `d` with cumulative `c`, then shifted by `a` -/
def fin (P : Params) (H : Nat) (a : Rat) (d : Nat) (c : Rat) (t : PT) : FT :=
  addX a (secondPass P H d c t).1

theorem fin_node (P : Params) (H : Nat) (a : Rat) (d : Nat) (c x m s : Rat) (cs : List PT) :
    fin P H a d c (.node x m s cs) =
      .node (x + s + c + P.xoff + a) (((H : Rat) - (d : Rat)) * P.lvl + P.yoff)
        (cs.map (fin P H a (d + 1) (c + m + s))) := by
  simp [fin, secondPass, addX, addXL_eq_map, secondPassL_eq_map, List.map_map, Function.comp_def]

theorem fin_x (P : Params) (H : Nat) (a : Rat) (d : Nat) (c : Rat) (t : PT) :
    (fin P H a d c t).x = t.x + t.shift + c + P.xoff + a := by
  cases t; simp [fin_node]

/-- the adjustment returned by the second pass -/
def adjOf (P : Params) (H d : Nat) (c : Rat) (t : PT) : Rat := (secondPass P H d c t).2

theorem adjOf_node (P : Params) (H d : Nat) (c x m s : Rat) (cs : List PT) :
    adjOf P H d c (.node x m s cs) =
      if cs.isEmpty then max 0 (-(x + s + c + P.xoff))
      else maxL (cs.map (adjOf P H (d + 1) (c + m + s))) := by
  simp [adjOf, secondPass, secondPassL_eq_map, List.map_map, Function.comp_def]
  rfl

theorem passes_eq (P : Params) (t : ST) :
    passes P t =
      fin P (firstPass P t).height (adjOf P (firstPass P t).height 1 0 (firstPass P t)) 1 0
        (firstPass P t) := by
  simp [passes, thirdPass_eq, fin, adjOf]

/-! ## what the first pass establishes (`Good`), and what follows for the final tree -/

/-- separation of consecutive siblings in the annotated tree -/
def SepR (sib : Rat) (a b : PT) : Prop := a.x + a.shift + sib ≤ b.x + b.shift

/-- consecutive siblings have preliminary `x` exactly `sib` apart -/
def XChain (sib : Rat) (cs : List PT) : Prop := Chain (fun a b => b = a + sib) (cs.map PT.x)

mutual
/-- every node with children sits at `midpoint children + mod`, and the preliminary `x` of
    consecutive children are `sib` apart (whatever the shifts on entry) -/
def Good (sib : Rat) : PT → Prop
  | .node x m _ cs => (cs ≠ [] → x = midpoint cs + m) ∧ XChain sib cs ∧ GoodL sib cs
def GoodL (sib : Rat) : List PT → Prop
  | [] => True
  | c :: cs => Good sib c ∧ GoodL sib cs
end

theorem goodL_iff {sib : Rat} : ∀ {cs : List PT}, GoodL sib cs ↔ ∀ c ∈ cs, Good sib c
  | [] => by simp [GoodL]
  | c :: cs => by simp [GoodL, goodL_iff (cs := cs)]

theorem good_node {sib x m s : Rat} {cs : List PT} :
    Good sib (.node x m s cs) ↔
      (cs ≠ [] → x = midpoint cs + m) ∧ XChain sib cs ∧ ∀ c ∈ cs, Good sib c := by
  simp [Good, goodL_iff]

theorem good_addShift {sib d : Rat} : ∀ {t : PT}, Good sib (t.addShift d) ↔ Good sib t
  | .node x m s cs => by simp [PT.addShift, Good]

/-- the mid-point clause on a final node -/
def MidOK (s : FT) : Prop :=
  ∀ f l, s.children.head? = some f → s.children.getLast? = some l → s.x = (f.x + l.x) / 2

/-- levels: `y` is a function of the depth -/
theorem fin_levels (P : Params) (H : Nat) (a : Rat) :
    ∀ (t : PT) (d : Nat) (c : Rat), ∀ p ∈ (fin P H a d c t).withDepth d,
      p.2.y = ((H : Rat) - (p.1 : Rat)) * P.lvl + P.yoff := by
  apply PT.ind
  intro x m s cs ih d c p hp
  rw [fin_node, mem_withDepth_node] at hp
  rcases hp with rfl | ⟨k, hk, hp⟩
  · simp
  · obtain ⟨k0, hk0, rfl⟩ := List.mem_map.mp hk
    exact ih k0 hk0 _ _ p hp

theorem fin_midpoint (P : Params) (H : Nat) (a : Rat) :
    ∀ (t : PT), Good P.sib t → ∀ (d : Nat) (c : Rat), ∀ s ∈ (fin P H a d c t).subtrees, MidOK s := by
  apply PT.ind
  intro x m s cs ih hg d c n hn
  rw [good_node] at hg
  rw [fin_node, mem_subtrees_node] at hn
  rcases hn with rfl | ⟨k, hk, hn⟩
  · intro f l hf hl
    simp only [FT.children_node, List.head?_map, List.getLast?_map] at hf hl
    cases hf0 : cs.head? with
    | none => simp [hf0] at hf
    | some f0 =>
      cases hl0 : cs.getLast? with
      | none => simp [hl0] at hl
      | some l0 =>
        simp [hf0] at hf; simp [hl0] at hl
        subst hf; subst hl
        have hne : cs ≠ [] := by intro h; subst h; simp at hf0
        have hx := hg.1 hne
        simp only [midpoint, hf0, hl0] at hx
        simp only [FT.x_node, fin_x]
        grind
  · obtain ⟨k0, hk0, rfl⟩ := List.mem_map.mp hk
    exact ih k0 hk0 (hg.2.2 k0 hk0) _ _ n hn

mutual
/-- `Q` holds of the shift vector of every sibling group of the annotated tree -/
def PT.AllGroups (Q : List Rat → Prop) : PT → Prop
  | .node _ _ _ cs => Q (cs.map PT.shift) ∧ PT.AllGroupsL Q cs
def PT.AllGroupsL (Q : List Rat → Prop) : List PT → Prop
  | [] => True
  | c :: cs => PT.AllGroups Q c ∧ PT.AllGroupsL Q cs
end

theorem PT.allGroupsL_iff {Q : List Rat → Prop} :
    ∀ {cs : List PT}, PT.AllGroupsL Q cs ↔ ∀ c ∈ cs, PT.AllGroups Q c
  | [] => by simp [PT.AllGroupsL]
  | c :: cs => by simp [PT.AllGroupsL, PT.allGroupsL_iff (cs := cs)]

theorem PT.allGroups_node {Q : List Rat → Prop} {x m s : Rat} {cs : List PT} :
    PT.AllGroups Q (.node x m s cs) ↔ Q (cs.map PT.shift) ∧ ∀ c ∈ cs, PT.AllGroups Q c := by
  simp [PT.AllGroups, PT.allGroupsL_iff]

theorem PT.allGroups_addShift {Q : List Rat → Prop} {d : Rat} :
    ∀ {t : PT}, PT.AllGroups Q (t.addShift d) ↔ PT.AllGroups Q t
  | .node x m s cs => by simp [PT.addShift, PT.AllGroups]

/-- the stored shifts are non-decreasing from left to right within every sibling group -/
def MonoPT (t : PT) : Prop := t.AllGroups (fun l => l.Pairwise (· ≤ ·))

theorem sep_of_xchain {sib : Rat} : ∀ (l : List PT),
    Chain (fun a b => b = a + sib) (l.map PT.x) → (l.map PT.shift).Pairwise (· ≤ ·) → Chain (SepR sib) l
  | [], _, _ => trivial
  | [_], _, _ => trivial
  | a :: b :: l, hx, hs => by
    simp only [List.map, Chain] at hx
    simp only [List.map, List.pairwise_cons] at hs
    refine ⟨?_, sep_of_xchain (b :: l) hx.2 (by simpa [List.pairwise_cons] using hs.2)⟩
    have h1 := hx.1
    have h2 := hs.1 b.shift (by simp)
    unfold SepR
    grind

theorem fin_siblings (P : Params) (H : Nat) (a : Rat) :
    ∀ (t : PT), Good P.sib t → MonoPT t → ∀ (d : Nat) (c : Rat), ∀ s ∈ (fin P H a d c t).subtrees,
      Chain (fun u v => u.x + P.sib ≤ v.x) s.children := by
  apply PT.ind
  intro x m s cs ih hg hm d c n hn
  rw [good_node] at hg
  unfold MonoPT at hm
  rw [PT.allGroups_node] at hm
  rw [fin_node, mem_subtrees_node] at hn
  rcases hn with rfl | ⟨k, hk, hn⟩
  · simp only [FT.children_node]
    rw [chain_map]
    refine chain_imp ?_ cs (sep_of_xchain cs hg.2.1 hm.1)
    intro u v huv
    simp only [fin_x]
    unfold SepR at huv
    grind
  · obtain ⟨k0, hk0, rfl⟩ := List.mem_map.mp hk
    exact ih k0 hk0 (hg.2.2 k0 hk0) (hm.2 k0 hk0) _ _ n hn

/-- every leaf of the second-pass tree is at least `-adj` -/
theorem fin_leaves (P : Params) (H : Nat) (a : Rat) :
    ∀ (t : PT) (d : Nat) (c : Rat), ∀ s ∈ (fin P H a d c t).subtrees, s.children = [] →
      0 ≤ s.x - a + adjOf P H d c t := by
  apply PT.ind
  intro x m s cs ih d c n hn hleaf
  rw [fin_node, mem_subtrees_node] at hn
  rw [adjOf_node]
  rcases hn with rfl | ⟨k, hk, hn⟩
  · simp only [FT.children_node, List.map_eq_nil_iff] at hleaf
    subst hleaf
    simp only [List.isEmpty_nil, if_true, FT.x_node]
    grind
  · obtain ⟨k0, hk0, rfl⟩ := List.mem_map.mp hk
    have h1 := ih k0 hk0 _ _ n hn hleaf
    have hne : cs.isEmpty = false := by cases cs <;> simp_all
    simp only [hne]
    have h2 : adjOf P H (d + 1) (c + m + s) k0 ≤ maxL (cs.map (adjOf P H (d + 1) (c + m + s))) :=
      le_maxL (List.mem_map.mpr ⟨k0, hk0, rfl⟩)
    simp
    grind

/-- mid-point property + non-negative leaves ⇒ every node is non-negative -/
theorem nonneg_of_mid : ∀ t : FT, (∀ s ∈ t.subtrees, MidOK s) →
    (∀ s ∈ t.subtrees, s.children = [] → 0 ≤ s.x) → ∀ s ∈ t.subtrees, 0 ≤ s.x := by
  apply FT.ind
  intro x y cs ih hmid hleaf n hn
  rcases mem_subtrees_node.mp hn with rfl | ⟨k, hk, hn'⟩
  · cases hf0 : cs.head? with
    | none =>
      have : cs = [] := by cases cs <;> simp_all
      exact hleaf _ (self_mem_subtrees _) (by simpa using this)
    | some f0 =>
      cases hl0 : cs.getLast? with
      | none => cases cs <;> simp_all
      | some l0 =>
        have hx := hmid _ (self_mem_subtrees _) f0 l0 (by simpa using hf0) (by simpa using hl0)
        have hfm : f0 ∈ cs := List.mem_of_mem_head? (by simp [hf0])
        have hlm : l0 ∈ cs := List.mem_of_getLast? hl0
        have sub : ∀ k ∈ cs, 0 ≤ k.x := fun k hk =>
          ih k hk (fun s hs => hmid s (mem_subtrees_node.mpr (Or.inr ⟨k, hk, hs⟩)))
            (fun s hs => hleaf s (mem_subtrees_node.mpr (Or.inr ⟨k, hk, hs⟩))) k (self_mem_subtrees k)
        have h1 := sub f0 hfm
        have h2 := sub l0 hlm
        simp only [FT.x_node] at hx ⊢
        grind
  · exact ih k hk (fun s hs => hmid s (mem_subtrees_node.mpr (Or.inr ⟨k, hk, hs⟩)))
      (fun s hs => hleaf s (mem_subtrees_node.mpr (Or.inr ⟨k, hk, hs⟩))) n hn'

/-! ## the first pass establishes `Good` -/

theorem bumpPT_map_x (s : Rat) (j : Nat) : ∀ (m : Nat) (l : List PT),
    (bumpPT s j m l).map PT.x = l.map PT.x
  | _, [] => rfl
  | m, .node x md sh cs :: l => by simp [bumpPT, PT.addShift, bumpPT_map_x s j (m + 1) l]

theorem bumpPT_map_shift (s : Rat) (j : Nat) : ∀ (m : Nat) (l : List PT),
    (bumpPT s j m l).map PT.shift = bumpR s j m (l.map PT.shift)
  | _, [] => rfl
  | m, .node x md sh cs :: l => by
    simp [bumpPT, bumpR, PT.addShift, bumpPT_map_shift s j (m + 1) l]

theorem bumpPT_good {sib : Rat} (s : Rat) (j : Nat) : ∀ (m : Nat) (l : List PT),
    (∀ k ∈ l, Good sib k) → ∀ k ∈ bumpPT s j m l, Good sib k
  | _, [], _, k, hk => by simp [bumpPT] at hk
  | m, n :: l, h, k, hk => by
    simp only [bumpPT, List.mem_cons] at hk
    rcases hk with rfl | hk
    · exact good_addShift.mpr (h n (by simp))
    · exact bumpPT_good s j (m + 1) l (fun k hk => h k (by simp [hk])) k hk

theorem bumpR_append (s : Rat) (j : Nat) : ∀ (m : Nat) (l1 l2 : List Rat),
    bumpR s j m (l1 ++ l2) = bumpR s j m l1 ++ bumpR s j (m + l1.length) l2
  | _, [], _ => by simp [bumpR]
  | m, a :: l1, l2 => by
    simp only [List.cons_append, bumpR, List.length_cons, bumpR_append s j (m + 1) l1 l2]
    congr 3
    omega

theorem bumpR_length (s : Rat) (j : Nat) : ∀ (m : Nat) (l : List Rat), (bumpR s j m l).length = l.length
  | _, [] => rfl
  | m, a :: l => by simp [bumpR, bumpR_length s j (m + 1) l]

theorem bumpR_mem {s : Rat} {j : Nat} {y : Rat} : ∀ {m : Nat} {l : List Rat}, y ∈ bumpR s j m l →
    ∃ x ∈ l, ∃ k, m ≤ k ∧ y = x + s * (k : Rat) / (j : Rat)
  | _, [], h => by simp [bumpR] at h
  | m, a :: l, h => by
    simp only [bumpR, List.mem_cons] at h
    rcases h with rfl | h
    · exact ⟨a, by simp, m, Nat.le_refl _, rfl⟩
    · obtain ⟨x, hx, k, hk, rfl⟩ := bumpR_mem (m := m + 1) (l := l) h
      exact ⟨x, by simp [hx], k, by omega, rfl⟩

theorem bumpR_pairwise {s : Rat} (hs : 0 ≤ s) (j : Nat) : ∀ (m : Nat) (l : List Rat),
    l.Pairwise (· ≤ ·) → (bumpR s j m l).Pairwise (· ≤ ·)
  | _, [], _ => by simp [bumpR]
  | m, a :: l, h => by
    rw [List.pairwise_cons] at h
    simp only [bumpR, List.pairwise_cons]
    refine ⟨?_, bumpR_pairwise hs j (m + 1) l h.2⟩
    intro y hy
    obtain ⟨x, hx, k, hk, rfl⟩ := bumpR_mem hy
    have h1 := h.1 x hx
    have h2 := rat_scale_mono hs (show m ≤ k by omega) j
    grind

theorem maxShift_nonneg (sub : Rat) (node : PT) (ri : Nat) : ∀ (l : List PT) (idx : Nat) (acc : Rat),
    0 ≤ acc → 0 ≤ maxShift sub node ri l idx acc
  | [], _, _, h => h
  | k :: l, idx, acc, h => by
    simp only [maxShift]
    apply maxShift_nonneg
    grind

/-- loop invariant of the sibling loop (independent of the shifts) -/
structure Inv (sib : Rat) (done : List PT) : Prop where
  xs : XChain sib done
  good : ∀ k ∈ done, Good sib k

/-- what the loop delivers -/
def KidsOK (sib : Rat) (kids : List PT) : Prop := XChain sib kids ∧ ∀ k ∈ kids, Good sib k

theorem place_shift (sib : Rat) (done : List PT) (h : Rat) (kids : List PT) :
    (place sib done h kids).shift = h := by
  unfold place; cases done.getLast? <;> simp

theorem place_children (sib : Rat) (done : List PT) (h : Rat) (kids : List PT) :
    (place sib done h kids).children = kids := by
  unfold place; cases done.getLast? <;> simp

theorem place_x (sib : Rat) (done : List PT) (h : Rat) (kids : List PT) (z : PT)
    (hz : done.getLast? = some z) : (place sib done h kids).x = z.x + sib := by
  unfold place; simp [hz]

theorem place_good (sib : Rat) (done : List PT) (h : Rat) (kids : List PT) (hk : KidsOK sib kids) :
    Good sib (place sib done h kids) := by
  unfold place
  cases done.getLast? with
  | none =>
    dsimp only
    rw [good_node]
    refine ⟨?_, hk.1, hk.2⟩
    intro hne
    have : kids.isEmpty = false := by cases kids <;> simp_all
    simp only [this]
    grind
  | some z =>
    dsimp only
    rw [good_node]
    refine ⟨?_, hk.1, hk.2⟩
    intro hne
    have : kids.isEmpty = false := by cases kids <;> simp_all
    simp only [this]
    grind

theorem shiftSiblings_snd_length (sub : Rat) (done : List PT) (node : PT) (tl : List Rat) :
    (shiftSiblings sub done node tl).2.length = tl.length := by
  unfold shiftSiblings
  dsimp only
  split <;> simp [bumpR_length]

theorem shiftSiblings_inv {sib sub : Rat} {done : List PT} {tl : List Rat} {node : PT}
    (hinv : Inv sib done)
    (hx : ∀ z, done.getLast? = some z → node.x = z.x + sib) (hgood : Good sib node) :
    Inv sib (shiftSiblings sub done node tl).1 := by
  have hall : Inv sib (done ++ [node]) := by
    refine ⟨?_, ?_⟩
    · unfold XChain
      rw [List.map_append]
      apply chain_snoc _ _ hinv.xs
      intro z hz
      rw [List.getLast?_map] at hz
      cases hl : done.getLast? with
      | none => simp [hl] at hz
      | some z0 =>
        simp [hl] at hz; subst hz
        simpa using hx z0 hl
    · intro k hk
      rcases List.mem_append.mp hk with hk | hk
      · exact hinv.good k hk
      · simp at hk; subst hk; exact hgood
  unfold shiftSiblings
  by_cases hj : done.length = 0
  · simp only [hj, if_true]; exact hall
  · simp only [hj, if_false]
    refine ⟨?_, ?_⟩
    · unfold XChain; rw [bumpPT_map_x]; exact hall.xs
    · exact bumpPT_good _ _ _ _ hall.good

theorem fpGroup_ok (P : Params) : ∀ (ts : List ST), (∀ t ∈ ts, KidsOK P.sib (fpKids P t)) →
    ∀ (done : List PT) (pend : List Rat), Inv P.sib done → KidsOK P.sib (fpGroup P ts done pend)
  | [], _, done, pend, hinv => by
    simp only [fpGroup]
    exact ⟨hinv.xs, hinv.good⟩
  | t :: ts, ih, done, pend, hinv => by
    simp only [fpGroup]
    have hk := ih t (by simp)
    exact fpGroup_ok P ts (fun t ht => ih t (by simp [ht])) _ _
      (shiftSiblings_inv hinv (fun z hz => place_x _ _ _ _ z hz) (place_good _ _ _ _ hk))

theorem ST.ind {P : ST → Prop}
    (h : ∀ s cs, (∀ c ∈ cs, P c) → P (.node s cs)) : ∀ t, P t
  | .node s cs => h s cs (fun c _ => ST.ind h c)

theorem fpKids_ok (P : Params) : ∀ t : ST, KidsOK P.sib (fpKids P t) := by
  apply ST.ind
  intro s cs ih
  simp only [fpKids]
  exact fpGroup_ok P cs ih _ _ ⟨trivial, by simp⟩

/-- holds for ARBITRARY shifts on entry -/
theorem firstPass_good (P : Params) (t : ST) : Good P.sib (firstPass P t) := by
  have h := fpKids_ok P t
  simp only [firstPass]
  rw [good_node]
  exact ⟨fun _ => by grind, h.1, h.2⟩

/-! ## conditions on the shift vectors of the sibling groups are carried through a run -/

/-- `Q` survives the shift loop: adding `s·m/j` (`s ≥ 0`) to the `m`-th component -/
def BumpClosed (Q : List Rat → Prop) : Prop :=
  ∀ (s : Rat) (j : Nat) (l : List Rat), 0 ≤ s → Q l → Q (bumpR s j 0 l)

theorem bumpClosed_mono : BumpClosed (fun l => l.Pairwise (· ≤ ·)) :=
  fun _ j l hs h => bumpR_pairwise hs j 0 l h

theorem bumpClosed_nonneg : BumpClosed (fun l => ∀ s ∈ l, (0 : Rat) ≤ s) := by
  intro s j l hs h y hy
  obtain ⟨x, hx, k, _, rfl⟩ := bumpR_mem hy
  have h1 := h x hx
  have h2 := rat_scale_mono hs (Nat.zero_le k) j
  have hz : ((0 : Nat) : Rat) = 0 := by first | rfl | simp | exact_mod_cast rfl
  have h3 : s * ((0 : Nat) : Rat) / (j : Rat) = 0 := by rw [hz, Rat.mul_zero, Rat.div_def, Rat.zero_mul]
  grind

theorem bumpPT_allGroups {Q : List Rat → Prop} (s : Rat) (j : Nat) : ∀ (m : Nat) (l : List PT),
    (∀ k ∈ l, PT.AllGroups Q k) → ∀ k ∈ bumpPT s j m l, PT.AllGroups Q k
  | _, [], _, k, hk => by simp [bumpPT] at hk
  | m, n :: l, h, k, hk => by
    simp only [bumpPT, List.mem_cons] at hk
    rcases hk with rfl | hk
    · exact PT.allGroups_addShift.mpr (h n (by simp))
    · exact bumpPT_allGroups s j (m + 1) l (fun k hk => h k (by simp [hk])) k hk

theorem place_allGroups {Q : List Rat → Prop} (sib : Rat) (done : List PT) (h : Rat) (kids : List PT)
    (hq : Q (kids.map PT.shift)) (hk : ∀ k ∈ kids, PT.AllGroups Q k) :
    PT.AllGroups Q (place sib done h kids) := by
  unfold place
  cases done.getLast? <;> (dsimp only; rw [PT.allGroups_node]; exact ⟨hq, hk⟩)

/-- what the loop delivers for `Q` -/
def KidsQ (Q : List Rat → Prop) (kids : List PT) : Prop :=
  Q (kids.map PT.shift) ∧ ∀ k ∈ kids, PT.AllGroups Q k

theorem shiftSiblings_q {Q : List Rat → Prop} (hQ : BumpClosed Q) {sub : Rat} {done : List PT}
    {h : Rat} {tl : List Rat} {node : PT}
    (hq : Q (done.map PT.shift ++ h :: tl)) (hd : ∀ k ∈ done, PT.AllGroups Q k)
    (hshift : node.shift = h) (hn : PT.AllGroups Q node) :
    Q ((shiftSiblings sub done node tl).1.map PT.shift ++ (shiftSiblings sub done node tl).2) ∧
      ∀ k ∈ (shiftSiblings sub done node tl).1, PT.AllGroups Q k := by
  have hq' : Q ((done ++ [node]).map PT.shift ++ tl) := by simpa [hshift] using hq
  have hd' : ∀ k ∈ done ++ [node], PT.AllGroups Q k := by
    intro k hk
    rcases List.mem_append.mp hk with hk | hk
    · exact hd k hk
    · simp at hk; subst hk; exact hn
  unfold shiftSiblings
  by_cases hj : done.length = 0
  · simp only [hj, if_true]; exact ⟨hq', hd'⟩
  · simp only [hj, if_false]
    have hs : 0 ≤ maxShift sub node done.length done 0 0 :=
      maxShift_nonneg sub node _ done 0 0 (Rat.le_refl)
    refine ⟨?_, bumpPT_allGroups _ _ _ _ hd'⟩
    rw [bumpPT_map_shift]
    have := hQ _ done.length _ hs hq'
    rw [bumpR_append] at this
    simpa [Nat.add_comm] using this

theorem fpGroup_q {Q : List Rat → Prop} (hQ : BumpClosed Q) (P : Params) : ∀ (ts : List ST),
    (∀ t ∈ ts, KidsQ Q (fpKids P t)) → ∀ (done : List PT) (pend : List Rat),
      Q (done.map PT.shift ++ pend) → (∀ k ∈ done, PT.AllGroups Q k) → pend.length = ts.length →
      KidsQ Q (fpGroup P ts done pend)
  | [], _, done, pend, hq, hd, hlen => by
    simp only [fpGroup]
    have : pend = [] := by cases pend <;> simp_all
    subst this
    exact ⟨by simpa using hq, hd⟩
  | t :: ts, ih, done, pend, hq, hd, hlen => by
    cases pend with
    | nil => simp at hlen
    | cons h tl =>
      simp only [fpGroup, List.headD_cons, List.tail_cons]
      have hk := ih t (by simp)
      have hstep := shiftSiblings_q hQ (sub := P.sub) (node := place P.sib done h (fpKids P t)) hq hd
        (place_shift _ _ _ _) (place_allGroups _ _ _ _ hk.1 hk.2)
      apply fpGroup_q hQ P ts (fun t ht => ih t (by simp [ht])) _ _ hstep.1 hstep.2
      rw [shiftSiblings_snd_length]; simpa using hlen

theorem ST.allGroupsL_iff {Q : List Rat → Prop} :
    ∀ {cs : List ST}, ST.AllGroupsL Q cs ↔ ∀ c ∈ cs, ST.AllGroups Q c
  | [] => by simp [ST.AllGroupsL]
  | c :: cs => by simp [ST.AllGroupsL, ST.allGroupsL_iff (cs := cs)]

theorem ST.allGroups_node {Q : List Rat → Prop} {s : Rat} {cs : List ST} :
    ST.AllGroups Q (.node s cs) ↔ Q (cs.map ST.shift) ∧ ∀ c ∈ cs, ST.AllGroups Q c := by
  simp [ST.AllGroups, ST.allGroupsL_iff]

theorem fpKids_q {Q : List Rat → Prop} (hQ : BumpClosed Q) (P : Params) :
    ∀ t : ST, t.AllGroups Q → KidsQ Q (fpKids P t) := by
  apply ST.ind
  intro s cs ih h
  rw [ST.allGroups_node] at h
  simp only [fpKids]
  exact fpGroup_q hQ P cs (fun t ht => ih t ht (h.2 t ht)) _ _ (by simpa using h.1) (by simp) (by simp)

theorem firstPass_q {Q : List Rat → Prop} (hQ : BumpClosed Q) (P : Params) (t : ST)
    (h : t.AllGroups Q) : (firstPass P t).AllGroups Q := by
  have hk := fpKids_q hQ P t h
  simp only [firstPass]
  rw [PT.allGroups_node]
  exact hk

theorem PT.toSTL_eq_map : ∀ cs : List PT, PT.toSTL cs = cs.map PT.toST
  | [] => rfl
  | c :: cs => by simp [PT.toSTL, PT.toSTL_eq_map cs]

theorem PT.toST_shift : ∀ t : PT, t.toST.shift = t.shift
  | .node _ _ _ _ => by simp [PT.toST]

theorem toST_allGroups {Q : List Rat → Prop} : ∀ t : PT, t.toST.AllGroups Q ↔ t.AllGroups Q := by
  apply PT.ind
  intro x m s cs ih
  simp only [PT.toST, PT.toSTL_eq_map]
  rw [ST.allGroups_node, PT.allGroups_node]
  simp only [List.map_map, List.mem_map]
  constructor
  · rintro ⟨h1, h2⟩
    refine ⟨?_, fun c hc => (ih c hc).mp (h2 _ ⟨c, hc, rfl⟩)⟩
    have : cs.map (ST.shift ∘ PT.toST) = cs.map PT.shift :=
      List.map_congr_left (fun c _ => by simp [PT.toST_shift])
    rwa [this] at h1
  · rintro ⟨h1, h2⟩
    refine ⟨?_, ?_⟩
    · have : cs.map (ST.shift ∘ PT.toST) = cs.map PT.shift :=
        List.map_congr_left (fun c _ => by simp [PT.toST_shift])
      rwa [this]
    · rintro _ ⟨c, hc, rfl⟩
      exact (ih c hc).mpr (h2 c hc)

/-- a run carries `Q` from the entry shifts to the stored shifts -/
theorem stored_q {Q : List Rat → Prop} (hQ : BumpClosed Q) (P : Params) (t : ST)
    (h : t.clear.AllGroups Q) : (stored P t).AllGroups Q :=
  (toST_allGroups _).mpr (firstPass_q hQ P t.clear h)

/-! ## structural edits keep the conditions -/

theorem mem_modNth {g : ST → ST} {y : ST} : ∀ {i : Nat} {l : List ST},
    y ∈ modNth g i l → y ∈ l ∨ ∃ c ∈ l, y = g c
  | _, [], h => by simp [modNth] at h
  | 0, c :: cs, h => by
    simp only [modNth, List.mem_cons] at h
    rcases h with rfl | h
    · exact Or.inr ⟨c, by simp, rfl⟩
    · exact Or.inl (by simp [h])
  | i + 1, c :: cs, h => by
    simp only [modNth, List.mem_cons] at h
    rcases h with rfl | h
    · exact Or.inl (by simp)
    · rcases mem_modNth (i := i) (l := cs) h with h | ⟨c', hc', rfl⟩
      · exact Or.inl (by simp [h])
      · exact Or.inr ⟨c', by simp [hc'], rfl⟩

theorem modNth_map_shift {g : ST → ST} (hg : ∀ c, (g c).shift = c.shift) : ∀ (i : Nat) (l : List ST),
    (modNth g i l).map ST.shift = l.map ST.shift
  | 0, [] => rfl
  | _ + 1, [] => rfl
  | 0, c :: cs => by simp [modNth, hg]
  | i + 1, c :: cs => by simp [modNth, modNth_map_shift hg i cs]

theorem modifyAt_shift (f : List ST → List ST) : ∀ (p : List Nat) (t : ST),
    (t.modifyAt f p).shift = t.shift
  | [], .node _ _ => rfl
  | _ :: _, .node _ _ => rfl

/-- an edit of one child list keeps `Q` on every sibling group provided the new child list
    satisfies `Q` and consists of acceptable subtrees -/
theorem modifyAt_allGroups {Q : List Rat → Prop} (f : List ST → List ST)
    (hf : ∀ cs, Q (cs.map ST.shift) → (∀ c ∈ cs, ST.AllGroups Q c) →
      Q ((f cs).map ST.shift) ∧ ∀ c ∈ f cs, ST.AllGroups Q c) :
    ∀ (p : List Nat) (t : ST), t.AllGroups Q → (t.modifyAt f p).AllGroups Q
  | [], .node s cs, h => by
    rw [ST.allGroups_node] at h
    simp only [ST.modifyAt]
    rw [ST.allGroups_node]
    exact hf cs h.1 h.2
  | i :: p, .node s cs, h => by
    rw [ST.allGroups_node] at h
    simp only [ST.modifyAt]
    rw [ST.allGroups_node, modNth_map_shift (modifyAt_shift f p)]
    refine ⟨h.1, ?_⟩
    intro c hc
    rcases mem_modNth hc with hc | ⟨c', hc', rfl⟩
    · exact h.2 c hc
    · exact modifyAt_allGroups f hf p c' (h.2 c' hc')

theorem eraseIdx_map {α β : Type} (f : α → β) : ∀ (l : List α) (i : Nat),
    (l.eraseIdx i).map f = (l.map f).eraseIdx i
  | [], _ => rfl
  | _ :: _, 0 => rfl
  | a :: l, i + 1 => by simp [List.eraseIdx, eraseIdx_map f l i]

theorem mem_of_mem_eraseIdx' {α : Type} {a : α} : ∀ {l : List α} {i : Nat}, a ∈ l.eraseIdx i → a ∈ l
  | [], _, h => by simp at h
  | _ :: _, 0, h => by simp [List.eraseIdx] at h; simp [h]
  | b :: l, i + 1, h => by
    simp only [List.eraseIdx, List.mem_cons] at h
    rcases h with rfl | h
    · simp
    · simp [mem_of_mem_eraseIdx' h]

theorem pairwise_eraseIdx {R : Rat → Rat → Prop} : ∀ (l : List Rat) (i : Nat),
    l.Pairwise R → (l.eraseIdx i).Pairwise R
  | [], _, h => by simp
  | _ :: l, 0, h => by
    rw [List.pairwise_cons] at h; simpa [List.eraseIdx] using h.2
  | a :: l, i + 1, h => by
    rw [List.pairwise_cons] at h
    simp only [List.eraseIdx, List.pairwise_cons]
    exact ⟨fun b hb => h.1 b (mem_of_mem_eraseIdx' hb), pairwise_eraseIdx l i h.2⟩

/-! ## fresh trees -/

theorem ST.ofTrees_eq_map : ∀ cs : List Tree, ST.ofTrees cs = cs.map ST.ofTree
  | [] => rfl
  | c :: cs => by simp [ST.ofTrees, ST.ofTrees_eq_map cs]

theorem ST.ofTree_shift : ∀ t : Tree, (ST.ofTree t).shift = 0
  | .node _ _ _ _ => by simp [ST.ofTree]

theorem ofTree_allGroups {Q : List Rat → Prop} (hz : ∀ l : List Rat, (∀ s ∈ l, s = 0) → Q l) :
    ∀ t : Tree, (ST.ofTree t).AllGroups Q := by
  apply Tree.ind
  intro i n a cs ih
  simp only [ST.ofTree, ST.ofTrees_eq_map]
  rw [ST.allGroups_node]
  refine ⟨hz _ ?_, ?_⟩
  · intro s hs
    simp only [List.map_map, List.mem_map] at hs
    obtain ⟨c, _, rfl⟩ := hs
    simp [ST.ofTree_shift]
  · intro c hc
    obtain ⟨c0, hc0, rfl⟩ := List.mem_map.mp hc
    exact ih c0 hc0

/-! ## the drawing has the shape of the input -/

theorem ST.skL_eq_map : ∀ cs : List ST, ST.skL cs = cs.map ST.sk
  | [] => rfl
  | c :: cs => by simp [ST.skL, ST.skL_eq_map cs]

theorem PT.skL_eq_map : ∀ cs : List PT, PT.skL cs = cs.map PT.sk
  | [] => rfl
  | c :: cs => by simp [PT.skL, PT.skL_eq_map cs]

theorem FT.skL_eq_map : ∀ cs : List FT, FT.skL cs = cs.map FT.sk
  | [] => rfl
  | c :: cs => by simp [FT.skL, FT.skL_eq_map cs]

theorem fin_sk (P : Params) (H : Nat) (a : Rat) : ∀ (t : PT) (d : Nat) (c : Rat),
    (fin P H a d c t).sk = t.sk := by
  apply PT.ind
  intro x m s cs ih d c
  rw [fin_node]
  simp only [FT.sk, PT.sk, FT.skL_eq_map, PT.skL_eq_map, List.map_map]
  congr 1
  exact List.map_congr_left (fun k hk => by simpa using ih k hk _ _)

theorem addShift_sk (d : Rat) : ∀ t : PT, (t.addShift d).sk = t.sk
  | .node _ _ _ _ => by simp [PT.addShift, PT.sk]

theorem bumpPT_sk (s : Rat) (j : Nat) : ∀ (m : Nat) (l : List PT),
    (bumpPT s j m l).map PT.sk = l.map PT.sk
  | _, [] => rfl
  | m, n :: l => by simp [bumpPT, addShift_sk, bumpPT_sk s j (m + 1) l]

theorem place_sk (sib : Rat) (done : List PT) (h : Rat) (kids : List PT) :
    (place sib done h kids).sk = .node (kids.map PT.sk) := by
  unfold place; cases done.getLast? <;> simp [PT.sk, PT.skL_eq_map]

theorem shiftSiblings_sk (sub : Rat) (done : List PT) (node : PT) (tl : List Rat) :
    (shiftSiblings sub done node tl).1.map PT.sk = done.map PT.sk ++ [node.sk] := by
  unfold shiftSiblings
  dsimp only
  split <;> simp [bumpPT_sk]

theorem fpGroup_sk (P : Params) : ∀ (ts : List ST),
    (∀ t ∈ ts, (fpKids P t).map PT.sk = t.children.map ST.sk) →
    ∀ (done : List PT) (pend : List Rat),
      (fpGroup P ts done pend).map PT.sk = done.map PT.sk ++ ts.map ST.sk
  | [], _, done, pend => by simp [fpGroup]
  | .node s0 cs :: ts, ih, done, pend => by
    simp only [fpGroup]
    rw [fpGroup_sk P ts (fun t ht => ih t (by simp [ht])), shiftSiblings_sk, place_sk,
      ih (.node s0 cs) (by simp)]
    simp [ST.sk, ST.skL_eq_map]

theorem fpKids_sk (P : Params) : ∀ t : ST, (fpKids P t).map PT.sk = t.children.map ST.sk := by
  apply ST.ind
  intro s cs ih
  simp only [fpKids, ST.children_node]
  rw [fpGroup_sk P cs ih]
  simp

theorem firstPass_sk (P : Params) : ∀ t : ST, (firstPass P t).sk = t.sk
  | .node s cs => by
    simp only [firstPass, PT.sk, PT.skL_eq_map, fpKids_sk, ST.sk, ST.skL_eq_map, ST.children_node]

theorem passes_sk (P : Params) (t : ST) : (passes P t).sk = t.sk := by
  rw [passes_eq, fin_sk, firstPass_sk]

/-! ## the clearing step -/

theorem ST.clearL_eq_map : ∀ cs : List ST, ST.clearL cs = cs.map ST.clear
  | [] => rfl
  | c :: cs => by simp [ST.clearL, ST.clearL_eq_map cs]

theorem ST.clear_shift : ∀ t : ST, t.clear.shift = 0
  | .node _ _ => by simp [ST.clear]

theorem clear_sk : ∀ t : ST, t.clear.sk = t.sk := by
  apply ST.ind
  intro s cs ih
  simp only [ST.clear, ST.clearL_eq_map, ST.sk, ST.skL_eq_map, List.map_map]
  congr 1
  exact List.map_congr_left (fun c hc => by simpa using ih c hc)

theorem clear_allGroups {Q : List Rat → Prop} (hz : ∀ l : List Rat, (∀ s ∈ l, s = 0) → Q l) :
    ∀ t : ST, t.clear.AllGroups Q := by
  apply ST.ind
  intro s0 cs ih
  simp only [ST.clear, ST.clearL_eq_map]
  rw [ST.allGroups_node]
  refine ⟨hz _ ?_, ?_⟩
  · intro s hs
    simp only [List.map_map, List.mem_map] at hs
    obtain ⟨c, _, rfl⟩ := hs
    simp [ST.clear_shift]
  · intro c hc
    obtain ⟨c0, hc0, rfl⟩ := List.mem_map.mp hc
    exact ih c0 hc0

theorem clear_mono (t : ST) : t.clear.Mono := by
  apply clear_allGroups
  intro l hl
  rw [List.pairwise_iff_forall_sublist]
  intro a b hab
  have ha := hl a (hab.subset (by simp))
  have hb := hl b (hab.subset (by simp))
  subst ha; subst hb; exact Rat.le_refl

mutual
/-- the fresh tree of a given shape -/
def Sk.toST : Sk → ST
  | .node cs => .node 0 (Sk.toSTL cs)
def Sk.toSTL : List Sk → List ST
  | [] => []
  | c :: cs => Sk.toST c :: Sk.toSTL cs
end

theorem Sk.toSTL_eq_map : ∀ cs : List Sk, Sk.toSTL cs = cs.map Sk.toST
  | [] => rfl
  | c :: cs => by simp [Sk.toSTL, Sk.toSTL_eq_map cs]

/-- clearing forgets everything but the shape -/
theorem clear_eq_of_sk : ∀ t : ST, t.clear = Sk.toST t.sk := by
  apply ST.ind
  intro s cs ih
  simp only [ST.clear, ST.clearL_eq_map, ST.sk, ST.skL_eq_map, Sk.toST, Sk.toSTL_eq_map, List.map_map]
  congr 1
  exact List.map_congr_left (fun c hc => by simpa using ih c hc)

theorem layoutS_sk (P : Params) (t : ST) : (layoutS P t).sk = t.sk := by
  rw [layoutS, passes_sk, clear_sk]

theorem toST_sk : ∀ t : PT, t.toST.sk = t.sk := by
  apply PT.ind
  intro x m s cs ih
  simp only [PT.toST, PT.toSTL_eq_map, ST.sk, ST.skL_eq_map, PT.sk, PT.skL_eq_map, List.map_map]
  congr 1
  exact List.map_congr_left (fun c hc => by simpa using ih c hc)

theorem stored_sk (P : Params) (t : ST) : (stored P t).sk = t.sk := by
  simp [stored, toST_sk, firstPass_sk, clear_sk]

/-! ## the fuel of `getSubtreeShift` never runs out -/

theorem heightL_le_iff {n : Nat} : ∀ {l : List PT}, PT.height.heightL l ≤ n ↔ ∀ k ∈ l, k.height ≤ n
  | [] => by simp [PT.height.heightL]
  | c :: cs => by
    simp only [PT.height.heightL, List.mem_cons, forall_eq_or_imp, ← heightL_le_iff (l := cs)]
    omega

theorem height_pos : ∀ t : PT, 1 ≤ t.height
  | .node _ _ _ _ => by simp [PT.height]

theorem height_children (t : PT) : PT.height.heightL t.children + 1 = t.height := by
  cases t; simp [PT.height]; omega

theorem scanLeft_mem : ∀ (sibs : List PT) (cur : PT), scanLeft cur sibs ∈ cur :: sibs
  | [], cur => by simp [scanLeft]
  | l :: ls, cur => by
    simp only [scanLeft]
    split
    · have := scanLeft_mem ls l
      exact List.mem_cons_of_mem _ this
    · simp

/-- bound on the number of recursive calls: the height of the (scanned) left subtree -/
def fuelBound (initial : Bool) (left : PT) (lsibs : List PT) : Nat :=
  if initial then left.height else PT.height.heightL (left :: lsibs)

theorem gss_fuel (sub : Rat) (li ri : Nat) : ∀ (f1 f2 : Nat) (left : PT) (lsibs : List PT) (right : PT)
    (rsibs : List PT) (lcum rcum cum : Rat) (initial : Bool),
    fuelBound initial left lsibs ≤ f1 → fuelBound initial left lsibs ≤ f2 →
    getSubtreeShift sub li ri f1 left lsibs right rsibs lcum rcum cum initial =
      getSubtreeShift sub li ri f2 left lsibs right rsibs lcum rcum cum initial := by
  intro f1
  induction f1 with
  | zero =>
    intro f2 left lsibs right rsibs lcum rcum cum initial h1 _
    have := height_pos left
    unfold fuelBound at h1
    cases initial <;> simp [PT.height.heightL] at h1 <;> omega
  | succ f1 ih =>
    intro f2 left lsibs right rsibs lcum rcum cum initial h1 h2
    cases f2 with
    | zero =>
      have := height_pos left
      unfold fuelBound at h2
      cases initial <;> simp [PT.height.heightL] at h2 <;> omega
    | succ f2 =>
      simp only [getSubtreeShift]
      have hl : (if initial = true then left else scanLeft left lsibs).height ≤
          fuelBound initial left lsibs := by
        unfold fuelBound
        cases initial
        · simp only [Bool.false_eq_true, if_false]
          exact heightL_le_iff.mp (Nat.le_refl _) _ (scanLeft_mem lsibs left)
        · simp
      split
      · next lc lrest rc rrest hrev _ =>
        have hb : fuelBound false lc lrest + 1 ≤ fuelBound initial left lsibs := by
          refine Nat.le_trans ?_ hl
          rw [← height_children]
          apply Nat.succ_le_succ
          simp only [fuelBound, Bool.false_eq_true, if_false]
          apply heightL_le_iff.mpr
          intro k hk
          have hk' : k ∈ (if initial = true then left else scanLeft left lsibs).children := by
            have : k ∈ (if initial = true then left else scanLeft left lsibs).children.reverse := by
              rw [hrev]; exact hk
            simpa using this
          exact heightL_le_iff.mp (Nat.le_refl _) k hk'
        exact ih f2 lc lrest rc rrest _ _ _ false (by omega) (by omega)
      · rfl

/-- the fuel handed out by `maxShift` (`height + 1`) is enough: any larger amount gives the same
    result, so the out-of-fuel branch of `getSubtreeShift` is never taken by `firstPass` -/
theorem gss_fuel_sufficient (sub : Rat) (li ri : Nat) (l node : PT) (extra : Nat) :
    getSubtreeShift sub li ri (l.height + 1 + extra) l [] node [] 0 0 0 true =
      getSubtreeShift sub li ri (l.height + 1) l [] node [] 0 0 0 true :=
  gss_fuel sub li ri _ _ l [] node [] 0 0 0 true (by simp [fuelBound]; omega) (by simp [fuelBound])

end Plot
