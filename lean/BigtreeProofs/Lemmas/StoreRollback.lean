import BigtreeProofs.Lemmas.StoreAnc
/-!
# C02 on the pointer store: the executed roll-back of the children setter restores the snapshot
-/

namespace Store

theorem pyInsert_zero (l : List Nat) (x : Nat) : pyInsert l 0 x = x :: l := by
  simp [pyInsert]

theorem pyInsert_succ_cons (a : Nat) (l : List Nat) (k x : Nat) :
    pyInsert (a :: l) (k + 1) x = a :: pyInsert l k x := by
  unfold pyInsert
  by_cases h : k ≤ l.length
  · simp [h]
  · simp [h]

/-- re-inserting an erased element at its original index, when every other erased element of the
list lies behind it, gives back the list with only the others erased
(what the D1 repair — ascending original index — makes true) -/
theorem reinsert_one (l : List Nat) (x : Nat) (R : List Nat) (hn : l.Nodup) (hx : x ∈ l)
    (hxR : x ∉ R) (hlt : ∀ r ∈ R, r ∈ l → l.idxOf x < l.idxOf r) :
    pyInsert (l.filter fun y => !(x :: R).contains y) (l.idxOf x) x = l.filter fun y => !R.contains y := by
  induction l with
  | nil => cases hx
  | cons a l ih =>
    have hnl := List.nodup_cons.1 hn
    by_cases h : a = x
    · subst h
      have hfil : (l.filter fun y => !(a :: R).contains y) = l.filter fun y => !R.contains y := by
        apply List.filter_congr
        intro y hy
        have : y ≠ a := fun e => hnl.1 (e ▸ hy)
        simp [this]
      have e1 : ((a :: l).filter fun y => !(a :: R).contains y) = l.filter fun y => !(a :: R).contains y :=
        List.filter_cons_of_neg (by simp)
      have e2 : ((a :: l).filter fun y => !R.contains y) = a :: l.filter fun y => !R.contains y :=
        List.filter_cons_of_pos (by simp [hxR])
      rw [e1, e2, hfil, List.idxOf_cons_self, pyInsert_zero]
    · have hx' : x ∈ l := by
        cases hx with
        | head => exact absurd rfl h
        | tail _ h' => exact h'
      have haR : a ∉ R := by
        intro haR
        have := hlt a haR List.mem_cons_self
        simp [List.idxOf_cons] at this
      have hbeq : (a == x) = false := by simp [h]
      have ih' := ih hnl.2 hx' (by
        intro r hr hrl
        have := hlt r hr (List.mem_cons_of_mem _ hrl)
        have hra : (a == r) = false := by
          simp; intro e; exact haR (e ▸ hr)
        simpa [List.idxOf_cons, hbeq, hra] using this)
      have h1 : (!(x :: R).contains a) = true := by simp [h, haR]
      have h2 : (!R.contains a) = true := by simp [haR]
      simp only [List.filter_cons, h1, h2, if_true, List.idxOf_cons, hbeq, cond_false, pyInsert_succ_cons, ih']

theorem idxOf_inj_of_mem {l : List Nat} {a b : Nat} (ha : a ∈ l) (h : l.idxOf a = l.idxOf b) : a = b := by
  induction l with
  | nil => cases ha
  | cons c l ih =>
    by_cases hab : a = b
    · exact hab
    · exfalso
      rw [List.idxOf_cons, List.idxOf_cons] at h
      by_cases h1 : c = a
      · have e1 : (c == a) = true := by simp [h1]
        have e2 : (c == b) = false := by simp [← h1] at hab; simp [hab]
        rw [e1, e2] at h; simp at h
      · have ha' : a ∈ l := by
          cases ha with
          | head => exact absurd rfl h1
          | tail _ h' => exact h'
        have e1 : (c == a) = false := by simp [h1]
        by_cases h2 : c = b
        · have e2 : (c == b) = true := by simp [h2]
          rw [e1, e2] at h; simp at h
        · have e2 : (c == b) = false := by simp [h2]
          rw [e1, e2] at h; simp at h; exact hab (ih ha' h)

/-! ## the restoring loop -/

/-- what the snapshot `current_new_children` guarantees about its entries -/
structure GoodEntry (s : Store) (e : Nat × Nat × Nat) : Prop where
  par : s.parent e.1 = some e.2.2
  idx : e.2.1 = (s.children e.2.2).idxOf e.1

/-- invariant of the restoring loop: `D` already restored, `R` still pending -/
structure RInv (s s3 : Store) (v : Nat) (st : Store) (D R : List Nat) : Prop where
  n : st.n = s.n
  name : st.name = s.name
  sepOf : st.sepOf = s.sepOf
  par : ∀ x, st.parent x = if x ∈ D then s.parent x else s3.parent x
  ch : ∀ p, p ≠ v → st.children p = (s.children p).filter fun y => !R.contains y

theorem restore_fold {s s3 : Store} (hw : WF s) (v : Nat) :
    ∀ (L : List (Nat × Nat × Nat)) (st : Store) (D : List Nat),
      (∀ e ∈ L, GoodEntry s e) → (L.map (·.1)).Nodup → L.Pairwise (fun a b => a.2.1 ≤ b.2.1) →
      RInv s s3 v st D (L.map (·.1)) →
      RInv s s3 v (L.foldl restoreStep st) (D ++ L.map (·.1)) [] := by
  intro L
  induction L with
  | nil => intro st D _ _ _ h; simpa using h
  | cons e rest ih =>
    intro st D hg hnd hsort hinv
    obtain ⟨c, i, p⟩ := e
    have hge := hg (c, i, p) List.mem_cons_self
    have hpar : s.parent c = some p := hge.par
    have hidx : i = (s.children p).idxOf c := hge.idx
    have hnd' : c ∉ rest.map (·.1) ∧ (rest.map (·.1)).Nodup := List.nodup_cons.1 hnd
    have hsort' := List.pairwise_cons.1 hsort
    simp only [List.foldl_cons, List.map_cons]
    have hD : D ++ c :: rest.map (·.1) = (D ++ [c]) ++ rest.map (·.1) := by simp
    rw [hD]
    apply ih _ _ (fun e he => hg e (List.mem_cons_of_mem _ he)) hnd'.2 hsort'.2
    refine ⟨?_, ?_, ?_, ?_, ?_⟩
    · simp [restoreStep, hinv.n]
    · simp [restoreStep, hinv.name]
    · simp [restoreStep, hinv.sepOf]
    · intro x
      simp only [restoreStep, setC_parent, setP_parent, hinv.par, List.mem_append, List.mem_singleton]
      by_cases hx : x = c
      · subst hx; simp [hpar]
      · simp [hx]
    · intro q hq
      simp only [restoreStep, setC_children, setP_children]
      have hcq : ∀ q', q' ≠ p → c ∉ s.children q' := by
        intro q' hq' hc
        have := hw.down q' c hc
        rw [hpar] at this
        exact hq' (Option.some.inj this).symm
      by_cases hqp : q = p
      · subst hqp
        simp only [if_true]
        rw [hinv.ch q hq, hidx]
        simp only [List.map_cons]
        apply reinsert_one _ _ _ (hw.nodup q) (hw.up c q hpar) hnd'.1
        intro r hr hrl
        obtain ⟨e', he', hre⟩ := List.mem_map.1 hr
        have hge' := hg e' (List.mem_cons_of_mem _ he')
        have hp' : e'.2.2 = q := by
          have h1 := hw.down q r hrl
          rw [← hre, hge'.par] at h1
          exact Option.some.inj h1
        have hle : i ≤ e'.2.1 := hsort'.1 e' he'
        rw [hge'.idx, hp', hre, hidx] at hle
        have hne : (s.children q).idxOf c ≠ (s.children q).idxOf r := by
          intro e
          have := idxOf_inj_of_mem (hw.up c q hpar) e
          exact hnd'.1 (this ▸ hr)
        omega
      · simp only [if_neg hqp]
        rw [hinv.ch q hq]
        apply List.filter_congr
        intro y hy
        have : y ≠ c := fun e => hcq q hqp (e ▸ hy)
        simp [this]

theorem mem_stolenOf {s : Store} {cs : List Nat} {e : Nat × Nat × Nat} :
    e ∈ stolenOf s cs ↔ e.1 ∈ cs ∧ s.parent e.1 = some e.2.2 ∧ e.2.1 = (s.children e.2.2).idxOf e.1 := by
  obtain ⟨c, i, p⟩ := e
  simp only [stolenOf, List.mem_filterMap]
  constructor
  · rintro ⟨a, ha, h⟩
    cases hp : s.parent a with
    | none => simp [hp] at h
    | some q =>
      simp only [hp, Option.some.injEq, Prod.mk.injEq] at h
      obtain ⟨rfl, rfl, rfl⟩ := h
      exact ⟨ha, hp, rfl⟩
  · rintro ⟨hc, hp, hi⟩
    have hp' : s.parent c = some p := hp
    have hi' : i = (s.children p).idxOf c := hi
    exact ⟨c, hc, by simp [hp', hi']⟩

theorem stolenOf_ids (s : Store) (cs : List Nat) :
    (stolenOf s cs).map (·.1) = cs.filter fun c => (s.parent c).isSome := by
  induction cs with
  | nil => rfl
  | cons c cs ih =>
    simp only [stolenOf, List.filterMap_cons, List.filter_cons] at ih ⊢
    cases hp : s.parent c with
    | none => simpa using ih
    | some q => simpa using ih

theorem foldl_setP_const (val : Option Nat) : ∀ (l : List Nat) (st : Store),
    l.foldl (fun st c => st.setP c val) st =
      { st with parent := fun x => if x ∈ l then val else st.parent x } := by
  intro l
  induction l with
  | nil => intro st; simp
  | cons c l ih =>
    intro st
    simp only [List.foldl_cons, ih]
    apply ext' <;> try rfl
    funext x
    simp only [setP_parent, List.mem_cons]
    by_cases h1 : x ∈ l <;> by_cases h2 : x = c <;> simp [h1, h2]

/-- C02 for the children setter: executing the `except` branch (ascending original index, D1)
after the body restores the store -/
theorem childrenRollback_id {s : Store} (hw : WF s) (v : Nat) (cs : List Nat) (hn : cs.Nodup) :
    childrenRollback (adopted s v cs) v (sortKey (fun e => e.2.1) (stolenOf s cs))
      (cs.filter fun x => (s.parent x).isNone) (s.children v) = s := by
  have hperm := sortKey_perm (fun e : Nat × Nat × Nat => e.2.1) (stolenOf s cs)
  have hidsperm : ((sortKey (fun e => e.2.1) (stolenOf s cs)).map (·.1)).Perm
      (cs.filter fun c => (s.parent c).isSome) := by
    rw [← stolenOf_ids]; exact hperm.map _
  have hmemids : ∀ y, y ∈ (sortKey (fun e => e.2.1) (stolenOf s cs)).map (·.1) ↔
      y ∈ cs ∧ (s.parent y).isSome = true := by
    intro y; rw [hidsperm.mem_iff]; simp
  have hinv := restore_fold (s3 := adopted s v cs) hw v (sortKey (fun e => e.2.1) (stolenOf s cs))
    (adopted s v cs) []
    (fun e he => by
      have := mem_stolenOf.1 (hperm.mem_iff.1 he)
      exact ⟨this.2.1, this.2.2⟩)
    (hidsperm.nodup_iff.2 (hn.sublist List.filter_sublist))
    (sortKey_pairwise _ _)
    ⟨rfl, rfl, rfl, fun x => by simp, fun p hp => by
      simp only [adopted, if_neg hp]
      apply List.filter_congr
      intro y hy
      have hpy := hw.down p y hy
      have : y ∈ (sortKey (fun e => e.2.1) (stolenOf s cs)).map (·.1) ↔ y ∈ cs := by
        rw [hmemids]; simp [hpy]
      simp only [List.contains_eq_mem]
      rw [decide_eq_decide.2 this]⟩
  simp only [List.nil_append] at hinv
  unfold childrenRollback
  simp only [foldl_setP_const]
  apply ext'
  · exact hinv.n
  · funext x
    simp only [setC_parent, hinv.par, List.mem_filter]
    by_cases h1 : x ∈ s.children v
    · simp [h1, hw.down v x h1]
    · simp only [if_neg h1]
      cases hp : s.parent x with
      | none =>
        by_cases hc : x ∈ cs
        · simp [hc]
        · have : x ∉ (sortKey (fun e => e.2.1) (stolenOf s cs)).map (·.1) := fun h => hc ((hmemids x).1 h).1
          simp [hc, this, adopted, hp]
      | some q =>
        by_cases hc : x ∈ cs
        · have : x ∈ (sortKey (fun e => e.2.1) (stolenOf s cs)).map (·.1) := (hmemids x).2 ⟨hc, by simp [hp]⟩
          simp [this]
        · have : x ∉ (sortKey (fun e => e.2.1) (stolenOf s cs)).map (·.1) := fun h => hc ((hmemids x).1 h).1
          have hqv : q ≠ v := fun e => h1 (hw.up x v (e ▸ hp))
          simp [hc, this, adopted, hp, hqv]
  · funext x
    simp only [setC_children]
    by_cases hx : x = v
    · simp [hx]
    · simp only [if_neg hx]
      rw [hinv.ch x hx]
      exact List.filter_eq_self.2 (fun _ _ => by simp)
  · exact hinv.name
  · exact hinv.sepOf

end Store
