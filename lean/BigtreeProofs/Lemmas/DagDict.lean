import BigtreeProofs.Lemmas.DagExport
import BigtreeProofs.Lemmas.DagGoTo
/-! Dictionary format: what `dag_to_dict` lists and what `dict_to_dag` builds. -/

namespace Dag
open List

/-- the (parent, child) pairs a dictionary mentions -/
def dictRel (d : List DEntry) : List Edge :=
  d.flatMap fun e => (e.parents.getD []).map fun p => (p, e.key)

def dictKeys (d : List DEntry) : List Nat := d.map (·.key)

/-! ### `data_dict[k] = e` and `data_dict.get(k)` -/

theorem dictKeys_dictPut (d : List DEntry) (e : DEntry) :
    dictKeys (dictPut d e) = if e.key ∈ dictKeys d then dictKeys d else dictKeys d ++ [e.key] := by
  induction d with
  | nil => simp [dictPut, dictKeys]
  | cons x xs ih =>
    simp only [dictPut]
    by_cases h : x.key = e.key
    · simp [dictKeys, h]
    · have h' : ¬ e.key = x.key := fun h' => h h'.symm
      simp only [h, if_false]
      by_cases hm : e.key ∈ dictKeys xs
      · have hm' : e.key ∈ dictKeys (x :: xs) := mem_cons_of_mem _ hm
        rw [if_pos hm']
        show x.key :: dictKeys (dictPut xs e) = _
        rw [ih, if_pos hm]; rfl
      · have hm' : e.key ∉ dictKeys (x :: xs) := by
          intro hc
          rcases mem_cons.1 hc with hc | hc
          · exact h' hc
          · exact hm hc
        rw [if_neg hm']
        show x.key :: dictKeys (dictPut xs e) = _
        rw [ih, if_neg hm]; rfl

theorem mem_dictKeys_dictPut {d : List DEntry} {e : DEntry} {k : Nat} :
    k ∈ dictKeys (dictPut d e) ↔ k ∈ dictKeys d ∨ k = e.key := by
  rw [dictKeys_dictPut]
  split
  · rename_i h
    constructor
    · exact Or.inl
    · rintro (h' | rfl); exact h'; exact h
  · simp

theorem nodup_dictKeys_dictPut {d : List DEntry} {e : DEntry} (h : (dictKeys d).Nodup) :
    (dictKeys (dictPut d e)).Nodup := by
  rw [dictKeys_dictPut]
  split
  · exact h
  · rename_i hk
    rw [nodup_append]
    exact ⟨h, by simp, by intro a ha b hb hab; simp at hb; subst hb; subst hab; exact hk ha⟩

theorem mem_dictPut {d : List DEntry} {e x : DEntry} (hx : x ∈ dictPut d e) :
    x = e ∨ (x ∈ d ∧ x.key ≠ e.key) ∨ (x ∈ d ∧ x.key = e.key ∧ False) ∨
      (x ∈ d ∧ ¬ (dictKeys d).Nodup) := by
  induction d with
  | nil => simp [dictPut] at hx; exact Or.inl hx
  | cons y ys ih =>
    simp only [dictPut] at hx
    by_cases h : y.key = e.key
    · simp only [h, if_true, mem_cons] at hx
      rcases hx with rfl | hx
      · exact Or.inl rfl
      · by_cases hk : x.key = e.key
        · refine Or.inr (Or.inr (Or.inr ⟨by simp [hx], ?_⟩))
          intro hnd
          simp only [dictKeys, map_cons, nodup_cons, mem_map] at hnd
          exact hnd.1 ⟨x, hx, by rw [hk, h]⟩
        · exact Or.inr (Or.inl ⟨by simp [hx], hk⟩)
    · simp only [h, if_false, mem_cons] at hx
      rcases hx with rfl | hx
      · exact Or.inr (Or.inl ⟨by simp, h⟩)
      · rcases ih hx with h1 | ⟨h1, h2⟩ | ⟨_, _, hf⟩ | ⟨h1, h2⟩
        · exact Or.inl h1
        · exact Or.inr (Or.inl ⟨by simp [h1], h2⟩)
        · exact absurd hf id
        · refine Or.inr (Or.inr (Or.inr ⟨by simp [h1], ?_⟩))
          intro hnd
          exact h2 (by simp only [dictKeys, map_cons, nodup_cons] at hnd; exact hnd.2)

/-- with distinct keys, `dictPut` keeps the other entries and stores the new one -/
theorem mem_dictPut' {d : List DEntry} {e x : DEntry} (hnd : (dictKeys d).Nodup)
    (hx : x ∈ dictPut d e) : x = e ∨ (x ∈ d ∧ x.key ≠ e.key) := by
  rcases mem_dictPut hx with h | h | ⟨_, _, hf⟩ | ⟨_, h⟩
  · exact Or.inl h
  · exact Or.inr h
  · exact absurd hf id
  · exact absurd hnd h

theorem dictGet_some {d : List DEntry} {k : Nat} {ent : DEntry} (h : dictGet d k = some ent) :
    ent ∈ d ∧ ent.key = k := by
  unfold dictGet at h
  exact ⟨mem_of_find?_eq_some h, by simpa using find?_some h⟩

theorem dictGet_none {d : List DEntry} {k : Nat} (h : dictGet d k = none) : k ∉ dictKeys d := by
  unfold dictGet at h
  rw [find?_eq_none] at h
  intro hk
  obtain ⟨x, hx, rfl⟩ := mem_map.1 hk
  exact h x hx (by simp)

theorem eq_of_key_eq {d : List DEntry} (hnd : (dictKeys d).Nodup) {a b : DEntry} (ha : a ∈ d)
    (hb : b ∈ d) (hab : a.key = b.key) : a = b := by
  induction d with
  | nil => cases ha
  | cons x xs ih =>
    simp only [dictKeys, map_cons, nodup_cons, mem_map] at hnd
    rcases mem_cons.1 ha with rfl | ha' <;> rcases mem_cons.1 hb with rfl | hb'
    · rfl
    · exact absurd ⟨b, hb', hab.symm⟩ hnd.1
    · exact absurd ⟨a, ha', hab⟩ hnd.1
    · exact ih hnd.2 ha' hb' 

/-! ### the export -/

/-- what the export loop maintains after the pairs `pre` -/
structure DictInv (g : Dag) (sel : AttrSel) (pre : List Edge) (d : List DEntry) : Prop where
  keys_nodup : (dictKeys d).Nodup
  none_root : ∀ ent ∈ d, ent.parents = none → g.parents ent.key = []
  some_spec : ∀ ent ∈ d, ∀ ps, ent.parents = some ps → ps.Nodup ∧ ∀ p, p ∈ ps ↔ (p, ent.key) ∈ pre
  covers : ∀ e ∈ pre, e.2 ∈ dictKeys d
  key_mem : ∀ ent ∈ d, ent.key ∈ g.nodes
  attrs_spec : ∀ ent ∈ d, ent.attrs = attrUpdate [] (selAttrs sel (g.attrs ent.key))
  roots : ∀ e ∈ pre, g.parents e.1 = [] → e.1 ∈ dictKeys d

theorem dictInv_nil (g : Dag) (sel : AttrSel) : DictInv g sel [] [] :=
  ⟨by simp [dictKeys], by simp, by simp, by simp, by simp, by simp, by simp⟩

theorem dictStep_spec {g : Dag} (wf : g.DWF) {sel : AttrSel} {pre : List Edge} {d : List DEntry}
    (inv : DictInv g sel pre d) {e : Edge} (he : e ∈ g.edges) (hnew : e ∉ pre) :
    ∃ d', dictStep g sel (some d) e = some d' ∧ DictInv g sel (pre ++ [e]) d' := by
  obtain ⟨p, c⟩ := e
  obtain ⟨hp, hpc⟩ := mem_edges.1 he
  obtain ⟨hcn, hcp⟩ := wf.chi_closed _ hp _ hpc
  have hcpar : g.parents c ≠ [] := fun h => by rw [h] at hcp; cases hcp
  -- after the parent's own entry
  have inv1 : DictInv g sel pre (if (g.parents p).isEmpty
      then dictPut d { key := p, parents := none, attrs := attrUpdate [] (selAttrs sel (g.attrs p)) }
      else d) := by
    split
    · rename_i hroot
      have hroot' : g.parents p = [] := by simpa using hroot
      refine ⟨nodup_dictKeys_dictPut inv.keys_nodup, ?_, ?_, ?_, ?_, ?_, ?_⟩
      · intro ent hent hn
        rcases mem_dictPut' inv.keys_nodup hent with rfl | ⟨h, _⟩
        · exact hroot'
        · exact inv.none_root ent h hn
      · intro ent hent ps hps
        rcases mem_dictPut' inv.keys_nodup hent with rfl | ⟨h, _⟩
        · cases hps
        · exact inv.some_spec ent h ps hps
      · intro e' he'
        exact mem_dictKeys_dictPut.2 (Or.inl (inv.covers e' he'))
      · intro ent hent
        rcases mem_dictPut' inv.keys_nodup hent with rfl | ⟨h, _⟩
        · exact hp
        · exact inv.key_mem ent h
      · intro ent hent
        rcases mem_dictPut' inv.keys_nodup hent with rfl | ⟨h, _⟩
        · rfl
        · exact inv.attrs_spec ent h
      · intro e' he' hr
        exact mem_dictKeys_dictPut.2 (Or.inl (inv.roots e' he' hr))
    · exact inv
  have hp1 : g.parents p = [] → p ∈ dictKeys (if (g.parents p).isEmpty
      then dictPut d { key := p, parents := none, attrs := attrUpdate [] (selAttrs sel (g.attrs p)) }
      else d) := by
    intro hr
    simp only [hr, isEmpty_nil, if_true]
    exact mem_dictKeys_dictPut.2 (Or.inr rfl)
  simp only [dictStep, Option.bind_some]
  generalize (if (g.parents p).isEmpty
      then dictPut d { key := p, parents := none, attrs := attrUpdate [] (selAttrs sel (g.attrs p)) }
      else d) = d1 at inv1 hp1 ⊢
  -- pairs of other children are not affected by the new pair
  have hother : ∀ q k, k ≠ c → ((q, k) ∈ pre ++ [(p, c)] ↔ (q, k) ∈ pre) := by
    intro q k hk
    simp only [mem_append, mem_singleton, Prod.mk.injEq]
    constructor
    · rintro (h | ⟨_, h⟩)
      · exact h
      · exact absurd h hk
    · exact Or.inl
  have fresh : DictInv g sel (pre ++ [(p, c)])
      (dictPut d1 { key := c, parents := some [p], attrs := attrUpdate [] (selAttrs sel (g.attrs c)) }) ∨
      c ∈ dictKeys d1 := by
    by_cases hk : c ∈ dictKeys d1
    · exact Or.inr hk
    · left
      refine ⟨nodup_dictKeys_dictPut inv1.keys_nodup, ?_, ?_, ?_, ?_, ?_, ?_⟩
      · intro ent hent hn
        rcases mem_dictPut' inv1.keys_nodup hent with rfl | ⟨h, _⟩
        · cases hn
        · exact inv1.none_root ent h hn
      · intro ent hent ps hps
        rcases mem_dictPut' inv1.keys_nodup hent with rfl | ⟨h, hne⟩
        · simp only [Option.some.injEq] at hps
          subst hps
          refine ⟨by simp, fun q => ?_⟩
          simp only [mem_singleton, mem_append, Prod.mk.injEq]
          constructor
          · rintro rfl; exact Or.inr (by simp)
          · rintro (h | ⟨h, _⟩)
            · exact absurd (inv1.covers _ h) hk
            · exact h
        · obtain ⟨h1, h2⟩ := inv1.some_spec ent h ps hps
          exact ⟨h1, fun q => (h2 q).trans (hother q ent.key hne).symm⟩
      · intro e' he'
        rcases mem_append.1 he' with h | h
        · exact mem_dictKeys_dictPut.2 (Or.inl (inv1.covers e' h))
        · simp at h; subst h; exact mem_dictKeys_dictPut.2 (Or.inr rfl)
      · intro ent hent
        rcases mem_dictPut' inv1.keys_nodup hent with rfl | ⟨h, _⟩
        · exact hcn
        · exact inv1.key_mem ent h
      · intro ent hent
        rcases mem_dictPut' inv1.keys_nodup hent with rfl | ⟨h, _⟩
        · rfl
        · exact inv1.attrs_spec ent h
      · intro e' he' hr
        rcases mem_append.1 he' with h | h
        · exact mem_dictKeys_dictPut.2 (Or.inl (inv1.roots e' h hr))
        · simp at h; subst h; exact mem_dictKeys_dictPut.2 (Or.inl (hp1 hr))
  cases hget : dictGet d1 c with
  | none =>
    simp only
    rcases fresh with h | h
    · exact ⟨_, rfl, h⟩
    · exact absurd h (dictGet_none hget)
  | some ent =>
    obtain ⟨hent, hkey⟩ := dictGet_some hget
    cases hpar : ent.parents with
    | none =>
      exact absurd (inv1.none_root ent hent hpar) (hkey ▸ hcpar)
    | some ps =>
      have htr : ent.truthy = true := by simp [DEntry.truthy, hpar]
      simp only [htr, if_true, hpar]
      refine ⟨_, rfl, ?_⟩
      obtain ⟨hnd, hmem⟩ := inv1.some_spec ent hent ps hpar
      have hpps : p ∉ ps := fun h => hnew (by rw [← hkey]; exact (hmem p).1 h)
      refine ⟨nodup_dictKeys_dictPut inv1.keys_nodup, ?_, ?_, ?_, ?_, ?_, ?_⟩
      · intro x hx hn
        rcases mem_dictPut' inv1.keys_nodup hx with rfl | ⟨h, _⟩
        · cases hn
        · exact inv1.none_root x h hn
      · intro x hx qs hqs
        rcases mem_dictPut' inv1.keys_nodup hx with rfl | ⟨h, hne⟩
        · simp only [Option.some.injEq] at hqs
          subst hqs
          refine ⟨?_, fun q => ?_⟩
          · rw [nodup_append]
            exact ⟨hnd, by simp, by
              intro a ha b hb hab; simp at hb; subst hb; subst hab; exact hpps ha⟩
          · simp only [mem_append, mem_singleton, Prod.mk.injEq, hmem, hkey]
            constructor
            · rintro (h | rfl)
              · exact Or.inl h
              · exact Or.inr (by simp)
            · rintro (h | ⟨h, _⟩)
              · exact Or.inl h
              · exact Or.inr h
        · obtain ⟨h1, h2⟩ := inv1.some_spec x h qs hqs
          have hne' : x.key ≠ c := by rw [← hkey]; exact hne
          exact ⟨h1, fun q => (h2 q).trans (hother q x.key hne').symm⟩
      · intro e' he'
        rcases mem_append.1 he' with h | h
        · exact mem_dictKeys_dictPut.2 (Or.inl (inv1.covers e' h))
        · simp at h; subst h
          exact mem_dictKeys_dictPut.2 (Or.inr hkey.symm)
      · intro x hx
        rcases mem_dictPut' inv1.keys_nodup hx with rfl | ⟨h, _⟩
        · exact inv1.key_mem ent hent
        · exact inv1.key_mem x h
      · intro x hx
        rcases mem_dictPut' inv1.keys_nodup hx with rfl | ⟨h, _⟩
        · exact inv1.attrs_spec ent hent
        · exact inv1.attrs_spec x h
      · intro e' he' hr
        rcases mem_append.1 he' with h | h
        · exact mem_dictKeys_dictPut.2 (Or.inl (inv1.roots e' h hr))
        · simp at h; subst h; exact mem_dictKeys_dictPut.2 (Or.inl (hp1 hr))

theorem foldl_dictStep_spec {g : Dag} (wf : g.DWF) {sel : AttrSel} : ∀ (it pre : List Edge)
    (d : List DEntry), DictInv g sel pre d → (∀ e ∈ it, e ∈ g.edges) → (pre ++ it).Nodup →
    ∃ d', it.foldl (dictStep g sel) (some d) = some d' ∧ DictInv g sel (pre ++ it) d' := by
  intro it
  induction it with
  | nil => intro pre d inv _ _; exact ⟨d, rfl, by simpa using inv⟩
  | cons e it ih =>
    intro pre d inv hit hnd
    have hnew : e ∉ pre := by
      intro h
      rw [nodup_append] at hnd
      exact hnd.2.2 e h e (by simp) rfl
    obtain ⟨d1, hd1, inv1⟩ := dictStep_spec wf inv (hit e (by simp)) hnew
    rw [foldl_cons, hd1]
    have := ih (pre ++ [e]) d1 inv1 (fun x hx => hit x (by simp [hx])) (by simpa using hnd)
    simpa using this

/-- `dag_to_dict` succeeds and its result satisfies the loop invariant for all yielded pairs -/
theorem dagToDict_spec {g : Dag} (wf : g.DWF) (sel : AttrSel) {v : Nat} (hv : v ∈ g.nodes) :
    ∃ d, g.dagToDict sel v = some d ∧ DictInv g sel (g.dagIter v) d := by
  have := foldl_dictStep_spec wf (sel := sel) (g.dagIter v) [] [] (dictInv_nil g sel)
    (fun e he => ((mem_dagIter wf hv).1 he).1) (by simpa using nodup_dagIter wf hv)
  simpa [dagToDict] using this

theorem mem_dictRel {d : List DEntry} {e : Edge} :
    e ∈ dictRel d ↔ ∃ ent ∈ d, ent.key = e.2 ∧ e.1 ∈ ent.parents.getD [] := by
  obtain ⟨p, c⟩ := e
  simp only [dictRel, mem_flatMap, mem_map, Prod.mk.injEq]
  constructor
  · rintro ⟨ent, hent, q, hq, rfl, rfl⟩; exact ⟨ent, hent, rfl, hq⟩
  · rintro ⟨ent, hent, rfl, hq⟩; exact ⟨ent, hent, p, hq, rfl, rfl⟩

/-- the pairs mentioned by the exported dictionary are exactly the pairs the iterator yielded -/
theorem DictInv.mem_dictRel {g : Dag} {sel : AttrSel} {it : List Edge} {d : List DEntry}
    (inv : DictInv g sel it d) (hit : ∀ e ∈ it, e.1 ∈ g.parents e.2) {e : Edge} :
    e ∈ dictRel d ↔ e ∈ it := by
  rw [Dag.mem_dictRel]
  constructor
  · rintro ⟨ent, hent, hk, hp⟩
    cases hpar : ent.parents with
    | none => simp [hpar] at hp
    | some ps =>
      rw [hpar] at hp
      have := ((inv.some_spec ent hent ps hpar).2 e.1).1 hp
      rwa [hk] at this
  · intro he
    obtain ⟨ent, hent, hk⟩ := mem_map.1 (inv.covers e he)
    refine ⟨ent, hent, hk, ?_⟩
    cases hpar : ent.parents with
    | none =>
      have := inv.none_root ent hent hpar
      have h2 := hit e he
      rw [← hk, this] at h2; cases h2
    | some ps =>
      simp only [Option.getD_some]
      exact ((inv.some_spec ent hent ps hpar).2 e.1).2 (by rw [hk]; exact he)

theorem DictInv.nodup_dictRel {g : Dag} {sel : AttrSel} {it : List Edge} {d : List DEntry}
    (inv : DictInv g sel it d) : (dictRel d).Nodup := by
  unfold dictRel
  have hdn : d.Nodup := by
    have := inv.keys_nodup
    unfold dictKeys at this
    exact Pairwise.of_map (·.key) (fun a b hne hab => hne (by rw [hab])) this
  apply nodup_flatMap_of hdn
  · intro ent hent
    cases hpar : ent.parents with
    | none => simp
    | some ps =>
      simp only [Option.getD_some]
      rw [Nodup, pairwise_map]
      exact (inv.some_spec ent hent ps hpar).1.imp (fun hne heq => hne (by simpa using heq))
  · intro a ha b hb hab x hxa hxb
    simp only [mem_map] at hxa hxb
    obtain ⟨_, _, rfl⟩ := hxa
    obtain ⟨_, _, h⟩ := hxb
    simp only [Prod.mk.injEq] at h
    exact hab (eq_of_key_eq inv.keys_nodup ha hb h.2.symm)

/-! ### the constructor -/

theorem relAcyclic_nil' : RelAcyclic [] := by
  intro x hx
  cases hx with
  | edge h => simp [relGraph, ofEdges] at h
  | step h _ => simp [relGraph, ofEdges] at h

theorem foldl_dictParents_error (c : Nat) (err : Err) (ps : List Nat) :
    ps.foldl (dictParents c) (.error err) = .error err := by
  induction ps with
  | nil => rfl
  | cons p ps ih => exact ih

theorem foldl_dictEntryStep_error (err : Err) (d : List DEntry) :
    d.foldl dictEntryStep (.error err) = .error err := by
  induction d with
  | nil => rfl
  | cons e d ih => exact ih

theorem foldl_dictParents_spec {S : Nat → Prop} (c : Nat) : ∀ (ps : List Nat) (pre : List Edge)
    (b : Built), Tracks pre b.dag → RelAcyclic pre → c ∈ b.dag.nodes → (∀ x ∈ b.dag.nodes, S x) →
    (∀ p ∈ ps, S p) →
    (RelAcyclic (pre ++ ps.map (fun p => (p, c))) →
      ∃ b', ps.foldl (dictParents c) (.ok b) = .ok b' ∧
        Tracks (pre ++ ps.map (fun p => (p, c))) b'.dag ∧ (∀ x ∈ b'.dag.nodes, S x) ∧
        c ∈ b'.dag.nodes ∧ ((b.ret.isSome ∨ ps ≠ []) → b'.ret.isSome)) ∧
    (¬ RelAcyclic (pre ++ ps.map (fun p => (p, c))) →
      ps.foldl (dictParents c) (.ok b) = .error .tree) := by
  intro ps
  induction ps with
  | nil =>
    intro pre b t ha hc hS _
    simp only [map_nil, append_nil, foldl_nil]
    exact ⟨fun _ => ⟨b, rfl, t, hS, hc, fun h => h.elim id (fun h => absurd rfl h)⟩,
      fun h => absurd ha h⟩
  | cons p ps ih =>
    intro pre b t ha hc hS hps
    have happ : pre ++ (p :: ps).map (fun p => (p, c)) =
        (pre ++ [(p, c)]) ++ ps.map (fun p => (p, c)) := by simp
    rw [happ, foldl_cons]
    have t1 := t.newNode p []
    have hc1 : c ∈ (b.dag.newNode p []).nodes := nodes_newNode.2 (Or.inl hc)
    have hp1 : p ∈ (b.dag.newNode p []).nodes := nodes_newNode.2 (Or.inr rfl)
    obtain ⟨hok, hbad⟩ := t1.setParent ha hc1 hp1
    by_cases hacy : RelAcyclic (pre ++ [(p, c)])
    · obtain ⟨g', hg', t', hn', _⟩ := hok hacy
      have hstep : dictParents c (.ok b) p = .ok { dag := g', ret := some p } := by
        show Except.map _ (Dag.setParent _ c p) = _
        rw [hg']; rfl
      rw [hstep]
      have hS' : ∀ x ∈ ({ dag := g', ret := some p } : Built).dag.nodes, S x := by
        intro x hx
        rw [show ({ dag := g', ret := some p } : Built).dag = g' from rfl, hn'] at hx
        rcases nodes_newNode.1 hx with hx | rfl
        · exact hS x hx
        · exact hps _ (by simp)
      have hc' : c ∈ ({ dag := g', ret := some p } : Built).dag.nodes := by
        rw [show ({ dag := g', ret := some p } : Built).dag = g' from rfl, hn']; exact hc1
      obtain ⟨ihok, ihbad⟩ := ih (pre ++ [(p, c)]) { dag := g', ret := some p } t' hacy hc' hS'
        (fun x hx => hps x (by simp [hx]))
      refine ⟨fun h => ?_, ihbad⟩
      obtain ⟨b', hb', tb, hSb, hcb, hret⟩ := ihok h
      exact ⟨b', hb', tb, hSb, hcb, fun _ => hret (Or.inl rfl)⟩
    · have hstep : dictParents c (.ok b) p = .error .tree := by
        show Except.map _ (Dag.setParent _ c p) = _
        rw [hbad hacy]; rfl
      rw [hstep, foldl_dictParents_error]
      exact ⟨fun h => absurd (relAcyclic_mono (fun x hx => mem_append_left _ hx) h) hacy,
        fun _ => rfl⟩

theorem dictRel_cons (e : DEntry) (d : List DEntry) :
    dictRel (e :: d) = (e.parents.getD []).map (fun p => (p, e.key)) ++ dictRel d := by
  simp [dictRel]

theorem foldl_dictEntryStep_spec {S : Nat → Prop} : ∀ (d : List DEntry) (pre : List Edge)
    (b : Built), Tracks pre b.dag → RelAcyclic pre → (∀ x ∈ b.dag.nodes, S x) →
    (∀ ent ∈ d, S ent.key ∧ ∀ p ∈ ent.parents.getD [], S p) →
    (RelAcyclic (pre ++ dictRel d) →
      ∃ b', d.foldl dictEntryStep (.ok b) = .ok b' ∧ Tracks (pre ++ dictRel d) b'.dag ∧
        (∀ x ∈ b'.dag.nodes, S x) ∧ ((b.ret.isSome ∨ dictRel d ≠ []) → b'.ret.isSome)) ∧
    (¬ RelAcyclic (pre ++ dictRel d) → d.foldl dictEntryStep (.ok b) = .error .tree) := by
  intro d
  induction d with
  | nil =>
    intro pre b t ha hS _
    simp only [dictRel, flatMap_nil, append_nil, foldl_nil]
    exact ⟨fun _ => ⟨b, rfl, t, hS, fun h => h.elim id (fun h => absurd rfl h)⟩,
      fun h => absurd ha h⟩
  | cons e d ih =>
    intro pre b t ha hS hd
    rw [dictRel_cons, ← append_assoc, foldl_cons]
    obtain ⟨hSk, hSp⟩ := hd e (by simp)
    -- the entry's own node
    have t1 : Tracks pre (if e.key ∈ b.dag.nodes then b.dag.setAttrs e.key e.attrs
        else b.dag.newNode e.key e.attrs) := by
      split
      · exact t.setAttrs _ _
      · exact t.newNode _ _
    have hn1 : ∀ x, x ∈ (if e.key ∈ b.dag.nodes then b.dag.setAttrs e.key e.attrs
        else b.dag.newNode e.key e.attrs).nodes ↔ x ∈ b.dag.nodes ∨ x = e.key := by
      intro x
      split
      · rename_i hk
        show x ∈ b.dag.nodes ↔ _
        constructor
        · exact Or.inl
        · rintro (h | rfl); exact h; exact hk
      · exact nodes_newNode
    have hstep : dictEntryStep (.ok b) e = (e.parents.getD []).foldl (dictParents e.key)
        (.ok { dag := (if e.key ∈ b.dag.nodes then b.dag.setAttrs e.key e.attrs
          else b.dag.newNode e.key e.attrs), ret := b.ret }) := rfl
    rw [hstep]
    obtain ⟨hok, hbad⟩ := foldl_dictParents_spec (S := S) e.key (e.parents.getD []) pre
      { dag := (if e.key ∈ b.dag.nodes then b.dag.setAttrs e.key e.attrs
          else b.dag.newNode e.key e.attrs), ret := b.ret } t1 ha ((hn1 _).2 (Or.inr rfl))
      (by
        intro x hx
        rcases (hn1 x).1 hx with h | rfl
        · exact hS x h
        · exact hSk) hSp
    by_cases hacy : RelAcyclic (pre ++ (e.parents.getD []).map (fun p => (p, e.key)))
    · obtain ⟨b1, hb1, t1', hS1, _, hret1⟩ := hok hacy
      rw [hb1]
      obtain ⟨ihok, ihbad⟩ := ih _ b1 t1' hacy hS1 (fun x hx => hd x (by simp [hx]))
      refine ⟨fun h => ?_, ihbad⟩
      obtain ⟨b', hb', tb, hSb, hret⟩ := ihok h
      refine ⟨b', hb', tb, hSb, fun hcond => hret ?_⟩
      rcases hcond with h | h
      · exact Or.inl (hret1 (Or.inl h))
      · by_cases hps : e.parents.getD [] = []
        · right; simpa [hps] using h
        · exact Or.inl (hret1 (Or.inr hps))
    · rw [hbad hacy, foldl_dictEntryStep_error]
      exact ⟨fun h => absurd (relAcyclic_mono (fun x hx => mem_append_left _ hx) h) hacy,
        fun _ => rfl⟩

/-- **constructor lemma** for `dict_to_dag` -/
theorem dictToDag_spec {S : Nat → Prop} (d : List DEntry) (hne : d ≠ [])
    (hd : ∀ ent ∈ d, S ent.key ∧ ∀ p ∈ ent.parents.getD [], S p) :
    (RelAcyclic (dictRel d) → dictRel d ≠ [] →
      ∃ b, dictToDag d = .ok b ∧ Tracks (dictRel d) b.dag ∧ (∀ x ∈ b.dag.nodes, S x)) ∧
    (¬ RelAcyclic (dictRel d) → dictToDag d = .error .tree) := by
  have hemp : d.isEmpty = false := by cases d <;> simp_all
  unfold dictToDag
  rw [hemp]
  simp only [Bool.false_eq_true, if_false]
  obtain ⟨hok, hbad⟩ := foldl_dictEntryStep_spec (S := S) d [] { dag := empty, ret := none }
    tracks_empty relAcyclic_nil' (by intro x hx; simp [empty] at hx) hd
  simp only [nil_append] at hok hbad
  constructor
  · intro hacy hrel
    obtain ⟨b, hb, t, hS, hret⟩ := hok hacy
    have hsome := hret (Or.inr hrel)
    refine ⟨b, ?_, t, hS⟩
    rw [hb]
    show (if b.ret.isNone then Except.error Err.value else Except.ok b) = _
    have : b.ret.isNone = false := by
      cases h : b.ret <;> simp_all
    rw [this]; rfl
  · intro hcyc
    rw [hbad hcyc]; rfl

end Dag
