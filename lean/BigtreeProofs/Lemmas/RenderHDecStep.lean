import BigtreeProofs.Lemmas.RenderHDecAsm
/-!
# One step of `decodeNode` on a leaf row and on the row of an inner node

* blanks / names: `dropWhile`/`takeWhile` on padded names, `center_shape`, `rstrip_padded`, `rstrip_name`,
  `hlabel_leaf_shape`, `hlabel_hole`;
* `decodeNode_leafRow`, `decodeRest`, `decodeNode_innerRow`.
-/

namespace Render

/-! ### blanks and names -/

theorem dropWhile_blank_replicate (l : Nat) (s : Str) :
    (List.replicate l ' ' ++ s).dropWhile (· == ' ') = s.dropWhile (· == ' ') := by
  induction l with
  | zero => simp
  | succ l ih => simp [List.replicate_succ, ih]

theorem takeWhile_noblank (n s : Str) (hn : ∀ ch ∈ n, ch ≠ ' ') :
    (n ++ ' ' :: s).takeWhile (· != ' ') = n := by
  induction n with
  | nil => simp
  | cons h t ih =>
    have h1 : h ≠ ' ' := hn h (by simp)
    simp [h1, ih (fun ch hch => hn ch (by simp [hch]))]

theorem dropWhile_noblank (n s : Str) (hn : ∀ ch ∈ n, ch ≠ ' ') :
    (n ++ ' ' :: s).dropWhile (· != ' ') = ' ' :: s := by
  induction n with
  | nil => simp
  | cons h t ih =>
    have h1 : h ≠ ' ' := hn h (by simp)
    simp [h1, ih (fun ch hch => hn ch (by simp [hch]))]

theorem takeWhile_noblank_end (n : Str) (hn : ∀ ch ∈ n, ch ≠ ' ') :
    n.takeWhile (· != ' ') = n := by
  induction n with
  | nil => simp
  | cons h t ih =>
    have h1 : h ≠ ' ' := hn h (by simp)
    simp [h1, ih (fun ch hch => hn ch (by simp [hch]))]

theorem dropWhile_noblank_end (n : Str) (hn : ∀ ch ∈ n, ch ≠ ' ') :
    n.dropWhile (· != ' ') = [] := by
  induction n with
  | nil => simp
  | cons h t ih =>
    have h1 : h ≠ ' ' := hn h (by simp)
    simp [h1, ih (fun ch hch => hn ch (by simp [hch]))]

theorem dropWhile_blank_noblank (n s : Str) (hn : ∀ ch ∈ n, ch ≠ ' ') (hne : n ≠ []) :
    (n ++ s).dropWhile (· == ' ') = n ++ s := by
  cases n with
  | nil => exact absurd rfl hne
  | cons h t =>
    have h1 : h ≠ ' ' := hn h (by simp)
    simp [h1]

/-! ### one step of `decodeNode` on the two kinds of rows -/

theorem decodeNode_leafRow (S : HStyle) (rows : List Str) (fuel r c l : Nat) (n : Str)
    (hn : ∀ ch ∈ n, ch ≠ ' ')
    (hrow : (rows.getD r []).drop c = S.branch :: ' ' :: (List.replicate l ' ' ++ n)) :
    decodeNode S rows (fuel + 1) r c = some (.node n []) := by
  rw [decodeNode, hrow]
  simp only [bne_self_eq_false, Bool.false_eq_true, ↓reduceIte, dropWhile_blank_replicate]
  cases n with
  | nil => simp
  | cons h t =>
    have := dropWhile_blank_noblank (h :: t) [] hn (by simp)
    rw [List.append_nil] at this
    rw [this, takeWhile_noblank_end _ hn, dropWhile_noblank_end _ hn]
    simp

theorem replicate_append_cons {α} (k : Nat) (a : α) (X : List α) :
    List.replicate k a ++ a :: X = a :: (List.replicate k a ++ X) := by
  induction k with
  | zero => rfl
  | succ k ih => simp [List.replicate_succ, ih]

/-- what `decodeNode` does once it has read the name `nm` and found the connector at column `k` -/
def decodeRest (S : HStyle) (rows : List Str) (fuel r k : Nat) (nm : Str) (conn : Char) : Option HTree :=
  if (conn == S.branch) = true then
    Option.map (fun ch => HTree.node nm [ch]) (decodeNode S rows fuel r (k + 1))
  else do
    let top ← scanCol S rows k S.firstChild true rows.length r
    let bot ← scanCol S rows k S.lastChild false rows.length r
    let kids ← List.mapM (fun r' => decodeNode S rows fuel r' (k + 1))
      (List.filter (fun r' => charAt rows r' (k + 1) == some S.branch) (List.range' top (bot - top + 1)))
    pure (HTree.node nm kids)

theorem row_length_of_drop {rows : List Str} {r c : Nat} {X : Str} (h : (rows.getD r []).drop c = X)
    (hX : X ≠ []) : (rows.getD r []).length = c + X.length := by
  have := congrArg List.length h
  rw [List.length_drop] at this
  have : 0 < X.length := List.length_pos_iff.mpr hX
  omega

theorem decodeNode_innerRow_inter (S : HStyle) (hb : S.branch ≠ ' ') (rows : List Str) (fuel r c l rr : Nat)
    (n : Str) (hn : ∀ ch ∈ n, ch ≠ ' ') (hne : n ≠ []) (g : Char) (resrow : Str)
    (hrow : (rows.getD r []).drop c =
      (S.branch :: ' ' :: (List.replicate l ' ' ++ n ++ List.replicate rr ' ') ++ [' ', S.branch]) ++ g :: resrow) :
    decodeNode S rows (fuel + 1) r c =
      decodeRest S rows fuel r
        (c + (S.branch :: ' ' :: (List.replicate l ' ' ++ n ++ List.replicate rr ' ') ++ [' ', S.branch]).length) n g := by
  have hlen := row_length_of_drop hrow (by simp)
  rw [decodeNode, hrow]
  have e1 : (S.branch :: ' ' :: (List.replicate l ' ' ++ n ++ List.replicate rr ' ') ++ [' ', S.branch]) ++ g :: resrow
      = S.branch :: ' ' :: (List.replicate l ' ' ++ (n ++ ' ' :: (List.replicate rr ' ' ++ S.branch :: g :: resrow))) := by
    simp only [List.cons_append, List.append_assoc, List.nil_append, List.cons.injEq, true_and,
      List.append_cancel_left_eq]
    exact replicate_append_cons _ _ _
  rw [e1]
  simp only [bne_self_eq_false, Bool.false_eq_true, ↓reduceIte, dropWhile_blank_replicate]
  rw [dropWhile_blank_noblank n _ hn hne, takeWhile_noblank n _ hn, dropWhile_noblank n _ hn]
  have e2 : List.dropWhile (fun x => x == ' ') (' ' :: (List.replicate rr ' ' ++ S.branch :: g :: resrow))
      = S.branch :: g :: resrow := by
    rw [List.dropWhile_cons_of_pos (by simp), dropWhile_blank_replicate]
    simp [hb]
  rw [e2]
  simp only [bne_self_eq_false, Bool.false_eq_true, ↓reduceIte]
  rw [hlen]
  have e3 : c + ((S.branch :: ' ' :: (List.replicate l ' ' ++ n ++ List.replicate rr ' ') ++ [' ', S.branch]) ++
      g :: resrow).length - (S.branch :: g :: resrow).length + 1 =
      c + (S.branch :: ' ' :: (List.replicate l ' ' ++ n ++ List.replicate rr ' ') ++ [' ', S.branch]).length := by
    simp only [List.length_append, List.length_cons, List.length_replicate, List.length_nil]; omega
  rw [e3]
  rfl

theorem decodeNode_innerRow_plain (S : HStyle) (hb : S.branch ≠ ' ') (rows : List Str) (fuel r c : Nat)
    (g : Char) (resrow : Str)
    (hrow : (rows.getD r []).drop c = [S.branch, S.branch, S.branch] ++ g :: resrow) :
    decodeNode S rows (fuel + 1) r c =
      decodeRest S rows fuel r (c + [S.branch, S.branch, S.branch].length) [] g := by
  have hlen := row_length_of_drop hrow (by simp)
  rw [decodeNode, hrow]
  simp only [List.cons_append, List.nil_append, bne_self_eq_false, Bool.false_eq_true, ↓reduceIte]
  simp only [beq_self_eq_true, Bool.and_self, ↓reduceIte, bne_self_eq_false, Bool.false_eq_true]
  rw [hlen]
  have e3 : c + ([S.branch, S.branch, S.branch] ++ g :: resrow).length - (S.branch :: g :: resrow).length + 1
      = c + [S.branch, S.branch, S.branch].length := by
    simp only [List.length_append, List.length_cons, List.length_nil]; omega
  rw [e3]
  rfl

/-! ### `center`, `rstrip` on good names -/

theorem center_shape (n : Str) (w : Nat) : ∃ l rr, center n w = List.replicate l ' ' ++ n ++ List.replicate rr ' ' := by
  unfold center
  split
  · exact ⟨0, 0, by simp⟩
  · exact ⟨_, _, rfl⟩

theorem hnameOk_noblank {n : Str} (h : hnameOk n = true) : (∀ ch ∈ n, pySpace ch = false) ∧ n ≠ [] := by
  simp only [hnameOk, Bool.and_eq_true, Bool.not_eq_eq_eq_not, Bool.not_true, List.isEmpty_eq_false_iff,
    List.all_eq_true] at h
  exact ⟨h.2, h.1⟩

theorem pySpace_blank : pySpace ' ' = true := by decide

theorem noblank_of_noSpace {n : Str} (h : ∀ ch ∈ n, pySpace ch = false) : ∀ ch ∈ n, ch ≠ ' ' := by
  intro ch hch e
  have := h ch hch
  rw [e, pySpace_blank] at this
  cases this

theorem dropWhile_space_replicate (l : Nat) (s : Str) :
    (List.replicate l ' ' ++ s).dropWhile pySpace = s.dropWhile pySpace := by
  induction l with
  | zero => simp
  | succ l ih => simp [List.replicate_succ, ih, pySpace_blank]

theorem rstrip_padded (l rr : Nat) (n : Str) (h : ∀ ch ∈ n, pySpace ch = false) (hne : n ≠ []) :
    rstrip (List.replicate l ' ' ++ n ++ List.replicate rr ' ') = List.replicate l ' ' ++ n := by
  unfold rstrip
  simp only [List.reverse_append, List.reverse_replicate, List.append_assoc, dropWhile_space_replicate]
  cases hr : n.reverse with
  | nil => simp at hr; exact absurd hr hne
  | cons c t =>
    have hc : pySpace c = false := h c (by rw [← List.mem_reverse, hr]; simp)
    rw [List.cons_append, List.dropWhile_cons_of_neg (by simp [hc])]
    rw [← List.cons_append, ← hr]
    simp

theorem rstrip_blanks (k : Nat) : rstrip (List.replicate k ' ') = [] := by
  unfold rstrip
  have := dropWhile_space_replicate k []
  simp only [List.append_nil, List.dropWhile_nil] at this
  simp [this]

theorem rstrip_name {n : Str} (h : hnameOk n = true) : rstrip n = n := by
  obtain ⟨h1, h2⟩ := hnameOk_noblank h
  simpa using rstrip_padded 0 0 n h1 h2

theorem hlabel_leaf_shape (S : HStyle) (inter : Bool) (pad : Nat → Nat) (d : Nat) (n : Str)
    (h : hnameOk n = true) :
    ∃ l, hlabel S inter pad d n true = S.branch :: ' ' :: (List.replicate l ' ' ++ n) := by
  obtain ⟨h1, h2⟩ := hnameOk_noblank h
  obtain ⟨l, rr, hc⟩ := center_shape n (pad d)
  refine ⟨l, ?_⟩
  simp only [hlabel, ↓reduceIte, hc]
  rw [rstrip_padded l rr n h1 h2]

theorem hlabel_hole (S : HStyle) (inter : Bool) (pad : Nat → Nat) (d : Nat) :
    hlabel S inter pad d [' ', ' '] true = S.branch :: ' ' :: (List.replicate 0 ' ' ++ []) := by
  obtain ⟨l, rr, hc⟩ := center_shape [' ', ' '] (pad d)
  have : List.replicate l ' ' ++ [' ', ' '] ++ List.replicate rr ' ' = List.replicate (l + 2 + rr) ' ' := by
    rw [show [' ', ' '] = List.replicate 2 ' ' from rfl, List.replicate_append_replicate,
      List.replicate_append_replicate]
  simp [hlabel, hc, this, rstrip_blanks]

/-- one step of `decodeNode` on the row of an inner node -/
theorem decodeNode_innerRow (S : HStyle) (hb : S.branch ≠ ' ') (inter : Bool) (pad : Nat → Nat) (d : Nat)
    (n : Str) (hn : hnameOk n = true) (rows : List Str) (fuel r c : Nat) (g : Char) (resrow : Str)
    (hrow : (rows.getD r []).drop c = hlabel S inter pad d n false ++ g :: resrow) :
    decodeNode S rows (fuel + 1) r c =
      decodeRest S rows fuel r (c + (hlabel S inter pad d n false).length) (if inter then n else []) g := by
  obtain ⟨h1, h2⟩ := hnameOk_noblank hn
  cases inter with
  | false =>
    have e : hlabel S false pad d n false = [S.branch, S.branch, S.branch] := by simp [hlabel]
    rw [e] at hrow ⊢
    exact decodeNode_innerRow_plain S hb rows fuel r c g resrow hrow
  | true =>
    obtain ⟨l, rr, hc⟩ := center_shape n (pad d)
    have e : hlabel S true pad d n false =
        S.branch :: ' ' :: (List.replicate l ' ' ++ n ++ List.replicate rr ' ') ++ [' ', S.branch] := by
      simp [hlabel, hc]
    rw [e] at hrow ⊢
    exact decodeNode_innerRow_inter S hb rows fuel r c l rr n (noblank_of_noSpace h1) h2 g resrow hrow
end Render
