import BigtreeModel.Iter
/-! Helper lemmas for C04 (traversals). Core Lean only. -/

namespace Iter

/-! ### appends -/

theorem preL_append (a b : List Tree) : preL (a ++ b) = preL a ++ preL b := by
  induction a with
  | nil => simp [preL]
  | cons t ts ih => simp [preL, ih]

theorem postL_append (a b : List Tree) : postL (a ++ b) = postL a ++ postL b := by
  induction a with
  | nil => simp [postL]
  | cons t ts ih => simp [postL, ih]

theorem gateL_append (c : Cfg) (d : Nat) (a b : List Tree) :
    gateL c d (a ++ b) = gateL c d a ++ gateL c d b := by
  induction a with
  | nil => simp [gateL]
  | cons t ts ih => by_cases h : c.admit d t <;> simp [gateL, h, ih]

theorem layerL_append (k : Nat) (a b : List Tree) :
    layer.layerL k (a ++ b) = layer.layerL k a ++ layer.layerL k b := by
  induction a with
  | nil => simp [layer.layerL]
  | cons t ts ih => simp [layer.layerL, ih]

theorem layerL_nil (k : Nat) : layer.layerL k [] = [] := rfl

theorem preImplL_append (c : Cfg) (d : Nat) (a b : List Tree) :
    preImplL c d (a ++ b) = preImplL c d a ++ preImplL c d b := by
  induction a with
  | nil => simp [preImplL]
  | cons t ts ih => simp [preImplL, ih]

theorem admit_id (c : Cfg) (d : Nat) (i n a cs) :
    c.admit d (.node i n a cs) = ((c.maxDepth == 0 || !(decide (d > c.maxDepth))) && !(c.stop i)) := rfl

/-- the gate only reads the identity -/
theorem admit_gate (c : Cfg) (d d' : Nat) (t : Tree) : c.admit d (gate c d' t) = c.admit d t := by
  cases t; simp [gate, Cfg.admit]

theorem emit_ids (c : Cfg) (t : Tree) : (emit c t).map Tree.id = [t.id].filter c.filt := by
  unfold emit; by_cases h : c.filt t.id <;> simp [h]

/-! ### pre / post -/

theorem gateL_single (c : Cfg) (d : Nat) (t : Tree) :
    gateL c d [t] = if c.admit d t then [gate c d t] else [] := by
  by_cases h : c.admit d t <;> simp [gateL, h]

theorem gateL_cons (c : Cfg) (d : Nat) (t : Tree) (ts : List Tree) :
    gateL c d (t :: ts) = gateL c d [t] ++ gateL c d ts := by
  by_cases h : c.admit d t <;> simp [gateL, h]

mutual
theorem preImpl_ids (c : Cfg) : ∀ (d : Nat) (t : Tree),
    (preImpl c d t).map Tree.id = (preL (gateL c d [t])).filter c.filt
  | d, .node i n a cs => by
    have ih := preImplL_ids c (d + 1) cs
    by_cases h : c.admit d (.node i n a cs)
    · simp only [preImpl, h, if_true, gateL, gate, preL, pre, List.append_nil, List.map_append, ih, emit_ids,
        Tree.id_node]
      by_cases hf : c.filt i <;> simp [List.filter_cons, hf]
    · simp [preImpl, gateL, h, preL]
theorem preImplL_ids (c : Cfg) : ∀ (d : Nat) (ts : List Tree),
    (preImplL c d ts).map Tree.id = (preL (gateL c d ts)).filter c.filt
  | _, [] => by simp [preImplL, gateL, preL]
  | d, t :: ts => by
    rw [gateL_cons, preL_append, List.filter_append, ← preImpl_ids c d t, ← preImplL_ids c d ts]
    simp [preImplL]
end

mutual
theorem postImpl_ids (c : Cfg) : ∀ (d : Nat) (t : Tree),
    (postImpl c d t).map Tree.id = (postL (gateL c d [t])).filter c.filt
  | d, .node i n a cs => by
    have ih := postImplL_ids c (d + 1) cs
    by_cases h : c.admit d (.node i n a cs)
    · simp only [postImpl, h, if_true, gateL, gate, postL, post, List.append_nil, List.map_append, ih, emit_ids,
        Tree.id_node, List.filter_append]
    · simp [postImpl, gateL, h, postL]
theorem postImplL_ids (c : Cfg) : ∀ (d : Nat) (ts : List Tree),
    (postImplL c d ts).map Tree.id = (postL (gateL c d ts)).filter c.filt
  | _, [] => by simp [postImplL, gateL, postL]
  | d, t :: ts => by
    rw [gateL_cons, postL_append, List.filter_append, ← postImpl_ids c d t, ← postImplL_ids c d ts]
    simp [postImplL]
end

/-! ### one level -/

/-- closed form of the loop body of `_levelorder_iter` -/
theorem levelStep_eq (c : Cfg) (d : Nat) (ts : List Tree) :
    levelStep c d ts =
      ((ts.filter (c.admit d)).flatMap (emit c), (ts.filter (c.admit d)).flatMap Tree.children) := by
  induction ts with
  | nil => simp [levelStep]
  | cons t ts ih =>
    by_cases h : c.admit d t <;> simp [levelStep, ih, h]

theorem zigStep_eq (c : Cfg) (d : Nat) (rev : Bool) (ts : List Tree) :
    zigStep c d rev ts =
      ((ts.filter (c.admit d)).flatMap (emit c),
       (ts.filter (c.admit d)).flatMap fun t => if rev then t.children.reverse else t.children) := by
  induction ts with
  | nil => simp [zigStep]
  | cons t ts ih =>
    by_cases h : c.admit d t <;> simp [zigStep, ih, h]

/-- ids of the admitted trees, in order -/
def admitted (c : Cfg) (d : Nat) (ts : List Tree) : List Tree := ts.filter (c.admit d)

/-- candidates for the next level: the children of the admitted trees -/
def nextLevel (c : Cfg) (d : Nat) (ts : List Tree) : List Tree :=
  (ts.filter (c.admit d)).flatMap Tree.children

theorem flatMap_emit_ids (c : Cfg) (ts : List Tree) :
    (ts.flatMap (emit c)).map Tree.id = (ts.map Tree.id).filter c.filt := by
  induction ts with
  | nil => simp
  | cons t ts ih =>
    simp only [List.flatMap_cons, List.map_append, ih, emit_ids, List.map_cons, List.filter_cons]
    by_cases h : c.filt t.id <;> simp [h]

theorem layer0_gateL (c : Cfg) (d : Nat) (ts : List Tree) :
    layer.layerL 0 (gateL c d ts) = (ts.filter (c.admit d)).map Tree.id := by
  induction ts with
  | nil => simp [gateL, layer.layerL]
  | cons t ts ih =>
    cases t with
    | node i n a cs =>
      by_cases h : c.admit d (.node i n a cs) <;>
        simp [gateL, h, layer.layerL, layer, gate, ih]

theorem layerL_succ (k : Nat) (ts : List Tree) :
    layer.layerL (k + 1) ts = layer.layerL k (ts.flatMap Tree.children) := by
  induction ts with
  | nil => simp [layer.layerL]
  | cons t ts ih =>
    cases t with
    | node i n a cs => simp [layer.layerL, layer, ih, layerL_append]

theorem children_gateL (c : Cfg) (d : Nat) (ts : List Tree) :
    (gateL c d ts).flatMap Tree.children = gateL c (d + 1) (nextLevel c d ts) := by
  induction ts with
  | nil => simp [gateL, nextLevel]
  | cons t ts ih =>
    cases t with
    | node i n a cs =>
      unfold nextLevel at ih ⊢
      by_cases h : c.admit d (.node i n a cs) <;>
        simp [gateL, h, gate, ih, gateL_append]

theorem layerL_succ_gateL (c : Cfg) (d k : Nat) (ts : List Tree) :
    layer.layerL (k + 1) (gateL c d ts) = layer.layerL k (gateL c (d + 1) (nextLevel c d ts)) := by
  rw [layerL_succ, children_gateL]

/-- the first `f` layers of a forest -/
def layersUpTo (f : Nat) (ts : List Tree) : List (List Nat) :=
  (List.range f).map fun k => layer.layerL k ts

theorem layersUpTo_succ (f : Nat) (ts : List Tree) :
    layersUpTo (f + 1) ts = layer.layerL 0 ts :: layersUpTo f (ts.flatMap Tree.children) := by
  simp only [layersUpTo, List.range_succ_eq_map, List.map_cons, List.map_map]
  congr 1
  apply List.map_congr_left
  intro k _
  simp [Function.comp, layerL_succ]

theorem layersUpTo_nil (f : Nat) : (layersUpTo f []).flatten = [] := by
  induction f with
  | zero => simp [layersUpTo]
  | succ f ih => rw [layersUpTo_succ]; simp [layer.layerL, ih]

theorem alternate_nils (rev : Bool) (f : Nat) : (alternate rev (layersUpTo f [])).flatten = [] := by
  induction f generalizing rev with
  | zero => simp [layersUpTo, alternate]
  | succ f ih => rw [layersUpTo_succ]; simp [layer.layerL, alternate, ih]

/-! ### level order -/

theorem levelImpl_ids (c : Cfg) (f d : Nat) (ts : List Tree) :
    (levelImpl c f d ts).map Tree.id = ((layersUpTo f (gateL c d ts)).flatten).filter c.filt := by
  induction f generalizing d ts with
  | zero => simp [levelImpl, layersUpTo]
  | succ f ih =>
    rw [layersUpTo_succ, children_gateL]
    simp only [levelImpl, levelStep_eq, List.flatten_cons, List.filter_append, List.map_append,
      flatMap_emit_ids, layer0_gateL]
    congr 1
    by_cases he : ((ts.filter (c.admit d)).flatMap Tree.children).isEmpty = true
    · have : nextLevel c d ts = [] := by simpa [nextLevel] using he
      simp [he, this, gateL, layersUpTo_nil]
    · simp only [he, Bool.false_eq_true, if_false]
      exact ih (d + 1) _

/-! ### zigzag -/

theorem filter_reverse' {α} (p : α → Bool) (l : List α) : (l.filter p).reverse = l.reverse.filter p := by
  simp [List.filter_reverse]

theorem flatMap_reverse_children (l : List Tree) :
    (l.reverse.flatMap fun t => t.children.reverse) = (l.flatMap Tree.children).reverse := by
  induction l with
  | nil => simp
  | cons t ts ih => simp [List.flatMap_append, ih]

theorem zigImpl_ids (c : Cfg) (f d : Nat) (rev : Bool) (L : List Tree) :
    (zigImpl c f d rev (if rev then L.reverse else L)).map Tree.id
      = ((alternate rev (layersUpTo f (gateL c d L))).flatten).filter c.filt := by
  induction f generalizing d rev L with
  | zero => simp [zigImpl, layersUpTo, alternate]
  | succ f ih =>
    rw [layersUpTo_succ, children_gateL]
    simp only [zigImpl, zigStep_eq, alternate, List.flatten_cons, List.filter_append, List.map_append,
      flatMap_emit_ids, layer0_gateL]
    cases rev with
    | false =>
      simp only [Bool.false_eq_true, if_false, Bool.not_false]
      congr 1
      by_cases he : ((L.filter (c.admit d)).flatMap fun t => t.children).isEmpty = true
      · have : nextLevel c d L = [] := by simpa [nextLevel] using he
        simp [he, this, gateL, alternate_nils]
      · simp only [he, Bool.false_eq_true, if_false]
        have := ih (d + 1) true (nextLevel c d L)
        simpa [nextLevel] using this
    | true =>
      simp only [if_true, Bool.not_true]
      have hnx : ((L.reverse.filter (c.admit d)).flatMap fun t => t.children.reverse)
          = (nextLevel c d L).reverse := by
        rw [List.filter_reverse, flatMap_reverse_children]; rfl
      rw [hnx]
      congr 1
      · simp [List.map_reverse, List.filter_reverse]
      · by_cases he : (nextLevel c d L) = []
        · simp [he, gateL, alternate_nils]
        · have hne : (nextLevel c d L).reverse.isEmpty = false := by
            simp [he]
          simp only [hne, Bool.false_eq_true, if_false, List.reverse_reverse]
          have := ih (d + 1) false (nextLevel c d L)
          simpa using this

/-! ### grouped variants -/

/-- beyond `max_depth` nothing is admitted -/
theorem filter_admit_too_deep (c : Cfg) (d : Nat) (ts : List Tree)
    (h : (c.maxDepth == 0 || !(decide (d > c.maxDepth))) = false) :
    ts.filter (c.admit d) = [] := by
  apply List.filter_eq_nil_iff.2
  intro t _
  simp [Cfg.admit, h]

theorem levelImpl_too_deep (c : Cfg) (f d : Nat) (ts : List Tree)
    (h : (c.maxDepth == 0 || !(decide (d > c.maxDepth))) = false) :
    levelImpl c f d ts = [] := by
  cases f with
  | zero => simp [levelImpl]
  | succ f => simp [levelImpl, levelStep_eq, filter_admit_too_deep c d ts h]

theorem zigImpl_too_deep (c : Cfg) (f d : Nat) (rev : Bool) (ts : List Tree)
    (h : (c.maxDepth == 0 || !(decide (d > c.maxDepth))) = false) :
    zigImpl c f d rev ts = [] := by
  cases f with
  | zero => simp [zigImpl]
  | succ f => simp [zigImpl, zigStep_eq, filter_admit_too_deep c d ts h]

theorem levelGroup_flatten (c : Cfg) (f d : Nat) (ts : List Tree) :
    (levelGroupImpl c f d ts).flatten = levelImpl c f d ts := by
  induction f generalizing d ts with
  | zero => simp [levelGroupImpl, levelImpl]
  | succ f ih =>
    simp only [levelGroupImpl, levelImpl, List.flatten_cons]
    congr 1
    by_cases he : (levelStep c d ts).2.isEmpty = true
    · simp [he]
    · by_cases hd : (c.maxDepth == 0 || !(decide (d + 1 > c.maxDepth))) = true
      · simp [he, hd, ih]
      · have hd' : (c.maxDepth == 0 || !(decide (d + 1 > c.maxDepth))) = false := by simpa using hd
        simp [he, hd', levelImpl_too_deep c f (d + 1) _ hd']

theorem zigGroup_flatten (c : Cfg) (f d : Nat) (rev : Bool) (ts : List Tree) :
    (zigGroupImpl c f d rev ts).flatten = zigImpl c f d rev ts := by
  induction f generalizing d rev ts with
  | zero => simp [zigGroupImpl, zigImpl]
  | succ f ih =>
    simp only [zigGroupImpl, zigImpl, List.flatten_cons]
    congr 1
    by_cases he : (zigStep c d rev ts).2.isEmpty = true
    · simp [he]
    · by_cases hd : (c.maxDepth == 0 || !(decide (d + 1 > c.maxDepth))) = true
      · simp [he, hd, ih]
      · have hd' : (c.maxDepth == 0 || !(decide (d + 1 > c.maxDepth))) = false := by simpa using hd
        simp [he, hd', zigImpl_too_deep c f (d + 1) _ _ hd']

end Iter

namespace Iter

/-! ### heights and empty layers -/

theorem heightL_append (a b : List Tree) :
    height.heightL (a ++ b) = max (height.heightL a) (height.heightL b) := by
  induction a with
  | nil => simp [height.heightL]
  | cons x xs ih => simp [height.heightL, ih, Nat.max_assoc]

theorem heightL_children (ts : List Tree) :
    height.heightL (ts.flatMap Tree.children) = height.heightL ts - 1 := by
  induction ts with
  | nil => simp [height.heightL]
  | cons t ts ih =>
    cases t with
    | node i n a cs =>
      simp only [List.flatMap_cons, heightL_append, ih, height.heightL, height, Tree.children_node]
      omega

theorem heightL_eq_zero {ts : List Tree} (h : height.heightL ts = 0) : ts = [] := by
  cases ts with
  | nil => rfl
  | cons t ts => cases t; simp [height.heightL, height] at h

theorem layerL_of_height_le (k : Nat) (ts : List Tree) (h : height.heightL ts ≤ k) :
    layer.layerL k ts = [] := by
  induction k generalizing ts with
  | zero => rw [heightL_eq_zero (Nat.le_zero.1 h)]; rfl
  | succ k ih =>
    rw [layerL_succ]
    apply ih
    rw [heightL_children]; omega

mutual
theorem height_gate_le (c : Cfg) : ∀ (d : Nat) (t : Tree), height (gate c d t) ≤ height t
  | d, .node i n a cs => by
    have := heightL_gateL_le c (d + 1) cs
    simp only [gate, height]; omega
theorem heightL_gateL_le (c : Cfg) : ∀ (d : Nat) (ts : List Tree),
    height.heightL (gateL c d ts) ≤ height.heightL ts
  | _, [] => by simp [gateL, height.heightL]
  | d, t :: ts => by
    have h1 := height_gate_le c d t
    have h2 := heightL_gateL_le c d ts
    by_cases h : c.admit d t
    · simp only [gateL, h, if_true, height.heightL]; omega
    · simp only [gateL, h, height.heightL, Bool.false_eq_true, if_false]; omega
end

theorem layersUpTo_add (a b : Nat) (ts : List Tree) :
    layersUpTo (a + b) ts = layersUpTo a ts ++ (List.range b).map fun k => layer.layerL (a + k) ts := by
  simp [layersUpTo, List.range_add, List.map_append, List.map_map, Function.comp]

theorem layersUpTo_ge (f : Nat) (ts : List Tree) (h : height.heightL ts ≤ f) :
    layersUpTo f ts = layersL ts ++ List.replicate (f - height.heightL ts) [] := by
  obtain ⟨b, rfl⟩ : ∃ b, f = height.heightL ts + b := ⟨f - height.heightL ts, by omega⟩
  rw [layersUpTo_add]
  simp only [layersL, layersUpTo, Nat.add_sub_cancel_left]
  congr 1
  apply List.ext_getElem
  · simp
  · intro i h1 h2
    simp only [List.getElem_map, List.getElem_range, List.getElem_replicate]
    exact layerL_of_height_le _ _ (by omega)

theorem flatten_replicate_nil {α} (n : Nat) : (List.replicate n ([] : List α)).flatten = [] := by
  induction n with
  | zero => rfl
  | succ n ih => simp [List.replicate_succ, ih]

theorem alternate_append (rev : Bool) (xs ys : List (List Nat)) :
    alternate rev (xs ++ ys) = alternate rev xs ++ alternate (if xs.length % 2 = 0 then rev else !rev) ys := by
  induction xs generalizing rev with
  | nil => simp [alternate]
  | cons x xs ih =>
    simp only [List.cons_append, alternate, ih, List.length_cons]
    congr 2
    by_cases h : xs.length % 2 = 0
    · have : (xs.length + 1) % 2 ≠ 0 := by omega
      simp [h, this]
    · have : (xs.length + 1) % 2 = 0 := by omega
      simp [h, this]

theorem alternate_replicate_nil (rev : Bool) (n : Nat) :
    (alternate rev (List.replicate n [])).flatten = [] := by
  induction n generalizing rev with
  | zero => simp [alternate]
  | succ n ih => simp [List.replicate_succ, alternate, ih]

theorem layersUpTo_flatten_ge (f : Nat) (ts : List Tree) (h : height.heightL ts ≤ f) :
    (layersUpTo f ts).flatten = (layersL ts).flatten := by
  rw [layersUpTo_ge f ts h]; simp [flatten_replicate_nil]

theorem alternate_layersUpTo_flatten_ge (rev : Bool) (f : Nat) (ts : List Tree)
    (h : height.heightL ts ≤ f) :
    (alternate rev (layersUpTo f ts)).flatten = (alternate rev (layersL ts)).flatten := by
  rw [layersUpTo_ge f ts h, alternate_append]; simp [alternate_replicate_nil]

/-! ### grouped variants: the groups are the filtered layers -/

theorem levelGroup_layers (c : Cfg) (f d : Nat) (ts : List Tree) :
    (levelGroupImpl c f d ts).map (·.map Tree.id)
      = (layersUpTo (levelGroupImpl c f d ts).length (gateL c d ts)).map (·.filter c.filt) := by
  induction f generalizing d ts with
  | zero => simp [levelGroupImpl, layersUpTo]
  | succ f ih =>
    simp only [levelGroupImpl, levelStep_eq, List.map_cons, List.length_cons, layersUpTo_succ,
      children_gateL, flatMap_emit_ids, layer0_gateL]
    congr 1
    split
    · exact ih (d + 1) _
    · simp [layersUpTo]

theorem heightL_filter_children_le (p : Tree → Bool) (ts : List Tree) :
    height.heightL ((ts.filter p).flatMap Tree.children) ≤ height.heightL (ts.flatMap Tree.children) := by
  induction ts with
  | nil => simp [height.heightL]
  | cons t ts ih =>
    by_cases hp : p t
    · simp only [List.filter_cons, hp, if_true, List.flatMap_cons, heightL_append]; omega
    · simp only [List.filter_cons, hp, Bool.false_eq_true, if_false, List.flatMap_cons, heightL_append]; omega

theorem height_pos (t : Tree) : 1 ≤ height t := by cases t; simp [height]

theorem heightL_gateL_pos (c : Cfg) (d : Nat) (ts : List Tree) (h : nextLevel c d ts ≠ []) :
    1 ≤ height.heightL (gateL c d ts) := by
  induction ts with
  | nil => exact absurd rfl h
  | cons t ts ih =>
    by_cases ha : c.admit d t
    · simp only [gateL, ha, if_true, height.heightL]
      have := height_pos (gate c d t); omega
    · have : nextLevel c d ts ≠ [] := by
        simpa [nextLevel, List.filter_cons, ha] using h
      simpa [gateL, ha] using ih this

theorem gateL_too_deep (c : Cfg) (d : Nat) (ts : List Tree)
    (h : (c.maxDepth == 0 || !(decide (d > c.maxDepth))) = false) : gateL c d ts = [] := by
  induction ts with
  | nil => rfl
  | cons t ts ih =>
    have : c.admit d t = false := by simp [Cfg.admit, h]
    simp [gateL, this, ih]

/-- number of groups: one per kept layer, plus at most one trailing (empty) group -/
theorem levelGroup_length (c : Cfg) (f d : Nat) (ts : List Tree) (hf : height.heightL ts ≤ f) (h0 : 0 < f) :
    height.heightL (gateL c d ts) ≤ (levelGroupImpl c f d ts).length ∧
    (levelGroupImpl c f d ts).length ≤ height.heightL (gateL c d ts) + 1 := by
  induction f generalizing d ts with
  | zero => omega
  | succ f ih =>
    have hH : height.heightL (gateL c (d + 1) (nextLevel c d ts)) = height.heightL (gateL c d ts) - 1 := by
      rw [← children_gateL, heightL_children]
    have hnx : height.heightL (nextLevel c d ts) ≤ height.heightL ts - 1 := by
      have h1 := heightL_filter_children_le (c.admit d) ts
      have h2 := heightL_children ts
      unfold nextLevel; omega
    simp only [levelGroupImpl, levelStep_eq, List.length_cons]
    change height.heightL (gateL c d ts) ≤
        (if (!(nextLevel c d ts).isEmpty && (c.maxDepth == 0 || !(decide (d + 1 > c.maxDepth)))) = true
          then levelGroupImpl c f (d + 1) (nextLevel c d ts) else []).length + 1 ∧
      (if (!(nextLevel c d ts).isEmpty && (c.maxDepth == 0 || !(decide (d + 1 > c.maxDepth)))) = true
          then levelGroupImpl c f (d + 1) (nextLevel c d ts) else []).length + 1 ≤
        height.heightL (gateL c d ts) + 1
    by_cases hc : (!(nextLevel c d ts).isEmpty && (c.maxDepth == 0 || !(decide (d + 1 > c.maxDepth)))) = true
    · simp only [hc, if_true]
      have hne : nextLevel c d ts ≠ [] := by
        intro e; rw [e] at hc; simp at hc
      have hpos := heightL_gateL_pos c d ts hne
      have hf0 : 0 < f := by
        cases f with
        | zero =>
          exfalso
          have : height.heightL (nextLevel c d ts) = 0 := by omega
          exact hne (heightL_eq_zero this)
        | succ f => omega
      have := ih (d + 1) (nextLevel c d ts) (by omega) hf0
      omega
    · simp only [hc, Bool.false_eq_true, if_false, List.length_nil]
      have : height.heightL (gateL c (d + 1) (nextLevel c d ts)) = 0 := by
        by_cases he : nextLevel c d ts = []
        · simp [he, gateL, height.heightL]
        · have hd : (c.maxDepth == 0 || !(decide (d + 1 > c.maxDepth))) = false := by
            have : (nextLevel c d ts).isEmpty = false := by simpa using he
            simpa [this] using hc
          simp [gateL_too_deep c (d + 1) _ hd, height.heightL]
      omega

theorem zigGroup_layers (c : Cfg) (f d : Nat) (rev : Bool) (L : List Tree) :
    (zigGroupImpl c f d rev (if rev then L.reverse else L)).map (·.map Tree.id)
      = (alternate rev (layersUpTo (zigGroupImpl c f d rev (if rev then L.reverse else L)).length
          (gateL c d L))).map (·.filter c.filt) := by
  induction f generalizing d rev L with
  | zero => simp [zigGroupImpl, layersUpTo, alternate]
  | succ f ih =>
    cases rev with
    | false =>
      simp only [Bool.false_eq_true, if_false, zigGroupImpl, zigStep_eq, List.map_cons, List.length_cons,
        layersUpTo_succ, children_gateL, flatMap_emit_ids, layer0_gateL, alternate, Bool.not_false]
      congr 1
      split
      · have := ih (d + 1) true (nextLevel c d L)
        simpa [nextLevel] using this
      · simp [layersUpTo, alternate]
    | true =>
      have hnx : ((L.reverse.filter (c.admit d)).flatMap fun t => t.children.reverse)
          = (nextLevel c d L).reverse := by
        rw [List.filter_reverse, flatMap_reverse_children]; rfl
      simp only [if_true, zigGroupImpl, zigStep_eq, List.map_cons, List.length_cons,
        layersUpTo_succ, children_gateL, flatMap_emit_ids, layer0_gateL, alternate, Bool.not_true, hnx,
        List.reverse_reverse]
      congr 1
      · simp [List.map_reverse, List.filter_reverse]
      · split
        · have := ih (d + 1) false (nextLevel c d L)
          simpa using this
        · simp [layersUpTo, alternate]

/-! ### each node once: permutations and Nodup -/

mutual
theorem post_perm_pre : ∀ t : Tree, (post t).Perm (pre t)
  | .node i n a cs => by
    simp only [post, pre]
    exact (List.perm_append_comm).trans (List.Perm.cons _ (postL_perm_preL cs))
theorem postL_perm_preL : ∀ ts : List Tree, (postL ts).Perm (preL ts)
  | [] => by simp [postL, preL]
  | t :: ts => by
    simp only [postL, preL]
    exact (post_perm_pre t).append (postL_perm_preL ts)
end

theorem preL_perm_split (ts : List Tree) :
    (preL ts).Perm (ts.map Tree.id ++ preL (ts.flatMap Tree.children)) := by
  induction ts with
  | nil => simp [preL]
  | cons t ts ih =>
    cases t with
    | node i n a cs =>
      simp only [preL, pre, List.map_cons, Tree.id_node, List.flatMap_cons, Tree.children_node,
        preL_append, List.cons_append]
      refine List.Perm.cons _ ?_
      -- preL cs ++ preL ts ~ ids ts ++ (preL cs ++ preL rest)
      refine ((List.Perm.append_left _ ih).trans ?_)
      rw [← List.append_assoc, ← List.append_assoc]
      exact List.Perm.append_right _ List.perm_append_comm

theorem layersUpTo_perm_preL (f : Nat) (ts : List Tree) (h : height.heightL ts ≤ f) :
    ((layersUpTo f ts).flatten).Perm (preL ts) := by
  induction f generalizing ts with
  | zero => rw [heightL_eq_zero (Nat.le_zero.1 h)]; simp [layersUpTo, preL]
  | succ f ih =>
    rw [layersUpTo_succ, List.flatten_cons]
    have h0 : layer.layerL 0 ts = ts.map Tree.id := by
      induction ts with
      | nil => rfl
      | cons t ts ih2 =>
        cases t with
        | node i n a cs =>
          have := ih2 (by simp [height.heightL] at h ⊢; omega)
          simp [layer.layerL, layer, this]
    rw [h0]
    have := ih (ts.flatMap Tree.children) (by rw [heightL_children]; omega)
    exact (List.Perm.append_left _ this).trans (preL_perm_split ts).symm

theorem layers_perm_preL (ts : List Tree) : ((layersL ts).flatten).Perm (preL ts) := by
  have := layersUpTo_perm_preL (height.heightL ts) ts (Nat.le_refl _)
  simpa [layersUpTo, layersL] using this

theorem alternate_flatten_perm (rev : Bool) (ls : List (List Nat)) :
    ((alternate rev ls).flatten).Perm ls.flatten := by
  induction ls generalizing rev with
  | nil => simp [alternate]
  | cons l ls ih =>
    simp only [alternate, List.flatten_cons]
    refine List.Perm.append ?_ (ih _)
    cases rev <;> simp [List.reverse_perm]

mutual
theorem pre_gate_sublist (c : Cfg) : ∀ (d : Nat) (t : Tree), (pre (gate c d t)).Sublist (pre t)
  | d, .node i n a cs => by
    simp only [gate, pre]
    exact (preL_gateL_sublist c (d + 1) cs).cons_cons _
theorem preL_gateL_sublist (c : Cfg) : ∀ (d : Nat) (ts : List Tree),
    (preL (gateL c d ts)).Sublist (preL ts)
  | _, [] => by simp [gateL, preL]
  | d, t :: ts => by
    by_cases h : c.admit d t
    · simp only [gateL, h, if_true, preL]
      exact (pre_gate_sublist c d t).append (preL_gateL_sublist c d ts)
    · simp only [gateL, h, preL]
      exact (preL_gateL_sublist c d ts).trans (List.sublist_append_right _ _)
end

/-! ### which nodes are kept -/

/-- `Kept c d ts i`: node `i` lies in the forest `ts` (whose roots are at depth `d`) and it and all
    its ancestors inside the forest pass the gate. -/
inductive Kept (c : Cfg) : Nat → List Tree → Nat → Prop
  | root {d ts t} : t ∈ ts → c.admit d t = true → Kept c d ts t.id
  | under {d ts t i} : t ∈ ts → c.admit d t = true → Kept c (d + 1) t.children i → Kept c d ts i

theorem Kept.mono {c : Cfg} {d ts ts' i} (h : Kept c d ts i) (hs : ∀ t ∈ ts, t ∈ ts') : Kept c d ts' i := by
  cases h with
  | root hm ha => exact .root (hs _ hm) ha
  | under hm ha hk => exact .under (hs _ hm) ha hk

mutual
theorem mem_pre_gate (c : Cfg) : ∀ (d : Nat) (t : Tree) (i : Nat), c.admit d t = true →
    (i ∈ pre (gate c d t) ↔ Kept c d [t] i)
  | d, .node j n a cs, i, hadm => by
    have ih := mem_preL_gateL c (d + 1) cs i
    simp only [gate, pre, List.mem_cons]
    constructor
    · rintro (rfl | h)
      · exact .root (t := .node i n a cs) (List.mem_singleton.2 rfl) hadm
      · exact .under (t := .node j n a cs) (List.mem_singleton.2 rfl) hadm (ih.1 h)
    · intro h
      cases h with
      | root hm ha => rw [List.mem_singleton.1 hm]; exact Or.inl rfl
      | under hm ha hk => rw [List.mem_singleton.1 hm] at hk; exact Or.inr (ih.2 hk)
theorem mem_preL_gateL (c : Cfg) : ∀ (d : Nat) (ts : List Tree) (i : Nat),
    (i ∈ preL (gateL c d ts) ↔ Kept c d ts i)
  | d, [], i => by
    simp only [gateL, preL, List.not_mem_nil, false_iff]
    intro h; cases h with
    | root hm _ => cases hm
    | under hm _ _ => cases hm
  | d, t :: ts, i => by
    have iht := mem_preL_gateL c d ts i
    by_cases hadm : c.admit d t
    · have ih1 := mem_pre_gate c d t i hadm
      simp only [gateL, hadm, if_true, preL, List.mem_append]
      constructor
      · rintro (h | h)
        · exact (ih1.1 h).mono (by intro x hx; rw [List.mem_singleton.1 hx]; exact List.mem_cons_self)
        · exact (iht.1 h).mono (fun x hx => List.mem_cons_of_mem _ hx)
      · intro h
        cases h with
        | root hm ha =>
          rcases List.mem_cons.1 hm with rfl | hm'
          · exact Or.inl (ih1.2 (.root (List.mem_singleton.2 rfl) ha))
          · exact Or.inr (iht.2 (.root hm' ha))
        | under hm ha hk =>
          rcases List.mem_cons.1 hm with rfl | hm'
          · exact Or.inl (ih1.2 (.under (List.mem_singleton.2 rfl) ha hk))
          · exact Or.inr (iht.2 (.under hm' ha hk))
    · simp only [gateL, hadm, Bool.false_eq_true, if_false]
      rw [iht]
      constructor
      · intro h; exact h.mono (fun x hx => List.mem_cons_of_mem _ hx)
      · intro h
        cases h with
        | root hm ha =>
          rcases List.mem_cons.1 hm with rfl | hm'
          · exact absurd ha hadm
          · exact .root hm' ha
        | under hm ha hk =>
          rcases List.mem_cons.1 hm with rfl | hm'
          · exact absurd ha hadm
          · exact .under hm' ha hk
end

/-! ### in-order on binary trees -/

/-- cut a binary tree at `max_depth` -/
def bgate (maxDepth : Nat) (d : Nat) : BTree → BTree
  | .nil => .nil
  | .node i n a l r =>
    if maxDepth == 0 || !(decide (d > maxDepth)) then
      .node i n a (bgate maxDepth (d + 1) l) (bgate maxDepth (d + 1) r)
    else .nil

/-- left subtree, node, right subtree -/
def inorder : BTree → List Nat
  | .nil => []
  | .node i _ _ l r => inorder l ++ [i] ++ inorder r

theorem inorderImpl_eq (filt : Nat → Bool) (md : Nat) (d : Nat) (t : BTree) :
    inorderImpl filt md d t = (inorder (bgate md d t)).filter filt := by
  induction t generalizing d with
  | nil => simp [inorderImpl, bgate, inorder]
  | node i n a l r ihl ihr =>
    by_cases h : (md == 0 || !(decide (d > md))) = true
    · simp only [inorderImpl, h, if_true, bgate, inorder, ihl, ihr, List.filter_append]
      by_cases hf : filt i <;> simp [hf]
    · simp [inorderImpl, bgate, h, inorder]

end Iter

namespace Iter

theorem zigGroup_length_eq (c : Cfg) (f d : Nat) (rev : Bool) (L : List Tree) :
    (zigGroupImpl c f d rev (if rev then L.reverse else L)).length = (levelGroupImpl c f d L).length := by
  induction f generalizing d rev L with
  | zero => simp [zigGroupImpl, levelGroupImpl]
  | succ f ih =>
    cases rev with
    | false =>
      simp only [Bool.false_eq_true, if_false, zigGroupImpl, levelGroupImpl, zigStep_eq, levelStep_eq,
        List.length_cons, Bool.not_false]
      congr 1
      split
      · have := ih (d + 1) true (nextLevel c d L)
        simpa [nextLevel] using this
      · rfl
    | true =>
      have hnx : ((L.reverse.filter (c.admit d)).flatMap fun t => t.children.reverse)
          = (nextLevel c d L).reverse := by
        rw [List.filter_reverse, flatMap_reverse_children]; rfl
      simp only [if_true, zigGroupImpl, levelGroupImpl, zigStep_eq, levelStep_eq, List.length_cons,
        Bool.not_true, hnx, List.reverse_reverse, List.isEmpty_reverse]
      congr 1
      show List.length (if (!(nextLevel c d L).isEmpty && _) = true then _ else _)
        = List.length (if (!(nextLevel c d L).isEmpty && _) = true then _ else _)
      split
      · have := ih (d + 1) false (nextLevel c d L)
        simpa [nextLevel] using this
      · rfl

end Iter
