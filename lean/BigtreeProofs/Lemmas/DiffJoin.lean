import BigtreeModel.Helper
import BigtreeModel.HelperDiff
import BigtreeProofs.Lemmas.DiffDefs
import BigtreeProofs.Lemmas.DiffWalk
import BigtreeProofs.Lemmas.DiffStr
import BigtreeProofs.Lemmas.DiffMark
/-!
# C15: the outer merge of the two exports, read at component level
-/
namespace Helper

/-! ## generic -/

theorem find?_congr' {α} (p q : α → Bool) : ∀ (l : List α), (∀ x ∈ l, p x = q x) → l.find? p = l.find? q := by
  intro l
  induction l with
  | nil => intro _; rfl
  | cons a l ih =>
    intro h
    simp only [List.find?_cons, h a (by simp)]
    rw [ih (fun x hx => h x (by simp [hx]))]

theorem lookup_map_find {α β} (f : α → List Str) (g : α → β) (p : List Str) : ∀ (l : List α),
    (l.map fun w => (f w, g w)).lookup p = (l.find? fun w => p == f w).map g := by
  intro l
  induction l with
  | nil => rfl
  | cons a l ih =>
    simp only [List.map_cons, List.lookup_cons, List.find?_cons]
    cases h : p == f a <;> simp [ih]

/-! ## component-level reading of one merged row -/

def indC (t1 t2 : Tree) (p : List Str) : Ind :=
  match attrsAt t1 p, attrsAt t2 p with
  | some _, none => .left
  | none, some _ => .right
  | _, _ => .both

def valAt (t : Tree) (k : Str) (p : List Str) : Val :=
  match attrsAt t p with
  | some a => getAttr a k
  | none => .null

def valsAt (attrList : List Str) (t : Tree) (p : List Str) : List Val := attrList.map fun k => valAt t k p

/-- the merged row of path `p` before marking -/
def jrow (c : Char) (attrList : List Str) (t1 t2 : Tree) (p : List Str) : MRow :=
  ⟨pathName [c] p, p.getLastD [], indC t1 t2 p, valsAt attrList t1 p, valsAt attrList t2 p⟩

def mkRow (c : Char) (attrList : List Str) (v : Visit) : DRow :=
  ⟨pathName [c] v.names, v.sub.name, attrList.map (getAttr v.sub.attrs)⟩

theorem rowsOf_eq (c : Char) (attrList : List Str) (t : Tree) :
    rowsOf [c] attrList t = (walk [] [] t).map (mkRow c attrList) := rfl

theorem attrsAt_find (t : Tree) (p : List Str) :
    attrsAt t p = ((walk [] [] t).find? fun w => p == w.names).map (·.sub.attrs) := by
  unfold attrsAt compRows
  exact lookup_map_find _ _ p _

theorem walk_mem_compPaths (t : Tree) (v : Visit) (h : v ∈ walk [] [] t) : v.names ∈ compPaths t :=
  List.mem_map_of_mem h

theorem walk_attrsAt (c : Char) (t : Tree) (ht : NamesOK c t) (v : Visit) (h : v ∈ walk [] [] t) :
    attrsAt t v.names = some v.sub.attrs := by
  rw [attrsAt_some_iff t ht.sibU, ← compRows_eq]
  exact List.mem_map_of_mem (f := fun v => (v.names, v.sub.attrs)) h

theorem walk_names_good (c : Char) (t : Tree) (ht : NamesOK c t) (v : Visit) (h : v ∈ walk [] [] t) :
    v.names ≠ [] ∧ ∀ n ∈ v.names, n ≠ [] ∧ c ∉ n ∧ ¬ endsWithMark n := by
  have hm := walk_mem_compPaths t v h
  rw [compPaths_eq] at hm
  refine ⟨?_, ht.keys_good _ hm⟩
  obtain ⟨r, hr⟩ := keys_head t _ hm
  rw [hr]; simp

theorem sameKey_mkRow (c : Char) (al al' : List Str) (t1 t2 : Tree) (h1 : NamesOK c t1) (h2 : NamesOK c t2)
    (v w : Visit) (hv : v ∈ walk [] [] t1) (hw : w ∈ walk [] [] t2) :
    sameKey (mkRow c al v) (mkRow c al' w) = (v.names == w.names) := by
  have gv := walk_names_good c t1 h1 v hv
  have gw := walk_names_good c t2 h2 w hw
  by_cases e : v.names = w.names
  · have en : v.sub.name = w.sub.name := by
      rw [← walk_names_getLastD t1 v hv, ← walk_names_getLastD t2 w hw, e]
    simp [sameKey, mkRow, e, en]
  · have : pathName [c] v.names ≠ pathName [c] w.names := by
      intro hp
      exact e (pathName_inj c _ _ gv.1 gw.1 (fun x hx => (gv.2 x hx).2.1) (fun x hx => (gw.2 x hx).2.1) hp)
    have e1 : (pathName [c] v.names == pathName [c] w.names) = false := by simpa using this
    have e2 : (v.names == w.names) = false := by simpa using e
    simp [sameKey, mkRow, e1, e2]

theorem valsAt_some (attrList : List Str) (t : Tree) (p : List Str) (a : Attrs) (h : attrsAt t p = some a) :
    valsAt attrList t p = attrList.map (getAttr a) := by
  simp [valsAt, valAt, h]

theorem valsAt_none (attrList : List Str) (t : Tree) (p : List Str) (h : attrsAt t p = none) :
    valsAt attrList t p = List.replicate attrList.length .null := by
  simp [valsAt, valAt, h, List.map_const']

/-- left part of the merge -/
theorem join_left (c : Char) (attrList : List Str) (t1 t2 : Tree) (h1 : NamesOK c t1) (h2 : NamesOK c t2)
    (v : Visit) (hv : v ∈ walk [] [] t1) :
    (match (rowsOf [c] attrList t2).find? (sameKey (mkRow c attrList v)) with
      | some q => (⟨(mkRow c attrList v).path, (mkRow c attrList v).name, .both, (mkRow c attrList v).vals, q.vals⟩ : MRow)
      | none => ⟨(mkRow c attrList v).path, (mkRow c attrList v).name, .left, (mkRow c attrList v).vals,
          List.replicate attrList.length .null⟩)
      = jrow c attrList t1 t2 v.names := by
  have ha1 := walk_attrsAt c t1 h1 v hv
  have hn : v.sub.name = v.names.getLast?.getD [] := by
    simpa using (walk_names_getLastD t1 v hv).symm
  rw [rowsOf_eq, List.find?_map]
  rw [find?_congr' (sameKey (mkRow c attrList v) ∘ mkRow c attrList) (fun w => v.names == w.names) _
    (fun w hw => sameKey_mkRow c attrList attrList t1 t2 h1 h2 v w hv hw)]
  have ha2 := attrsAt_find t2 v.names
  cases hf : (walk [] [] t2).find? (fun w => v.names == w.names) with
  | none =>
    rw [hf] at ha2
    simp only [Option.map_none] at ha2 ⊢
    simp [jrow, mkRow, indC, ha1, ha2, hn, valsAt_some _ _ _ _ ha1, valsAt_none _ _ _ ha2]
  | some w =>
    rw [hf] at ha2
    simp only [Option.map_some] at ha2 ⊢
    simp [jrow, mkRow, indC, ha1, ha2, hn, valsAt_some _ _ _ _ ha1, valsAt_some _ _ _ _ ha2]

theorem any_sameKey (c : Char) (attrList : List Str) (t1 t2 : Tree) (h1 : NamesOK c t1) (h2 : NamesOK c t2)
    (w : Visit) (hw : w ∈ walk [] [] t2) :
    ((rowsOf [c] attrList t1).any fun r => sameKey r (mkRow c attrList w)) = (compPaths t1).contains w.names := by
  rw [rowsOf_eq, List.any_map, Bool.eq_iff_iff, List.contains_iff_mem]
  simp only [List.any_eq_true, Function.comp_apply, compPaths, List.mem_map]
  constructor
  · rintro ⟨v, hv, hk⟩
    rw [sameKey_mkRow c attrList attrList t1 t2 h1 h2 v w hv hw] at hk
    exact ⟨v, hv, beq_iff_eq.mp hk⟩
  · rintro ⟨v, hv, hk⟩
    refine ⟨v, hv, ?_⟩
    rw [sameKey_mkRow c attrList attrList t1 t2 h1 h2 v w hv hw]
    exact beq_iff_eq.mpr hk

theorem join_right (c : Char) (attrList : List Str) (t1 t2 : Tree) (h2 : NamesOK c t2)
    (w : Visit) (hw : w ∈ walk [] [] t2) (hnot : w.names ∉ compPaths t1) :
    (⟨(mkRow c attrList w).path, (mkRow c attrList w).name, .right, List.replicate attrList.length .null,
        (mkRow c attrList w).vals⟩ : MRow) = jrow c attrList t1 t2 w.names := by
  have ha2 := walk_attrsAt c t2 h2 w hw
  have ha1 := (attrsAt_eq_none_iff t1 w.names).mpr hnot
  have hn : w.sub.name = w.names.getLast?.getD [] := by
    simpa using (walk_names_getLastD t2 w hw).symm
  simp [jrow, mkRow, indC, ha1, ha2, hn, valsAt_some _ _ _ _ ha2, valsAt_none _ _ _ ha1]

/-- the outer merge has one row per path of either tree -/
theorem outerJoin_eq (c : Char) (attrList : List Str) (t1 t2 : Tree) (h1 : NamesOK c t1) (h2 : NamesOK c t2) :
    outerJoin attrList.length (rowsOf [c] attrList t1) (rowsOf [c] attrList t2) =
      (allPaths t1 t2).map (jrow c attrList t1 t2) := by
  unfold outerJoin allPaths
  rw [List.map_append]
  congr 1
  · conv => lhs; rw [rowsOf_eq c attrList t1]
    rw [List.map_map, compPaths, List.map_map]
    apply List.map_congr_left
    intro v hv
    exact join_left c attrList t1 t2 h1 h2 v hv
  · conv => lhs; rw [rowsOf_eq c attrList t2]
    rw [List.filter_map, List.map_map]
    have hc2 : compPaths t2 = (walk [] [] t2).map (fun v => v.names) := rfl
    rw [hc2, List.filter_map, List.map_map]
    have hf : (walk [] [] t2).filter ((fun q => !(rowsOf [c] attrList t1).any fun r => sameKey r q) ∘ mkRow c attrList)
        = (walk [] [] t2).filter ((fun p => !(compPaths t1).contains p) ∘ fun v => v.names) := by
      apply List.filter_congr
      intro w hw
      simp only [Function.comp_apply]
      rw [any_sameKey c attrList t1 t2 h1 h2 w hw]
    rw [hf]
    apply List.map_congr_left
    intro w hw
    rw [List.mem_filter] at hw
    simp only [Function.comp_apply]
    exact join_right c attrList t1 t2 h2 w hw.1 (by simpa using hw.2)

/-! ## paths of either tree -/

theorem mem_allPaths (t1 t2 : Tree) (p : List Str) :
    p ∈ allPaths t1 t2 ↔ p ∈ compPaths t1 ∨ p ∈ compPaths t2 := by
  unfold allPaths
  simp only [List.mem_append, List.mem_filter]
  by_cases h : p ∈ compPaths t1 <;> simp [h]

theorem allPaths_good (c : Char) (t1 t2 : Tree) (h : DiffOK c t1 t2) (p : List Str) (hp : p ∈ allPaths t1 t2) :
    p ≠ [] ∧ ∀ n ∈ p, n ≠ [] ∧ c ∉ n ∧ ¬ endsWithMark n := by
  rw [mem_allPaths, compPaths_eq, compPaths_eq] at hp
  rcases hp with hp | hp
  · refine ⟨?_, h.ok1.keys_good _ hp⟩
    obtain ⟨r, hr⟩ := keys_head t1 _ hp
    rw [hr]; simp
  · refine ⟨?_, h.ok2.keys_good _ hp⟩
    obtain ⟨r, hr⟩ := keys_head t2 _ hp
    rw [hr]; simp

theorem allPaths_prefix_closed (t1 t2 : Tree) (p q : List Str) (hp : p ∈ allPaths t1 t2)
    (hq : q <+: p) (hne : q ≠ []) : q ∈ allPaths t1 t2 := by
  rw [mem_allPaths, compPaths_eq, compPaths_eq] at hp ⊢
  rcases hp with hp | hp
  · exact Or.inl (keys_prefix_closed t1 p q hp hq hne)
  · exact Or.inr (keys_prefix_closed t2 p q hp hq hne)

theorem allPaths_nodup (c : Char) (t1 t2 : Tree) (h : DiffOK c t1 t2) : (allPaths t1 t2).Nodup := by
  unfold allPaths
  rw [List.nodup_append]
  refine ⟨?_, nodup_filter _ _ ?_, ?_⟩
  · rw [compPaths_eq]; exact keys_nodup t1 h.ok1.sibU
  · rw [compPaths_eq]; exact keys_nodup t2 h.ok2.sibU
  · intro a ha b hb e
    subst e
    rw [List.mem_filter] at hb
    simp at hb
    exact hb.2 ha

theorem take_good {P : Str → Prop} (p : List Str) (k : Nat) (h : ∀ n ∈ p, P n) : ∀ n ∈ p.take k, P n :=
  fun n hn => h n (List.mem_of_mem_take hn)

/-! ## `_add_suffix` -/

theorem take_succ_ne_nil {α} (p : List α) (i : Nat) (hi : i < p.length) : p.take (i + 1) ≠ [] := by
  cases p with
  | nil => simp at hi
  | cons a p => simp

/-- the structural status: removed / added / same (attribute changes are not looked at) -/
def stPM (t1 t2 : Tree) (p : List Str) : Status :=
  match attrsAt t1 p, attrsAt t2 p with
  | some _, none => .removed
  | none, some _ => .added
  | _, _ => .same

theorem stPM_removed_iff (t1 t2 : Tree) (p : List Str) : stPM t1 t2 p = .removed ↔ indC t1 t2 p = .left := by
  unfold stPM indC
  cases attrsAt t1 p <;> cases attrsAt t2 p <;> simp

theorem stPM_added_iff (t1 t2 : Tree) (p : List Str) : stPM t1 t2 p = .added ↔ indC t1 t2 p = .right := by
  unfold stPM indC
  cases attrsAt t1 p <;> cases attrsAt t2 p <;> simp

theorem stPM_ne_changed (t1 t2 : Tree) (p : List Str) : stPM t1 t2 p ≠ .changed := by
  unfold stPM
  cases attrsAt t1 p <;> cases attrsAt t2 p <;> simp

theorem indC_ne_both_mem (t1 t2 : Tree) (p : List Str) (h : indC t1 t2 p ≠ .both) : p ∈ allPaths t1 t2 := by
  rw [mem_allPaths, ← attrsAt_isSome_iff, ← attrsAt_isSome_iff]
  unfold indC at h
  cases h1 : attrsAt t1 p <;> cases h2 : attrsAt t2 p <;> simp_all

theorem ind_contains (c : Char) (attrList : List Str) (t1 t2 : Tree) (h : DiffOK c t1 t2) (i : Ind)
    (hi : i ≠ .both) (q : List Str) (hq : q ≠ []) (hqc : ∀ n ∈ q, c ∉ n) :
    ((((allPaths t1 t2).map (jrow c attrList t1 t2)).filter fun r => r.ind == i).map (·.path)).contains
      (pathName [c] q) = decide (indC t1 t2 q = i) := by
  rw [Bool.eq_iff_iff, List.contains_iff_mem]
  simp only [List.mem_map, List.mem_filter, decide_eq_true_eq, beq_iff_eq]
  constructor
  · rintro ⟨r, ⟨⟨p, hp, rfl⟩, hind⟩, hpath⟩
    have gp := allPaths_good c t1 t2 h p hp
    have : p = q := pathName_inj c p q gp.1 hq (fun x hx => (gp.2 x hx).2.1) hqc hpath
    subst this
    exact hind
  · intro hind
    exact ⟨jrow c attrList t1 t2 q, ⟨⟨q, indC_ne_both_mem t1 t2 q (by rw [hind]; exact hi), rfl⟩, hind⟩, rfl⟩

theorem addSuffixList_cons (c : Char) (rem add : List Str) (st : List Str → Status) (p : List Str)
    (hst : ∀ i, i < p.length →
      rem.contains (pathName [c] (p.take (i + 1))) = decide (st (p.take (i + 1)) = .removed) ∧
      add.contains (pathName [c] (p.take (i + 1))) = decide (st (p.take (i + 1)) = .added) ∧
      st (p.take (i + 1)) ≠ .changed) :
    addSuffixList [c] rem add ([] :: p) = [] :: markFull st p := by
  unfold addSuffixList markFull
  simp only [List.length_cons, List.range_succ_eq_map, List.map_cons, List.map_map]
  congr 1
  apply List.map_congr_left
  intro i hi
  rw [List.mem_range] at hi
  obtain ⟨h1, h2, h3⟩ := hst i hi
  have hne : p.take (i + 1) ≠ [] := take_succ_ne_nil p i hi
  have hj : join [c] (List.take (i + 1 + 1) ([] :: p)) = pathName [c] (p.take (i + 1)) := by
    rw [pathName_eq_join c _ hne]; simp
  simp only [Function.comp_apply, Nat.succ_eq_add_one, Nat.add_eq_zero_iff, Nat.one_ne_zero, and_false, if_false,
    List.getD_cons_succ, hj, h1, h2]
  cases hs : st (p.take (i + 1)) <;> simp_all [Status.suffix]

/-- the merged row of path `p` after marking -/
def mrow (c : Char) (attrList : List Str) (t1 t2 : Tree) (p : List Str) : MRow :=
  ⟨pathName [c] (markFull (stPM t1 t2) p), p.getLastD [], indC t1 t2 p, valsAt attrList t1 p, valsAt attrList t2 p⟩

theorem addSuffix_pathName (c : Char) (attrList : List Str) (t1 t2 : Tree) (h : DiffOK c t1 t2)
    (p : List Str) (hp : p ∈ allPaths t1 t2) :
    addSuffix [c]
      ((((allPaths t1 t2).map (jrow c attrList t1 t2)).filter fun r => r.ind == .left).map (·.path))
      ((((allPaths t1 t2).map (jrow c attrList t1 t2)).filter fun r => r.ind == .right).map (·.path))
      (pathName [c] p) = pathName [c] (markFull (stPM t1 t2) p) := by
  have gp := allPaths_good c t1 t2 h p hp
  unfold addSuffix
  rw [split_pathName c p gp.1 (fun x hx => (gp.2 x hx).2.1)]
  rw [addSuffixList_cons c _ _ (stPM t1 t2) p]
  · rw [pathName_eq_join c _ (by rw [Ne, markFull_eq_nil]; exact gp.1)]
  · intro i hi
    have hne : p.take (i + 1) ≠ [] := by
      exact take_succ_ne_nil p i hi
    have hc : ∀ n ∈ p.take (i + 1), c ∉ n := fun n hn => (gp.2 n (List.mem_of_mem_take hn)).2.1
    refine ⟨?_, ?_, stPM_ne_changed t1 t2 _⟩
    · rw [ind_contains c attrList t1 t2 h .left (by decide) _ hne hc]
      simp [stPM_removed_iff]
    · rw [ind_contains c attrList t1 t2 h .right (by decide) _ hne hc]
      simp [stPM_added_iff]

theorem markedRows_eq (c : Char) (attrList : List Str) (t1 t2 : Tree) (h : DiffOK c t1 t2) :
    markedRows [c] attrList t1 t2 = (allPaths t1 t2).map (mrow c attrList t1 t2) := by
  unfold markedRows
  simp only []
  rw [outerJoin_eq c attrList t1 t2 h.ok1 h.ok2, List.map_map]
  apply List.map_congr_left
  intro p hp
  simp only [Function.comp_apply]
  have := addSuffix_pathName c attrList t1 t2 h p hp
  simp only [jrow] at this ⊢
  rw [this]
  rfl

end Helper
