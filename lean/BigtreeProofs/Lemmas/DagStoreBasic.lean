import BigtreeModel.DagStore
/-!
# DagStore — basic lemmas: store extensionality, edge insertion / removal, the invariant `DWF`
-/

namespace DagStore

/-! ## lists -/

theorem nodup_bound : ∀ (n : Nat) (l : List Nat), l.Nodup → (∀ x ∈ l, x < n) → l.length ≤ n := by
  intro n
  induction n with
  | zero =>
    intro l _ h
    cases l with
    | nil => simp
    | cons a t => exact absurd (h a (by simp)) (by omega)
  | succ n ih =>
    intro l hn h
    have h1 : (l.erase n).length ≤ n := by
      apply ih _ (hn.erase n)
      intro x hx
      have := (hn.mem_erase_iff).1 hx
      have := h x this.2
      omega
    by_cases hm : n ∈ l
    · have := List.length_erase_of_mem hm
      omega
    · rw [List.erase_of_not_mem hm] at h1
      omega

theorem erase_append_singleton {l : List Nat} {p : Nat} (h : p ∉ l) : (l ++ [p]).erase p = l := by
  rw [List.erase_append_right _ h]; simp

/-! ## stores -/

theorem DStore.ext' {s t : DStore} (hn : s.n = t.n) (hnm : s.names = t.names)
    (hp : ∀ x, s.parents x = t.parents x) (hc : ∀ x, s.children x = t.children x) : s = t := by
  cases s; cases t
  simp only at hn hnm hp hc
  have := funext hp
  have := funext hc
  subst_vars
  rfl

@[simp] theorem upd_same {α : Type} (f : Nat → α) (i : Nat) (x : α) : upd f i x i = x := by
  simp [upd]

theorem upd_other {α : Type} (f : Nat → α) {i j : Nat} (x : α) (h : j ≠ i) : upd f i x j = f j := by
  simp [upd, h]

theorem upd_apply {α : Type} (f : Nat → α) (i j : Nat) (x : α) :
    upd f i x j = if j = i then x else f j := rfl

/-! ### single edges -/

@[simp] theorem addE_n (s : DStore) (p c : Nat) : (s.addE p c).n = s.n := rfl
@[simp] theorem addE_names (s : DStore) (p c : Nat) : (s.addE p c).names = s.names := rfl
@[simp] theorem delE_n (s : DStore) (p c : Nat) : (s.delE p c).n = s.n := rfl
@[simp] theorem delE_names (s : DStore) (p c : Nat) : (s.delE p c).names = s.names := rfl

theorem addE_parents (s : DStore) (p c x : Nat) :
    (s.addE p c).parents x = if x = c then s.parents c ++ [p] else s.parents x := rfl
theorem addE_children (s : DStore) (p c x : Nat) :
    (s.addE p c).children x = if x = p then s.children p ++ [c] else s.children x := rfl
theorem delE_parents (s : DStore) (p c x : Nat) :
    (s.delE p c).parents x = if x = c then (s.parents c).erase p else s.parents x := rfl
theorem delE_children (s : DStore) (p c x : Nat) :
    (s.delE p c).children x = if x = p then (s.children p).erase c else s.children x := rfl

theorem mem_addE_parents {s : DStore} {p c q x : Nat} :
    q ∈ (s.addE p c).parents x ↔ q ∈ s.parents x ∨ (q = p ∧ x = c) := by
  rw [addE_parents]
  by_cases h : x = c
  · subst h; simp
  · simp [h]

theorem mem_addE_children {s : DStore} {p c q x : Nat} :
    x ∈ (s.addE p c).children q ↔ x ∈ s.children q ∨ (q = p ∧ x = c) := by
  rw [addE_children]
  by_cases h : q = p
  · subst h; simp
  · simp [h]

/-- removing an edge that has just been appended gives back the store, lists in order -/
theorem delE_addE (s : DStore) {p c : Nat} (h1 : p ∉ s.parents c) (h2 : c ∉ s.children p) :
    (s.addE p c).delE p c = s := by
  refine DStore.ext' (s := _) (t := _) (by rfl) (by rfl) ?_ ?_
  · intro x
    rw [delE_parents, addE_parents, addE_parents]
    by_cases h : x = c
    · subst h; simp [erase_append_singleton h1]
    · simp [h]
  · intro x
    rw [delE_children, addE_children, addE_children]
    by_cases h : x = p
    · subst h; simp [erase_append_singleton h2]
    · simp [h]

/-- removing a present edge commutes with appending any edge -/
theorem delE_addE_comm (s : DStore) {p c : Nat} (q d : Nat) (h1 : p ∈ s.parents c)
    (h2 : c ∈ s.children p) : (s.addE q d).delE p c = (s.delE p c).addE q d := by
  refine DStore.ext' (s := _) (t := _) (by rfl) (by rfl) ?_ ?_
  · intro x
    simp only [delE_parents, addE_parents]
    by_cases hxc : x = c <;> by_cases hxd : x = d <;> by_cases hcd : c = d <;>
      simp_all [List.erase_append_left]
  · intro x
    simp only [delE_children, addE_children]
    by_cases hxp : x = p <;> by_cases hxq : x = q <;> by_cases hpq : p = q <;>
      simp_all [List.erase_append_left]

/-! ### edge lists -/

/-- append the edges of `E` one after the other -/
def addEs (s : DStore) : List (Nat × Nat) → DStore
  | [] => s
  | e :: E => addEs (s.addE e.1 e.2) E

@[simp] theorem addEs_n (s : DStore) (E : List (Nat × Nat)) : (addEs s E).n = s.n := by
  induction E generalizing s with
  | nil => rfl
  | cons e E ih => simp [addEs, ih]

@[simp] theorem addEs_names (s : DStore) (E : List (Nat × Nat)) : (addEs s E).names = s.names := by
  induction E generalizing s with
  | nil => rfl
  | cons e E ih => simp [addEs, ih]

theorem mem_addEs_parents {s : DStore} {E : List (Nat × Nat)} {q x : Nat} :
    q ∈ (addEs s E).parents x ↔ q ∈ s.parents x ∨ (q, x) ∈ E := by
  induction E generalizing s with
  | nil => simp [addEs]
  | cons e E ih =>
    obtain ⟨p, c⟩ := e
    simp only [addEs, ih, mem_addE_parents, List.mem_cons, Prod.mk.injEq]
    constructor
    · rintro ((h | h) | h) <;> simp [h]
    · rintro (h | h | h) <;> simp [h]

theorem mem_addEs_children {s : DStore} {E : List (Nat × Nat)} {q x : Nat} :
    x ∈ (addEs s E).children q ↔ x ∈ s.children q ∨ (q, x) ∈ E := by
  induction E generalizing s with
  | nil => simp [addEs]
  | cons e E ih =>
    obtain ⟨p, c⟩ := e
    simp only [addEs, ih, mem_addE_children, List.mem_cons, Prod.mk.injEq]
    constructor
    · rintro ((h | h) | h) <;> simp [h]
    · rintro (h | h | h) <;> simp [h]

theorem delE_addEs_comm (s : DStore) (E : List (Nat × Nat)) {p c : Nat} (h1 : p ∈ s.parents c)
    (h2 : c ∈ s.children p) : (addEs s E).delE p c = addEs (s.delE p c) E := by
  induction E generalizing s with
  | nil => rfl
  | cons e E ih =>
    simp only [addEs]
    rw [ih, delE_addE_comm _ _ _ h1 h2]
    · exact mem_addE_parents.2 (Or.inl h1)
    · exact mem_addE_children.2 (Or.inl h2)

/-- undoing the first of a batch of appended edges -/
theorem delE_addEs_head (s : DStore) (E : List (Nat × Nat)) {p c : Nat} (h1 : p ∉ s.parents c)
    (h2 : c ∉ s.children p) : (addEs s ((p, c) :: E)).delE p c = addEs s E := by
  simp only [addEs]
  rw [delE_addEs_comm, delE_addE _ h1 h2]
  · exact mem_addE_parents.2 (Or.inr ⟨rfl, rfl⟩)
  · exact mem_addE_children.2 (Or.inr ⟨rfl, rfl⟩)

/-- the old lists are prefixes of the new ones -/
theorem addEs_parents_prefix (s : DStore) (E : List (Nat × Nat)) (x : Nat) :
    s.parents x <+: (addEs s E).parents x := by
  induction E generalizing s with
  | nil => exact List.prefix_refl _
  | cons e E ih =>
    refine List.IsPrefix.trans ?_ (ih _)
    rw [addE_parents]
    by_cases h : x = e.2
    · subst h; simp
    · simp [h]

theorem addEs_children_prefix (s : DStore) (E : List (Nat × Nat)) (x : Nat) :
    s.children x <+: (addEs s E).children x := by
  induction E generalizing s with
  | nil => exact List.prefix_refl _
  | cons e E ih =>
    refine List.IsPrefix.trans ?_ (ih _)
    rw [addE_children]
    by_cases h : x = e.1
    · subst h; simp
    · simp [h]

end DagStore
