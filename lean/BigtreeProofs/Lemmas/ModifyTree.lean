import BigtreeModel.Modify
import BigtreeProofs.Lemmas.ModifyFold
/-!
# C08 helper lemmas: entry lists (`flat`) of trees edited by `modifyAt` / `removeAt`
-/
namespace Modify

/-! ### unfolding -/

theorem nodesRel_node (i n a cs) :
    nodesRel (.node i n a cs) = ([], .node i n a cs) :: nodesRelL cs := by
  simp [nodesRel]

@[simp] theorem nodesRelL_nil : nodesRelL [] = [] := by simp [nodesRelL]
theorem nodesRelL_cons (c cs) :
    nodesRelL (c :: cs) = (nodesRel c).map (fun pr => (c.name :: pr.1, pr.2)) ++ nodesRelL cs := by
  simp [nodesRelL]

theorem nodesRelL_append (l r : List Tree) : nodesRelL (l ++ r) = nodesRelL l ++ nodesRelL r := by
  induction l with
  | nil => simp
  | cons c l ih => simp [nodesRelL_cons, ih]

/-- push an entry of a child below the child's name -/
def pre (n : Str) (e : Entry) : Entry := (n :: e.1, e.2)

theorem flat_node (i n a cs) : flat (.node i n a cs) = ([], i, a) :: flatL cs := by
  simp [flat, flatL, nodesRel_node]

@[simp] theorem flatL_nil : flatL [] = [] := by simp [flatL]
theorem flatL_cons (c cs) : flatL (c :: cs) = (flat c).map (pre c.name) ++ flatL cs := by
  simp [flatL, flat, nodesRelL_cons, pre, Function.comp_def]
theorem flatL_append (l r : List Tree) : flatL (l ++ r) = flatL l ++ flatL r := by
  simp [flatL, nodesRelL_append]

theorem flat_eq (t : Tree) : flat t = ([], t.id, t.attrs) :: flatL t.children := by
  cases t; simp [flat_node]

/-- every entry of a child list starts with the name of one of the children -/
theorem flatL_head {cs : List Tree} {e : Entry} (h : e ∈ flatL cs) :
    ∃ c ∈ cs, ∃ e' ∈ flat c, e = pre c.name e' := by
  induction cs with
  | nil => simp at h
  | cons c cs ih =>
    rw [flatL_cons, List.mem_append] at h
    rcases h with h | h
    · obtain ⟨e', he', rfl⟩ := List.mem_map.1 h
      exact ⟨c, by simp, e', he', rfl⟩
    · obtain ⟨c', hc', r⟩ := ih h
      exact ⟨c', by simp [hc'], r⟩

theorem mem_flatL {cs : List Tree} {e : Entry} :
    e ∈ flatL cs ↔ ∃ c ∈ cs, ∃ e' ∈ flat c, e = pre c.name e' := by
  constructor
  · exact flatL_head
  · rintro ⟨c, hc, e', he', rfl⟩
    induction cs with
    | nil => simp at hc
    | cons d cs ih =>
      rw [flatL_cons, List.mem_append]
      rcases List.mem_cons.1 hc with rfl | hc
      · exact Or.inl (List.mem_map.2 ⟨e', he', rfl⟩)
      · exact Or.inr (ih hc)

/-! ### sibling uniqueness -/

theorem mem_nodesRelL {cs : List Tree} {pr : List Str × Tree} :
    pr ∈ nodesRelL cs ↔ ∃ c ∈ cs, ∃ q ∈ nodesRel c, pr = (c.name :: q.1, q.2) := by
  induction cs with
  | nil => simp
  | cons d cs ih =>
    rw [nodesRelL_cons, List.mem_append, ih]
    constructor
    · rintro (h | ⟨c, hc, r⟩)
      · obtain ⟨q, hq, rfl⟩ := List.mem_map.1 h
        exact ⟨d, by simp, q, hq, rfl⟩
      · exact ⟨c, by simp [hc], r⟩
    · rintro ⟨c, hc, q, hq, rfl⟩
      rcases List.mem_cons.1 hc with rfl | hc
      · exact Or.inl (List.mem_map.2 ⟨q, hq, rfl⟩)
      · exact Or.inr ⟨c, hc, q, hq, rfl⟩

theorem sibUnique_node {i n a cs} :
    SibUnique (.node i n a cs) ↔ (cs.map Tree.name).Nodup ∧ ∀ c ∈ cs, SibUnique c := by
  unfold SibUnique
  rw [nodesRel_node]
  constructor
  · intro h
    refine ⟨by simpa using h _ (List.mem_cons_self ..), fun c hc pr hpr => ?_⟩
    exact h (c.name :: pr.1, pr.2) (List.mem_cons_of_mem _ (mem_nodesRelL.2 ⟨c, hc, pr, hpr, rfl⟩))
  · rintro ⟨h1, h2⟩ pr hpr
    rcases List.mem_cons.1 hpr with rfl | hpr
    · simpa using h1
    · obtain ⟨c, hc, q, hq, rfl⟩ := mem_nodesRelL.1 hpr
      exact h2 c hc q hq

theorem SibUnique.kids {t : Tree} (h : SibUnique t) : (t.children.map Tree.name).Nodup := by
  cases t; exact (sibUnique_node.1 h).1
theorem SibUnique.child {t : Tree} (h : SibUnique t) {c} (hc : c ∈ t.children) : SibUnique c := by
  cases t; exact (sibUnique_node.1 h).2 c hc

/-! ### children addressed by name -/

theorem findChild_split {n : Str} {cs : List Tree} {x : Tree} (h : findChild n cs = some x) :
    ∃ l r, cs = l ++ x :: r ∧ (∀ y ∈ l, y.name ≠ n) ∧ x.name = n := by
  induction cs with
  | nil => simp [findChild] at h
  | cons c cs ih =>
    unfold findChild at h
    rw [List.find?_cons] at h
    split at h
    · rename_i hc
      simp at h; subst h
      exact ⟨[], cs, rfl, by simp, by simpa using hc⟩
    · rename_i hc
      obtain ⟨l, r, rfl, hl, hx⟩ := ih h
      refine ⟨c :: l, r, rfl, ?_, hx⟩
      intro y hy
      rcases List.mem_cons.1 hy with rfl | hy
      · simpa using hc
      · exact hl y hy

theorem findChild_none {n : Str} {cs : List Tree} (h : findChild n cs = none) :
    ∀ y ∈ cs, y.name ≠ n := by
  unfold findChild at h
  intro y hy
  have := List.find?_eq_none.1 h y hy
  simpa using this

theorem findChild_of_split {n : Str} {l r : List Tree} {x : Tree} (hl : ∀ y ∈ l, y.name ≠ n)
    (hx : x.name = n) : findChild n (l ++ x :: r) = some x := by
  induction l with
  | nil => simp [findChild, hx]
  | cons c l ih =>
    have hc : c.name ≠ n := hl c (by simp)
    have := ih (fun y hy => hl y (by simp [hy]))
    have hc' : (c.name == n) = false := by simpa using hc
    simp only [findChild, List.cons_append, List.find?_cons] at this ⊢
    simp [hc', this]

theorem mapChild_split {n : Str} {l r : List Tree} {x : Tree} (f : Tree → Tree)
    (hl : ∀ y ∈ l, y.name ≠ n) (hx : x.name = n) : mapChild n f (l ++ x :: r) = l ++ f x :: r := by
  induction l with
  | nil => simp [mapChild, hx]
  | cons c l ih =>
    have hc : c.name ≠ n := hl c (by simp)
    simp [mapChild, hc, ih (fun y hy => hl y (by simp [hy]))]

theorem eraseChild_split {n : Str} {l r : List Tree} {x : Tree}
    (hl : ∀ y ∈ l, y.name ≠ n) (hx : x.name = n) : eraseChild n (l ++ x :: r) = l ++ r := by
  induction l with
  | nil => simp [eraseChild, hx]
  | cons c l ih =>
    have hc : c.name ≠ n := hl c (by simp)
    simp [eraseChild, hc, ih (fun y hy => hl y (by simp [hy]))]

theorem mapChild_none {n : Str} {cs : List Tree} (f : Tree → Tree) (h : ∀ y ∈ cs, y.name ≠ n) :
    mapChild n f cs = cs := by
  induction cs with
  | nil => rfl
  | cons c cs ih =>
    have hc : c.name ≠ n := h c (by simp)
    simp [mapChild, hc, ih (fun y hy => h y (by simp [hy]))]

theorem eraseChild_none {n : Str} {cs : List Tree} (h : ∀ y ∈ cs, y.name ≠ n) :
    eraseChild n cs = cs := by
  induction cs with
  | nil => rfl
  | cons c cs ih =>
    have hc : c.name ≠ n := h c (by simp)
    simp [eraseChild, hc, ih (fun y hy => h y (by simp [hy]))]

/-! ### filters on entry lists -/

theorem under_nil (e : Entry) : under [] e = true := by simp [under]
theorem under_pre_cons (n m : Str) (q : List Str) (e : Entry) :
    under (m :: q) (pre n e) = (m == n && under q e) := by
  simp [under, pre, List.isPrefixOf]
theorem under_cons_root (m : Str) (q : List Str) (x : Nat × Attrs) : under (m :: q) ([], x) = false := by
  simp [under, List.isPrefixOf]

/-- entries of children all named differently from `n` are not under `n :: q` -/
theorem filter_under_flatL_none {n : Str} {q : List Str} {l : List Tree} (hl : ∀ y ∈ l, y.name ≠ n) :
    (flatL l).filter (under (n :: q)) = [] := by
  rw [List.filter_eq_nil_iff]
  intro e he
  obtain ⟨c, hc, e', _, rfl⟩ := flatL_head he
  have := hl c hc
  simp [under_pre_cons, Ne.symm this]

theorem filter_not_under_flatL_none {n : Str} {q : List Str} {l : List Tree} (hl : ∀ y ∈ l, y.name ≠ n) :
    (flatL l).filter (fun e => !under (n :: q) e) = flatL l := by
  rw [List.filter_eq_self]
  intro e he
  obtain ⟨c, hc, e', _, rfl⟩ := flatL_head he
  have := hl c hc
  simp [under_pre_cons, Ne.symm this]

theorem filter_under_map_pre (n : Str) (q : List Str) (l : List Entry) :
    (l.map (pre n)).filter (under (n :: q)) = (l.filter (under q)).map (pre n) := by
  induction l with
  | nil => rfl
  | cons e l ih => simp [List.filter_cons, under_pre_cons, ih]; split <;> simp

theorem filter_not_under_map_pre (n : Str) (q : List Str) (l : List Entry) :
    (l.map (pre n)).filter (fun e => !under (n :: q) e) = (l.filter (fun e => !under q e)).map (pre n) := by
  induction l with
  | nil => rfl
  | cons e l ih => simp [List.filter_cons, under_pre_cons, ih]; split <;> simp

end Modify

namespace Modify

/-! ### `getRel` -/

@[simp] theorem getRel_nil (t : Tree) : getRel [] t = some t := rfl
theorem getRel_cons (n : Str) (ns : List Str) (t : Tree) :
    getRel (n :: ns) t = (findChild n t.children).bind (getRel ns) := rfl

theorem getRel_append (p r : List Str) (t : Tree) :
    getRel (p ++ r) t = (getRel p t).bind (getRel r) := by
  induction p generalizing t with
  | nil => simp
  | cons n p ih =>
    simp only [List.cons_append, getRel_cons]
    cases findChild n t.children with
    | none => simp
    | some x => simp [ih]

/-- the name of a node reached by a non-empty path is the last component -/
theorem getRel_name {p : List Str} {n : Str} {t X : Tree} (h : getRel (p ++ [n]) t = some X) :
    X.name = n := by
  rw [getRel_append] at h
  cases hp : getRel p t with
  | none => simp [hp] at h
  | some Y =>
    simp [hp, getRel_cons] at h
    obtain ⟨x, hx, rfl⟩ : ∃ x, findChild n Y.children = some x ∧ x = X := by
      cases hf : findChild n Y.children with
      | none => simp [hf] at h
      | some x => simp [hf] at h; exact ⟨x, rfl, h⟩
    obtain ⟨_, _, _, _, hx⟩ := findChild_split hx
    exact hx

theorem modifyAt_name_of {q : List Str} {f : Tree → Tree} {t X : Tree} (hX : getRel q t = some X)
    (hf : (f X).name = X.name) : (modifyAt q f t).name = t.name := by
  cases q with
  | nil => simp at hX; subst hX; simpa [modifyAt] using hf
  | cons n ns => cases t; simp [modifyAt]

theorem getRel_modifyAt_self {q : List Str} {f : Tree → Tree} {t X : Tree} (hX : getRel q t = some X)
    (hf : (f X).name = X.name) : getRel q (modifyAt q f t) = some (f X) := by
  induction q generalizing t with
  | nil => simp at hX; subst hX; simp [modifyAt]
  | cons n ns ih =>
    cases t with
    | node i nm a cs =>
      rw [getRel_cons] at hX
      cases hc : findChild n cs with
      | none => simp [hc] at hX
      | some x =>
        simp [hc] at hX
        obtain ⟨l, r, rfl, hl, hx⟩ := findChild_split hc
        have hn : (modifyAt ns f x).name = n := by rw [modifyAt_name_of hX hf, hx]
        simp only [modifyAt, mapChild_split _ hl hx, getRel_cons, Tree.children_node,
          findChild_of_split hl hn, Option.bind_some]
        exact ih hX

/-! ### the part of the tree outside the modified node is untouched -/

theorem flat_modifyAt_not_under {q : List Str} {f : Tree → Tree} {t X : Tree}
    (hX : getRel q t = some X) (hf : (f X).name = X.name) :
    (flat (modifyAt q f t)).filter (fun e => !under q e) = (flat t).filter (fun e => !under q e) := by
  induction q generalizing t with
  | nil =>
    have : ∀ l : List Entry, l.filter (fun e => !under [] e) = [] := by
      intro l; rw [List.filter_eq_nil_iff]; intro e _; simp [under_nil]
    rw [this, this]
  | cons n ns ih =>
    cases t with
    | node i nm a cs =>
      rw [getRel_cons] at hX
      cases hc : findChild n cs with
      | none => simp [hc] at hX
      | some x =>
        simp [hc] at hX
        obtain ⟨l, r, rfl, hl, hx⟩ := findChild_split hc
        have hn : (modifyAt ns f x).name = n := by rw [modifyAt_name_of hX hf, hx]
        simp only [modifyAt, mapChild_split _ hl hx, flat_node, flatL_append, flatL_cons,
          List.filter_cons, List.filter_append, hn, hx, filter_not_under_map_pre, ih hX]

/-! ### the entries below an address are the entries of the subtree found there -/

theorem rebase_nil (e : Entry) : rebase [] e = e := rfl
theorem pre_rebase (n : Str) (q : List Str) (e : Entry) : pre n (rebase q e) = rebase (n :: q) e := rfl

theorem names_ne_of_nodup {n : Str} {l r : List Tree} {x : Tree} (hx : x.name = n)
    (h : ((l ++ x :: r).map Tree.name).Nodup) : ∀ y ∈ r, y.name ≠ n := by
  intro y hy hyn
  rw [List.map_append, List.map_cons, List.nodup_append] at h
  have := (List.nodup_cons.1 h.2.1).1
  exact this (by rw [hx, ← hyn]; exact List.mem_map.2 ⟨y, hy, rfl⟩)

theorem flat_filter_under {q : List Str} {t X : Tree} (hX : getRel q t = some X) (hu : SibUnique t) :
    (flat t).filter (under q) = (flat X).map (rebase q) := by
  induction q generalizing t with
  | nil =>
    simp at hX; subst hX
    have h1 : (flat t).filter (under []) = flat t := by
      rw [List.filter_eq_self]; intro e _; exact under_nil e
    have h2 : (flat t).map (rebase []) = flat t := by
      have : rebase [] = id := funext rebase_nil
      rw [this, List.map_id]
    rw [h1, h2]
  | cons n ns ih =>
    cases t with
    | node i nm a cs =>
      rw [getRel_cons] at hX
      cases hc : findChild n cs with
      | none => simp [hc] at hX
      | some x =>
        simp [hc] at hX
        obtain ⟨l, r, rfl, hl, hx⟩ := findChild_split hc
        obtain ⟨hnd, hch⟩ := sibUnique_node.1 hu
        have hr := names_ne_of_nodup hx hnd
        have hxu : SibUnique x := hch x (by simp)
        simp only [flat_node, flatL_append, flatL_cons, List.filter_cons, List.filter_append,
          under_cons_root, filter_under_flatL_none hl, filter_under_flatL_none hr, hx,
          filter_under_map_pre, ih hX hxu]
        simp [List.map_map, Function.comp_def, pre_rebase]

theorem SibUnique.sub {q : List Str} {t X : Tree} (hu : SibUnique t) (hX : getRel q t = some X) :
    SibUnique X := by
  induction q generalizing t with
  | nil => simp at hX; subst hX; exact hu
  | cons n ns ih =>
    rw [getRel_cons] at hX
    cases hc : findChild n t.children with
    | none => simp [hc] at hX
    | some x =>
      simp [hc] at hX
      obtain ⟨l, r, hcs, _, _⟩ := findChild_split hc
      exact ih (hu.child (by rw [hcs]; simp)) hX

theorem SibUnique.modifyAt {q : List Str} {f : Tree → Tree} {t X : Tree} (hu : SibUnique t)
    (hX : getRel q t = some X) (hf : (f X).name = X.name) (hfu : SibUnique (f X)) :
    SibUnique (Modify.modifyAt q f t) := by
  induction q generalizing t with
  | nil => simp at hX; subst hX; simpa [Modify.modifyAt] using hfu
  | cons n ns ih =>
    cases t with
    | node i nm a cs =>
      rw [getRel_cons] at hX
      cases hc : findChild n cs with
      | none => simp [hc] at hX
      | some x =>
        simp [hc] at hX
        obtain ⟨l, r, rfl, hl, hx⟩ := findChild_split hc
        obtain ⟨hnd, hch⟩ := sibUnique_node.1 hu
        have hn : (Modify.modifyAt ns f x).name = x.name := modifyAt_name_of hX hf
        simp only [Modify.modifyAt, mapChild_split _ hl hx]
        rw [sibUnique_node]
        refine ⟨by simpa [hn] using hnd, fun c hc => ?_⟩
        rcases List.mem_append.1 hc with hc | hc
        · exact hch c (by simp [hc])
        · rcases List.mem_cons.1 hc with rfl | hc
          · exact ih (hch x (by simp)) hX
          · exact hch c (by simp [hc])

end Modify

namespace Modify

/-! ### paths and `getRel` -/

theorem mem_paths_of_getRel {q : List Str} {t X : Tree} (hX : getRel q t = some X) (hu : SibUnique t) :
    (q, X.id, X.attrs) ∈ flat t := by
  have h := flat_filter_under hX hu
  have : (q, X.id, X.attrs) ∈ (flat X).map (rebase q) := by
    rw [flat_eq X]; simp [rebase]
  rw [← h] at this
  exact (List.mem_filter.1 this).1

theorem findChild_of_mem {cs : List Tree} {c : Tree} (hc : c ∈ cs) (hnd : (cs.map Tree.name).Nodup) :
    findChild c.name cs = some c := by
  induction cs with
  | nil => simp at hc
  | cons d cs ih =>
    simp only [List.map_cons, List.nodup_cons] at hnd
    rcases List.mem_cons.1 hc with rfl | hc
    · simp [findChild]
    · have hne : d.name ≠ c.name := fun h => hnd.1 (h ▸ List.mem_map.2 ⟨c, hc, rfl⟩)
      have hne' : (d.name == c.name) = false := by simpa using hne
      have := ih hc hnd.2
      simp only [findChild, List.find?_cons, hne'] at this ⊢
      exact this

theorem getRel_of_mem_flat {q : List Str} {t : Tree} {x : Nat × Attrs} (h : (q, x) ∈ flat t)
    (hu : SibUnique t) : ∃ X, getRel q t = some X ∧ X.id = x.1 ∧ X.attrs = x.2 := by
  induction q generalizing t x with
  | nil =>
    rw [flat_eq] at h
    rcases List.mem_cons.1 h with h | h
    · cases h; exact ⟨t, rfl, rfl, rfl⟩
    · obtain ⟨c, _, e', _, he⟩ := flatL_head h
      simp [pre] at he
  | cons n ns ih =>
    rw [flat_eq] at h
    rcases List.mem_cons.1 h with h | h
    · cases h
    · obtain ⟨c, hc, e', he', he⟩ := flatL_head h
      simp only [pre, Prod.mk.injEq, List.cons.injEq] at he
      obtain ⟨⟨rfl, rfl⟩, rfl⟩ := he
      obtain ⟨X, hX, h1, h2⟩ := ih (t := c) (x := e'.2) he' (hu.child hc)
      exact ⟨X, by rw [getRel_cons, findChild_of_mem hc hu.kids]; simpa using hX, h1, h2⟩

theorem mem_paths_iff {q : List Str} {t : Tree} (hu : SibUnique t) :
    q ∈ paths t ↔ (getRel q t).isSome := by
  constructor
  · intro h
    obtain ⟨e, he, rfl⟩ := List.mem_map.1 h
    obtain ⟨X, hX, _⟩ := getRel_of_mem_flat (q := e.1) (x := e.2) he hu
    simp [hX]
  · intro h
    obtain ⟨X, hX⟩ := Option.isSome_iff_exists.1 h
    exact List.mem_map.2 ⟨_, mem_paths_of_getRel hX hu, rfl⟩

/-- the paths of the subtree found at `q` -/
theorem mem_paths_sub {q r : List Str} {t X : Tree} (hX : getRel q t = some X) (hu : SibUnique t) :
    r ∈ paths X ↔ q ++ r ∈ paths t := by
  rw [mem_paths_iff hu, mem_paths_iff (hu.sub hX), getRel_append, hX]; rfl

/-! ### removing a child -/

/-- `child.parent = None` seen from the parent -/
def eraseKid (n : Str) (X : Tree) : Tree := setKids (eraseChild n X.children) X

@[simp] theorem eraseKid_name (n X) : (eraseKid n X).name = X.name := by cases X; rfl

theorem removeAt_snoc (p : List Str) (n : Str) (t : Tree) :
    removeAt (p ++ [n]) t = modifyAt p (eraseKid n) t := by
  induction p generalizing t with
  | nil => cases t; simp [removeAt, modifyAt, eraseKid, setKids]
  | cons m p ih =>
    cases t with
    | node i nm a cs =>
      have hf : removeAt (p ++ [n]) = modifyAt p (eraseKid n) := funext ih
      cases p with
      | nil => simp only [List.nil_append] at hf ⊢; simp [removeAt, modifyAt, hf]
      | cons m' p' => simp only [List.cons_append] at hf ⊢; simp [removeAt, modifyAt, hf]

theorem under_snoc_root (n : Str) (x : Nat × Attrs) : under [n] ([], x) = false := by
  simp [under, List.isPrefixOf]

theorem filter_not_under_all (n : Str) (l : List Entry) :
    (l.map (pre n)).filter (fun e => !under [n] e) = [] := by
  rw [List.filter_eq_nil_iff]
  intro e he
  obtain ⟨e', _, rfl⟩ := List.mem_map.1 he
  simp [under_pre_cons, under_nil]

theorem flat_eraseKid {n : Str} {X : Tree} (hnd : (X.children.map Tree.name).Nodup) :
    flat (eraseKid n X) = (flat X).filter (fun e => !under [n] e) := by
  cases X with
  | node i nm a cs =>
    simp only [eraseKid, setKids, Tree.children_node, flat_node, List.filter_cons, under_snoc_root]
    simp only [Tree.children_node] at hnd
    cases hc : findChild n cs with
    | none =>
      have h := findChild_none hc
      simp [eraseChild_none h, filter_not_under_flatL_none h]
    | some x =>
      obtain ⟨l, r, rfl, hl, hx⟩ := findChild_split hc
      have hr := names_ne_of_nodup hx hnd
      simp [eraseChild_split hl hx, flatL_append, flatL_cons, filter_not_under_flatL_none hl,
        filter_not_under_flatL_none hr, hx, filter_not_under_all]

/-- entries of a tree after `removeAt`: exactly the entries not below the removed address, in the
same order -/
theorem flat_modifyAt_eraseKid {p : List Str} {n : Str} {t X : Tree} (hX : getRel p t = some X)
    (hu : SibUnique t) :
    flat (modifyAt p (eraseKid n) t) = (flat t).filter (fun e => !under (p ++ [n]) e) := by
  induction p generalizing t with
  | nil => simp at hX; subst hX; simpa [modifyAt] using flat_eraseKid hu.kids
  | cons m p ih =>
    cases t with
    | node i nm a cs =>
      rw [getRel_cons] at hX
      cases hc : findChild m cs with
      | none => simp [hc] at hX
      | some x =>
        simp [hc] at hX
        obtain ⟨l, r, rfl, hl, hx⟩ := findChild_split hc
        obtain ⟨hnd, hch⟩ := sibUnique_node.1 hu
        have hr := names_ne_of_nodup hx hnd
        have hn : (modifyAt p (eraseKid n) x).name = m := by
          rw [modifyAt_name_of hX (eraseKid_name _ _), hx]
        simp only [modifyAt, mapChild_split _ hl hx, flat_node, flatL_append, flatL_cons,
          List.cons_append, List.filter_cons, List.filter_append, under_cons_root, hn, hx,
          filter_not_under_flatL_none hl, filter_not_under_flatL_none hr, filter_not_under_map_pre,
          ih hX (hch x (by simp))]
        simp

/-- removing an address that does not exist changes nothing -/
theorem modifyAt_none {p : List Str} {f : Tree → Tree} {t : Tree} (h : getRel p t = none) :
    modifyAt p f t = t := by
  induction p generalizing t with
  | nil => simp at h
  | cons m p ih =>
    cases t with
    | node i nm a cs =>
      rw [getRel_cons] at h
      cases hc : findChild m cs with
      | none => simp [modifyAt, mapChild_none _ (findChild_none hc)]
      | some x =>
        simp [hc] at h
        obtain ⟨l, r, rfl, hl, hx⟩ := findChild_split hc
        simp [modifyAt, mapChild_split _ hl hx, ih h]

end Modify

namespace Modify

theorem isPrefixOf_iff {p q : List Str} : p.isPrefixOf q = true ↔ ∃ r, q = p ++ r := by
  rw [List.isPrefixOf_iff_prefix]
  constructor
  · rintro ⟨r, rfl⟩; exact ⟨r, rfl⟩
  · rintro ⟨r, rfl⟩; exact ⟨r, rfl⟩

theorem no_entry_under_of_none {p : List Str} {t : Tree} (h : getRel p t = none) (hu : SibUnique t)
    {e : Entry} (he : e ∈ flat t) : under p e = false := by
  cases hup : under p e with
  | false => rfl
  | true =>
    obtain ⟨r, hr⟩ := isPrefixOf_iff.1 hup
    have : e.1 ∈ paths t := List.mem_map.2 ⟨e, he, rfl⟩
    rw [mem_paths_iff hu, hr, getRel_append, h] at this
    simp at this

theorem under_of_under_prefix {p r : List Str} {e : Entry} (h : under (p ++ r) e = true) :
    under p e = true := by
  obtain ⟨s, hs⟩ := isPrefixOf_iff.1 h
  exact isPrefixOf_iff.2 ⟨r ++ s, by rw [hs, List.append_assoc]⟩

/-- `removeAt` (a non-root address): the entries not below the address, order kept -/
theorem flat_removeAt {p : List Str} {t : Tree} (hp : p ≠ []) (hu : SibUnique t) :
    flat (removeAt p t) = (flat t).filter (fun e => !under p e) := by
  obtain ⟨p', n, rfl⟩ : ∃ p' n, p = p' ++ [n] := ⟨p.dropLast, p.getLast hp, (List.dropLast_concat_getLast hp).symm⟩
  rw [removeAt_snoc]
  cases hX : getRel p' t with
  | some X => exact flat_modifyAt_eraseKid hX hu
  | none =>
    rw [modifyAt_none hX, eq_comm, List.filter_eq_self]
    intro e he
    have := no_entry_under_of_none hX hu he
    cases h : under (p' ++ [n]) e with
    | false => rfl
    | true => rw [under_of_under_prefix h] at this; cases this

theorem sibUnique_eraseKid {n : Str} {X : Tree} (hu : SibUnique X) : SibUnique (eraseKid n X) := by
  cases X with
  | node i nm a cs =>
    obtain ⟨hnd, hch⟩ := sibUnique_node.1 hu
    simp only [eraseKid, setKids, Tree.children_node]
    rw [sibUnique_node]
    cases hc : findChild n cs with
    | none => rw [eraseChild_none (findChild_none hc)]; exact ⟨hnd, hch⟩
    | some x =>
      obtain ⟨l, r, rfl, hl, hx⟩ := findChild_split hc
      rw [eraseChild_split hl hx]
      refine ⟨?_, fun c hc => hch c ?_⟩
      · rw [List.map_append, List.map_cons] at hnd
        rw [List.map_append]
        exact hnd.sublist (List.Sublist.append_left (List.sublist_cons_self _ _) _)
      · rcases List.mem_append.1 hc with h | h <;> simp [h]

theorem SibUnique.removeAt {p : List Str} {t : Tree} (hu : SibUnique t) : SibUnique (Modify.removeAt p t) := by
  by_cases hp : p = []
  · subst hp; simpa [Modify.removeAt] using hu
  · obtain ⟨p', n, rfl⟩ : ∃ p' n, p = p' ++ [n] :=
      ⟨p.dropLast, p.getLast hp, (List.dropLast_concat_getLast hp).symm⟩
    rw [removeAt_snoc]
    cases hX : getRel p' t with
    | none => rw [modifyAt_none hX]; exact hu
    | some X => exact hu.modifyAt hX (eraseKid_name _ _) (sibUnique_eraseKid (hu.sub hX))

/-! ### appending a child -/

theorem sibUnique_appendKid {c P : Tree} (hP : SibUnique P) (hc : SibUnique c)
    (hnew : ∀ y ∈ P.children, y.name ≠ c.name) : SibUnique (appendKid c P) := by
  cases P with
  | node i nm a cs =>
    obtain ⟨hnd, hch⟩ := sibUnique_node.1 hP
    simp only [appendKid]
    rw [sibUnique_node]
    refine ⟨?_, fun y hy => ?_⟩
    · rw [List.map_append, List.nodup_append]
      refine ⟨hnd, by simp, ?_⟩
      intro a ha b hb
      simp at hb; subst hb
      obtain ⟨y, hy, rfl⟩ := List.mem_map.1 ha
      exact hnew y hy
    · rcases List.mem_append.1 hy with h | h
      · exact hch y h
      · simp at h; subst h; exact hc

theorem getRel_appendKid_new {c P : Tree} (hnew : ∀ y ∈ P.children, y.name ≠ c.name) :
    getRel [c.name] (appendKid c P) = some c := by
  cases P with
  | node i nm a cs =>
    simp only [appendKid, getRel_cons, Tree.children_node]
    have := findChild_of_split (l := cs) (r := []) (x := c) hnew rfl
    simp [this]

/-- after appending `c` under `pp`: everything that is not below the new child is the old tree,
in the old order -/
theorem flat_appendAt_old {pp : List Str} {c t P : Tree} (hP : getRel pp t = some P)
    (hnew : ∀ y ∈ P.children, y.name ≠ c.name) (hu : SibUnique t) :
    (flat (modifyAt pp (appendKid c) t)).filter (fun e => !under (pp ++ [c.name]) e) = flat t := by
  induction pp generalizing t with
  | nil =>
    simp at hP; subst hP
    cases t with
    | node i nm a cs =>
      simp only [modifyAt, appendKid, flat_node, List.nil_append, List.filter_cons, under_snoc_root,
        flatL_append, flatL_cons, flatL_nil, List.append_nil, List.filter_append,
        filter_not_under_all]
      simp only [Tree.children_node] at hnew
      simp [filter_not_under_flatL_none hnew]
  | cons m p ih =>
    cases t with
    | node i nm a cs =>
      rw [getRel_cons] at hP
      cases hc : findChild m cs with
      | none => simp [hc] at hP
      | some x =>
        simp [hc] at hP
        obtain ⟨l, r, rfl, hl, hx⟩ := findChild_split hc
        obtain ⟨hnd, hch⟩ := sibUnique_node.1 hu
        have hr := names_ne_of_nodup hx hnd
        have hn : (modifyAt p (appendKid c) x).name = m := by
          rw [modifyAt_name_of hP (appendKid_name _ _), hx]
        simp only [modifyAt, mapChild_split _ hl hx, flat_node, flatL_append, flatL_cons,
          List.cons_append, List.filter_cons, List.filter_append, under_cons_root, hn, hx,
          filter_not_under_flatL_none hl, filter_not_under_flatL_none hr, filter_not_under_map_pre,
          ih hP (hch x (by simp))]
        simp

end Modify

namespace Modify

theorem SibUnique.appendAt {pp : List Str} {c t P : Tree} (hu : SibUnique t) (hP : getRel pp t = some P)
    (hc : SibUnique c) (hnew : ∀ y ∈ P.children, y.name ≠ c.name) :
    SibUnique (Modify.modifyAt pp (appendKid c) t) :=
  hu.modifyAt hP (appendKid_name _ _) (sibUnique_appendKid (hu.sub hP) hc hnew)

theorem getRel_appendAt_new {pp : List Str} {c t P : Tree} (hP : getRel pp t = some P)
    (hnew : ∀ y ∈ P.children, y.name ≠ c.name) :
    getRel (pp ++ [c.name]) (modifyAt pp (appendKid c) t) = some c := by
  rw [getRel_append, getRel_modifyAt_self hP (appendKid_name _ _)]
  simpa using getRel_appendKid_new hnew

/-- after appending `c` under `pp`: below the new child sits exactly `c` -/
theorem flat_appendAt_new {pp : List Str} {c t P : Tree} (hP : getRel pp t = some P)
    (hnew : ∀ y ∈ P.children, y.name ≠ c.name) (hu : SibUnique t) (hc : SibUnique c) :
    (flat (modifyAt pp (appendKid c) t)).filter (under (pp ++ [c.name]))
      = (flat c).map (rebase (pp ++ [c.name])) :=
  flat_filter_under (getRel_appendAt_new hP hnew) (hu.appendAt hP hc hnew)

/-! ### `grow`: creating the missing part of a path -/

/-- a fresh path `a / m₁ / m₂ / …` with ids `k, k+1, …` and no attributes -/
def chain : Str → List Str → Nat → Tree
  | a, [], k => .node k a [] []
  | a, b :: m, k => .node k a [] [chain b m (k + 1)]

@[simp] theorem chain_name (a m k) : (chain a m k).name = a := by cases m <;> rfl

theorem grow_fresh (a : Str) (m : List Str) (k : Nat) (hne : ∀ n ∈ m, n ≠ []) :
    grow m (k + 1) (.node k a [] []) = .ok (chain a m k, k + 1 + m.length) := by
  induction m generalizing a k with
  | nil => simp [grow, chain]
  | cons b m ih =>
    have hb : b ≠ [] := hne b (by simp)
    have := ih b (k + 1) (fun n hn => hne n (by simp [hn]))
    simp only [grow, findChild, List.find?_nil, hb, if_false, this, chain, List.nil_append,
      List.length_cons]
    congr 2; omega

theorem mapChild_const_self {n : Str} {cs : List Tree} {c : Tree} (h : findChild n cs = some c) :
    mapChild n (fun _ => c) cs = cs := by
  obtain ⟨l, r, rfl, hl, hx⟩ := findChild_split h
  rw [mapChild_split _ hl hx]

/-- `grow` follows the existing part `e` of the path and appends one fresh chain for the rest -/
theorem grow_spec (ns : List Str) (k : Nat) (t : Tree) (hne : ∀ n ∈ ns, n ≠ []) :
    ∃ e m X, ns = e ++ m ∧ getRel e t = some X ∧
      ((m = [] ∧ grow ns k t = .ok (t, k)) ∨
       (∃ a m', m = a :: m' ∧ findChild a X.children = none ∧
          grow ns k t = .ok (modifyAt e (appendKid (chain a m' k)) t, k + m.length))) := by
  induction ns generalizing t with
  | nil => exact ⟨[], [], t, rfl, rfl, Or.inl ⟨rfl, by simp [grow]⟩⟩
  | cons n ns ih =>
    cases t with
    | node i nm a cs =>
      have hn : n ≠ [] := hne n (by simp)
      have hne' : ∀ x ∈ ns, x ≠ [] := fun x hx => hne x (by simp [hx])
      cases hc : findChild n cs with
      | none =>
        refine ⟨[], n :: ns, _, rfl, rfl, Or.inr ⟨n, ns, rfl, by simpa using hc, ?_⟩⟩
        simp only [grow, hc, hn, if_false, grow_fresh n ns k hne', modifyAt, appendKid,
          List.length_cons]
        congr 2; omega
      | some c =>
        obtain ⟨e, m, X, hns, hX, h⟩ := ih c hne'
        obtain ⟨l, r, rfl, hl, hx⟩ := findChild_split hc
        refine ⟨n :: e, m, X, by simp [hns], by simp [getRel_cons, hc, hX], ?_⟩
        rcases h with ⟨rfl, hg⟩ | ⟨a', m', rfl, hfa, hg⟩
        · left
          refine ⟨rfl, ?_⟩
          simp only [grow, hc, hg, mapChild_const_self hc]
        · right
          refine ⟨a', m', rfl, hfa, ?_⟩
          simp only [grow, hc, hg, modifyAt, mapChild_split _ hl hx]

theorem flat_chain (a : Str) (m : List Str) (k : Nat) :
    flat (chain a m k) = (List.range (m.length + 1)).map (fun j => (m.take j, k + j, [])) := by
  induction m generalizing a k with
  | nil => simp [chain, flat_node]
  | cons b m ih =>
    simp only [chain, flat_node, flatL_cons, flatL_nil, List.append_nil, chain_name, ih,
      List.length_cons]
    rw [List.range_succ_eq_map (n := m.length + 1)]
    simp only [List.map_cons, List.take_zero, Nat.add_zero, List.map_map, List.cons.injEq, true_and]
    apply List.map_congr_left
    intro j _
    simp [pre]; omega

theorem mem_flat_chain {a : Str} {m : List Str} {k : Nat} {e : Entry} (h : e ∈ flat (chain a m k)) :
    e.1.isPrefixOf m = true ∧ k ≤ e.2.1 ∧ e.2.1 < k + 1 + m.length ∧ e.2.2 = [] := by
  rw [flat_chain] at h
  obtain ⟨j, hj, rfl⟩ := List.mem_map.1 h
  simp at hj
  refine ⟨?_, by simp, by simp; omega, rfl⟩
  rw [List.isPrefixOf_iff_prefix]
  exact List.take_prefix _ _

theorem mem_paths_chain {a : Str} {m r : List Str} {k : Nat} :
    r ∈ paths (chain a m k) ↔ r.isPrefixOf m = true := by
  constructor
  · intro h
    obtain ⟨e, he, rfl⟩ := List.mem_map.1 h
    exact (mem_flat_chain he).1
  · intro h
    rw [List.isPrefixOf_iff_prefix] at h
    unfold paths
    rw [flat_chain, List.map_map]
    refine List.mem_map.2 ⟨r.length, ?_, ?_⟩
    · simp; have := h.length_le; omega
    · exact (List.prefix_iff_eq_take.1 h).symm

theorem sibUnique_chain (a : Str) (m : List Str) (k : Nat) : SibUnique (chain a m k) := by
  induction m generalizing a k with
  | nil => simp [chain, sibUnique_node]
  | cons b m ih => simp [chain, sibUnique_node, ih]

end Modify

namespace Modify

theorem mem_filter_split {α} (p : α → Bool) (l : List α) (x : α) :
    x ∈ l ↔ x ∈ l.filter p ∨ x ∈ l.filter (fun y => !p y) := by
  simp only [List.mem_filter]
  constructor
  · intro h; cases hp : p x <;> simp [h]
  · rintro (h | h) <;> exact h.1

theorem prefix_mem_paths {q r : List Str} {t : Tree} (hu : SibUnique t) (h : q ++ r ∈ paths t) :
    q ∈ paths t := by
  rw [mem_paths_iff hu] at h ⊢
  rw [getRel_append] at h
  cases hq : getRel q t with
  | none => simp [hq] at h
  | some _ => rfl

theorem grow_facts {ns : List Str} {k : Nat} {t : Tree} (hne : ∀ n ∈ ns, n ≠ []) (hu : SibUnique t)
    (hk : ∀ e ∈ flat t, e.2.1 < k) :
    ∃ t1 k1, grow ns k t = .ok (t1, k1) ∧ SibUnique t1 ∧ k ≤ k1 ∧
      (flat t1).filter (fun e => decide (e.2.1 < k)) = flat t ∧
      (∀ e ∈ flat t1, ¬ e.2.1 < k → e.1.isPrefixOf ns = true ∧ e.2.1 < k1 ∧ e.2.2 = []) ∧
      (∀ q, q ∈ paths t1 ↔ q ∈ paths t ∨ q.isPrefixOf ns = true) := by
  obtain ⟨e, m, X, hns, hX, h⟩ := grow_spec ns k t hne
  have hpre : ∀ q, q.isPrefixOf e = true → q ∈ paths t := by
    intro q hq
    obtain ⟨r, rfl⟩ := isPrefixOf_iff.1 hq
    exact prefix_mem_paths hu ((mem_paths_iff hu).2 (by rw [hX]; rfl))
  rcases h with ⟨rfl, hg⟩ | ⟨a, m', rfl, hfa, hg⟩
  · simp only [List.append_nil] at hns; subst hns
    refine ⟨t, k, hg, hu, Nat.le_refl _, ?_, ?_, ?_⟩
    · rw [List.filter_eq_self]; intro e he; simpa using hk e he
    · intro e he hlt; exact absurd (hk e he) hlt
    · intro q; constructor
      · exact Or.inl
      · rintro (h | h)
        · exact h
        · exact hpre q h
  · have hnew : ∀ y ∈ X.children, y.name ≠ (chain a m' k).name := by
      simpa using findChild_none hfa
    have hold := flat_appendAt_old hX hnew hu
    have hnw := flat_appendAt_new hX hnew hu (sibUnique_chain a m' k)
    rw [chain_name] at hold hnw
    generalize ht1 : modifyAt e (appendKid (chain a m' k)) t = t1 at hg hold hnw
    have hsu : SibUnique t1 := ht1 ▸ hu.appendAt hX (sibUnique_chain a m' k) hnew
    -- classification of the entries of the new tree
    have hcls : ∀ x ∈ flat t1, (under (e ++ [a]) x = true →
          ∃ c ∈ flat (chain a m' k), x = rebase (e ++ [a]) c) ∧
        (under (e ++ [a]) x = false → x ∈ flat t) := by
      intro x hx
      constructor
      · intro hu'
        have : x ∈ (flat t1).filter (under (e ++ [a])) := List.mem_filter.2 ⟨hx, hu'⟩
        rw [hnw] at this
        obtain ⟨c, hc, rfl⟩ := List.mem_map.1 this
        exact ⟨c, hc, rfl⟩
      · intro hu'
        have : x ∈ (flat t1).filter (fun e' => !under (e ++ [a]) e') :=
          List.mem_filter.2 ⟨hx, by simp [hu']⟩
        rwa [hold] at this
    refine ⟨t1, k + (a :: m').length, hg, hsu, by omega, ?_, ?_, ?_⟩
    · rw [← hold]
      apply List.filter_congr
      intro x hx
      cases hux : under (e ++ [a]) x with
      | true =>
        obtain ⟨c, hc, rfl⟩ := (hcls x hx).1 hux
        have := (mem_flat_chain hc).2.1
        simp [rebase]; omega
      | false => simpa using hk x ((hcls x hx).2 hux)
    · intro x hx hlt
      cases hux : under (e ++ [a]) x with
      | false => exact absurd (hk x ((hcls x hx).2 hux)) hlt
      | true =>
        obtain ⟨c, hc, rfl⟩ := (hcls x hx).1 hux
        obtain ⟨h1, _, h3, h4⟩ := mem_flat_chain hc
        refine ⟨?_, by simp [rebase] at h3 ⊢; omega, h4⟩
        obtain ⟨r, hr⟩ := isPrefixOf_iff.1 h1
        rw [hns]
        exact isPrefixOf_iff.2 ⟨r, by simp [rebase, hr]⟩
    · intro q
      constructor
      · intro hq
        obtain ⟨x, hx, rfl⟩ := List.mem_map.1 hq
        cases hux : under (e ++ [a]) x with
        | false => exact Or.inl (List.mem_map.2 ⟨x, (hcls x hx).2 hux, rfl⟩)
        | true =>
          right
          obtain ⟨c, hc, rfl⟩ := (hcls x hx).1 hux
          obtain ⟨r, hr⟩ := isPrefixOf_iff.1 (mem_flat_chain hc).1
          rw [hns]
          exact isPrefixOf_iff.2 ⟨r, by simp [rebase, hr]⟩
      · rintro (hq | hq)
        · obtain ⟨x, hx, rfl⟩ := List.mem_map.1 hq
          have : x ∈ (flat t1).filter (fun e' => !under (e ++ [a]) e') := by rw [hold]; exact hx
          exact List.mem_map.2 ⟨x, (List.mem_filter.1 this).1, rfl⟩
        · -- a prefix of `e ++ a :: m'`: either a prefix of `e`, or `e ++ a :: r`
          rw [hns] at hq
          obtain ⟨s, hs⟩ := isPrefixOf_iff.1 hq
          by_cases hle : q.length ≤ e.length
          · have : q.isPrefixOf e = true := by
              rw [List.isPrefixOf_iff_prefix]
              exact List.prefix_of_prefix_length_le ⟨s, hs.symm⟩ (List.prefix_append _ _) hle
            have := hpre q this
            obtain ⟨x, hx, rfl⟩ := List.mem_map.1 this
            have h2 : x ∈ (flat t1).filter (fun e' => !under (e ++ [a]) e') := by rw [hold]; exact hx
            exact List.mem_map.2 ⟨x, (List.mem_filter.1 h2).1, rfl⟩
          · -- q = e ++ a :: r with r a prefix of m'
            have hpe : e <+: q := by
              exact List.prefix_of_prefix_length_le (List.prefix_append _ _) ⟨s, hs.symm⟩ (by omega)
            obtain ⟨r, rfl⟩ := hpe
            rw [List.append_assoc] at hs
            have hs' := List.append_cancel_left hs
            cases r with
            | nil => simp at hle
            | cons b r =>
              simp only [List.cons_append, List.cons.injEq] at hs'
              obtain ⟨rfl, hm⟩ := hs'
              have hr : r ∈ paths (chain a m' k) := mem_paths_chain.2 (isPrefixOf_iff.2 ⟨s, hm⟩)
              obtain ⟨c, hc, rfl⟩ := List.mem_map.1 hr
              have : rebase (e ++ [a]) c ∈ (flat t1).filter (under (e ++ [a])) := by
                rw [hnw]; exact List.mem_map.2 ⟨c, hc, rfl⟩
              exact List.mem_map.2 ⟨_, (List.mem_filter.1 this).1, by simp [rebase]⟩

end Modify

namespace Modify

/-! ### `relabel`: deep copy with fresh ids -/

/-- what a copy shares with its origin: paths and attributes, in order -/
def shape (l : List Entry) : List (List Str × Attrs) := l.map (fun e => (e.1, e.2.2))

theorem relabel_node (k i n a cs) :
    relabel k (.node i n a cs) = (.node k n a (relabelL (k + 1) cs).1, (relabelL (k + 1) cs).2) := by
  simp [relabel]
theorem relabelL_cons (k c cs) :
    relabelL k (c :: cs) = ((relabel k c).1 :: (relabelL (relabel k c).2 cs).1,
      (relabelL (relabel k c).2 cs).2) := by
  simp [relabelL]

/-- the facts about one copied tree -/
def RelabelOK (t : Tree) : Prop := ∀ k,
  (relabel k t).1.name = t.name ∧ k < (relabel k t).2 ∧
  shape (flat (relabel k t).1) = shape (flat t) ∧
  (∀ e ∈ flat (relabel k t).1, k ≤ e.2.1 ∧ e.2.1 < (relabel k t).2) ∧
  (SibUnique t → SibUnique (relabel k t).1)

theorem shape_append (a b : List Entry) : shape (a ++ b) = shape a ++ shape b := by simp [shape]
theorem shape_map_pre (n : Str) (l : List Entry) :
    shape (l.map (pre n)) = (shape l).map (fun x => (n :: x.1, x.2)) := by
  simp [shape, pre, Function.comp_def]

theorem relabelL_ok (cs : List Tree) (ih : ∀ c ∈ cs, RelabelOK c) : ∀ k,
    (relabelL k cs).1.map Tree.name = cs.map Tree.name ∧ k ≤ (relabelL k cs).2 ∧
    shape (flatL (relabelL k cs).1) = shape (flatL cs) ∧
    (∀ e ∈ flatL (relabelL k cs).1, k ≤ e.2.1 ∧ e.2.1 < (relabelL k cs).2) ∧
    ((∀ c ∈ cs, SibUnique c) → ∀ c ∈ (relabelL k cs).1, SibUnique c) := by
  induction cs with
  | nil => intro k; simp [relabelL]
  | cons c cs ihl =>
    intro k
    obtain ⟨h1, h2, h3, h4, h5⟩ := ih c (by simp) k
    obtain ⟨g1, g2, g3, g4, g5⟩ := ihl (fun d hd => ih d (by simp [hd])) (relabel k c).2
    rw [relabelL_cons]
    refine ⟨by simp [h1, g1], by simp; omega, ?_, ?_, ?_⟩
    · simp only [flatL_cons, shape_append, shape_map_pre, h1, h3, g3]
    · intro e he
      simp only [flatL_cons, List.mem_append] at he
      rcases he with he | he
      · obtain ⟨e', he', rfl⟩ := List.mem_map.1 he
        have := h4 e' he'
        simp [pre]; omega
      · have := g4 e he
        simp; omega
    · intro hs d hd
      simp only [List.mem_cons] at hd
      rcases hd with rfl | hd
      · exact h5 (hs c (by simp))
      · exact g5 (fun x hx => hs x (by simp [hx])) d hd

theorem relabel_ok (t : Tree) : RelabelOK t := by
  induction t using Tree.ind with
  | h i n a cs ih =>
    intro k
    obtain ⟨g1, g2, g3, g4, g5⟩ := relabelL_ok cs ih (k + 1)
    rw [relabel_node]
    refine ⟨rfl, by simp; omega, ?_, ?_, ?_⟩
    · simp only [flat_node, shape, List.map_cons] at g3 ⊢
      rw [g3]
    · intro e he
      simp only [flat_node, List.mem_cons] at he
      rcases he with rfl | he
      · simp; omega
      · have := g4 e he
        simp; omega
    · intro hs
      obtain ⟨hnd, hch⟩ := sibUnique_node.1 hs
      rw [sibUnique_node]
      exact ⟨by rw [g1]; exact hnd, g5 hch⟩

end Modify
