import BigtreeModel.Search
import BigtreeProofs.Lemmas.SearchPaths
/-! C09: `find_full_path (path_name v) = v`, the existence form of `find_full_path_iff`, and the
public `find_relative_paths` against `resolveSpec`. -/

namespace Search
open Query

theorem getLast?_append_ne {α : Type} (l l' : List α) (h : l' ≠ []) :
    (l ++ l').getLast? = l'.getLast? := by
  rw [List.getLast?_append, List.getLast?_eq_some_getLast h]; rfl

theorem join_ne_nil_head (sep : Str) (w : Str) (ws : List Str) (hw : w ≠ []) :
    (join sep (w :: ws)).head? = w.head? := by
  cases w with
  | nil => exact absurd rfl hw
  | cons c cs =>
    cases ws with
    | nil => simp
    | cons w' ws => simp [join_cons_cons]

theorem join_getLast (sep : Str) : ∀ (ws : List Str) (hne : ws ≠ []), (∀ w ∈ ws, w ≠ []) →
    (join sep ws).getLast? = (ws.getLast hne).getLast? := by
  intro ws
  induction ws with
  | nil => intro hne; exact absurd rfl hne
  | cons w ws ih =>
    intro hne hall
    cases ws with
    | nil => simp
    | cons w' ws =>
      have ih' := ih (by simp) (fun x hx => hall x (List.mem_cons_of_mem _ hx))
      rw [join_cons_cons, List.getLast_cons (by simp)]
      have hj : join sep (w' :: ws) ≠ [] := by
        intro e
        have hw' : w' ≠ [] := hall w' (by simp)
        have := join_ne_nil_head sep w' ws hw'
        rw [e] at this
        cases w' with
        | nil => exact hw' rfl
        | cons c cs => simp at this
      rw [getLast?_append_ne _ _ hj, ih']

theorem strip_pathName (s : Char) (names : List Str) (hne : names ≠ [])
    (hnonempty : ∀ w ∈ names, w ≠ []) (hsep : ∀ w ∈ names, s ∉ w) :
    lstrip [s] (rstrip [s] ([s] ++ join [s] names)) = join [s] names := by
  have hlast : ∀ c, ([s] ++ join [s] names).getLast? = some c → c ≠ s := by
    intro c hc
    cases names with
    | nil => exact absurd rfl hne
    | cons w ws =>
      have hj : join [s] (w :: ws) ≠ [] := by
        intro e
        have hw : w ≠ [] := hnonempty w (by simp)
        have := join_ne_nil_head [s] w ws hw
        rw [e] at this
        cases w with
        | nil => exact hw rfl
        | cons c cs => simp at this
      rw [getLast?_append_ne _ _ hj, join_getLast [s] _ (by simp) hnonempty] at hc
      have hmem : c ∈ (w :: ws).getLast (by simp) := List.mem_of_getLast? hc
      intro e
      subst e
      exact hsep _ (List.getLast_mem _) hmem
  rw [rstrip_single_of_last s _ hlast]
  simp only [List.singleton_append, lstrip_single_cons, ↓reduceIte]
  apply lstrip_single_of_head
  intro c hc
  cases names with
  | nil => exact absurd rfl hne
  | cons w ws =>
    rw [join_ne_nil_head [s] w ws (hnonempty w (by simp))] at hc
    have hmem : c ∈ w := List.mem_of_mem_head? hc
    intro e
    subst e
    exact hsep w (by simp) hmem

theorem pathNames_ne_nil (R : Tree) (v : Addr) : pathNames R v ≠ [] := by
  simp [pathNames, nodePathSpec]

theorem pathNames_mem {R : Tree} {v : Addr} (hv : (sub R v).isSome) {w : Str} (hw : w ∈ pathNames R v) :
    ∃ (x : Addr) (t : Tree), sub R x = some t ∧ w = t.name := by
  simp only [pathNames, List.mem_map] at hw
  rcases hw with ⟨b, hb, rfl⟩
  rcases mem_nodePathSpec.1 hb with ⟨m, _, rfl⟩
  have hsome : (sub R (v.take m)).isSome := by
    apply sub_isSome_of_append (b := v.drop m)
    rw [List.take_append_drop]; exact hv
  cases hsub : sub R (v.take m) with
  | none => simp [hsub] at hsome
  | some t => exact ⟨_, t, hsub, by simp [nameAt, hsub]⟩

/-- looking up a node's own `path_name` finds that node -/
theorem findFullPath_pathName {R : Tree} (s : Char) (a v : Addr)
    (hsep : ∀ (x : Addr) (t : Tree), sub R x = some t → s ∉ t.name)
    (hne : ∀ (x : Addr) (t : Tree), sub R x = some t → t.name ≠ [])
    (hu : SibUnique R) (hv : (sub R v).isSome) :
    findFullPath R [s] a (pathName R [s] v) = .ok (some v) := by
  rw [findFullPath_iff s a _ hsep hu v]
  refine ⟨hv, ?_⟩
  rw [pathName_eq, strip_pathName s _ (pathNames_ne_nil R v)]
  · intro w hw
    rcases pathNames_mem hv hw with ⟨x, t, hx, rfl⟩
    exact hne x t hx
  · intro w hw
    rcases pathNames_mem hv hw with ⟨x, t, hx, rfl⟩
    exact hsep x t hx

/-- the public `find_relative_paths` (relative branch) = the denotation of the path + the
    count contract -/
theorem findRelativePaths_eq (R : Tree) (sep : Str) (a : Addr) (q : Str) (mn mx : Nat)
    (hrel : startsWith q sep = false) :
    findRelativePaths R sep a q mn mx =
      match resolveSpec R ((lstrip sep (rstrip sep q)).contains '*')
          (split sep (lstrip sep (rstrip sep q))) a with
      | .error e => .error e
      | .ok l =>
        if (mn ≠ 0 ∧ l.length < mn) ∨ (mx ≠ 0 ∧ l.length > mx) then .error .search else .ok l := by
  unfold findRelativePaths
  simp only [hrel, Bool.false_eq_true, ↓reduceIte, resolve_eq_spec]
  cases resolveSpec R ((lstrip sep (rstrip sep q)).contains '*')
      (split sep (lstrip sep (rstrip sep q))) a with
  | error e => simp [Except.map]
  | ok l =>
    simp only [Except.map, List.nil_append, checkResultCount_eq]
    by_cases h : (mn ≠ 0 ∧ l.length < mn) ∨ (mx ≠ 0 ∧ l.length > mx)
    · rw [if_pos h, if_pos h]
    · rw [if_neg h, if_neg h]

end Search
