import BigtreeModel.Newick
import BigtreeProofs.Lemmas.ExportRoundtrip
/-! Helper lemmas for C06 (Newick): fuel irrelevance of the parser loop, evaluation of single
steps, reading a (quoted or plain) name. Core Lean only. -/

namespace Newick
open Export

/-! ### fuel -/

theorem run_nil (c : Chars) (la pre : Str) (f : Nat) (s : PState) : run c la pre f s [] = some s := by
  cases f <;> simp [run]

theorem run_fuel (c : Chars) (la pre : Str) : ∀ (f g : Nat) (s : PState) (inp : Str),
    inp.length ≤ f → inp.length ≤ g → run c la pre f s inp = run c la pre g s inp := by
  intro f
  induction f with
  | zero =>
    intro g s inp h _
    have : inp = [] := List.eq_nil_of_length_eq_zero (Nat.le_zero.mp h)
    subst this
    rw [run_nil, run_nil]
  | succ f ih =>
    intro g s inp hf hg
    cases inp with
    | nil => rw [run_nil, run_nil]
    | cons ch rest =>
      cases g with
      | zero => simp at hg
      | succ g =>
        simp only [run]
        cases hst : step c la pre s ch rest with
        | none => rfl
        | some p =>
          obtain ⟨s', k⟩ := p
          have hl : (rest.drop k).length ≤ rest.length := by simp only [List.length_drop]; omega
          simp only [List.length_cons] at hf hg
          exact ih g s' (rest.drop k) (by omega) (by omega)

/-- the parser loop with exactly enough fuel -/
def go (c : Chars) (la pre : Str) (s : PState) (inp : Str) : Option PState := run c la pre inp.length s inp

theorem go_nil (c : Chars) (la pre : Str) (s : PState) : go c la pre s [] = some s := by
  simp [go, run]

theorem go_cons (c : Chars) (la pre : Str) (s : PState) (ch : Char) (rest : Str) :
    go c la pre s (ch :: rest) =
      match step c la pre s ch rest with
      | none => none
      | some (s', k) => go c la pre s' (rest.drop k) := by
  unfold go
  simp only [List.length_cons, run]
  cases hst : step c la pre s ch rest with
  | none => rfl
  | some p =>
    obtain ⟨s', k⟩ := p
    have hl : (rest.drop k).length ≤ rest.length := by simp only [List.length_drop]; omega
    exact run_fuel c la pre _ _ s' (rest.drop k) hl (Nat.le_refl _)

theorem go_step (c : Chars) (la pre : Str) (s : PState) (ch : Char) (rest : Str) (s' : PState) (k : Nat)
    (h : step c la pre s ch rest = some (s', k)) : go c la pre s (ch :: rest) = go c la pre s' (rest.drop k) := by
  rw [go_cons, h]

end Newick
