import BigtreeProofs.Lemmas.CopyStoreBasic
import BigtreeProofs.Lemmas.CopyStoreFrame
/-!
# Lemmas for C07 — umbrella file

* `CopyStoreBasic`: cell-level facts, the generic separation invariant `Inv`, the mutators,
  `alloc`, `deepCopy`, `toTree` of the copy, the Boolean checker `closedB`.
* `CopyStoreFrame`: frame lemmas for `cloneA`, `pruneA`, `getSubtreeA`.

This file adds the concrete store used by the non-vacuity examples of `Properties/C07.lean`.
-/

namespace CopyStore

/-- root "r" (id 0) with children "a" (1) and "b" (2); "c" (3) is a child of "a" -/
def s4 : Store := ⟨[
  ⟨none, [1, 2], ['r'], []⟩,
  ⟨some 0, [3], ['a'], [(['x'], .int 1)]⟩,
  ⟨some 0, [], ['b'], []⟩,
  ⟨some 1, [], ['c'], []⟩]⟩

theorem s4_closed : Closed s4 := closed_of_closedB s4 (by decide)

theorem s4_n : s4.n = 4 := rfl

end CopyStore
