import BigtreeProofs.Lemmas.BinStoreWF
/-! Effect (closed-form) lemmas for accepted operations of the two-slot store. -/
namespace BinStore

theorem getElem?_clear (k : Nat) (l : List (Option Nat)) (i : Nat) :
    (clear k l)[i]? = (l[i]?).map fun o => if o = some k then none else o := by
  simp [clear]

theorem getElem?_of_idx? {l : List (Option Nat)} {k i : Nat} (h : idx? l k = some i) :
    l[i]? = some (some k) := by
  induction l generalizing i with
  | nil => simp [idx?] at h
  | cons o l ih =>
    by_cases ho : o = some k
    · subst ho
      simp only [idx?, if_true, Option.some.injEq] at h
      subst h; rfl
    · simp only [idx?, ho, if_false, Option.map_eq_some_iff] at h
      obtain ⟨j, hj, rfl⟩ := h
      simpa using ih hj

/-- closed form of an accepted `v.children = l` -/
theorem children_effect {s : Store} (h : BWF s) (f : Fault) (v : Nat) (l : List (Option Nat))
    (hok : (setChildren true f s v l).2 = .ok) :
    ∃ c1 c2, normChildren l = some [c1, c2] ∧ ValidNew s v c1 c2 ∧
      (setChildren true f s v l).1.slots v = [c1, c2] ∧
      (∀ q, q ≠ v → (setChildren true f s v l).1.slots q = clearO c2 (clearO c1 (s.slots q))) ∧
      (∀ x, (setChildren true f s v l).1.parent x =
        if c1 = some x ∨ c2 = some x then some v
        else if s.parent x = some v then none else s.parent x) := by
  obtain ⟨c1, c2, hnorm, hval, _, heq⟩ := setChildren_ok h hok
  obtain ⟨t, ht, _, ep, es⟩ := childrenTry_spec h f v c1 c2 hval.distinct
  refine ⟨c1, c2, hnorm, hval, ?_, fun q hq => ?_, fun x => ?_⟩
  · rw [heq, ht]; simp [es]
  · rw [heq, ht]; simp [es, hq]
  · rw [heq, ht]; exact ep x

/-- closed form of an accepted `v.parent = np` -/
theorem parent_effect {s : Store} (h : BWF s) (f : Fault) (v : Nat) (np : Option Nat)
    (hok : (setParent true f s v np).2 = .ok) :
    (∀ x, (setParent true f s v np).1.parent x = if x = v then np else s.parent x) ∧
    (∀ x, (setParent true f s v np).1.slots x = parentSlots s v np x) ∧
    (∀ p, np = some p → ∃ j, firstNone (detached s v p) = some j) := by
  obtain ⟨_, _, _, h4, heq⟩ := setParent_ok hok
  rw [heq]
  exact (parentTry_spec h f v np h4).2

/-- `v.parent = p` is refused exactly when (after `v` has left its old slot) `p` has no empty slot -/
theorem parent_full_iff {s : Store} (h : BWF s) (v p : Nat) (hp : p < s.n) (hpv : p ≠ v)
    (hanc : v ∉ anc s s.n p) :
    (setParent true Fault.none s v (some p)).2 = .rej ↔ firstNone (detached s v p) = none := by
  have hty : parentTypeBad s (some p) = false := by simp [parentTypeBad]; omega
  have hlp : parentLoopBad s v (some p) = false := by simp [parentLoopBad, hpv, hanc]
  unfold setParent
  simp only [hty, hlp, Bool.and_false, Bool.false_eq_true, if_false]
  cases hcur : s.parent v with
  | none =>
    cases hj : firstNone (s.slots p) <;>
      simp [parentTry, detach, attach, detached, hcur, fillFirst_false, hj]
  | some cp =>
    obtain ⟨i, hi⟩ := h.idx_of_parent hcur
    have hclr := set_idx_none hi (h.distinct cp v)
    by_cases hpc : p = cp
    · subst hpc
      cases hj : firstNone (clear v (s.slots p)) <;>
        simp [parentTry, detach, attach, detached, hcur, hi, hclr, fillFirst_false, hj]
    · have hcp : ¬ cp = p := fun e => hpc e.symm
      cases hj : firstNone (s.slots p) <;>
        simp [parentTry, detach, attach, detached, hcur, hi, fillFirst_false, hj, hpc, hcp]

end BinStore
