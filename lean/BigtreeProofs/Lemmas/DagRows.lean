import BigtreeProofs.Lemmas.DagExport
/-! DataFrame format: what `dag_to_dataframe` lists and what `dataframe_to_dag` builds. -/

namespace Dag
open List

/-- the (parent, child) pairs a row list mentions -/
def rowsRel (rows : List Row) : List Edge :=
  rows.filterMap fun r => r.parent.map fun p => (p, r.name)

theorem mem_rowsRel {rows : List Row} {e : Edge} :
    e ∈ rowsRel rows ↔ ∃ r ∈ rows, r.parent = some e.1 ∧ r.name = e.2 := by
  obtain ⟨p, c⟩ := e
  simp only [rowsRel, mem_filterMap, Option.map_eq_some_iff, Prod.mk.injEq]
  constructor
  · rintro ⟨r, hr, q, hq, rfl, rfl⟩; exact ⟨r, hr, hq, rfl⟩
  · rintro ⟨r, hr, hq, rfl⟩; exact ⟨r, hr, p, hq, rfl, rfl⟩

theorem rowsRel_cons (r : Row) (rows : List Row) :
    rowsRel (r :: rows) = (match r.parent with | none => [] | some p => [(p, r.name)]) ++ rowsRel rows := by
  unfold rowsRel
  cases h : r.parent <;> simp [h]

/-! ### drop_duplicates -/

theorem mem_dropDups {l : List Row} {a : Row} : a ∈ dropDups l ↔ a ∈ l := by
  induction l with
  | nil => simp [dropDups]
  | cons x xs ih =>
    simp only [dropDups, mem_cons, mem_filter, ih, bne_iff_ne, ne_eq]
    by_cases h : a = x <;> simp [h]

theorem nodup_dropDups (l : List Row) : (dropDups l).Nodup := by
  induction l with
  | nil => simp [dropDups]
  | cons x xs ih =>
    simp only [dropDups, nodup_cons, mem_filter, bne_iff_ne, ne_eq, not_true_eq_false, and_false,
      not_false_eq_true, true_and]
    exact ih.filter _

theorem nodup_filterMap_of_inj {α β} {f : α → Option β} {l : List α} (hl : l.Nodup)
    (hf : ∀ a ∈ l, ∀ b ∈ l, ∀ y, f a = some y → f b = some y → a = b) :
    (l.filterMap f).Nodup := by
  induction l with
  | nil => simp
  | cons a l ih =>
    have ih' := ih (nodup_cons.1 hl).2 (fun x hx y hy => hf x (by simp [hx]) y (by simp [hy]))
    rw [filterMap_cons]
    split
    · exact ih'
    · rename_i y hy
      rw [nodup_cons]
      refine ⟨?_, ih'⟩
      intro hmem
      obtain ⟨b, hb, hfb⟩ := mem_filterMap.1 hmem
      have := hf a (by simp) b (by simp [hb]) y hy hfb
      exact (nodup_cons.1 hl).1 (this ▸ hb)

/-! ### the export -/

/-- the row written for the edge `e` / for a parent-less node `x` (before column alignment) -/
def edgeRow (g : Dag) (sel : AttrSel) (e : Edge) : Row :=
  { name := e.2, parent := some e.1, attrs := attrUpdate [] (selAttrs sel (g.attrs e.2)) }
def rootRow (g : Dag) (sel : AttrSel) (x : Nat) : Row :=
  { name := x, parent := none, attrs := attrUpdate [] (selAttrs sel (g.attrs x)) }

theorem mem_rawRows {g : Dag} {sel : AttrSel} {v : Nat} {r : Row} :
    r ∈ g.rawRows sel v ↔
      ∃ e ∈ g.dagIter v, (g.parents e.1 = [] ∧ r = g.rootRow sel e.1) ∨ r = g.edgeRow sel e := by
  simp only [rawRows, mem_flatMap, mem_append, mem_singleton]
  constructor
  · rintro ⟨e, he, h | h⟩
    · split at h
      · rename_i hr
        simp only [mem_singleton] at h
        exact ⟨e, he, Or.inl ⟨by simpa using hr, h⟩⟩
      · cases h
    · exact ⟨e, he, Or.inr h⟩
  · rintro ⟨e, he, ⟨hr, h⟩ | h⟩
    · exact ⟨e, he, Or.inl (by simp [hr, h, rootRow])⟩
    · exact ⟨e, he, Or.inr h⟩

theorem mem_dagToRows {g : Dag} {sel : AttrSel} {v : Nat} {r : Row} :
    r ∈ g.dagToRows sel v ↔
      ∃ r0 ∈ g.rawRows sel v, r = r0.align (columnsOf (g.rawRows sel v)) := by
  simp only [dagToRows, mem_dropDups, mem_map]
  constructor
  · rintro ⟨r0, h, rfl⟩; exact ⟨r0, h, rfl⟩
  · rintro ⟨r0, h, rfl⟩; exact ⟨r0, h, rfl⟩

/-- the pairs mentioned by the exported frame are exactly the pairs the iterator yields -/
theorem mem_rowsRel_dagToRows {g : Dag} {sel : AttrSel} {v : Nat} {e : Edge} :
    e ∈ rowsRel (g.dagToRows sel v) ↔ e ∈ g.dagIter v := by
  rw [mem_rowsRel]
  constructor
  · rintro ⟨r, hr, hp, hn⟩
    obtain ⟨r0, hr0, rfl⟩ := mem_dagToRows.1 hr
    obtain ⟨e', he', ⟨_, rfl⟩ | rfl⟩ := mem_rawRows.1 hr0
    · simp [Row.align, rootRow] at hp
    · simp only [Row.align, edgeRow, Option.some.injEq] at hp hn
      have : e' = e := Prod.ext hp hn
      exact this ▸ he'
  · intro he
    exact ⟨_, mem_dagToRows.2 ⟨_, mem_rawRows.2 ⟨e, he, Or.inr rfl⟩, rfl⟩, rfl, rfl⟩

theorem nodup_rowsRel_dagToRows {g : Dag} {sel : AttrSel} {v : Nat} :
    (rowsRel (g.dagToRows sel v)).Nodup := by
  apply nodup_filterMap_of_inj (nodup_dropDups _)
  intro a ha b hb y hya hyb
  have ha' : a ∈ g.dagToRows sel v := ha
  have hb' : b ∈ g.dagToRows sel v := hb
  obtain ⟨a0, ha0, rfl⟩ := mem_dagToRows.1 ha'
  obtain ⟨b0, hb0, rfl⟩ := mem_dagToRows.1 hb'
  obtain ⟨ea, _, ⟨_, rfl⟩ | rfl⟩ := mem_rawRows.1 ha0
  · simp [Row.align, rootRow] at hya
  obtain ⟨eb, _, ⟨_, rfl⟩ | rfl⟩ := mem_rawRows.1 hb0
  · simp [Row.align, rootRow] at hyb
  simp only [Row.align, edgeRow, Option.map_some, Option.some.injEq] at hya hyb
  have : ea = eb := by rw [← hyb] at hya; exact Prod.ext (by simpa using congrArg Prod.fst hya) (by simpa using congrArg Prod.snd hya)
  subst this; rfl

/-- parent-less rows of the export: exactly the parent-less end points of yielded pairs -/
theorem root_rows_dagToRows {g : Dag} {sel : AttrSel} {v : Nat} {r : Row}
    (hr : r ∈ g.dagToRows sel v) (hp : r.parent = none) :
    g.parents r.name = [] ∧ ∃ e ∈ g.dagIter v, e.1 = r.name := by
  obtain ⟨r0, hr0, rfl⟩ := mem_dagToRows.1 hr
  obtain ⟨e, he, ⟨hroot, rfl⟩ | rfl⟩ := mem_rawRows.1 hr0
  · exact ⟨hroot, e, he, rfl⟩
  · simp [Row.align, edgeRow] at hp

/-! ### the constructor -/

theorem rowStep_error (err : Err) (r : Row) : rowStep (.error err) r = .error err := rfl

theorem foldl_rowStep_error (err : Err) (rows : List Row) :
    rows.foldl rowStep (.error err) = .error err := by
  induction rows with
  | nil => rfl
  | cons r rows ih => simpa [foldl_cons, rowStep_error] using ih

theorem rowStep_spec {S : Nat → Prop} {pre : List Edge} {b : Built} (t : Tracks pre b.dag)
    (ha : RelAcyclic pre) (hS : ∀ x ∈ b.dag.nodes, S x) (r : Row)
    (hr : S r.name ∧ ∀ p, r.parent = some p → S p) :
    (RelAcyclic (pre ++ rowsRel [r]) →
      ∃ b', rowStep (.ok b) r = .ok b' ∧ Tracks (pre ++ rowsRel [r]) b'.dag ∧
        (∀ x ∈ b'.dag.nodes, S x) ∧ r.name ∈ b'.dag.nodes) ∧
    (¬ RelAcyclic (pre ++ rowsRel [r]) → rowStep (.ok b) r = .error .tree) := by
  have t1 : Tracks pre ((b.dag.newNode r.name (nonNull r.attrs)).setAttrs r.name (nonNull r.attrs)) :=
    (t.newNode _ _).setAttrs _ _
  have hn1 : ∀ x, x ∈ ((b.dag.newNode r.name (nonNull r.attrs)).setAttrs r.name (nonNull r.attrs)).nodes ↔
      x ∈ b.dag.nodes ∨ x = r.name := fun x => nodes_newNode
  cases hpar : r.parent with
  | none =>
    have hrel : rowsRel [r] = [] := by simp [rowsRel, hpar]
    rw [hrel, append_nil]
    refine ⟨fun _ => ⟨({ dag := (b.dag.newNode r.name (nonNull r.attrs)).setAttrs r.name (nonNull r.attrs), ret := b.ret } : Built), ?_, t1, ?_, (hn1 _).2 (Or.inr rfl)⟩, fun h => absurd ha h⟩
    · simp only [rowStep, hpar]; rfl
    · intro x hx
      rcases (hn1 x).1 hx with h | rfl
      · exact hS x h
      · exact hr.1
  | some p =>
    have hrel : rowsRel [r] = [(p, r.name)] := by simp [rowsRel, hpar]
    rw [hrel]
    have t2 := t1.newNode p []
    have hc : r.name ∈ (((b.dag.newNode r.name (nonNull r.attrs)).setAttrs r.name (nonNull r.attrs)).newNode p []).nodes :=
      nodes_newNode.2 (Or.inl ((hn1 _).2 (Or.inr rfl)))
    have hp : p ∈ (((b.dag.newNode r.name (nonNull r.attrs)).setAttrs r.name (nonNull r.attrs)).newNode p []).nodes :=
      nodes_newNode.2 (Or.inr rfl)
    obtain ⟨hok, hbad⟩ := t2.setParent ha hc hp
    constructor
    · intro hacy
      obtain ⟨g', hg', t', hn', _⟩ := hok hacy
      refine ⟨{ dag := g', ret := some p }, ?_, t', ?_, ?_⟩
      · simp only [rowStep, hpar]
        show Except.map _ (Dag.setParent _ r.name p) = _
        rw [hg']; rfl
      · intro x hx
        rw [show ({ dag := g', ret := some p } : Built).dag = g' from rfl, hn'] at hx
        rcases nodes_newNode.1 hx with hx | rfl
        · rcases (hn1 x).1 hx with h | rfl
          · exact hS x h
          · exact hr.1
        · exact hr.2 _ hpar
      · rw [show ({ dag := g', ret := some p } : Built).dag = g' from rfl, hn']; exact hc
    · intro hcyc
      simp only [rowStep, hpar]
      show Except.map _ (Dag.setParent _ r.name p) = _
      rw [hbad hcyc]; rfl

theorem rowsRel_append (a b : List Row) : rowsRel (a ++ b) = rowsRel a ++ rowsRel b := by
  simp [rowsRel, filterMap_append]

theorem foldl_rowStep_spec {S : Nat → Prop} : ∀ (rows : List Row) (pre : List Edge) (b : Built),
    Tracks pre b.dag → RelAcyclic pre → (∀ x ∈ b.dag.nodes, S x) →
    (∀ r ∈ rows, S r.name ∧ ∀ p, r.parent = some p → S p) →
    (RelAcyclic (pre ++ rowsRel rows) →
      ∃ b', rows.foldl rowStep (.ok b) = .ok b' ∧ Tracks (pre ++ rowsRel rows) b'.dag ∧
        (∀ x ∈ b'.dag.nodes, S x)) ∧
    (¬ RelAcyclic (pre ++ rowsRel rows) → rows.foldl rowStep (.ok b) = .error .tree) := by
  intro rows
  induction rows with
  | nil =>
    intro pre b t ha hS _
    simp only [rowsRel, filterMap_nil, append_nil, foldl_nil]
    exact ⟨fun _ => ⟨b, rfl, t, hS⟩, fun h => absurd ha h⟩
  | cons r rows ih =>
    intro pre b t ha hS hrows
    have happ : pre ++ rowsRel (r :: rows) = (pre ++ rowsRel [r]) ++ rowsRel rows := by
      rw [show r :: rows = [r] ++ rows from rfl, rowsRel_append, append_assoc]
    rw [happ, foldl_cons]
    obtain ⟨hok, hbad⟩ := rowStep_spec t ha hS r (hrows r (by simp))
    by_cases hacy : RelAcyclic (pre ++ rowsRel [r])
    · obtain ⟨b1, hb1, t1, hS1, _⟩ := hok hacy
      rw [hb1]
      exact ih (pre ++ rowsRel [r]) b1 t1 hacy hS1 (fun x hx => hrows x (by simp [hx]))
    · rw [hbad hacy, foldl_rowStep_error]
      exact ⟨fun h => absurd (relAcyclic_mono (fun x hx => mem_append_left _ hx) h) hacy,
        fun _ => rfl⟩

theorem relAcyclic_nil : RelAcyclic [] := by
  intro x hx
  cases hx with
  | edge h => simp [relGraph, ofEdges] at h
  | step h _ => simp [relGraph, ofEdges] at h

/-- **constructor lemma** for `dataframe_to_dag` (rows with one attribute tuple per name) -/
theorem rowsToDag_spec {S : Nat → Prop} (rows : List Row) (hne : rows ≠ [])
    (hcons : rowsConsistent rows = true)
    (hrows : ∀ r ∈ rows, S r.name ∧ ∀ p, r.parent = some p → S p) :
    (RelAcyclic (rowsRel rows) →
      ∃ b, rowsToDag rows = .ok b ∧ Tracks (rowsRel rows) b.dag ∧ (∀ x ∈ b.dag.nodes, S x)) ∧
    (¬ RelAcyclic (rowsRel rows) → rowsToDag rows = .error .tree) := by
  have hemp : rows.isEmpty = false := by cases rows <;> simp_all
  unfold rowsToDag
  rw [hemp, hcons]
  simp only [Bool.false_eq_true, if_false, Bool.not_true]
  have := foldl_rowStep_spec (S := S) rows [] { dag := empty, ret := none } tracks_empty
    relAcyclic_nil (by intro x hx; simp [empty] at hx) hrows
  simpa only [nil_append] using this

end Dag
