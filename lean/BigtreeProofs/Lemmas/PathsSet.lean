import Mathlib.Data.List.Nodup
import BigtreeModel.Paths
import BigtreeProofs.Lemmas.PathsAddr
/-!
# The set of node paths, sibling-uniqueness, and what one appended child does to them (C05)
Core Lean only.
-/

namespace Paths

/-! ## `paths` -/

theorem paths_node (i n a cs) : paths (.node i n a cs) = [n] :: (pathsL cs).map (n :: ·) := by
  simp [paths]

theorem paths_eq (t : Tree) : paths t = [t.name] :: (pathsL t.children).map (t.name :: ·) := by
  cases t; simp [paths]

@[simp] theorem pathsL_nil : pathsL [] = [] := by simp [pathsL]
@[simp] theorem pathsL_cons (c cs) : pathsL (c :: cs) = paths c ++ pathsL cs := by simp [pathsL]

theorem pathsL_append (cs ds : List Tree) : pathsL (cs ++ ds) = pathsL cs ++ pathsL ds := by
  induction cs with
  | nil => simp
  | cons c cs ih => simp [ih]

theorem mem_pathsL {q : List Str} {cs : List Tree} : q ∈ pathsL cs ↔ ∃ c ∈ cs, q ∈ paths c := by
  induction cs with
  | nil => simp
  | cons c cs ih => simp [ih]

theorem mem_pathsL_idx {q : List Str} {cs : List Tree} :
    q ∈ pathsL cs ↔ ∃ (j : Nat) (e : Tree), cs[j]? = some e ∧ q ∈ paths e := by
  rw [mem_pathsL]
  constructor
  · rintro ⟨c, hc, hq⟩
    obtain ⟨j, hj, rfl⟩ := List.getElem_of_mem hc
    exact ⟨j, cs[j], List.getElem?_eq_getElem hj, hq⟩
  · rintro ⟨j, e, hj, hq⟩
    exact ⟨e, List.mem_of_getElem? hj, hq⟩

/-- every path of a tree starts with the root's name -/
theorem head_of_mem_paths {q : List Str} {t : Tree} (h : q ∈ paths t) : q.head? = some t.name := by
  rw [paths_eq] at h
  simp only [List.mem_cons, List.mem_map] at h
  rcases h with rfl | ⟨q', _, rfl⟩ <;> rfl

theorem mem_paths_iff {q : List Str} {t : Tree} :
    q ∈ paths t ↔ q = [t.name] ∨ ∃ q', q = t.name :: q' ∧ q' ∈ pathsL t.children := by
  rw [paths_eq]
  simp only [List.mem_cons, List.mem_map]
  constructor
  · rintro (h | ⟨q', h1, rfl⟩)
    · exact .inl h
    · exact .inr ⟨q', rfl, h1⟩
  · rintro (h | ⟨q', rfl, h1⟩)
    · exact .inl h
    · exact .inr ⟨q', h1, rfl⟩

/-- the paths are exactly the name lists along the valid addresses -/
theorem mem_paths_addr : ∀ (t : Tree) (q : List Str),
    q ∈ paths t ↔ ∃ a n, nodeAt a t = some n ∧ namesAlong a t = q := by
  intro t
  induction t using Tree.ind with
  | h i n at' cs ih =>
    intro q
    rw [mem_paths_iff]
    constructor
    · rintro (rfl | ⟨q', rfl, hq'⟩)
      · exact ⟨[], _, rfl, rfl⟩
      · simp only [Tree.children_node] at hq'
        rw [mem_pathsL_idx] at hq'
        obtain ⟨j, e, hj, hq⟩ := hq'
        obtain ⟨a, m, hm, hn⟩ := (ih e (List.mem_of_getElem? hj) q').mp hq
        refine ⟨j :: a, m, ?_, ?_⟩
        · rw [nodeAt_cons]; simp [hj, hm]
        · rw [namesAlong_cons _ _ _ e (by simpa using hj), hn]
    · rintro ⟨a, m, hm, rfl⟩
      cases a with
      | nil => exact .inl rfl
      | cons k ks =>
        right
        rw [nodeAt_cons] at hm
        cases hk : (Tree.node i n at' cs).children[k]? with
        | none => rw [hk] at hm; cases hm
        | some c =>
          rw [hk] at hm
          refine ⟨namesAlong ks c, namesAlong_cons _ _ _ _ hk, ?_⟩
          rw [mem_pathsL_idx]
          have hc : c ∈ cs := List.mem_of_getElem? (by simpa using hk)
          exact ⟨k, c, hk, (ih c hc _).mpr ⟨ks, m, hm, rfl⟩⟩

/-! ## sibling-uniqueness (the `Node` invariant: no two children of a node share a name) -/

mutual
def SibUnique : Tree → Prop
  | .node _ _ _ cs => (cs.map Tree.name).Nodup ∧ SibUniqueL cs
def SibUniqueL : List Tree → Prop
  | [] => True
  | c :: cs => SibUnique c ∧ SibUniqueL cs
end

theorem sibUniqueL_iff (cs : List Tree) : SibUniqueL cs ↔ ∀ c ∈ cs, SibUnique c := by
  induction cs with
  | nil => simp [SibUniqueL]
  | cons c cs ih => simp [SibUniqueL, ih]

theorem sibUnique_iff (t : Tree) :
    SibUnique t ↔ (t.children.map Tree.name).Nodup ∧ ∀ c ∈ t.children, SibUnique c := by
  cases t; simp [SibUnique, sibUniqueL_iff]

theorem SibUnique.child {t c : Tree} {k : Nat} (h : SibUnique t) (hk : t.children[k]? = some c) :
    SibUnique c := ((sibUnique_iff t).mp h).2 c (List.mem_of_getElem? hk)

theorem SibUnique.nodeAt (a : Addr) : ∀ {t n : Tree}, SibUnique t → nodeAt a t = some n → SibUnique n := by
  induction a with
  | nil => intro t n h hn; simp at hn; subst hn; exact h
  | cons k ks ih =>
    intro t n h hn
    rw [nodeAt_cons] at hn
    cases hk : t.children[k]? with
    | none => rw [hk] at hn; cases hn
    | some c => rw [hk] at hn; exact ih (h.child hk) hn

theorem nodup_pathsL (cs : List Tree) (hnd : (cs.map Tree.name).Nodup)
    (h : ∀ c ∈ cs, (paths c).Nodup) : (pathsL cs).Nodup := by
  induction cs with
  | nil => simp
  | cons c cs ihc =>
    rw [pathsL_cons]
    simp only [List.map_cons, List.nodup_cons] at hnd
    rw [List.nodup_append]
    refine ⟨h c List.mem_cons_self, ihc hnd.2 (fun d hd => h d (List.mem_cons_of_mem _ hd)), ?_⟩
    intro q hq1 q2 hq2 he
    subst he
    rw [mem_pathsL] at hq2
    obtain ⟨d, hd, hq2⟩ := hq2
    have h1 := head_of_mem_paths hq1
    have h2 := head_of_mem_paths hq2
    rw [h1] at h2
    injection h2 with h2
    exact hnd.1 (List.mem_map.mpr ⟨d, hd, h2.symm⟩)

/-- under sibling-uniqueness no path occurs twice -/
theorem nodup_paths : ∀ (t : Tree), SibUnique t → (paths t).Nodup := by
  intro t
  induction t using Tree.ind with
  | h i n at' cs ih =>
    intro hs
    rw [sibUnique_iff] at hs
    simp only [Tree.children_node] at hs
    obtain ⟨hnd, hcs⟩ := hs
    rw [paths_node, List.nodup_cons]
    constructor
    · intro hm
      rw [List.mem_map] at hm
      obtain ⟨q', hq', he⟩ := hm
      injection he with _ he
      subst he
      rw [mem_pathsL] at hq'
      obtain ⟨c, _, hq⟩ := hq'
      have := head_of_mem_paths hq
      simp at this
    · apply List.Nodup.map
      · intro x y hxy; injection hxy
      · exact nodup_pathsL cs hnd (fun c hc => ih c hc (hcs c hc))

end Paths
