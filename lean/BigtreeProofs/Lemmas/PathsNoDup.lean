import Mathlib.Data.List.Nodup
import BigtreeModel.Paths
import BigtreeProofs.Lemmas.PathsStr
import BigtreeProofs.Lemmas.PathsAddr
import BigtreeProofs.Lemmas.PathsSet
import BigtreeProofs.Lemmas.PathsInsert
import BigtreeProofs.Lemmas.PathsLoop
/-!
# `duplicate_name_allowed=False`: `find_name` over the whole tree + full-path comparison (C05)

Under sibling-uniqueness and a one-character tree separator that occurs in no name, a lookup that
does not raise finds exactly what `find_child_by_name` finds, so a successful call builds the
same tree as with duplicates allowed.
-/

namespace Paths
open Str

/-! ## `find_name` -/

theorem mem_findNameL (c : Str) : ∀ (cs : List Tree) (k0 : Nat) (ad : Addr),
    ad ∈ findNameL c k0 cs ↔
      ∃ (j : Nat) (ks : Addr) (d : Tree), ad = (k0 + j) :: ks ∧ cs[j]? = some d ∧ ks ∈ findName c d := by
  intro cs
  induction cs with
  | nil => intro k0 ad; simp [findNameL]
  | cons x xs ih =>
    intro k0 ad
    simp only [findNameL, List.mem_append, List.mem_map, ih]
    constructor
    · rintro (⟨ks, hks, rfl⟩ | ⟨j, ks, d, rfl, hd, hks⟩)
      · exact ⟨0, ks, x, by simp, by simp, hks⟩
      · exact ⟨j + 1, ks, d, by simp; omega, by simpa using hd, hks⟩
    · rintro ⟨j, ks, d, rfl, hd, hks⟩
      cases j with
      | zero => simp at hd; subst hd; exact .inl ⟨ks, hks, by simp⟩
      | succ j => exact .inr ⟨j, ks, d, by simp; omega, by simpa using hd, hks⟩

/-- `find_name` returns exactly the addresses of the nodes with that name -/
theorem mem_findName (c : Str) : ∀ (t : Tree) (ad : Addr),
    ad ∈ findName c t ↔ ∃ n, nodeAt ad t = some n ∧ n.name = c := by
  intro t
  induction t using Tree.ind with
  | h i n at' cs ih =>
    intro ad
    simp only [findName, List.mem_append, mem_findNameL, Nat.zero_add]
    constructor
    · rintro (h | ⟨j, ks, d, rfl, hd, hks⟩)
      · split at h
        · simp at h; subst h; exact ⟨_, rfl, by simpa⟩
        · cases h
      · obtain ⟨m, hm, hmn⟩ := (ih d (List.mem_of_getElem? hd) ks).mp hks
        exact ⟨m, by rw [nodeAt_cons]; simp [hd, hm], hmn⟩
    · rintro ⟨m, hm, hmn⟩
      cases ad with
      | nil => simp at hm; subst hm; left; simp at hmn; simp [hmn]
      | cons j ks =>
        right
        rw [nodeAt_cons] at hm
        cases hd : (Tree.node i n at' cs).children[j]? with
        | none => rw [hd] at hm; cases hm
        | some d =>
          rw [hd] at hm
          have hd' : cs[j]? = some d := by simpa using hd
          exact ⟨j, ks, d, rfl, hd', (ih d (List.mem_of_getElem? hd') ks).mpr ⟨m, hm, hmn⟩⟩

/-! ## under sibling-uniqueness a path identifies its node -/

theorem namesAlong_head (a : Addr) (t : Tree) : (namesAlong a t).head? = some t.name := by
  cases a <;> simp [namesAlong]

theorem namesAlong_inj (a : Addr) : ∀ (b : Addr) (t n m : Tree), SibUnique t →
    nodeAt a t = some n → nodeAt b t = some m → namesAlong a t = namesAlong b t → a = b := by
  induction a with
  | nil =>
    intro b t n m _ hn hm he
    have h1 := namesAlong_length [] t n hn
    have h2 := namesAlong_length b t m hm
    rw [he] at h1
    cases b with
    | nil => rfl
    | cons _ _ => simp only [List.length_cons, List.length_nil] at h1 h2; omega
  | cons k ks ih =>
    intro b t n m hs hn hm he
    cases b with
    | nil =>
      have h1 := namesAlong_length (k :: ks) t n hn
      have h2 := namesAlong_length [] t m hm
      rw [he] at h1
      simp only [List.length_cons, List.length_nil] at h1 h2; omega
    | cons j js =>
      rw [nodeAt_cons] at hn hm
      cases hk : t.children[k]? with
      | none => rw [hk] at hn; cases hn
      | some c1 =>
        cases hj : t.children[j]? with
        | none => rw [hj] at hm; cases hm
        | some c2 =>
          rw [hk] at hn; rw [hj] at hm
          simp only [Option.bind] at hn hm
          rw [namesAlong_cons _ _ _ _ hk, namesAlong_cons _ _ _ _ hj] at he
          injection he with _ he
          have hh : c1.name = c2.name := by
            have h1 := namesAlong_head ks c1
            rw [he, namesAlong_head] at h1
            injection h1 with h1; exact h1.symm
          have hnd := ((sibUnique_iff t).mp hs).1
          have hkj : k = j := by
            have hlt : k < (t.children.map Tree.name).length := by
              simpa using (List.getElem?_eq_some_iff.mp hk).1
            apply (List.getElem?_inj hlt hnd).mp
            simp [List.getElem?_map, hk, hj, hh]
          subst hkj
          rw [hk] at hj; injection hj with hj; subst hj
          rw [ih js c1 n m (hs.child hk) hn hm he]

theorem childIdxs_nil_iff' (c : Str) (cs : List Tree) (k : Nat) :
    childIdxs c k cs = [] ↔ c ∉ cs.map Tree.name := by
  constructor
  · intro h hm
    rw [List.mem_map] at hm
    obtain ⟨d, hd, hn⟩ := hm
    obtain ⟨j, hj, rfl⟩ := List.getElem_of_mem hd
    have : k + j ∈ childIdxs c k cs :=
      (mem_childIdxs c cs k (k + j)).mpr ⟨by omega, cs[j], by simp [List.getElem?_eq_getElem hj], hn⟩
    rw [h] at this; cases this
  · intro h
    cases hc : childIdxs c k cs with
    | nil => rfl
    | cons j js =>
      have : j ∈ childIdxs c k cs := by rw [hc]; exact List.mem_cons_self
      obtain ⟨_, d, hd, hn⟩ := (mem_childIdxs c cs k j).mp this
      exact absurd (List.mem_map.mpr ⟨d, List.mem_of_getElem? hd, hn⟩) h

/-- with pairwise different sibling names `find_child_by_name` finds the one child of that name -/
theorem childIdxs_unique (c : Str) : ∀ (cs : List Tree) (k j : Nat) (d : Tree),
    (cs.map Tree.name).Nodup → cs[j]? = some d → d.name = c → childIdxs c k cs = [k + j] := by
  intro cs
  induction cs with
  | nil => intro k j d _ h; simp at h
  | cons x xs ih =>
    intro k j d hnd hd hn
    simp only [List.map_cons, List.nodup_cons] at hnd
    cases j with
    | zero =>
      simp at hd; subst hd
      simp only [childIdxs, hn, if_true, Nat.add_zero]
      rw [(childIdxs_nil_iff' c xs (k + 1)).mpr (by rw [← hn]; exact hnd.1)]
    | succ j =>
      have hd' : xs[j]? = some d := by simpa using hd
      have hx : x.name ≠ c := by
        intro e
        exact hnd.1 (List.mem_map.mpr ⟨d, List.mem_of_getElem? hd', by rw [hn, e]⟩)
      simp only [childIdxs, hx, if_false]
      rw [ih (k + 1) j d hnd.2 hd' hn]
      congr 1; omega

/-! ## separator-free names -/

/-- the character `s` occurs in no node name of `t` -/
def SepFree (s : Char) (t : Tree) : Prop := ∀ q ∈ paths t, ∀ x ∈ q, s ∉ x

theorem SepFree.namesAlong {s : Char} {t n : Tree} {a : Addr} (h : SepFree s t) (hn : nodeAt a t = some n) :
    ∀ x ∈ namesAlong a t, s ∉ x :=
  h _ ((mem_paths_addr t _).mpr ⟨a, n, hn, rfl⟩)

theorem namesAlong_ne_nil (a : Addr) (t : Tree) : namesAlong a t ≠ [] := by
  cases a <;> simp [namesAlong]

/-- the nodup-mode lookup, when it does not raise, is the dup-mode lookup -/
theorem lookup_nodup_eq (s : Char) (t p : Tree) (paddr : Addr) (pre : List Str) (c : Str) (r : Option Addr)
    (hs : SibUnique t) (hp : nodeAt paddr t = some p) (hn : namesAlong paddr t = pre)
    (hf : SepFree s t) (hc : s ∉ c)
    (h : lookup [s] false t paddr (pre ++ [c]) c = .ok r) :
    lookup [s] true t paddr (pre ++ [c]) c = .ok r := by
  simp only [lookup, Bool.false_eq_true, if_false] at h
  simp only [lookup, if_true, hp]
  cases hfn : findName c t with
  | nil =>
    rw [hfn] at h
    simp only [Except.ok.injEq] at h
    subst h
    -- no node of that name at all, in particular no such child
    have : childIdxs c 0 p.children = [] := by
      rw [childIdxs_nil_iff]
      intro hm
      rw [List.mem_map] at hm
      obtain ⟨d, hd, hdn⟩ := hm
      obtain ⟨j, hj, rfl⟩ := List.getElem_of_mem hd
      have : paddr ++ [j] ∈ findName c t :=
        (mem_findName c t _).mpr ⟨p.children[j], by
          rw [nodeAt_append, hp]; simp [nodeAt_cons, List.getElem?_eq_getElem hj], hdn⟩
      rw [hfn] at this; cases this
    rw [this]
  | cons ad rest =>
    rw [hfn] at h
    cases rest with
    | cons _ _ => cases h
    | nil =>
      simp only at h
      split at h
      · cases h
      · rename_i hpn
        simp only [Except.ok.injEq] at h
        subst h
        have hpn : pathName [s] ad t = [s] ++ join [s] (pre ++ [c]) := by simpa using hpn
        obtain ⟨m, hm, hmn⟩ := (mem_findName c t ad).mp (by rw [hfn]; exact List.mem_cons_self)
        -- equal path strings, hence equal name lists
        have hnames : Paths.namesAlong ad t = pre ++ [c] := by
          unfold pathName at hpn
          have hj := List.append_cancel_left hpn
          apply join_inj s _ _ (namesAlong_ne_nil ad t) (by simp) (hf.namesAlong hm) _ hj
          intro x hx
          rw [List.mem_append] at hx
          rcases hx with hx | hx
          · rw [← hn] at hx; exact hf.namesAlong hp x hx
          · simp at hx; subst hx; exact hc
        -- the found node is a child of the current parent
        have hlen := namesAlong_length ad t m hm
        have hlenp := namesAlong_length paddr t p hp
        rw [hnames, ← hn] at hlen
        simp only [List.length_append, List.length_singleton] at hlen
        have hadne : ad ≠ [] := by intro e; subst e; simp only [List.length_nil] at hlen; omega
        obtain ⟨ad', j, rfl⟩ : ∃ ad' j, ad = ad' ++ [j] :=
          ⟨ad.dropLast, ad.getLast hadne, (List.dropLast_append_getLast hadne).symm⟩
        rw [nodeAt_append] at hm
        cases hp' : nodeAt ad' t with
        | none => rw [hp'] at hm; cases hm
        | some p' =>
          rw [hp'] at hm
          simp only [Option.bind, nodeAt_cons] at hm
          cases hd : p'.children[j]? with
          | none => rw [hd] at hm; cases hm
          | some d =>
            rw [hd] at hm
            simp only [nodeAt_nil, Option.some.injEq] at hm
            subst hm
            rw [namesAlong_snoc _ _ _ _ _ hp' hd] at hnames
            have hpre : Paths.namesAlong ad' t = pre := List.append_inj_left' hnames rfl
            have hadp : ad' = paddr := namesAlong_inj ad' paddr t p' p hs hp' hp (by rw [hpre, hn])
            subst hadp
            rw [hp] at hp'; injection hp' with hp'; subst hp'
            have hsp : SibUnique p := hs.nodeAt _ hp
            rw [childIdxs_unique c p.children 0 j d ((sibUnique_iff p).mp hsp).1 hd hmn]
            simp

end Paths

namespace Paths
open Str

/-! ## names (for "all names distinct") -/

@[simp] theorem namesL_nil : namesL [] = [] := by simp [namesL]
@[simp] theorem namesL_cons (c cs) : namesL (c :: cs) = names c ++ namesL cs := by simp [namesL]
theorem names_eq (t : Tree) : names t = t.name :: namesL t.children := by cases t; simp [names]

theorem namesL_append (cs ds : List Tree) : namesL (cs ++ ds) = namesL cs ++ namesL ds := by
  induction cs with
  | nil => simp
  | cons c cs ih => simp [ih]

theorem namesL_modify_perm (c : Str) (g : Tree → Tree) : ∀ (cs : List Tree) (k : Nat) (d : Tree),
    cs[k]? = some d → (names (g d)).Perm (c :: names d) →
    (namesL (cs.modify k g)).Perm (c :: namesL cs) := by
  intro cs
  induction cs with
  | nil => intro k d h; simp at h
  | cons x xs ih =>
    intro k d hd hp
    cases k with
    | zero =>
      simp at hd; subst hd
      simp only [List.modify_zero_cons, namesL_cons]
      exact (hp.append_right _).trans (by simp)
    | succ k =>
      simp only [List.modify_succ_cons, namesL_cons]
      have := ih k d (by simpa using hd) hp
      exact (List.Perm.append_left _ this).trans List.perm_middle

/-- appending a leaf called `c` adds exactly one name -/
theorem names_appendChild_perm (fr : Nat) (c : Str) (at' : Attrs) (a : Addr) :
    ∀ (t p : Tree), nodeAt a t = some p →
      (names (modifyAt (appendChild (.node fr c at' [])) a t)).Perm (c :: names t) := by
  induction a with
  | nil =>
    intro t p _
    rw [modifyAt_nil, names_eq, names_eq t]
    simp only [appendChild_name, appendChild_children, namesL_append, namesL_cons, namesL_nil,
      List.append_nil, names]
    have : (t.name :: (namesL t.children ++ [c])).Perm (t.name :: c :: namesL t.children) :=
      List.Perm.cons _ (List.perm_append_comm (l₁ := namesL t.children) (l₂ := [c]))
    exact this.trans (List.Perm.swap _ _ _)
  | cons k ks ih =>
    intro t p hp
    rw [nodeAt_cons] at hp
    cases hk : t.children[k]? with
    | none => rw [hk] at hp; cases hp
    | some d =>
      rw [hk] at hp
      simp only [Option.bind] at hp
      rw [names_eq, names_eq t, modifyAt_cons_name, modifyAt_cons_children]
      have := namesL_modify_perm c _ t.children k d hk (ih d p hp)
      exact (List.Perm.cons _ this).trans (List.Perm.swap _ _ _)

theorem mem_names_iff (t : Tree) (x : Str) : x ∈ names t ↔ ∃ a n, nodeAt a t = some n ∧ n.name = x := by
  induction t using Tree.ind with
  | h i n at' cs ih =>
    rw [names_eq]
    simp only [Tree.name_node, Tree.children_node, List.mem_cons]
    have hL : x ∈ namesL cs ↔ ∃ d ∈ cs, x ∈ names d := by
      clear ih
      induction cs with
      | nil => simp
      | cons y ys ihy => simp [ihy]
    rw [hL]
    constructor
    · rintro (rfl | ⟨d, hd, hx⟩)
      · exact ⟨[], _, rfl, rfl⟩
      · obtain ⟨a, m, hm, hmn⟩ := (ih d hd).mp hx
        obtain ⟨j, hj, rfl⟩ := List.getElem_of_mem hd
        exact ⟨j :: a, m, by rw [nodeAt_cons]; simp [List.getElem?_eq_getElem hj, hm], hmn⟩
    · rintro ⟨a, m, hm, hmn⟩
      cases a with
      | nil => simp at hm; subst hm; exact .inl hmn.symm
      | cons j ks =>
        right
        rw [nodeAt_cons] at hm
        cases hd : (Tree.node i n at' cs).children[j]? with
        | none => rw [hd] at hm; cases hm
        | some d =>
          rw [hd] at hm
          have hd' : d ∈ cs := List.mem_of_getElem? (by simpa using hd)
          exact ⟨d, hd', (ih d hd').mpr ⟨ks, m, hm, hmn⟩⟩

theorem findName_nil_iff (c : Str) (t : Tree) : findName c t = [] ↔ c ∉ names t := by
  rw [mem_names_iff]
  constructor
  · rintro h ⟨a, n, hn, hnn⟩
    have := (mem_findName c t a).mpr ⟨n, hn, hnn⟩
    rw [h] at this; cases this
  · intro h
    cases hf : findName c t with
    | nil => rfl
    | cons a rest =>
      obtain ⟨n, hn, hnn⟩ := (mem_findName c t a).mp (by rw [hf]; exact List.mem_cons_self)
      exact absurd ⟨a, n, hn, hnn⟩ h

/-! ## the loop with duplicates disallowed -/

theorem lookup_dup_some (ts : Str) (t p : Tree) (paddr ad : Addr) (pre' : List Str) (c : Str)
    (hp : nodeAt paddr t = some p) (h : lookup ts true t paddr pre' c = .ok (some ad)) :
    ∃ k d, ad = paddr ++ [k] ∧ p.children[k]? = some d ∧ d.name = c := by
  simp only [lookup, if_true, hp] at h
  cases hci : childIdxs c 0 p.children with
  | nil => rw [hci] at h; cases h
  | cons k ks =>
    rw [hci] at h
    cases ks with
    | cons _ _ => cases h
    | nil =>
      simp only [Except.ok.injEq, Option.some.injEq] at h
      obtain ⟨d, hd, hdn⟩ := childIdxs_single c p.children k hci
      exact ⟨k, d, h.symm, hd, hdn⟩

theorem lookup_dup_none (ts : Str) (t p : Tree) (paddr : Addr) (pre' : List Str) (c : Str)
    (hp : nodeAt paddr t = some p) (h : lookup ts true t paddr pre' c = .ok none) :
    c ∉ p.children.map Tree.name := by
  simp only [lookup, if_true, hp] at h
  cases hci : childIdxs c 0 p.children with
  | nil => exact (childIdxs_nil_iff c p.children).mp hci
  | cons k ks =>
    rw [hci] at h
    cases ks with
    | cons _ _ => cases h
    | nil => cases h

theorem lookup_nodup_none (ts : Str) (t : Tree) (paddr : Addr) (pre' : List Str) (c : Str)
    (h : lookup ts false t paddr pre' c = .ok none) : c ∉ names t := by
  simp only [lookup, Bool.false_eq_true, if_false] at h
  cases hf : findName c t with
  | nil => exact (findName_nil_iff c t).mp hf
  | cons a rest =>
    rw [hf] at h
    cases rest with
    | cons _ _ => cases h
    | nil =>
      simp only at h
      split at h <;> cases h

/-- A call with duplicates disallowed that does not raise returns what the call with duplicates
    allowed returns; and it keeps all names distinct if they were. -/
theorem insertLoop_nodup (s : Char) (attrs : Attrs) : ∀ (rest pre : List Str) (t : Tree) (paddr : Addr)
    (fresh : Nat) (p : Tree) (r : Tree × Addr × Nat),
    SibUnique t → nodeAt paddr t = some p → namesAlong paddr t = pre → SepFree s t →
    (∀ x ∈ rest, s ∉ x) →
    insertLoop [s] false attrs rest pre t paddr fresh = .ok r →
    insertLoop [s] true attrs rest pre t paddr fresh = .ok r ∧
      ((names t).Nodup → (names r.1).Nodup) := by
  intro rest
  induction rest with
  | nil =>
    intro pre t paddr fresh p r _ _ _ _ _ h
    simp only [insertLoop, Except.ok.injEq] at h
    subst h
    exact ⟨by simp [insertLoop], fun h => h⟩
  | cons c rest ih =>
    intro pre t paddr fresh p r hs hp hn hf hrest h
    have hc : s ∉ c := hrest c (by simp)
    have hrest' : ∀ x ∈ rest, s ∉ x := fun x hx => hrest x (List.mem_cons_of_mem _ hx)
    unfold insertLoop at h ⊢
    cases hl : lookup [s] false t paddr (pre ++ [c]) c with
    | error e => rw [hl] at h; cases h
    | ok found =>
      have hl' := lookup_nodup_eq s t p paddr pre c found hs hp hn hf hc hl
      rw [hl] at h
      rw [hl']
      cases found with
      | some ad =>
        simp only at h ⊢
        obtain ⟨k, d, rfl, hd, hdn⟩ := lookup_dup_some [s] t p paddr ad (pre ++ [c]) c hp hl'
        have hp2 : nodeAt (paddr ++ [k]) t = some d := by
          rw [nodeAt_append, hp]; simp [nodeAt_cons, hd]
        have hn2 : namesAlong (paddr ++ [k]) t = pre ++ [c] := by
          rw [namesAlong_snoc _ _ _ _ _ hp hd, hn, hdn]
        exact ih _ _ _ _ _ _ hs hp2 hn2 hf hrest' h
      | none =>
        simp only at h ⊢
        split at h
        · cases h
        · rename_i hcne
          rw [if_neg hcne]
          simp only [hp, Option.map, Option.getD] at h ⊢
          generalize hnew : Tree.node fresh c (if rest.isEmpty = true then attrs else []) [] = new at h ⊢
          have hcn : c ∉ p.children.map Tree.name := lookup_dup_none [s] t p paddr (pre ++ [c]) c hp hl'
          have hs1 : SibUnique (modifyAt (appendChild new) paddr t) := by
            rw [← hnew]; exact sibUnique_appendChild _ _ _ paddr t p hs hp hcn
          have hp1 : nodeAt paddr (modifyAt (appendChild new) paddr t) = some (appendChild new p) := by
            rw [nodeAt_modifyAt_self, hp]; rfl
          have hk1 : (appendChild new p).children[p.children.length]? = some new := by simp
          have hp2 : nodeAt (paddr ++ [p.children.length]) (modifyAt (appendChild new) paddr t) = some new := by
            rw [nodeAt_append, hp1]; simp [nodeAt_cons]
          have hnm : new.name = c := by rw [← hnew]; rfl
          have hn2 : namesAlong (paddr ++ [p.children.length]) (modifyAt (appendChild new) paddr t)
              = pre ++ [c] := by
            rw [namesAlong_snoc _ _ _ _ _ hp1 hk1,
              namesAlong_modifyAt_grows (grows_appendChild new) paddr paddr t p hp, hn, hnm]
          have hf1 : SepFree s (modifyAt (appendChild new) paddr t) := by
            intro q hq x hx
            rw [← hnew, mem_paths_appendChild fresh c _ paddr t p q hp] at hq
            rcases hq with hq | rfl
            · exact hf q hq x hx
            · rw [List.mem_append] at hx
              rcases hx with hx | hx
              · exact hf.namesAlong hp x hx
              · simp at hx; subst hx; exact hc
          obtain ⟨r1, r2⟩ := ih _ _ _ _ _ _ hs1 hp2 hn2 hf1 hrest' h
          refine ⟨r1, fun hnd => r2 ?_⟩
          have hcn' : c ∉ names t := lookup_nodup_none [s] t paddr (pre ++ [c]) c hl
          have hperm := names_appendChild_perm fresh c (if rest.isEmpty = true then attrs else []) paddr t p hp
          rw [hnew] at hperm
          exact (hperm.nodup_iff).mpr (List.nodup_cons.mpr ⟨hcn', hnd⟩)

end Paths

namespace Paths
open Str

theorem names_modifyAt_same (f : Tree → Tree) (hn : ∀ t, (f t).name = t.name)
    (hc : ∀ t, (f t).children = t.children) (a : Addr) :
    ∀ (t : Tree), names (modifyAt f a t) = names t := by
  induction a with
  | nil => intro t; rw [modifyAt_nil, names_eq, names_eq t, hn, hc]
  | cons k ks ih =>
    intro t
    rw [names_eq, names_eq t, modifyAt_cons_name, modifyAt_cons_children]
    congr 1
    generalize t.children = cs
    induction cs generalizing k with
    | nil => simp
    | cons c cs ihc =>
      cases k with
      | zero => simp [ih]
      | succ k => simp [ihc]

/-- `add_path_to_tree` on components, duplicates disallowed: a call that does not raise returns
    exactly what the call with duplicates allowed returns, and keeps all names distinct. -/
theorem addComps_nodup (s : Char) (t : Tree) (fresh : Nat) (branch : List Str) (attrs : Attrs)
    (r : Tree × Addr × Nat) (hs : SibUnique t) (hf : SepFree s t) (hb : ∀ x ∈ branch, s ∉ x)
    (h : addComps [s] false t fresh branch attrs = .ok r) :
    addComps [s] true t fresh branch attrs = .ok r ∧ ((names t).Nodup → (names r.1).Nodup) := by
  unfold addComps at h ⊢
  cases branch with
  | nil => cases h
  | cons b0 rest =>
    simp only at h ⊢
    split at h
    · cases h
    · rename_i hb0
      rw [if_neg hb0]
      have hb0' : b0 = t.name := by simpa using hb0
      cases hl : insertLoop [s] false attrs rest [b0] t [] fresh with
      | error e => rw [hl] at h; cases h
      | ok r1 =>
        obtain ⟨t1, ad1, fr1⟩ := r1
        rw [hl] at h
        simp only [Except.ok.injEq] at h
        subst h
        obtain ⟨h1, h2⟩ := insertLoop_nodup s attrs rest [b0] t [] fresh t (t1, ad1, fr1) hs rfl
          (by simp [hb0']) hf (fun x hx => hb x (List.mem_cons_of_mem _ hx)) hl
        rw [h1]
        refine ⟨rfl, fun hnd => ?_⟩
        simp only
        rw [names_modifyAt_same _ (setAttrs_name attrs) (setAttrs_children attrs)]
        exact h2 hnd

end Paths
