import Mathlib.Data.List.Nodup
import Mathlib.Data.List.Perm.Basic
import BigtreeModel.Relation
import BigtreeProofs.Lemmas.PathsAddr
import BigtreeProofs.Lemmas.PathsSet
import BigtreeProofs.Lemmas.Nested
import BigtreeProofs.Lemmas.RelationBuild
/-!
# `*_by_relation` on the edge list of a tree, rows in any order (C13)

`T` is a tree whose non-leaf names are carried by no other node (`NonLeafUnique`), with
pairwise different sibling names and non-empty names; `rows` is any permutation of `edges T`.
-/

namespace Rel
open Paths

/-- the row of child `c` under parent `p` -/
def rowOf (p c : Tree) : Row := ⟨c.name, some p.name, c.attrs⟩

@[simp] theorem edgesAll_nil : edgesAll [] = [] := by simp [edgesAll]
@[simp] theorem edgesAll_cons (c cs) : edgesAll (c :: cs) = edges c ++ edgesAll cs := by simp [edgesAll]

theorem edges_eq (t : Tree) : edges t = t.children.map (rowOf t) ++ edgesAll t.children := by
  cases t; simp [edges, rowOf]

theorem mem_edgesAll {r : Row} {cs : List Tree} : r ∈ edgesAll cs ↔ ∃ c ∈ cs, r ∈ edges c := by
  induction cs with
  | nil => simp
  | cons c cs ih => simp [ih]

/-- the rows of a tree are exactly the (parent, child) pairs along its addresses -/
theorem mem_edges_addr : ∀ (t : Tree) (r : Row),
    r ∈ edges t ↔ ∃ (a : Addr) (p : Tree) (k : Nat) (d : Tree),
      nodeAt a t = some p ∧ p.children[k]? = some d ∧ r = rowOf p d := by
  intro t
  induction t using Tree.ind with
  | h i n at' cs ih =>
    intro r
    rw [edges_eq, List.mem_append, mem_edgesAll]
    simp only [Tree.children_node, List.mem_map]
    constructor
    · rintro (⟨d, hd, rfl⟩ | ⟨c, hc, hr⟩)
      · obtain ⟨k, hk, rfl⟩ := List.getElem_of_mem hd
        exact ⟨[], _, k, cs[k], rfl, by simp [List.getElem?_eq_getElem hk], rfl⟩
      · obtain ⟨a, p, k, d, hp, hd, rfl⟩ := (ih c hc r).mp hr
        obtain ⟨j, hj, rfl⟩ := List.getElem_of_mem hc
        exact ⟨j :: a, p, k, d, by rw [nodeAt_cons]; simp [List.getElem?_eq_getElem hj, hp], hd, rfl⟩
    · rintro ⟨a, p, k, d, hp, hd, rfl⟩
      cases a with
      | nil =>
        simp at hp; subst hp
        exact .inl ⟨d, List.mem_of_getElem? (by simpa using hd), rfl⟩
      | cons j ks =>
        rw [nodeAt_cons] at hp
        cases hj : (Tree.node i n at' cs).children[j]? with
        | none => rw [hj] at hp; cases hp
        | some c =>
          rw [hj] at hp
          have hc : c ∈ cs := List.mem_of_getElem? (by simpa using hj)
          exact .inr ⟨c, hc, (ih c hc _).mpr ⟨ks, p, k, d, hp, hd, rfl⟩⟩

/-- the name of a node that has children is carried by no other node -/
def NonLeafUnique (t : Tree) : Prop :=
  ∀ (a b : Addr) (na nb : Tree), nodeAt a t = some na → nodeAt b t = some nb →
    na.children ≠ [] → na.name = nb.name → a = b

theorem NonLeafUnique.child {t c : Tree} {k : Nat} (h : NonLeafUnique t) (hk : t.children[k]? = some c) :
    NonLeafUnique c := by
  intro a b na nb ha hb hne hn
  have := h (k :: a) (k :: b) na nb (by rw [nodeAt_cons]; simp [hk, ha]) (by rw [nodeAt_cons]; simp [hk, hb]) hne hn
  injection this

theorem filter_edgesAll_single (P : Row → Bool) : ∀ (kids : List Tree) (k : Nat) (c : Tree),
    kids[k]? = some c →
    (∀ (j : Nat) (c' : Tree), j ≠ k → kids[j]? = some c' → (edges c').filter P = []) →
    (edgesAll kids).filter P = (edges c).filter P := by
  intro kids
  induction kids with
  | nil => intro k c h; simp at h
  | cons x xs ih =>
    intro k c hk hother
    rw [edgesAll_cons, List.filter_append]
    cases k with
    | zero =>
      simp at hk; subst hk
      have : (edgesAll xs).filter P = [] := by
        rw [List.filter_eq_nil_iff]
        intro r hr
        rw [mem_edgesAll] at hr
        obtain ⟨c', hc', hr'⟩ := hr
        obtain ⟨j, hj, rfl⟩ := List.getElem_of_mem hc'
        have := hother (j + 1) xs[j] (by omega) (by simp [List.getElem?_eq_getElem hj])
        rw [List.filter_eq_nil_iff] at this
        exact this r hr'
      rw [this, List.append_nil]
    | succ k =>
      have h0 := hother 0 x (by omega) (by simp)
      rw [h0, List.nil_append]
      exact ih k c (by simpa using hk) (fun j c' hj hc' => hother (j + 1) c' (by omega) (by simpa using hc'))

/-- the rows naming the node at `a` as parent are exactly its children's rows, in order -/
theorem filter_edges_parent (a : Addr) : ∀ (t s : Tree), NonLeafUnique t → nodeAt a t = some s →
    (edges t).filter (fun r => r.parent = some s.name) = s.children.map (rowOf s) := by
  induction a with
  | nil =>
    intro t s hu hs
    simp at hs; subst hs
    rw [edges_eq, List.filter_append]
    have h1 : (t.children.map (rowOf t)).filter (fun r => r.parent = some t.name) = t.children.map (rowOf t) := by
      rw [List.filter_eq_self]
      intro r hr
      rw [List.mem_map] at hr
      obtain ⟨d, _, rfl⟩ := hr
      simp [rowOf]
    have h2 : (edgesAll t.children).filter (fun r => r.parent = some t.name) = [] := by
      rw [List.filter_eq_nil_iff]
      intro r hr
      rw [mem_edgesAll] at hr
      obtain ⟨c, hc, hr'⟩ := hr
      obtain ⟨j, hj, rfl⟩ := List.getElem_of_mem hc
      obtain ⟨b, p, k, d, hp, hd, rfl⟩ := (mem_edges_addr _ _).mp hr'
      simp only [rowOf, decide_eq_true_eq, Option.some.injEq]
      intro hn
      have := hu (j :: b) [] p t (by rw [nodeAt_cons]; simp [List.getElem?_eq_getElem hj, hp]) rfl
        (by intro e; rw [e] at hd; simp at hd) hn
      cases this
    rw [h1, h2, List.append_nil]
  | cons k ks ih =>
    intro t s hu hs
    rw [nodeAt_cons] at hs
    cases hk : t.children[k]? with
    | none => rw [hk] at hs; cases hs
    | some c =>
      rw [hk] at hs
      simp only [Option.bind] at hs
      rw [edges_eq, List.filter_append]
      have h1 : (t.children.map (rowOf t)).filter (fun r => r.parent = some s.name) = [] := by
        rw [List.filter_eq_nil_iff]
        intro r hr
        rw [List.mem_map] at hr
        obtain ⟨d, _, rfl⟩ := hr
        simp only [rowOf, decide_eq_true_eq, Option.some.injEq]
        intro hn
        have := hu [] (k :: ks) t s rfl (by rw [nodeAt_cons]; simp [hk, hs])
          (by intro e; rw [e] at hk; simp at hk) hn
        cases this
      rw [h1, List.nil_append, filter_edgesAll_single _ t.children k c hk, ih c s (hu.child hk) hs]
      intro j c' hj hc'
      rw [List.filter_eq_nil_iff]
      intro r hr
      obtain ⟨b, p, k', d, hp, hd, rfl⟩ := (mem_edges_addr _ _).mp hr
      simp only [rowOf, decide_eq_true_eq, Option.some.injEq]
      intro hn
      have := hu (j :: b) (k :: ks) p s (by rw [nodeAt_cons]; simp [hc', hp]) (by rw [nodeAt_cons]; simp [hk, hs])
        (by intro e; rw [e] at hd; simp at hd) hn
      injection this with h1 _
      exact hj h1

end Rel

namespace Rel
open Paths

/-! ## what `build` returns -/

/-- children list built for `x` (empty on refusal) -/
def buildOk (rows : List Row) (f : Nat) (x : Str) : List Tree :=
  match build rows f x with
  | .ok cs => cs
  | .error _ => []

/-- the node created for a row -/
def mkNode (rows : List Row) (f : Nat) (r : Row) : Tree :=
  .node 0 r.child (rowAttrs r) (buildOk rows f r.child)

/-- the function `build` maps over the selected rows -/
def stepFn (rows : List Row) (f : Nat) (r : Row) : Except Err Tree :=
  if r.child = [] then .error .tree
  else
    match build rows f r.child with
    | .error e => .error e
    | .ok cs => .ok (.node 0 r.child (rowAttrs r) cs)

theorem build_succ (rows : List Row) (f : Nat) (x : Str) :
    build rows (f + 1) x =
      match mapE (stepFn rows f) (rows.filter fun r => r.parent = some x) with
      | .error e => .error e
      | .ok cs => if namesNodup cs then .ok cs else .error .tree := by
  simp only [build]; rfl

theorem stepFn_ok (rows : List Row) (f : Nat) (r : Row) (t : Tree) :
    stepFn rows f r = .ok t ↔ r.child ≠ [] ∧ (∃ cs, build rows f r.child = .ok cs) ∧ t = mkNode rows f r := by
  unfold stepFn mkNode buildOk
  by_cases hc : r.child = []
  · simp [hc]
  · simp only [hc, if_false, ne_eq, not_false_eq_true, true_and]
    cases hb : build rows f r.child with
    | error e => simp
    | ok cs => simp [eq_comm]

theorem forall2_stepFn (rows : List Row) (f : Nat) (l : List Row) (ts : List Tree) :
    List.Forall₂ (fun r t => stepFn rows f r = .ok t) l ts ↔
      (∀ r ∈ l, r.child ≠ [] ∧ ∃ cs, build rows f r.child = .ok cs) ∧ ts = l.map (mkNode rows f) := by
  induction l generalizing ts with
  | nil =>
    constructor
    · intro h; cases h; simp
    · rintro ⟨_, rfl⟩; exact .nil
  | cons r rs ih =>
    constructor
    · intro h
      cases h with
      | cons h1 h2 =>
        obtain ⟨a1, a2, a3⟩ := (stepFn_ok rows f r _).mp h1
        obtain ⟨b1, b2⟩ := (ih _).mp h2
        refine ⟨?_, by simp [a3, b2]⟩
        intro r' hr'
        rcases List.mem_cons.mp hr' with rfl | hr'
        · exact ⟨a1, a2⟩
        · exact b1 r' hr'
    · rintro ⟨h1, rfl⟩
      simp only [List.map_cons]
      refine .cons ((stepFn_ok rows f r _).mpr ⟨(h1 r (by simp)).1, (h1 r (by simp)).2, rfl⟩) ?_
      exact (ih _).mpr ⟨fun r' hr' => h1 r' (List.mem_cons_of_mem _ hr'), rfl⟩

/-- `build` succeeds exactly when every selected row has a non-empty child whose own build
    succeeds and the created sibling names are pairwise different; the result is then the list
    of created nodes in row order -/
theorem build_succ_ok (rows : List Row) (f : Nat) (x : Str) (cs : List Tree) :
    build rows (f + 1) x = .ok cs ↔
      (∀ r ∈ rows.filter (fun r => r.parent = some x), r.child ≠ [] ∧ ∃ cs', build rows f r.child = .ok cs') ∧
      cs = (rows.filter fun r => r.parent = some x).map (mkNode rows f) ∧ namesNodup cs = true := by
  rw [build_succ]
  constructor
  · intro h
    cases hm : mapE (stepFn rows f) (rows.filter fun r => r.parent = some x) with
    | error e => rw [hm] at h; cases h
    | ok ts =>
      rw [hm] at h
      simp only at h
      split at h
      · rename_i hn
        simp only [Except.ok.injEq] at h
        subst h
        obtain ⟨h1, h2⟩ := (forall2_stepFn rows f _ _).mp ((mapE_ok_iff _ _ _).mp hm)
        exact ⟨h1, h2, hn⟩
      · cases h
  · rintro ⟨h1, h2, h3⟩
    have := (mapE_ok_iff _ _ _).mpr ((forall2_stepFn rows f _ cs).mpr ⟨h1, h2⟩)
    rw [this]
    simp [h3]

/-- the children of `n` are the rows naming `n` as parent, in row order, with their non-null cells -/
def ChildSpec (rows : List Row) (n : Tree) : Prop :=
  n.children.map (fun c => (c.name, c.attrs)) =
    (rows.filter fun r => r.parent = some n.name).map (fun r => (r.child, rowAttrs r))

theorem build_spec (rows : List Row) : ∀ (f : Nat) (x : Str) (cs : List Tree), build rows f x = .ok cs →
    cs.map (fun c => (c.name, c.attrs)) =
      (rows.filter fun r => r.parent = some x).map (fun r => (r.child, rowAttrs r)) ∧
    ∀ c ∈ cs, ∀ a n, nodeAt a c = some n → ChildSpec rows n := by
  intro f
  induction f with
  | zero => intro x cs h; simp [build] at h
  | succ f ih =>
    intro x cs h
    obtain ⟨h1, h2, _⟩ := (build_succ_ok rows f x cs).mp h
    subst h2
    constructor
    · rw [List.map_map]; rfl
    · intro c hc a n hn
      rw [List.mem_map] at hc
      obtain ⟨r, hr, rfl⟩ := hc
      obtain ⟨_, cs', hcs'⟩ := h1 r hr
      obtain ⟨i1, i2⟩ := ih r.child cs' hcs'
      have hch : (mkNode rows f r).children = cs' := by simp [mkNode, buildOk, hcs']
      cases a with
      | nil =>
        simp at hn; subst hn
        unfold ChildSpec
        rw [hch]; exact i1
      | cons k ks =>
        rw [nodeAt_cons, hch] at hn
        cases hk : cs'[k]? with
        | none => rw [hk] at hn; cases hn
        | some d =>
          rw [hk] at hn
          exact i2 d (List.mem_of_getElem? hk) ks n hn

/-! ## height, size -/

mutual
def height : Tree → Nat
  | .node _ _ _ cs => 1 + heightL cs
def heightL : List Tree → Nat
  | [] => 0
  | c :: cs => max (height c) (heightL cs)
end

theorem height_eq (t : Tree) : height t = 1 + heightL t.children := by cases t; simp [height]

theorem height_le_of_mem {c : Tree} {cs : List Tree} (h : c ∈ cs) : height c ≤ heightL cs := by
  induction cs with
  | nil => cases h
  | cons x xs ih =>
    simp only [heightL]
    rcases List.mem_cons.mp h with rfl | h
    · omega
    · have := ih h; omega

theorem height_le_edges : ∀ (t : Tree), height t ≤ (edges t).length + 1 := by
  intro t
  induction t using Tree.ind with
  | h i n a cs ih =>
    rw [height_eq, edges_eq]
    simp only [Tree.children_node, List.length_append, List.length_map]
    have : heightL cs ≤ cs.length + (edgesAll cs).length := by
      clear i n a
      induction cs with
      | nil => simp [heightL]
      | cons c cs ihc =>
        simp only [heightL, List.length_cons, edgesAll_cons, List.length_append]
        have h1 := ih c (by simp)
        have h2 := ihc (fun d hd => ih d (List.mem_cons_of_mem _ hd))
        omega
    omega

end Rel

namespace Rel
open Paths

theorem edgesAll_eq_flatMap (cs : List Tree) : edgesAll cs = cs.flatMap edges := by
  induction cs with
  | nil => simp
  | cons c cs ih => simp [ih]

/-- `edges` does not look at the root's id and attributes -/
theorem edges_congr (i j : Nat) (n : Str) (a b : Attrs) (cs : List Tree) :
    edges (.node i n a cs) = edges (.node j n b cs) := by
  simp [edges]

theorem norm_rowOf_eq (r : Row) (n : Str) (h : r.parent = some n) :
    (⟨r.child, some n, rowAttrs r⟩ : Row) = norm r := by
  cases r; simp_all [norm, rowAttrs]

/-- On a sub-tree all of whose nodes find exactly their children's rows among `rows` (in some
    order), the recursive descent succeeds with fuel ≥ height and rebuilds exactly the edges. -/
theorem build_tree (rows : List Row) : ∀ (s : Tree),
    (∀ b n, nodeAt b s = some n →
      (rows.filter fun r => r.parent = some n.name).Perm (n.children.map (rowOf n))) →
    SibUnique s → (∀ b n, nodeAt b s = some n → n.name ≠ []) →
    ∀ f, height s ≤ f →
      ∃ cs, build rows f s.name = .ok cs ∧ (edges (.node 0 s.name [] cs)).Perm ((edges s).map norm) := by
  intro s
  induction s using Tree.ind with
  | h i n at' kids ih =>
    intro hyp hsu hne f hf
    rw [height_eq] at hf
    simp only [Tree.children_node] at hf
    obtain ⟨f', rfl⟩ : ∃ f', f = f' + 1 := ⟨f - 1, by omega⟩
    have hperm := hyp [] _ rfl
    simp only [Tree.name_node, Tree.children_node] at hperm
    -- every kid rebuilds
    have hkid : ∀ c ∈ kids, ∃ cs, build rows f' c.name = .ok cs ∧
        (edges (.node 0 c.name [] cs)).Perm ((edges c).map norm) := by
      intro c hc
      obtain ⟨k, hk, rfl⟩ := List.getElem_of_mem hc
      have hk' : (Tree.node i n at' kids).children[k]? = some kids[k] := by
        simp [List.getElem?_eq_getElem hk]
      apply ih kids[k] hc
      · intro b m hm
        exact hyp (k :: b) m (by rw [nodeAt_cons, hk']; exact hm)
      · exact hsu.child hk'
      · intro b m hm
        exact hne (k :: b) m (by rw [nodeAt_cons, hk']; exact hm)
      · have := height_le_of_mem hc; omega
    have hrow : ∀ r ∈ rows.filter (fun r => r.parent = some n), ∃ c ∈ kids, r = rowOf (.node i n at' kids) c := by
      intro r hr
      have := (hperm.mem_iff).mp hr
      rw [List.mem_map] at this
      obtain ⟨c, hc, rfl⟩ := this
      exact ⟨c, hc, rfl⟩
    have hbuild : build rows (f' + 1) n = .ok ((rows.filter fun r => r.parent = some n).map (mkNode rows f')) := by
      rw [build_succ_ok]
      refine ⟨?_, rfl, ?_⟩
      · intro r hr
        obtain ⟨c, hc, rfl⟩ := hrow r hr
        obtain ⟨cs, hcs, _⟩ := hkid c hc
        refine ⟨?_, cs, hcs⟩
        obtain ⟨k, hk, rfl⟩ := List.getElem_of_mem hc
        exact hne [k] kids[k] (by rw [nodeAt_cons]; simp [List.getElem?_eq_getElem hk])
      · rw [namesNodup_iff, List.map_map]
        have h1 : ((rows.filter fun r => r.parent = some n).map (Tree.name ∘ mkNode rows f')).Perm
            ((kids.map (rowOf (.node i n at' kids))).map (Tree.name ∘ mkNode rows f')) := hperm.map _
        rw [h1.nodup_iff, List.map_map]
        have : (kids.map ((Tree.name ∘ mkNode rows f') ∘ rowOf (.node i n at' kids))) = kids.map Tree.name := by
          apply List.map_congr_left; intro c _; rfl
        rw [this]
        exact ((sibUnique_iff _).mp hsu).1
    refine ⟨_, hbuild, ?_⟩
    rw [edges_eq, edges_eq (.node i n at' kids)]
    simp only [Tree.children_node, Tree.name_node, List.map_append, List.map_map]
    apply List.Perm.append
    · -- the rows of the kids themselves
      have h1 : (rows.filter fun r => r.parent = some n).map
            (rowOf (.node 0 n [] ((rows.filter fun r => r.parent = some n).map (mkNode rows f'))) ∘ mkNode rows f')
          = (rows.filter fun r => r.parent = some n).map norm := by
        apply List.map_congr_left
        intro r hr
        have hp : r.parent = some n := by simpa using (List.mem_filter.mp hr).2
        exact norm_rowOf_eq r n hp
      rw [h1]
      have := hperm.map norm
      rwa [List.map_map] at this
    · -- the rows below the kids
      rw [edgesAll_eq_flatMap, edgesAll_eq_flatMap, List.flatMap_map, List.map_flatMap]
      refine (List.Perm.flatMap_right _ hperm).trans ?_
      rw [List.flatMap_map]
      apply List.Perm.flatMap_left
      intro c hc
      obtain ⟨cs, hcs, hp⟩ := hkid c hc
      have : edges (mkNode rows f' (rowOf (.node i n at' kids) c)) = edges (.node 0 c.name [] cs) := by
        simp only [mkNode, rowOf, buildOk, hcs]
        exact edges_congr _ _ _ _ _ _
      rw [this]
      exact hp

end Rel

namespace Rel
open Paths

theorem exists_ne_of_nodup_length {α} (l : List α) (hn : l.Nodup) (hl : l.length > 1) :
    ∃ x ∈ l, ∃ y ∈ l, x ≠ y := by
  cases l with
  | nil => simp at hl
  | cons x xs =>
    cases xs with
    | nil => simp at hl
    | cons y ys =>
      simp only [List.nodup_cons, List.mem_cons] at hn
      exact ⟨x, by simp, y, by simp, fun e => hn.1 (.inl e)⟩

theorem nodeAt_snoc (a : Addr) (k : Nat) (t p : Tree) (h : nodeAt (a ++ [k]) t = some p) :
    ∃ p', nodeAt a t = some p' ∧ p'.children[k]? = some p := by
  rw [nodeAt_append] at h
  cases hp : nodeAt a t with
  | none => rw [hp] at h; cases h
  | some p' =>
    rw [hp] at h
    simp only [Option.bind, nodeAt_cons] at h
    cases hk : p'.children[k]? with
    | none => rw [hk] at h; cases h
    | some d => rw [hk] at h; simp at h; subst h; exact ⟨p', rfl, hk⟩

/-- everything about the relation constructors on a shuffled edge list of a tree -/
theorem relToTree_tree (T : Tree) (hsu : SibUnique T) (hu : NonLeafUnique T)
    (hne : ∀ b n, nodeAt b T = some n → n.name ≠ []) (rows : List Row)
    (hperm : rows.Perm (edges T)) (hrows : rows ≠ []) (allowDup : Bool) :
    rootNames rows = [T.name] ∧
    ∃ cs, relToTree allowDup rows = .ok (.node 0 T.name [] cs) ∧
      (edges (.node 0 T.name [] cs)).Perm (rows.map norm) ∧
      ∀ a n, nodeAt a (.node 0 T.name [] cs) = some n → ChildSpec rows n := by
  have hmem : ∀ r, r ∈ rows ↔ ∃ (a : Addr) (p : Tree) (k : Nat) (d : Tree),
      nodeAt a T = some p ∧ p.children[k]? = some d ∧ r = rowOf p d := by
    intro r; rw [hperm.mem_iff, mem_edges_addr]
  -- the root has children
  have hTne : T.children ≠ [] := by
    obtain ⟨r, hr⟩ := List.exists_mem_of_ne_nil rows hrows
    obtain ⟨a, p, k, d, hp, hd, _⟩ := (hmem r).mp hr
    cases a with
    | nil => simp at hp; subst hp; intro e; rw [e] at hd; simp at hd
    | cons j ks =>
      rw [nodeAt_cons] at hp
      intro e; rw [e] at hp; simp at hp
  -- no row names the root as a child
  have hnoroot : ∀ r ∈ rows, r.child ≠ T.name := by
    intro r hr hc
    obtain ⟨a, p, k, d, hp, hd, rfl⟩ := (hmem r).mp hr
    have hd' : nodeAt (a ++ [k]) T = some d := by rw [nodeAt_append, hp]; simp [nodeAt_cons, hd]
    have := hu [] (a ++ [k]) T d rfl hd' hTne (by simpa [rowOf] using hc.symm)
    simp at this
  have hparent : ∀ r ∈ rows, ∃ x, r.parent = some x := by
    intro r hr
    obtain ⟨a, p, k, d, _, _, rfl⟩ := (hmem r).mp hr
    exact ⟨p.name, rfl⟩
  -- root inference
  have hroot : rootNames rows = [T.name] := by
    unfold rootNames
    have hA : (rows.filter fun r => r.parent.isNone) = [] := by
      rw [List.filter_eq_nil_iff]
      intro r hr
      obtain ⟨x, hx⟩ := hparent r hr
      simp [hx]
    rw [hA, List.map_nil, List.nil_append]
    apply dedupBy_eq_single
    · obtain ⟨d0, hd0⟩ : ∃ d0, T.children[0]? = some d0 := by
        cases hc : T.children with
        | nil => exact absurd hc hTne
        | cons x xs => exact ⟨x, rfl⟩
      have hr0 : rowOf T d0 ∈ rows := (hmem _).mpr ⟨[], T, 0, d0, rfl, hd0, rfl⟩
      intro e
      have : T.name ∈ (rows.filterMap (·.parent)).filter fun p => !(rows.any fun r => r.child = p) := by
        rw [List.mem_filter]
        refine ⟨List.mem_filterMap.mpr ⟨_, hr0, rfl⟩, ?_⟩
        simp only [Bool.not_eq_true', List.any_eq_false, decide_eq_true_eq]
        exact fun r hr => hnoroot r hr
      rw [e] at this; cases this
    · intro y hy
      rw [List.mem_filter, List.mem_filterMap] at hy
      obtain ⟨⟨r, hr, hry⟩, hnc⟩ := hy
      simp only [Bool.not_eq_true', List.any_eq_false, decide_eq_true_eq] at hnc
      obtain ⟨a, p, k, d, hp, hd, rfl⟩ := (hmem r).mp hr
      simp only [rowOf, Option.some.injEq] at hry
      subst hry
      by_cases ha : a = []
      · subst ha; simp at hp; rw [hp]
      · obtain ⟨a', j, rfl⟩ : ∃ a' j, a = a' ++ [j] :=
          ⟨a.dropLast, a.getLast ha, (List.dropLast_append_getLast ha).symm⟩
        obtain ⟨p', hp', hj⟩ := nodeAt_snoc a' j T p hp
        have : rowOf p' p ∈ rows := (hmem _).mpr ⟨a', p', j, p, hp', hj, rfl⟩
        exact absurd rfl (hnc _ this)
  -- no ambiguous repeated non-leaf child
  have hdup : dupChildren rows = false := by
    cases hd : dupChildren rows with
    | false => rfl
    | true =>
      exfalso
      unfold dupChildren at hd
      simp only [List.any_eq_true, decide_eq_true_eq] at hd
      obtain ⟨q, hq, hlen⟩ := hd
      have hnd : ((((dedupBy (rows.map fun r => (r.child, r.parent))).filter fun p =>
          (dedupBy (rows.map fun r => (r.child, r.parent))).any fun q => q.2 = some p.1)).filter
            fun q' => q'.1 = q.1).Nodup := ((nodup_dedupBy _).filter _).filter _
      obtain ⟨x, hx, y, hy, hxy⟩ := exists_ne_of_nodup_length _ hnd hlen
      simp only [List.mem_filter, mem_dedupBy, List.mem_map, List.any_eq_true, decide_eq_true_eq] at hx hy
      obtain ⟨⟨⟨r1, hr1, rfl⟩, ⟨q3, ⟨r3, hr3, rfl⟩, h3⟩⟩, hx1⟩ := hx
      obtain ⟨⟨⟨r2, hr2, rfl⟩, _⟩, hy1⟩ := hy
      simp only at h3 hx1 hy1
      obtain ⟨a1, p1, k1, d1, hp1, hd1, rfl⟩ := (hmem r1).mp hr1
      obtain ⟨a2, p2, k2, d2, hp2, hd2, rfl⟩ := (hmem r2).mp hr2
      obtain ⟨a3, p3, k3, d3, hp3, hd3, rfl⟩ := (hmem r3).mp hr3
      simp only [rowOf, Option.some.injEq] at h3 hx1 hy1 hxy
      have hd1' : nodeAt (a1 ++ [k1]) T = some d1 := by rw [nodeAt_append, hp1]; simp [nodeAt_cons, hd1]
      have hd2' : nodeAt (a2 ++ [k2]) T = some d2 := by rw [nodeAt_append, hp2]; simp [nodeAt_cons, hd2]
      have hp3ne : p3.children ≠ [] := by intro e; rw [e] at hd3; simp at hd3
      have e1 := hu a3 (a1 ++ [k1]) p3 d1 hp3 hd1' hp3ne h3
      have e2 := hu a3 (a2 ++ [k2]) p3 d2 hp3 hd2' hp3ne (h3.trans (hx1.trans hy1.symm))
      have e3 : a1 = a2 := List.append_inj_left' (e1.symm.trans e2) rfl
      subst e3
      rw [hp1] at hp2
      injection hp2 with hp2
      subst hp2
      exact hxy (by rw [hx1, hy1])
  -- the descent
  have hhyp : ∀ b n, nodeAt b T = some n →
      (rows.filter fun r => r.parent = some n.name).Perm (n.children.map (rowOf n)) := by
    intro b n hn
    have := hperm.filter (fun r => r.parent = some n.name)
    rwa [filter_edges_parent b T n hu hn] at this
  have hh : height T ≤ rows.length + 1 := by
    have := height_le_edges T
    rw [← hperm.length_eq] at this
    exact this
  obtain ⟨cs, hcs, hpe⟩ := build_tree rows T hhyp hsu hne (rows.length + 1) hh
  refine ⟨hroot, cs, ?_, hpe.trans (hperm.symm.map norm), ?_⟩
  · unfold relToTree
    have he : rows.isEmpty = false := by cases rows <;> simp_all
    have hfind : rows.find? (fun r => r.child = T.name) = none := by
      rw [List.find?_eq_none]
      intro r hr
      simpa using hnoroot r hr
    have hTn : T.name ≠ [] := hne [] T rfl
    simp [he, hdup, hroot, hfind, hTn, hcs]
  · intro a n hn
    obtain ⟨s1, s2⟩ := build_spec rows _ _ cs hcs
    cases a with
    | nil => simp at hn; subst hn; exact s1
    | cons k ks =>
      rw [nodeAt_cons] at hn
      simp only [Tree.children_node] at hn
      cases hk : cs[k]? with
      | none => rw [hk] at hn; cases hn
      | some d => rw [hk] at hn; exact s2 d (List.mem_of_getElem? hk) ks n hn

end Rel

namespace Rel
open Paths

/-- executable sufficient check for `NonLeafUnique` (used for the non-vacuity examples) -/
def nonLeafUniqueB (t : Tree) : Bool :=
  (names t).all fun c =>
    decide ((findName c t).length ≤ 1) ||
      (findName c t).all fun a => match nodeAt a t with
        | some n => n.children.isEmpty
        | none => true

end Rel

namespace Rel
open Paths

/-- The same with an optional row `(root, no parent, cells)` anywhere among the rows: it only
    contributes the root's attributes. -/
theorem relToTree_tree_rootrow (T : Tree) (hsu : SibUnique T) (hu : NonLeafUnique T)
    (hne : ∀ b n, nodeAt b T = some n → n.name ≠ []) (cells : Attrs) (rows : List Row)
    (hperm : rows.Perm (⟨T.name, none, cells⟩ :: edges T)) (allowDup : Bool) :
    rootNames rows = [T.name] ∧
    ∃ cs, relToTree allowDup rows = .ok (.node 0 T.name (cells.filter fun kv => kv.2 ≠ .null) cs) ∧
      (edges (.node 0 T.name [] cs)).Perm ((edges T).map norm) ∧
      ∀ a n, nodeAt a (.node 0 T.name (cells.filter fun kv => kv.2 ≠ .null) cs) = some n → ChildSpec rows n := by
  have hmem : ∀ r, r ∈ rows ↔ r = ⟨T.name, none, cells⟩ ∨ ∃ (a : Addr) (p : Tree) (k : Nat) (d : Tree),
      nodeAt a T = some p ∧ p.children[k]? = some d ∧ r = rowOf p d := by
    intro r; rw [hperm.mem_iff, List.mem_cons, mem_edges_addr]
  have hrr : (⟨T.name, none, cells⟩ : Row) ∈ rows := (hmem _).mpr (.inl rfl)
  -- no edge row names the root as a child
  have hnoroot : ∀ (a : Addr) (p : Tree) (k : Nat) (d : Tree), nodeAt a T = some p → p.children[k]? = some d →
      d.name ≠ T.name := by
    intro a p k d hp hd hc
    have hTne : T.children ≠ [] := by
      cases a with
      | nil => simp at hp; subst hp; intro e; rw [e] at hd; simp at hd
      | cons j ks => rw [nodeAt_cons] at hp; intro e; rw [e] at hp; simp at hp
    have hd' : nodeAt (a ++ [k]) T = some d := by rw [nodeAt_append, hp]; simp [nodeAt_cons, hd]
    have := hu [] (a ++ [k]) T d rfl hd' hTne hc.symm
    simp at this
  -- root inference
  have hroot : rootNames rows = [T.name] := by
    unfold rootNames
    apply dedupBy_eq_single
    · intro e
      have : T.name ∈ (rows.filter fun r => r.parent.isNone).map (·.child) ++
          (rows.filterMap (·.parent)).filter fun p => !(rows.any fun r => r.child = p) := by
        rw [List.mem_append]; left
        exact List.mem_map.mpr ⟨_, List.mem_filter.mpr ⟨hrr, rfl⟩, rfl⟩
      rw [e] at this; cases this
    · intro y hy
      rw [List.mem_append] at hy
      rcases hy with hy | hy
      · rw [List.mem_map] at hy
        obtain ⟨r, hr, rfl⟩ := hy
        rw [List.mem_filter] at hr
        rcases (hmem r).mp hr.1 with rfl | ⟨a, p, k, d, _, _, rfl⟩
        · rfl
        · simp [rowOf] at hr
      · rw [List.mem_filter, List.mem_filterMap] at hy
        obtain ⟨⟨r, hr, hry⟩, hnc⟩ := hy
        simp only [Bool.not_eq_true', List.any_eq_false, decide_eq_true_eq] at hnc
        rcases (hmem r).mp hr with rfl | ⟨a, p, k, d, hp, hd, rfl⟩
        · cases hry
        · simp only [rowOf, Option.some.injEq] at hry
          subst hry
          by_cases ha : a = []
          · subst ha; simp at hp; rw [hp]
          · obtain ⟨a', j, rfl⟩ : ∃ a' j, a = a' ++ [j] :=
              ⟨a.dropLast, a.getLast ha, (List.dropLast_append_getLast ha).symm⟩
            obtain ⟨p', hp', hj⟩ := nodeAt_snoc a' j T p hp
            have : rowOf p' p ∈ rows := (hmem _).mpr (.inr ⟨a', p', j, p, hp', hj, rfl⟩)
            exact absurd rfl (hnc _ this)
  -- no ambiguous repeated non-leaf child
  have hdup : dupChildren rows = false := by
    cases hd : dupChildren rows with
    | false => rfl
    | true =>
      exfalso
      unfold dupChildren at hd
      simp only [List.any_eq_true, decide_eq_true_eq] at hd
      obtain ⟨q, hq, hlen⟩ := hd
      have hnd : ((((dedupBy (rows.map fun r => (r.child, r.parent))).filter fun p =>
          (dedupBy (rows.map fun r => (r.child, r.parent))).any fun q => q.2 = some p.1)).filter
            fun q' => q'.1 = q.1).Nodup := ((nodup_dedupBy _).filter _).filter _
      obtain ⟨x, hx, y, hy, hxy⟩ := exists_ne_of_nodup_length _ hnd hlen
      simp only [List.mem_filter, mem_dedupBy, List.mem_map, List.any_eq_true, decide_eq_true_eq] at hx hy
      obtain ⟨⟨⟨r1, hr1, rfl⟩, ⟨q3, ⟨r3, hr3, rfl⟩, h3⟩⟩, hx1⟩ := hx
      obtain ⟨⟨⟨r2, hr2, rfl⟩, _⟩, hy1⟩ := hy
      simp only at h3 hx1 hy1
      -- the row naming `r1.child` as parent is an edge row
      rcases (hmem r3).mp hr3 with rfl | ⟨a3, p3, k3, d3, hp3, hd3, rfl⟩
      · cases h3
      · simp only [rowOf, Option.some.injEq] at h3
        have hp3ne : p3.children ≠ [] := by intro e; rw [e] at hd3; simp at hd3
        -- where can a row with child `p3.name` come from?
        have key : ∀ r ∈ rows, r.child = p3.name →
            (r = ⟨T.name, none, cells⟩ ∧ a3 = []) ∨
            (∃ (a : Addr) (p : Tree) (k : Nat) (d : Tree), nodeAt a T = some p ∧ p.children[k]? = some d ∧
              r = rowOf p d ∧ a3 = a ++ [k]) := by
          intro r hr hc
          rcases (hmem r).mp hr with rfl | ⟨a, p, k, d, hp, hd, rfl⟩
          · left
            refine ⟨rfl, ?_⟩
            exact hu a3 [] p3 T hp3 rfl hp3ne (by simpa using hc.symm)
          · right
            have hd' : nodeAt (a ++ [k]) T = some d := by rw [nodeAt_append, hp]; simp [nodeAt_cons, hd]
            exact ⟨a, p, k, d, hp, hd, rfl, hu a3 (a ++ [k]) p3 d hp3 hd' hp3ne (by simpa [rowOf] using hc.symm)⟩
        have k1 := key r1 hr1 h3.symm
        have k2 := key r2 hr2 ((hy1.trans hx1.symm).trans h3.symm)
        apply hxy
        rcases k1 with ⟨e1, ea1⟩ | ⟨a1, p1, j1, d1, hp1, hd1, e1, ea1⟩ <;>
          rcases k2 with ⟨e2, ea2⟩ | ⟨a2, p2, j2, d2, hp2, hd2, e2, ea2⟩
        · rw [e1, e2]
        · rw [ea1] at ea2; simp at ea2
        · rw [ea2] at ea1; simp at ea1
        · have e3 : a1 = a2 := List.append_inj_left' (ea1.symm.trans ea2) rfl
          have e4 : j1 = j2 := by
            have := List.append_inj_right' (ea1.symm.trans ea2) rfl
            simpa using this
          subst e3; subst e4
          rw [hp1] at hp2; injection hp2 with hp2; subst hp2
          rw [hd1] at hd2; injection hd2 with hd2; subst hd2
          rw [e1, e2]
  -- the descent
  have hhyp : ∀ b n, nodeAt b T = some n →
      (rows.filter fun r => r.parent = some n.name).Perm (n.children.map (rowOf n)) := by
    intro b n hn
    have := hperm.filter (fun r => r.parent = some n.name)
    rw [List.filter_cons_of_neg (by simp)] at this
    rwa [filter_edges_parent b T n hu hn] at this
  have hh : height T ≤ rows.length + 1 := by
    have := height_le_edges T
    rw [hperm.length_eq]
    simp only [List.length_cons]
    omega
  obtain ⟨cs, hcs, hpe⟩ := build_tree rows T hhyp hsu hne (rows.length + 1) hh
  refine ⟨hroot, cs, ?_, hpe, ?_⟩
  · unfold relToTree
    have he : rows.isEmpty = false := by
      cases hr : rows with
      | nil => rw [hr] at hrr; cases hrr
      | cons _ _ => rfl
    have hfind : rows.find? (fun r => r.child = T.name) = some ⟨T.name, none, cells⟩ := by
      cases hf : rows.find? (fun r => r.child = T.name) with
      | none =>
        rw [List.find?_eq_none] at hf
        exact absurd (by simp) (hf _ hrr)
      | some r =>
        have h1 := List.mem_of_find?_eq_some hf
        have h2 := List.find?_some hf
        rcases (hmem r).mp h1 with rfl | ⟨a, p, k, d, hp, hd, rfl⟩
        · rfl
        · have h2' : d.name = T.name := of_decide_eq_true h2
          exact absurd h2' (hnoroot a p k d hp hd)
    have hTn : T.name ≠ [] := hne [] T rfl
    simp [he, hdup, hroot, hfind, hTn, hcs, rowAttrs]
  · intro a n hn
    obtain ⟨s1, s2⟩ := build_spec rows _ _ cs hcs
    cases a with
    | nil => simp at hn; subst hn; exact s1
    | cons k ks =>
      rw [nodeAt_cons] at hn
      simp only [Tree.children_node] at hn
      cases hk : cs[k]? with
      | none => rw [hk] at hn; cases hn
      | some d => rw [hk] at hn; exact s2 d (List.mem_of_getElem? hk) ks n hn

end Rel
