import BigtreeProofs.Lemmas.ModifyFrame
/-!
# C08 helper lemmas: nothing is invented, for EVERY flag combination

The *objects* of a tree are the pairs (identity, attributes) of its nodes, paths forgotten.  Every
primitive edit of the model yields a tree whose objects are objects of its inputs or carry an identity
taken from the fresh-id counter.  Consequently, after one `copy_or_shift_logic` pair — whatever the flags —
every node of the destination tree is either an object that existed before (same identity, same
attributes) or a new object whose identity lies in `[st.next, st'.next)`: no attribute of an existing node
changes, no second object with an old identity appears.  No hypothesis on the tree or the strings.
-/
namespace Modify

def objs (t : Tree) : List (Nat × Attrs) := (flat t).map (·.2)
def objsL (cs : List Tree) : List (Nat × Attrs) := (flatL cs).map (·.2)

theorem objs_node (i n a cs) : objs (.node i n a cs) = (i, a) :: objsL cs := by
  simp [objs, objsL, flat_node]

@[simp] theorem objsL_nil : objsL [] = [] := by simp [objsL]
theorem objsL_cons (c cs) : objsL (c :: cs) = objs c ++ objsL cs := by
  simp [objsL, objs, flatL_cons, pre, Function.comp_def]
theorem objsL_append (l r : List Tree) : objsL (l ++ r) = objsL l ++ objsL r := by
  simp [objsL, flatL_append]

theorem mem_objsL {cs : List Tree} {x : Nat × Attrs} : x ∈ objsL cs ↔ ∃ c ∈ cs, x ∈ objs c := by
  induction cs with
  | nil => simp
  | cons c cs ih => simp [objsL_cons, ih]

theorem objs_eq (t : Tree) : objs t = (t.id, t.attrs) :: objsL t.children := by
  cases t; simp [objs_node]

theorem objs_child {t c : Tree} (hc : c ∈ t.children) {x} (hx : x ∈ objs c) : x ∈ objs t := by
  rw [objs_eq]; exact List.mem_cons_of_mem _ (mem_objsL.2 ⟨c, hc, hx⟩)

/-! ### removals: every object of the result is an object of the input -/

theorem objsL_mapChild_sub (n : Str) (g : Tree → Tree) (hg : ∀ c, ∀ x ∈ objs (g c), x ∈ objs c) :
    ∀ cs, ∀ x ∈ objsL (mapChild n g cs), x ∈ objsL cs := by
  intro cs
  induction cs with
  | nil => simp [mapChild]
  | cons c cs ih =>
    intro x hx
    simp only [mapChild] at hx
    split at hx
    · rw [objsL_cons, List.mem_append] at hx ⊢
      exact hx.imp (hg c x) id
    · rw [objsL_cons, List.mem_append] at hx ⊢
      exact hx.imp id (ih x)

theorem objsL_eraseChild_sub (n : Str) : ∀ cs, ∀ x ∈ objsL (eraseChild n cs), x ∈ objsL cs := by
  intro cs
  induction cs with
  | nil => simp [eraseChild]
  | cons c cs ih =>
    intro x hx
    simp only [eraseChild] at hx
    split at hx
    · rw [objsL_cons, List.mem_append]; exact Or.inr hx
    · rw [objsL_cons, List.mem_append] at hx ⊢
      exact hx.imp id (ih x)

theorem objs_modifyAt_sub (g : Tree → Tree) (hg : ∀ c, ∀ x ∈ objs (g c), x ∈ objs c) :
    ∀ (p : List Str) (t : Tree), ∀ x ∈ objs (modifyAt p g t), x ∈ objs t := by
  intro p
  induction p with
  | nil => intro t; exact hg t
  | cons n ns ih =>
    intro t
    cases t with
    | node i nm a cs =>
      intro x hx
      simp only [modifyAt, objs_node, List.mem_cons] at hx ⊢
      exact hx.imp id (objsL_mapChild_sub n _ ih cs x)

theorem objs_removeAt_sub : ∀ (p : List Str) (t : Tree), ∀ x ∈ objs (removeAt p t), x ∈ objs t
  | [], t => by simp [removeAt]
  | [n], .node i nm a cs => by
    intro x hx
    simp only [removeAt, objs_node, List.mem_cons] at hx ⊢
    exact hx.imp id (objsL_eraseChild_sub n cs x)
  | n :: m :: ns, .node i nm a cs => by
    intro x hx
    simp only [removeAt, objs_node, List.mem_cons] at hx ⊢
    exact hx.imp id (objsL_mapChild_sub n _ (objs_removeAt_sub (m :: ns)) cs x)

theorem objs_removeAll_sub : ∀ (ps : List (List Str)) (t : Tree), ∀ x ∈ objs (removeAll ps t), x ∈ objs t
  | [], t => by simp [removeAll]
  | p :: ps, t => by
    intro x hx
    simp only [removeAll] at hx
    exact objs_removeAt_sub p t x (objs_removeAll_sub ps _ x hx)

theorem objs_setKids_nil (c : Tree) : ∀ x ∈ objs (setKids [] c), x ∈ objs c := by
  cases c with
  | node i n a cs => intro x hx; simp only [setKids, objs_node, objsL_nil, List.mem_singleton] at hx; simp [objs_node, hx]

/-! ### look-ups: the objects of a node found in a tree are objects of the tree -/

theorem findChild_mem {n : Str} {cs : List Tree} {c : Tree} (h : findChild n cs = some c) : c ∈ cs :=
  List.mem_of_find?_eq_some h

theorem objs_getRel : ∀ (p : List Str) (t X : Tree), getRel p t = some X → ∀ x ∈ objs X, x ∈ objs t
  | [], t, X, h => by simp only [getRel, Option.some.injEq] at h; subst h; exact fun x hx => hx
  | n :: ns, t, X, h => by
    simp only [getRel] at h
    cases hc : findChild n t.children with
    | none => simp [hc] at h
    | some c =>
      simp only [hc, Option.bind_some] at h
      intro x hx
      exact objs_child (findChild_mem hc) (objs_getRel ns c X h x hx)

theorem objs_nodesRel : ∀ (t : Tree) (pr : List Str × Tree), pr ∈ nodesRel t → ∀ x ∈ objs pr.2, x ∈ objs t := by
  intro t
  induction t using Tree.ind with
  | h i n a cs ih =>
    intro pr hpr x hx
    rw [nodesRel_node, List.mem_cons] at hpr
    rcases hpr with rfl | hpr
    · exact hx
    · obtain ⟨c, hc, pr', hpr', rfl⟩ := mem_nodesRelL.1 hpr
      exact objs_child (t := .node i n a cs) hc (ih c hc pr' hpr' x hx)

/-! ### insertions -/

theorem objs_appendKid (c t : Tree) : ∀ x ∈ objs (appendKid c t), x ∈ objs t ∨ x ∈ objs c := by
  cases t with
  | node i n a cs =>
    intro x hx
    simp only [appendKid, objs_node, objsL_append, objsL_cons, objsL_nil, List.append_nil, List.mem_cons,
      List.mem_append] at hx ⊢
    rcases hx with h | h | h
    · exact Or.inl (Or.inl h)
    · exact Or.inl (Or.inr h)
    · exact Or.inr h

theorem objsL_mapChild_or (n : Str) (g : Tree → Tree) (Q : Nat × Attrs → Prop)
    (hg : ∀ c, ∀ x ∈ objs (g c), x ∈ objs c ∨ Q x) :
    ∀ cs, ∀ x ∈ objsL (mapChild n g cs), x ∈ objsL cs ∨ Q x := by
  intro cs
  induction cs with
  | nil => simp [mapChild]
  | cons c cs ih =>
    intro x hx
    simp only [mapChild] at hx
    split at hx
    · rw [objsL_cons, List.mem_append] at hx
      rw [objsL_cons, List.mem_append]
      rcases hx with h | h
      · exact (hg c x h).imp Or.inl id
      · exact Or.inl (Or.inr h)
    · rw [objsL_cons, List.mem_append] at hx
      rw [objsL_cons, List.mem_append]
      rcases hx with h | h
      · exact Or.inl (Or.inl h)
      · exact (ih x h).imp Or.inr id

theorem objs_modifyAt_or (g : Tree → Tree) (Q : Nat × Attrs → Prop)
    (hg : ∀ c, ∀ x ∈ objs (g c), x ∈ objs c ∨ Q x) :
    ∀ (p : List Str) (t : Tree), ∀ x ∈ objs (modifyAt p g t), x ∈ objs t ∨ Q x := by
  intro p
  induction p with
  | nil => intro t; exact hg t
  | cons n ns ih =>
    intro t
    cases t with
    | node i nm a cs =>
      intro x hx
      simp only [modifyAt, objs_node, List.mem_cons] at hx ⊢
      rcases hx with h | h
      · exact Or.inl (Or.inl h)
      · exact (objsL_mapChild_or n _ Q ih cs x h).imp Or.inr id

theorem objs_appendAt (pp : List Str) (c t : Tree) :
    ∀ x ∈ objs (modifyAt pp (appendKid c) t), x ∈ objs t ∨ x ∈ objs c :=
  objs_modifyAt_or _ (· ∈ objs c) (objs_appendKid c) pp t

/-- `grow`: old objects or identities from the counter; the counter only grows -/
theorem objs_grow : ∀ (ns : List Str) (k : Nat) (t : Tree) (r : Tree × Nat), grow ns k t = .ok r →
    k ≤ r.2 ∧ ∀ x ∈ objs r.1, x ∈ objs t ∨ (k ≤ x.1 ∧ x.1 < r.2)
  | [], k, t, r, h => by
    simp only [grow, Except.ok.injEq] at h; subst h
    exact ⟨Nat.le_refl _, fun x hx => Or.inl hx⟩
  | n :: ns, k, .node i nm a cs, r, h => by
    simp only [grow] at h
    cases hc : findChild n cs with
    | some c =>
      simp only [hc] at h
      cases hg : grow ns k c with
      | error e => simp [hg] at h
      | ok r' =>
        simp only [hg, Except.ok.injEq] at h; subst h
        obtain ⟨hk, hr⟩ := objs_grow ns k c r' hg
        refine ⟨hk, ?_⟩
        intro x hx
        simp only [objs_node, List.mem_cons] at hx ⊢
        rcases hx with h | h
        · exact Or.inl (Or.inl h)
        · have := objsL_mapChild_or n (fun _ => r'.1) (fun x => x ∈ objs r'.1) (fun _ x hx => Or.inr hx) cs x h
          rcases this with h | h
          · exact Or.inl (Or.inr h)
          · rcases hr x h with h | h
            · exact Or.inl (Or.inr (mem_objsL.2 ⟨c, findChild_mem hc, h⟩))
            · exact Or.inr h
    | none =>
      simp only [hc] at h
      split at h
      · cases h
      · cases hg : grow ns (k + 1) (.node k n [] []) with
        | error e => simp [hg] at h
        | ok r' =>
          simp only [hg, Except.ok.injEq] at h; subst h
          obtain ⟨hk, hr⟩ := objs_grow ns (k + 1) (.node k n [] []) r' hg
          refine ⟨by simp only; omega, ?_⟩
          intro x hx
          simp only [objs_node, objsL_append, objsL_cons, objsL_nil, List.append_nil, List.mem_cons,
            List.mem_append] at hx ⊢
          rcases hx with h | h | h
          · exact Or.inl (Or.inl h)
          · exact Or.inl (Or.inr h)
          · rcases hr x h with h | h
            · simp only [objs_node, objsL_nil, List.mem_singleton] at h
              subst h; exact Or.inr ⟨Nat.le_refl _, by simp only; omega⟩
            · exact Or.inr ⟨by omega, h.2⟩

/-- `relabel`: all identities come from the counter -/
theorem objs_relabel (F : Tree) (k : Nat) :
    k ≤ (relabel k F).2 ∧ ∀ x ∈ objs (relabel k F).1, k ≤ x.1 ∧ x.1 < (relabel k F).2 := by
  obtain ⟨_, h2, _, h4, _⟩ := relabel_ok F k
  refine ⟨Nat.le_of_lt h2, ?_⟩
  intro x hx
  obtain ⟨e, he, rfl⟩ := List.mem_map.1 hx
  exact h4 e he

/-! ### the steps of one pair -/

/-- the objects a result may contain: those of `O`, or fresh ones from `[lo, hi)` -/
def Known (O : List (Nat × Attrs)) (lo hi : Nat) (x : Nat × Attrs) : Prop :=
  x ∈ O ∨ (lo ≤ x.1 ∧ x.1 < hi)

theorem Known.mono {O O' : List (Nat × Attrs)} {lo hi lo' hi' : Nat} {x} (h : Known O lo hi x)
    (hO : ∀ y ∈ O, y ∈ O') (hlo : lo' ≤ lo) (hhi : hi ≤ hi') : Known O' lo' hi' x := by
  rcases h with h | h
  · exact Or.inl (hO x h)
  · exact Or.inr ⟨by omega, by omega⟩

theorem attachOne_objs {pp : List Str} {c t t' : Tree} (h : attachOne pp c t = .ok t') :
    ∀ x ∈ objs t', x ∈ objs t ∨ x ∈ objs c := by
  unfold attachOne at h
  split at h
  · cases h
  · split at h
    · cases h
    · simp only [Except.ok.injEq] at h; subst h; exact objs_appendAt pp c t

theorem attachAll_objs {pp : List Str} : ∀ {cs : List Tree} {t t' : Tree}, attachAll pp cs t = .ok t' →
    ∀ x ∈ objs t', x ∈ objs t ∨ ∃ c ∈ cs, x ∈ objs c
  | [], t, t', h => by simp only [attachAll, Except.ok.injEq] at h; subst h; exact fun x hx => Or.inl hx
  | c :: cs, t, t', h => by
    simp only [attachAll] at h
    cases h1 : attachOne pp c t with
    | error e => simp [h1] at h
    | ok t1 =>
      simp only [h1] at h
      intro x hx
      rcases attachAll_objs h x hx with h2 | ⟨d, hd, h2⟩
      · rcases attachOne_objs h1 x h2 with h3 | h3
        · exact Or.inl h3
        · exact Or.inr ⟨c, by simp, h3⟩
      · exact Or.inr ⟨d, by simp [hd], h2⟩

theorem decideTo_objs {cfg : Cfg} {st : St} {fp : List Str} {tp : Option Str} {d : Dest}
    (h : decideTo cfg st fp tp = .ok d) :
    st.next ≤ d.next ∧ ∀ x ∈ objs d.dst, Known (objs st.dst) st.next d.next x := by
  have keep : ∀ (T : Tree), (∀ x ∈ objs T, x ∈ objs st.dst) →
      st.next ≤ st.next ∧ ∀ x ∈ objs T, Known (objs st.dst) st.next st.next x :=
    fun T hT => ⟨Nat.le_refl _, fun x hx => Or.inl (hT x hx)⟩
  unfold decideTo at h
  cases tp with
  | none => simp only [Except.ok.injEq] at h; subst h; exact keep _ (fun x hx => hx)
  | some tp =>
    simp only at h
    by_cases htp : tp = []
    · simp only [htp, if_true, Except.ok.injEq] at h; subst h; exact keep _ (fun x hx => hx)
    · simp only [htp, if_false] at h
      cases hf : findFullPath cfg.tsep st.dst tp with
      | error e => simp [hf] at h
      | ok o =>
        cases o with
        | none =>
          simp only [hf] at h
          unfold decideMissing at h
          split at h
          · cases h
          · next x hx =>
            simp only [Except.ok.injEq] at h; subst h
            unfold addPath at hx
            split at hx
            · cases hx
            · split at hx
              · cases hx
              · split at hx
                · cases hx
                · split at hx
                  · next y hy =>
                    simp only [Except.ok.injEq] at hx; subst hx
                    obtain ⟨hk, hr⟩ := objs_grow _ _ _ _ hy
                    exact ⟨hk, fun x hx => hr x hx⟩
                  · cases hx
        | some y =>
          obtain ⟨dp, X⟩ := y
          simp only [hf] at h
          have hrem := objs_removeAt_sub dp st.dst
          have hmod := objs_modifyAt_sub (setKids []) objs_setKids_nil dp st.dst
          unfold decideExisting at h
          split at h
          · split at h
            · simp only [Except.ok.injEq] at h; subst h; exact keep _ hrem
            · split at h
              · simp only [Except.ok.injEq] at h; subst h; exact keep _ (fun x hx => hx)
              · cases h
          · split at h
            · split at h
              · simp only [Except.ok.injEq] at h; subst h; exact keep _ (fun x hx => hx)
              · simp only [Except.ok.injEq] at h; subst h; exact keep _ hrem
            · split at h
              · split at h
                · simp only [Except.ok.injEq] at h; subst h; exact keep _ (fun x hx => hx)
                · simp only [Except.ok.injEq] at h; subst h; exact keep _ hmod
              · split at h
                · cases h
                · simp only [Except.ok.injEq] at h; subst h; exact keep _ hrem

/-- attaching (children / leaves / node of) `Fc` to `d.dst`: objects of `d.dst` or of `Fc` -/
theorem attach_core_objs {cfg : Cfg} {live : Bool} {fp : List Str} {Fc : Tree} {d : Dest} {t : Tree}
    (h : (if d.mc then attachChildren cfg live fp Fc d
          else if cfg.mergeLeaves then attachLeaves live fp Fc d
          else attachNode live fp (if cfg.deleteChildren then setKids [] Fc else Fc)
            (if live && cfg.deleteChildren then modifyAt fp (setKids []) d.dst else d.dst) d.parent) = .ok t) :
    ∀ x ∈ objs t, x ∈ objs d.dst ∨ x ∈ objs Fc := by
  have hkid : ∀ c ∈ Fc.children.map (fun c => if cfg.deleteChildren then setKids [] c else c),
      ∀ x ∈ objs c, x ∈ objs Fc := by
    intro c hc x hx
    obtain ⟨c0, hc0, rfl⟩ := List.mem_map.1 hc
    apply objs_child hc0
    split at hx
    · exact objs_setKids_nil c0 x hx
    · exact hx
  split at h
  · -- merge children
    unfold attachChildren at h
    split at h
    · cases h
    · split at h
      · cases h
      · split at h
        · cases h
        · next t1 h1 =>
          simp only [Except.ok.injEq] at h; subst h
          intro x hx
          have hx1 : x ∈ objs t1 := by
            split at hx
            · exact objs_removeAt_sub fp t1 x hx
            · exact hx
          rcases attachAll_objs h1 x hx1 with h2 | ⟨c, hc, h2⟩
          · exact Or.inl h2
          · exact Or.inr (hkid c hc x h2)
  · split at h
    · -- merge leaves
      unfold attachLeaves at h
      split at h
      · cases h
      · split at h
        · cases h
        · split at h
          · intro x hx
            rcases attachOne_objs h x hx with h2 | h2
            · left
              split at h2
              · exact objs_removeAt_sub fp d.dst x h2
              · exact h2
            · exact Or.inr h2
          · split at h
            · cases h
            · next t1 h1 =>
              simp only [Except.ok.injEq] at h; subst h
              intro x hx
              have hx1 : x ∈ objs t1 := by
                split at hx
                · exact objs_modifyAt_sub _ (fun c => objs_removeAll_sub _ c) fp t1 x hx
                · exact hx
              rcases attachAll_objs h1 x hx1 with h2 | ⟨c, hc, h2⟩
              · exact Or.inl h2
              · obtain ⟨pr, hpr, rfl⟩ := List.mem_map.1 hc
                have : pr ∈ nodesRel Fc := (List.mem_filter.1 hpr).1
                exact Or.inr (objs_nodesRel Fc pr this x h2)
    · -- the node itself
      unfold attachNode at h
      have hbase : ∀ x ∈ objs (if live then removeAt fp
            (if live && cfg.deleteChildren then modifyAt fp (setKids []) d.dst else d.dst)
          else (if live && cfg.deleteChildren then modifyAt fp (setKids []) d.dst else d.dst)),
          x ∈ objs d.dst := by
        intro x hx
        have h0 : ∀ x ∈ objs (if live && cfg.deleteChildren then modifyAt fp (setKids []) d.dst else d.dst),
            x ∈ objs d.dst := by
          intro x hx
          split at hx
          · exact objs_modifyAt_sub (setKids []) objs_setKids_nil fp d.dst x hx
          · exact hx
        split at hx
        · exact h0 x (objs_removeAt_sub fp _ x hx)
        · exact h0 x hx
      have hFm : ∀ x ∈ objs (if cfg.deleteChildren then setKids [] Fc else Fc), x ∈ objs Fc := by
        intro x hx
        split at hx
        · exact objs_setKids_nil Fc x hx
        · exact hx
      split at h
      · simp only [Except.ok.injEq] at h; subst h
        exact fun x hx => Or.inl (hbase x hx)
      · split at h
        · cases h
        · intro x hx
          rcases attachOne_objs h x hx with h2 | h2
          · exact Or.inl (hbase x h2)
          · exact Or.inr (hFm x h2)

/-- **Nothing is invented by one pair, every flag combination.**  `F` is the from-node as looked up. -/
theorem step_objs {cfg : Cfg} {st st' : St} {pr : Str × Option Str} {fp : List Str} {F : Tree}
    (hres : resolveFrom cfg st pr.1 = .ok (some (fp, F))) (h : step cfg st pr = .ok st') :
    st.next ≤ st'.next ∧
    ∀ x ∈ objs st'.dst, Known (objs st.dst ++ (if cfg.copy then [] else objs F)) st.next st'.next x := by
  unfold step at h
  simp only [hres] at h
  cases hd : decideTo cfg st fp pr.2 with
  | error e => simp [hd] at h
  | ok d =>
    simp only [hd] at h
    cases ha : attach cfg st.src.isNone d fp F with
    | error e => simp [ha] at h
    | ok r =>
      simp only [ha, Except.ok.injEq] at h; subst h
      simp only
      obtain ⟨hn1, hd1⟩ := decideTo_objs hd
      unfold attach at ha
      simp only at ha
      -- the node to attach: the live one (an object of `d.dst`) or the one looked up
      have hFobj : ∀ x ∈ objs ((if st.src.isNone then getRel fp d.dst else none).getD F),
          x ∈ objs d.dst ∨ x ∈ objs F := by
        intro x hx
        cases hs : st.src.isNone with
        | false => simp only [hs] at hx; exact Or.inr (by simpa using hx)
        | true =>
          simp only [hs, if_true] at hx
          cases hg : getRel fp d.dst with
          | none => rw [hg] at hx; exact Or.inr (by simpa using hx)
          | some X => rw [hg] at hx; exact Or.inl (objs_getRel fp d.dst X hg x (by simpa using hx))
      split at ha
      · cases ha
      · next t hr =>
        simp only [Except.ok.injEq] at ha; subst ha
        simp only
        have hcore := attach_core_objs hr
        cases hcp : cfg.copy with
        | true =>
          simp only [hcp, if_true] at hcore ⊢
          obtain ⟨hk, hrel⟩ := objs_relabel ((if st.src.isNone then getRel fp d.dst else none).getD F) d.next
          refine ⟨by omega, ?_⟩
          intro x hx
          rcases hcore x hx with h1 | h1
          · exact (hd1 x h1).mono (by simp) (Nat.le_refl _) hk
          · have := hrel x h1
            exact Or.inr ⟨by omega, this.2⟩
        | false =>
          simp only [hcp, Bool.false_eq_true, if_false] at hcore ⊢
          refine ⟨hn1, ?_⟩
          intro x hx
          rcases hcore x hx with h1 | h1
          · exact (hd1 x h1).mono (fun y hy => List.mem_append_left _ hy) (Nat.le_refl _) (Nat.le_refl _)
          · rcases hFobj x h1 with h2 | h2
            · exact (hd1 x h2).mono (fun y hy => List.mem_append_left _ hy) (Nat.le_refl _) (Nat.le_refl _)
            · exact Or.inl (by simp [h2])

end Modify
