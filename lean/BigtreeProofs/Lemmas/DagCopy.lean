import BigtreeModel.DagCopy
import BigtreeProofs.Lemmas.DagBridgeRun
/-!
# `DAGNode.copy()`: the mirrored store is well-formed, its edge list is the old one plus its shifted image,
and calls on one side of the boundary never touch edges of the other side
-/

namespace DagStore
open List

theorem mem_map_add {l : List Nat} {k x : Nat} : x ∈ l.map (· + k) ↔ k ≤ x ∧ x - k ∈ l := by
  simp only [List.mem_map]
  constructor
  · rintro ⟨a, ha, rfl⟩
    exact ⟨by omega, by simpa using ha⟩
  · rintro ⟨h1, h2⟩
    exact ⟨x - k, h2, by omega⟩

/-! ## the mirrored store -/

theorem deepCopy_parents_low (s : DStore) {c : Nat} (hc : c < s.n) : (deepCopy s).parents c = s.parents c := by
  simp [deepCopy, hc]
theorem deepCopy_children_low (s : DStore) {p : Nat} (hp : p < s.n) : (deepCopy s).children p = s.children p := by
  simp [deepCopy, hp]
theorem deepCopy_parents_mid (s : DStore) {c : Nat} (h1 : s.n ≤ c) (h2 : c < 2 * s.n) :
    (deepCopy s).parents c = (s.parents (c - s.n)).map (· + s.n) := by
  simp [deepCopy, Nat.not_lt.2 h1, h2]
theorem deepCopy_children_mid (s : DStore) {p : Nat} (h1 : s.n ≤ p) (h2 : p < 2 * s.n) :
    (deepCopy s).children p = (s.children (p - s.n)).map (· + s.n) := by
  simp [deepCopy, Nat.not_lt.2 h1, h2]
theorem deepCopy_parents_high (s : DStore) {c : Nat} (h : 2 * s.n ≤ c) : (deepCopy s).parents c = [] := by
  have h1 : ¬ c < s.n := by omega
  have h2 : ¬ c < 2 * s.n := by omega
  simp [deepCopy, h1, h2]
theorem deepCopy_children_high (s : DStore) {p : Nat} (h : 2 * s.n ≤ p) : (deepCopy s).children p = [] := by
  have h1 : ¬ p < s.n := by omega
  have h2 : ¬ p < 2 * s.n := by omega
  simp [deepCopy, h1, h2]

/-- membership in a parents list of the mirrored store -/
theorem mem_deepCopy_parents {s : DStore} (hs : DWF0 s) {p c : Nat} :
    p ∈ (deepCopy s).parents c ↔
      (p < s.n ∧ c < s.n ∧ p ∈ s.parents c) ∨
      (s.n ≤ p ∧ s.n ≤ c ∧ p - s.n ∈ s.parents (c - s.n)) := by
  by_cases h1 : c < s.n
  · rw [deepCopy_parents_low s h1]
    constructor
    · intro h; exact Or.inl ⟨(hs.rng p c h).1, h1, h⟩
    · rintro (⟨_, _, h⟩ | ⟨_, h, _⟩)
      · exact h
      · omega
  · by_cases h2 : c < 2 * s.n
    · rw [deepCopy_parents_mid s (by omega) h2, mem_map_add]
      constructor
      · rintro ⟨h3, h4⟩; exact Or.inr ⟨h3, by omega, h4⟩
      · rintro (⟨_, h, _⟩ | ⟨h3, _, h4⟩)
        · omega
        · exact ⟨h3, h4⟩
    · rw [deepCopy_parents_high s (by omega)]
      constructor
      · intro h; cases h
      · rintro (⟨_, h, _⟩ | ⟨_, _, h⟩)
        · omega
        · have := (hs.rng _ _ h).2; omega

theorem mem_deepCopy_children {s : DStore} (hs : DWF0 s) {p c : Nat} :
    c ∈ (deepCopy s).children p ↔
      (p < s.n ∧ c < s.n ∧ c ∈ s.children p) ∨
      (s.n ≤ p ∧ s.n ≤ c ∧ c - s.n ∈ s.children (p - s.n)) := by
  have rngc : ∀ a b, b ∈ s.children a → a < s.n ∧ b < s.n := fun a b h => hs.rng a b ((hs.sym a b).2 h)
  by_cases h1 : p < s.n
  · rw [deepCopy_children_low s h1]
    constructor
    · intro h; exact Or.inl ⟨h1, (rngc p c h).2, h⟩
    · rintro (⟨_, _, h⟩ | ⟨h, _, _⟩)
      · exact h
      · omega
  · by_cases h2 : p < 2 * s.n
    · rw [deepCopy_children_mid s (by omega) h2, mem_map_add]
      constructor
      · rintro ⟨h3, h4⟩; exact Or.inr ⟨by omega, h3, h4⟩
      · rintro (⟨h, _, _⟩ | ⟨_, h3, h4⟩)
        · omega
        · exact ⟨h3, h4⟩
    · rw [deepCopy_children_high s (by omega)]
      constructor
      · intro h; cases h
      · rintro (⟨h, _, _⟩ | ⟨_, _, h⟩)
        · omega
        · have := (rngc _ _ h).1; omega

theorem nodup_map_add {l : List Nat} (k : Nat) (h : l.Nodup) : (l.map (· + k)).Nodup :=
  Dag.nodup_map_of_inj (fun a b e => by simpa using e) h

theorem dwf0_deepCopy {s : DStore} (hs : DWF0 s) : DWF0 (deepCopy s) where
  sym p c := by
    rw [mem_deepCopy_parents hs, mem_deepCopy_children hs, hs.sym, hs.sym]
  ndp v := by
    by_cases h1 : v < s.n
    · rw [deepCopy_parents_low s h1]; exact hs.ndp v
    · by_cases h2 : v < 2 * s.n
      · rw [deepCopy_parents_mid s (by omega) h2]; exact nodup_map_add _ (hs.ndp _)
      · rw [deepCopy_parents_high s (by omega)]; exact nodup_nil
  ndc v := by
    by_cases h1 : v < s.n
    · rw [deepCopy_children_low s h1]; exact hs.ndc v
    · by_cases h2 : v < 2 * s.n
      · rw [deepCopy_children_mid s (by omega) h2]; exact nodup_map_add _ (hs.ndc _)
      · rw [deepCopy_children_high s (by omega)]; exact nodup_nil
  rng p c h := by
    rcases (mem_deepCopy_parents hs).1 h with ⟨h1, h2, _⟩ | ⟨h1, h2, h3⟩
    · simp only [deepCopy]; omega
    · have := hs.rng _ _ h3
      simp only [deepCopy]; omega

theorem acyclic_deepCopy {s : DStore} (hs : DWF s) : Acyclic (deepCopy s) := by
  have low : ∀ v, Acc (fun p c => p ∈ s.parents c) v → v < s.n →
      Acc (fun p c => p ∈ (deepCopy s).parents c) v := by
    intro v hv
    induction hv with
    | intro v _ ih =>
      intro hlt
      refine Acc.intro v (fun p hp => ?_)
      rw [deepCopy_parents_low s hlt] at hp
      exact ih p hp (hs.rng p v hp).1
  have mid : ∀ u, Acc (fun p c => p ∈ s.parents c) u → u < s.n →
      Acc (fun p c => p ∈ (deepCopy s).parents c) (u + s.n) := by
    intro u hu
    induction hu with
    | intro u _ ih =>
      intro hlt
      refine Acc.intro _ (fun p hp => ?_)
      rw [deepCopy_parents_mid s (by omega) (by omega), mem_map_add] at hp
      have e : u + s.n - s.n = u := by omega
      rw [e] at hp
      have := ih (p - s.n) hp.2 (hs.rng _ _ hp.2).1
      have e2 : p - s.n + s.n = p := by omega
      rwa [e2] at this
  intro v
  by_cases h1 : v < s.n
  · exact low v (hs.acyc v) h1
  · by_cases h2 : v < 2 * s.n
    · have := mid (v - s.n) (hs.acyc _) (by omega)
      have e : v - s.n + s.n = v := by omega
      rwa [e] at this
    · refine Acc.intro v (fun p hp => ?_)
      rw [deepCopy_parents_high s (by omega)] at hp
      cases hp

/-- the mirrored store is a well-formed DAG store -/
theorem dwf_deepCopy {s : DStore} (hs : DWF s) : DWF (deepCopy s) :=
  { dwf0_deepCopy hs.toDWF0 with acyc := acyclic_deepCopy hs }

/-! ## its edge list -/

theorem range_double (k : Nat) : List.range (2 * k) = List.range k ++ (List.range k).map (· + k) := by
  have : 2 * k = k + k := by omega
  rw [this, List.range_add]
  congr 1
  apply List.map_congr_left
  intro a _
  omega

theorem outE_shift (f g : Nat → List Nat) (k : Nat) (L : List Nat)
    (h : ∀ i ∈ L, f (i + k) = (g i).map (· + k)) :
    outE f (L.map (· + k)) = (outE g L).map (shiftE k) := by
  induction L with
  | nil => rfl
  | cons a L ih =>
    simp only [outE, map_cons, flatMap_cons, map_append] at ih ⊢
    rw [ih (fun i hi => h i (by simp [hi])), h a (by simp)]
    simp [shiftE, Function.comp_def]

/-- the edge list of the mirrored store: the old edges, then their shifted images, in the same order -/
theorem edges_deepCopy (s : DStore) : edges (deepCopy s) = edges s ++ (edges s).map (shiftE s.n) := by
  rw [edges_eq_outE, edges_eq_outE]
  show outE (deepCopy s).children (List.range (2 * s.n)) = _
  rw [range_double, outE_append]
  congr 1
  · apply outE_congr
    intro p hp
    exact deepCopy_children_low s (List.mem_range.1 hp)
  · apply outE_shift
    intro i hi
    have hi' := List.mem_range.1 hi
    rw [deepCopy_children_mid s (by omega) (by omega)]
    have : i + s.n - s.n = i := by omega
    rw [this]

theorem edges_range {s : DStore} (hs : DWF0 s) {e : Nat × Nat} (h : e ∈ edges s) : e.1 < s.n ∧ e.2 < s.n := by
  obtain ⟨a, c⟩ := e
  have := mem_edges.1 h
  exact ⟨this.1, (hs.rng _ _ ((hs.sym _ _).2 this.2)).2⟩

theorem lowE_edges_deepCopy {s : DStore} (hs : DWF0 s) : lowE s.n (edges (deepCopy s)) = edges s := by
  rw [edges_deepCopy, lowE, filter_append]
  have h1 : (edges s).filter (fun e => decide (e.1 < s.n ∧ e.2 < s.n)) = edges s := by
    rw [filter_eq_self]; intro e he; simpa using edges_range hs he
  have h2 : ((edges s).map (shiftE s.n)).filter (fun e => decide (e.1 < s.n ∧ e.2 < s.n)) = [] := by
    rw [filter_eq_nil_iff]
    intro e he
    obtain ⟨e0, _, rfl⟩ := mem_map.1 he
    simp only [shiftE]
    intro h
    have := of_decide_eq_true h
    omega
  rw [h1, h2, append_nil]

theorem highE_edges_deepCopy {s : DStore} (hs : DWF0 s) :
    highE s.n (edges (deepCopy s)) = (edges s).map (shiftE s.n) := by
  rw [edges_deepCopy, highE, filter_append]
  have h1 : (edges s).filter (fun e => decide (s.n ≤ e.1 ∧ s.n ≤ e.2)) = [] := by
    rw [filter_eq_nil_iff]
    intro e he
    have := edges_range hs he
    simp; omega
  have h2 : ((edges s).map (shiftE s.n)).filter (fun e => decide (s.n ≤ e.1 ∧ s.n ≤ e.2)) =
      (edges s).map (shiftE s.n) := by
    rw [filter_eq_self]
    intro e he
    obtain ⟨e0, _, rfl⟩ := mem_map.1 he
    simp [shiftE]
  rw [h1, h2, nil_append]

/-! ## calls on one side of a boundary, read on the edge list -/

theorem asked_ids (n : Nat) (op : Op) (hc : op.isConstruct = false) :
    ∀ e ∈ asked n op, e.1 ∈ op.ids ∧ e.2 ∈ op.ids := by
  cases op with
  | setParents v a f =>
    intro e he
    simp only [asked, mem_map] at he
    obtain ⟨p, hp, rfl⟩ := he
    simp [Op.ids, hp]
  | setChildren v a f =>
    intro e he
    simp only [asked, mem_map] at he
    obtain ⟨p, hp, rfl⟩ := he
    simp [Op.ids, hp]
  | rshift v o f => intro e he; simp only [asked, mem_singleton] at he; subst he; simp [Op.ids]
  | lshift v o f => intro e he; simp only [asked, mem_singleton] at he; subst he; simp [Op.ids]
  | delChildren v => intro e he; simp [asked] at he
  | delItem v nm => intro e he; simp [asked] at he
  | construct nm ps cs fp fc => simp [Op.isConstruct] at hc

/-- a call all of whose ids lie at or above `k` leaves the edges below `k` as they are -/
theorem apply_lowE (g : EState) (k : Nat) (op : Op) (hc : op.isConstruct = false)
    (hids : ∀ i ∈ op.ids, k ≤ i) : lowE k (g.apply op).E = lowE k g.E := by
  have hadd : lowE k (g.E ++ (asked g.n op).filter fun e => decide (e ∉ g.E)) = lowE k g.E := by
    rw [lowE, filter_append, filter_filter]
    have : (asked g.n op).filter (fun e => decide (e.1 < k ∧ e.2 < k) && decide (e ∉ g.E)) = [] := by
      rw [filter_eq_nil_iff]
      intro e he
      have := hids e.1 (asked_ids g.n op hc e he).1
      simp; intro h; omega
    rw [this, append_nil]; rfl
  have hdel : ∀ (P : Nat × Nat → Bool), (∀ e, decide (e.1 < k ∧ e.2 < k) = true → P e = true) →
      lowE k (g.E.filter P) = lowE k g.E := by
    intro P hP
    rw [lowE, filter_filter]
    apply filter_congr
    intro e _
    cases h : decide (e.1 < k ∧ e.2 < k) with
    | false => simp
    | true => simp [hP e h]
  cases op with
  | setParents v a f => exact hadd
  | setChildren v a f => exact hadd
  | rshift v o f => exact hadd
  | lshift v o f => exact hadd
  | construct nm ps cs fp fc => simp [Op.isConstruct] at hc
  | delChildren v =>
    simp only [EState.apply]
    apply hdel
    intro e he
    have hv := hids v (by simp [Op.ids])
    simp only [decide_eq_true_eq] at he
    simp; omega
  | delItem v nm =>
    simp only [EState.apply]
    split
    · next e0 heq =>
      apply hdel
      intro e he
      have hv := hids v (by simp [Op.ids])
      have hmem : e0 ∈ g.E.filter (fun e => e.1 == v && g.names e.2 == nm) := by rw [heq]; simp
      have h0 : e0.1 = v := by
        have := (mem_filter.1 hmem).2
        simp only [Bool.and_eq_true, beq_iff_eq] at this
        exact this.1
      simp only [decide_eq_true_eq] at he
      simp only [bne_iff_ne, ne_eq]
      intro h; subst h; omega
    · rfl

/-- a call all of whose ids lie below `k` leaves the edges at or above `k` as they are -/
theorem apply_highE (g : EState) (k : Nat) (op : Op) (hc : op.isConstruct = false)
    (hids : ∀ i ∈ op.ids, i < k) : highE k (g.apply op).E = highE k g.E := by
  have hadd : highE k (g.E ++ (asked g.n op).filter fun e => decide (e ∉ g.E)) = highE k g.E := by
    rw [highE, filter_append, filter_filter]
    have : (asked g.n op).filter (fun e => decide (k ≤ e.1 ∧ k ≤ e.2) && decide (e ∉ g.E)) = [] := by
      rw [filter_eq_nil_iff]
      intro e he
      have := hids e.1 (asked_ids g.n op hc e he).1
      simp; intro h; omega
    rw [this, append_nil]; rfl
  have hdel : ∀ (P : Nat × Nat → Bool), (∀ e, decide (k ≤ e.1 ∧ k ≤ e.2) = true → P e = true) →
      highE k (g.E.filter P) = highE k g.E := by
    intro P hP
    rw [highE, filter_filter]
    apply filter_congr
    intro e _
    cases h : decide (k ≤ e.1 ∧ k ≤ e.2) with
    | false => simp
    | true => simp [hP e h]
  cases op with
  | setParents v a f => exact hadd
  | setChildren v a f => exact hadd
  | rshift v o f => exact hadd
  | lshift v o f => exact hadd
  | construct nm ps cs fp fc => simp [Op.isConstruct] at hc
  | delChildren v =>
    simp only [EState.apply]
    apply hdel
    intro e he
    have hv := hids v (by simp [Op.ids])
    simp only [decide_eq_true_eq] at he
    simp; omega
  | delItem v nm =>
    simp only [EState.apply]
    split
    · next e0 heq =>
      apply hdel
      intro e he
      have hv := hids v (by simp [Op.ids])
      have hmem : e0 ∈ g.E.filter (fun e => e.1 == v && g.names e.2 == nm) := by rw [heq]; simp
      have h0 : e0.1 = v := by
        have := (mem_filter.1 hmem).2
        simp only [Bool.and_eq_true, beq_iff_eq] at this
        exact this.1
      simp only [decide_eq_true_eq] at he
      simp only [bne_iff_ne, ne_eq]
      intro h; subst h; omega
    · rfl

/-- a history (with outcomes) whose accepted calls all lie at or above `k` -/
theorem replay_lowE (k : Nat) : ∀ (h : List (Op × Outcome)) (g : EState),
    (∀ x ∈ h, x.1.isConstruct = false ∧ ∀ i ∈ x.1.ids, k ≤ i) → lowE k (g.replay h).E = lowE k g.E
  | [], g, _ => rfl
  | (op, .ok) :: r, g, hh => by
    simp only [EState.replay]
    rw [replay_lowE k r _ (fun x hx => hh x (by simp [hx])),
      apply_lowE g k op (hh (op, .ok) (by simp)).1 (hh (op, .ok) (by simp)).2]
  | (op, .rej) :: r, g, hh => by
    simp only [EState.replay]
    exact replay_lowE k r g (fun x hx => hh x (by simp [hx]))

theorem replay_highE (k : Nat) : ∀ (h : List (Op × Outcome)) (g : EState),
    (∀ x ∈ h, x.1.isConstruct = false ∧ ∀ i ∈ x.1.ids, i < k) → highE k (g.replay h).E = highE k g.E
  | [], g, _ => rfl
  | (op, .ok) :: r, g, hh => by
    simp only [EState.replay]
    rw [replay_highE k r _ (fun x hx => hh x (by simp [hx])),
      apply_highE g k op (hh (op, .ok) (by simp)).1 (hh (op, .ok) (by simp)).2]
  | (op, .rej) :: r, g, hh => by
    simp only [EState.replay]
    exact replay_highE k r g (fun x hx => hh x (by simp [hx]))

/-- no constructor call in the history: `NoRejConstruct` holds trivially -/
theorem noRejConstruct_of_noConstruct : ∀ (ops : List Op) (s : DStore),
    (∀ op ∈ ops, op.isConstruct = false) → NoRejConstruct s ops
  | [], _, _ => trivial
  | op :: ops, s, h => by
    refine ⟨?_, noRejConstruct_of_noConstruct ops _ (fun o ho => h o (by simp [ho]))⟩
    intro _ nm ps cs fp fc e
    have := h op (by simp)
    rw [e] at this
    simp [Op.isConstruct] at this

end DagStore

/-! ## mixed histories: each side evolves as if the other were not there -/
namespace DagStore
open List

/-- every edge joins two nodes of the same side of the boundary -/
def SepE (k : Nat) (E : List (Nat × Nat)) : Prop := ∀ e ∈ E, (e.1 < k ∧ e.2 < k) ∨ (k ≤ e.1 ∧ k ≤ e.2)

def Op.isLow (k : Nat) (op : Op) : Bool := op.ids.all fun i => decide (i < k)
def Op.isHigh (k : Nat) (op : Op) : Bool := op.ids.all fun i => decide (k ≤ i)

/-- the graph restricted to the nodes below the boundary -/
def lowG (k : Nat) (g : EState) : EState := { g with E := lowE k g.E }

theorem mem_lowE {k : Nat} {E : List (Nat × Nat)} {e : Nat × Nat} : e ∈ lowE k E ↔ e ∈ E ∧ e.1 < k ∧ e.2 < k := by
  simp [lowE]

theorem sepE_edges_deepCopy {s : DStore} (hs : DWF0 s) : SepE s.n (edges (deepCopy s)) := by
  intro e he
  rw [edges_deepCopy, mem_append] at he
  rcases he with he | he
  · exact Or.inl (edges_range hs he)
  · obtain ⟨e0, _, rfl⟩ := mem_map.1 he
    exact Or.inr ⟨by simp [shiftE], by simp [shiftE]⟩

theorem asked_low {k n : Nat} {op : Op} (hc : op.isConstruct = false) (hl : op.isLow k = true) :
    ∀ e ∈ asked n op, e.1 < k ∧ e.2 < k := by
  intro e he
  have hi := asked_ids n op hc e he
  simp only [Op.isLow, all_eq_true, decide_eq_true_eq] at hl
  exact ⟨hl _ hi.1, hl _ hi.2⟩

theorem asked_high {k n : Nat} {op : Op} (hc : op.isConstruct = false) (hh : op.isHigh k = true) :
    ∀ e ∈ asked n op, k ≤ e.1 ∧ k ≤ e.2 := by
  intro e he
  have hi := asked_ids n op hc e he
  simp only [Op.isHigh, all_eq_true, decide_eq_true_eq] at hh
  exact ⟨hh _ hi.1, hh _ hi.2⟩

/-- a call that stays on one side keeps the two sides apart -/
theorem apply_sepE (g : EState) (k : Nat) (op : Op) (hc : op.isConstruct = false)
    (hside : op.isLow k = true ∨ op.isHigh k = true) (hs : SepE k g.E) : SepE k (g.apply op).E := by
  have hadd : SepE k (g.E ++ (asked g.n op).filter fun e => decide (e ∉ g.E)) := by
    intro e he
    rw [mem_append] at he
    rcases he with he | he
    · exact hs e he
    · have hm := (mem_filter.1 he).1
      rcases hside with h | h
      · exact Or.inl (asked_low hc h e hm)
      · exact Or.inr (asked_high hc h e hm)
  have hsub : ∀ (P : Nat × Nat → Bool), SepE k (g.E.filter P) := fun P e he => hs e (mem_filter.1 he).1
  cases op with
  | setParents v a f => exact hadd
  | setChildren v a f => exact hadd
  | rshift v o f => exact hadd
  | lshift v o f => exact hadd
  | construct nm ps cs fp fc => simp [Op.isConstruct] at hc
  | delChildren v => exact hsub _
  | delItem v nm =>
    simp only [EState.apply]
    split
    · exact hsub _
    · exact hs

/-- a call on the low side acts on the low part of the graph exactly as on the whole graph -/
theorem lowG_apply (g : EState) (k : Nat) (op : Op) (hc : op.isConstruct = false) (hl : op.isLow k = true)
    (hs : SepE k g.E) : lowG k (g.apply op) = (lowG k g).apply op := by
  have hids : ∀ i ∈ op.ids, i < k := by
    simpa only [Op.isLow, all_eq_true, decide_eq_true_eq] using hl
  have hadd : lowE k (g.E ++ (asked g.n op).filter fun e => decide (e ∉ g.E)) =
      lowE k g.E ++ (asked g.n op).filter fun e => decide (e ∉ lowE k g.E) := by
    rw [lowE, filter_append, filter_filter]
    congr 1
    apply filter_congr
    intro e he
    have hlow := asked_low hc hl e he
    have : decide (e.1 < k ∧ e.2 < k) = true := by simpa using hlow
    rw [this, Bool.true_and]
    congr 1
    rw [mem_lowE]
    simp [hlow]
  have hdel : ∀ (P : Nat × Nat → Bool), lowE k (g.E.filter P) = (lowE k g.E).filter P := by
    intro P
    simp only [lowE, filter_filter]
    apply filter_congr
    intro e _
    exact Bool.and_comm _ _
  cases op with
  | setParents v a f => simp only [lowG, EState.apply, hadd]; congr
  | setChildren v a f => simp only [lowG, EState.apply, hadd]; congr
  | rshift v o f => simp only [lowG, EState.apply, hadd]; congr
  | lshift v o f => simp only [lowG, EState.apply, hadd]; congr
  | construct nm ps cs fp fc => simp [Op.isConstruct] at hc
  | delChildren v => simp only [lowG, EState.apply, hdel]
  | delItem v nm =>
    have hv : v < k := hids v (by simp [Op.ids])
    -- the edges out of `v` are the same in the whole graph and in its low part
    have hsame : g.E.filter (fun e => e.1 == v && g.names e.2 == nm) =
        (lowE k g.E).filter (fun e => e.1 == v && g.names e.2 == nm) := by
      simp only [lowE, filter_filter]
      apply filter_congr
      intro e he
      cases hp : (e.1 == v && g.names e.2 == nm) with
      | false => simp
      | true =>
        have h1 : e.1 = v := by
          simp only [Bool.and_eq_true, beq_iff_eq] at hp; exact hp.1
        have : e.1 < k ∧ e.2 < k := by
          rcases hs e he with h | h
          · exact h
          · omega
        simp [this]
    simp only [lowG, EState.apply]
    rw [← hsame]
    split
    · simp only; rw [hdel]
    · rfl

/-- **mixed histories**: when every call of a history stays on one side of the boundary, the edges among the
low nodes at the end are what the low-side calls alone (same outcomes) make of the low part of the graph —
the high-side calls might as well not have happened — and the two sides are still apart -/
theorem replay_low_mixed (k : Nat) : ∀ (h : List (Op × Outcome)) (g : EState), SepE k g.E →
    (∀ x ∈ h, x.1.isConstruct = false ∧ (x.1.isLow k = true ∨ x.1.isHigh k = true)) →
    lowE k (g.replay h).E = ((lowG k g).replay (h.filter fun x => x.1.isLow k)).E ∧ SepE k (g.replay h).E
  | [], g, hs, _ => ⟨rfl, hs⟩
  | (op, .rej) :: r, g, hs, hh => by
    have ih := replay_low_mixed k r g hs (fun x hx => hh x (by simp [hx]))
    simp only [EState.replay, filter_cons]
    split
    · simpa [EState.replay] using ih
    · exact ih
  | (op, .ok) :: r, g, hs, hh => by
    obtain ⟨hc, hside⟩ := hh (op, .ok) (by simp)
    have hs' := apply_sepE g k op hc hside hs
    have ih := replay_low_mixed k r (g.apply op) hs' (fun x hx => hh x (by simp [hx]))
    simp only [EState.replay, filter_cons]
    cases hl : op.isLow k with
    | true =>
      simp only [if_true, EState.replay]
      rw [← lowG_apply g k op hc hl hs]
      exact ih
    | false =>
      simp only [Bool.false_eq_true, if_false]
      have hhigh : op.isHigh k = true := by
        rcases hside with h | h
        · rw [hl] at h; cases h
        · exact h
      have hids : ∀ i ∈ op.ids, k ≤ i := by
        simpa only [Op.isHigh, all_eq_true, decide_eq_true_eq] using hhigh
      have e1 : lowG k (g.apply op) = lowG k g := by
        have hn : (g.apply op).n = g.n ∧ (g.apply op).names = g.names := by
          cases op <;> first | exact ⟨rfl, rfl⟩ | (simp [Op.isConstruct] at hc) | skip
          · simp only [EState.apply]; split <;> exact ⟨rfl, rfl⟩
        cases hg : g.apply op with
        | mk n' names' E' =>
          rw [hg] at hn
          have hE : lowE k E' = lowE k g.E := by
            have := apply_lowE g k op hc hids
            rw [hg] at this; exact this
          simp only [lowG, hE]
          cases g
          simp only at hn ⊢
          obtain ⟨rfl, rfl⟩ := hn
          rfl
      rw [← e1]
      exact ih

end DagStore
