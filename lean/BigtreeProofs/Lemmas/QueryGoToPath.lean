import BigtreeModel.Query
import BigtreeProofs.Lemmas.QueryGoTo
/-! Helper lemmas for C12: the path of `go_to` is a simple path of parent/child links. -/

namespace Query

/-- two nodes joined by a parent/child link -/
def Linked (x y : Addr) : Prop := parent x = some y ∨ parent y = some x

theorem parent_take_succ {a : Addr} {n : Nat} (h : n < a.length) :
    parent (a.take (n + 1)) = some (a.take n) := by
  have : a.take (n + 1) = a.take n ++ [a[n]] := by
    rw [List.take_add_one, List.getElem?_eq_getElem h]; rfl
  rw [this, parent_snoc]

theorem length_goToSpec (a b : Addr) : (goToSpec a b).length = dist a b + 1 := by
  have h1 := lcpLen_le_left a b
  have h2 := lcpLen_le_right a b
  simp [goToSpec, dist]
  omega

theorem getElem_goToSpec_up (a b : Addr) (i : Nat) (hi : i < a.length - lcpLen a b)
    (h : i < (goToSpec a b).length) : (goToSpec a b)[i] = a.take (a.length - i) := by
  apply Option.some.inj
  rw [← List.getElem?_eq_getElem h]
  simp only [goToSpec]
  rw [List.getElem?_append_left (by simpa using hi)]
  simp [hi]

theorem getElem_goToSpec_down (a b : Addr) (i : Nat) (hi : a.length - lcpLen a b ≤ i)
    (h : i < (goToSpec a b).length) :
    (goToSpec a b)[i] = b.take (lcpLen a b + (i - (a.length - lcpLen a b))) := by
  have hl := length_goToSpec a b
  have h1 := lcpLen_le_left a b
  have h2 := lcpLen_le_right a b
  simp only [dist] at hl
  apply Option.some.inj
  rw [← List.getElem?_eq_getElem h]
  simp only [goToSpec]
  rw [List.getElem?_append_right (by simpa using hi)]
  simp only [List.length_map, List.length_range]
  rw [List.getElem?_map, List.getElem?_range (by omega)]
  rfl

theorem goToSpec_head (a b : Addr) : (goToSpec a b).head? = some a := by
  have h1 := lcpLen_le_left a b
  have h2 := lcpLen_le_right a b
  have hlen : 0 < (goToSpec a b).length := by rw [length_goToSpec]; omega
  rw [List.head?_eq_getElem?, List.getElem?_eq_getElem hlen]
  by_cases h : 0 < a.length - lcpLen a b
  · rw [getElem_goToSpec_up a b 0 h]; simp
  · rw [getElem_goToSpec_down a b 0 (by omega)]
    have e : lcpLen a b = a.length := by omega
    have := take_lcpLen a b
    rw [e] at this
    simp only [List.take_length] at this
    simp [e, ← this]

theorem goToSpec_last (a b : Addr) : (goToSpec a b).getLast? = some b := by
  have h1 := lcpLen_le_left a b
  have h2 := lcpLen_le_right a b
  have hl := length_goToSpec a b
  rw [List.getLast?_eq_getElem?, List.getElem?_eq_getElem (by omega),
    getElem_goToSpec_down a b _ (by simp only [dist] at hl; omega)]
  simp only [Option.some.injEq]
  apply List.take_of_length_le
  simp only [dist] at hl
  omega

theorem goToSpec_linked (a b : Addr) (i : Nat) (h : i + 1 < (goToSpec a b).length) :
    Linked ((goToSpec a b)[i]'(by omega)) ((goToSpec a b)[i + 1]) := by
  have h1 := lcpLen_le_left a b
  have h2 := lcpLen_le_right a b
  have hl := length_goToSpec a b
  simp only [dist] at hl
  by_cases hi : i + 1 < a.length - lcpLen a b
  · -- both on the way up
    rw [getElem_goToSpec_up a b i (by omega), getElem_goToSpec_up a b (i + 1) hi]
    left
    have e : a.length - i = (a.length - (i + 1)) + 1 := by omega
    rw [e]
    exact parent_take_succ (by omega)
  · by_cases hi2 : i < a.length - lcpLen a b
    · -- the last step up reaches the common ancestor
      rw [getElem_goToSpec_up a b i hi2, getElem_goToSpec_down a b (i + 1) (by omega)]
      left
      have e1 : a.length - i = lcpLen a b + 1 := by omega
      have e2 : lcpLen a b + (i + 1 - (a.length - lcpLen a b)) = lcpLen a b := by omega
      rw [e1, e2, ← take_lcpLen]
      exact parent_take_succ (by omega)
    · -- both on the way down
      rw [getElem_goToSpec_down a b i (by omega), getElem_goToSpec_down a b (i + 1) (by omega)]
      right
      have e : lcpLen a b + (i + 1 - (a.length - lcpLen a b))
          = (lcpLen a b + (i - (a.length - lcpLen a b))) + 1 := by omega
      rw [e]
      exact parent_take_succ (by omega)

theorem goToSpec_nodup (a b : Addr) : (goToSpec a b).Nodup := by
  have h1 := lcpLen_le_left a b
  have h2 := lcpLen_le_right a b
  unfold goToSpec
  simp only
  rw [List.nodup_append]
  refine ⟨?_, ?_, ?_⟩
  · rw [List.nodup_iff_pairwise_ne, List.pairwise_map]
    have := @List.nodup_range (a.length - lcpLen a b)
    rw [List.nodup_iff_pairwise_ne] at this
    refine this.imp_of_mem ?_
    intro x y hx hy hne e
    have hx' := List.mem_range.1 hx
    have hy' := List.mem_range.1 hy
    have := take_inj_of_le (by omega) (by omega) e
    omega
  · rw [List.nodup_iff_pairwise_ne, List.pairwise_map]
    have := @List.nodup_range (b.length - lcpLen a b + 1)
    rw [List.nodup_iff_pairwise_ne] at this
    refine this.imp_of_mem ?_
    intro x y hx hy hne e
    have hx' := List.mem_range.1 hx
    have hy' := List.mem_range.1 hy
    have := take_inj_of_le (by omega) (by omega) e
    omega
  · intro x hx y hy e
    rcases List.mem_map.1 hx with ⟨i, hi, rfl⟩
    rcases List.mem_map.1 hy with ⟨j, hj, rfl⟩
    have hi' := List.mem_range.1 hi
    have hj' := List.mem_range.1 hj
    have hlen := congrArg List.length e
    simp only [List.length_take] at hlen
    have hm : a.length - i = lcpLen a b + j := by omega
    rw [← hm] at e
    have := le_lcpLen a b (a.length - i) (by omega) (by omega) e
    omega

end Query
