import BigtreeModel.Query
/-! Concrete trees used by the non-vacuity examples of C09 / C12. -/

namespace Query

/-- r(a(c, d(e)), b) with ids in pre-order -/
def exTree : Tree :=
  .node 0 ['r'] [] [
    .node 1 ['a'] [] [.node 2 ['c'] [] [], .node 3 ['d'] [] [.node 4 ['e'] [] []]],
    .node 5 ['b'] [] []]

/-- a second tree (other root identity) -/
def exTree2 : Tree := .node 10 ['q'] [] [.node 11 ['a'] [] []]

/-- a wide node whose two tallest children come last -/
def exWide : Tree :=
  .node 0 ['w'] [] [
    .node 1 ['a'] [] [], .node 2 ['b'] [] [], .node 3 ['c'] [] [],
    .node 4 ['d'] [] [.node 5 ['x'] [] []],
    .node 6 ['e'] [] [.node 7 ['y'] [] [.node 8 ['z'] [] []]]]

/-- BinaryNode(1) with only a right child (the D5 witness) -/
def exBin : BTree := .node 0 ['1'] [] .nil (.node 1 ['2'] [] .nil .nil)

end Query

namespace Query

/-- a(ab(b), b, ba(ab)): repeated names across branches, names that are suffixes of others;
    attributes on some nodes -/
def exNamed : Tree :=
  .node 0 ['a'] [(['k'], .int 1)] [
    .node 1 ['a', 'b'] [] [.node 2 ['b'] [(['k'], .bool true)] []],
    .node 3 ['b'] [(['k'], .int 2)] [],
    .node 4 ['b', 'a'] [] [.node 5 ['a', 'b'] [(['k'], .int 1)] []]]

/-- BinaryNode a with an empty left slot and right child b -/
def exBinNamed : BTree := .node 0 ['a'] [] .nil (.node 1 ['b'] [] .nil .nil)

end Query
