import BigtreeProofs.Lemmas.CopyStoreBasic
/-!
# Frame lemmas for the compositions `cloneA`, `pruneA`, `getSubtreeA` (C07)

Every id the compositions operate on lies on the side of the copy; the mutators then preserve
the invariant `Inv` of `Lemmas/CopyStoreBasic.lean`.
-/

namespace CopyStore

/-! ## ids of a tree read back from a separated store -/

theorem mem_treeIdsL {i : Nat} : ∀ ts : List Tree, i ∈ treeIdsL ts ↔ ∃ t ∈ ts, i ∈ treeIds t
  | [] => by simp [treeIdsL]
  | t :: ts => by simp [treeIdsL, mem_treeIdsL ts]

theorem toTree_ids {Q : Nat → Prop} {s : Store} (hs : SepQ s Q) :
    ∀ f r, Q r → ∀ i ∈ treeIds (toTree s f r), Q i
  | 0, r, hr, i, hi => by
    simp only [toTree, treeIds, treeIdsL, List.mem_cons, List.not_mem_nil, or_false] at hi
    exact hi ▸ hr
  | f + 1, r, hr, i, hi => by
    simp only [toTree] at hi
    cases hc : s.cell? r with
    | none =>
      rw [hc] at hi
      simp only [treeIds, treeIdsL, List.mem_cons, List.not_mem_nil, or_false] at hi
      exact hi ▸ hr
    | some c =>
      rw [hc] at hi
      simp only [treeIds, List.mem_cons, mem_treeIdsL, List.mem_map] at hi
      rcases hi with rfl | ⟨t, ⟨ch, hch, rfl⟩, hi⟩
      · exact hr
      · exact toTree_ids hs f ch (((hs r c hc).2 ch hch).1 hr) i hi

mutual
theorem walk_sub_id : ∀ (T : Tree) (a : Helper.Addr) (anc : List Str) (v : Helper.Visit),
    v ∈ Helper.walk a anc T → v.sub.id ∈ treeIds T
  | .node i n av cs, a, anc, v, hv => by
    simp only [Helper.walk, List.mem_cons] at hv
    rcases hv with rfl | hv
    · simp [treeIds]
    · simp only [treeIds, List.mem_cons]
      right
      exact walkL_sub_id cs a _ 0 v hv
theorem walkL_sub_id : ∀ (ts : List Tree) (a : Helper.Addr) (anc : List Str) (k : Nat)
    (v : Helper.Visit), v ∈ Helper.walkL a anc k ts → v.sub.id ∈ treeIdsL ts
  | [], a, anc, k, v, hv => by simp [Helper.walkL] at hv
  | c :: cs, a, anc, k, v, hv => by
    simp only [Helper.walkL, List.mem_append] at hv
    simp only [treeIdsL, List.mem_append]
    rcases hv with hv | hv
    · left; exact walk_sub_id c _ _ v hv
    · right; exact walkL_sub_id cs _ _ _ v hv
end

theorem findPath_mem {sep : Str} {anc : List Str} {T : Tree} {q : Str} {v : Helper.Visit}
    (h : Helper.findPath sep anc T q = .ok (some v)) : v.sub.id ∈ treeIds T := by
  unfold Helper.findPath at h
  simp only at h
  split at h
  · cases h
  · next v' heq =>
    cases h
    have hm : v ∈ List.filter (fun v => (Helper.rstrip sep q).isSuffixOf (Helper.pathName sep v.names))
        (Helper.walk [] anc T) := by rw [heq]; simp
    exact walk_sub_id _ _ _ _ (List.mem_filter.1 hm).1
  · cases h

theorem ancestors_Q {Q : Nat → Prop} {s : Store} (hs : SepQ s Q) :
    ∀ f v, Q v → ∀ a ∈ ancestors s f v, Q a
  | 0, v, _, a, ha => by simp [ancestors] at ha
  | f + 1, v, hv, a, ha => by
    simp only [ancestors] at ha
    cases hp : s.parentOf v with
    | none => rw [hp] at ha; simp at ha
    | some p =>
      rw [hp] at ha
      simp only [List.mem_cons] at ha
      have hq : Q p := sepQ_parent hs hp hv
      rcases ha with rfl | ha
      · exact hq
      · exact ancestors_Q hs f p hq a ha

theorem levelIds_Q {Q : Nat → Prop} {s : Store} (hs : SepQ s Q) :
    ∀ f ids, (∀ i ∈ ids, Q i) → ∀ g ∈ levelIds s f ids, ∀ i ∈ g, Q i
  | 0, _, _, g, hg, _, _ => by simp [levelIds] at hg
  | f + 1, ids, hids, g, hg, i, hi => by
    simp only [levelIds, List.mem_cons] at hg
    rcases hg with rfl | hg
    · exact hids i hi
    · split at hg
      · simp at hg
      · refine levelIds_Q hs f _ ?_ g hg i hi
        intro j hj
        rcases List.mem_flatMap.1 hj with ⟨a, ha, hja⟩
        exact sepQ_children hs (hids a ha) j hja

/-! ## the phases of `pruneA` -/

theorem inv_detachLoop {Q : Nat → Prop} {s0 st : Store} (A N : List Nat) (h : Inv Q s0 st)
    (hA : ∀ a ∈ A, Q a) : Inv Q s0 (detachLoop A N st) := by
  unfold detachLoop
  refine inv_foldl _ ?_ A st h hA
  intro st a h ha
  refine inv_foldl _ ?_ _ st h (sepQ_children h.1 ha)
  intro st c h hc
  split
  · exact inv_setParent c none h hc (fun _ e => by cases e)
  · exact h

theorem inv_depthCutA {Q : Nat → Prop} {s0 st : Store} (r md : Nat) (h : Inv Q s0 st) (hr : Q r) :
    Inv Q s0 (depthCutA st r md) := by
  unfold depthCutA
  cases hg : (levelIds st st.n [r])[md - 1]? with
  | none => exact h
  | some g =>
    simp only
    refine inv_foldl delChildren (fun st v h hv => inv_delChildren v h hv) g st h ?_
    exact levelIds_Q h.1 _ _ (by simpa using hr) g (List.mem_of_getElem? hg)

theorem locateA_ids {treeSep : Str} {anc : List Str} {T : Tree} {sepArg : Str} :
    ∀ (qs : List Str) (N : List Nat), locateA treeSep anc T sepArg qs = .ok N →
      ∀ i ∈ N, i ∈ treeIds T
  | [], N, h, i, hi => by
    simp only [locateA, Except.ok.injEq] at h
    subst h
    cases hi
  | q :: qs, N, h, i, hi => by
    simp only [locateA] at h
    split at h
    · cases h
    · cases h
    · next v hv =>
      cases hr : locateA treeSep anc T sepArg qs with
      | error e => rw [hr] at h; cases h
      | ok N' =>
        rw [hr] at h
        simp only [Except.map, Except.ok.injEq] at h
        subst h
        simp only [List.mem_cons] at hi
        rcases hi with rfl | hi
        · exact findPath_mem hv
        · exact locateA_ids qs N' hr i hi

theorem inv_prunePathsA {Q : Nat → Prop} {s0 s1 s2 : Store} {treeSep : Str} {r : Nat}
    {paths : List Str} {exact : Bool} {sepArg : Str} (h : Inv Q s0 s1) (hr : Q r)
    (he : prunePathsA treeSep s1 r paths exact sepArg = .ok s2) : Inv Q s0 s2 := by
  unfold prunePathsA at he
  split at he
  · cases he; exact h
  · cases hl : locateA treeSep (ancNames s1 r) (toTree s1 s1.n r) sepArg paths with
    | error e => rw [hl] at he; cases he
    | ok N =>
      rw [hl] at he
      simp only [Except.map, Except.ok.injEq] at he
      subst he
      have hN : ∀ i ∈ N, Q i := fun i hi =>
        toTree_ids h.1 _ _ hr i (locateA_ids paths N hl i hi)
      have hA0 : ∀ a ∈ N.flatMap (ancestors s1 s1.n), Q a := by
        intro a ha
        rcases List.mem_flatMap.1 ha with ⟨x, hx, hax⟩
        exact ancestors_Q h.1 _ x (hN x hx) a hax
      apply inv_detachLoop _ _ h
      intro a ha
      split at ha
      · rcases List.mem_append.1 ha with ha | ha
        · exact hA0 a ha
        · exact hN a ha
      · exact hA0 a ha

/-- `pruneA` works on a copy: for any boundary `k ≤ s.n` that the store respects, the cells
    below `k` are untouched, the result node is above, and the boundary is still respected -/
theorem pruneA_frame_gen {treeSep : Str} {s : Store} {v : Nat} {paths : List Str} {exact : Bool}
    {sepArg : Str} {md : Nat} (k : Nat) (hs : Sep s k) (hk : k ≤ s.n) {r : Store × Nat}
    (h : pruneA treeSep s v paths exact sepArg md = .ok r) :
    (∀ i, i < k → r.1.cell? i = s.cell? i) ∧ k ≤ r.2 ∧ Sep r.1 k := by
  unfold pruneA at h
  split at h
  · cases h
  · have hc : Inv (k ≤ ·) s (deepCopy s v).1 :=
      ⟨(sep_iff_ge _ k).1 (sep_deepCopy s v k hs hk),
        fun i hi => deepCopy_cell_lo s v i (by omega)⟩
    have hr : k ≤ (deepCopy s v).2 := by rw [deepCopy_snd]; omega
    simp only at h
    cases hp : prunePathsA treeSep (deepCopy s v).1 (deepCopy s v).2 paths exact sepArg with
    | error e => rw [hp] at h; cases h
    | ok s2 =>
      rw [hp] at h
      simp only [Except.map, Except.ok.injEq] at h
      subst h
      have h2 : Inv (k ≤ ·) s s2 := inv_prunePathsA hc hr hp
      refine ⟨?_, hr, ?_⟩
      · simp only
        split
        · exact h2.hi.2
        · exact (inv_depthCutA _ md h2 hr).hi.2
      · simp only
        split
        · exact h2.hi.1
        · exact (inv_depthCutA _ md h2 hr).hi.1

/-! ## `getSubtreeA` -/

theorem subtreeFindA_Q {Q : Nat → Prop} {s1 : Store} (hs : SepQ s1 Q) {treeSep : Str} {r : Nat}
    {q : Str} {w : Nat} (hr : Q r) (h : subtreeFindA treeSep s1 r q = .ok w) : Q w := by
  unfold subtreeFindA at h
  split at h
  · cases h; exact hr
  · split at h
    · cases h
    · cases h
    · next v hv =>
      cases h
      exact toTree_ids hs _ _ hr _ (findPath_mem hv)

theorem getSubtreeA_frame {treeSep : Str} {s : Store} {v : Nat} {q : Str} {md : Nat}
    (hc : Closed s) {r : Store × Nat} (h : getSubtreeA treeSep s v q md = .ok r) :
    (∀ i, i < s.n → r.1.cell? i = s.cell? i) ∧ s.n ≤ r.2 ∧ Sep r.1 s.n := by
  unfold getSubtreeA at h
  simp only at h
  have hc1 : Inv (s.n ≤ ·) s (deepCopy s v).1 :=
    ⟨(sep_iff_ge _ _).1 (sep_deepCopy s v s.n (closed_sep s hc) (Nat.le_refl _)),
      fun i hi => deepCopy_cell_lo s v i (by omega)⟩
  have hr : s.n ≤ (deepCopy s v).2 := by rw [deepCopy_snd]; omega
  cases hf : subtreeFindA treeSep (deepCopy s v).1 (deepCopy s v).2 q with
  | error e => rw [hf] at h; cases h
  | ok w =>
    rw [hf] at h
    simp only [Except.bind] at h
    have hw : s.n ≤ w := subtreeFindA_Q (Q := (s.n ≤ ·)) hc1.1 hr hf
    have h2 : Inv (s.n ≤ ·) s
        (if ((deepCopy s v).1.parentOf w).isSome then setParent (deepCopy s v).1 w none
          else (deepCopy s v).1) := by
      split
      · exact inv_setParent w none hc1 hw (fun _ e => by cases e)
      · exact hc1
    split at h
    · cases h
      exact ⟨h2.hi.2, hw, h2.hi.1⟩
    · have hn : s.n ≤ (if ((deepCopy s v).1.parentOf w).isSome then setParent (deepCopy s v).1 w none
          else (deepCopy s v).1).n := by
        split
        · rw [n_setParent, deepCopy_n]; omega
        · rw [deepCopy_n]; omega
      have := pruneA_frame_gen s.n h2.hi.1 hn h
      exact ⟨fun i hi => (this.1 i hi).trans (h2.hi.2 i hi), this.2.1, this.2.2⟩

/-! ## `cloneA` -/

mutual
theorem inv_cloneKids {k : Nat} {s0 : Store} : ∀ (cs : List Tree) (np : Nat) (st : Store),
    Inv (k ≤ ·) s0 st → k ≤ st.n → k ≤ np →
      Inv (k ≤ ·) s0 (cloneKids np cs st) ∧ k ≤ (cloneKids np cs st).n
  | [], np, st, h, hn, _ => by
    simp only [cloneKids]
    exact ⟨h, hn⟩
  | c :: cs, np, st, h, hn, hp => by
    simp only [cloneKids]
    have ha : Inv (k ≤ ·) s0 (alloc st c.name (Helper.publicAttrs c.attrs)).1 :=
      inv_alloc _ _ h (fun i hi => Nat.le_trans hn hi)
    have hs2 := inv_setParent (alloc st c.name (Helper.publicAttrs c.attrs)).2 (some np) ha
      (by rw [alloc_snd]; exact hn) (fun q e => by cases e; exact hp)
    have hn2 : k ≤ (setParent (alloc st c.name (Helper.publicAttrs c.attrs)).1
        (alloc st c.name (Helper.publicAttrs c.attrs)).2 (some np)).n := by
      rw [n_setParent, alloc_n]; omega
    have h3 := inv_cloneNode c (alloc st c.name (Helper.publicAttrs c.attrs)).2 _ hs2 hn2
      (by rw [alloc_snd]; exact hn)
    exact inv_cloneKids cs np _ h3.1 h3.2 hp
theorem inv_cloneNode {k : Nat} {s0 : Store} : ∀ (t : Tree) (ni : Nat) (st : Store),
    Inv (k ≤ ·) s0 st → k ≤ st.n → k ≤ ni →
      Inv (k ≤ ·) s0 (cloneNode ni t st) ∧ k ≤ (cloneNode ni t st).n
  | .node _ _ _ cs, ni, st, h, hn, hi => by
    simp only [cloneNode]
    exact inv_cloneKids cs ni st h hn hi
end

theorem cloneA_frame {s : Store} (v : Nat) (hc : Closed s) :
    (∀ i, i < s.n → (cloneA s v).1.cell? i = s.cell? i) ∧ s.n ≤ (cloneA s v).2
      ∧ Sep (cloneA s v).1 s.n := by
  have h0 : Inv (s.n ≤ ·) s s := inv_hi_of_sep (closed_sep s hc)
  unfold cloneA
  simp only
  have ha := inv_alloc (toTree s s.n (rootOf s s.n v)).name
    (Helper.publicAttrs (toTree s s.n (rootOf s s.n v)).attrs) h0 (fun i hi => hi)
  have h1 := (inv_cloneNode (toTree s s.n (rootOf s s.n v))
    (alloc s (toTree s s.n (rootOf s s.n v)).name
      (Helper.publicAttrs (toTree s s.n (rootOf s s.n v)).attrs)).2 _ ha
    (by rw [alloc_n]; omega) (Nat.le_refl _)).1
  exact ⟨h1.hi.2, Nat.le_refl _, h1.hi.1⟩

end CopyStore
