import BigtreeProofs.Lemmas.DagClosure
/-! `go_to`: the recursion collects exactly the directed paths to the target, each once. -/

namespace Dag
open List

theorem nodup_flatMap_of {α β} {f : α → List β} {l : List α} (hl : l.Nodup)
    (hf : ∀ a ∈ l, (f a).Nodup)
    (hd : ∀ a ∈ l, ∀ b ∈ l, a ≠ b → ∀ x ∈ f a, x ∉ f b) : (l.flatMap f).Nodup := by
  induction l with
  | nil => simp
  | cons a l ih =>
    rw [flatMap_cons, nodup_append]
    refine ⟨hf a (by simp), ih (nodup_cons.1 hl).2 (fun b hb => hf b (by simp [hb]))
      (fun b hb c hc => hd b (by simp [hb]) c (by simp [hc])), ?_⟩
    intro x hx y hy hxy
    subst hxy
    obtain ⟨b, hb, hxb⟩ := mem_flatMap.1 hy
    have hab : a ≠ b := fun h => (nodup_cons.1 hl).1 (h ▸ hb)
    exact hd a (by simp) b (by simp [hb]) hab x hx hxb

/-- everything one call of `_recursive_path` contributes to `self.__path` (directly or through
    the `ans` its caller appends) -/
def goAll (g : Dag) (tgt : Nat) (f cur : Nat) (path : List Nat) : List (List Nat) :=
  (g.goRec tgt f cur path).2 ++ (g.goRec tgt f cur path).1.toList

theorem goAll_zero {g : Dag} {tgt cur : Nat} {path : List Nat} : g.goAll tgt 0 cur path = [] := by
  simp [goAll, goRec]

theorem goAll_succ {g : Dag} {tgt f cur : Nat} {path : List Nat} :
    g.goAll tgt (f + 1) cur path =
      if cur = tgt then [path ++ [cur]]
      else (g.children cur).flatMap fun c => g.goAll tgt f c (path ++ [cur]) := by
  unfold goAll
  simp only [goRec]
  split <;> simp

theorem goRec_snd_of_ne {g : Dag} {tgt f cur : Nat} {path : List Nat} (h : cur ≠ tgt) :
    (g.goRec tgt (f + 1) cur path).2 = g.goAll tgt (f + 1) cur path := by
  unfold goAll
  simp [goRec, h]

/-- what the recursion collects has the shape `path ++ (a directed path cur … tgt)` -/
theorem mem_goAll_imp {g : Dag} {tgt : Nat} : ∀ {f cur : Nat} {path l : List Nat},
    l ∈ g.goAll tgt f cur path →
    ∃ q, l = path ++ cur :: q ∧ g.IsPath (cur :: q) ∧ (cur :: q).getLast? = some tgt ∧
      q.length < f := by
  intro f
  induction f with
  | zero => intro cur path l h; simp [goAll_zero] at h
  | succ f ih =>
    intro cur path l h
    rw [goAll_succ] at h
    split at h
    · rename_i hc
      simp only [mem_singleton] at h
      exact ⟨[], by simp [h], trivial, by simp [hc], by simp⟩
    · obtain ⟨c, hc, hl⟩ := mem_flatMap.1 h
      obtain ⟨q, hq, hp, hlast, hlen⟩ := ih hl
      refine ⟨c :: q, by simp [hq], ⟨hc, hp⟩, ?_, by simp; omega⟩
      rw [getLast?_cons_cons]; exact hlast

theorem mem_goAll_of {g : Dag} (wf : g.DWF) {tgt : Nat} : ∀ {f cur : Nat} {path q : List Nat},
    cur ∈ g.nodes → g.IsPath (cur :: q) → (cur :: q).getLast? = some tgt → q.length < f →
    path ++ cur :: q ∈ g.goAll tgt f cur path := by
  intro f
  induction f with
  | zero => intro cur path q _ _ _ h; omega
  | succ f ih =>
    intro cur path q hcur hp hlast hlen
    rw [goAll_succ]
    cases q with
    | nil =>
      simp at hlast
      simp [hlast]
    | cons c q =>
      have hne : cur ≠ tgt := by
        rintro rfl
        have hnd := (path_nodup wf hcur hp).1
        rw [getLast?_cons_cons] at hlast
        have : cur ∈ c :: q := mem_of_getLast? hlast
        exact (nodup_cons.1 hnd).1 this
      rw [if_neg hne]
      refine mem_flatMap.2 ⟨c, hp.1, ?_⟩
      rw [getLast?_cons_cons] at hlast
      have := ih (path := path ++ [cur]) (wf.chi_closed _ hcur _ hp.1).1 hp.2 hlast
        (by simp at hlen; omega)
      simpa using this

theorem nodup_goAll {g : Dag} (wf : g.DWF) {tgt : Nat} : ∀ {f cur : Nat} {path : List Nat},
    cur ∈ g.nodes → (g.goAll tgt f cur path).Nodup := by
  intro f
  induction f with
  | zero => intro cur path _; simp [goAll_zero]
  | succ f ih =>
    intro cur path hcur
    rw [goAll_succ]
    split
    · simp
    · apply nodup_flatMap_of (wf.nodup_chi _ hcur)
      · intro c hc; exact ih (wf.chi_closed _ hcur _ hc).1
      · intro c _ c' _ hne l hl hl'
        obtain ⟨q, hq, _⟩ := mem_goAll_imp hl
        obtain ⟨q', hq', _⟩ := mem_goAll_imp hl'
        rw [hq] at hq'
        have := append_cancel_left hq'
        simp at this
        exact hne this.1

end Dag
