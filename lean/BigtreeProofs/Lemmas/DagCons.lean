import BigtreeProofs.Lemmas.DagClosure
/-! Constructor lemma: adding the pairs of a relation one by one through `c.parents = [p]`
(`setParent`: loop check with `ancestors`, then append to both adjacency lists) builds exactly the
relation when it is acyclic, and is refused with TreeError at the first pair that closes a cycle. -/

namespace Dag
open List

/-- the relation `rel` seen as a graph (only `children`/`parents` matter for `Reach`) -/
def relGraph (rel : List Edge) : Dag := ofEdges 0 rel

theorem mem_relGraph_children {rel : List Edge} {a b : Nat} :
    b ∈ (relGraph rel).children a ↔ (a, b) ∈ rel := by
  simp only [relGraph, ofEdges, mem_map, mem_filter, beq_iff_eq]
  constructor
  · rintro ⟨⟨x, y⟩, ⟨he, h1⟩, h2⟩; simp at h1 h2; subst h1 h2; exact he
  · intro h; exact ⟨(a, b), ⟨h, rfl⟩, rfl⟩

/-- the relation contains no directed cycle -/
def RelAcyclic (rel : List Edge) : Prop := ∀ x, ¬ (relGraph rel).Reach x x

theorem reach_mono {g g' : Dag} (h : ∀ a b, b ∈ g.children a → b ∈ g'.children a) {x y : Nat}
    (hr : g.Reach x y) : g'.Reach x y := by
  induction hr with
  | edge he => exact .edge (h _ _ he)
  | step he _ ih => exact .step (h _ _ he) ih

/-- reachability after adding one edge `p → c` -/
theorem reach_add_edge {g g' : Dag} {p c : Nat}
    (h : ∀ a b, b ∈ g'.children a → b ∈ g.children a ∨ (a = p ∧ b = c)) {x y : Nat}
    (hr : g'.Reach x y) :
    g.Reach x y ∨ ((x = p ∨ g.Reach x p) ∧ (c = y ∨ g.Reach c y)) := by
  induction hr with
  | @edge a b he =>
    rcases h _ _ he with he | ⟨rfl, rfl⟩
    · exact Or.inl (.edge he)
    · exact Or.inr ⟨Or.inl rfl, Or.inl rfl⟩
  | @step a b d he _ ih =>
    rcases h _ _ he with he | ⟨rfl, rfl⟩
    · rcases ih with ih | ⟨ih1, ih2⟩
      · exact Or.inl (.step he ih)
      · refine Or.inr ⟨Or.inr ?_, ih2⟩
        rcases ih1 with rfl | ih1
        · exact .edge he
        · exact .step he ih1
    · rcases ih with ih | ⟨_, ih2⟩
      · exact Or.inr ⟨Or.inl rfl, Or.inr ih⟩
      · exact Or.inr ⟨Or.inl rfl, ih2⟩

theorem relAcyclic_mono {rel rel' : List Edge} (h : ∀ e ∈ rel, e ∈ rel') (ha : RelAcyclic rel') :
    RelAcyclic rel := by
  intro x hx
  exact ha x (reach_mono (fun a b hb => mem_relGraph_children.2 (h _ (mem_relGraph_children.1 hb))) hx)

/-- when does one more pair close a cycle -/
theorem relAcyclic_snoc {pre : List Edge} {p c : Nat} (ha : RelAcyclic pre) :
    RelAcyclic (pre ++ [(p, c)]) ↔ p ≠ c ∧ ¬ (relGraph pre).Reach c p := by
  constructor
  · intro h
    have hpc : (relGraph (pre ++ [(p, c)])).Reach p c :=
      .edge (mem_relGraph_children.2 (by simp))
    refine ⟨?_, ?_⟩
    · rintro rfl; exact h p hpc
    · intro hr
      have : (relGraph (pre ++ [(p, c)])).Reach c p :=
        reach_mono (fun a b hb => mem_relGraph_children.2
          (by simp [mem_relGraph_children.1 hb])) hr
      exact h p (hpc.trans this)
  · rintro ⟨hne, hnr⟩ x hx
    have hstep : ∀ a b, b ∈ (relGraph (pre ++ [(p, c)])).children a →
        b ∈ (relGraph pre).children a ∨ (a = p ∧ b = c) := by
      intro a b hb
      have := mem_relGraph_children.1 hb
      simp only [mem_append, mem_singleton, Prod.mk.injEq] at this
      rcases this with h | h
      · exact Or.inl (mem_relGraph_children.2 h)
      · exact Or.inr h
    rcases reach_add_edge hstep hx with h | ⟨h1, h2⟩
    · exact ha x h
    · rcases h1 with rfl | h1 <;> rcases h2 with h2 | h2
      · exact hne h2.symm
      · exact hnr h2
      · subst h2; exact hnr h1
      · exact hnr (h2.trans h1)

/-- the DAG under construction stores exactly the pairs processed so far -/
structure Tracks (pre : List Edge) (g : Dag) : Prop where
  nodup_nodes : g.nodes.Nodup
  ends_mem : ∀ e ∈ pre, e.1 ∈ g.nodes ∧ e.2 ∈ g.nodes
  chi : ∀ a b, b ∈ g.children a ↔ (a, b) ∈ pre
  par : ∀ a b, a ∈ g.parents b ↔ (a, b) ∈ pre
  nodup_par : ∀ v, (g.parents v).Nodup
  nodup_chi : ∀ v, (g.children v).Nodup

theorem tracks_empty : Tracks [] empty :=
  ⟨by simp [empty], by simp, by simp [empty], by simp [empty], by simp [empty], by simp [empty]⟩

theorem Tracks.reach_iff {pre : List Edge} {g : Dag} (t : Tracks pre g) {x y : Nat} :
    g.Reach x y ↔ (relGraph pre).Reach x y :=
  ⟨reach_mono fun a b hb => mem_relGraph_children.2 ((t.chi a b).1 hb),
   reach_mono fun a b hb => (t.chi a b).2 (mem_relGraph_children.1 hb)⟩

theorem Tracks.dwf {pre : List Edge} {g : Dag} (t : Tracks pre g) (ha : RelAcyclic pre) : g.DWF where
  nodup_nodes := t.nodup_nodes
  par_closed := fun v _ p hp =>
    ⟨(t.ends_mem _ ((t.par p v).1 hp)).1, (t.chi p v).2 ((t.par p v).1 hp)⟩
  chi_closed := fun v _ c hc =>
    ⟨(t.ends_mem _ ((t.chi v c).1 hc)).2, (t.par v c).2 ((t.chi v c).1 hc)⟩
  nodup_par := fun v _ => t.nodup_par v
  nodup_chi := fun v _ => t.nodup_chi v
  acyclic := fun x _ hx => ha x (t.reach_iff.1 hx)

theorem Tracks.edges_iff {pre : List Edge} {g : Dag} (t : Tracks pre g) {e : Edge} :
    e ∈ g.edges ↔ e ∈ pre := by
  obtain ⟨a, b⟩ := e
  simp only [edges, mem_flatMap, mem_map, Prod.mk.injEq]
  constructor
  · rintro ⟨p, _, c, hc, rfl, rfl⟩; exact (t.chi _ _).1 hc
  · intro h; exact ⟨a, (t.ends_mem _ h).1, b, (t.chi _ _).2 h, rfl, rfl⟩

theorem Tracks.newNode {pre : List Edge} {g : Dag} (t : Tracks pre g) (x : Nat) (a : Attrs) :
    Tracks pre (g.newNode x a) := by
  unfold Dag.newNode
  split
  · exact t
  · rename_i hx
    exact ⟨by
        have := t.nodup_nodes
        rw [nodup_append]; exact ⟨this, by simp, by
          intro y hy z hz hyz; simp at hz; subst hz; subst hyz; exact hx hy⟩,
      fun e he => ⟨by simp [(t.ends_mem e he).1], by simp [(t.ends_mem e he).2]⟩,
      t.chi, t.par, t.nodup_par, t.nodup_chi⟩

theorem Tracks.setAttrs {pre : List Edge} {g : Dag} (t : Tracks pre g) (x : Nat) (a : Attrs) :
    Tracks pre (g.setAttrs x a) :=
  ⟨t.nodup_nodes, t.ends_mem, t.chi, t.par, t.nodup_par, t.nodup_chi⟩

theorem nodes_newNode {g : Dag} {x y : Nat} {a : Attrs} :
    y ∈ (g.newNode x a).nodes ↔ y ∈ g.nodes ∨ y = x := by
  unfold Dag.newNode
  split
  · rename_i hx
    constructor
    · exact Or.inl
    · rintro (h | rfl); exact h; exact hx
  · simp

/-- `c.parents = [p]` on the DAG that stores `pre`: accepted (and then stores `pre ++ [(p, c)]`)
    iff the new pair closes no cycle; otherwise TreeError -/
theorem Tracks.setParent {pre : List Edge} {g : Dag} (t : Tracks pre g) (ha : RelAcyclic pre)
    {c p : Nat} (hc : c ∈ g.nodes) (hp : p ∈ g.nodes) :
    (RelAcyclic (pre ++ [(p, c)]) →
      ∃ g', g.setParent c p = .ok g' ∧ Tracks (pre ++ [(p, c)]) g' ∧ g'.nodes = g.nodes ∧
        g'.attrs = g.attrs) ∧
    (¬ RelAcyclic (pre ++ [(p, c)]) → g.setParent c p = .error .tree) := by
  have wf := t.dwf ha
  have hanc : c ∈ g.ancestors p ↔ (relGraph pre).Reach c p := by
    rw [mem_ancestors wf hp, t.reach_iff]; simp [hc]
  have hcheck : (!(g.ancestors p).isEmpty && decide (c ∈ g.ancestors p)) = decide (c ∈ g.ancestors p) := by
    by_cases h : c ∈ g.ancestors p
    · have : (g.ancestors p).isEmpty = false := by
        cases hl : g.ancestors p with
        | nil => rw [hl] at h; cases h
        | cons _ _ => rfl
      simp [h, this]
    · simp [h]
  rw [relAcyclic_snoc ha]
  constructor
  · rintro ⟨hne, hnr⟩
    unfold Dag.setParent
    rw [if_neg hne, hcheck]
    have : ¬ c ∈ g.ancestors p := fun h => hnr (hanc.1 h)
    simp only [this, decide_false, Bool.false_eq_true, if_false]
    by_cases hpc : p ∈ g.parents c
    · rw [if_pos hpc]
      have hin : (p, c) ∈ pre := (t.par p c).1 hpc
      refine ⟨g, rfl, ?_, rfl, rfl⟩
      exact ⟨t.nodup_nodes,
        fun e he => by
          rcases mem_append.1 he with h | h
          · exact t.ends_mem e h
          · simp at h; subst h; exact ⟨hp, hc⟩,
        fun a b => by rw [t.chi]; simp; intro h1 h2; subst h1 h2; exact hin,
        fun a b => by rw [t.par]; simp; intro h1 h2; subst h1 h2; exact hin,
        t.nodup_par, t.nodup_chi⟩
    · rw [if_neg hpc]
      have hcp : c ∉ g.children p := fun h => hpc ((t.par p c).2 ((t.chi p c).1 h))
      refine ⟨_, rfl, ?_, rfl, rfl⟩
      refine ⟨t.nodup_nodes, ?_, ?_, ?_, ?_, ?_⟩
      · intro e he
        rcases mem_append.1 he with h | h
        · exact t.ends_mem e h
        · simp at h; subst h; exact ⟨hp, hc⟩
      · intro a b
        simp only [mem_append, mem_singleton, Prod.mk.injEq]
        by_cases hap : a = p
        · subst hap; simp [t.chi]
        · simp [hap, t.chi]
      · intro a b
        simp only [mem_append, mem_singleton, Prod.mk.injEq]
        by_cases hbc : b = c
        · subst hbc; simp [t.par]
        · simp [hbc, t.par]
      · intro v
        by_cases hvc : v = c
        · subst hvc
          simp only [if_true]
          rw [nodup_append]
          exact ⟨t.nodup_par v, by simp, by
            intro x hx y hy hxy; simp at hy; subst hy; subst hxy; exact hpc hx⟩
        · simp only [hvc, if_false]; exact t.nodup_par v
      · intro v
        by_cases hvp : v = p
        · subst hvp
          simp only [if_true]
          rw [nodup_append]
          exact ⟨t.nodup_chi v, by simp, by
            intro x hx y hy hxy; simp at hy; subst hy; subst hxy; exact hcp hx⟩
        · simp only [hvp, if_false]; exact t.nodup_chi v
  · intro hbad
    unfold Dag.setParent
    by_cases hne : p = c
    · rw [if_pos hne]
    · rw [if_neg hne, hcheck]
      have : c ∈ g.ancestors p := by
        rw [hanc]
        exact Classical.not_not.1 fun hnr => hbad ⟨hne, hnr⟩
      simp [this]

/-! ### `list_to_dag` -/

/-- every node in the table is an end point of a processed pair -/
def EndsOnly (pre : List Edge) (g : Dag) : Prop :=
  ∀ x ∈ g.nodes, ∃ e ∈ pre, x = e.1 ∨ x = e.2

theorem listStep_error (err : Err) (e : Edge) : listStep (.error err) e = .error err := rfl

theorem foldl_listStep_error (err : Err) (rel : List Edge) :
    rel.foldl listStep (.error err) = .error err := by
  induction rel with
  | nil => rfl
  | cons e rel ih => simpa [foldl_cons, listStep_error] using ih

theorem listStep_spec {pre : List Edge} {b : Built} (t : Tracks pre b.dag) (ha : RelAcyclic pre)
    (hk : EndsOnly pre b.dag) (e : Edge) :
    (RelAcyclic (pre ++ [e]) →
      ∃ b', listStep (.ok b) e = .ok b' ∧ Tracks (pre ++ [e]) b'.dag ∧ EndsOnly (pre ++ [e]) b'.dag ∧
        b'.ret = some e.1) ∧
    (¬ RelAcyclic (pre ++ [e]) → listStep (.ok b) e = .error .tree) := by
  obtain ⟨p, c⟩ := e
  have t2 : Tracks pre ((b.dag.newNode p []).newNode c []) := (t.newNode p []).newNode c []
  have hc : c ∈ ((b.dag.newNode p []).newNode c []).nodes := nodes_newNode.2 (Or.inr rfl)
  have hp : p ∈ ((b.dag.newNode p []).newNode c []).nodes :=
    nodes_newNode.2 (Or.inl (nodes_newNode.2 (Or.inr rfl)))
  obtain ⟨hok, hbad⟩ := t2.setParent ha hc hp
  constructor
  · intro hacy
    obtain ⟨g', hg', t', hn', _⟩ := hok hacy
    refine ⟨{ dag := g', ret := some p }, ?_, t', ?_, rfl⟩
    · show Except.map _ (Dag.setParent _ c p) = _
      rw [hg']; rfl
    · intro x hx
      rw [show ({ dag := g', ret := some p } : Built).dag = g' from rfl, hn'] at hx
      rcases nodes_newNode.1 hx with hx | rfl
      · rcases nodes_newNode.1 hx with hx | rfl
        · obtain ⟨e, he, hxe⟩ := hk x hx
          exact ⟨e, by simp [he], hxe⟩
        · exact ⟨(x, c), by simp, Or.inl rfl⟩
      · exact ⟨(p, x), by simp, Or.inr rfl⟩
  · intro hcyc
    show Except.map _ (Dag.setParent _ c p) = _
    rw [hbad hcyc]; rfl

theorem foldl_listStep_spec : ∀ (rel pre : List Edge) (b : Built), Tracks pre b.dag →
    RelAcyclic pre → EndsOnly pre b.dag →
    (RelAcyclic (pre ++ rel) →
      ∃ b', rel.foldl listStep (.ok b) = .ok b' ∧ Tracks (pre ++ rel) b'.dag ∧
        EndsOnly (pre ++ rel) b'.dag ∧ (rel ≠ [] → b'.ret = rel.getLast?.map (·.1))) ∧
    (¬ RelAcyclic (pre ++ rel) → rel.foldl listStep (.ok b) = .error .tree) := by
  intro rel
  induction rel with
  | nil =>
    intro pre b t ha hk
    simp only [append_nil, foldl_nil]
    exact ⟨fun _ => ⟨b, rfl, t, hk, fun h => absurd rfl h⟩, fun h => absurd ha h⟩
  | cons e rel ih =>
    intro pre b t ha hk
    have happ : pre ++ e :: rel = (pre ++ [e]) ++ rel := by simp
    rw [happ, foldl_cons]
    obtain ⟨hok, hbad⟩ := listStep_spec t ha hk e
    by_cases hacy : RelAcyclic (pre ++ [e])
    · obtain ⟨b1, hb1, t1, hk1, hret1⟩ := hok hacy
      rw [hb1]
      obtain ⟨ihok, ihbad⟩ := ih (pre ++ [e]) b1 t1 hacy hk1
      refine ⟨fun h => ?_, ihbad⟩
      obtain ⟨b', hb', t', hk', hret'⟩ := ihok h
      refine ⟨b', hb', t', hk', fun _ => ?_⟩
      cases rel with
      | nil => simp at hb'; subst hb'; simpa using hret1
      | cons e' rel' => rw [hret' (by simp)]; simp [getLast?_cons_cons]
    · rw [hbad hacy, foldl_listStep_error]
      refine ⟨fun h => absurd (relAcyclic_mono (fun x hx => mem_append_left _ hx) h) hacy,
        fun _ => rfl⟩

/-- **constructor lemma** for `list_to_dag` -/
theorem listToDag_spec (rel : List Edge) (hne : rel ≠ []) :
    (RelAcyclic rel →
      ∃ b, listToDag rel = .ok b ∧ Tracks rel b.dag ∧ EndsOnly rel b.dag ∧
        b.ret = rel.getLast?.map (·.1)) ∧
    (¬ RelAcyclic rel → listToDag rel = .error .tree) := by
  have hemp : rel.isEmpty = false := by cases rel <;> simp_all
  unfold listToDag
  rw [hemp]
  simp only [Bool.false_eq_true, if_false]
  have hnil : RelAcyclic [] := by
    intro x hx
    cases hx with
    | edge h => simp [relGraph, ofEdges] at h
    | step h _ => simp [relGraph, ofEdges] at h
  obtain ⟨hok, hbad⟩ := foldl_listStep_spec rel [] { dag := empty, ret := none } tracks_empty hnil
    (by intro x hx; simp [empty] at hx)
  simp only [nil_append] at hok hbad
  refine ⟨fun h => ?_, hbad⟩
  obtain ⟨b, hb, t, hk, hret⟩ := hok h
  exact ⟨b, hb, t, hk, hret hne⟩

end Dag
