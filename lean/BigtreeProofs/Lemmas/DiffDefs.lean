import BigtreeModel.Helper
import BigtreeModel.HelperDiff
/-!
# C15 (get_tree_diff): auxiliary definitions shared by the `Diff*.lean` lemma files

* `relabel`   — rename every component of a path by a function of the (original) prefix ending there
* `rows`      — compositional form of `compRows` (no accumulators)
* `SibU`      — sibling names are distinct everywhere in the tree
* `AllSub`    — a predicate holds at every node
* `mapN`      — change names/attributes of every node as a function of its original path
-/
namespace Helper

/-- component `i` of `q` becomes `fn (anc ++ q.take (i+1)) q[i]` -/
def relabel (fn : List Str → Str → Str) : List Str → List Str → List Str
  | _, [] => []
  | anc, n :: q => fn (anc ++ [n]) n :: relabel fn (anc ++ [n]) q

mutual
/-- (names from this node down, attributes) of every node, pre-order -/
def rows : Tree → List (List Str × Attrs)
  | .node _ n av cs => ([n], av) :: (rowsL cs).map fun r => (n :: r.1, r.2)
def rowsL : List Tree → List (List Str × Attrs)
  | [] => []
  | c :: cs => rows c ++ rowsL cs
end

/-- the paths of a tree, relative to (and including) its root -/
def keys (t : Tree) : List (List Str) := (rows t).map (·.1)
def keysL (cs : List Tree) : List (List Str) := (rowsL cs).map (·.1)

/-- `P` holds at every node -/
inductive AllSub (P : Tree → Prop) : Tree → Prop
  | mk (i : Nat) (n : Str) (av : Attrs) (cs : List Tree) :
      P (.node i n av cs) → (∀ c ∈ cs, AllSub P c) → AllSub P (.node i n av cs)

/-- sibling names are distinct at every node -/
def SibU (t : Tree) : Prop := AllSub (fun s => (s.children.map Tree.name).Nodup) t

mutual
/-- rename / re-attribute every node as a function of its original path (`anc` = original names
    of the proper ancestors) -/
def mapN (fn : List Str → Str → Str) (fa : List Str → Attrs → Attrs) (anc : List Str) : Tree → Tree
  | .node i n av cs => .node i (fn (anc ++ [n]) n) (fa (anc ++ [n]) av) (mapNL fn fa (anc ++ [n]) cs)
def mapNL (fn : List Str → Str → Str) (fa : List Str → Attrs → Attrs) (anc : List Str) :
    List Tree → List Tree
  | [] => []
  | c :: cs => mapN fn fa anc c :: mapNL fn fa anc cs
end

end Helper
