import BigtreeProofs.Lemmas.ModifyStep
/-!
# C08 helper lemmas: the edits (delete, shift, copy) on entry lists
-/
namespace Modify

theorem child_mem_paths {q : List Str} {t P y : Tree} (hu : SibUnique t) (hP : getRel q t = some P)
    (hy : y ∈ P.children) : q ++ [y.name] ∈ paths t := by
  rw [mem_paths_iff hu, getRel_append, hP]
  simp [getRel_cons, findChild_of_mem hy (hu.sub hP).kids]

theorem mem_paths_removeAt {p q : List Str} {t : Tree} (hp : p ≠ []) (hu : SibUnique t) :
    q ∈ paths (removeAt p t) ↔ q ∈ paths t ∧ p.isPrefixOf q = false := by
  unfold paths
  rw [flat_removeAt hp hu]
  constructor
  · intro h
    obtain ⟨e, he, rfl⟩ := List.mem_map.1 h
    obtain ⟨h1, h2⟩ := List.mem_filter.1 he
    exact ⟨List.mem_map.2 ⟨e, h1, rfl⟩, by simpa [under] using h2⟩
  · rintro ⟨h, h2⟩
    obtain ⟨e, he, rfl⟩ := List.mem_map.1 h
    exact List.mem_map.2 ⟨e, List.mem_filter.2 ⟨he, by simpa [under] using h2⟩, rfl⟩

theorem rebase_injective (p : List Str) : Function.Injective (rebase p) := by
  intro a b h
  simp only [rebase, Prod.mk.injEq, List.append_cancel_left_eq] at h
  exact Prod.ext h.1 h.2

theorem under_rebase (p : List Str) (e : Entry) : under p (rebase p e) = true := by
  simp [under, rebase, List.isPrefixOf_iff_prefix]

theorem not_prefix_of_longer (p : List Str) (l : Str) : (p ++ [l]).isPrefixOf p = false := by
  cases h : (p ++ [l]).isPrefixOf p with
  | false => rfl
  | true =>
    rw [List.isPrefixOf_iff_prefix] at h
    have := h.length_le
    simp at this
    omega

theorem prefix_trans' {a b d : List Str} (h1 : a.isPrefixOf b = true) (h2 : b.isPrefixOf d = true) :
    a.isPrefixOf d = true := by
  rw [List.isPrefixOf_iff_prefix] at *
  exact h1.trans h2

/-- the subtree found at `fp` is not changed by `grow` along a path that does not pass through `fp` -/
theorem flat_sub_grow {fp ns : List Str} {t t1 F F1 : Tree} {k : Nat}
    (hu : SibUnique t) (hu1 : SibUnique t1)
    (hold : (flat t1).filter (fun e => decide (e.2.1 < k)) = flat t)
    (hnew : ∀ e ∈ flat t1, ¬ e.2.1 < k → e.1.isPrefixOf ns = true)
    (hin : fp.isPrefixOf ns = false)
    (hF : getRel fp t = some F) (hF1 : getRel fp t1 = some F1) : flat F1 = flat F := by
  have h1 := flat_filter_under hF hu
  have h2 := flat_filter_under hF1 hu1
  rw [← hold, List.filter_filter] at h1
  have : (flat t1).filter (fun e => under fp e && decide (e.2.1 < k)) = (flat t1).filter (under fp) := by
    apply List.filter_congr
    intro e he
    cases hue : under fp e with
    | false => rfl
    | true =>
      by_cases hlt : e.2.1 < k
      · simp [hlt]
      · exfalso
        have := prefix_trans' hue (hnew e he hlt)
        rw [hin] at this; cases this
  rw [this, h2] at h1
  exact ((List.map_inj_right (fun x y h => rebase_injective fp h)).1 h1)

end Modify

namespace Modify

variable {cfg : Cfg} {c : Char}

theorem goodNames_ne {ns : List Str} (h : GoodNames c ns) : ∀ n ∈ ns, n ≠ [] := fun n hn => (h n hn).1

theorem goodNames_mid {r : Str} {p : List Str} {l : Str} (h : GoodNames c (r :: p ++ [l])) :
    GoodNames c p := fun n hn => h n (by simp [hn])

theorem attachOne_ok {pp : List Str} {x t P : Tree} (hP : getRel pp t = some P)
    (hnew : ∀ y ∈ P.children, y.name ≠ x.name) :
    attachOne pp x t = .ok (modifyAt pp (appendKid x) t) := by
  have hany : P.children.any (fun y => y.name == x.name) = false := by
    rw [List.any_eq_false]
    intro y hy
    simpa using hnew y hy
  simp only [attachOne, hP, hany]
  simp

/-- the destination decision when the to-path does not exist: create the parent path -/
theorem decideTo_missing (hc : cfg.Plain c) (t : Tree) (k : Nat) (fp tpar : List Str) (l : Str)
    (hg : GoodNames c (t.name :: tpar ++ [l])) (hD : getRel (tpar ++ [l]) t = none)
    {t1 : Tree} {k1 : Nat} (hgrow : grow tpar k t = .ok (t1, k1)) :
    decideTo cfg (st0 t k) fp (some (pathStr c t.name (tpar ++ [l])))
      = .ok ⟨t1, k1, some tpar, cfg.mergeChildren⟩ := by
  unfold decideTo
  simp only [if_neg (pathStr_ne_nil (c := c) t.name (tpar ++ [l])), hc.tsep]
  rw [findFullPath_pathStr t (tpar ++ [l]) (by simpa using hg), hD]
  simp only [Option.map_none, decideMissing, hc.tsep, addPath_parent t k tpar l hg, hgrow]

/-- plain shift to a destination that does not exist yet -/
theorem shift_core (hc : cfg.Plain c) (hcp : cfg.copy = false) (hmc : cfg.mergeChildren = false)
    (hml : cfg.mergeLeaves = false) (hdc : cfg.deleteChildren = false)
    (t : Tree) (k : Nat) (fpar tpar : List Str) (l : Str) (F : Tree)
    (hu : SibUnique t) (hk : ∀ e ∈ flat t, e.2.1 < k)
    (hgf : GoodNames c (t.name :: fpar ++ [l])) (hgt : GoodNames c (t.name :: tpar ++ [l]))
    (hF : getRel (fpar ++ [l]) t = some F) (hD : getRel (tpar ++ [l]) t = none)
    (hin : (fpar ++ [l]).isPrefixOf tpar = false) :
    ∃ t' k', copyOrShift cfg (st0 t k)
        [(pathStr c t.name (fpar ++ [l]), some (pathStr c t.name (tpar ++ [l])))] = .ok (st0 t' k') ∧
      k ≤ k' ∧ SibUnique t' ∧
      (flat t').filter (under (tpar ++ [l])) = (flat F).map (rebase (tpar ++ [l])) ∧
      (flat t').filter (fun e => decide (e.2.1 < k) && !under (tpar ++ [l]) e)
        = (flat t).filter (fun e => !under (fpar ++ [l]) e) ∧
      (∀ e ∈ flat t', ¬ e.2.1 < k → e.1.isPrefixOf tpar = true ∧ e.2.1 < k' ∧ e.2.2 = []) ∧
      (∀ q, q.isPrefixOf tpar = true → q ∈ paths t') := by
  have hfpne : fpar ++ [l] ≠ [] := by simp
  obtain ⟨t1, k1, hgrow, hsu1, hkk, hold, hnew, hpaths⟩ :=
    grow_facts (ns := tpar) (goodNames_ne (goodNames_mid hgt)) hu hk
  -- the from-node after the parent path has been created
  have hfp1 : fpar ++ [l] ∈ paths t1 := (hpaths _).2 (Or.inl ((mem_paths_iff hu).2 (by rw [hF]; rfl)))
  obtain ⟨F1, hF1⟩ := Option.isSome_iff_exists.1 ((mem_paths_iff hsu1).1 hfp1)
  have hFF : flat F1 = flat F :=
    flat_sub_grow hu hsu1 hold (fun e he h => (hnew e he h).1) hin hF hF1
  have hF1n : F1.name = l := getRel_name hF1
  -- detach it
  have hsu2 : SibUnique (removeAt (fpar ++ [l]) t1) := hsu1.removeAt
  have hflat2 := flat_removeAt hfpne hsu1
  have htpar2 : tpar ∈ paths (removeAt (fpar ++ [l]) t1) :=
    (mem_paths_removeAt hfpne hsu1).2 ⟨(hpaths _).2 (Or.inr (by simp [List.isPrefixOf_iff_prefix])), hin⟩
  obtain ⟨P2, hP2⟩ := Option.isSome_iff_exists.1 ((mem_paths_iff hsu2).1 htpar2)
  have hnewkid : ∀ y ∈ P2.children, y.name ≠ F1.name := by
    intro y hy hyn
    have h1 := child_mem_paths hsu2 hP2 hy
    rw [hyn, hF1n] at h1
    have h2 := ((mem_paths_removeAt hfpne hsu1).1 h1).1
    rcases (hpaths _).1 h2 with h3 | h3
    · rw [mem_paths_iff hu, hD] at h3; cases h3
    · rw [not_prefix_of_longer] at h3; cases h3
  refine ⟨modifyAt tpar (appendKid F1) (removeAt (fpar ++ [l]) t1), k1, ?_, hkk,
    hsu2.appendAt hP2 (hsu1.sub hF1) hnewkid, ?_, ?_, ?_, ?_⟩
  · -- the call computes this tree
    have hgf' : GoodNames c (t.name :: (fpar ++ [l])) := by simpa using hgf
    have hgt' : GoodNames c (t.name :: (tpar ++ [l])) := by simpa using hgt
    rw [copyOrShift_single _ _ (valid_move hc t k fpar tpar l (by simp [hmc]) hgf hgt)]
    simp only [norm, normFrom_pathStr hc _ _ hgf', normTo_pathStr hc _ _ hgt']
    unfold step
    have hr := resolveFrom_pathStr hc (st0 t k) (fpar ++ [l]) (by simpa using hgf')
    simp only [st0_tree, hF, Option.map_some] at hr
    simp only [hr, decideTo_missing hc t k (fpar ++ [l]) tpar l hgt hD hgrow, attach, hmc,
      Option.isNone_none, if_true, hF1, Option.getD_some, Option.isSome_some, hcp, Bool.not_false,
      Bool.and_true, hml, hdc, attachNode, loops, hin, Bool.and_false, Bool.false_eq_true,
      if_false, attachOne_ok hP2 hnewkid]
  · -- the moved subtree
    have := flat_appendAt_new hP2 hnewkid hsu2 (hsu1.sub hF1)
    rw [hF1n, hFF] at this
    exact this
  · -- the frame
    have h1 := flat_appendAt_old hP2 hnewkid hsu2
    rw [hF1n] at h1
    have : ∀ l' : List Entry,
        l'.filter (fun e => decide (e.2.1 < k) && !under (tpar ++ [l]) e)
          = (l'.filter (fun e => !under (tpar ++ [l]) e)).filter (fun e => decide (e.2.1 < k)) := by
      intro l'; rw [List.filter_filter]
    rw [this, h1, hflat2, List.filter_filter]
    rw [← hold, List.filter_filter]
    apply List.filter_congr
    intro e _
    cases decide (e.2.1 < k) <;> simp
  · -- the new intermediate nodes
    intro e he hlt
    have h1 := flat_appendAt_old hP2 hnewkid hsu2
    have h2 := flat_appendAt_new hP2 hnewkid hsu2 (hsu1.sub hF1)
    rw [hF1n] at h1 h2
    cases hue : under (tpar ++ [l]) e with
    | true =>
      exfalso
      have : e ∈ (flat (modifyAt tpar (appendKid F1) (removeAt (fpar ++ [l]) t1))).filter
          (under (tpar ++ [l])) := List.mem_filter.2 ⟨he, hue⟩
      rw [h2, hFF] at this
      obtain ⟨e0, he0, rfl⟩ := List.mem_map.1 this
      have hmem : rebase (fpar ++ [l]) e0 ∈ (flat F).map (rebase (fpar ++ [l])) :=
        List.mem_map.2 ⟨e0, he0, rfl⟩
      rw [← flat_filter_under hF hu] at hmem
      exact hlt (hk (rebase (fpar ++ [l]) e0) (List.mem_filter.1 hmem).1)
    | false =>
      have : e ∈ (flat (modifyAt tpar (appendKid F1) (removeAt (fpar ++ [l]) t1))).filter
          (fun e => !under (tpar ++ [l]) e) := List.mem_filter.2 ⟨he, by simp [hue]⟩
      rw [h1, hflat2] at this
      exact hnew e (List.mem_filter.1 this).1 hlt
  · -- every prefix of the destination's parent path exists
    intro q hq
    have h1 := flat_appendAt_old hP2 hnewkid hsu2
    rw [hF1n] at h1
    have hq1 : q ∈ paths t1 := (hpaths q).2 (Or.inr hq)
    have hq2 : q ∈ paths (removeAt (fpar ++ [l]) t1) := by
      refine (mem_paths_removeAt hfpne hsu1).2 ⟨hq1, ?_⟩
      cases h : (fpar ++ [l]).isPrefixOf q with
      | false => rfl
      | true => rw [prefix_trans' h hq] at hin; cases hin
    obtain ⟨e, he, rfl⟩ := List.mem_map.1 hq2
    rw [← h1] at he
    exact List.mem_map.2 ⟨e, (List.mem_filter.1 he).1, rfl⟩

end Modify

namespace Modify

variable {cfg : Cfg} {c : Char}

theorem shape_map_rebase (p : List Str) (l : List Entry) :
    shape (l.map (rebase p)) = (shape l).map (fun x => (p ++ x.1, x.2)) := by
  simp [shape, rebase, Function.comp_def]

/-- attaching a tree `X` made of fresh objects under a (possibly just created) parent path -/
theorem append_fresh_facts {t t1 X : Tree} {k k1 : Nat} {tpar : List Str} {l : Str}
    (hu : SibUnique t) (_hk : ∀ e ∈ flat t, e.2.1 < k)
    (hsu1 : SibUnique t1) (hkk : k ≤ k1)
    (hold : (flat t1).filter (fun e => decide (e.2.1 < k)) = flat t)
    (hnew : ∀ e ∈ flat t1, ¬ e.2.1 < k → e.1.isPrefixOf tpar = true ∧ e.2.1 < k1 ∧ e.2.2 = [])
    (hpaths : ∀ q, q ∈ paths t1 ↔ q ∈ paths t ∨ q.isPrefixOf tpar = true)
    (hD : getRel (tpar ++ [l]) t = none)
    (hXu : SibUnique X) (hXn : X.name = l) (hXid : ∀ e ∈ flat X, k1 ≤ e.2.1) :
    ∃ P1, getRel tpar t1 = some P1 ∧ (∀ y ∈ P1.children, y.name ≠ X.name) ∧
      SibUnique (modifyAt tpar (appendKid X) t1) ∧
      (flat (modifyAt tpar (appendKid X) t1)).filter (under (tpar ++ [l]))
        = (flat X).map (rebase (tpar ++ [l])) ∧
      (flat (modifyAt tpar (appendKid X) t1)).filter (fun e => decide (e.2.1 < k)) = flat t ∧
      (∀ e ∈ flat (modifyAt tpar (appendKid X) t1), ¬ e.2.1 < k → under (tpar ++ [l]) e = false →
          e.1.isPrefixOf tpar = true ∧ e.2.1 < k1 ∧ e.2.2 = []) ∧
      (∀ q, q.isPrefixOf tpar = true → q ∈ paths (modifyAt tpar (appendKid X) t1)) := by
  have htpar1 : tpar ∈ paths t1 := (hpaths _).2 (Or.inr (by simp [List.isPrefixOf_iff_prefix]))
  obtain ⟨P1, hP1⟩ := Option.isSome_iff_exists.1 ((mem_paths_iff hsu1).1 htpar1)
  have hnewkid : ∀ y ∈ P1.children, y.name ≠ X.name := by
    intro y hy hyn
    have h1 := child_mem_paths hsu1 hP1 hy
    rw [hyn, hXn] at h1
    rcases (hpaths _).1 h1 with h3 | h3
    · rw [mem_paths_iff hu, hD] at h3; cases h3
    · rw [not_prefix_of_longer] at h3; cases h3
  have h1 := flat_appendAt_old hP1 hnewkid hsu1
  have h2 := flat_appendAt_new hP1 hnewkid hsu1 hXu
  rw [hXn] at h1 h2
  refine ⟨P1, hP1, hnewkid, hsu1.appendAt hP1 hXu hnewkid, h2, ?_, ?_, ?_⟩
  · rw [← hold, ← h1, List.filter_filter]
    apply List.filter_congr
    intro e he
    cases hue : under (tpar ++ [l]) e with
    | false => simp
    | true =>
      have : e ∈ (flat (modifyAt tpar (appendKid X) t1)).filter (under (tpar ++ [l])) :=
        List.mem_filter.2 ⟨he, hue⟩
      rw [h2] at this
      obtain ⟨e0, he0, rfl⟩ := List.mem_map.1 this
      have := hXid e0 he0
      simp [rebase]; omega
  · intro e he hlt hue
    have : e ∈ (flat (modifyAt tpar (appendKid X) t1)).filter (fun e => !under (tpar ++ [l]) e) :=
      List.mem_filter.2 ⟨he, by simp [hue]⟩
    rw [h1] at this
    exact hnew e this hlt
  · intro q hq
    have hq1 : q ∈ paths t1 := (hpaths q).2 (Or.inr hq)
    obtain ⟨e, he, rfl⟩ := List.mem_map.1 hq1
    rw [← h1] at he
    exact List.mem_map.2 ⟨e, (List.mem_filter.1 he).1, rfl⟩

/-- plain copy (same tree or tree-to-tree) to a destination that does not exist yet -/
theorem copy_core (hc : cfg.Plain c) (hcp : cfg.copy = true) (hmc : cfg.mergeChildren = false)
    (hml : cfg.mergeLeaves = false) (hdc : cfg.deleteChildren = false)
    (src : Option Tree) (t : Tree) (k : Nat) (fpar tpar : List Str) (l : Str) (F : Tree)
    (hu : SibUnique t) (hus : SibUnique (src.getD t)) (hk : ∀ e ∈ flat t, e.2.1 < k)
    (hgf : GoodNames c ((src.getD t).name :: fpar ++ [l])) (hgt : GoodNames c (t.name :: tpar ++ [l]))
    (hF : getRel (fpar ++ [l]) (src.getD t) = some F) (hD : getRel (tpar ++ [l]) t = none)
    (hin : src = none → (fpar ++ [l]).isPrefixOf tpar = false) :
    ∃ t' k', copyOrShift cfg ⟨src, t, k⟩
        [(pathStr c (src.getD t).name (fpar ++ [l]), some (pathStr c t.name (tpar ++ [l])))]
          = .ok ⟨src, t', k'⟩ ∧
      k ≤ k' ∧ SibUnique t' ∧
      shape ((flat t').filter (under (tpar ++ [l])))
        = (shape (flat F)).map (fun x => (tpar ++ [l] ++ x.1, x.2)) ∧
      (∀ e ∈ (flat t').filter (under (tpar ++ [l])), k ≤ e.2.1 ∧ e.2.1 < k') ∧
      (flat t').filter (fun e => decide (e.2.1 < k)) = flat t ∧
      (∀ e ∈ flat t', ¬ e.2.1 < k → under (tpar ++ [l]) e = false →
          e.1.isPrefixOf tpar = true ∧ e.2.1 < k' ∧ e.2.2 = []) ∧
      (∀ q, q.isPrefixOf tpar = true → q ∈ paths t') := by
  obtain ⟨t1, k1, hgrow, hsu1, hkk, hold, hnew, hpaths⟩ :=
    grow_facts (ns := tpar) (goodNames_ne (goodNames_mid hgt)) hu hk
  -- the object that is copied: the from-node as it is after the parent path has been created
  obtain ⟨F1, hcur, hFF, hF1u⟩ : ∃ F1,
      ((if src.isNone then getRel (fpar ++ [l]) t1 else none).getD F) = F1 ∧ flat F1 = flat F ∧
        SibUnique F1 := by
    cases src with
    | some s => exact ⟨F, by simp, rfl, hus.sub hF⟩
    | none =>
      simp only [Option.getD_none] at hF hus
      have hfp1 : fpar ++ [l] ∈ paths t1 :=
        (hpaths _).2 (Or.inl ((mem_paths_iff hu).2 (by rw [hF]; rfl)))
      obtain ⟨F1, hF1⟩ := Option.isSome_iff_exists.1 ((mem_paths_iff hsu1).1 hfp1)
      exact ⟨F1, by simp [hF1],
        flat_sub_grow hu hsu1 hold (fun e he h => (hnew e he h).1) (hin rfl) hF hF1, hsu1.sub hF1⟩
  have hF1n : F1.name = l := by
    have h1 : F.name = l := getRel_name hF
    have h2 := congrArg (fun l : List Entry => l.head?) hFF
    cases src with
    | some s => simp at hcur; rw [← hcur]; exact h1
    | none =>
      simp only [Option.isNone_none, if_true] at hcur
      cases hg : getRel (fpar ++ [l]) t1 with
      | none => rw [hg] at hcur; simp at hcur; rw [← hcur]; exact h1
      | some Y => rw [hg] at hcur; simp at hcur; rw [← hcur]; exact getRel_name hg
  obtain ⟨r1, r2, r3, r4, r5⟩ := relabel_ok F1 k1
  have hXid : ∀ e ∈ flat (relabel k1 F1).1, k1 ≤ e.2.1 := fun e he => (r4 e he).1
  obtain ⟨P1, hP1, hnewkid, hsu', hund, hfr, hmid, hpre⟩ :=
    append_fresh_facts (X := (relabel k1 F1).1) hu hk hsu1 hkk hold hnew hpaths hD (r5 hF1u)
      (by rw [r1, hF1n]) hXid
  refine ⟨modifyAt tpar (appendKid (relabel k1 F1).1) t1, (relabel k1 F1).2, ?_, by omega, hsu', ?_, ?_,
    hfr, ?_, hpre⟩
  · have hgf' : GoodNames c ((src.getD t).name :: (fpar ++ [l])) := by simpa using hgf
    have hgt' : GoodNames c (t.name :: (tpar ++ [l])) := by simpa using hgt
    have hv : valid cfg ⟨src, t, k⟩
        [(pathStr c (src.getD t).name (fpar ++ [l]), some (pathStr c t.name (tpar ++ [l])))] = true := by
      apply valid_single
      · simp [hmc]
      · cases hp : pathStr c t.name (tpar ++ [l]) with
        | nil => exact absurd hp (pathStr_ne_nil _ _)
        | cons x xs => simp [isDelete]
      · simp only [norm, normFrom_pathStr hc _ _ hgf', normTo_pathStr hc _ _ hgt']
        exact nameOk_pathStr hc _ _ _ _ _ hgf hgt
      · simp only [norm, normFrom_pathStr hc _ _ hgf', St.tree]
        exact fromRootOk_pathStr hc _ _ _ hgf'
      · simp only [norm, normTo_pathStr hc _ _ hgt']
        exact toRootOk_pathStr hc _ _ _ hgt'
    rw [copyOrShift_single _ _ hv]
    simp only [norm, normFrom_pathStr hc _ _ hgf', normTo_pathStr hc _ _ hgt']
    unfold step
    have hr := resolveFrom_pathStr hc ⟨src, t, k⟩ (fpar ++ [l]) (by simpa [St.tree] using hgf')
    simp only [St.tree, hF, Option.map_some] at hr
    have hdec : decideTo cfg ⟨src, t, k⟩ (fpar ++ [l]) (some (pathStr c t.name (tpar ++ [l])))
        = .ok ⟨t1, k1, some tpar, cfg.mergeChildren⟩ := by
      unfold decideTo
      simp only [if_neg (pathStr_ne_nil (c := c) t.name (tpar ++ [l])), hc.tsep]
      rw [findFullPath_pathStr t (tpar ++ [l]) hgt', hD]
      simp only [Option.map_none, decideMissing, hc.tsep, addPath_parent t k tpar l hgt, hgrow]
    simp only [hr, hdec, attach, hmc, hcur, hcp, Bool.not_true, Bool.and_false, if_true,
      Bool.false_eq_true, if_false, hml, hdc, attachNode, loops, Bool.false_and,
      attachOne_ok hP1 hnewkid]
  · rw [hund, shape_map_rebase, r3, hFF]
  · intro e he
    rw [hund] at he
    obtain ⟨e0, he0, rfl⟩ := List.mem_map.1 he
    have := r4 e0 he0
    simp [rebase]; omega
  · intro e he hlt hue
    obtain ⟨h1, h2, h3⟩ := hmid e he hlt hue
    exact ⟨h1, by omega, h3⟩

end Modify

namespace Modify
/-! decidability of the hypotheses (used by the non-vacuity examples) -/
instance (t : Tree) : Decidable (SibUnique t) := by unfold SibUnique; infer_instance
instance (c : Char) (n : Str) : Decidable (GoodName c n) := by unfold GoodName; infer_instance
instance (c : Char) (ns : List Str) : Decidable (GoodNames c ns) := by unfold GoodNames; infer_instance
end Modify
