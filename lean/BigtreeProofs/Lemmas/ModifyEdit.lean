import BigtreeProofs.Lemmas.ModifyStep
/-!
# C08 helper lemmas: the edits (delete, shift, copy) on entry lists
-/
namespace Modify

theorem child_mem_paths {q : List Str} {t P y : Tree} (hu : SibUnique t) (hP : getRel q t = some P)
    (hy : y ∈ P.children) : q ++ [y.name] ∈ paths t := by
  rw [mem_paths_iff hu, getRel_append, hP]
  simp [getRel_cons, findChild_of_mem hy (hu.sub hP).kids]

theorem mem_paths_removeAt {p q : List Str} {t : Tree} (hp : p ≠ []) (hu : SibUnique t) :
    q ∈ paths (removeAt p t) ↔ q ∈ paths t ∧ p.isPrefixOf q = false := by
  unfold paths
  rw [flat_removeAt hp hu]
  constructor
  · intro h
    obtain ⟨e, he, rfl⟩ := List.mem_map.1 h
    obtain ⟨h1, h2⟩ := List.mem_filter.1 he
    exact ⟨List.mem_map.2 ⟨e, h1, rfl⟩, by simpa [under] using h2⟩
  · rintro ⟨h, h2⟩
    obtain ⟨e, he, rfl⟩ := List.mem_map.1 h
    exact List.mem_map.2 ⟨e, List.mem_filter.2 ⟨he, by simpa [under] using h2⟩, rfl⟩

theorem rebase_injective (p : List Str) : Function.Injective (rebase p) := by
  intro a b h
  simp only [rebase, Prod.mk.injEq, List.append_cancel_left_eq] at h
  exact Prod.ext h.1 h.2

theorem under_rebase (p : List Str) (e : Entry) : under p (rebase p e) = true := by
  simp [under, rebase, List.isPrefixOf_iff_prefix]

theorem not_prefix_of_longer (p : List Str) (l : Str) : (p ++ [l]).isPrefixOf p = false := by
  cases h : (p ++ [l]).isPrefixOf p with
  | false => rfl
  | true =>
    rw [List.isPrefixOf_iff_prefix] at h
    have := h.length_le
    simp at this
    omega

theorem prefix_trans' {a b d : List Str} (h1 : a.isPrefixOf b = true) (h2 : b.isPrefixOf d = true) :
    a.isPrefixOf d = true := by
  rw [List.isPrefixOf_iff_prefix] at *
  exact h1.trans h2

/-- the subtree found at `fp` is not changed by `grow` along a path that does not pass through `fp` -/
theorem flat_sub_grow {fp ns : List Str} {t t1 F F1 : Tree} {k : Nat}
    (hu : SibUnique t) (hu1 : SibUnique t1)
    (hold : (flat t1).filter (fun e => decide (e.2.1 < k)) = flat t)
    (hnew : ∀ e ∈ flat t1, ¬ e.2.1 < k → e.1.isPrefixOf ns = true)
    (hin : fp.isPrefixOf ns = false)
    (hF : getRel fp t = some F) (hF1 : getRel fp t1 = some F1) : flat F1 = flat F := by
  have h1 := flat_filter_under hF hu
  have h2 := flat_filter_under hF1 hu1
  rw [← hold, List.filter_filter] at h1
  have : (flat t1).filter (fun e => under fp e && decide (e.2.1 < k)) = (flat t1).filter (under fp) := by
    apply List.filter_congr
    intro e he
    cases hue : under fp e with
    | false => rfl
    | true =>
      by_cases hlt : e.2.1 < k
      · simp [hlt]
      · exfalso
        have := prefix_trans' hue (hnew e he hlt)
        rw [hin] at this; cases this
  rw [this, h2] at h1
  exact ((List.map_inj_right (fun x y h => rebase_injective fp h)).1 h1)

end Modify

namespace Modify

variable {cfg : Cfg} {c : Char}

theorem goodNames_ne {ns : List Str} (h : GoodNames c ns) : ∀ n ∈ ns, n ≠ [] := fun n hn => (h n hn).1

theorem goodNames_mid {r : Str} {p : List Str} {l : Str} (h : GoodNames c (r :: p ++ [l])) :
    GoodNames c p := fun n hn => h n (by simp [hn])

theorem attachOne_ok {pp : List Str} {x t P : Tree} (hP : getRel pp t = some P)
    (hnew : ∀ y ∈ P.children, y.name ≠ x.name) :
    attachOne pp x t = .ok (modifyAt pp (appendKid x) t) := by
  have hany : P.children.any (fun y => y.name == x.name) = false := by
    rw [List.any_eq_false]
    intro y hy
    simpa using hnew y hy
  simp only [attachOne, hP, hany]
  simp

/-- the destination decision when the to-path does not exist: create the parent path -/
theorem decideTo_missing (hc : cfg.Plain c) (t : Tree) (k : Nat) (fp tpar : List Str) (l : Str)
    (hg : GoodNames c (t.name :: tpar ++ [l])) (hD : getRel (tpar ++ [l]) t = none)
    {t1 : Tree} {k1 : Nat} (hgrow : grow tpar k t = .ok (t1, k1)) :
    decideTo cfg (st0 t k) fp (some (pathStr c t.name (tpar ++ [l])))
      = .ok ⟨t1, k1, some tpar, cfg.mergeChildren⟩ := by
  unfold decideTo
  simp only [if_neg (pathStr_ne_nil (c := c) t.name (tpar ++ [l])), hc.tsep]
  rw [findFullPath_pathStr t (tpar ++ [l]) (by simpa using hg), hD]
  simp only [Option.map_none, decideMissing, hc.tsep, addPath_parent t k tpar l hg, hgrow]

theorem mem_paths_of_flat_filter {p q : List Str} {t t2 : Tree}
    (h : flat t2 = (flat t).filter (fun e => !under p e)) :
    q ∈ paths t2 ↔ q ∈ paths t ∧ p.isPrefixOf q = false := by
  unfold paths
  rw [h]
  constructor
  · intro h
    obtain ⟨e, he, rfl⟩ := List.mem_map.1 h
    obtain ⟨h1, h2⟩ := List.mem_filter.1 he
    exact ⟨List.mem_map.2 ⟨e, h1, rfl⟩, by simpa [under] using h2⟩
  · rintro ⟨h, h2⟩
    obtain ⟨e, he, rfl⟩ := List.mem_map.1 h
    exact List.mem_map.2 ⟨e, List.mem_filter.2 ⟨he, by simpa [under] using h2⟩, rfl⟩

theorem sibUnique_setKids_nil (X : Tree) : SibUnique (setKids [] X) := by
  cases X; simp [setKids, sibUnique_node]

theorem flat_setKids_nil (X : Tree) : flat (setKids [] X) = [([], X.id, X.attrs)] := by
  cases X; simp [setKids, flat_node]

/-- the node that is attached: the from-node, or the bare from-node with `delete_children` -/
def stripIf (b : Bool) (X : Tree) : Tree := if b then setKids [] X else X

theorem stripIf_name (b X) : (stripIf b X).name = X.name := by
  unfold stripIf; split <;> simp
theorem sibUnique_stripIf {b X} (h : SibUnique X) : SibUnique (stripIf b X) := by
  unfold stripIf; split
  · exact sibUnique_setKids_nil X
  · exact h
theorem flat_stripIf_congr {b X Y} (h : flat X = flat Y) : flat (stripIf b X) = flat (stripIf b Y) := by
  unfold stripIf; split
  · rw [flat_setKids_nil, flat_setKids_nil]
    rw [flat_eq X, flat_eq Y] at h
    injection h with h1 _
    rw [h1]
  · exact h
theorem mem_flat_stripIf {b X e} (h : e ∈ flat (stripIf b X)) : e ∈ flat X := by
  unfold stripIf at h; split at h
  · rw [flat_setKids_nil] at h; rw [flat_eq]; simp at h; simp [h]
  · exact h

/-- plain shift (with or without `delete_children`) to a destination that does not exist yet -/
theorem shift_core (hc : cfg.Plain c) (hcp : cfg.copy = false) (hmc : cfg.mergeChildren = false)
    (hml : cfg.mergeLeaves = false)
    (t : Tree) (k : Nat) (fpar tpar : List Str) (l : Str) (F : Tree)
    (hu : SibUnique t) (hk : ∀ e ∈ flat t, e.2.1 < k)
    (fs : Str) (hfr : FromOK cfg t fs (fpar ++ [l]) F l) (hgt : GoodNames c (t.name :: tpar ++ [l]))
    (hD : getRel (tpar ++ [l]) t = none)
    (hin : (fpar ++ [l]).isPrefixOf tpar = false) :
    ∃ t' k', copyOrShift cfg (st0 t k)
        [(fs, some (pathStr c t.name (tpar ++ [l])))] = .ok (st0 t' k') ∧
      k ≤ k' ∧ SibUnique t' ∧
      (flat t').filter (under (tpar ++ [l]))
        = (flat (stripIf cfg.deleteChildren F)).map (rebase (tpar ++ [l])) ∧
      (flat t').filter (fun e => decide (e.2.1 < k) && !under (tpar ++ [l]) e)
        = (flat t).filter (fun e => !under (fpar ++ [l]) e) ∧
      (∀ e ∈ flat t', ¬ e.2.1 < k → e.1.isPrefixOf tpar = true ∧ e.2.1 < k' ∧ e.2.2 = []) ∧
      (∀ q, q.isPrefixOf tpar = true → q ∈ paths t') := by
  have hfpne : fpar ++ [l] ≠ [] := by simp
  have hF := hfr.found
  obtain ⟨t1, k1, hgrow, hsu1, hkk, hold, hnew, hpaths⟩ :=
    grow_facts (ns := tpar) (goodNames_ne (goodNames_mid hgt)) hu hk
  -- the from-node after the parent path has been created
  have hfp1 : fpar ++ [l] ∈ paths t1 := (hpaths _).2 (Or.inl ((mem_paths_iff hu).2 (by rw [hF]; rfl)))
  obtain ⟨F1, hF1⟩ := Option.isSome_iff_exists.1 ((mem_paths_iff hsu1).1 hfp1)
  have hFF : flat F1 = flat F :=
    flat_sub_grow hu hsu1 hold (fun e he h => (hnew e he h).1) hin hF hF1
  have hF1n : F1.name = l := getRel_name hF1
  -- `del from_node.children` (when asked), then detach
  obtain ⟨T0, hT0, hsu0, hflat0⟩ : ∃ T0,
      (if (true && cfg.deleteChildren) = true then modifyAt (fpar ++ [l]) (setKids []) t1 else t1) = T0 ∧
      SibUnique T0 ∧
      (flat T0).filter (fun e => !under (fpar ++ [l]) e)
        = (flat t1).filter (fun e => !under (fpar ++ [l]) e) := by
    cases hdc : cfg.deleteChildren with
    | false => exact ⟨t1, by simp, hsu1, rfl⟩
    | true =>
      exact ⟨_, by simp, hsu1.modifyAt hF1 (setKids_name _ _) (sibUnique_setKids_nil F1),
        flat_modifyAt_not_under hF1 (setKids_name _ _)⟩
  have hsu2 : SibUnique (removeAt (fpar ++ [l]) T0) := hsu0.removeAt
  have hflat2 : flat (removeAt (fpar ++ [l]) T0) = (flat t1).filter (fun e => !under (fpar ++ [l]) e) := by
    rw [flat_removeAt hfpne hsu0, hflat0]
  have hmem2 : ∀ q, q ∈ paths (removeAt (fpar ++ [l]) T0) ↔ q ∈ paths t1 ∧ (fpar ++ [l]).isPrefixOf q = false :=
    fun q => mem_paths_of_flat_filter hflat2
  have htpar2 : tpar ∈ paths (removeAt (fpar ++ [l]) T0) :=
    (hmem2 _).2 ⟨(hpaths _).2 (Or.inr (by simp [List.isPrefixOf_iff_prefix])), hin⟩
  obtain ⟨P2, hP2⟩ := Option.isSome_iff_exists.1 ((mem_paths_iff hsu2).1 htpar2)
  have hFmn : (stripIf cfg.deleteChildren F1).name = l := by rw [stripIf_name, hF1n]
  have hnewkid : ∀ y ∈ P2.children, y.name ≠ (stripIf cfg.deleteChildren F1).name := by
    intro y hy hyn
    have h1 := child_mem_paths hsu2 hP2 hy
    rw [hyn, hFmn] at h1
    have h2 := ((hmem2 _).1 h1).1
    rcases (hpaths _).1 h2 with h3 | h3
    · rw [mem_paths_iff hu, hD] at h3; cases h3
    · rw [not_prefix_of_longer] at h3; cases h3
  have hFmu : SibUnique (stripIf cfg.deleteChildren F1) := sibUnique_stripIf (hsu1.sub hF1)
  have hFmf : flat (stripIf cfg.deleteChildren F1) = flat (stripIf cfg.deleteChildren F) :=
    flat_stripIf_congr hFF
  have h1 := flat_appendAt_old hP2 hnewkid hsu2
  have h2 := flat_appendAt_new hP2 hnewkid hsu2 hFmu
  rw [hFmn] at h1 h2
  refine ⟨modifyAt tpar (appendKid (stripIf cfg.deleteChildren F1)) (removeAt (fpar ++ [l]) T0), k1, ?_, hkk,
    hsu2.appendAt hP2 hFmu hnewkid, ?_, ?_, ?_, ?_⟩
  · -- the call computes this tree
    have hgt' : GoodNames c (t.name :: (tpar ++ [l])) := by simpa using hgt
    rw [copyOrShift_single _ _ (valid_move hc (st0 t k) fs (fpar ++ [l]) F tpar l (by simp [hmc]) hfr hgt)]
    simp only [norm, hfr.norm, normTo_pathStr hc _ _ hgt']
    unfold step
    have hr := resolveFrom_of (st0 t k) hfr
    simp only [hr, decideTo_missing hc t k (fpar ++ [l]) tpar l hgt hD hgrow, attach, hmc,
      Option.isNone_none, if_true, hF1, Option.getD_some, Option.isSome_some, hcp, Bool.not_false,
      Bool.and_true, hml, attachNode, loops, hin, Bool.and_false, Bool.false_eq_true,
      if_false, hT0]
    have : (if cfg.deleteChildren = true then setKids [] F1 else F1) = stripIf cfg.deleteChildren F1 := rfl
    rw [this, attachOne_ok hP2 hnewkid]
  · -- the moved node
    rw [h2, hFmf]
  · -- the frame
    have : ∀ l' : List Entry,
        l'.filter (fun e => decide (e.2.1 < k) && !under (tpar ++ [l]) e)
          = (l'.filter (fun e => !under (tpar ++ [l]) e)).filter (fun e => decide (e.2.1 < k)) := by
      intro l'; rw [List.filter_filter]
    rw [this, h1, hflat2, List.filter_filter]
    rw [← hold, List.filter_filter]
    apply List.filter_congr
    intro e _
    cases decide (e.2.1 < k) <;> simp
  · -- the new intermediate nodes
    intro e he hlt
    cases hue : under (tpar ++ [l]) e with
    | true =>
      exfalso
      have : e ∈ (flat (modifyAt tpar (appendKid (stripIf cfg.deleteChildren F1))
          (removeAt (fpar ++ [l]) T0))).filter (under (tpar ++ [l])) := List.mem_filter.2 ⟨he, hue⟩
      rw [h2, hFmf] at this
      obtain ⟨e0, he0, rfl⟩ := List.mem_map.1 this
      have hmem : rebase (fpar ++ [l]) e0 ∈ (flat F).map (rebase (fpar ++ [l])) :=
        List.mem_map.2 ⟨e0, mem_flat_stripIf he0, rfl⟩
      rw [← flat_filter_under hF hu] at hmem
      exact hlt (hk (rebase (fpar ++ [l]) e0) (List.mem_filter.1 hmem).1)
    | false =>
      have : e ∈ (flat (modifyAt tpar (appendKid (stripIf cfg.deleteChildren F1))
          (removeAt (fpar ++ [l]) T0))).filter (fun e => !under (tpar ++ [l]) e) :=
        List.mem_filter.2 ⟨he, by simp [hue]⟩
      rw [h1, hflat2] at this
      exact hnew e (List.mem_filter.1 this).1 hlt
  · -- every prefix of the destination's parent path exists
    intro q hq
    have hq1 : q ∈ paths t1 := (hpaths q).2 (Or.inr hq)
    have hq2 : q ∈ paths (removeAt (fpar ++ [l]) T0) := by
      refine (hmem2 q).2 ⟨hq1, ?_⟩
      cases h : (fpar ++ [l]).isPrefixOf q with
      | false => rfl
      | true => rw [prefix_trans' h hq] at hin; cases hin
    obtain ⟨e, he, rfl⟩ := List.mem_map.1 hq2
    rw [← h1] at he
    exact List.mem_map.2 ⟨e, (List.mem_filter.1 he).1, rfl⟩

end Modify

namespace Modify

variable {cfg : Cfg} {c : Char}

theorem shape_map_rebase (p : List Str) (l : List Entry) :
    shape (l.map (rebase p)) = (shape l).map (fun x => (p ++ x.1, x.2)) := by
  simp [shape, rebase, Function.comp_def]

/-- attaching a tree `X` made of fresh objects under a (possibly just created) parent path -/
theorem append_fresh_facts {t t1 X : Tree} {k k1 : Nat} {tpar : List Str} {l : Str}
    (hu : SibUnique t) (_hk : ∀ e ∈ flat t, e.2.1 < k)
    (hsu1 : SibUnique t1) (hkk : k ≤ k1)
    (hold : (flat t1).filter (fun e => decide (e.2.1 < k)) = flat t)
    (hnew : ∀ e ∈ flat t1, ¬ e.2.1 < k → e.1.isPrefixOf tpar = true ∧ e.2.1 < k1 ∧ e.2.2 = [])
    (hpaths : ∀ q, q ∈ paths t1 ↔ q ∈ paths t ∨ q.isPrefixOf tpar = true)
    (hD : getRel (tpar ++ [l]) t = none)
    (hXu : SibUnique X) (hXn : X.name = l) (hXid : ∀ e ∈ flat X, k1 ≤ e.2.1) :
    ∃ P1, getRel tpar t1 = some P1 ∧ (∀ y ∈ P1.children, y.name ≠ X.name) ∧
      SibUnique (modifyAt tpar (appendKid X) t1) ∧
      (flat (modifyAt tpar (appendKid X) t1)).filter (under (tpar ++ [l]))
        = (flat X).map (rebase (tpar ++ [l])) ∧
      (flat (modifyAt tpar (appendKid X) t1)).filter (fun e => decide (e.2.1 < k)) = flat t ∧
      (∀ e ∈ flat (modifyAt tpar (appendKid X) t1), ¬ e.2.1 < k → under (tpar ++ [l]) e = false →
          e.1.isPrefixOf tpar = true ∧ e.2.1 < k1 ∧ e.2.2 = []) ∧
      (∀ q, q.isPrefixOf tpar = true → q ∈ paths (modifyAt tpar (appendKid X) t1)) := by
  have htpar1 : tpar ∈ paths t1 := (hpaths _).2 (Or.inr (by simp [List.isPrefixOf_iff_prefix]))
  obtain ⟨P1, hP1⟩ := Option.isSome_iff_exists.1 ((mem_paths_iff hsu1).1 htpar1)
  have hnewkid : ∀ y ∈ P1.children, y.name ≠ X.name := by
    intro y hy hyn
    have h1 := child_mem_paths hsu1 hP1 hy
    rw [hyn, hXn] at h1
    rcases (hpaths _).1 h1 with h3 | h3
    · rw [mem_paths_iff hu, hD] at h3; cases h3
    · rw [not_prefix_of_longer] at h3; cases h3
  have h1 := flat_appendAt_old hP1 hnewkid hsu1
  have h2 := flat_appendAt_new hP1 hnewkid hsu1 hXu
  rw [hXn] at h1 h2
  refine ⟨P1, hP1, hnewkid, hsu1.appendAt hP1 hXu hnewkid, h2, ?_, ?_, ?_⟩
  · rw [← hold, ← h1, List.filter_filter]
    apply List.filter_congr
    intro e he
    cases hue : under (tpar ++ [l]) e with
    | false => simp
    | true =>
      have : e ∈ (flat (modifyAt tpar (appendKid X) t1)).filter (under (tpar ++ [l])) :=
        List.mem_filter.2 ⟨he, hue⟩
      rw [h2] at this
      obtain ⟨e0, he0, rfl⟩ := List.mem_map.1 this
      have := hXid e0 he0
      simp [rebase]; omega
  · intro e he hlt hue
    have : e ∈ (flat (modifyAt tpar (appendKid X) t1)).filter (fun e => !under (tpar ++ [l]) e) :=
      List.mem_filter.2 ⟨he, by simp [hue]⟩
    rw [h1] at this
    exact hnew e this hlt
  · intro q hq
    have hq1 : q ∈ paths t1 := (hpaths q).2 (Or.inr hq)
    obtain ⟨e, he, rfl⟩ := List.mem_map.1 hq1
    rw [← h1] at he
    exact List.mem_map.2 ⟨e, (List.mem_filter.1 he).1, rfl⟩

theorem shape_stripIf_congr {b X Y} (h : shape (flat X) = shape (flat Y)) :
    shape (flat (stripIf b X)) = shape (flat (stripIf b Y)) := by
  unfold stripIf; split
  · rw [flat_setKids_nil, flat_setKids_nil]
    rw [flat_eq X, flat_eq Y] at h
    simp only [shape, List.map_cons, List.cons.injEq, Prod.mk.injEq, true_and] at h
    simp [shape, h.1]
  · exact h

/-- plain copy (same tree or tree-to-tree, with or without `delete_children`) to a destination
that does not exist yet -/
theorem copy_core (hc : cfg.Plain c) (hcp : cfg.copy = true) (hmc : cfg.mergeChildren = false)
    (hml : cfg.mergeLeaves = false)
    (src : Option Tree) (t : Tree) (k : Nat) (fpar tpar : List Str) (l : Str) (F : Tree)
    (hu : SibUnique t) (hus : SibUnique (src.getD t)) (hk : ∀ e ∈ flat t, e.2.1 < k)
    (fs : Str) (hfrom : FromOK cfg (src.getD t) fs (fpar ++ [l]) F l) (hgt : GoodNames c (t.name :: tpar ++ [l]))
    (hD : getRel (tpar ++ [l]) t = none)
    (hin : src = none → (fpar ++ [l]).isPrefixOf tpar = false) :
    ∃ t' k', copyOrShift cfg ⟨src, t, k⟩
        [(fs, some (pathStr c t.name (tpar ++ [l])))]
          = .ok ⟨src, t', k'⟩ ∧
      k ≤ k' ∧ SibUnique t' ∧
      shape ((flat t').filter (under (tpar ++ [l])))
        = (shape (flat (stripIf cfg.deleteChildren F))).map (fun x => (tpar ++ [l] ++ x.1, x.2)) ∧
      (∀ e ∈ (flat t').filter (under (tpar ++ [l])), k ≤ e.2.1 ∧ e.2.1 < k') ∧
      (flat t').filter (fun e => decide (e.2.1 < k)) = flat t ∧
      (∀ e ∈ flat t', ¬ e.2.1 < k → under (tpar ++ [l]) e = false →
          e.1.isPrefixOf tpar = true ∧ e.2.1 < k' ∧ e.2.2 = []) ∧
      (∀ q, q.isPrefixOf tpar = true → q ∈ paths t') := by
  have hF := hfrom.found
  obtain ⟨t1, k1, hgrow, hsu1, hkk, hold, hnew, hpaths⟩ :=
    grow_facts (ns := tpar) (goodNames_ne (goodNames_mid hgt)) hu hk
  -- the object that is copied: the from-node as it is after the parent path has been created
  obtain ⟨F1, hcur, hFF, hF1u⟩ : ∃ F1,
      ((if src.isNone then getRel (fpar ++ [l]) t1 else none).getD F) = F1 ∧ flat F1 = flat F ∧
        SibUnique F1 := by
    cases src with
    | some s => exact ⟨F, by simp, rfl, hus.sub hF⟩
    | none =>
      simp only [Option.getD_none] at hF hus
      have hfp1 : fpar ++ [l] ∈ paths t1 :=
        (hpaths _).2 (Or.inl ((mem_paths_iff hu).2 (by rw [hF]; rfl)))
      obtain ⟨F1, hF1⟩ := Option.isSome_iff_exists.1 ((mem_paths_iff hsu1).1 hfp1)
      exact ⟨F1, by simp [hF1],
        flat_sub_grow hu hsu1 hold (fun e he h => (hnew e he h).1) (hin rfl) hF hF1, hsu1.sub hF1⟩
  have hF1n : F1.name = l := by
    have h1 : F.name = l := getRel_name hF
    have h2 := congrArg (fun l : List Entry => l.head?) hFF
    cases src with
    | some s => simp at hcur; rw [← hcur]; exact h1
    | none =>
      simp only [Option.isNone_none, if_true] at hcur
      cases hg : getRel (fpar ++ [l]) t1 with
      | none => rw [hg] at hcur; simp at hcur; rw [← hcur]; exact h1
      | some Y => rw [hg] at hcur; simp at hcur; rw [← hcur]; exact getRel_name hg
  obtain ⟨r1, r2, r3, r4, r5⟩ := relabel_ok F1 k1
  have hXid : ∀ e ∈ flat (stripIf cfg.deleteChildren (relabel k1 F1).1), k1 ≤ e.2.1 :=
    fun e he => (r4 e (mem_flat_stripIf he)).1
  obtain ⟨P1, hP1, hnewkid, hsu', hund, hfr, hmid, hpre⟩ :=
    append_fresh_facts (X := stripIf cfg.deleteChildren (relabel k1 F1).1) hu hk hsu1 hkk hold hnew hpaths hD
      (sibUnique_stripIf (r5 hF1u)) (by rw [stripIf_name, r1, hF1n]) hXid
  refine ⟨modifyAt tpar (appendKid (stripIf cfg.deleteChildren (relabel k1 F1).1)) t1, (relabel k1 F1).2, ?_,
    by omega, hsu', ?_, ?_, hfr, ?_, hpre⟩
  · have hgt' : GoodNames c (t.name :: (tpar ++ [l])) := by simpa using hgt
    have hv := valid_move hc ⟨src, t, k⟩ fs (fpar ++ [l]) F tpar l (by simp [hmc]) hfrom hgt
    rw [copyOrShift_single _ _ hv]
    simp only [norm, hfrom.norm, normTo_pathStr hc _ _ hgt']
    unfold step
    have hr := resolveFrom_of ⟨src, t, k⟩ hfrom
    have hdec : decideTo cfg ⟨src, t, k⟩ (fpar ++ [l]) (some (pathStr c t.name (tpar ++ [l])))
        = .ok ⟨t1, k1, some tpar, cfg.mergeChildren⟩ := by
      unfold decideTo
      simp only [if_neg (pathStr_ne_nil (c := c) t.name (tpar ++ [l])), hc.tsep]
      rw [findFullPath_pathStr t (tpar ++ [l]) hgt', hD]
      simp only [Option.map_none, decideMissing, hc.tsep, addPath_parent t k tpar l hgt, hgrow]
    simp only [hr, hdec, attach, hmc, hcur, hcp, Bool.not_true, Bool.and_false, if_true,
      Bool.false_eq_true, if_false, hml, attachNode, loops, Bool.false_and]
    have : (if cfg.deleteChildren = true then setKids [] (relabel k1 F1).1 else (relabel k1 F1).1)
        = stripIf cfg.deleteChildren (relabel k1 F1).1 := rfl
    rw [this, attachOne_ok hP1 hnewkid]
  · rw [hund, shape_map_rebase]
    have : shape (flat (relabel k1 F1).1) = shape (flat F) := by rw [r3, hFF]
    rw [shape_stripIf_congr this]
  · intro e he
    rw [hund] at he
    obtain ⟨e0, he0, rfl⟩ := List.mem_map.1 he
    have := r4 e0 (mem_flat_stripIf he0)
    simp [rebase]; omega
  · intro e he hlt hue
    obtain ⟨h1, h2, h3⟩ := hmid e he hlt hue
    exact ⟨h1, by omega, h3⟩

end Modify

namespace Modify
/-! decidability of the hypotheses (used by the non-vacuity examples) -/
instance (t : Tree) : Decidable (SibUnique t) := by unfold SibUnique; infer_instance
instance (c : Char) (n : Str) : Decidable (GoodName c n) := by unfold GoodName; infer_instance
instance (c : Char) (ns : List Str) : Decidable (GoodNames c ns) := by unfold GoodNames; infer_instance
end Modify

namespace Modify

variable {cfg : Cfg} {c : Char}

/-- `del from_node.children` (when asked) and `from_node.parent = to_node`, for a from-node that
sits in the tree `T1` at `fp` and an existing new parent `tpar` that has no child called `l` -/
theorem move_facts (dc : Bool) {T1 F1 : Tree} {fp tpar : List Str} {l : Str} (hfpne : fp ≠ [])
    (hsu1 : SibUnique T1) (hF1 : getRel fp T1 = some F1) (hF1n : F1.name = l)
    (htpar : tpar ∈ paths T1) (hin : fp.isPrefixOf tpar = false) (hfree : tpar ++ [l] ∉ paths T1) :
    ∃ t', attachNode true fp (stripIf dc F1)
        (if (true && dc) = true then modifyAt fp (setKids []) T1 else T1) (some tpar) = .ok t' ∧
      SibUnique t' ∧
      (flat t').filter (under (tpar ++ [l])) = (flat (stripIf dc F1)).map (rebase (tpar ++ [l])) ∧
      (flat t').filter (fun e => !under (tpar ++ [l]) e) = (flat T1).filter (fun e => !under fp e) := by
  obtain ⟨T0, hT0, hsu0, hflat0⟩ : ∃ T0,
      (if (true && dc) = true then modifyAt fp (setKids []) T1 else T1) = T0 ∧ SibUnique T0 ∧
      (flat T0).filter (fun e => !under fp e) = (flat T1).filter (fun e => !under fp e) := by
    cases dc with
    | false => exact ⟨T1, by simp, hsu1, rfl⟩
    | true =>
      exact ⟨_, by simp, hsu1.modifyAt hF1 (setKids_name _ _) (sibUnique_setKids_nil F1),
        flat_modifyAt_not_under hF1 (setKids_name _ _)⟩
  have hsu2 : SibUnique (removeAt fp T0) := hsu0.removeAt
  have hflat2 : flat (removeAt fp T0) = (flat T1).filter (fun e => !under fp e) := by
    rw [flat_removeAt hfpne hsu0, hflat0]
  have hmem2 : ∀ q, q ∈ paths (removeAt fp T0) ↔ q ∈ paths T1 ∧ fp.isPrefixOf q = false :=
    fun q => mem_paths_of_flat_filter hflat2
  obtain ⟨P2, hP2⟩ := Option.isSome_iff_exists.1 ((mem_paths_iff hsu2).1 ((hmem2 _).2 ⟨htpar, hin⟩))
  have hFmn : (stripIf dc F1).name = l := by rw [stripIf_name, hF1n]
  have hnewkid : ∀ y ∈ P2.children, y.name ≠ (stripIf dc F1).name := by
    intro y hy hyn
    have h1 := child_mem_paths hsu2 hP2 hy
    rw [hyn, hFmn] at h1
    exact hfree ((hmem2 _).1 h1).1
  have hFmu : SibUnique (stripIf dc F1) := sibUnique_stripIf (hsu1.sub hF1)
  have h1 := flat_appendAt_old hP2 hnewkid hsu2
  have h2 := flat_appendAt_new hP2 hnewkid hsu2 hFmu
  rw [hFmn] at h1 h2
  refine ⟨modifyAt tpar (appendKid (stripIf dc F1)) (removeAt fp T0), ?_,
    hsu2.appendAt hP2 hFmu hnewkid, h2, by rw [h1, hflat2]⟩
  simp only [attachNode, loops, hin, Bool.and_false, Bool.false_eq_true, if_false, if_true, hT0,
    attachOne_ok hP2 hnewkid]

/-- two addresses neither of which is a prefix of the other have no common entry below them -/
theorem not_under_both {p q : List Str} (h1 : p.isPrefixOf q = false) (h2 : q.isPrefixOf p = false)
    (e : Entry) (hp : under p e = true) : under q e = false := by
  cases hq : under q e with
  | false => rfl
  | true =>
    obtain ⟨r1, hr1⟩ := isPrefixOf_iff.1 hp
    obtain ⟨r2, hr2⟩ := isPrefixOf_iff.1 hq
    rcases List.prefix_or_prefix_of_prefix (l₃ := e.1) ⟨r1, hr1.symm⟩ ⟨r2, hr2.symm⟩ with h | h
    · rw [List.isPrefixOf_iff_prefix.2 h] at h1; cases h1
    · rw [List.isPrefixOf_iff_prefix.2 h] at h2; cases h2

/-- shift onto an existing destination with `overriding=True` (neither node inside the other) -/
theorem over_core (hc : cfg.Plain c) (hcp : cfg.copy = false) (hmc : cfg.mergeChildren = false)
    (hml : cfg.mergeLeaves = false) (hov : cfg.overriding = true)
    (t : Tree) (k : Nat) (fpar tpar : List Str) (l : Str) (F D : Tree)
    (hu : SibUnique t)
    (fs : Str) (hfr : FromOK cfg t fs (fpar ++ [l]) F l) (hgt : GoodNames c (t.name :: tpar ++ [l]))
    (hD : getRel (tpar ++ [l]) t = some D)
    (h1 : (fpar ++ [l]).isPrefixOf (tpar ++ [l]) = false)
    (h2 : (tpar ++ [l]).isPrefixOf (fpar ++ [l]) = false) :
    ∃ t', copyOrShift cfg (st0 t k)
        [(fs, some (pathStr c t.name (tpar ++ [l])))] = .ok (st0 t' k) ∧
      SibUnique t' ∧
      (flat t').filter (under (tpar ++ [l]))
        = (flat (stripIf cfg.deleteChildren F)).map (rebase (tpar ++ [l])) ∧
      (flat t').filter (fun e => !under (tpar ++ [l]) e)
        = (flat t).filter (fun e => !under (tpar ++ [l]) e && !under (fpar ++ [l]) e) := by
  have hfpne : fpar ++ [l] ≠ [] := by simp
  have hF := hfr.found
  have htpne : tpar ++ [l] ≠ [] := by simp
  -- the old destination is detached
  have hsu1 : SibUnique (removeAt (tpar ++ [l]) t) := hu.removeAt
  have hflat1 := flat_removeAt htpne hu
  have hmem1 : ∀ q, q ∈ paths (removeAt (tpar ++ [l]) t) ↔ q ∈ paths t ∧ (tpar ++ [l]).isPrefixOf q = false :=
    fun q => mem_paths_of_flat_filter hflat1
  have hfp1 : fpar ++ [l] ∈ paths (removeAt (tpar ++ [l]) t) :=
    (hmem1 _).2 ⟨(mem_paths_iff hu).2 (by rw [hF]; rfl), h2⟩
  obtain ⟨F1, hF1⟩ := Option.isSome_iff_exists.1 ((mem_paths_iff hsu1).1 hfp1)
  have hFF : flat F1 = flat F := by
    have a1 := flat_filter_under hF hu
    have a2 := flat_filter_under hF1 hsu1
    rw [hflat1, List.filter_filter] at a2
    have : (flat t).filter (fun e => under (fpar ++ [l]) e && !under (tpar ++ [l]) e)
        = (flat t).filter (under (fpar ++ [l])) := by
      apply List.filter_congr
      intro e _
      cases hue : under (fpar ++ [l]) e with
      | false => rfl
      | true => simp [not_under_both h1 h2 e hue]
    rw [this, a1] at a2
    exact ((List.map_inj_right (fun x y h => rebase_injective _ h)).1 a2).symm
  have htpar : tpar ∈ paths (removeAt (tpar ++ [l]) t) := by
    refine (hmem1 _).2 ⟨?_, not_prefix_of_longer _ _⟩
    exact prefix_mem_paths hu ((mem_paths_iff hu).2 (by rw [hD]; rfl))
  have hin : (fpar ++ [l]).isPrefixOf tpar = false := by
    cases h : (fpar ++ [l]).isPrefixOf tpar with
    | false => rfl
    | true =>
      have : (fpar ++ [l]).isPrefixOf (tpar ++ [l]) = true := by
        rw [List.isPrefixOf_iff_prefix] at h ⊢
        exact h.trans (List.prefix_append _ _)
      rw [this] at h1; cases h1
  have hfree : tpar ++ [l] ∉ paths (removeAt (tpar ++ [l]) t) := by
    intro hmem
    have := ((hmem1 _).1 hmem).2
    rw [List.isPrefixOf_iff_prefix.2 (List.prefix_refl _)] at this; cases this
  obtain ⟨t', hatt, hsu', hmoved, hrest⟩ :=
    move_facts cfg.deleteChildren hfpne hsu1 hF1 (getRel_name hF1) htpar hin hfree
  refine ⟨t', ?_, hsu', ?_, ?_⟩
  · have hgt' : GoodNames c (t.name :: (tpar ++ [l])) := by simpa using hgt
    rw [copyOrShift_single _ _ (valid_move hc (st0 t k) fs (fpar ++ [l]) F tpar l (by simp [hmc]) hfr hgt)]
    simp only [norm, hfr.norm, normTo_pathStr hc _ _ hgt']
    unfold step
    have hr := resolveFrom_of (st0 t k) hfr
    have hne : (fpar ++ [l] == tpar ++ [l]) = false := by
      cases h : (fpar ++ [l] == tpar ++ [l]) with
      | false => rfl
      | true =>
        have : fpar ++ [l] = tpar ++ [l] := by simpa using h
        rw [this, List.isPrefixOf_iff_prefix.2 (List.prefix_refl _)] at h1; cases h1
    have hdec : decideTo cfg (st0 t k) (fpar ++ [l]) (some (pathStr c t.name (tpar ++ [l])))
        = .ok ⟨removeAt (tpar ++ [l]) t, k, some tpar, false⟩ := by
      unfold decideTo
      simp only [if_neg (pathStr_ne_nil (c := c) t.name (tpar ++ [l])), hc.tsep]
      rw [findFullPath_pathStr t (tpar ++ [l]) hgt', hD]
      simp only [Option.map_some, decideExisting, hne, Bool.and_false, Bool.false_eq_true, if_false, hmc,
        hml, hov, Bool.not_true, parentOf, htpne, List.dropLast_concat]
    simp only [hr, hdec, attach, Option.isNone_none, if_true, hF1, Option.getD_some,
      Option.isSome_some, hcp, Bool.not_false, Bool.and_true, hml, Bool.false_eq_true, if_false]
    have : (if cfg.deleteChildren = true then setKids [] F1 else F1) = stripIf cfg.deleteChildren F1 := rfl
    rw [this, hatt]
  · rw [hmoved, flat_stripIf_congr hFF]
  · rw [hrest, hflat1, List.filter_filter]
    apply List.filter_congr
    intro e _
    cases under (tpar ++ [l]) e <;> cases under (fpar ++ [l]) e <;> rfl

end Modify
