import BigtreeModel.Paths
/-!
# Address lemmas for the path constructors (C05)

`nodeAt`, `modifyAt`, `namesAlong`, and the frame property of a modification that keeps id and
name of the modified node and only appends children. Core Lean only.
-/

namespace Paths

@[simp] theorem nodeAt_nil (t : Tree) : nodeAt [] t = some t := rfl

theorem nodeAt_cons (k : Nat) (ks : Addr) (t : Tree) :
    nodeAt (k :: ks) t = (t.children[k]?).bind (nodeAt ks) := by
  simp only [nodeAt]
  cases t.children[k]? <;> rfl

theorem nodeAt_append (a b : Addr) : ∀ (t : Tree), nodeAt (a ++ b) t = (nodeAt a t).bind (nodeAt b) := by
  induction a with
  | nil => intro t; simp
  | cons k ks ih =>
    intro t
    simp only [List.cons_append, nodeAt_cons]
    cases t.children[k]? with
    | none => rfl
    | some c => simp [ih]

@[simp] theorem namesAlong_nil (t : Tree) : namesAlong [] t = [t.name] := rfl

theorem namesAlong_cons (k : Nat) (ks : Addr) (t c : Tree) (h : t.children[k]? = some c) :
    namesAlong (k :: ks) t = t.name :: namesAlong ks c := by
  simp [namesAlong, h]

/-- extending a valid address by one child index appends that child's name -/
theorem namesAlong_snoc (a : Addr) : ∀ (t p c : Tree) (k : Nat), nodeAt a t = some p →
    p.children[k]? = some c → namesAlong (a ++ [k]) t = namesAlong a t ++ [c.name] := by
  induction a with
  | nil =>
    intro t p c k hp hc
    simp at hp; subst hp
    simp [namesAlong, hc]
  | cons j js ih =>
    intro t p c k hp hc
    rw [nodeAt_cons] at hp
    cases hj : t.children[j]? with
    | none => rw [hj] at hp; cases hp
    | some d =>
      rw [hj] at hp
      simp only [Option.bind] at hp
      rw [List.cons_append, namesAlong_cons _ _ _ _ hj, namesAlong_cons _ _ _ _ hj, ih d p c k hp hc]
      rfl

theorem namesAlong_length (a : Addr) : ∀ (t p : Tree), nodeAt a t = some p →
    (namesAlong a t).length = a.length + 1 := by
  induction a with
  | nil => intro t p _; rfl
  | cons j js ih =>
    intro t p hp
    rw [nodeAt_cons] at hp
    cases hj : t.children[j]? with
    | none => rw [hj] at hp; cases hp
    | some d =>
      rw [hj] at hp
      rw [namesAlong_cons _ _ _ _ hj]
      simp [ih d p hp]

/-- the last name along a valid address is the name of the node there -/
theorem namesAlong_getLast (a : Addr) : ∀ (t p : Tree), nodeAt a t = some p →
    (namesAlong a t).getLast? = some p.name := by
  induction a with
  | nil => intro t p hp; simp at hp; subst hp; rfl
  | cons j js ih =>
    intro t p hp
    rw [nodeAt_cons] at hp
    cases hj : t.children[j]? with
    | none => rw [hj] at hp; cases hp
    | some d =>
      rw [hj] at hp
      rw [namesAlong_cons _ _ _ _ hj]
      have h1 := ih d p hp
      have h2 := namesAlong_length js d p hp
      cases hn : namesAlong js d with
      | nil => rw [hn] at h2; simp at h2
      | cons x xs => rw [hn] at h1; simpa [List.getLast?_cons_cons] using h1

theorem modifyAt_nil (f : Tree → Tree) (t : Tree) : modifyAt f [] t = f t := by
  cases t; rfl

theorem modifyAt_cons (f : Tree → Tree) (k : Nat) (ks : Addr) (i n a cs) :
    modifyAt f (k :: ks) (.node i n a cs) = .node i n a (cs.modify k (modifyAt f ks)) := rfl

@[simp] theorem modifyAt_cons_name (f : Tree → Tree) (k : Nat) (ks : Addr) (t : Tree) :
    (modifyAt f (k :: ks) t).name = t.name := by cases t; rfl

@[simp] theorem modifyAt_cons_id (f : Tree → Tree) (k : Nat) (ks : Addr) (t : Tree) :
    (modifyAt f (k :: ks) t).id = t.id := by cases t; rfl

@[simp] theorem modifyAt_cons_attrs (f : Tree → Tree) (k : Nat) (ks : Addr) (t : Tree) :
    (modifyAt f (k :: ks) t).attrs = t.attrs := by cases t; rfl

@[simp] theorem modifyAt_cons_children (f : Tree → Tree) (k : Nat) (ks : Addr) (t : Tree) :
    (modifyAt f (k :: ks) t).children = t.children.modify k (modifyAt f ks) := by cases t; rfl

/-- the modified node -/
theorem nodeAt_modifyAt_self (f : Tree → Tree) (a : Addr) : ∀ (t : Tree),
    nodeAt a (modifyAt f a t) = (nodeAt a t).map f := by
  induction a with
  | nil => intro t; simp [modifyAt_nil]
  | cons k ks ih =>
    intro t
    rw [nodeAt_cons, nodeAt_cons, modifyAt_cons_children, List.getElem?_modify_eq]
    cases t.children[k]? with
    | none => rfl
    | some c => simp [ih]

/-- A modification that keeps id and name and only appends children. -/
structure Grows (f : Tree → Tree) : Prop where
  id : ∀ t, (f t).id = t.id
  name : ∀ t, (f t).name = t.name
  children : ∀ t, ∃ ext, (f t).children = t.children ++ ext

theorem Grows.getElem? {f : Tree → Tree} (hf : Grows f) (t c : Tree) (k : Nat)
    (h : t.children[k]? = some c) : (f t).children[k]? = some c := by
  obtain ⟨ext, he⟩ := hf.children t
  rw [he, List.getElem?_append_left]
  · exact h
  · exact (List.getElem?_eq_some_iff.mp h).1

/-- frame: every node that existed before still exists at the same address with the same id
    and name; its attributes are unchanged unless it is the modified node -/
theorem nodeAt_modifyAt_grows {f : Tree → Tree} (hf : Grows f) (a : Addr) :
    ∀ (b : Addr) (t n : Tree), nodeAt b t = some n →
      ∃ n', nodeAt b (modifyAt f a t) = some n' ∧ n'.id = n.id ∧ n'.name = n.name ∧
        (b ≠ a → n'.attrs = n.attrs) ∧ (b = a → n' = f n) := by
  induction a with
  | nil =>
    intro b t n hn
    rw [modifyAt_nil]
    cases b with
    | nil =>
      simp at hn; subst hn
      exact ⟨f t, rfl, hf.id t, hf.name t, fun h => absurd rfl h, fun _ => rfl⟩
    | cons k ks =>
      rw [nodeAt_cons] at hn
      cases hk : t.children[k]? with
      | none => rw [hk] at hn; cases hn
      | some c =>
        rw [hk] at hn
        refine ⟨n, ?_, rfl, rfl, fun _ => rfl, fun h => by cases h⟩
        rw [nodeAt_cons, hf.getElem? t c k hk]; exact hn
  | cons j js ih =>
    intro b t n hn
    cases b with
    | nil =>
      simp at hn; subst hn
      refine ⟨modifyAt f (j :: js) t, rfl, by simp, by simp, fun _ => by simp, fun h => by cases h⟩
    | cons k ks =>
      rw [nodeAt_cons] at hn
      cases hk : t.children[k]? with
      | none => rw [hk] at hn; cases hn
      | some c =>
        rw [hk] at hn
        simp only [Option.bind] at hn
        rw [nodeAt_cons, modifyAt_cons_children]
        by_cases hjk : j = k
        · subst hjk
          rw [List.getElem?_modify_eq, hk]
          simp only [Option.bind]
          obtain ⟨n', h1, h2, h3, h4, h5⟩ := ih ks c n hn
          refine ⟨n', h1, h2, h3, fun hne => h4 (fun e => hne (by rw [e])), fun he => h5 ?_⟩
          injection he
        · rw [List.getElem?_modify_ne _ _ hjk, hk]
          refine ⟨n, hn, rfl, rfl, fun _ => rfl, fun he => ?_⟩
          injection he with h1 _
          exact absurd h1.symm hjk

/-- frame for names: the names along every valid address are unchanged -/
theorem namesAlong_modifyAt_grows {f : Tree → Tree} (hf : Grows f) (a : Addr) :
    ∀ (b : Addr) (t n : Tree), nodeAt b t = some n →
      namesAlong b (modifyAt f a t) = namesAlong b t := by
  induction a with
  | nil =>
    intro b t n hn
    rw [modifyAt_nil]
    cases b with
    | nil => simp [hf.name]
    | cons k ks =>
      rw [nodeAt_cons] at hn
      cases hk : t.children[k]? with
      | none => rw [hk] at hn; cases hn
      | some c =>
        rw [namesAlong_cons _ _ _ _ hk, namesAlong_cons _ _ _ _ (hf.getElem? t c k hk), hf.name]
  | cons j js ih =>
    intro b t n hn
    cases b with
    | nil => simp
    | cons k ks =>
      rw [nodeAt_cons] at hn
      cases hk : t.children[k]? with
      | none => rw [hk] at hn; cases hn
      | some c =>
        rw [hk] at hn
        simp only [Option.bind] at hn
        by_cases hjk : j = k
        · subst hjk
          have : (modifyAt f (j :: js) t).children[j]? = some (modifyAt f js c) := by
            rw [modifyAt_cons_children, List.getElem?_modify_eq, hk]; rfl
          rw [namesAlong_cons _ _ _ _ this, namesAlong_cons _ _ _ _ hk, ih ks c n hn]
          simp
        · have : (modifyAt f (j :: js) t).children[k]? = some c := by
            rw [modifyAt_cons_children, List.getElem?_modify_ne _ _ hjk, hk]
          rw [namesAlong_cons _ _ _ _ this, namesAlong_cons _ _ _ _ hk]
          simp

theorem grows_appendChild (new : Tree) : Grows (appendChild new) :=
  ⟨fun t => by cases t; rfl, fun t => by cases t; rfl, fun t => ⟨[new], by cases t; rfl⟩⟩

theorem grows_setAttrs (a : Attrs) : Grows (setAttrs a) :=
  ⟨fun t => by cases t; rfl, fun t => by cases t; rfl, fun t => ⟨[], by cases t; simp [setAttrs]⟩⟩

@[simp] theorem appendChild_children (new t : Tree) : (appendChild new t).children = t.children ++ [new] := by
  cases t; rfl
@[simp] theorem appendChild_attrs (new t : Tree) : (appendChild new t).attrs = t.attrs := by
  cases t; rfl
@[simp] theorem appendChild_name (new t : Tree) : (appendChild new t).name = t.name := by
  cases t; rfl
@[simp] theorem appendChild_id (new t : Tree) : (appendChild new t).id = t.id := by
  cases t; rfl
@[simp] theorem setAttrs_children (a : Attrs) (t : Tree) : (setAttrs a t).children = t.children := by
  cases t; rfl
@[simp] theorem setAttrs_attrs (a : Attrs) (t : Tree) : (setAttrs a t).attrs = updateAttrs t.attrs a := by
  cases t; rfl
@[simp] theorem setAttrs_name (a : Attrs) (t : Tree) : (setAttrs a t).name = t.name := by
  cases t; rfl
@[simp] theorem setAttrs_id (a : Attrs) (t : Tree) : (setAttrs a t).id = t.id := by
  cases t; rfl

end Paths
