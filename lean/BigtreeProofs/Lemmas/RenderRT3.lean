import BigtreeModel.Render
import BigtreeProofs.Lemmas.RenderRT2
/-! Helper lemmas for C18.print_roundtrip, part 3: the side conditions survive `max_depth` pruning. -/
namespace Render

theorem cut_name (md d : Nat) (t : Tree) : (cut md d t).name = t.name := by
  match t with
  | .node i n a cs => rfl

theorem cutL_names (md d : Nat) : ∀ cs : List Tree, (cutL md d cs).map Tree.name = cs.map Tree.name
  | [] => rfl
  | c :: cs => by simp [cutL, cut_name, cutL_names md d cs]

mutual
theorem cut_namesT (md d : Nat) (t : Tree) : ∀ n ∈ namesT (cut md d t), n ∈ namesT t := by
  match t with
  | .node i m a cs =>
    intro n hn
    simp only [cut, namesT, List.mem_cons] at hn ⊢
    rcases hn with rfl | hn
    · exact Or.inl rfl
    · by_cases he : (d == md) = true
      · simp [he, namesL] at hn
      · simp only [he, Bool.false_eq_true, ↓reduceIte] at hn
        exact Or.inr (cutL_namesL md (d + 1) cs n hn)
theorem cutL_namesL (md d : Nat) (cs : List Tree) : ∀ n ∈ namesL (cutL md d cs), n ∈ namesL cs := by
  match cs with
  | [] => intro n hn; simp [cutL, namesL] at hn
  | c :: cs =>
    intro n hn
    simp only [cutL, namesL, List.mem_append] at hn ⊢
    rcases hn with hn | hn
    · exact Or.inl (cut_namesT md d c n hn)
    · exact Or.inr (cutL_namesL md d cs n hn)
end

mutual
theorem cut_sibDistinct (md d : Nat) (t : Tree) (h : sibDistinct t = true) : sibDistinct (cut md d t) = true := by
  match t with
  | .node i m a cs =>
    simp only [sibDistinct, Bool.and_eq_true, decide_eq_true_eq] at h
    by_cases he : (d == md) = true
    · simp [cut, he, sibDistinct, sibDistinct.sibDistinctL]
    · simp only [cut, he, Bool.false_eq_true, ↓reduceIte, sibDistinct, Bool.and_eq_true, decide_eq_true_eq, cutL_names]
      exact ⟨h.1, cutL_sibDistinct md (d + 1) cs h.2⟩
theorem cutL_sibDistinct (md d : Nat) (cs : List Tree) (h : sibDistinct.sibDistinctL cs = true) :
    sibDistinct.sibDistinctL (cutL md d cs) = true := by
  match cs with
  | [] => rfl
  | c :: cs =>
    simp only [sibDistinct.sibDistinctL, Bool.and_eq_true] at h
    simp only [cutL, sibDistinct.sibDistinctL, Bool.and_eq_true]
    exact ⟨cut_sibDistinct md d c h.1, cutL_sibDistinct md d cs h.2⟩
end

theorem prune_namesT (md : Nat) (t : Tree) : ∀ n ∈ namesT (prune md t), n ∈ namesT t := by
  unfold prune
  by_cases h : (md == 0) = true
  · simp [h]
  · simp only [h]; exact cut_namesT md 1 t

theorem prune_sibDistinct (md : Nat) (t : Tree) (h : sibDistinct t = true) : sibDistinct (prune md t) = true := by
  unfold prune
  by_cases h0 : (md == 0) = true
  · simpa [h0] using h
  · simp only [h0]; exact cut_sibDistinct md 1 t h

/-- print → parse round trip on the line level -/
theorem strToTree_yieldTree {st : Style} (hst : styleOk st = true) (md : Nat) (t : Tree)
    (hnames : ∀ n ∈ namesT t, nameOk st n = true) (hsib : sibDistinct t = true) :
    strToTreeLines [st.branch, st.stemFinal] ((yieldTree st md t).map Line.text) = some (erase (prune md t)) := by
  rw [yieldTree_eq_spec]
  exact strToTree_spec hst _ (fun n hn => hnames n (prune_namesT md t n hn)) (prune_sibDistinct md t hsib)
end Render
