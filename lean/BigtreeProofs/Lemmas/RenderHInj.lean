import BigtreeProofs.Lemmas.RenderHDec
/-! Corollary of `h_decodable` for C18: with intermediate node names, the horizontal rendering of a `Node`
tree (no empty slots) determines the tree, for every style meeting `hstyleOk`. -/
namespace Render

theorem ofTreeL_any_isReal : ∀ cs : List Tree, (ofTree.ofTreeL cs).any HTree.isReal = !cs.isEmpty
  | [] => rfl
  | c :: cs => by
    match c with
    | .node i n a ds => simp [ofTree.ofTreeL, ofTree, HTree.isReal]

mutual
theorem hExpected_ofTree (t : Tree) (h : hnamesOk (ofTree t) = true) : hExpected true (ofTree t) = ofTree t := by
  match t with
  | .node i n a cs =>
    simp only [ofTree, hnamesOk, Bool.and_eq_true] at h
    simp only [ofTree, hExpected, ofTreeL_any_isReal]
    cases cs with
    | nil => simp [ofTree.ofTreeL, rstrip_name h.1]
    | cons c cs =>
      simp only [List.isEmpty_cons, Bool.not_false, Bool.not_true, Bool.false_eq_true, ↓reduceIte]
      rw [hExpectedL_ofTree (c :: cs) h.2]
theorem hExpectedL_ofTree (cs : List Tree) (h : hnamesOk.hnamesOkL (ofTree.ofTreeL cs) = true) :
    hExpected.hExpectedL true (ofTree.ofTreeL cs) = ofTree.ofTreeL cs := by
  match cs with
  | [] => rfl
  | c :: cs =>
    simp only [ofTree.ofTreeL, hnamesOk.hnamesOkL, Bool.and_eq_true] at h
    simp only [ofTree.ofTreeL, hExpected.hExpectedL]
    rw [hExpected_ofTree c h.1, hExpectedL_ofTree cs h.2]
end

/-- the horizontal form (with intermediate names) of `Node` trees is injective -/
theorem hyield_injective (S : HStyle) (hS : hstyleOk S = true) (t1 t2 : Tree)
    (h1 : hnamesOk (ofTree t1) = true) (h2 : hnamesOk (ofTree t2) = true)
    (h : hyieldTree S true 0 (ofTree t1) = hyieldTree S true 0 (ofTree t2)) : ofTree t1 = ofTree t2 := by
  have d1 := h_decodable S hS true 0 (ofTree t1) h1
  have d2 := h_decodable S hS true 0 (ofTree t2) h2
  rw [h, d2] at d1
  simp only [hprune, beq_self_eq_true, ↓reduceIte, Option.some.injEq] at d1
  rw [hExpected_ofTree t1 h1, hExpected_ofTree t2 h2] at d1
  exact d1.symm
end Render
