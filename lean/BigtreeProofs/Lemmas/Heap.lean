import BigtreeModel.Relation
/-!
# Lemmas for `list_to_binarytree` (C13)

The loop of `Heap.listToStore` maintains: after `k` elements the store is `specStore (first k)`,
the store in which slot `p` points to `2p+1` / `2p+2` exactly when these are `< k`.
Core Lean only.
-/
open Paths

namespace Heap

/-- slot `p` of the heap-shaped store over `n` elements -/
def slotOf (n p : Nat) (v : Int) : Slot :=
  Slot.mk v (if 2 * p + 1 < n then some (2 * p + 1) else none) (if 2 * p + 2 < n then some (2 * p + 2) else none)

/-- the heap-shaped store: specification of `node_list` -/
def specStore (vs : List Int) : List Slot := vs.mapIdx fun p v => slotOf vs.length p v

theorem specStore_length (vs) : (specStore vs).length = vs.length := by simp [specStore]

theorem specStore_get (vs : List Int) (p : Nat) :
    (specStore vs)[p]? = (vs[p]?).map (slotOf vs.length p) := by
  simp [specStore, List.getElem?_mapIdx]

theorem slotOf_congr {n m p : Nat} {v : Int}
    (h1 : 2 * p + 1 < n ↔ 2 * p + 1 < m) (h2 : 2 * p + 2 < n ↔ 2 * p + 2 < m) :
    slotOf n p v = slotOf m p v := by
  simp [slotOf, h1, h2]

theorem step (done : List Int) (x : Int) (h : done ≠ []) :
    (attach (specStore done) (parentIdx done.length) done.length).map
      (· ++ [Slot.mk x none none]) = .ok (specStore (done ++ [x])) := by
  have hk : 1 ≤ done.length := by cases done <;> simp_all
  generalize hpe : parentIdx done.length = p
  have hpar : done.length = 2 * p + 1 ∨ done.length = 2 * p + 2 := by
    unfold parentIdx at hpe; omega
  have hp : p < done.length := by omega
  unfold attach
  rw [specStore_get]
  have hv : done[p]? = some done[p] := List.getElem?_eq_getElem hp
  simp only [hv, Option.map]
  -- the state after the attach, element by element
  have key : ∀ (st' : List Slot), st'.length = done.length →
      (∀ j (hj : j < done.length), st'[j]? = some (slotOf (done.length + 1) j done[j])) →
      st' ++ [Slot.mk x none none] = specStore (done ++ [x]) := by
    intro st' hl hget
    apply List.ext_getElem?
    intro j
    rw [specStore_get]
    by_cases hj : j < done.length
    · rw [List.getElem?_append_left (by omega), List.getElem?_append_left hj, hget j hj]
      simp [List.getElem?_eq_getElem hj]
    · by_cases hj' : j = done.length
      · subst hj'
        rw [List.getElem?_append_right (by omega), List.getElem?_append_right (by omega)]
        simp [hl, slotOf]
        omega
      · rw [List.getElem?_eq_none (by simp; omega), List.getElem?_eq_none (by simp; omega)]
        rfl
  rcases hpar with hpar | hpar
  · have h1 : ¬ (2 * p + 1 < done.length) := by omega
    have h2 : ¬ (2 * p + 2 < done.length) := by omega
    simp only [slotOf, h1, h2, if_false, Option.isNone_none, if_true, Except.map]
    congr 1
    apply key
    · simp [specStore_length]
    · intro j hj
      by_cases hjp : j = p
      · subst hjp
        simp [specStore_length, hj, slotOf]
        omega
      · rw [List.getElem?_set_ne (by omega), specStore_get, List.getElem?_eq_getElem hj]
        simp only [Option.map]
        congr 1
        apply slotOf_congr <;> omega
  · have h1 : (2 * p + 1 < done.length) := by omega
    have h2 : ¬ (2 * p + 2 < done.length) := by omega
    simp only [slotOf, h1, h2, if_false, Option.isNone_none, Option.isNone_some, if_true, Except.map]
    simp only [Bool.false_eq_true, if_false]
    congr 1
    apply key
    · simp [specStore_length]
    · intro j hj
      by_cases hjp : j = p
      · subst hjp
        simp [specStore_length, hj, slotOf]
        omega
      · rw [List.getElem?_set_ne (by omega), specStore_get, List.getElem?_eq_getElem hj]
        simp only [Option.map]
        congr 1
        apply slotOf_congr <;> omega

theorem loop_spec (xs : List Int) : ∀ (done : List Int), done ≠ [] →
    loop xs done.length (specStore done) = .ok (specStore (done ++ xs)) := by
  induction xs with
  | nil => intro done _; simp [loop]
  | cons x xs ih =>
    intro done h
    have hs := step done x h
    unfold loop
    cases hat : attach (specStore done) (parentIdx done.length) done.length with
    | error e => rw [hat] at hs; simp [Except.map] at hs
    | ok st' =>
      rw [hat] at hs
      simp only [Except.map, Except.ok.injEq] at hs
      simp only
      rw [hs]
      have := ih (done ++ [x]) (by simp)
      simpa using this

theorem listToStore_eq (xs : List Int) (h : xs ≠ []) : listToStore xs = .ok (specStore xs) := by
  cases xs with
  | nil => exact absurd rfl h
  | cons x xs =>
    have := loop_spec xs [x] (by simp)
    simpa [listToStore, specStore, slotOf] using this

/-- below the occupied positions the specification tree is empty -/
theorem heapTree_none (xs : List Int) (f i : Nat) (h : xs.length ≤ i) : heapTree xs f i = .nil := by
  cases f with
  | zero => rfl
  | succ f => simp [heapTree, List.getElem?_eq_none h]

theorem readBack_spec (xs : List Int) : ∀ (f i : Nat),
    readBack (specStore xs) f i = heapTree xs f i := by
  intro f
  induction f with
  | zero => intro i; rfl
  | succ f ih =>
    intro i
    unfold readBack heapTree
    rw [specStore_get]
    cases hx : xs[i]? with
    | none => rfl
    | some v =>
      simp only [Option.map, slotOf]
      congr 1
      · split
        · rename_i l hl
          split at hl
          · cases hl; exact ih _
          · cases hl
        · rename_i hl
          split at hl
          · cases hl
          · exact (heapTree_none xs f _ (by omega)).symm
      · split
        · rename_i l hl
          split at hl
          · cases hl; exact ih _
          · cases hl
        · rename_i hl
          split at hl
          · cases hl
          · exact (heapTree_none xs f _ (by omega)).symm

end Heap
