import BigtreeModel.Helper
/-!
# Lemmas for C14: prune_tree / get_subtree on Model B

1. the detach loop is a restriction (`detach_eq_restrict`);
2. restrictions agree when their predicates agree along kept routes (`restrict_congr`);
3. for non-nested targets the detach predicate is "on a route to a target or (unless exact) below one";
4. the depth cut via level groups is the structural depth cut, which is again a restriction;
5. the nodes of a restriction (`keptAddrs`, labels in pre-order).
-/

namespace Helper

/-! ## 1. detach = restrict -/

/-- the predicate the detach loop applies to a non-root node `b` -/
def keepD (A N : List Addr) (b : Addr) : Bool :=
  !(A.contains b.dropLast) || A.contains b || N.contains b

mutual
theorem detach_eq_restrict (A N : List Addr) :
    ∀ (t : Tree) (a : Addr), detach A N a t = restrict (keepD A N) a t
  | .node i n av cs, a => by
    simp only [detach, restrict]
    rw [detachL_eq_restrictL A N cs a 0]
theorem detachL_eq_restrictL (A N : List Addr) :
    ∀ (cs : List Tree) (a : Addr) (k : Nat),
      detachL A N a (A.contains a) k cs = restrictL (keepD A N) a k cs
  | [], a, k => by simp [detachL, restrictL]
  | c :: cs, a, k => by
    simp only [detachL, restrictL]
    rw [detachL_eq_restrictL A N cs a (k + 1), detach_eq_restrict A N c (a ++ [k])]
    simp only [keepD, List.dropLast_concat]
    cases h1 : A.contains a <;> cases h2 : A.contains (a ++ [k]) <;> cases h3 : N.contains (a ++ [k]) <;> simp
end

/-! ## 2. congruence of restrictions along kept routes -/

mutual
theorem restrict_congr (k1 k2 : Addr → Bool) (P : Addr → Prop)
    (h1 : ∀ b j, P b → k1 (b ++ [j]) = k2 (b ++ [j]))
    (h2 : ∀ b j, P b → k1 (b ++ [j]) = true → P (b ++ [j])) :
    ∀ (t : Tree) (a : Addr), P a → restrict k1 a t = restrict k2 a t
  | .node i n av cs, a, ha => by
    simp only [restrict]
    rw [restrictL_congr k1 k2 P h1 h2 cs a 0 ha]
theorem restrictL_congr (k1 k2 : Addr → Bool) (P : Addr → Prop)
    (h1 : ∀ b j, P b → k1 (b ++ [j]) = k2 (b ++ [j]))
    (h2 : ∀ b j, P b → k1 (b ++ [j]) = true → P (b ++ [j])) :
    ∀ (cs : List Tree) (a : Addr) (k : Nat), P a → restrictL k1 a k cs = restrictL k2 a k cs
  | [], _, _, _ => by simp [restrictL]
  | c :: cs, a, k, ha => by
    simp only [restrictL]
    rw [← h1 a k ha, restrictL_congr k1 k2 P h1 h2 cs a (k + 1) ha]
    by_cases hk : k1 (a ++ [k]) = true
    · simp only [hk, if_true]
      rw [restrict_congr k1 k2 P h1 h2 c (a ++ [k]) (h2 a k ha hk)]
    · simp [hk]
end

/-! ## 3. the detach predicate for non-nested targets -/

/-- on a route to a target, or (unless `exact`) below a target -/
def keepT (ps : List Addr) (exact : Bool) (b : Addr) : Bool :=
  ps.any fun p => b.isPrefixOf p || (!exact && p.isPrefixOf b)

theorem keepT_iff (ps : List Addr) (exact : Bool) (b : Addr) :
    keepT ps exact b = true ↔ ∃ p ∈ ps, b <+: p ∨ (exact = false ∧ p <+: b) := by
  simp [keepT, List.any_eq_true, List.isPrefixOf_iff_prefix]

theorem mem_properPrefixes (x p : Addr) : x ∈ properPrefixes p ↔ x <+: p ∧ x ≠ p := by
  simp only [properPrefixes, List.mem_map, List.mem_range]
  constructor
  · rintro ⟨k, hk, rfl⟩
    refine ⟨List.take_prefix k p, ?_⟩
    intro h
    have := congrArg List.length h
    simp at this
    omega
  · rintro ⟨hx, hne⟩
    refine ⟨x.length, ?_, (List.prefix_iff_eq_take.mp hx).symm⟩
    have hle := hx.length_le
    rcases Nat.lt_or_ge x.length p.length with h | h
    · exact h
    · exfalso
      apply hne
      have : x.length = p.length := by omega
      rw [List.prefix_iff_eq_take.mp hx, this, List.take_length]

/-- `ancestors_to_prune` as computed by `prunePaths` -/
def ancSet (ps : List Addr) (exact : Bool) : List Addr :=
  if exact then ps.flatMap properPrefixes ++ ps else ps.flatMap properPrefixes

theorem mem_ancSet (ps : List Addr) (exact : Bool) (x : Addr) :
    x ∈ ancSet ps exact ↔ (∃ p ∈ ps, x <+: p ∧ x ≠ p) ∨ (exact = true ∧ x ∈ ps) := by
  unfold ancSet
  cases exact <;> simp [List.mem_flatMap, mem_properPrefixes]

theorem keepD_eq_keepT (ps : List Addr) (exact : Bool) (hnn : NonNested ps)
    (b : Addr) (j : Nat) (hb : keepT ps exact b = true) :
    keepD (ancSet ps exact) ps (b ++ [j]) = keepT ps exact (b ++ [j]) := by
  rw [Bool.eq_iff_iff]
  simp only [keepD, Bool.or_eq_true, Bool.not_eq_true', List.dropLast_concat, keepT_iff]
  rw [← Bool.not_eq_true, List.contains_iff_mem, List.contains_iff_mem, List.contains_iff_mem,
    mem_ancSet, mem_ancSet]
  rw [keepT_iff] at hb
  constructor
  · rintro ((hnA | hA) | hN)
    · -- the parent is not in the ancestor set
      obtain ⟨p, hp, h | ⟨he, h⟩⟩ := hb
      · by_cases hbp : b = p
        · subst hbp
          cases hex : exact
          · exact ⟨b, hp, Or.inr ⟨rfl, List.prefix_append b [j]⟩⟩
          · exact absurd (Or.inr ⟨hex, hp⟩) hnA
        · exact absurd (Or.inl ⟨p, hp, h, hbp⟩) hnA
      · exact ⟨p, hp, Or.inr ⟨he, h.trans (List.prefix_append b [j])⟩⟩
    · rcases hA with ⟨p, hp, h, _⟩ | ⟨_, h⟩
      · exact ⟨p, hp, Or.inl h⟩
      · exact ⟨_, h, Or.inl (List.prefix_refl _)⟩
    · exact ⟨_, hN, Or.inl (List.prefix_refl _)⟩
  · rintro ⟨p, hp, h | ⟨he, h⟩⟩
    · by_cases hcp : b ++ [j] = p
      · exact Or.inr (hcp ▸ hp)
      · exact Or.inl (Or.inr (Or.inl ⟨p, hp, h, hcp⟩))
    · rcases List.prefix_concat_iff.mp h with h | h
      · exact Or.inr (h ▸ hp)
      · refine Or.inl (Or.inl ?_)
        rintro (⟨p', hp', hpre, hne⟩ | ⟨hex, _⟩)
        · have hpp' : p <+: p' := h.trans hpre
          have := hnn p hp p' hp' hpp'
          subst this
          apply hne
          exact List.IsPrefix.eq_of_length_le hpre (h.length_le)
        · simp [he] at hex

theorem keepT_root (ps : List Addr) (exact : Bool) (h : ps ≠ []) : keepT ps exact [] = true := by
  rw [keepT_iff]
  obtain ⟨p, hp⟩ := List.exists_mem_of_ne_nil ps h
  exact ⟨p, hp, Or.inl (List.nil_prefix)⟩

/-- the path phase of `prune_tree`, for non-nested targets, keeps exactly the routes to the targets
    and (unless exact) what lies below them -/
theorem detach_targets (ps : List Addr) (exact : Bool) (hnn : NonNested ps) (hne : ps ≠ []) (t : Tree) :
    detach (ancSet ps exact) ps [] t = restrict (keepT ps exact) [] t := by
  rw [detach_eq_restrict]
  exact restrict_congr _ _ (fun b => keepT ps exact b = true)
    (fun b j hb => keepD_eq_keepT ps exact hnn b j hb)
    (fun b j hb hk => by rw [← keepD_eq_keepT ps exact hnn b j hb]; exact hk) t [] (keepT_root ps exact hne)

end Helper

namespace Helper

/-! ## 4a. structural depth cut of a restriction is a restriction -/

mutual
theorem restrict_true : ∀ (t : Tree) (a : Addr), restrict (fun _ => true) a t = t
  | .node i n av cs, a => by simp only [restrict]; rw [restrictL_true cs a 0]
theorem restrictL_true : ∀ (cs : List Tree) (a : Addr) (k : Nat), restrictL (fun _ => true) a k cs = cs
  | [], _, _ => by simp [restrictL]
  | c :: cs, a, k => by simp only [restrictL, if_true]; rw [restrict_true c, restrictL_true cs]
end

theorem restrictL_none (keep : Addr → Bool) (a : Addr) (h : ∀ k, keep (a ++ [k]) = false) :
    ∀ (cs : List Tree) (k : Nat), restrictL keep a k cs = []
  | [], _ => by simp [restrictL]
  | c :: cs, k => by simp only [restrictL, h k]; simpa using restrictL_none keep a h cs (k + 1)

/-- `keep` together with the depth limit -/
def withDepth (keep : Addr → Bool) (md : Nat) (b : Addr) : Bool := keep b && decide (b.length + 1 ≤ md)

mutual
theorem cutDepth_restrict (keep : Addr → Bool) (md : Nat) :
    ∀ (t : Tree) (a : Addr), a.length + 1 ≤ md →
      cutDepth md (a.length + 1) (restrict keep a t) = restrict (withDepth keep md) a t
  | .node i n av cs, a, h => by
    simp only [restrict, cutDepth]
    by_cases hd : a.length + 1 = md
    · rw [if_pos hd, restrictL_none]
      intro k
      simp [withDepth]; omega
    · rw [if_neg hd, cutDepthL_restrictL keep md cs a 0 (by omega)]
theorem cutDepthL_restrictL (keep : Addr → Bool) (md : Nat) :
    ∀ (cs : List Tree) (a : Addr) (k : Nat), a.length + 2 ≤ md →
      cutDepthL md (a.length + 1 + 1) (restrictL keep a k cs) = restrictL (withDepth keep md) a k cs
  | [], _, _, _ => by simp [restrictL, cutDepthL]
  | c :: cs, a, k, h => by
    have hk : withDepth keep md (a ++ [k]) = keep (a ++ [k]) := by
      simp [withDepth]; intro _; omega
    simp only [restrictL, hk]
    by_cases hc : keep (a ++ [k]) = true
    · simp only [hc, if_true, cutDepthL]
      rw [cutDepthL_restrictL keep md cs a (k + 1) h]
      have := cutDepth_restrict keep md c (a ++ [k]) (by simp; omega)
      simp only [List.length_append, List.length_singleton] at this
      rw [this]
    · simp only [hc]
      exact cutDepthL_restrictL keep md cs a (k + 1) h
end

theorem cutDepth_eq_restrict (md : Nat) (h : 1 ≤ md) (t : Tree) :
    cutDepth md 1 t = restrict (withDepth (fun _ => true) md) [] t := by
  have := cutDepth_restrict (fun _ => true) md t [] (by simpa using h)
  rw [restrict_true] at this
  simpa using this

/-! ## 4b. the level groups are the depth layers -/

mutual
/-- addresses of the nodes at relative depth `j` below the node `t` whose address is `a` -/
def layerAddrs : Nat → Addr → Tree → List Addr
  | 0, a, _ => [a]
  | j + 1, a, .node _ _ _ cs => layerAddrsL j a 0 cs
def layerAddrsL (j : Nat) (a : Addr) (k : Nat) : List Tree → List Addr
  | [] => []
  | c :: cs => layerAddrs j (a ++ [k]) c ++ layerAddrsL j a (k + 1) cs
end

def layerF (j : Nat) (F : List (Addr × Tree)) : List Addr := F.flatMap fun at' => layerAddrs j at'.1 at'.2

def heightF : List (Addr × Tree) → Nat
  | [] => 0
  | (_, t) :: r => max (height t) (heightF r)

def kidsOf (a : Addr) (k : Nat) (cs : List Tree) : List (Addr × Tree) :=
  (cs.zipIdx k).map fun ck => (a ++ [ck.2], ck.1)

theorem nextLevel_cons (a : Addr) (t : Tree) (r : List (Addr × Tree)) :
    nextLevel ((a, t) :: r) = kidsOf a 0 t.children ++ nextLevel r := by
  simp [nextLevel, kidsOf]

theorem layerF_kidsOf (j : Nat) (a : Addr) : ∀ (cs : List Tree) (k : Nat),
    layerF j (kidsOf a k cs) = layerAddrsL j a k cs
  | [], k => by simp [layerF, kidsOf, layerAddrsL]
  | c :: cs, k => by
    have ih := layerF_kidsOf j a cs (k + 1)
    simp only [layerF, kidsOf, List.zipIdx_cons, List.map_cons, List.flatMap_cons, layerAddrsL] at ih ⊢
    rw [ih]

theorem layerF_append (j : Nat) (F G : List (Addr × Tree)) : layerF j (F ++ G) = layerF j F ++ layerF j G := by
  simp [layerF]

theorem layerF_succ (j : Nat) : ∀ F : List (Addr × Tree), layerF (j + 1) F = layerF j (nextLevel F)
  | [] => by simp [layerF, nextLevel]
  | (a, .node i n av cs) :: r => by
    rw [nextLevel_cons, layerF_append, layerF_kidsOf, ← layerF_succ j r]
    simp [layerF, layerAddrs]

theorem layerF_zero (F : List (Addr × Tree)) : layerF 0 F = F.map (·.1) := by
  induction F with
  | nil => simp [layerF]
  | cons x r ih => simp only [layerF, List.flatMap_cons, List.map_cons] at ih ⊢; rw [ih]; simp [layerAddrs]

theorem heightF_append (F G : List (Addr × Tree)) : heightF (F ++ G) = max (heightF F) (heightF G) := by
  induction F with
  | nil => simp [heightF]
  | cons x r ih => obtain ⟨a, t⟩ := x; simp [heightF, ih, Nat.max_assoc]

theorem heightF_kidsOf (a : Addr) : ∀ (cs : List Tree) (k : Nat), heightF (kidsOf a k cs) = height.heightL cs
  | [], _ => by simp [kidsOf, heightF, height.heightL]
  | c :: cs, k => by
    have ih := heightF_kidsOf a cs (k + 1)
    simp only [kidsOf, List.zipIdx_cons, List.map_cons, heightF, height.heightL] at ih ⊢
    rw [ih]

theorem heightF_nextLevel : ∀ F : List (Addr × Tree), heightF (nextLevel F) + 1 ≤ max (heightF F) 1
  | [] => by simp [nextLevel, heightF]
  | (a, .node i n av cs) :: r => by
    have ih := heightF_nextLevel r
    rw [nextLevel_cons, heightF_append, heightF_kidsOf]
    simp only [heightF, height, Tree.children_node]
    omega

theorem levelGroups_some : ∀ (j f : Nat) (F : List (Addr × Tree)) (g : List Addr),
    (levelGroups f F)[j]? = some g → g = layerF j F
  | _, 0, _, _, h => by simp [levelGroups] at h
  | 0, f + 1, F, g, h => by
    simp only [levelGroups, List.getElem?_cons_zero, Option.some.injEq] at h
    rw [layerF_zero, h]
  | j + 1, f + 1, F, g, h => by
    simp only [levelGroups, List.getElem?_cons_succ] at h
    split at h
    · simp at h
    · rw [layerF_succ]; exact levelGroups_some j f _ g h

theorem levelGroups_none : ∀ (j f : Nat) (F : List (Addr × Tree)), F ≠ [] → heightF F ≤ f → 1 ≤ f →
    (levelGroups f F)[j]? = none → layerF j F = []
  | _, 0, _, _, _, h1, _ => by omega
  | 0, f + 1, F, _, _, _, h => by simp [levelGroups] at h
  | j + 1, f + 1, F, hF, hf, _, h => by
    simp only [levelGroups, List.getElem?_cons_succ] at h
    rw [layerF_succ]
    split at h
    · rename_i he
      simp only [List.isEmpty_iff] at he
      rw [he]; simp [layerF]
    · rename_i he
      have hne : nextLevel F ≠ [] := by simpa [List.isEmpty_iff] using he
      have hh := heightF_nextLevel F
      have hpos : 1 ≤ heightF (nextLevel F) := by
        cases hx : nextLevel F with
        | nil => exact absurd hx hne
        | cons x r =>
          obtain ⟨a, t⟩ := x
          cases t with
          | node i n av cs => simp [heightF, height]; omega
      exact levelGroups_none j f (nextLevel F) hne (by omega) (by omega) h

end Helper

namespace Helper

/-! ## 4c. deleting the children of every node of one layer, one after the other, is the depth cut -/

theorem snoc_prefix_inj {a p : Addr} {k k' : Nat} (h1 : (a ++ [k]) <+: p) (h2 : (a ++ [k']) <+: p) : k = k' := by
  have := List.prefix_of_prefix_length_le h1 h2 (by simp)
  have h3 := List.IsPrefix.eq_of_length_le this (by simp)
  simpa using h3

mutual
theorem delChildrenAt_frame (p : Addr) : ∀ (t : Tree) (b : Addr), ¬ b <+: p → delChildrenAt p b t = t
  | .node i n av cs, b, h => by
    have hne : b ≠ p := fun e => h (e ▸ List.prefix_refl _)
    simp only [delChildrenAt, if_neg hne]
    rw [delChildrenAtL_frame p cs b 0 (fun k' _ hk => h ((List.prefix_append b [k']).trans hk))]
theorem delChildrenAtL_frame (p : Addr) : ∀ (cs : List Tree) (a : Addr) (k : Nat),
    (∀ k', k ≤ k' → ¬ (a ++ [k']) <+: p) → delChildrenAtL p a k cs = cs
  | [], _, _, _ => by simp [delChildrenAtL]
  | c :: cs, a, k, h => by
    simp only [delChildrenAtL]
    rw [delChildrenAt_frame p c (a ++ [k]) (h k (Nat.le_refl _)),
      delChildrenAtL_frame p cs a (k + 1) (fun k' hk => h k' (by omega))]
end

mutual
theorem layerAddrs_prefix : ∀ (j : Nat) (t : Tree) (a p : Addr), p ∈ layerAddrs j a t → a <+: p ∧ p.length = a.length + j
  | 0, _, a, p, h => by simp [layerAddrs] at h; subst h; exact ⟨List.prefix_refl _, rfl⟩
  | j + 1, .node i n av cs, a, p, h => by
    simp only [layerAddrs] at h
    obtain ⟨k', _, hp, hl⟩ := layerAddrsL_prefix j cs a 0 p h
    exact ⟨(List.prefix_append a [k']).trans hp, by omega⟩
theorem layerAddrsL_prefix : ∀ (j : Nat) (cs : List Tree) (a : Addr) (k : Nat) (p : Addr), p ∈ layerAddrsL j a k cs →
    ∃ k', k ≤ k' ∧ (a ++ [k']) <+: p ∧ p.length = a.length + 1 + j
  | _, [], _, _, _, h => by simp [layerAddrsL] at h
  | j, c :: cs, a, k, p, h => by
    simp only [layerAddrsL, List.mem_append] at h
    rcases h with h | h
    · obtain ⟨h1, h2⟩ := layerAddrs_prefix j c (a ++ [k]) p h
      exact ⟨k, Nat.le_refl _, h1, by simpa using h2⟩
    · obtain ⟨k', hk, h1, h2⟩ := layerAddrsL_prefix j cs a (k + 1) p h
      exact ⟨k', by omega, h1, h2⟩
end

theorem fold_del_node (a : Addr) (i : Nat) (n : Str) (av : Attrs) :
    ∀ (ps : List Addr) (cs : List Tree), (∀ p ∈ ps, p ≠ a) →
      ps.foldl (fun T p => delChildrenAt p a T) (.node i n av cs)
        = .node i n av (ps.foldl (fun xs p => delChildrenAtL p a 0 xs) cs)
  | [], _, _ => rfl
  | p :: ps, cs, h => by
    have hp : a ≠ p := fun e => h p (by simp) e.symm
    simp only [List.foldl_cons, delChildrenAt, if_neg hp]
    exact fold_del_node a i n av ps _ (fun q hq => h q (by simp [hq]))

theorem fold_del_head (a : Addr) (k : Nat) :
    ∀ (ps : List Addr) (c : Tree) (cs : List Tree), (∀ p ∈ ps, (a ++ [k]) <+: p) →
      ps.foldl (fun xs p => delChildrenAtL p a k xs) (c :: cs)
        = (ps.foldl (fun T p => delChildrenAt p (a ++ [k]) T) c) :: cs
  | [], _, _, _ => rfl
  | p :: ps, c, cs, h => by
    have hp := h p (by simp)
    simp only [List.foldl_cons, delChildrenAtL]
    rw [delChildrenAtL_frame p cs a (k + 1) (fun k' hk hk' => by have := snoc_prefix_inj hp hk'; omega)]
    exact fold_del_head a k ps _ cs (fun q hq => h q (by simp [hq]))

theorem fold_del_tail (a : Addr) (k : Nat) :
    ∀ (ps : List Addr) (c : Tree) (cs : List Tree), (∀ p ∈ ps, ∃ k', k + 1 ≤ k' ∧ (a ++ [k']) <+: p) →
      ps.foldl (fun xs p => delChildrenAtL p a k xs) (c :: cs)
        = c :: (ps.foldl (fun xs p => delChildrenAtL p a (k + 1) xs) cs)
  | [], _, _, _ => rfl
  | p :: ps, c, cs, h => by
    obtain ⟨k', hk, hp⟩ := h p (by simp)
    simp only [List.foldl_cons, delChildrenAtL]
    rw [delChildrenAt_frame p c (a ++ [k]) (fun hk' => by have := snoc_prefix_inj hp hk'; omega)]
    exact fold_del_tail a k ps c _ (fun q hq => h q (by simp [hq]))

mutual
theorem fold_layer_cut : ∀ (j : Nat) (t : Tree) (a : Addr) (d : Nat),
    (layerAddrs j a t).foldl (fun T p => delChildrenAt p a T) t = cutDepth (d + j) d t
  | 0, .node i n av cs, a, d => by simp [layerAddrs, delChildrenAt, cutDepth]
  | j + 1, .node i n av cs, a, d => by
    simp only [layerAddrs, cutDepth]
    rw [if_neg (by omega), fold_del_node a i n av _ cs]
    · rw [fold_layerL_cut j cs a 0 d]
      congr 2; omega
    · intro p hp e
      obtain ⟨k', _, _, hl⟩ := layerAddrsL_prefix j cs a 0 p hp
      rw [e] at hl; omega
theorem fold_layerL_cut : ∀ (j : Nat) (cs : List Tree) (a : Addr) (k : Nat) (d : Nat),
    (layerAddrsL j a k cs).foldl (fun xs p => delChildrenAtL p a k xs) cs = cutDepthL (d + 1 + j) (d + 1) cs
  | _, [], _, _, _ => by simp [layerAddrsL, cutDepthL]
  | j, c :: cs, a, k, d => by
    simp only [layerAddrsL, List.foldl_append, cutDepthL]
    rw [fold_del_head a k _ c cs (fun p hp => (layerAddrs_prefix j c (a ++ [k]) p hp).1)]
    rw [fold_del_tail a k _ _ cs (fun p hp => by
      obtain ⟨k', hk, h1, _⟩ := layerAddrsL_prefix j cs a (k + 1) p hp
      exact ⟨k', hk, h1⟩)]
    rw [fold_layer_cut j c (a ++ [k]) (d + 1), fold_layerL_cut j cs a (k + 1) d]
end

theorem height_pos (t : Tree) : 1 ≤ height t := by cases t; simp [height]

/-- the depth phase of `prune_tree` is the structural depth cut -/
theorem depthCut_eq_cutDepth (md : Nat) (h : 1 ≤ md) (t : Tree) : depthCut md t = cutDepth md 1 t := by
  unfold depthCut
  have key : (layerAddrs (md - 1) [] t).foldl (fun T p => delChildrenAt p [] T) t = cutDepth md 1 t := by
    have := fold_layer_cut (md - 1) t [] 1
    rwa [show 1 + (md - 1) = md by omega] at this
  cases hg : (levelGroups (height t) [([], t)])[md - 1]? with
  | some g =>
    have := levelGroups_some _ _ _ _ hg
    simp only [layerF, List.flatMap_cons, List.flatMap_nil, List.append_nil] at this
    simp only [this]; exact key
  | none =>
    have := levelGroups_none _ _ _ (by simp) (by simp [heightF]) (height_pos t) hg
    simp only [layerF, List.flatMap_cons, List.flatMap_nil, List.append_nil] at this
    rw [this] at key
    simpa using key

end Helper

namespace Helper

/-! ## 5. the nodes of a restriction -/

theorem subAt_snoc : ∀ (a : Addr) (root : Tree) (k : Nat),
    subAt root (a ++ [k]) = (subAt root a).bind fun t => t.children[k]?
  | [], .node i n av cs, k => by
    simp only [List.nil_append, subAt, Option.bind_some, Tree.children_node]
    cases cs[k]? <;> rfl
  | j :: a, .node i n av cs, k => by
    simp only [List.cons_append, subAt]
    cases h : cs[j]? with
    | none => simp
    | some c => simp only []; exact subAt_snoc a c k

/-- (id, name, attrs) of the node of `root` at address `b` -/
def labelAt (root : Tree) (b : Addr) : Option (Nat × Str × Attrs) := (subAt root b).map label

mutual
theorem preLabels_restrict (keep : Addr → Bool) (root : Tree) :
    ∀ (t : Tree) (a : Addr), subAt root a = some t →
      preLabels (restrict keep a t) = (keptAddrs keep a t).filterMap (labelAt root)
  | .node i n av cs, a, h => by
    simp only [restrict, preLabels, keptAddrs, List.filterMap_cons, labelAt, h, Option.map_some, label,
      Tree.id_node, Tree.name_node, Tree.attrs_node]
    rw [preLabelsL_restrictL keep root cs a 0 (fun j c hc => by
      rw [subAt_snoc, h]; simpa using hc)]
theorem preLabelsL_restrictL (keep : Addr → Bool) (root : Tree) :
    ∀ (cs : List Tree) (a : Addr) (k : Nat), (∀ j c, cs[j]? = some c → subAt root (a ++ [k + j]) = some c) →
      preLabelsL (restrictL keep a k cs) = (keptAddrsL keep a k cs).filterMap (labelAt root)
  | [], _, _, _ => by simp [restrictL, preLabelsL, keptAddrsL]
  | c :: cs, a, k, h => by
    have hc : subAt root (a ++ [k]) = some c := by simpa using h 0 c (by simp)
    have ht : ∀ j c', cs[j]? = some c' → subAt root (a ++ [k + 1 + j]) = some c' := fun j c' hj => by
      have := h (j + 1) c' (by simpa using hj)
      rwa [show k + (j + 1) = k + 1 + j by omega] at this
    simp only [restrictL, keptAddrsL]
    by_cases hk : keep (a ++ [k]) = true
    · simp only [hk, if_true, preLabelsL, List.filterMap_append]
      rw [preLabels_restrict keep root c (a ++ [k]) hc, preLabelsL_restrictL keep root cs a (k + 1) ht]
    · simp only [hk]
      exact preLabelsL_restrictL keep root cs a (k + 1) ht
end

mutual
theorem keptAddrs_prefix (keep : Addr → Bool) : ∀ (t : Tree) (a x : Addr), x ∈ keptAddrs keep a t → a <+: x
  | .node i n av cs, a, x, h => by
    simp only [keptAddrs, List.mem_cons] at h
    rcases h with h | h
    · exact h ▸ List.prefix_refl _
    · obtain ⟨k', _, hk⟩ := keptAddrsL_prefix keep cs a 0 x h
      exact (List.prefix_append a [k']).trans hk
theorem keptAddrsL_prefix (keep : Addr → Bool) : ∀ (cs : List Tree) (a : Addr) (k : Nat) (x : Addr),
    x ∈ keptAddrsL keep a k cs → ∃ k', k ≤ k' ∧ (a ++ [k']) <+: x
  | [], _, _, _, h => by simp [keptAddrsL] at h
  | c :: cs, a, k, x, h => by
    simp only [keptAddrsL] at h
    split at h
    · rcases List.mem_append.mp h with h | h
      · exact ⟨k, Nat.le_refl _, keptAddrs_prefix keep c (a ++ [k]) x h⟩
      · obtain ⟨k', hk, hp⟩ := keptAddrsL_prefix keep cs a (k + 1) x h
        exact ⟨k', by omega, hp⟩
    · obtain ⟨k', hk, hp⟩ := keptAddrsL_prefix keep cs a (k + 1) x h
      exact ⟨k', by omega, hp⟩
end


mutual
/-- for a prefix-closed predicate the kept nodes are the nodes of `t` that satisfy it (plus the root) -/
theorem mem_keptAddrs (keep : Addr → Bool)
    (hK : ∀ b c : Addr, c <+: b → keep b = true → keep c = true) :
    ∀ (t : Tree) (a x : Addr), x ∈ keptAddrs keep a t ↔ x ∈ addrs a t ∧ (x = a ∨ keep x = true)
  | .node i n av cs, a, x => by
    simp only [addrs, keptAddrs, List.mem_cons]
    rw [mem_keptAddrsL keep hK cs a 0 x]
    constructor
    · rintro (h | ⟨h1, h2⟩)
      · exact ⟨Or.inl h, Or.inl h⟩
      · exact ⟨Or.inr h1, Or.inr h2⟩
    · rintro ⟨h1 | h1, h2 | h2⟩
      · exact Or.inl h1
      · exact Or.inl h1
      · exact Or.inl h2
      · exact Or.inr ⟨h1, h2⟩
theorem mem_keptAddrsL (keep : Addr → Bool)
    (hK : ∀ b c : Addr, c <+: b → keep b = true → keep c = true) :
    ∀ (cs : List Tree) (a : Addr) (k : Nat) (x : Addr),
      x ∈ keptAddrsL keep a k cs ↔ x ∈ keptAddrsL (fun _ => true) a k cs ∧ keep x = true
  | [], _, _, _ => by simp [keptAddrsL]
  | c :: cs, a, k, x => by
    have ih1 := mem_keptAddrs keep hK c (a ++ [k]) x
    have ih2 := mem_keptAddrsL keep hK cs a (k + 1) x
    unfold addrs at ih1
    by_cases hk : keep (a ++ [k]) = true
    · simp only [keptAddrsL, hk, if_true, List.mem_append, ih1, ih2]
      constructor
      · rintro (⟨h1, h2 | h2⟩ | ⟨h1, h2⟩)
        · exact ⟨Or.inl h1, h2 ▸ hk⟩
        · exact ⟨Or.inl h1, h2⟩
        · exact ⟨Or.inr h1, h2⟩
      · rintro ⟨h1 | h1, h2⟩
        · exact Or.inl ⟨h1, Or.inr h2⟩
        · exact Or.inr ⟨h1, h2⟩
    · have hk' : keep (a ++ [k]) = false := by simpa using hk
      simp only [keptAddrsL, hk', Bool.false_eq_true, if_false, if_true, List.mem_append, ih2]
      constructor
      · rintro ⟨h1, h2⟩; exact ⟨Or.inr h1, h2⟩
      · rintro ⟨h1 | h1, h2⟩
        · exact absurd (hK x _ (keptAddrs_prefix _ c (a ++ [k]) x h1) h2) hk
        · exact ⟨h1, h2⟩
end

mutual
/-- the addresses of `t` are exactly the addresses at which `t` has a node -/
theorem mem_addrs_iff : ∀ (t : Tree) (a x : Addr), x ∈ addrs a t ↔ ∃ rel, x = a ++ rel ∧ (subAt t rel).isSome
  | .node i n av cs, a, x => by
    simp only [addrs, keptAddrs, List.mem_cons]
    rw [mem_addrsL_iff cs a 0 x]
    constructor
    · rintro (h | ⟨j, rel, c, hc, _, hx, hs⟩)
      · exact ⟨[], by simp [h], by simp [subAt]⟩
      · refine ⟨j :: rel, hx, ?_⟩
        simp only [subAt]
        simp only [Nat.sub_zero] at hc
        rw [hc]; exact hs
    · rintro ⟨rel, hx, hs⟩
      cases rel with
      | nil => left; simpa using hx
      | cons j rel =>
        right
        simp only [subAt] at hs
        cases hc : cs[j]? with
        | none => simp [hc] at hs
        | some c =>
          simp only [hc] at hs
          exact ⟨j, rel, c, by simpa using hc, Nat.zero_le _, hx, hs⟩
theorem mem_addrsL_iff : ∀ (cs : List Tree) (a : Addr) (k : Nat) (x : Addr),
    x ∈ keptAddrsL (fun _ => true) a k cs ↔
      ∃ j rel c, cs[j - k]? = some c ∧ k ≤ j ∧ x = a ++ j :: rel ∧ (subAt c rel).isSome
  | [], _, _, _ => by simp [keptAddrsL]
  | c :: cs, a, k, x => by
    simp only [keptAddrsL, if_true, List.mem_append]
    have ih1 := mem_addrs_iff c (a ++ [k]) x
    unfold addrs at ih1
    rw [ih1, mem_addrsL_iff cs a (k + 1) x]
    constructor
    · rintro (⟨rel, hx, hs⟩ | ⟨j, rel, c', hc, hj, hx, hs⟩)
      · exact ⟨k, rel, c, by simp, Nat.le_refl _, by simp [hx], hs⟩
      · refine ⟨j, rel, c', ?_, by omega, hx, hs⟩
        rw [show j - k = (j - (k + 1)) + 1 by omega]; simpa using hc
    · rintro ⟨j, rel, c', hc, hj, hx, hs⟩
      by_cases hjk : j = k
      · subst hjk
        simp only [Nat.sub_self, List.getElem?_cons_zero, Option.some.injEq] at hc
        subst hc
        exact Or.inl ⟨rel, by simp [hx], hs⟩
      · right
        refine ⟨j, rel, c', ?_, by omega, hx, hs⟩
        rw [show j - k = (j - (k + 1)) + 1 by omega] at hc; simpa using hc
end

theorem mem_addrs_root (t : Tree) (x : Addr) : x ∈ addrs [] t ↔ (subAt t x).isSome := by
  rw [mem_addrs_iff]; simp

/-! ## 6. locating -/

theorem locate_length (treeSep : Str) (t : Tree) (sepArg : Str) :
    ∀ (paths : List Str) (ps : List Addr), locate treeSep t sepArg paths = .ok ps → ps.length = paths.length
  | [], ps, h => by simp [locate] at h; subst h; rfl
  | q :: qs, ps, h => by
    simp only [locate] at h
    split at h
    · simp at h
    · simp at h
    · cases hr : locate treeSep t sepArg qs with
      | error e => simp [hr, Except.map] at h
      | ok ps' =>
        simp only [hr, Except.map, Except.ok.injEq] at h
        subst h
        simp [locate_length treeSep t sepArg qs ps' hr]

/-! ## 7. walk and find_path -/

mutual
theorem walk_subAt : ∀ (t : Tree) (a : Addr) (anc : List Str) (v : Visit), v ∈ walk a anc t →
    ∃ rel, v.addr = a ++ rel ∧ subAt t rel = some v.sub
  | .node i n av cs, a, anc, v, h => by
    simp only [walk, List.mem_cons] at h
    rcases h with h | h
    · subst h; exact ⟨[], by simp, rfl⟩
    · obtain ⟨j, rel, c, hc, _, hv, hs⟩ := walkL_subAt cs a (anc ++ [n]) 0 v h
      refine ⟨j :: rel, hv, ?_⟩
      simp only [subAt]
      simp only [Nat.sub_zero] at hc
      rw [hc]; exact hs
theorem walkL_subAt : ∀ (cs : List Tree) (a : Addr) (anc : List Str) (k : Nat) (v : Visit), v ∈ walkL a anc k cs →
    ∃ j rel c, cs[j - k]? = some c ∧ k ≤ j ∧ v.addr = a ++ j :: rel ∧ subAt c rel = some v.sub
  | [], _, _, _, _, h => by simp [walkL] at h
  | c :: cs, a, anc, k, v, h => by
    simp only [walkL, List.mem_append] at h
    rcases h with h | h
    · obtain ⟨rel, hv, hs⟩ := walk_subAt c (a ++ [k]) anc v h
      exact ⟨k, rel, c, by simp, Nat.le_refl _, by simp [hv], hs⟩
    · obtain ⟨j, rel, c', hc, hj, hv, hs⟩ := walkL_subAt cs a anc (k + 1) v h
      refine ⟨j, rel, c', ?_, by omega, hv, hs⟩
      rw [show j - k = (j - (k + 1)) + 1 by omega]; simpa using hc
end

theorem findPath_some (sep : Str) (anc : List Str) (t : Tree) (q : Str) (v : Visit)
    (h : findPath sep anc t q = .ok (some v)) :
    v ∈ walk [] anc t ∧ (rstrip sep q) <:+ pathName sep v.names ∧
      ∀ w ∈ walk [] anc t, (rstrip sep q) <:+ pathName sep w.names → w = v := by
  unfold findPath at h
  simp only at h
  split at h
  · simp at h
  · rename_i w hw
    simp only [Except.ok.injEq, Option.some.injEq] at h
    subst h
    have hm : w ∈ (walk [] anc t).filter fun v => (rstrip sep q).isSuffixOf (pathName sep v.names) := by
      rw [hw]; simp
    rw [List.mem_filter] at hm
    refine ⟨hm.1, by simpa using hm.2, ?_⟩
    intro w' hw' hs
    have : w' ∈ (walk [] anc t).filter fun v => (rstrip sep q).isSuffixOf (pathName sep v.names) := by
      rw [List.mem_filter]; exact ⟨hw', by simpa using hs⟩
    rw [hw] at this
    simpa using this
  · simp at h

theorem findPath_none (sep : Str) (anc : List Str) (t : Tree) (q : Str) :
    findPath sep anc t q = .ok none ↔ ∀ w ∈ walk [] anc t, ¬ (rstrip sep q) <:+ pathName sep w.names := by
  unfold findPath
  simp only
  constructor
  · intro h
    split at h
    · rename_i hw
      intro w hw' hs
      have : w ∈ (walk [] anc t).filter fun v => (rstrip sep q).isSuffixOf (pathName sep v.names) := by
        rw [List.mem_filter]; exact ⟨hw', by simpa using hs⟩
      rw [hw] at this; simp at this
    · simp at h
    · simp at h
  · intro h
    have : (walk [] anc t).filter (fun v => (rstrip sep q).isSuffixOf (pathName sep v.names)) = [] := by
      rw [List.filter_eq_nil_iff]
      intro w hw; simpa using h w hw
    rw [this]
/-! ## 8. order and multiplicity of the kept nodes -/

mutual
theorem keptAddrs_sublist (keep : Addr → Bool) : ∀ (t : Tree) (a : Addr),
    (keptAddrs keep a t).Sublist (addrs a t)
  | .node i n av cs, a => by
    simp only [addrs, keptAddrs]
    exact List.Sublist.cons_cons _ (keptAddrsL_sublist keep cs a 0)
theorem keptAddrsL_sublist (keep : Addr → Bool) : ∀ (cs : List Tree) (a : Addr) (k : Nat),
    (keptAddrsL keep a k cs).Sublist (keptAddrsL (fun _ => true) a k cs)
  | [], _, _ => by simp [keptAddrsL]
  | c :: cs, a, k => by
    have h1 := keptAddrs_sublist keep c (a ++ [k])
    have h2 := keptAddrsL_sublist keep cs a (k + 1)
    unfold addrs at h1
    simp only [keptAddrsL, if_true]
    split
    · exact List.Sublist.append h1 h2
    · exact h2.trans (List.sublist_append_right _ _)
end

mutual
theorem addrs_nodup : ∀ (t : Tree) (a : Addr), (addrs a t).Nodup
  | .node i n av cs, a => by
    simp only [addrs, keptAddrs, List.nodup_cons]
    refine ⟨?_, addrsL_nodup cs a 0⟩
    intro h
    obtain ⟨k', _, hk⟩ := keptAddrsL_prefix _ cs a 0 a h
    have := hk.length_le
    simp only [List.length_append, List.length_singleton] at this
    omega
theorem addrsL_nodup : ∀ (cs : List Tree) (a : Addr) (k : Nat), (keptAddrsL (fun _ => true) a k cs).Nodup
  | [], _, _ => by simp [keptAddrsL]
  | c :: cs, a, k => by
    have h1 := addrs_nodup c (a ++ [k])
    unfold addrs at h1
    simp only [keptAddrsL, if_true]
    rw [List.nodup_append]
    refine ⟨h1, addrsL_nodup cs a (k + 1), ?_⟩
    intro x hx y hy e
    subst e
    have p1 := keptAddrs_prefix _ c (a ++ [k]) x hx
    obtain ⟨k', hk, p2⟩ := keptAddrsL_prefix _ cs a (k + 1) x hy
    have := snoc_prefix_inj p1 p2
    omega
end
/-! ## 9. find_path returns the unique match -/

mutual
theorem walk_addrs : ∀ (t : Tree) (a : Addr) (anc : List Str), (walk a anc t).map (·.addr) = addrs a t
  | .node i n av cs, a, anc => by
    simp only [walk, addrs, keptAddrs, List.map_cons]
    rw [walkL_addrs cs a (anc ++ [n]) 0]
theorem walkL_addrs : ∀ (cs : List Tree) (a : Addr) (anc : List Str) (k : Nat),
    (walkL a anc k cs).map (·.addr) = keptAddrsL (fun _ => true) a k cs
  | [], _, _, _ => by simp [walkL, keptAddrsL]
  | c :: cs, a, anc, k => by
    have h1 := walk_addrs c (a ++ [k]) anc
    unfold addrs at h1
    simp only [walkL, keptAddrsL, if_true, List.map_append]
    rw [h1, walkL_addrs cs a anc (k + 1)]
end

theorem walk_nodup (t : Tree) (a : Addr) (anc : List Str) : (walk a anc t).Nodup := by
  have h := addrs_nodup t a
  rw [← walk_addrs t a anc] at h
  exact List.Pairwise.of_map (·.addr) (fun a b hab e => hab (congrArg _ e)) h

theorem eq_singleton_of_nodup {α : Type} : ∀ (l : List α) (v : α), l.Nodup → v ∈ l → (∀ w ∈ l, w = v) → l = [v]
  | [], _, _, hv, _ => by simp at hv
  | [x], v, _, hv, _ => by simp at hv; rw [hv]
  | x :: y :: r, v, hn, _, h => by
    have hx := h x (by simp)
    have hy := h y (by simp)
    rw [hx, hy] at hn
    simp at hn

/-- `find_path` returns `v` exactly when `v` is the one node whose `path_name` ends with the
    (right-stripped) query -/
theorem findPath_eq_some_iff (sep : Str) (anc : List Str) (t : Tree) (q : Str) (v : Visit) :
    findPath sep anc t q = .ok (some v) ↔
      v ∈ walk [] anc t ∧ (rstrip sep q) <:+ pathName sep v.names ∧
        ∀ w ∈ walk [] anc t, (rstrip sep q) <:+ pathName sep w.names → w = v := by
  constructor
  · exact findPath_some sep anc t q v
  · rintro ⟨h1, h2, h3⟩
    have hf : (walk [] anc t).filter (fun v => (rstrip sep q).isSuffixOf (pathName sep v.names)) = [v] := by
      apply eq_singleton_of_nodup _ _ (List.Pairwise.filter _ (walk_nodup t [] anc))
      · rw [List.mem_filter]; exact ⟨h1, by simpa using h2⟩
      · intro w hw
        rw [List.mem_filter] at hw
        exact h3 w hw.1 (by simpa using hw.2)
    unfold findPath
    simp only [hf]

/-- what it means for the textual path `q` to designate the node at address `p` -/
def Designates (treeSep : Str) (t : Tree) (sepArg : Str) (q : Str) (p : Addr) : Prop :=
  ∃ v, v.addr = p ∧ v ∈ walk [] [] t ∧
    (rstrip treeSep (replace sepArg treeSep q)) <:+ pathName treeSep v.names ∧
    ∀ w ∈ walk [] [] t, (rstrip treeSep (replace sepArg treeSep q)) <:+ pathName treeSep w.names → w = v

theorem locate_sound (treeSep : Str) (t : Tree) (sepArg : Str) :
    ∀ (paths : List Str) (ps : List Addr), locate treeSep t sepArg paths = .ok ps →
      ∀ qp ∈ paths.zip ps, Designates treeSep t sepArg qp.1 qp.2
  | [], ps, h => by simp
  | q :: qs, ps, h => by
    simp only [locate] at h
    split at h
    · simp at h
    · simp at h
    · rename_i v hv
      cases hr : locate treeSep t sepArg qs with
      | error e => simp [hr, Except.map] at h
      | ok ps' =>
        simp only [hr, Except.map, Except.ok.injEq] at h
        subst h
        obtain ⟨h1, h2, h3⟩ := findPath_some _ _ _ _ _ hv
        intro qp hqp
        simp only [List.zip_cons_cons, List.mem_cons] at hqp
        rcases hqp with e | hqp
        · subst e; exact ⟨v, rfl, h1, h2, h3⟩
        · exact locate_sound treeSep t sepArg qs ps' hr qp hqp

end Helper
