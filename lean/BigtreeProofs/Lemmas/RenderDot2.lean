import BigtreeModel.Render
import BigtreeProofs.Lemmas.RenderDot
/-! Helper lemmas for C18 (tree_to_dot), part 2: labels and edges through the tree relabelled with its ids;
the model-level K2 witness. -/
namespace Render

/-! ### the tree relabelled with its dot ids -/
mutual
def dotTreeT (sep : Str) (nd : NameDict) (pp : Str) : Tree → NameDict × Tree
  | .node i n a cs =>
    let path := pp ++ sep ++ n
    let lst := nd.get n
    let lst' := if lst.contains path then lst else lst ++ [path]
    let nd' := nd.put n lst'
    let cid := n ++ natStr (lst'.idxOf path)
    let sub := dotTreeL sep nd' path cs
    (sub.1, .node i cid a sub.2)
def dotTreeL (sep : Str) (nd : NameDict) (pp : Str) : List Tree → NameDict × List Tree
  | [] => (nd, [])
  | c :: cs =>
    let a := dotTreeT sep nd pp c
    let b := dotTreeL sep a.1 pp cs
    (b.1, a.2 :: b.2)
end

def parentEdge (parent : Option Str) (cid : Str) : List (Str × Str) :=
  match parent with
  | some p => [(p, cid)]
  | none => []

mutual
theorem dotT_tree (sep : Str) (nd : NameDict) (parent : Option Str) (pp : Str) (t : Tree) :
    (dotT sep nd parent pp t).dict = (dotTreeT sep nd pp t).1 ∧
    (dotT sep nd parent pp t).vertices.map (·.1) = namesT (dotTreeT sep nd pp t).2 ∧
    (dotT sep nd parent pp t).vertices.map (·.2) = namesT t ∧
    (dotT sep nd parent pp t).edges =
      parentEdge parent (dotTreeT sep nd pp t).2.name ++ edgesOfT (dotTreeT sep nd pp t).2 := by
  match t with
  | .node i n a cs =>
    have ih := dotL_tree sep
      (nd.put n (if (nd.get n).contains (pp ++ sep ++ n) then nd.get n else nd.get n ++ [pp ++ sep ++ n]))
      (n ++ natStr ((if (nd.get n).contains (pp ++ sep ++ n) then nd.get n else nd.get n ++ [pp ++ sep ++ n]).idxOf
        (pp ++ sep ++ n))) (pp ++ sep ++ n) cs
    obtain ⟨i1, i2, i3, i4⟩ := ih
    simp only [dotT, dotTreeT, namesT, List.map_cons, edgesOfT, Tree.name_node]
    refine ⟨i1, by rw [i2], by rw [i3], ?_⟩
    rw [i4]
    cases parent <;> rfl
theorem dotL_tree (sep : Str) (nd : NameDict) (parent : Str) (pp : Str) (cs : List Tree) :
    (dotL sep nd parent pp cs).dict = (dotTreeL sep nd pp cs).1 ∧
    (dotL sep nd parent pp cs).vertices.map (·.1) = namesL (dotTreeL sep nd pp cs).2 ∧
    (dotL sep nd parent pp cs).vertices.map (·.2) = namesL cs ∧
    (dotL sep nd parent pp cs).edges = edgesOfL parent (dotTreeL sep nd pp cs).2 := by
  match cs with
  | [] => exact ⟨rfl, rfl, rfl, rfl⟩
  | c :: cs =>
    obtain ⟨a1, a2, a3, a4⟩ := dotT_tree sep nd (some parent) pp c
    obtain ⟨b1, b2, b3, b4⟩ := dotL_tree sep (dotT sep nd (some parent) pp c).dict parent pp cs
    rw [a1] at b1 b2 b3 b4
    simp only [dotL, dotTreeL, namesL, List.map_append, edgesOfL]
    rw [a1]
    refine ⟨b1, by rw [a2, b2], by rw [a3, b3], ?_⟩
    rw [a4, b4]
    simp [parentEdge]
end

mutual
theorem dotTreeT_size (sep : Str) (nd : NameDict) (pp : Str) (t : Tree) : (dotTreeT sep nd pp t).2.size = t.size := by
  match t with
  | .node i n a cs => simp only [dotTreeT, Tree.size]; rw [dotTreeL_size]
theorem dotTreeL_size (sep : Str) (nd : NameDict) (pp : Str) (cs : List Tree) :
    Tree.size.sizeL (dotTreeL sep nd pp cs).2 = Tree.size.sizeL cs := by
  match cs with
  | [] => rfl
  | c :: cs => simp only [dotTreeL, Tree.size.sizeL]; rw [dotTreeT_size, dotTreeL_size]
end

mutual
theorem dotTreeT_links (sep : Str) (nd : NameDict) (pp : Str) (i : Nat) (t : Tree) :
    linksT i (dotTreeT sep nd pp t).2 = linksT i t := by
  match t with
  | .node j n a cs => simp only [dotTreeT, linksT]; rw [dotTreeL_links]
theorem dotTreeL_links (sep : Str) (nd : NameDict) (pp : Str) (p i : Nat) (cs : List Tree) :
    linksL p i (dotTreeL sep nd pp cs).2 = linksL p i cs := by
  match cs with
  | [] => rfl
  | c :: cs => simp only [dotTreeL, linksL]; rw [dotTreeT_links, dotTreeT_size, dotTreeL_links]
end

/-- one vertex per node, in pre-order, labelled with the node's name -/
theorem dot_vertices_labels (sep : Str) (t : Tree) : (dotVertices sep t).map (·.2) = namesT t :=
  (dotT_tree sep [] none [] t).2.2.1

/-- one edge per parent–child link, joining exactly the ids of the two nodes -/
theorem dot_edges_exact (sep : Str) (t : Tree) :
    dotEdges sep t =
      (linksT 0 t).map fun pc => ((dotIds sep t).getD pc.1 [], (dotIds sep t).getD pc.2 []) := by
  obtain ⟨_, h2, _, h4⟩ := dotT_tree sep [] none [] t
  unfold dotEdges dotIds
  rw [h4, h2]
  simp only [parentEdge, List.nil_append]
  rw [edgesOf_eq_links, dotTreeT_links]
  rfl

/-! ### K2 at the model level -/
def k2Witness : Tree :=
  .node 0 ['r'] [] ((List.range 11).map (fun i => Tree.node 0 ('b' :: natStr i) [] [.node 0 ['x'] [] []])
    ++ [.node 0 ['x', '1'] [] []])

theorem k2Witness_ok :
    sibDistinct k2Witness = true ∧ (namesT k2Witness).all (fun n => !n.contains '/') = true := by decide

theorem dot_ids_collide : ¬ (dotIds ['/'] k2Witness).Nodup := by decide
end Render
