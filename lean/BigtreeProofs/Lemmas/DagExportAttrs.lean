import BigtreeProofs.Lemmas.DagAttrs
/-! What the exporters write as attributes: `selAttrs`, `sortByKey`, `Row.align`, `columnsOf`. -/

namespace Dag
open List

/-- the attribute part of an exported entry / row of node `x` (before column alignment) -/
def expAttrs (g : Dag) (sel : AttrSel) (x : Nat) : Attrs := attrUpdate [] (selAttrs sel (g.attrs x))

theorem nodup_keysOf_expAttrs (g : Dag) (sel : AttrSel) (x : Nat) :
    (keysOf (expAttrs g sel x)).Nodup :=
  nodup_keysOf_attrUpdate (by simp [keysOf]) _

/-! ### sortByKey -/

theorem insertByKey_perm (kv : Str × Val) (l : Attrs) : (insertByKey kv l).Perm (kv :: l) := by
  induction l with
  | nil => exact Perm.refl _
  | cons x xs ih =>
    simp only [insertByKey]
    split
    · exact Perm.refl _
    · exact (Perm.cons x ih).trans (Perm.swap kv x xs)

theorem sortByKey_perm (a : Attrs) : (sortByKey a).Perm a := by
  unfold sortByKey
  induction a with
  | nil => exact Perm.refl _
  | cons x xs ih =>
    rw [foldr_cons]
    exact (insertByKey_perm x _).trans (Perm.cons x ih)

theorem lookup_sortByKey {a : Attrs} (h : (keysOf a).Nodup) (k : Str) :
    (sortByKey a).lookup k = a.lookup k := by
  have hp := sortByKey_perm a
  have hk : (keysOf (sortByKey a)).Perm (keysOf a) := by unfold keysOf; exact hp.map _
  exact lookup_congr (hk.nodup_iff.2 h) h (fun x => hp.mem_iff) k

/-- `all_attrs=True` writes exactly the public attributes (not `name`, not `_…`) -/
theorem lookup_expAttrs_all {g : Dag} {x : Nat} (h : (keysOf (g.attrs x)).Nodup) (k : Str) :
    (expAttrs g .all x).lookup k =
      if k != "name".toList && k.head? != some '_' then (g.attrs x).lookup k else none := by
  have hf : (keysOf ((g.attrs x).filter fun kv => kv.1 != "name".toList && kv.1.head? != some '_')).Nodup :=
    h.sublist ((filter_sublist (l := g.attrs x)).map _)
  have hs : (keysOf (sortByKey ((g.attrs x).filter fun kv => kv.1 != "name".toList && kv.1.head? != some '_'))).Nodup := by
    have hk : (keysOf (sortByKey ((g.attrs x).filter fun kv => kv.1 != "name".toList && kv.1.head? != some '_'))).Perm
        (keysOf ((g.attrs x).filter fun kv => kv.1 != "name".toList && kv.1.head? != some '_')) := by
      unfold keysOf; exact (sortByKey_perm _).map _
    exact hk.nodup_iff.2 hf
  unfold expAttrs selAttrs
  rw [lookup_attrUpdate_nodup [] hs, lookup_sortByKey hf]
  have : ([] : Attrs).lookup k = none := rfl
  rw [this, Option.or_none]
  apply Option.ext
  intro v
  rw [lookup_eq_some_iff hf, mem_filter]
  split
  · rename_i hk
    rw [lookup_eq_some_iff h]
    exact ⟨fun hh => hh.1, fun hh => ⟨hh, hk⟩⟩
  · rename_i hk
    simp only [reduceCtorEq, iff_false, not_and]
    intro _ hk'; exact hk hk'

/-! ### DataFrame columns -/

/-- one row's contribution to the column list -/
def addKeys (cols : List Str) (a : Attrs) : List Str :=
  a.foldl (fun cs kv => if kv.1 ∈ cs then cs else cs ++ [kv.1]) cols

theorem addKeys_spec (a : Attrs) : ∀ (cols : List Str), cols.Nodup →
    (addKeys cols a).Nodup ∧ (∀ k ∈ cols, k ∈ addKeys cols a) ∧ ∀ k ∈ keysOf a, k ∈ addKeys cols a := by
  induction a with
  | nil => intro cols h; exact ⟨h, fun _ hk => hk, by simp [keysOf]⟩
  | cons kv a ih =>
    intro cols h
    unfold addKeys
    rw [foldl_cons]
    have hnd : (if kv.1 ∈ cols then cols else cols ++ [kv.1]).Nodup := by
      split
      · exact h
      · rename_i hk
        rw [nodup_append]
        exact ⟨h, by simp, by intro x hx y hy hxy; simp at hy; subst hy; subst hxy; exact hk hx⟩
    have hsub : ∀ k ∈ cols, k ∈ (if kv.1 ∈ cols then cols else cols ++ [kv.1]) := by
      intro k hk; split; exact hk; exact mem_append_left _ hk
    have hkv : kv.1 ∈ (if kv.1 ∈ cols then cols else cols ++ [kv.1]) := by
      split
      · assumption
      · simp
    obtain ⟨h1, h2, h3⟩ := ih _ hnd
    refine ⟨h1, fun k hk => h2 k (hsub k hk), ?_⟩
    intro k hk
    simp only [keysOf, map_cons, mem_cons] at hk
    rcases hk with rfl | hk
    · exact h2 _ hkv
    · exact h3 k hk

theorem columnsOf_eq (rows : List Row) :
    columnsOf rows = rows.foldl (fun cols r => addKeys cols r.attrs) [] := rfl

theorem columnsOf_spec_aux : ∀ (rows : List Row) (cols : List Str), cols.Nodup →
    (rows.foldl (fun cols r => addKeys cols r.attrs) cols).Nodup ∧
    (∀ k ∈ cols, k ∈ rows.foldl (fun cols r => addKeys cols r.attrs) cols) ∧
    ∀ r ∈ rows, ∀ k ∈ keysOf r.attrs, k ∈ rows.foldl (fun cols r => addKeys cols r.attrs) cols := by
  intro rows
  induction rows with
  | nil => intro cols h; exact ⟨h, fun _ hk => hk, by simp⟩
  | cons r rows ih =>
    intro cols h
    rw [foldl_cons]
    obtain ⟨a1, a2, a3⟩ := addKeys_spec r.attrs cols h
    obtain ⟨h1, h2, h3⟩ := ih _ a1
    refine ⟨h1, fun k hk => h2 k (a2 k hk), ?_⟩
    intro r' hr' k hk
    rcases mem_cons.1 hr' with rfl | hr'
    · exact h2 k (a3 k hk)
    · exact h3 r' hr' k hk

theorem nodup_columnsOf (rows : List Row) : (columnsOf rows).Nodup :=
  (columnsOf_spec_aux rows [] (by simp)).1

theorem mem_columnsOf {rows : List Row} {r : Row} (hr : r ∈ rows) {k : Str}
    (hk : k ∈ keysOf r.attrs) : k ∈ columnsOf rows :=
  (columnsOf_spec_aux rows [] (by simp)).2.2 r hr k hk

/-! ### aligned rows read back (nulls dropped) -/

theorem lookup_map_cols (cols : List Str) (f : Str → Val) (k : Str) :
    (cols.map fun c => (c, f c)).lookup k = if k ∈ cols then some (f k) else none := by
  induction cols with
  | nil => rfl
  | cons c cols ih =>
    rw [map_cons, lookup_cons', ih]
    by_cases h : k = c
    · subst h; simp
    · simp [h]

/-- what `dataframe_to_dag` reads from an aligned row: the non-null values of the original -/
theorem lookup_nonNull_align {cols : List Str} (hc : cols.Nodup) {a : Attrs}
    (hsub : ∀ k ∈ keysOf a, k ∈ cols) (k : Str) :
    (nonNull (cols.map fun c => (c, (a.lookup c).getD .null))).lookup k =
      match a.lookup k with
      | some .null => none
      | o => o := by
  have hnd : (keysOf (cols.map fun c => (c, (a.lookup c).getD Val.null))).Nodup := by
    simpa [keysOf, Function.comp_def] using hc
  rw [lookup_nonNull hnd, lookup_map_cols]
  cases hl : a.lookup k with
  | none =>
    by_cases hk : k ∈ cols <;> simp [hk]
  | some v =>
    have hk : k ∈ cols := hsub k (by
      have := mem_of_lookup_eq_some hl
      exact mem_map.2 ⟨(k, v), this, rfl⟩)
    rw [if_pos hk]; rfl

end Dag
