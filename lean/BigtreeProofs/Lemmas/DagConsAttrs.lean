import BigtreeProofs.Lemmas.DagAttrs
import BigtreeProofs.Lemmas.DagRows
import BigtreeProofs.Lemmas.DagDict
/-! Attributes of the nodes a constructor builds: every node named by an entry / a row ends up
with exactly the attribute values of that entry / row. -/

namespace Dag
open List

/-- nodes not in the table carry no attributes -/
def OutEmpty (g : Dag) : Prop := ∀ x, x ∉ g.nodes → g.attrs x = []

theorem outEmpty_empty : OutEmpty empty := fun _ _ => rfl

theorem setParent_ok_inv {g g' : Dag} {c p : Nat} (h : g.setParent c p = .ok g') :
    g'.attrs = g.attrs ∧ g'.nodes = g.nodes := by
  unfold Dag.setParent at h
  split at h
  · cases h
  · split at h
    · cases h
    · split at h
      · cases h; exact ⟨rfl, rfl⟩
      · cases h; exact ⟨rfl, rfl⟩

theorem newNode_nil_attrs {g : Dag} (ho : OutEmpty g) (x y : Nat) :
    (g.newNode x []).attrs y = g.attrs y := by
  unfold Dag.newNode
  split
  · rfl
  · rename_i hx
    show (if y = x then [] else g.attrs y) = g.attrs y
    split
    · rename_i hy; subst hy; exact (ho y hx).symm
    · rfl

theorem outEmpty_newNode {g : Dag} (ho : OutEmpty g) (x : Nat) (a : Attrs) :
    OutEmpty (g.newNode x a) := by
  intro y hy
  have hy' := fun h => hy (nodes_newNode.2 h)
  unfold Dag.newNode
  split
  · exact ho y (fun h => hy' (Or.inl h))
  · show (if y = x then a else g.attrs y) = []
    rw [if_neg (fun h => hy' (Or.inr h))]
    exact ho y (fun h => hy' (Or.inl h))

theorem outEmpty_setAttrs {g : Dag} (ho : OutEmpty g) {x : Nat} (hx : x ∈ g.nodes) (a : Attrs) :
    OutEmpty (g.setAttrs x a) := by
  intro y hy
  show (if y = x then attrUpdate (g.attrs x) a else g.attrs y) = []
  have : y ≠ x := by rintro rfl; exact hy hx
  rw [if_neg this]
  exact ho y hy

/-- generic fold: each item names a node and (re)writes its attributes with `A (name)` -/
theorem foldl_attrs {ι : Type} (step : Except Err Built → ι → Except Err Built) (nm : ι → Nat)
    (A : Nat → Attrs) (P : ι → Prop)
    (herr : ∀ e i, step (.error e) i = .error e)
    (hstep : ∀ b i b1, P i → step (.ok b) i = .ok b1 → OutEmpty b.dag →
      OutEmpty b1.dag ∧ (∀ y, y ≠ nm i → b1.dag.attrs y = b.dag.attrs y) ∧
      (∀ k, (b1.dag.attrs (nm i)).lookup k =
        ((A (nm i)).lookup k).or ((b.dag.attrs (nm i)).lookup k))) :
    ∀ (items : List ι) (b b' : Built), (∀ i ∈ items, P i) → items.foldl step (.ok b) = .ok b' →
      OutEmpty b.dag →
      OutEmpty b'.dag ∧ (∀ x, (∀ i ∈ items, nm i ≠ x) → b'.dag.attrs x = b.dag.attrs x) ∧
      (∀ x, (∃ i ∈ items, nm i = x) → ∀ k, (b'.dag.attrs x).lookup k =
        ((A x).lookup k).or ((b.dag.attrs x).lookup k)) := by
  have herrs : ∀ (items : List ι) e, items.foldl step (.error e) = .error e := by
    intro items e
    induction items with
    | nil => rfl
    | cons i items ih => rw [foldl_cons, herr]; exact ih
  intro items
  induction items with
  | nil =>
    intro b b' _ h ho
    simp only [foldl_nil, Except.ok.injEq] at h
    subst h
    exact ⟨ho, fun _ _ => rfl, fun x ⟨_, hi, _⟩ => by cases hi⟩
  | cons i items ih =>
    intro b b' hP h ho
    rw [foldl_cons] at h
    cases hs : step (.ok b) i with
    | error e => rw [hs, herrs] at h; cases h
    | ok b1 =>
      rw [hs] at h
      obtain ⟨ho1, hother1, hself1⟩ := hstep b i b1 (hP i (by simp)) hs ho
      obtain ⟨ho', hother', hself'⟩ := ih b1 b' (fun j hj => hP j (by simp [hj])) h ho1
      refine ⟨ho', ?_, ?_⟩
      · intro x hx
        rw [hother' x (fun j hj => hx j (by simp [hj])), hother1 x (fun h => hx i (by simp) h.symm)]
      · rintro x ⟨j, hj, hjx⟩ k
        by_cases htail : ∃ j' ∈ items, nm j' = x
        · rw [hself' x htail k]
          by_cases hix : nm i = x
          · subst hix
            rw [hself1 k]
            cases (A (nm i)).lookup k <;> simp
          · rw [hother1 x (fun h => hix h.symm)]
        · have hnone : ∀ j' ∈ items, nm j' ≠ x := fun j' hj' h => htail ⟨j', hj', h⟩
          rw [hother' x hnone]
          rcases mem_cons.1 hj with rfl | hj
          · subst hjx; exact hself1 k
          · exact absurd hjx (hnone j hj)

/-! ### rows -/

theorem rowStep_attrs (A : Nat → Attrs) (b : Built) (r : Row) (b1 : Built)
    (hP : nonNull r.attrs = A r.name ∧ (keysOf (A r.name)).Nodup)
    (h : rowStep (.ok b) r = .ok b1) (ho : OutEmpty b.dag) :
    OutEmpty b1.dag ∧ (∀ y, y ≠ r.name → b1.dag.attrs y = b.dag.attrs y) ∧
      (∀ k, (b1.dag.attrs r.name).lookup k =
        ((A r.name).lookup k).or ((b.dag.attrs r.name).lookup k)) := by
  obtain ⟨hA, hnd⟩ := hP
  -- the child's own node
  have hn1 : r.name ∈ (b.dag.newNode r.name (nonNull r.attrs)).nodes := nodes_newNode.2 (Or.inr rfl)
  have ho1 : OutEmpty ((b.dag.newNode r.name (nonNull r.attrs)).setAttrs r.name (nonNull r.attrs)) :=
    outEmpty_setAttrs (outEmpty_newNode ho _ _) hn1 _
  have hother : ∀ y, y ≠ r.name →
      ((b.dag.newNode r.name (nonNull r.attrs)).setAttrs r.name (nonNull r.attrs)).attrs y =
        b.dag.attrs y := by
    intro y hy
    show (if y = r.name then _ else (b.dag.newNode r.name (nonNull r.attrs)).attrs y) = _
    rw [if_neg hy]
    unfold Dag.newNode
    split
    · rfl
    · show (if y = r.name then _ else b.dag.attrs y) = _
      rw [if_neg hy]
  have hself : ∀ k,
      (((b.dag.newNode r.name (nonNull r.attrs)).setAttrs r.name (nonNull r.attrs)).attrs r.name).lookup k
        = ((A r.name).lookup k).or ((b.dag.attrs r.name).lookup k) := by
    intro k
    show (if r.name = r.name then attrUpdate ((b.dag.newNode r.name (nonNull r.attrs)).attrs r.name)
      (nonNull r.attrs) else _).lookup k = _
    rw [if_pos rfl, hA, lookup_attrUpdate_nodup _ hnd]
    unfold Dag.newNode
    split
    · rfl
    · rename_i hx
      show ((A r.name).lookup k).or
        ((if r.name = r.name then A r.name else b.dag.attrs r.name).lookup k) = _
      rw [if_pos rfl, ho _ hx]
      cases (A r.name).lookup k <;> simp [List.lookup]
  cases hpar : r.parent with
  | none =>
    simp only [rowStep, hpar] at h
    have : b1.dag = (b.dag.newNode r.name (nonNull r.attrs)).setAttrs r.name (nonNull r.attrs) := by
      cases h; rfl
    rw [this]
    exact ⟨ho1, hother, hself⟩
  | some p =>
    simp only [rowStep, hpar] at h
    cases hsp : Dag.setParent
        (((b.dag.newNode r.name (nonNull r.attrs)).setAttrs r.name (nonNull r.attrs)).newNode p [])
        r.name p with
    | error e =>
      have : (Except.error e : Except Err Built) = .ok b1 := by
        rw [← h]; show _ = Except.map _ _; rw [hsp]; rfl
      cases this
    | ok g3 =>
      have hb1 : b1.dag = g3 := by
        have : (Except.ok { dag := g3, ret := some p } : Except Err Built) = .ok b1 := by
          rw [← h]; show _ = Except.map _ _; rw [hsp]; rfl
        cases this; rfl
      obtain ⟨hat, hnod⟩ := setParent_ok_inv hsp
      rw [hb1]
      refine ⟨?_, ?_, ?_⟩
      · intro y hy
        rw [hat]
        rw [hnod] at hy
        exact outEmpty_newNode ho1 p [] y hy
      · intro y hy
        rw [hat, newNode_nil_attrs ho1]
        exact hother y hy
      · intro k
        rw [hat, newNode_nil_attrs ho1]
        exact hself k

/-- attributes after `dataframe_to_dag`: every name in the frame carries its (non-null) row values -/
theorem rowsToDag_attrs (A : Nat → Attrs) {rows : List Row} {b : Built}
    (hP : ∀ r ∈ rows, nonNull r.attrs = A r.name ∧ (keysOf (A r.name)).Nodup)
    (h : rowsToDag rows = .ok b) :
    ∀ r ∈ rows, ∀ k, (b.dag.attrs r.name).lookup k = (A r.name).lookup k := by
  unfold rowsToDag at h
  split at h
  · cases h
  · split at h
    · cases h
    · obtain ⟨_, _, hself⟩ := foldl_attrs rowStep Row.name A
        (fun r => nonNull r.attrs = A r.name ∧ (keysOf (A r.name)).Nodup)
        (fun _ _ => rfl) (fun b i b1 hPi hs ho => rowStep_attrs A b i b1 hPi hs ho)
        rows _ b hP h outEmpty_empty
      intro r hr k
      rw [hself r.name ⟨r, hr, rfl⟩ k]
      show ((A r.name).lookup k).or (([] : Attrs).lookup k) = _
      cases (A r.name).lookup k <;> simp [List.lookup]

/-! ### dictionary -/

theorem foldl_dictParents_attrs (c : Nat) : ∀ (ps : List Nat) (b b' : Built),
    ps.foldl (dictParents c) (.ok b) = .ok b' → OutEmpty b.dag →
    OutEmpty b'.dag ∧ ∀ y, b'.dag.attrs y = b.dag.attrs y := by
  intro ps
  induction ps with
  | nil =>
    intro b b' h ho
    simp only [foldl_nil, Except.ok.injEq] at h
    subst h; exact ⟨ho, fun _ => rfl⟩
  | cons p ps ih =>
    intro b b' h ho
    rw [foldl_cons] at h
    cases hsp : Dag.setParent (b.dag.newNode p []) c p with
    | error e =>
      have : dictParents c (.ok b) p = .error e := by
        show Except.map _ (Dag.setParent _ c p) = _; rw [hsp]; rfl
      rw [this, foldl_dictParents_error] at h; cases h
    | ok g2 =>
      have : dictParents c (.ok b) p = .ok { dag := g2, ret := some p } := by
        show Except.map _ (Dag.setParent _ c p) = _; rw [hsp]; rfl
      rw [this] at h
      obtain ⟨hat, hnod⟩ := setParent_ok_inv hsp
      have ho2 : OutEmpty g2 := by
        intro y hy
        rw [hat]; rw [hnod] at hy
        exact outEmpty_newNode ho p [] y hy
      obtain ⟨ho', hsame⟩ := ih { dag := g2, ret := some p } b' h ho2
      refine ⟨ho', fun y => ?_⟩
      rw [hsame y]
      show g2.attrs y = _
      rw [hat, newNode_nil_attrs ho]

theorem dictEntryStep_attrs (A : Nat → Attrs) (b : Built) (e : DEntry) (b1 : Built)
    (hP : e.attrs = A e.key ∧ (keysOf (A e.key)).Nodup)
    (h : dictEntryStep (.ok b) e = .ok b1) (ho : OutEmpty b.dag) :
    OutEmpty b1.dag ∧ (∀ y, y ≠ e.key → b1.dag.attrs y = b.dag.attrs y) ∧
      (∀ k, (b1.dag.attrs e.key).lookup k =
        ((A e.key).lookup k).or ((b.dag.attrs e.key).lookup k)) := by
  obtain ⟨hA, hnd⟩ := hP
  have hstep : dictEntryStep (.ok b) e = (e.parents.getD []).foldl (dictParents e.key)
      (.ok { dag := (if e.key ∈ b.dag.nodes then b.dag.setAttrs e.key e.attrs
        else b.dag.newNode e.key e.attrs), ret := b.ret }) := rfl
  rw [hstep] at h
  have ho1 : OutEmpty (if e.key ∈ b.dag.nodes then b.dag.setAttrs e.key e.attrs
      else b.dag.newNode e.key e.attrs) := by
    split
    · rename_i hk; exact outEmpty_setAttrs ho hk _
    · exact outEmpty_newNode ho _ _
  obtain ⟨ho', hsame⟩ := foldl_dictParents_attrs e.key _ _ b1 h ho1
  refine ⟨ho', ?_, ?_⟩
  · intro y hy
    rw [hsame y]
    show (if e.key ∈ b.dag.nodes then b.dag.setAttrs e.key e.attrs
      else b.dag.newNode e.key e.attrs).attrs y = _
    split
    · show (if y = e.key then _ else b.dag.attrs y) = _
      rw [if_neg hy]
    · unfold Dag.newNode
      split
      · rfl
      · show (if y = e.key then _ else b.dag.attrs y) = _
        rw [if_neg hy]
  · intro k
    rw [hsame e.key]
    show ((if e.key ∈ b.dag.nodes then b.dag.setAttrs e.key e.attrs
      else b.dag.newNode e.key e.attrs).attrs e.key).lookup k = _
    split
    · show (if e.key = e.key then attrUpdate (b.dag.attrs e.key) e.attrs else _).lookup k = _
      rw [if_pos rfl, hA, lookup_attrUpdate_nodup _ hnd]
    · rename_i hk
      unfold Dag.newNode
      rw [if_neg hk]
      show (if e.key = e.key then e.attrs else _).lookup k = _
      rw [if_pos rfl, hA, ho _ hk]
      cases (A e.key).lookup k <;> simp [List.lookup]

/-- attributes after `dict_to_dag`: every key carries the attribute values of its entry -/
theorem dictToDag_attrs (A : Nat → Attrs) {d : List DEntry} {b : Built}
    (hP : ∀ e ∈ d, e.attrs = A e.key ∧ (keysOf (A e.key)).Nodup)
    (h : dictToDag d = .ok b) :
    ∀ e ∈ d, ∀ k, (b.dag.attrs e.key).lookup k = (A e.key).lookup k := by
  unfold dictToDag at h
  split at h
  · cases h
  · cases hf : d.foldl dictEntryStep (.ok { dag := empty, ret := none }) with
    | error err => rw [hf] at h; cases h
    | ok b0 =>
      rw [hf] at h
      have hb : b0 = b := by
        have : (if b0.ret.isNone then Except.error Err.value else Except.ok b0) = .ok b := h
        split at this
        · cases this
        · cases this; rfl
      subst hb
      obtain ⟨_, _, hself⟩ := foldl_attrs dictEntryStep DEntry.key A
        (fun e => e.attrs = A e.key ∧ (keysOf (A e.key)).Nodup)
        (fun _ _ => rfl) (fun b i b1 hPi hs ho => dictEntryStep_attrs A b i b1 hPi hs ho)
        d _ b0 hP hf outEmpty_empty
      intro e he k
      rw [hself e.key ⟨e, he, rfl⟩ k]
      show ((A e.key).lookup k).or (([] : Attrs).lookup k) = _
      cases (A e.key).lookup k <;> simp [List.lookup]

end Dag
