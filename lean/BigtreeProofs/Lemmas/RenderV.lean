import BigtreeModel.Render
/-! Helper lemmas for C18 (vertical rendering): the `unclosed_depth` loop of `yield_tree` computes the structural specification. -/
namespace Render

/-- the `unclosed_depth` set agrees with the right-sibling flags of the ancestors -/
def Agree (u : List Nat) (anc : List Bool) : Prop :=
  ∀ j (h : j < anc.length), (j + 1 ∈ u ↔ anc[j] = true)

theorem Agree.nil (u : List Nat) : Agree u [] := by intro j h; simp at h

theorem Agree.prefix {u : List Nat} {anc : List Bool} {b : Bool} (h : Agree u (anc ++ [b])) : Agree u anc := by
  intro j hj
  have := h j (by simp; omega)
  rw [this, List.getElem_append_left hj]

theorem preStr_agree (st : Style) (u : List Nat) (anc : List Bool) (h : Agree u anc) :
    preStr st u (anc.length + 1) = (anc.map st.glyph).flatten := by
  unfold preStr
  congr 1
  apply List.ext_getElem
  · simp
  · intro i h1 h2
    simp at h1
    simp [List.getElem_range', Style.glyph]
    have := h i h1
    rw [Nat.add_comm] at this
    simp [this]

/-- state of `unclosed_depth` after a run of the loop -/
def loopState (st : Style) : List Nat → List Visit → List Nat
  | u, [] => u
  | u, v :: vs => loopState st (stepLine st u v).1 vs

theorem yieldLoop_append (st : Style) (u : List Nat) (a b : List Visit) :
    yieldLoop st u (a ++ b) = yieldLoop st u a ++ yieldLoop st (loopState st u a) b := by
  induction a generalizing u with
  | nil => rfl
  | cons v vs ih => simp [yieldLoop, loopState, ih]

theorem loopState_append (st : Style) (u : List Nat) (a b : List Visit) :
    loopState st u (a ++ b) = loopState st (loopState st u a) b := by
  induction a generalizing u with
  | nil => rfl
  | cons v vs ih => simp [loopState, ih]

/-- the loop body on a non-root node whose ancestors' flags are `anc` -/
theorem stepLine_agree (st : Style) (u : List Nat) (anc : List Bool) (hr : Bool) (n : Str)
    (h : Agree u anc) :
    (stepLine st u ⟨anc.length + 1, hr, n⟩).2 = ((anc.map st.glyph).flatten, st.fill hr) ∧
    Agree (stepLine st u ⟨anc.length + 1, hr, n⟩).1 (anc ++ [hr]) := by
  have key : ∀ u' : List Nat, (∀ j, j ≠ anc.length + 1 → (j ∈ u' ↔ j ∈ u)) → (anc.length + 1 ∈ u' ↔ hr = true) →
      Agree u' (anc ++ [hr]) := by
    intro u' h1 h2 j hj
    simp at hj
    by_cases hlt : j < anc.length
    · rw [List.getElem_append_left hlt, h1 _ (by omega)]; exact h j hlt
    · have : j = anc.length := by omega
      subst this
      simp [h2]
  unfold stepLine
  simp only [Nat.add_one_ne_zero, beq_iff_eq, ↓reduceIte]
  cases hr with
  | true =>
    simp only [↓reduceIte, Style.fill]
    by_cases hc : u.contains (anc.length + 1) = true
    · simp only [hc, ↓reduceIte]
      have ag := key u (fun _ _ => Iff.rfl) (by simpa using hc)
      exact ⟨by rw [preStr_agree st u anc h], ag⟩
    · have hc' : u.contains (anc.length + 1) = false := by simpa using hc
      simp only [hc', Bool.false_eq_true, ↓reduceIte]
      have ag := key ((anc.length + 1) :: u) (by intro j hj; simp [hj]) (by simp)
      refine ⟨?_, ag⟩
      rw [preStr_agree st _ anc ag.prefix]
  | false =>
    simp only [Style.fill, Bool.false_eq_true, ↓reduceIte]
    by_cases hc : u.contains (anc.length + 1) = true
    · simp only [hc, ↓reduceIte]
      have ag := key (u.filter (· != anc.length + 1)) (by intro j hj; simp [hj]) (by simp)
      refine ⟨?_, ag⟩
      rw [preStr_agree st _ anc ag.prefix]
    · have hc' : u.contains (anc.length + 1) = false := by simpa using hc
      simp only [hc', Bool.false_eq_true, ↓reduceIte]
      have ag := key u (fun _ _ => Iff.rfl) (by simpa using hc)
      refine ⟨?_, ag⟩
      rw [preStr_agree st _ anc h]
end Render

namespace Render
mutual
theorem loop_specT (st : Style) (c : Tree) (anc : List Bool) (hr : Bool) (u : List Nat) (h : Agree u anc) :
    yieldLoop st u (visits 0 (anc.length + 1) hr c) = specT st anc hr c ∧
    Agree (loopState st u (visits 0 (anc.length + 1) hr c)) anc := by
  match c with
  | .node i n a cs =>
    have hs := stepLine_agree st u anc hr n h
    have ih := loop_specL st cs (anc ++ [hr]) (stepLine st u ⟨anc.length + 1, hr, n⟩).1 hs.2
    simp only [List.length_append, List.length_singleton] at ih
    simp only [visits, specT, yieldLoop, loopState, beq_self_eq_true, Bool.true_or, ↓reduceIte]
    refine ⟨?_, ih.2.prefix⟩
    rw [ih.1, hs.1]
theorem loop_specL (st : Style) (cs : List Tree) (anc : List Bool) (u : List Nat) (h : Agree u anc) :
    yieldLoop st u (visitsL 0 (anc.length + 1) cs) = specL st anc cs ∧
    Agree (loopState st u (visitsL 0 (anc.length + 1) cs)) anc := by
  match cs with
  | [] => exact ⟨rfl, h⟩
  | c :: cs =>
    have h1 := loop_specT st c anc (!cs.isEmpty) u h
    have h2 := loop_specL st cs anc _ h1.2
    simp only [visitsL, specL, yieldLoop_append, loopState_append]
    exact ⟨by rw [h1.1, h2.1], h2.2⟩
end

theorem yieldLoop_root (st : Style) (t : Tree) : yieldLoop st [] (visits 0 0 false t) = specRoot st t := by
  match t with
  | .node i n a cs =>
    have := loop_specL st cs [] [] (Agree.nil _)
    simp only [List.length_nil, Nat.zero_add] at this
    simp [visits, specRoot, yieldLoop, stepLine, this.1]
end Render

namespace Render
mutual
theorem visits_cut (md d : Nat) (hr : Bool) (t : Tree) (h : d + 1 ≤ md) :
    visits md d hr (cut md (d + 1) t) = visits 0 d hr (cut md (d + 1) t) := by
  match t with
  | .node i n a cs =>
    have hg : (md == 0 || !decide (d + 1 > md)) = true := by simp; omega
    simp only [cut, visits, hg, ↓reduceIte, beq_self_eq_true, Bool.true_or]
    by_cases he : (d + 1 == md) = true
    · simp [he, visitsL]
    · have : d + 1 ≠ md := by simpa using he
      simp only [he, Bool.false_eq_true, ↓reduceIte]
      rw [visitsL_cut md (d + 1) cs (by omega)]
theorem visitsL_cut (md d : Nat) (cs : List Tree) (h : d + 1 ≤ md) :
    visitsL md d (cutL md (d + 1) cs) = visitsL 0 d (cutL md (d + 1) cs) := by
  match cs with
  | [] => rfl
  | c :: cs =>
    simp only [cutL, visitsL]
    rw [visits_cut md d _ c h, visitsL_cut md d cs h]
end

theorem visits_prune (md : Nat) (t : Tree) :
    visits md 0 false (prune md t) = visits 0 0 false (prune md t) := by
  unfold prune
  by_cases h : (md == 0) = true
  · have : md = 0 := by simpa using h
    subst this; rfl
  · simp only [h]
    have : md ≠ 0 := by simpa using h
    exact visits_cut md 0 false t (by omega)

/-- the vertical rendering is the structural specification of the (pruned) tree -/
theorem yieldTree_eq_spec (st : Style) (md : Nat) (t : Tree) :
    yieldTree st md t = specRoot st (prune md t) := by
  unfold yieldTree
  rw [visits_prune, yieldLoop_root]
end Render

namespace Render
mutual
theorem specT_names (st : Style) (anc : List Bool) (hr : Bool) (t : Tree) :
    (specT st anc hr t).map Line.name = namesT t := by
  match t with
  | .node i n a cs => simp [specT, namesT, specL_names st (anc ++ [hr]) cs]
theorem specL_names (st : Style) (anc : List Bool) (cs : List Tree) :
    (specL st anc cs).map Line.name = namesL cs := by
  match cs with
  | [] => rfl
  | c :: cs => simp [specL, namesL, specT_names st anc _ c, specL_names st anc cs]
end

theorem specRoot_names (st : Style) (t : Tree) : (specRoot st t).map Line.name = namesT t := by
  match t with
  | .node i n a cs => simp [specRoot, namesT, specL_names]

theorem glyphs_length (st : Style) (anc : List Bool) :
    ((anc.map st.glyph).flatten).length = anc.length * st.stem.length := by
  induction anc with
  | nil => simp
  | cons b bs ih =>
    simp only [List.map_cons, List.flatten_cons, List.length_append, ih, List.length_cons]
    have : (st.glyph b).length = st.stem.length := by cases b <;> simp [Style.glyph, Style.gap]
    rw [this, Nat.add_mul]; omega

theorem fill_length (st : Style) (h : st.lengthsOk = true) (b : Bool) : (st.fill b).length = st.stem.length := by
  simp [Style.lengthsOk] at h
  cases b <;> simp [Style.fill] <;> omega

mutual
theorem specT_indent (st : Style) (h : st.lengthsOk = true) (anc : List Bool) (hr : Bool) (t : Tree) :
    (specT st anc hr t).map (fun l => (l.pre ++ l.fill).length) =
      (depthsT (anc.length + 1) t).map (· * st.stem.length) := by
  match t with
  | .node i n a cs =>
    have := specL_indent st h (anc ++ [hr]) cs
    rw [show (anc ++ [hr]).length = anc.length + 1 by simp] at this
    simp only [specT, depthsT, List.map_cons, this]
    congr 1
    rw [List.length_append, glyphs_length, fill_length st h, Nat.add_mul]; omega
theorem specL_indent (st : Style) (h : st.lengthsOk = true) (anc : List Bool) (cs : List Tree) :
    (specL st anc cs).map (fun l => (l.pre ++ l.fill).length) =
      (depthsL (anc.length + 1) cs).map (· * st.stem.length) := by
  match cs with
  | [] => rfl
  | c :: cs =>
    simp only [specL, depthsL, List.map_append]
    rw [specT_indent st h anc _ c, specL_indent st h anc cs]
end

theorem specRoot_indent (st : Style) (h : st.lengthsOk = true) (t : Tree) :
    (specRoot st t).map (fun l => (l.pre ++ l.fill).length) = (depthsT 0 t).map (· * st.stem.length) := by
  match t with
  | .node i n a cs =>
    have := specL_indent st h [] cs
    rw [show ([] : List Bool).length + 1 = 0 + 1 by simp] at this
    simp only [specRoot, depthsT, List.map_cons, this]
    simp
end Render
