import BigtreeProofs.Lemmas.NewickRoundtrip
/-! Helper lemmas for C06 (Newick): the round trip with the length attribute and attribute lists.
Core Lean only. -/

namespace Newick
open Export

/-! ### states whose current node is `N`, the last of `L ++ [N]` at the current depth -/

def stN (s : PState) (L : List Tree) (N : Tree) (st : NState) (cum cumVal : Str) : PState :=
  { s with dn := upd s.dn s.depth (L ++ [N]), st := st, cur := true, cum := cum, cumVal := cumVal }

theorem setCurAttr_stN (s : PState) (L : List Tree) (N : Tree) (st : NState) (k v : Str) :
    setCurAttr (stN s L N st k v) = some (stN s L (setAttr N k (.str v)) st [] []) := by
  unfold setCurAttr stN
  simp [upd_same, upd_upd]

theorem withLength_nil (la : Str) (t : Tree) : withLength la [] t = some t := by simp [withLength]

theorem attach_none (dn : Int → List Tree) (d : Int) (t : Tree) (h : dn (d + 1) = []) :
    attach dn d t = some (t, dn) := by
  unfold attach; rw [h]

/-- `_create_node(current_node, …)` on such a state, nothing parked below -/
theorem createExisting_stN (la : Str) (s : PState) (L : List Tree) (N N' : Tree) (st : NState) (cum cv : Str)
    (h0 : s.dn (s.depth + 1) = []) (hl : withLength la cum N = some N') :
    createExisting la (stN s L N st cum cv) = some (stN s L N' st cum cv) := by
  unfold createExisting
  have hd : (stN s L N st cum cv).depth = s.depth := rfl
  have hdn : (stN s L N st cum cv).dn = upd s.dn s.depth (L ++ [N]) := rfl
  have hc : (stN s L N st cum cv).cum = cum := rfl
  rw [hd, hdn, hc, upd_same]
  simp only [List.getLast?_append, List.getLast?_singleton, Option.some_or]
  rw [hl]
  simp only
  rw [attach_none _ _ _ (by rw [upd_other _ _ _ _ (by omega)]; exact h0)]
  simp only [upd_same, upd_upd, List.dropLast_concat]
  rfl

/-! ### digits -/

theorem digit_plain (c : Chars) (hc : c.OK) (x : Char) (hx : x.isDigit = true) : Plain c x := by
  obtain ⟨_, h1, h2, h3, h4, h5, h6, h7, h8⟩ := hc
  intro hmem
  simp only [Chars.values, h1, h2, h3, h4, h5, h6, h7, h8, List.mem_cons, List.mem_nil_iff, or_false] at hmem
  rcases hmem with e | e | e | e | e | e | e | e <;> (subst e; simp [Char.isDigit] at hx)

theorem digitsVal_eq (l : Str) : digitsVal l = Nat.ofDigitChars 10 l 0 := rfl

/-- the decimal text of a positive integer reads back as that integer -/
theorem pyNumber_posInt (i : Int) (hi : 0 < i) :
    pyNumber (valText (.int i)) = some (.int i) ∧ (∀ x ∈ valText (.int i), x.isDigit = true) ∧ valText (.int i) ≠ [] := by
  have hrepr : valText (.int i) = Nat.toDigits 10 i.toNat := by
    simp only [valText, Int.toString_eq_repr, Int.repr_eq_if]
    rw [if_pos (by omega), Nat.toList_repr]
  have hdig : ∀ x ∈ Nat.toDigits 10 i.toNat, x.isDigit = true :=
    fun x hx => Nat.isDigit_of_mem_toDigits (by decide) (by decide) hx
  have hne : Nat.toDigits 10 i.toNat ≠ [] := Nat.toDigits_ne_nil
  refine ⟨?_, by rw [hrepr]; exact hdig, by rw [hrepr]; exact hne⟩
  rw [hrepr]
  unfold pyNumber
  have : isDigits (Nat.toDigits 10 i.toNat) = true := by
    unfold isDigits
    simp only [Bool.and_eq_true, bne_iff_ne, ne_eq, hne, not_false_eq_true, true_and, List.all_eq_true]
    exact hdig
  rw [if_pos this, digitsVal_eq, Nat.ofDigitChars_ten_toDigits]
  congr 2
  omega

/-! ### the attribute items -/

/-- `f"{_serialize(k)}={_serialize(get_attr(k))}"` -/
def item (c : Chars) (a : Attrs) (k : Str) : Str := serialize c k ++ '=' :: serializeVal c (getAttr a k)

def setAll (a : Attrs) (ks : List Str) (N : Tree) : Tree := ks.foldl (fun N k => setAttr N k (getAttr a k)) N

/-- one item, up to (not including) its terminator -/
theorem go_item (c : Chars) (hc : c.OK) (la pre : Str) (s : PState) (L : List Tree) (N : Tree) (a : Attrs)
    (k v : Str) (rest : Str) (hk : k ≠ []) (hkq : c.quote ∉ k) (hv : getAttr a k = .str v) (hvq : c.quote ∉ v) :
    go c la pre (stN s L N .attrName [] []) (item c a k ++ rest)
      = go c la pre (stN s L N .attrVal k v) rest := by
  unfold item
  rw [List.append_assoc, go_key c hc la pre k _ _ hkq rfl rfl]
  have hkv : c.keyValue = '=' := hc.2.2.2.2.2.1
  rw [List.cons_append, ← hkv]
  rw [go_step c la pre _ c.keyValue _ _ 0 (step_keyValue c hc.1 la pre _ _ rfl rfl hk rfl)]
  rw [List.drop_zero, hv]
  simp only [serializeVal]
  rw [go_val c hc la pre v _ rest hvq rfl rfl]
  rfl

/-- the items of a non-empty key list, joined by `:` and closed by `]` -/
theorem go_items (c : Chars) (hc : c.OK) (la pre : Str) (s : PState) (L : List Tree) (a : Attrs) :
    ∀ (ks : List Str), ks ≠ [] → ∀ (N : Tree) (rest : Str),
    (∀ k ∈ ks, k ≠ [] ∧ c.quote ∉ k ∧ ∃ v, getAttr a k = .str v ∧ c.quote ∉ v) →
    go c la pre (stN s L N .attrName [] []) (joinS [':'] (ks.map (item c a)) ++ ']' :: rest)
      = go c la pre (stN s L (setAll a ks N) .str [] []) rest
  | [], h, _, _, _ => absurd rfl h
  | [k], _, N, rest, hks => by
    obtain ⟨hk, hkq, v, hv, hvq⟩ := hks k (by simp)
    simp only [List.map_cons, List.map_nil, joinS]
    rw [go_item c hc la pre s L N a k v _ hk hkq hv hvq]
    have he : c.attrEnd = ']' := hc.2.2.2.2.1
    rw [← he, go_step c la pre _ c.attrEnd rest _ 0
      (step_attrEnd c hc.1 la pre _ _ rest rfl (setCurAttr_stN s L N .str k v))]
    rw [List.drop_zero]
    simp [setAll, hv]
  | k :: k' :: ks, _, N, rest, hks => by
    obtain ⟨hk, hkq, v, hv, hvq⟩ := hks k (by simp)
    simp only [List.map_cons, joinS]
    rw [List.append_assoc, List.append_assoc, go_item c hc la pre s L N a k v _ hk hkq hv hvq]
    have he : c.sep = ':' := hc.2.2.2.2.2.2.2.1
    rw [List.singleton_append, ← he, go_step c la pre _ c.sep _ _ 0
      (step_sep_val c hc.1 la pre _ _ _ rfl (setCurAttr_stN s L N .attrName k v))]
    rw [List.drop_zero, he]
    have := go_items c hc la pre s L a (k' :: ks) (by simp) (setAttr N k (.str v)) rest
      (fun k0 hk0 => hks k0 (by simp [hk0]))
    simp only [List.map_cons] at this
    rw [this]
    simp [setAll, hv]

/-! ### a node's text, up to its terminator -/

/-- the children parked one level down -/
def kidsAt (s : PState) (kids : List Tree) : PState := { s with dn := upd s.dn (s.depth + 1) kids }

/-- a finished node appended at the current depth -/
def nodeAt (s : PState) (N : Tree) : PState := { s with dn := upd s.dn s.depth (s.dn s.depth ++ [N]) }

/-- the three shapes of the state reached after a node's text and before its terminator -/
inductive Pre (la : Str) (s : PState) (nm : Str) (A : Attrs) (kids : List Tree) : PState → Prop
  | pending (h : A = []) : Pre la s nm A kids { kidsAt s kids with cum := nm }
  | len (digits : Str) (h1 : withLength la digits (.node 0 nm [] kids) = some (.node 0 nm A kids)) :
      Pre la s nm A kids (stN s (s.dn s.depth) (.node 0 nm [] kids) .str digits [])
  | done : Pre la s nm A kids (stN s (s.dn s.depth) (.node 0 nm A kids) .str [] [])

theorem createNew_kidsAt (s : PState) (nm : Str) (kids : List Tree) (hR : Ready s) (hnm : nm ≠ [])
    (hd : dupNames kids = false) :
    createNew { kidsAt s kids with cum := nm } = some (stN s (s.dn s.depth) (.node 0 nm [] kids) .str nm []) := by
  obtain ⟨h1, h2, h3, h4, h5⟩ := hR
  rw [createNew_parked _ (by simpa using hnm) (by simpa [kidsAt, upd_same] using hd)]
  simp only [kidsAt, stN, upd_same, upd_upd]
  rw [upd_self_eq s.dn (s.depth + 1) [] (h5 _ (by omega)), upd_other s.dn (s.depth + 1) s.depth _ (by omega)]
  obtain ⟨dn, counter, depth, st, cur, cum, cumVal⟩ := s
  simp only at h1 h4
  subst h1 h4
  rfl

theorem nodeAt_eq (s : PState) (N : Tree) (hR : Ready s) (cum : Str) :
    ({ stN s (s.dn s.depth) N .str cum [] with cur := false, cum := [] } : PState) = nodeAt s N := by
  obtain ⟨h1, h2, h3, h4, h5⟩ := hR
  obtain ⟨dn, counter, depth, st, cur, cum0, cumVal⟩ := s
  simp only at h1 h2 h3 h4
  subst h1 h2 h3 h4
  rfl

theorem pre_create (la : Str) (s : PState) (nm : Str) (A : Attrs) (kids : List Tree) (p : PState)
    (hR : Ready s) (hnm : nm ≠ []) (hd : dupNames kids = false) (hp : Pre la s nm A kids p) :
    p.st = .str ∧ ∃ cum, create la p = some (stN s (s.dn s.depth) (.node 0 nm A kids) .str cum []) := by
  have h0 : s.dn (s.depth + 1) = [] := hR.2.2.2.2 _ (by omega)
  cases hp with
  | pending h =>
    subst h
    refine ⟨hR.1, nm, ?_⟩
    have : ({ kidsAt s kids with cum := nm } : PState).cur = false := hR.2.1
    unfold create
    rw [this]
    exact createNew_kidsAt s nm kids hR hnm hd
  | len digits h1 =>
    refine ⟨rfl, digits, ?_⟩
    unfold create
    rw [show (stN s (s.dn s.depth) (.node 0 nm [] kids) .str digits []).cur = true from rfl]
    exact createExisting_stN la s _ _ _ .str digits [] h0 h1
  | done =>
    refine ⟨rfl, [], ?_⟩
    unfold create
    rw [show (stN s (s.dn s.depth) (.node 0 nm A kids) .str [] []).cur = true from rfl]
    exact createExisting_stN la s _ _ _ .str [] [] h0 (withLength_nil la _)

theorem term_sep (c : Chars) (hc : c.OK) (la pre : Str) (s : PState) (nm : Str) (A : Attrs) (kids : List Tree)
    (p : PState) (rest : Str) (hR : Ready s) (hnm : nm ≠ []) (hd : dupNames kids = false)
    (hp : Pre la s nm A kids p) :
    go c la pre p (',' :: rest) = go c la pre (nodeAt s (.node 0 nm A kids)) rest := by
  obtain ⟨hst, cum, hcr⟩ := pre_create la s nm A kids p hR hnm hd hp
  have hq : c.nodeSep = ',' := hc.2.2.2.2.2.2.2.2
  have a : c.nodeSep ≠ c.openB := c.ne_of_nodup hc.1 7 0 (by omega) (by omega) (by omega)
  have b : c.nodeSep ≠ c.attrStart := c.ne_of_nodup hc.1 7 2 (by omega) (by omega) (by omega)
  have d : c.nodeSep ≠ c.closeB := c.ne_of_nodup hc.1 7 1 (by omega) (by omega) (by omega)
  have hstep : step c la pre p c.nodeSep rest
      = some ({ stN s (s.dn s.depth) (.node 0 nm A kids) .str cum [] with cur := false, cum := [] }, 0) := by
    simp [step, a, b, d, hst, hcr, stN]
  rw [← hq, go_step c la pre p c.nodeSep rest _ 0 hstep, List.drop_zero, nodeAt_eq s _ hR cum]

theorem term_close (c : Chars) (hc : c.OK) (la pre : Str) (s : PState) (nm : Str) (A : Attrs) (kids : List Tree)
    (p : PState) (rest : Str) (hR : Ready s) (hnm : nm ≠ []) (hd : dupNames kids = false)
    (hp : Pre la s nm A kids p) :
    go c la pre p (')' :: rest) = go c la pre { nodeAt s (.node 0 nm A kids) with depth := s.depth - 1 } rest := by
  obtain ⟨hst, cum, hcr⟩ := pre_create la s nm A kids p hR hnm hd hp
  have hq : c.closeB = ')' := hc.2.2.1
  have a : c.closeB ≠ c.openB := c.ne_of_nodup hc.1 1 0 (by omega) (by omega) (by omega)
  have b : c.closeB ≠ c.attrStart := c.ne_of_nodup hc.1 1 2 (by omega) (by omega) (by omega)
  have d : c.closeB ≠ c.nodeSep := c.ne_of_nodup hc.1 1 7 (by omega) (by omega) (by omega)
  have hstep : step c la pre p c.closeB rest
      = some ({ stN s (s.dn s.depth) (.node 0 nm A kids) .str cum [] with depth := s.depth - 1, cur := false, cum := [] }, 0) := by
    simp [step, a, b, d, hst, hcr, stN]
  rw [← hq, go_step c la pre p c.closeB rest _ 0 hstep, List.drop_zero]
  congr 1
  obtain ⟨h1, h2, h3, h4, h5⟩ := hR
  obtain ⟨dn, counter, depth, st, cur, cum0, cumVal⟩ := s
  simp only at h1 h2 h3 h4
  subst h1 h2 h3 h4
  rfl

theorem term_end (la : Str) (s : PState) (nm : Str) (A : Attrs) (kids : List Tree) (p : PState)
    (hR : Ready s) (hnm : nm ≠ []) (hd : dupNames kids = false) (hdep : s.depth = 1) (hdn : s.dn 1 = [])
    (hp : Pre la s nm A kids p) : finish la p = some (.node 0 nm A kids) := by
  have h0 : s.dn (s.depth + 1) = [] := hR.2.2.2.2 _ (by omega)
  cases hp with
  | pending h =>
    subst h
    unfold finish
    rw [if_neg (by simp [kidsAt, hdep])]
    have : ({ kidsAt s kids with cum := nm } : PState).dn 1 = [] := by
      simp only [kidsAt]
      rw [upd_other _ _ _ _ (by omega)]; exact hdn
    rw [this]
    simp only
    rw [createNew_kidsAt s nm kids hR hnm hd]
    simp [stN, hdep, upd_same, hdn]
  | len digits h1 =>
    unfold finish
    rw [if_neg (by simp [stN, hdep])]
    have : (stN s (s.dn s.depth) (.node 0 nm [] kids) .str digits []).dn 1 = [.node 0 nm [] kids] := by
      simp [stN, hdep, upd_same, hdn]
    rw [this]
    simp only
    rw [show (stN s (s.dn s.depth) (.node 0 nm [] kids) .str digits []).cum = digits from rfl, h1]
    simp only
    rw [attach_none _ _ _ (by simp only [stN]; rw [upd_other _ _ _ _ (by omega)]; rw [hdep] at h0; exact h0)]
  | done =>
    unfold finish
    rw [if_neg (by simp [stN, hdep])]
    have : (stN s (s.dn s.depth) (.node 0 nm A kids) .str [] []).dn 1 = [.node 0 nm A kids] := by
      simp [stN, hdep, upd_same, hdn]
    rw [this]
    simp only
    rw [show (stN s (s.dn s.depth) (.node 0 nm A kids) .str [] []).cum = [] from rfl, withLength_nil]
    simp only
    rw [attach_none _ _ _ (by simp only [stN]; rw [upd_other _ _ _ _ (by omega)]; rw [hdep] at h0; exact h0)]

/-! ### reading a node's own text -/

theorem createNew_kidsAt_st (s : PState) (nm : Str) (kids : List Tree) (st' : NState) (hR : Ready s) (hnm : nm ≠ [])
    (hd : dupNames kids = false) :
    createNew { kidsAt s kids with cum := nm, st := st' }
      = some (stN s (s.dn s.depth) (.node 0 nm [] kids) st' nm []) := by
  obtain ⟨h1, h2, h3, h4, h5⟩ := hR
  rw [createNew_parked _ (by simpa using hnm) (by simpa [kidsAt, upd_same] using hd)]
  simp only [kidsAt, stN, upd_same, upd_upd]
  rw [upd_self_eq s.dn (s.depth + 1) [] (h5 _ (by omega)), upd_other s.dn (s.depth + 1) s.depth _ (by omega)]
  obtain ⟨dn, counter, depth, st, cur, cum, cumVal⟩ := s
  simp only at h4
  subst h4
  rfl

theorem setAll_node (a : Attrs) (n : Str) (kids : List Tree) : ∀ (ks : List Str) (A : Attrs),
    setAll a ks (.node 0 n A kids) = .node 0 n (ks.foldl (fun acc k => dset acc k (getAttr a k)) A) kids := by
  intro ks
  induction ks with
  | nil => intro A; rfl
  | cons k ks ih => intro A; simp only [setAll, List.foldl_cons, setAttr] at ih ⊢; exact ih _

theorem joinS_ne_nil (sep : Str) (x : Str) (xs : List Str) (hx : x ≠ []) : joinS sep (x :: xs) ≠ [] := by
  cases xs with
  | nil => simpa [joinS] using hx
  | cons y ys => simp [joinS, hx]

theorem attrStr_eq (c : Chars) (la : Str) (al : List Str) (pre : Str) (a : Attrs) :
    attrStr c (stdW la al pre) a
      = if listed al a = [] then [] else '[' :: pre ++ joinS [':'] ((listed al a).map (item c a)) ++ [']'] := by
  unfold attrStr
  dsimp only [stdW]
  have hitems : (al.filter fun k => truthy (getAttr a k)).map (fun k => serialize c k ++ '=' :: serializeVal c (getAttr a k))
      = (listed al a).map (item c a) := rfl
  rw [hitems]
  by_cases h : listed al a = []
  · simp [h, joinS]
  · rw [if_neg h]
    have hal : al ≠ [] := by
      intro e; apply h; simp [listed, e]
    cases hl : listed al a with
    | nil => exact absurd hl h
    | cons k ks =>
      have : ¬ joinS [':'] (item c a k :: List.map (item c a) ks) = [] :=
        joinS_ne_nil _ _ _ (by simp [item])
      simp [hal, this]

/-- a node's own text (name, optional length, optional attribute list) read from the state in
    which its children are parked: one of the three pre-terminator shapes, for the node the
    specification `imgAttrs` describes -/
theorem go_node (c : Chars) (hc : c.OK) (la pre : Str) (al : List Str) (s : PState) (n : Str) (a : Attrs)
    (r leaf : Bool) (kids : List Tree) (ns : Str)
    (hR : Ready s) (hn : n ≠ []) (hq : c.quote ∉ n) (hd : dupNames kids = false)
    (hlen : (la ≠ [] ∧ r = false) → ∃ i : Int, 0 < i ∧ getAttr a la = .int i)
    (hattr : ∀ k ∈ al, k ≠ [] ∧ c.quote ∉ k ∧ (truthy (getAttr a k) = true → ∃ v, getAttr a k = .str v ∧ c.quote ∉ v))
    (hns : nameStr c (stdW la al pre) r n a leaf = some ns) :
    ∃ p, Pre la s n (imgAttrs la al r a) kids p ∧
      ∀ rest, go c la pre (kidsAt s kids) (ns ++ attrStr c (stdW la al pre) a ++ rest) = go c la pre p rest := by
  have hR' := hR
  obtain ⟨h1, h2, h3, h4, h5⟩ := hR
  have h0 : s.dn (s.depth + 1) = [] := h5 _ (by omega)
  have hks : ∀ k ∈ listed al a, k ≠ [] ∧ c.quote ∉ k ∧ ∃ v, getAttr a k = .str v ∧ c.quote ∉ v := by
    intro k hk
    obtain ⟨hk1, hk2⟩ := List.mem_filter.mp hk
    obtain ⟨x, y, z⟩ := hattr k hk1
    exact ⟨x, y, z hk2⟩
  have hname : ∀ rest, go c la pre (kidsAt s kids) (serialize c n ++ rest)
      = go c la pre { kidsAt s kids with cum := n } rest :=
    fun rest => go_name c hc la pre n (kidsAt s kids) rest hq h1 h3
  have hAS : c.attrStart = '[' := hc.2.2.2.1
  rw [attrStr_eq]
  by_cases hL : la ≠ [] ∧ r = false
  · -- with a length
    obtain ⟨i, hi, hv⟩ := hlen hL
    obtain ⟨hnum, hdig, hne⟩ := pyNumber_posInt i hi
    have hns' : ns = serialize c n ++ ':' :: valText (.int i) := by
      have : la ≠ [] ∧ (!r) = true := ⟨hL.1, by simp [hL.2]⟩
      dsimp only [nameStr, stdW] at hns
      rw [if_pos this, hv] at hns
      have ht : truthy (.int i) = true := by simp [truthy]; omega
      rw [if_pos ht] at hns
      simp only [Bool.true_or, if_true, Option.some.injEq] at hns
      rw [← hns]; simp
    have hbase : imgAttrs la al r a = (listed al a).foldl (fun acc k => dset acc k (getAttr a k)) [(la, .int i)] := by
      unfold imgAttrs; rw [if_pos hL, hv]
    -- name, ':' and the digits
    have hlenread : ∀ rest, go c la pre (kidsAt s kids) (ns ++ rest)
        = go c la pre (stN s (s.dn s.depth) (.node 0 n [] kids) .str (valText (.int i)) []) rest := by
      intro rest
      rw [hns', List.append_assoc, hname, List.cons_append]
      have hsep : c.sep = ':' := hc.2.2.2.2.2.2.2.1
      have hcn := createNew_kidsAt s n kids hR' hn hd
      rw [← hsep, go_step c la pre _ c.sep _ _ 0
        (step_sep_str c hc.1 la pre ({ kidsAt s kids with cum := n } : PState) _ _ h1 h2 hcn rfl)]
      rw [List.drop_zero]
      have := go_plain c la pre (valText (.int i)) (stN s (s.dn s.depth) (.node 0 n [] kids) .str [] []) rest
        (fun x hx => digit_plain c hc x (hdig x hx)) rfl
      exact this
    have hwl : withLength la (valText (.int i)) (.node 0 n [] kids) = some (.node 0 n [(la, .int i)] kids) := by
      unfold withLength
      rw [if_neg hne, hnum]
      simp [setAttr, dset]
    by_cases hk : listed al a = []
    · refine ⟨_, Pre.len (valText (.int i)) ?_, ?_⟩
      · rw [hbase, hk]; exact hwl
      · intro rest
        rw [if_pos hk, List.append_nil]
        exact hlenread rest
    · refine ⟨stN s (s.dn s.depth) (.node 0 n (imgAttrs la al r a) kids) .str [] [], Pre.done, ?_⟩
      intro rest
      rw [if_neg hk, List.append_assoc, hlenread]
      have hcr : create la { stN s (s.dn s.depth) (.node 0 n [] kids) .str (valText (.int i)) [] with st := .attrName }
          = some (stN s (s.dn s.depth) (.node 0 n [(la, .int i)] kids) .attrName (valText (.int i)) []) := by
        unfold create
        exact createExisting_stN la s _ _ _ .attrName _ [] h0 hwl
      have e : ('[' :: pre ++ joinS [':'] ((listed al a).map (item c a)) ++ [']']) ++ rest
          = c.attrStart :: (pre ++ (joinS [':'] ((listed al a).map (item c a)) ++ ']' :: rest)) := by
        rw [hAS]; simp
      rw [e, go_step c la pre _ c.attrStart _ _ _ (step_attrStart c hc.1 la pre _ _ _ rfl hcr rfl)]
      rw [List.drop_left]
      have := go_items c hc la pre s (s.dn s.depth) a (listed al a) hk (.node 0 n [(la, .int i)] kids) rest hks
      rw [setAll_node, ← hbase] at this
      exact this
  · -- without a length
    have hns' : ns = serialize c n := by
      have : ¬ (la ≠ [] ∧ (!r) = true) := by
        intro h; apply hL; exact ⟨h.1, by simpa using h.2⟩
      dsimp only [nameStr, stdW] at hns
      rw [if_neg this] at hns
      simp only [Bool.true_or, if_true, Option.some.injEq] at hns
      exact hns.symm
    have hbase : imgAttrs la al r a = (listed al a).foldl (fun acc k => dset acc k (getAttr a k)) [] := by
      unfold imgAttrs; rw [if_neg hL]
    by_cases hk : listed al a = []
    · refine ⟨_, Pre.pending (by rw [hbase, hk]; rfl), ?_⟩
      intro rest
      rw [if_pos hk, List.append_nil, hns']
      exact hname rest
    · refine ⟨stN s (s.dn s.depth) (.node 0 n (imgAttrs la al r a) kids) .str [] [], Pre.done, ?_⟩
      intro rest
      rw [if_neg hk, List.append_assoc, hns', hname]
      have hcr : create la { ({ kidsAt s kids with cum := n } : PState) with st := .attrName }
          = some (stN s (s.dn s.depth) (.node 0 n [] kids) .attrName n []) := by
        unfold create
        rw [show ({ ({ kidsAt s kids with cum := n } : PState) with st := .attrName } : PState).cur = false from h2]
        exact createNew_kidsAt_st s n kids .attrName hR' hn hd
      have e : ('[' :: pre ++ joinS [':'] ((listed al a).map (item c a)) ++ [']']) ++ rest
          = c.attrStart :: (pre ++ (joinS [':'] ((listed al a).map (item c a)) ++ ']' :: rest)) := by
        rw [hAS]; simp
      rw [e, go_step c la pre _ c.attrStart _ _ _
        (step_attrStart c hc.1 la pre ({ kidsAt s kids with cum := n } : PState) _ _ h1 hcr rfl)]
      rw [List.drop_left]
      have := go_items c hc la pre s (s.dn s.depth) a (listed al a) hk (.node 0 n [] kids) rest hks
      rw [setAll_node, ← hbase] at this
      exact this

/-! ### the stack invariant with lengths and attributes -/

theorem imgL_names (la : Str) (al : List Str) : ∀ (ts : List Tree), (imgL la al ts).map Tree.name = ts.map Tree.name
  | [] => by simp [imgL]
  | .node _ _ _ _ :: ts => by simp [imgL, img, imgL_names la al ts]

theorem img_eq (la : Str) (al : List Str) (r : Bool) (t : Tree) :
    img la al r t = .node 0 t.name (imgAttrs la al r t.attrs) (imgL la al t.children) := by
  cases t; simp [img]

theorem ready_nodeAt (s : PState) (N : Tree) (hR : Ready s) : Ready (nodeAt s N) := by
  obtain ⟨h1, h2, h3, h4, h5⟩ := hR
  refine ⟨h1, h2, h3, h4, ?_⟩
  intro k hk
  simp only [nodeAt] at hk ⊢
  rw [upd_other _ _ _ _ (by omega)]
  exact h5 k hk

theorem kidsAt_nil (s : PState) (hR : Ready s) : kidsAt s [] = s := by
  unfold kidsAt
  rw [upd_self_eq s.dn (s.depth + 1) [] (hR.2.2.2.2 _ (by omega))]

/-- hypotheses on lengths: the top node needs one only when it is not the root -/
def LenTop (la : Str) (r : Bool) (t : Tree) : Prop :=
  ((la ≠ [] ∧ r = false) → ∃ i : Int, 0 < i ∧ getAttr t.attrs la = .int i) ∧ AllNodesL (LenNode la) t.children

theorem lenTop_of_all (la : Str) (t : Tree) (h : AllNodes (LenNode la) t) : LenTop la false t := by
  cases t with
  | node i n a cs =>
    rw [allNodes_node] at h
    refine ⟨?_, h.2⟩
    intro hL
    rcases h.1 with e | e
    · exact absurd e hL.1
    · exact e

mutual
theorem go_tree (c : Chars) (hc : c.OK) (la pre : Str) (al : List Str) : ∀ (t : Tree) (r : Bool) (w : Str) (s : PState),
    Ready s → Good c t → LenTop la r t → AllNodes (AttrNode c.quote al) t →
    write c (stdW la al pre) r t = some w →
    ∃ p, Pre la s t.name (imgAttrs la al r t.attrs) (imgL la al t.children) p ∧
      ∀ rest, go c la pre s (w ++ rest) = go c la pre p rest
  | .node i n a cs, r, w, s, hR, hg, hlen, hattr, hw => by
    obtain ⟨hok, hq, hcs⟩ := good_node c i n a cs hg
    have hattr' := hattr
    rw [allNodes_node] at hattr'
    have hd : dupNames (imgL la al cs) = false := by
      apply dupNames_false; rw [imgL_names]; exact hok.2.2
    rw [write] at hw
    cases hns : nameStr c (stdW la al pre) r n a cs.isEmpty with
    | none => rw [hns] at hw; cases hw
    | some ns =>
      rw [hns] at hw
      simp only at hw
      obtain ⟨p, hp, hgo⟩ := go_node c hc la pre al s n a r cs.isEmpty (imgL la al cs) ns hR hok.1 hq hd
        hlen.1 hattr'.1 hns
      refine ⟨p, hp, ?_⟩
      intro rest
      cases cs with
      | nil =>
        simp only [List.isEmpty_nil, if_true, Option.some.injEq] at hw
        subst hw
        have := hgo rest
        simp only [imgL] at this
        rw [kidsAt_nil s hR] at this
        exact this
      | cons d ds =>
        simp only [List.isEmpty_cons, Bool.false_eq_true, if_false] at hw
        cases hkw : writeL c (stdW la al pre) (d :: ds) with
        | none => rw [hkw] at hw; cases hw
        | some kw =>
          rw [hkw] at hw
          simp only [Option.some.injEq] at hw
          subst hw
          obtain ⟨h1, h2, h3, h4, h5⟩ := hR
          have ho : c.openB = '(' := hc.2.1
          rw [← ho]
          simp only [List.cons_append, List.append_assoc]
          rw [go_step c la pre s c.openB _ _ 0 (step_open c la pre s _ h1 h2 h3 h4), List.drop_zero]
          have hR1 : Ready { s with depth := s.depth + 1 } := by
            refine ⟨h1, h2, h3, h4, ?_⟩
            intro k hk
            exact h5 k (by simp only at hk; omega)
          rw [go_list c hc la pre al (d :: ds) (by simp) kw { s with depth := s.depth + 1 } hR1 hcs hlen.2 hattr'.2 hkw]
          have hst : ({ s with depth := s.depth + 1 - 1, dn := upd s.dn (s.depth + 1) (s.dn (s.depth + 1) ++ imgL la al (d :: ds)) } : PState)
              = kidsAt s (imgL la al (d :: ds)) := by
            unfold kidsAt
            rw [h5 (s.depth + 1) (by omega)]
            have : s.depth + 1 - 1 = s.depth := by omega
            simp [this]
          simp only at hst ⊢
          rw [hst]
          have := hgo rest
          simp only [List.append_assoc] at this
          exact this
theorem go_list (c : Chars) (hc : c.OK) (la pre : Str) (al : List Str) : ∀ (ts : List Tree), ts ≠ [] →
    ∀ (w : Str) (s : PState), Ready s → GoodL c ts → AllNodesL (LenNode la) ts → AllNodesL (AttrNode c.quote al) ts →
    writeL c (stdW la al pre) ts = some w →
    ∀ rest, go c la pre s (w ++ ')' :: rest)
      = go c la pre { s with depth := s.depth - 1, dn := upd s.dn s.depth (s.dn s.depth ++ imgL la al ts) } rest
  | [], h, _, _, _, _, _, _, _ => absurd rfl h
  | [t], _, w, s, hR, hg, hlen, hattr, hw => by
    intro rest
    obtain ⟨hgt, _⟩ := goodL_cons c t [] hg
    rw [allNodesL_cons] at hlen hattr
    rw [writeL] at hw
    obtain ⟨p, hp, hgo⟩ := go_tree c hc la pre al t false w s hR hgt (lenTop_of_all la t hlen.1) hattr.1 hw
    have hok := good_ok c t hgt
    have hd : dupNames (imgL la al t.children) = false := by
      apply dupNames_false; rw [imgL_names]; exact hok.2.2
    rw [hgo, term_close c hc la pre s t.name _ _ p rest hR hok.1 hd hp, ← img_eq]
    simp [nodeAt, imgL]
  | t :: u :: ts, _, w, s, hR, hg, hlen, hattr, hw => by
    intro rest
    obtain ⟨hgt, hgts⟩ := goodL_cons c t (u :: ts) hg
    rw [allNodesL_cons] at hlen hattr
    rw [writeL] at hw
    cases hwt : write c (stdW la al pre) false t with
    | none => rw [hwt] at hw; simp at hw
    | some wt =>
      cases hwr : writeL c (stdW la al pre) (u :: ts) with
      | none => rw [hwt, hwr] at hw; simp at hw
      | some wr =>
        rw [hwt, hwr] at hw
        simp only [Option.some.injEq] at hw
        subst hw
        obtain ⟨p, hp, hgo⟩ := go_tree c hc la pre al t false wt s hR hgt (lenTop_of_all la t hlen.1) hattr.1 hwt
        have hok := good_ok c t hgt
        have hd : dupNames (imgL la al t.children) = false := by
          apply dupNames_false; rw [imgL_names]; exact hok.2.2
        rw [List.append_assoc, hgo, List.cons_append, term_sep c hc la pre s t.name _ _ p _ hR hok.1 hd hp, ← img_eq]
        rw [go_list c hc la pre al (u :: ts) (by simp) wr (nodeAt s (img la al false t)) (ready_nodeAt s _ hR)
          hgts hlen.2 hattr.2 hwr rest]
        congr 1
        simp only [nodeAt, upd_same, upd_upd, List.append_assoc, List.singleton_append]
        rfl
end

theorem nameStr_ne_nil (c : Chars) (la : Str) (al : List Str) (pre : Str) (r : Bool) (n : Str) (a : Attrs) (l : Bool)
    (ns : Str) (hn : n ≠ []) (h : nameStr c (stdW la al pre) r n a l = some ns) : ns ≠ [] := by
  have hb := serialize_ne_nil c n hn
  dsimp only [nameStr, stdW] at h
  split at h
  · split at h
    · simp only [Bool.true_or, if_true, Option.some.injEq] at h
      rw [← h]; simp [hb]
    · cases h
  · simp only [Bool.true_or, if_true, Option.some.injEq] at h
    rw [← h]; exact hb

theorem write_ne_nil (c : Chars) (la : Str) (al : List Str) (pre : Str) (r : Bool) (t : Tree) (w : Str)
    (hok : NodeOK t) (h : write c (stdW la al pre) r t = some w) : w ≠ [] := by
  cases t with
  | node i n a cs =>
    rw [write] at h
    cases hns : nameStr c (stdW la al pre) r n a cs.isEmpty with
    | none => rw [hns] at h; cases h
    | some ns =>
      rw [hns] at h
      have hne := nameStr_ne_nil c la al pre r n a _ ns hok.1 hns
      simp only at h
      split at h
      · simp only [Option.some.injEq] at h
        rw [← h]; simp [hne]
      · split at h
        · cases h
        · simp only [Option.some.injEq] at h
          rw [← h]; simp

/-- `newick_to_tree(tree_to_newick(t, length_attr, attr_list, attr_prefix), length_attr, attr_prefix)` -/
theorem parse_write (c : Chars) (hc : c.OK) (la pre : Str) (al : List Str) (t : Tree) (r : Bool) (w : Str)
    (hg : Good c t) (hlen : LenTop la r t) (hattr : AllNodes (AttrNode c.quote al) t)
    (hw : write c (stdW la al pre) r t = some w) :
    parse c la pre w = some (img la al r t) := by
  have hok := good_ok c t hg
  obtain ⟨p, hp, hgo⟩ := go_tree c hc la pre al t r w PState.init ready_init hg hlen hattr hw
  unfold parse
  rw [if_neg (write_ne_nil c la al pre r t w hok hw)]
  have hrun : run c la pre w.length PState.init w = some p := by
    have := hgo []
    rw [List.append_nil, go_nil] at this
    exact this
  rw [hrun]
  simp only
  have hd : dupNames (imgL la al t.children) = false := by
    apply dupNames_false; rw [imgL_names]; exact hok.2.2
  rw [term_end la PState.init t.name _ _ p ready_init hok.1 hd rfl rfl hp, img_eq]

/-! ### the writer is defined on such trees -/

theorem nameStr_some (c : Chars) (la : Str) (al : List Str) (pre : Str) (r : Bool) (n : Str) (a : Attrs) (l : Bool)
    (h : (la ≠ [] ∧ r = false) → ∃ i : Int, 0 < i ∧ getAttr a la = .int i) :
    ∃ ns, nameStr c (stdW la al pre) r n a l = some ns := by
  dsimp only [nameStr, stdW]
  by_cases hL : la ≠ [] ∧ (!r) = true
  · obtain ⟨i, hi, hv⟩ := h ⟨hL.1, by simpa using hL.2⟩
    have ht : truthy (.int i) = true := by simp [truthy]; omega
    rw [if_pos hL, hv, if_pos ht]
    exact ⟨_, rfl⟩
  · rw [if_neg hL]
    exact ⟨_, rfl⟩

mutual
theorem write_some (c : Chars) (la pre : Str) (al : List Str) : ∀ (t : Tree) (r : Bool), LenTop la r t →
    ∃ w, write c (stdW la al pre) r t = some w
  | .node i n a cs, r, h => by
    obtain ⟨ns, hns⟩ := nameStr_some c la al pre r n a cs.isEmpty h.1
    rw [write, hns]
    simp only
    by_cases hl : cs.isEmpty = true
    · rw [if_pos hl]; exact ⟨_, rfl⟩
    · rw [if_neg hl]
      obtain ⟨kw, hkw⟩ := writeL_some c la pre al cs h.2
      rw [hkw]
      exact ⟨_, rfl⟩
theorem writeL_some (c : Chars) (la pre : Str) (al : List Str) : ∀ (ts : List Tree), AllNodesL (LenNode la) ts →
    ∃ w, writeL c (stdW la al pre) ts = some w
  | [], _ => ⟨[], by simp [writeL]⟩
  | [t], h => by
    rw [allNodesL_cons] at h
    rw [writeL]
    exact write_some c la pre al t false (lenTop_of_all la t h.1)
  | t :: u :: ts, h => by
    rw [allNodesL_cons] at h
    obtain ⟨w1, h1⟩ := write_some c la pre al t false (lenTop_of_all la t h.1)
    obtain ⟨w2, h2⟩ := writeL_some c la pre al (u :: ts) h.2
    rw [writeL, h1, h2]
    exact ⟨_, rfl⟩
end

/-! ### a decidable sufficient check for `AttrNode` (used by the non-vacuity examples) -/

def valOK (q : Char) : Val → Bool
  | .str v => !v.contains q
  | v => !truthy v

theorem attrNode_of_check (q : Char) (al : List Str) (u : Tree)
    (h : al.all (fun k => k != [] && !k.contains q && valOK q (getAttr u.attrs k)) = true) : AttrNode q al u := by
  intro k hk
  have := List.all_eq_true.mp h k hk
  simp only [Bool.and_eq_true, bne_iff_ne, ne_eq, Bool.not_eq_true', List.contains_eq_mem, decide_eq_false_iff_not] at this
  obtain ⟨⟨h1, h2⟩, h3⟩ := this
  refine ⟨h1, h2, ?_⟩
  intro ht
  cases hv : getAttr u.attrs k with
  | str v =>
    rw [hv] at h3
    simp only [valOK, Bool.not_eq_true', List.contains_eq_mem, decide_eq_false_iff_not] at h3
    exact ⟨v, rfl, h3⟩
  | null => rw [hv] at ht; simp [truthy] at ht
  | int i => rw [hv] at h3 ht; simp [valOK, ht] at h3
  | bool b => rw [hv] at h3 ht; simp [valOK, ht] at h3

end Newick
