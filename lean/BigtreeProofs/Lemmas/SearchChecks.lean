import BigtreeModel.Search
import BigtreeProofs.Lemmas.SearchPaths
/-! Decidable sufficient checks for the hypotheses of `C09.find_full_path_iff`
(sibling-unique names, separator in no name), used by the non-vacuity examples, and the
BinaryNode version of `find_children`. -/

namespace Search
open Query

mutual
/-- `P` holds at every node of the tree -/
def allSub (P : Tree → Bool) : Tree → Bool
  | .node i n a cs => P (.node i n a cs) && allSubL P cs
def allSubL (P : Tree → Bool) : List Tree → Bool
  | [] => true
  | c :: cs => allSub P c && allSubL P cs
end

theorem allSubL_getElem? (P : Tree → Bool) : ∀ (cs : List Tree) (k : Nat) (c : Tree),
    allSubL P cs = true → cs[k]? = some c → allSub P c = true := by
  intro cs
  induction cs with
  | nil => intro k c _ h; simp at h
  | cons d ds ih =>
    intro k c h hk
    simp only [allSubL, Bool.and_eq_true] at h
    cases k with
    | zero => simp at hk; subst hk; exact h.1
    | succ k => exact ih k c h.2 (by simpa using hk)

theorem allSub_sub (P : Tree → Bool) : ∀ (x : Addr) (R t : Tree),
    allSub P R = true → sub R x = some t → P t = true := by
  intro x
  induction x with
  | nil =>
    intro R t h hs
    simp only [sub_nil, Option.some.injEq] at hs
    subst hs
    cases R with
    | node i n a cs => simp only [allSub, Bool.and_eq_true] at h; exact h.1
  | cons k ks ih =>
    intro R t h hs
    cases R with
    | node i n a cs =>
      simp only [allSub, Bool.and_eq_true] at h
      rw [sub_cons] at hs
      simp only [Tree.children_node] at hs
      cases hc : cs[k]? with
      | none => simp [hc] at hs
      | some c =>
        simp only [hc, Option.bind_some] at hs
        exact ih c t (allSubL_getElem? P cs k c h.2 hc) hs

/-- children names pairwise distinct at this node -/
def childNamesDistinct (t : Tree) : Bool := decide ((t.children.map Tree.name).Nodup)

theorem sibUnique_of_check (R : Tree) (h : allSub childNamesDistinct R = true) : SibUnique R := by
  intro p j k hj hk hn
  cases hp : sub R p with
  | none =>
    have := sub_isSome_of_append hj
    simp [hp] at this
  | some t =>
    have hnd : (t.children.map Tree.name).Nodup := by
      have := allSub_sub childNamesDistinct p R t h hp
      simpa [childNamesDistinct] using this
    rw [sub_snoc, hp] at hj hk
    simp only [Option.bind_some] at hj hk
    simp only [nameAt, sub_snoc, hp, Option.bind_some] at hn
    have hjl : j < t.children.length := by
      by_cases hlt : j < t.children.length
      · exact hlt
      · rw [List.getElem?_eq_none (by omega)] at hj; simp at hj
    have hkl : k < t.children.length := by
      by_cases hlt : k < t.children.length
      · exact hlt
      · rw [List.getElem?_eq_none (by omega)] at hk; simp at hk
    apply (List.getElem?_inj (by simpa using hjl) hnd).1
    simp only [List.getElem?_map]
    exact hn

theorem noSep_of_check (s : Char) (R : Tree) (h : allSub (fun t => !t.name.contains s) R = true) :
    ∀ (x : Addr) (t : Tree), sub R x = some t → s ∉ t.name := by
  intro x t hs
  have := allSub_sub _ x R t h hs
  simpa using this

/-! ### find_children on the two slots of a BinaryNode -/

theorem findChildrenB_eq (cond : Nat → Bool) (i : Nat) (n : Str) (a : Attrs) (l r : BTree) :
    (findChildrenB cond (.node i n a l r)).flatMap BTree.toTrees =
      (l.toTrees ++ r.toTrees).filter fun c => cond c.id := by
  cases l <;> cases r <;> simp [findChildrenB, BTree.toTrees, List.filter_cons] <;>
    (repeat' split) <;> simp_all [BTree.toTrees]

end Search
