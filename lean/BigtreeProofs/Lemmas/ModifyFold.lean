import BigtreeModel.Modify
/-!
# C08 helper lemmas: the operations of `copy_or_shift_logic` never change the root's name

This is what makes the up-front validation of a pair list independent of the pairs already
processed, hence `loop` = sequential single-pair calls.
-/
namespace Modify

instance instDecEqExcept {ε α : Type} [DecidableEq ε] [DecidableEq α] : DecidableEq (Except ε α)
  | .ok a, .ok b =>
    if h : a = b then isTrue (by rw [h]) else isFalse (by intro e; cases e; exact h rfl)
  | .error a, .error b =>
    if h : a = b then isTrue (by rw [h]) else isFalse (by intro e; cases e; exact h rfl)
  | .ok _, .error _ => isFalse (by intro e; cases e)
  | .error _, .ok _ => isFalse (by intro e; cases e)

@[simp] theorem setKids_name (cs t) : (setKids cs t).name = t.name := by cases t; rfl
@[simp] theorem appendKid_name (c t) : (appendKid c t).name = t.name := by cases t; rfl

theorem modifyAt_name (p : List Str) (f : Tree → Tree) (hf : ∀ x, (f x).name = x.name) (t : Tree) :
    (modifyAt p f t).name = t.name := by
  cases p with
  | nil => simp [modifyAt, hf]
  | cons n ns => cases t; simp [modifyAt]

@[simp] theorem removeAt_name (p : List Str) (t : Tree) : (removeAt p t).name = t.name := by
  match p, t with
  | [], t => simp [removeAt]
  | [n], .node .. => simp [removeAt]
  | n :: m :: ns, .node .. => simp [removeAt]

theorem removeAll_name (ps : List (List Str)) (t : Tree) : (removeAll ps t).name = t.name := by
  induction ps generalizing t with
  | nil => rfl
  | cons p ps ih => simp [removeAll, ih]

theorem grow_name {ns k t r} (h : grow ns k t = .ok r) : r.1.name = t.name := by
  cases ns with
  | nil => simp [grow] at h; subst h; rfl
  | cons n ns =>
    cases t with
    | node i nm a cs =>
      simp only [grow] at h
      split at h
      · split at h
        · simp at h; subst h; rfl
        · simp at h
      · split at h
        · simp at h
        · split at h
          · simp at h; subst h; rfl
          · simp at h

theorem addPath_name {sep t k path r} (h : addPath sep t k path = .ok r) : r.1.name = t.name := by
  unfold addPath at h
  split at h
  · simp at h
  · split at h
    · simp at h
    · split at h
      · simp at h
      · split at h
        · rename_i x hx
          simp at h; subst h; exact grow_name hx
        · simp at h

theorem decideExisting_name {cfg st fp dp d} (h : decideExisting cfg st fp dp = .ok d) :
    d.dst.name = st.dst.name := by
  unfold decideExisting at h
  repeat' split at h
  all_goals first
    | (simp at h; done)
    | (simp at h; subst h; first | rfl | (simp; done) | exact modifyAt_name _ _ (fun x => setKids_name [] x) _)

theorem decideMissing_name {cfg st tp d} (h : decideMissing cfg st tp = .ok d) :
    d.dst.name = st.dst.name := by
  unfold decideMissing at h
  split at h
  · simp at h
  · rename_i x hx
    simp at h; subst h; exact addPath_name hx

theorem decideTo_name {cfg st fp tp d} (h : decideTo cfg st fp tp = .ok d) :
    d.dst.name = st.dst.name := by
  unfold decideTo at h
  split at h
  · simp at h; subst h; rfl
  · split at h
    · simp at h; subst h; rfl
    · split at h
      · simp at h
      · exact decideExisting_name h
      · exact decideMissing_name h

theorem attachOne_name {pp c t t'} (h : attachOne pp c t = .ok t') : t'.name = t.name := by
  unfold attachOne at h
  split at h
  · simp at h
  · split at h
    · simp at h
    · simp at h; subst h; exact modifyAt_name _ _ (by simp) _

theorem attachAll_name {pp cs t t'} (h : attachAll pp cs t = .ok t') : t'.name = t.name := by
  induction cs generalizing t with
  | nil => simp [attachAll] at h; subst h; rfl
  | cons c cs ih =>
    simp only [attachAll] at h
    split at h
    · simp at h
    · rename_i t1 h1
      rw [ih h, attachOne_name h1]

theorem attachChildren_name {cfg live fp Fc d t} (h : attachChildren cfg live fp Fc d = .ok t) :
    t.name = d.dst.name := by
  unfold attachChildren at h
  split at h
  · simp at h
  · split at h
    · simp at h
    · split at h
      · simp at h
      · rename_i t1 h1
        simp at h; subst h
        split <;> simp [attachAll_name h1]

theorem attachLeaves_name {live fp Fc d t} (h : attachLeaves live fp Fc d = .ok t) :
    t.name = d.dst.name := by
  unfold attachLeaves at h
  split at h
  · simp at h
  · split at h
    · simp at h
    · split at h
      · rw [attachOne_name h]; split <;> simp
      · split at h
        · simp at h
        · rename_i t1 h1
          simp at h; subst h
          split
          · rw [modifyAt_name _ _ (removeAll_name _), attachAll_name h1]
          · exact attachAll_name h1

theorem attachNode_name {live fp Fm t0 parent t} (h : attachNode live fp Fm t0 parent = .ok t) :
    t.name = t0.name := by
  unfold attachNode at h
  split at h
  · simp at h; subst h
    split <;> simp
  · split at h
    · simp at h
    · rw [attachOne_name h]; split <;> simp

theorem attach_name {cfg sn d fp F r} (h : attach cfg sn d fp F = .ok r) :
    r.1.name = d.dst.name := by
  unfold attach at h
  simp only at h
  split at h
  · simp at h
  · rename_i t ht
    simp at h; subst h
    simp only
    split at ht
    · exact attachChildren_name ht
    · split at ht
      · exact attachLeaves_name ht
      · rw [attachNode_name ht]
        have key : ∀ c : Bool, (if c = true then modifyAt fp (setKids []) d.dst else d.dst).name
            = d.dst.name := by
          intro c; cases c
          · rfl
          · exact modifyAt_name _ _ (fun x => setKids_name [] x) _
        exact key _

theorem step_name {cfg st pr st'} (h : step cfg st pr = .ok st') :
    st'.dst.name = st.dst.name ∧ st'.src = st.src := by
  unfold step at h
  split at h
  · simp at h
  · split at h
    · simp at h; subst h; exact ⟨rfl, rfl⟩
    · simp at h
  · split at h
    · simp at h
    · rename_i d hd
      split at h
      · simp at h
      · rename_i r hr
        simp at h; subst h
        exact ⟨by rw [attach_name hr, decideTo_name hd], rfl⟩

theorem step_tree_name {cfg st pr st'} (h : step cfg st pr = .ok st') :
    st'.tree.name = st.tree.name := by
  obtain ⟨h1, h2⟩ := step_name h
  unfold St.tree
  rw [h2]
  cases st.src <;> simp [h1]

/-- the validation of a pair list only looks at the two root names -/
theorem valid_congr {cfg st st'} (h1 : st'.dst.name = st.dst.name) (h2 : st'.tree.name = st.tree.name)
    (ps) : valid cfg st' ps = valid cfg st ps := by
  unfold valid; rw [h1, h2]

theorem valid_cons (cfg st p ps) :
    valid cfg st (p :: ps) = (valid cfg st [p] && valid cfg st ps) := by
  unfold valid
  simp only [List.any_cons, List.map_cons, List.all_cons, List.any_nil, List.map_nil, List.all_nil,
    Bool.or_false, Bool.and_true]
  cases cfg.mergeChildren <;> cases cfg.mergeLeaves <;> cases cfg.copy <;> cases cfg.withFullPath <;>
    cases isDelete p.2 <;> cases nameOk cfg (norm cfg p) <;> cases fromRootOk cfg st.tree.name (norm cfg p) <;>
    cases toRootOk cfg st.dst.name (norm cfg p) <;> simp

end Modify

namespace Modify

/-! ### the same for `replace_logic` -/

theorem reappend_name (pp : List Str) (nm : Str) (t : Tree) : (reappend pp nm t).name = t.name := by
  unfold reappend
  apply modifyAt_name
  intro x
  split <;> simp

theorem reappendAll_name (pp : List Str) (ns : List Str) (t : Tree) :
    (reappendAll pp ns t).name = t.name := by
  induction ns generalizing t with
  | nil => rfl
  | cons n ns ih => simp [reappendAll, ih, reappend_name]

theorem replaceAt_name {live0 fp dp pp Fm t0 t} (h : replaceAt live0 fp dp pp Fm t0 = .ok t) :
    t.name = t0.name := by
  unfold replaceAt at h
  simp only at h
  split at h
  · simp at h
  · split at h
    · simp at h
    · rename_i t2 h2
      simp at h; subst h
      rw [reappendAll_name, attachOne_name h2]
      split <;> simp

theorem stepReplace_name {cfg st pr st'} (h : stepReplace cfg st pr = .ok st') :
    st'.dst.name = st.dst.name ∧ st'.src = st.src := by
  unfold stepReplace at h
  split at h
  · simp at h
  · split at h
    · simp at h; subst h; exact ⟨rfl, rfl⟩
    · simp at h
  · split at h
    · simp at h
    · split at h
      · simp at h
      · simp at h
      · split at h
        · simp at h
        · simp only at h
          split at h
          · simp at h
          · split at h
            · simp at h
            · rename_i fp0 _ _ _ _ _ _ _ _ _ _ _ t2 h2
              simp at h; subst h
              refine ⟨?_, rfl⟩
              simp only
              rw [replaceAt_name h2]
              have key : ∀ (b : Bool) (q : List Str),
                  (if b = true then modifyAt q (setKids []) st.dst else st.dst).name = st.dst.name := by
                intro b q; cases b
                · rfl
                · exact modifyAt_name _ _ (fun x => setKids_name [] x) _
              exact key _ _

theorem validReplace_congr {cfg st st'} (h1 : st'.dst.name = st.dst.name)
    (h2 : st'.tree.name = st.tree.name) (ps) : validReplace cfg st' ps = validReplace cfg st ps := by
  unfold validReplace; rw [h1, h2]

theorem validReplace_cons (cfg st p ps) :
    validReplace cfg st (p :: ps) = (validReplace cfg st [p] && validReplace cfg st ps) := by
  unfold validReplace
  simp only [List.map_cons, List.all_cons, List.map_nil, List.all_nil, Bool.and_true]
  cases cfg.withFullPath <;> cases fromRootOk cfg st.tree.name (norm cfg p) <;>
    cases toRootOk cfg st.dst.name (norm cfg p) <;> simp

theorem loop_src {cfg st ps st'} (h : loop cfg st ps = .ok st') : st'.src = st.src := by
  induction ps generalizing st with
  | nil => simp [loop] at h; rw [h]
  | cons p ps ih =>
    simp only [loop] at h
    cases hs : step cfg st p with
    | error e => rw [hs] at h; simp at h
    | ok st1 => rw [hs] at h; rw [ih h, (step_name hs).2]

end Modify
