import BigtreeProofs.Lemmas.StorePathC
/-!
# Paths on the pointer store, part D: `path_name`, `depth`, `sep`, `find_full_path`
-/

namespace Store

theorem depthAux_eq (s : Store) : ∀ (f v : Nat), depthAux s f v = (anc s f v).length + 1 := by
  intro f
  induction f with
  | zero => intro v; rfl
  | succ f ih =>
    intro v
    simp only [depthAux, anc]
    cases s.parent v with
    | none => rfl
    | some p => simp [ih p]

/-- depth = length of the route from the root -/
theorem depth_eq_length (s : Store) (v : Nat) : depth s v = (pathNames s v).length := by
  simp [depth, depthAux_eq, pathNames, pathNodes]

theorem pathName_eq (s : Store) (v : Nat) :
    pathName s v = sep s v ++ join (sep s v) (pathNames s v) := by
  simp only [pathName, sep, rootOf_eq_getLast]

theorem pathNames_ne_nil (s : Store) (v : Nat) : pathNames s v ≠ [] := by
  simp [pathNames, pathNodes]

theorem filter_unique {l : List Nat} {b : Nat} {q : Nat → Bool} (hn : l.Nodup) (hb : b ∈ l) (hq : q b = true)
    (hu : ∀ c ∈ l, q c = true → c = b) : l.filter q = [b] := by
  induction l with
  | nil => cases hb
  | cons a l ih =>
    have hn' := List.nodup_cons.1 hn
    by_cases hab : a = b
    · subst hab
      rw [List.filter_cons_of_pos hq]
      congr
      apply List.filter_eq_nil_iff.2
      intro c hc hqc
      have := hu c (List.mem_cons_of_mem _ hc) hqc
      exact hn'.1 (this ▸ hc)
    · have hb' : b ∈ l := by
        cases hb with
        | head => exact absurd rfl hab
        | tail _ h => exact h
      have hqa : ¬ q a = true := fun h => hab (hu a List.mem_cons_self h)
      rw [List.filter_cons_of_neg hqa]
      exact ih hn'.2 hb' (fun c hc => hu c (List.mem_cons_of_mem _ hc))

theorem findChildByName_child {s : Store} (hw : WF s) (hu : SibUnique s) (a b : Nat)
    (h : s.parent b = some a) : findChildByName s a (s.name b) = some (some b) := by
  have hb := hw.up b a h
  have : (s.children a).filter (fun c => s.name c == s.name b) = [b] :=
    filter_unique (hw.nodup a) hb (by simp) (fun c hc hq => hu a c b hc hb (by simpa using hq))
  simp [findChildByName, this]

theorem descend_chain {s : Store} (hw : WF s) (hu : SibUnique s) : ∀ (t : List Nat) (a : Nat),
    Down s (a :: t) → descend s a (t.map s.name) = some ((a :: t).getLast? ) := by
  intro t
  induction t with
  | nil => intro a _; rfl
  | cons b t ih =>
    intro a hd
    simp only [List.map_cons, descend, findChildByName_child hw hu a b hd.1]
    rw [ih b hd.2]
    simp [List.getLast?_cons_cons]

/-- looking a node's path name up from any node of its tree returns that very node -/
theorem findFullPath_pathName {s : Store} (hw : WF s) (hu : SibUnique s) (d : Char) (start v : Nat)
    (hst : SameTree s start v) (hsep : sep s v = [d])
    (hn : ∀ x ∈ pathNodes s v, s.name x ≠ [] ∧ d ∉ s.name x) :
    findFullPath s start (pathName s v) = some (some v) := by
  have hsep' : sep s start = [d] := by
    simp only [sep] at hsep ⊢; rw [hst]; exact hsep
  have hnames : ∀ x ∈ pathNames s v, x ≠ [] ∧ d ∉ x := by
    intro x hx
    obtain ⟨y, hy, rfl⟩ := List.mem_map.1 hx
    exact hn y hy
  unfold findFullPath
  simp only [hsep', pathName_eq, hsep]
  rw [strip_path d _ (pathNames_ne_nil s v) hnames,
    split_join d _ (pathNames_ne_nil s v) (fun x hx => (hnames x hx).2)]
  have hh := pathNodes_head s v
  have hl := pathNodes_getLast s v
  have hd := down_pathNodes hw v
  unfold pathNames
  cases hL : pathNodes s v with
  | nil => rw [hL] at hh; simp at hh
  | cons r t =>
    rw [hL] at hh hl hd
    simp only [List.head?_cons, Option.some.injEq] at hh
    simp only [List.map_cons]
    have hr : r = rootOf s s.n start := by rw [hh]; exact hst.symm
    rw [if_pos (by rw [hr])]
    rw [← hr, descend_chain hw hu t r hd, hl]

/-- path names identify nodes: two nodes of one tree with the same path name are the same node -/
theorem pathName_injective {s : Store} (hw : WF s) (hu : SibUnique s) (d : Char) (u v : Nat)
    (hst : SameTree s u v) (hsep : sep s v = [d])
    (hn : ∀ x, s.name x ≠ [] ∧ d ∉ s.name x)
    (h : pathName s u = pathName s v) : u = v := by
  have hsep' : sep s u = [d] := by
    simp only [sep] at hsep ⊢; rw [hst]; exact hsep
  rw [pathName_eq, pathName_eq, hsep, hsep'] at h
  have h' := List.append_cancel_left h
  apply pathNames_injective hw hu u v hst
  apply join_injective d _ _ (pathNames_ne_nil s u) (pathNames_ne_nil s v) _ _ h'
  · intro x hx; obtain ⟨y, _, rfl⟩ := List.mem_map.1 hx; exact (hn y).2
  · intro x hx; obtain ⟨y, _, rfl⟩ := List.mem_map.1 hx; exact (hn y).2

/-! ## the separator is the root's -/

theorem sep_of_root {s : Store} (hw : WF s) {r v : Nat} (hr : Reach s r v) (hroot : s.parent r = none) :
    sep s v = s.sepOf r := by
  simp only [sep, rootOf_spec hw hr hroot]

theorem sep_parent {s : Store} (hw : WF s) (v p : Nat) (h : s.parent v = some p) : sep s v = sep s p := by
  simp only [sep, rootOf_step hw v p h]

theorem rootOf_setSep (s : Store) (v : Nat) (x : Str) : ∀ (f u : Nat),
    rootOf (setSep s v x) f u = rootOf s f u := by
  intro f
  induction f with
  | zero => intro u; rfl
  | succ f ih =>
    intro u
    simp only [rootOf]
    show (match s.parent u with | none => u | some p => rootOf (setSep s v x) f p) = _
    cases s.parent u with
    | none => rfl
    | some p => exact ih p

instance (s : Store) (u v : Nat) : Decidable (SameTree s u v) := by unfold SameTree; infer_instance

theorem sep_setSep (s : Store) (v : Nat) (x : Str) (u : Nat) :
    sep (setSep s v x) u = if SameTree s u v then x else sep s u := by
  simp only [sep, SameTree]
  rw [rootOf_setSep]
  show (setSep s v x).sepOf (rootOf s s.n u) = _
  simp only [setSep]

end Store
