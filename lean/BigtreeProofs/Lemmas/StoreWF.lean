import BigtreeProofs.Lemmas.StoreBasic
/-!
# Pointer store: closed forms of the setter bodies and preservation of well-formedness
-/

namespace Store

/-- Acyclicity under adoption: the nodes in `S` get `t` as their only possible parent, all other
nodes keep (at most) their old parent; no member of `S` is `t` or above `t`. -/
theorem acyc_adopt (s : Store) (h : ∀ x, Acc s.IsParent x) (t : Nat) (S : Nat → Prop)
    (par' : Nat → Option Nat)
    (hS : ∀ c, S c → ¬ Reach s c t)
    (h1 : ∀ x q, S x → par' x = some q → q = t)
    (h2 : ∀ x q, ¬ S x → par' x = some q → s.parent x = some q) :
    ∀ x, Acc (fun p c => par' c = some p) x := by
  have key : ∀ y, (∀ c, S c → ¬ Reach s c y) → Acc (fun p c => par' c = some p) y := by
    intro y
    induction h y with
    | intro y _ ih =>
      intro hy
      have hyS : ¬ S y := fun hs => hy y hs (Reach.refl y)
      constructor
      intro q hq
      have hq' : s.parent y = some q := h2 y q hyS hq
      exact ih q hq' (fun c hc hr => hy c hc (Reach.step hr hq'))
  have ht := key t hS
  intro x
  induction h x with
  | intro x _ ih =>
    constructor
    intro q hq
    by_cases hx : S x
    · rw [h1 x q hx hq]; exact ht
    · exact ih q (h2 x q hx hq)

/-! ## list facts -/

theorem erase_insertIdx (l : List Nat) (v : Nat) (hv : v ∈ l) (hn : l.Nodup) :
    (l.erase v).insertIdx (l.idxOf v) v = l := by
  induction l with
  | nil => cases hv
  | cons a l ih =>
    by_cases h : a = v
    · subst h; simp
    · have hv' : v ∈ l := by
        cases hv with
        | head => exact absurd rfl h
        | tail _ h' => exact h'
      have : (a == v) = false := by simp [h]
      simp [List.idxOf_cons, this, ih hv' (List.nodup_cons.1 hn).2]

theorem idxOf_le_length_erase (l : List Nat) (v : Nat) (hv : v ∈ l) :
    l.idxOf v ≤ (l.erase v).length := by
  have h1 := List.idxOf_lt_length_iff.2 hv
  rw [List.length_erase_of_mem hv]; omega

theorem pyInsert_erase (l : List Nat) (v : Nat) (hv : v ∈ l) (hn : l.Nodup) :
    pyInsert (l.erase v) (l.idxOf v) v = l := by
  unfold pyInsert
  rw [if_pos (idxOf_le_length_erase l v hv)]
  exact erase_insertIdx l v hv hn

theorem erase_append_self (l : List Nat) (v : Nat) (h : v ∉ l) : (l ++ [v]).erase v = l := by
  induction l with
  | nil => simp
  | cons a l ih =>
    have ha : a ≠ v := fun e => h (e ▸ List.mem_cons_self)
    have hl : v ∉ l := fun e => h (List.mem_cons_of_mem _ e)
    have : (a == v) = false := by simp [ha]
    simp [this, ih hl]

/-! ## the parent setter -/

/-- closed form of the body of the parent setter -/
def reparent (s : Store) (v : Nat) (np : Option Nat) : Store :=
  { s with
    parent := fun x => if x = v then np else s.parent x
    children := fun x =>
      let ch1 := if s.parent v = some x then (s.children x).erase v else s.children x
      if np = some x then ch1 ++ [v] else ch1 }

theorem parentBody_eq (s : Store) (v : Nat) (np : Option Nat) :
    (parentBody s v np).1 = reparent s v np := by
  unfold parentBody reparent
  cases hc : s.parent v <;> cases np <;> apply ext' <;> (try rfl) <;> funext x <;> simp [setP, setC]
  all_goals (try (by_cases h1 : x = _ <;> simp_all))
  all_goals grind

theorem reparent_parent (s : Store) (v : Nat) (np : Option Nat) (x : Nat) :
    (reparent s v np).parent x = if x = v then np else s.parent x := rfl

theorem reparent_children (s : Store) (v : Nat) (np : Option Nat) (x : Nat) :
    (reparent s v np).children x =
      if np = some x then (if s.parent v = some x then (s.children x).erase v else s.children x) ++ [v]
      else (if s.parent v = some x then (s.children x).erase v else s.children x) := rfl

/-- after detaching, `v` is in no list -/
theorem not_mem_ch1 {s : Store} (hw : WF s) (v q : Nat) :
    v ∉ (if s.parent v = some q then (s.children q).erase v else s.children q) := by
  split
  · intro h; exact ((hw.nodup q).mem_erase_iff.1 h).1 rfl
  · intro h; rename_i hne; exact hne (hw.down q v h)

theorem mem_ch1 {s : Store} (_hw : WF s) (v q c : Nat) (hc : c ≠ v) :
    c ∈ (if s.parent v = some q then (s.children q).erase v else s.children q) ↔ c ∈ s.children q := by
  split
  · exact List.mem_erase_of_ne hc
  · exact Iff.rfl

theorem wf_reparent {s : Store} (hw : WF s) (v : Nat) (np : Option Nat) (hv : v < s.n)
    (hnp : ∀ p, np = some p → p < s.n ∧ ¬ Reach s v p) : WF (reparent s v np) := by
  refine ⟨?_, ?_, ?_, ?_, ?_⟩
  · intro c q h
    rw [reparent_parent] at h
    rw [reparent_children]
    by_cases hc : c = v
    · subst hc; simp at h; simp [h]
    · simp [hc] at h
      have := (mem_ch1 hw v q c hc).2 (hw.up c q h)
      split <;> simp [this]
  · intro q c h
    rw [reparent_children] at h
    rw [reparent_parent]
    by_cases hc : c = v
    · subst hc
      simp only [if_true]
      by_cases hq : np = some q
      · exact hq
      · rw [if_neg hq] at h; exact absurd h (not_mem_ch1 hw c q)
    · simp only [if_neg hc]
      have h' : c ∈ (if s.parent v = some q then (s.children q).erase v else s.children q) := by
        split at h
        · rcases List.mem_append.1 h with h | h
          · exact h
          · simp at h; exact absurd h hc
        · exact h
      exact hw.down q c ((mem_ch1 hw v q c hc).1 h')
  · intro q
    rw [reparent_children]
    have hn : (if s.parent v = some q then (s.children q).erase v else s.children q).Nodup := by
      split
      · exact (hw.nodup q).erase v
      · exact hw.nodup q
    split
    · rw [List.nodup_append]
      refine ⟨hn, by simp, ?_⟩
      intro a ha b hb
      simp at hb; subst hb
      intro e; subst e; exact not_mem_ch1 hw a q ha
    · exact hn
  · apply acyc_adopt s hw.acyc (np.getD v) (fun x => x = v ∧ np ≠ none) (reparent s v np).parent
    · intro c ⟨hc, hne⟩
      subst hc
      cases np with
      | none => exact absurd rfl hne
      | some p => exact (hnp p rfl).2
    · intro x q ⟨hx, _⟩ h
      subst hx
      simp [reparent_parent] at h
      simp [h]
    · intro x q hx h
      rw [reparent_parent] at h
      by_cases hxv : x = v
      · subst hxv
        simp at h
        exact absurd ⟨rfl, by simp [h]⟩ hx
      · simpa [hxv] using h
  · intro c q h
    rw [reparent_parent] at h
    by_cases hc : c = v
    · subst hc; simp at h
      exact ⟨hv, (hnp q h).1⟩
    · simp [hc] at h; exact hw.range c q h

theorem parentBody_idx (s : Store) (v : Nat) (np : Option Nat) :
    (parentBody s v np).2 = (s.parent v).map fun p => (s.children p).idxOf v := by
  unfold parentBody
  cases hc : s.parent v <;> cases np <;> rfl

/-- C02 for the parent setter: executing the `except` branch after the body restores the store -/
theorem parentRollback_id {s : Store} (hw : WF s) (v : Nat) (np : Option Nat) :
    parentRollback (parentBody s v np).1 v np (s.parent v) (parentBody s v np).2 = s := by
  rw [parentBody_idx, parentBody_eq]
  unfold parentRollback
  have hA : ∀ q, ((reparent s v (some q)).setC q (((reparent s v (some q)).children q).erase v)).children
      = fun x => if s.parent v = some x then (s.children x).erase v else s.children x := by
    intro q; funext x
    simp only [setC_children, reparent_children]
    by_cases hx : x = q
    · subst hx; simp [erase_append_self _ _ (not_mem_ch1 hw v x)]
    · have : ¬ (some q = some x) := by simp; exact fun e => hx e.symm
      simp [hx, this]
  have hB : (reparent s v none).children
      = fun x => if s.parent v = some x then (s.children x).erase v else s.children x := by
    funext x; simp [reparent_children]
  have hP : ∀ (np : Option Nat) (x : Nat), (if x = v then s.parent v else if x = v then np else s.parent x) = s.parent x := by
    intro np x; by_cases e : x = v <;> simp [e]
  cases hc : s.parent v with
  | none =>
    cases np with
    | none =>
      apply ext' <;> try rfl
      · funext x; simpa [reparent_parent, hc] using hP none x
      · simp [hB, hc]
    | some q =>
      have h4 := hA q
      apply ext' <;> try rfl
      · funext x; simpa [reparent_parent, hc] using hP (some q) x
      · simp only [Option.map_none, setP_children]; rw [h4]; simp [hc]
  | some p =>
    have hv : v ∈ s.children p := hw.up v p hc
    have hfix : ∀ x, (if x = p then pyInsert ((s.children p).erase v) ((s.children p).idxOf v) v
        else if p = x then (s.children x).erase v else s.children x) = s.children x := by
      intro x
      by_cases hx : x = p
      · subst hx; simp [pyInsert_erase _ _ hv (hw.nodup x)]
      · have : ¬ p = x := fun e => hx e.symm
        simp [hx, this]
    cases np with
    | none =>
      apply ext' <;> try rfl
      · funext x; simpa [reparent_parent, hc] using hP none x
      · funext x; simp [hB, hc]; exact hfix x
    | some q =>
      have h4 := hA q
      apply ext' <;> try rfl
      · funext x; simpa [reparent_parent, hc] using hP (some q) x
      · funext x
        have hA' : ∀ y, (if y = q then ((s.reparent v (some q)).children q).erase v
            else (s.reparent v (some q)).children y)
            = if s.parent v = some y then (s.children y).erase v else s.children y := by
          intro y; have := congrFun h4 y; simpa using this
        simp only [Option.map_some, setC_children, setP_children, hA']
        simp [hc]; exact hfix x

/-! ## the children deleter -/

theorem foldl_detach (v : Nat) (l : List Nat) : ∀ (st : Store), st.children v = l → l.Nodup →
    (∀ c ∈ l, st.parent c = some v) →
    l.foldl detachStep st =
      { st with parent := fun x => if x ∈ l then none else st.parent x
                children := fun x => if x = v then [] else st.children x } := by
  induction l with
  | nil =>
    intro st hl _ _
    apply ext' <;> try rfl
    · funext x; by_cases hx : x = v
      · subst hx; simp [hl]
      · simp [hx]
  | cons c rest ih =>
    intro st hl hn hp
    have hc : st.parent c = some v := hp c List.mem_cons_self
    have hn' := List.nodup_cons.1 hn
    simp only [List.foldl_cons]
    have hstep : detachStep st c = (st.setC v rest).setP c none := by
      simp [detachStep, hc, hl]
    rw [hstep, ih]
    · apply ext' <;> try rfl
      · funext x
        simp only [setP_parent, setC_parent, List.mem_cons]
        by_cases hx : x = c
        · subst hx; simp
        · simp [hx]
      · funext x
        simp only [setP_children, setC_children]
        by_cases hx : x = v <;> simp [hx]
    · simp
    · exact hn'.2
    · intro c' hc'
      have : c' ≠ c := fun e => hn'.1 (e ▸ hc')
      simp [this, hp c' (List.mem_cons_of_mem _ hc')]

/-- closed form of `del v.children` -/
def detached (s : Store) (v : Nat) : Store :=
  { s with parent := fun x => if s.parent x = some v then none else s.parent x
           children := fun x => if x = v then [] else s.children x }

theorem delChildren_eq {s : Store} (hw : WF s) (v : Nat) : delChildren s v = detached s v := by
  unfold delChildren
  rw [foldl_detach v (s.children v) s rfl (hw.nodup v) (fun c hc => hw.down v c hc)]
  unfold detached
  apply ext' <;> try rfl
  funext x
  by_cases hx : s.parent x = some v
  · simp [hx, hw.up x v hx]
  · have : x ∉ s.children v := fun h => hx (hw.down v x h)
    simp [hx, this]

theorem wf_detached {s : Store} (hw : WF s) (v : Nat) : WF (detached s v) := by
  refine ⟨?_, ?_, ?_, ?_, ?_⟩
  · intro c q h
    simp only [detached] at h ⊢
    by_cases hc : s.parent c = some v
    · simp [hc] at h
    · simp only [if_neg hc] at h
      have hq : q ≠ v := fun e => hc (e ▸ h)
      simp [hq, hw.up c q h]
  · intro q c h
    simp only [detached] at h ⊢
    by_cases hq : q = v
    · simp [hq] at h
    · simp only [if_neg hq] at h
      have := hw.down q c h
      simp [this, hq]
  · intro q
    simp only [detached]
    by_cases hq : q = v
    · simp [hq]
    · simp [hq, hw.nodup q]
  · apply acyc_adopt s hw.acyc v (fun _ => False) (detached s v).parent
    · intro c hc; exact hc.elim
    · intro x q hx; exact hx.elim
    · intro x q _ h
      simp only [detached] at h
      by_cases hc : s.parent x = some v
      · simp [hc] at h
      · simpa [hc] using h
  · intro c q h
    simp only [detached] at h
    by_cases hc : s.parent c = some v
    · simp [hc] at h
    · simp only [if_neg hc] at h; exact hw.range c q h

/-! ## the children setter -/

/-- state of the stealing loop after the members of `D` have been processed (`L` = new list of `v`) -/
def stolenState (s1 : Store) (v : Nat) (L D : List Nat) : Store :=
  { s1 with parent := fun x => if x ∈ D then some v else s1.parent x
            children := fun x => if x = v then L else (s1.children x).filter fun y => !D.contains y }

theorem filter_not_contains_snoc (l D : List Nat) (c : Nat) :
    l.filter (fun y => !(D ++ [c]).contains y) = (l.filter fun y => !D.contains y).filter fun y => y != c := by
  rw [List.filter_filter]
  apply List.filter_congr
  intro y _
  simp only [List.contains_eq_mem, List.mem_append, List.mem_singleton]
  by_cases h1 : y ∈ D <;> by_cases h2 : y = c <;> simp [h1, h2]

theorem stealStep_stolenState (s1 : Store) (v : Nat) (L D : List Nat) (c : Nat)
    (hdown : ∀ p x, x ∈ s1.children p → s1.parent x = some p) (hnd : ∀ p, (s1.children p).Nodup)
    (hcD : c ∉ D) (hcv : s1.parent c ≠ some v) :
    stealStep v (stolenState s1 v L D) c = stolenState s1 v L (D ++ [c]) := by
  have hpc : (stolenState s1 v L D).parent c = s1.parent c := by simp [stolenState, hcD]
  unfold stealStep
  rw [hpc]
  have hfilt : ∀ x, s1.parent c ≠ some x →
      ((s1.children x).filter fun y => !(D ++ [c]).contains y) = (s1.children x).filter fun y => !D.contains y := by
    intro x hx
    apply List.filter_congr
    intro y hy
    have : y ≠ c := fun e => hx (e ▸ hdown x y hy)
    simp [this]
  have hpar : ∀ x, (if x = c then some v else if x ∈ D then some v else s1.parent x)
      = if x ∈ D ++ [c] then some v else s1.parent x := by
    intro x
    by_cases hx : x = c
    · simp [hx]
    · by_cases hD : x ∈ D <;> simp [hx, hD]
  cases hc : s1.parent c with
  | none =>
    apply ext' <;> try rfl
    · funext x; exact hpar x
    · funext x
      show (stolenState s1 v L D).children x = _
      simp only [stolenState]
      by_cases hx : x = v
      · simp [hx]
      · simp only [if_neg hx]; rw [hfilt x (by simp [hc])]
  | some p =>
    have hpv : p ≠ v := fun e => hcv (by rw [hc, e])
    apply ext' <;> try rfl
    · funext x; exact hpar x
    · funext x
      show (if x = p then ((stolenState s1 v L D).children p).erase c else (stolenState s1 v L D).children x) = _
      by_cases hx : x = p
      · subst hx
        simp only [stolenState, if_neg hpv, if_true]
        rw [filter_not_contains_snoc, ((hnd x).sublist List.filter_sublist).erase_eq_filter]
      · simp only [if_neg hx, stolenState]
        by_cases hxv : x = v
        · simp [hxv]
        · simp only [if_neg hxv]
          rw [hfilt x (by rw [hc]; simp; exact fun e => hx e.symm)]

theorem foldl_steal (s1 : Store) (v : Nat) (L : List Nat)
    (hdown : ∀ p x, x ∈ s1.children p → s1.parent x = some p) (hnd : ∀ p, (s1.children p).Nodup) :
    ∀ (rest D : List Nat), (D ++ rest).Nodup → (∀ c ∈ rest, s1.parent c ≠ some v) →
      rest.foldl (stealStep v) (stolenState s1 v L D) = stolenState s1 v L (D ++ rest) := by
  intro rest
  induction rest with
  | nil => intro D _ _; simp
  | cons c rest ih =>
    intro D hn hp
    have hcD : c ∉ D := by
      intro h
      have := (List.nodup_append.1 hn).2.2 c h c List.mem_cons_self
      exact this rfl
    simp only [List.foldl_cons]
    rw [stealStep_stolenState s1 v L D c hdown hnd hcD (hp c List.mem_cons_self)]
    have : D ++ c :: rest = (D ++ [c]) ++ rest := by simp
    rw [this]
    apply ih
    · rw [← this]; exact hn
    · intro c' hc'; exact hp c' (List.mem_cons_of_mem _ hc')

/-- closed form of the body of the children setter -/
def adopted (s : Store) (v : Nat) (cs : List Nat) : Store :=
  { s with parent := fun x => if x ∈ cs then some v else if s.parent x = some v then none else s.parent x
           children := fun x => if x = v then cs else (s.children x).filter fun y => !cs.contains y }

theorem childrenBody_eq {s : Store} (hw : WF s) (v : Nat) (cs : List Nat) (hn : cs.Nodup) :
    childrenBody s v cs = adopted s v cs := by
  unfold childrenBody
  rw [delChildren_eq hw]
  have hw1 := wf_detached hw v
  have h0 : (detached s v).setC v cs = stolenState (detached s v) v cs [] := by
    apply ext' <;> try rfl
    · funext x; simp only [stolenState, setC_children]
      by_cases hx : x = v
      · simp [hx]
      · simp only [if_neg hx]
        exact (List.filter_eq_self.2 (fun _ _ => rfl)).symm
  show List.foldl (stealStep v) ((detached s v).setC v cs) cs = _
  rw [h0, foldl_steal (detached s v) v cs hw1.down hw1.nodup cs [] (by simpa using hn)]
  · apply ext' <;> try rfl
    funext x
    simp only [stolenState, adopted, detached, List.nil_append]
    by_cases hx : x = v <;> simp [hx]
  · intro c _
    simp only [detached]
    by_cases h : s.parent c = some v <;> simp [h]

theorem wf_adopted {s : Store} (hw : WF s) (v : Nat) (cs : List Nat) (hv : v < s.n) (hn : cs.Nodup)
    (hcs : ∀ c ∈ cs, c < s.n ∧ ¬ Reach s c v) : WF (adopted s v cs) := by
  have hvcs : v ∉ cs := fun h => (hcs v h).2 (Reach.refl v)
  refine ⟨?_, ?_, ?_, ?_, ?_⟩
  · intro c q h
    simp only [adopted] at h ⊢
    by_cases hc : c ∈ cs
    · simp [hc] at h; subst h; simpa using hc
    · simp only [if_neg hc] at h
      by_cases hcv : s.parent c = some v
      · simp [hcv] at h
      · simp only [if_neg hcv] at h
        have hq : q ≠ v := fun e => hcv (e ▸ h)
        simp [hq, hw.up c q h, hc]
  · intro q c h
    simp only [adopted] at h ⊢
    by_cases hq : q = v
    · subst hq; simp at h; simp [h]
    · simp only [if_neg hq, List.mem_filter] at h
      have hc : c ∉ cs := by simpa using h.2
      have hp := hw.down q c h.1
      simp [hc, hp, hq]
  · intro q
    simp only [adopted]
    by_cases hq : q = v
    · simp [hq, hn]
    · simp only [if_neg hq]
      exact (hw.nodup q).sublist List.filter_sublist
  · apply acyc_adopt s hw.acyc v (fun x => x ∈ cs) (adopted s v cs).parent
    · intro c hc; exact (hcs c hc).2
    · intro x q hx h
      simp only [adopted] at h
      simp [hx] at h; exact h.symm
    · intro x q hx h
      simp only [adopted] at h
      simp only [if_neg hx] at h
      by_cases hxv : s.parent x = some v
      · simp [hxv] at h
      · simpa [hxv] using h
  · intro c q h
    simp only [adopted] at h
    by_cases hc : c ∈ cs
    · simp [hc] at h; subst h; exact ⟨(hcs c hc).1, hv⟩
    · simp only [if_neg hc] at h
      by_cases hcv : s.parent c = some v
      · simp [hcv] at h
      · simp only [if_neg hcv] at h; exact hw.range c q h

/-! ## sort, sep -/

theorem insertKey_perm {α : Type} (key : α → Nat) (x : α) (l : List α) : (insertKey key x l).Perm (x :: l) := by
  induction l with
  | nil => simp [insertKey]
  | cons y ys ih =>
    simp only [insertKey]
    split
    · exact List.Perm.refl _
    · exact (List.Perm.cons y ih).trans (List.Perm.swap x y ys)

theorem sortKey_perm {α : Type} (key : α → Nat) (l : List α) : (sortKey key l).Perm l := by
  induction l with
  | nil => simp [sortKey]
  | cons x xs ih =>
    simp only [sortKey, List.foldr_cons]
    exact (insertKey_perm key x _).trans (List.Perm.cons x ih)

theorem insertKey_pairwise {α : Type} (key : α → Nat) (x : α) (l : List α)
    (h : l.Pairwise fun a b => key a ≤ key b) : (insertKey key x l).Pairwise fun a b => key a ≤ key b := by
  induction l with
  | nil => simp [insertKey]
  | cons y ys ih =>
    simp only [insertKey]
    have h' := List.pairwise_cons.1 h
    split
    · rename_i hle
      refine List.pairwise_cons.2 ⟨?_, h⟩
      intro b hb
      rcases List.mem_cons.1 hb with hb | hb
      · subst hb; exact hle
      · exact Nat.le_trans hle (h'.1 b hb)
    · rename_i hle
      refine List.pairwise_cons.2 ⟨?_, ih h'.2⟩
      intro b hb
      rcases List.mem_cons.1 ((insertKey_perm key x ys).mem_iff.1 hb) with hb | hb
      · subst hb; omega
      · exact h'.1 b hb

theorem sortKey_pairwise {α : Type} (key : α → Nat) (l : List α) :
    (sortKey key l).Pairwise fun a b => key a ≤ key b := by
  induction l with
  | nil => simp [sortKey]
  | cons x xs ih =>
    simp only [sortKey, List.foldr_cons]
    exact insertKey_pairwise key x _ ih

theorem sortChildren_perm (s : Store) (v : Nat) (ranks : List Nat) (rev : Bool) :
    ((sortChildren s v ranks rev).children v).Perm (s.children v) := by
  simp only [sortChildren, setC_children, if_true]
  cases rev
  · simpa using sortKey_perm _ _
  · simp only [if_true]
    exact (List.reverse_perm _).trans ((sortKey_perm _ _).trans (List.reverse_perm _))

/-- replacing one child list by a permutation of itself keeps the forest -/
theorem wf_setC_perm {s : Store} (hw : WF s) (v : Nat) (l : List Nat) (hp : l.Perm (s.children v)) :
    WF (s.setC v l) := by
  refine ⟨?_, ?_, ?_, hw.acyc, hw.range⟩
  · intro c q h
    simp only [setC_children]
    by_cases hq : q = v
    · subst hq; simp; exact hp.mem_iff.2 (hw.up c q h)
    · simp [hq, hw.up c q h]
  · intro q c h
    simp only [setC_children] at h
    by_cases hq : q = v
    · subst hq; simp at h; exact hw.down q c (hp.mem_iff.1 h)
    · simp [hq] at h; exact hw.down q c h
  · intro q
    simp only [setC_children]
    by_cases hq : q = v
    · subst hq; simp; exact hp.nodup_iff.2 (hw.nodup q)
    · simp [hq, hw.nodup q]

theorem wf_sortChildren {s : Store} (hw : WF s) (v : Nat) (ranks : List Nat) (rev : Bool) :
    WF (sortChildren s v ranks rev) := by
  have h := sortChildren_perm s v ranks rev
  have e : sortChildren s v ranks rev = s.setC v ((sortChildren s v ranks rev).children v) := by
    simp [sortChildren]
  rw [e]; exact wf_setC_perm hw v _ h

theorem wf_setSep {s : Store} (hw : WF s) (v : Nat) (x : Str) : WF (setSep s v x) :=
  ⟨hw.up, hw.down, hw.nodup, hw.acyc, hw.range⟩

theorem wf_init (n : Nat) (names : Nat → Str) (sp : Str) : WF (init n names sp) := by
  refine ⟨?_, ?_, ?_, ?_, ?_⟩
  · intro c p h; simp [init] at h
  · intro p c h; simp [init] at h
  · intro p; simp [init]
  · intro v; constructor; intro q h; simp [IsParent, init] at h
  · intro c p h; simp [init] at h

end Store
