import BigtreeProofs.Lemmas.RenderHFits
/-!
# Horizontal rendering (`hyield_tree` / `_hprint_branch`): summary file

Tier 1 (proved in the imported files):
* `hblock_idx_lt` (RenderHPlace), `h_leaf_order_block` (RenderHPlace), `h_bands_block` (RenderHBands, under `HFits`).

Here:
* `h_bands_block_unpadded_false`: `h_bands_block` without `HFits` (arbitrary `pad`) is false (concrete witness);
* `h_bands_hyield`, `h_leaf_order_hyield`, `hplace_row_lt_hyield`: the statements for `hyieldTree` itself, where
  `HFits` holds by `HFits_padOf`; `h_bands_block_nointer`: any `pad` without intermediate names;
* Tier 2: `h_gap_assert`, `hblock_shape`, `h_parent_in_span` (with `childRows`, `hplace_head_row`).
-/

namespace Render

def cxStyle : HStyle := ⟨'a', 'b', 'c', 'd', 'e', '|', '-'⟩
def cxTree : HTree := .node ['x', 'y', 'z'] [.node ['q'] []]

theorem cx_block : (hblock cxStyle true (fun _ => 0) 1 cxTree).1 =
    [['-', ' ', 'x', 'y', 'z', ' ', '-', '-', '-', ' ', 'q']] := by decide

theorem cx_place : hplace cxStyle true (fun _ => 0) 1 0 cxTree =
    [⟨1, 0, false, ['x', 'y', 'z']⟩, ⟨2, 0, true, ['q']⟩] := by decide

/-- the statement of `h_bands_block` without `HFits` (arbitrary `pad`) is false: `center` leaves a name
    longer than the padding unchanged, so the band of the root is wider than `bandWidth` -/
theorem h_bands_block_unpadded_false :
    ¬ (∀ (S : HStyle) (inter : Bool) (pad : Nat → Nat) (d : Nat) (t : HTree),
      ∀ p ∈ hplace S inter pad d 0 t,
        d ≤ p.depth ∧
        ∃ row, (hblock S inter pad d t).1[p.row]? = some row ∧
          hlabel S inter pad p.depth p.name p.isLeaf <+: row.drop (hcol inter pad d (p.depth - d)) ∧
          (p.isLeaf = true → row.drop (hcol inter pad d (p.depth - d)) = hlabel S inter pad p.depth p.name true)) := by
  intro h
  have := h cxStyle true (fun _ => 0) 1 cxTree ⟨2, 0, true, ['q']⟩ (by rw [cx_place]; simp)
  obtain ⟨_, row, hrow, hpre, _⟩ := this
  rw [cx_block] at hrow
  simp only [List.getElem?_cons_zero, Option.some.injEq] at hrow
  subst hrow
  revert hpre
  decide

/-! ### the statements for `hyield_tree` itself (no side condition) -/

/-- `h_bands` for the rows `hyield_tree` returns -/
theorem h_bands_hyield (S : HStyle) (inter : Bool) (md : Nat) (t : HTree) :
    let t' := hprune md t
    let pad := padOf inter t'
    ∀ p ∈ hplace S inter pad 1 0 t',
      1 ≤ p.depth ∧
      ∃ row, (hyieldTree S inter md t)[p.row]? = some row ∧
        hlabel S inter pad p.depth p.name p.isLeaf <+: row.drop (hcol inter pad 1 (p.depth - 1)) ∧
        (p.isLeaf = true → row.drop (hcol inter pad 1 (p.depth - 1)) = hlabel S inter pad p.depth p.name true) := by
  intro t' pad
  exact h_bands_block S inter pad 1 t' (HFits_padOf inter t')

/-- `h_bands` without intermediate node names: any `pad` -/
theorem h_bands_block_nointer (S : HStyle) (pad : Nat → Nat) (d : Nat) (t : HTree) :
    ∀ p ∈ hplace S false pad d 0 t,
      d ≤ p.depth ∧
      ∃ row, (hblock S false pad d t).1[p.row]? = some row ∧
        hlabel S false pad p.depth p.name p.isLeaf <+: row.drop (hcol false pad d (p.depth - d)) ∧
        (p.isLeaf = true → row.drop (hcol false pad d (p.depth - d)) = hlabel S false pad p.depth p.name true) :=
  h_bands_block S false pad d t (HFits_false pad d t)

/-- `h_leaf_order` for `hyield_tree` -/
theorem h_leaf_order_hyield (S : HStyle) (inter : Bool) (md : Nat) (t : HTree) :
    (((hplace S inter (padOf inter (hprune md t)) 1 0 (hprune md t)).filter (·.isLeaf)).map (·.row)).Pairwise
      (· < ·) :=
  h_leaf_order_block S inter _ 1 _

/-- every placement row is a row of the output of `hyield_tree` -/
theorem hplace_row_lt_hyield (S : HStyle) (inter : Bool) (md : Nat) (t : HTree) :
    ∀ p ∈ hplace S inter (padOf inter (hprune md t)) 1 0 (hprune md t),
      p.row < (hyieldTree S inter md t).length :=
  hplace_row_lt S inter _ 1 _

/-! ### Tier 2 -/

/-- the Python `assert len(result) == 2` in the gap case can never fail -/
theorem h_gap_assert (S : HStyle) (inter : Bool) (pad : Nat → Nat) (d : Nat) (a b : HTree) :
    gapInserted (hblockL S inter pad d [a, b]) = true →
      ((hblockL S inter pad d [a, b]).flatMap (·.1)).length = 2 := by
  intro h
  simp only [hblockL] at h ⊢
  obtain ⟨ra, rb, ha, hb⟩ := gap_shape _ _ ((hblock_inv S inter pad).1 d a) ((hblock_inv S inter pad).1 d b) h
  simp [ha, hb]

/-- the invariant behind it: a block is one row (the node's own), or the node's row is strictly inside -/
theorem hblock_shape (S : HStyle) (inter : Bool) (pad : Nat → Nat) (d : Nat) (t : HTree) :
    ((hblock S inter pad d t).1.length = 1 ∧ (hblock S inter pad d t).2 = 0) ∨
    (0 < (hblock S inter pad d t).2 ∧ (hblock S inter pad d t).2 + 1 < (hblock S inter pad d t).1.length) :=
  (hblock_inv S inter pad).1 d t


/-- rows (inside the parent's block, first row `off`) at which the children themselves are placed -/
def childRows (S : HStyle) (inter : Bool) (pad : Nat → Nat) (d off : Nat) (gap : Bool) : List HTree → List Nat
  | [] => []
  | c :: cs =>
    (off + (hblock S inter pad d c).2) ::
      childRows S inter pad d (off + (hblock S inter pad d c).1.length + (if gap then 1 else 0)) gap cs

/-- `childRows` lists the rows of the head entries of the children's placement lists: the first entry of
    `hplace … d off c` (the child itself) sits at `off + idx`, and `hplaceL` moves `off` exactly as
    `childRows` does -/
theorem hplace_head_row (S : HStyle) (inter : Bool) (pad : Nat → Nat) (d off : Nat) (t : HTree) :
    (hplace S inter pad d off t).head?.map (·.row) = some (off + (hblock S inter pad d t).2) := by
  cases t with
  | hole => simp [hplace, hblock]
  | node n cs =>
    by_cases h : (!cs.any HTree.isReal) = true
    · rw [hblock_leaf _ _ _ _ _ _ h]
      simp only [Bool.not_eq_eq_eq_not, Bool.not_true] at h
      simp [hplace, h]
    · simp only [Bool.not_eq_eq_eq_not, Bool.not_true, Bool.not_eq_false] at h
      simp [hplace, h]

theorem childRows_false (S : HStyle) (inter : Bool) (pad : Nat → Nat) (d : Nat) (cs : List HTree) :
    ∀ off, childRows S inter pad d off false cs = bIdx off (hblockL S inter pad d cs) := by
  induction cs with
  | nil => intro off; simp [childRows, hblockL]
  | cons c cs ih =>
    intro off
    simp only [childRows, hblockL, bIdx_cons]
    rw [ih]; simp [Nat.add_comm]

theorem assemble_idx (S : HStyle) (ns : Str) (ps : List (List Str × Nat)) (hne : ps ≠ [])
    (hgap : gapInserted ps = false) : (assemble S ns ps).2 = aMid ps := by
  match ps, hne, hgap with
  | [a], _, _ => rw [assemble_one]; simp only [aMid, aFirst_cons, aLast_one]; congr 2; omega
  | [a, b], _, hgap =>
    rw [assemble_two_nogap S ns a b hgap]
    simp only [aMid, aFirst_cons, aLast_cons, aLast_one]
  | a :: b :: c :: r, _, _ => rw [assemble_many]

theorem aFirst_le_aLast (ps : List (List Str × Nat)) (hne : ps ≠ []) (hg : Good ps) :
    aFirst ps ≤ aLast ps := by
  match ps, hne, hg with
  | [a], _, _ => simp
  | a :: b :: r, _, hg =>
    have := hg a (by simp)
    rw [aLast_cons, aFirst_cons]; omega

theorem aFirst_add_two_le_aLast (ps : List (List Str × Nat)) (hg : Good ps) (h2 : 2 ≤ ps.length)
    (hgap : gapInserted ps = false) : aFirst ps + 2 ≤ aLast ps := by
  match ps, hg, h2, hgap with
  | [a, b], hg, _, hgap =>
    have := hg a (by simp)
    simp only [gapInserted, beq_eq_false_iff_ne, ne_eq] at hgap
    simp only [aLast_cons, aLast_one, aFirst_cons]; omega
  | a :: b :: c :: r, hg, _, _ =>
    have ha := hg a (by simp)
    have hb := hg b (by simp)
    rw [aLast_cons, aLast_cons, aFirst_cons]; omega

theorem gap_two (S : HStyle) (inter : Bool) (pad : Nat → Nat) (d : Nat) (cs : List HTree)
    (h : gapInserted (hblockL S inter pad d cs) = true) : ∃ a b, cs = [a, b] := by
  match cs, h with
  | [a, b], _ => exact ⟨a, b, rfl⟩
  | [], h => simp [hblockL, gapInserted] at h
  | [a], h => simp [hblockL, gapInserted] at h
  | a :: b :: c :: r, h => simp [hblockL, gapInserted] at h

theorem hblockL_length (S : HStyle) (inter : Bool) (pad : Nat → Nat) (d : Nat) (cs : List HTree) :
    (hblockL S inter pad d cs).length = cs.length := by
  induction cs with
  | nil => simp [hblockL]
  | cons c cs ih => simp [hblockL, ih]

/-- Tier 2 `h_parent_in_span`: the row of an inner node lies between the rows of its first and its last
    child (strictly, when it has at least two child slots) -/
theorem h_parent_in_span (S : HStyle) (inter : Bool) (pad : Nat → Nat) (d : Nat) (n : Str) (cs : List HTree)
    (h : cs.any HTree.isReal = true) (f l : Nat)
    (hf : (childRows S inter pad (d + 1) 0 (gapInserted (hblockL S inter pad (d + 1) cs)) cs).head? = some f)
    (hl : (childRows S inter pad (d + 1) 0 (gapInserted (hblockL S inter pad (d + 1) cs)) cs).getLast? = some l) :
    f ≤ (hblock S inter pad d (.node n cs)).2 ∧ (hblock S inter pad d (.node n cs)).2 ≤ l ∧
    (2 ≤ cs.length → f < (hblock S inter pad d (.node n cs)).2 ∧ (hblock S inter pad d (.node n cs)).2 < l) := by
  have h' : ¬(!cs.any HTree.isReal) = true := by simp [h]
  have hne := hblockL_ne S inter pad (d + 1) cs h'
  have hinv := (hblock_inv S inter pad).2 (d + 1) cs
  have hg := good_of_inv _ hinv
  rw [hblock_inner _ _ _ _ _ _ h']
  cases hgap : gapInserted (hblockL S inter pad (d + 1) cs) with
  | false =>
    rw [hgap, childRows_false] at hf hl
    rw [assemble_idx _ _ _ hne hgap]
    rw [bIdx_getLast _ hne] at hl
    have hf' : f = aFirst (hblockL S inter pad (d + 1) cs) := by
      cases hps : hblockL S inter pad (d + 1) cs with
      | nil => exact absurd hps hne
      | cons p ps => rw [hps] at hf; simpa using hf.symm
    have hl' : l = aLast (hblockL S inter pad (d + 1) cs) := by simpa using hl.symm
    have h1 := aFirst_le_aLast _ hne hg
    subst hf' hl'
    refine ⟨by unfold aMid; omega, by unfold aMid; omega, fun h2 => ?_⟩
    have hlen := hblockL_length S inter pad (d + 1) cs
    have := aFirst_add_two_le_aLast _ hg (by omega) hgap
    unfold aMid; omega
  | true =>
    obtain ⟨a, b, rfl⟩ := gap_two S inter pad (d + 1) cs hgap
    rw [hgap] at hf hl
    simp only [hblockL] at hgap hinv ⊢
    obtain ⟨ra, rb, ha, hb⟩ := gap_shape _ _ (hinv _ (by simp)) (hinv _ (by simp)) hgap
    simp only [childRows, ha, hb] at hf hl
    simp at hf hl
    subst hf hl
    rw [ha, hb, assemble_two_gap]
    simp


/-! ### non-vacuity -/

/-- the gap case is reachable: two leaves under one parent -/
example : gapInserted (hblockL cxStyle true (fun _ => 1) 2 [.node ['q'] [], .node ['r'] []]) = true := by decide

/-- `HFits` is satisfiable with intermediate names on a tree with an inner node -/
example : HFits true (fun _ => 3) 1 cxTree := by
  simp [cxTree, HFits, HFitsL]

/-- an inner node with three children, one of them inner: parent row strictly inside the span -/
example : (hblock cxStyle false (fun _ => 0) 1
    (.node ['r'] [.node ['a'] [], .node ['b'] [.node ['c'] [], .node ['d'] []], .hole])).2 = 2 := by decide

end Render
