import BigtreeModel.Str
/-!
# String lemmas for the path constructors (C05): split ∘ join, strip of leading/trailing separators

All statements are about a single-character separator `c` that occurs in no name.
Core Lean only.
-/

namespace Str

/-! ## `splitC` -/

theorem splitC_ne_nil (c : Char) (s : Str) : splitC c s ≠ [] := by
  induction s with
  | nil => simp [splitC]
  | cons x xs ih =>
    unfold splitC
    split
    · simp
    · split
      · simp
      · simp

/-- a piece free of the separator, followed by the separator -/
theorem splitC_append_sep (c : Char) (a s : Str) (ha : c ∉ a) :
    splitC c (a ++ c :: s) = a :: splitC c s := by
  induction a with
  | nil => simp [splitC]
  | cons x xs ih =>
    have hx : x ≠ c := fun h => ha (by simp [h])
    have hxs : c ∉ xs := fun h => ha (by simp [h])
    simp only [List.cons_append, splitC, hx, if_false, ih hxs]

theorem splitC_free (c : Char) (a : Str) (ha : c ∉ a) : splitC c a = [a] := by
  induction a with
  | nil => simp [splitC]
  | cons x xs ih =>
    have hx : x ≠ c := fun h => ha (by simp [h])
    have hxs : c ∉ xs := fun h => ha (by simp [h])
    simp only [splitC, hx, if_false, ih hxs]

/-- `split` inverts `join` on separator-free pieces -/
theorem splitC_join (c : Char) : ∀ (l : List Str), l ≠ [] → (∀ x ∈ l, c ∉ x) →
    splitC c (join [c] l) = l := by
  intro l
  induction l with
  | nil => intro h; exact absurd rfl h
  | cons a rest ih =>
    intro _ hfree
    cases rest with
    | nil => simpa [join] using splitC_free c a (hfree a (by simp))
    | cons b rest' =>
      have : join [c] (a :: b :: rest') = a ++ c :: join [c] (b :: rest') := by simp [join]
      rw [this, splitC_append_sep c a _ (hfree a (by simp)),
        ih (by simp) (fun x hx => hfree x (List.mem_cons_of_mem _ hx))]

/-- `join` is injective on non-empty lists of separator-free pieces -/
theorem join_inj (c : Char) (l1 l2 : List Str) (h1 : l1 ≠ []) (h2 : l2 ≠ [])
    (f1 : ∀ x ∈ l1, c ∉ x) (f2 : ∀ x ∈ l2, c ∉ x) (h : join [c] l1 = join [c] l2) : l1 = l2 := by
  rw [← splitC_join c l1 h1 f1, ← splitC_join c l2 h2 f2, h]

/-! ## the general `split` on a one-character separator is `splitC` -/

theorem isPrefixOf_single (c x : Char) (xs : Str) : [c].isPrefixOf (x :: xs) = (c == x) := by
  simp [List.isPrefixOf]

theorem splitGo_single (c : Char) : ∀ (s : Str) (f : Nat) (cur : Str), s.length < f →
    splitGo [c] f s cur =
      (match splitC c s with
       | [] => [cur.reverse]
       | p :: ps => (cur.reverse ++ p) :: ps) := by
  intro s
  induction s with
  | nil =>
    intro f cur hf
    cases f with
    | zero => simp at hf
    | succ f => simp [splitGo, splitC]
  | cons x xs ih =>
    intro f cur hf
    cases f with
    | zero => simp at hf
    | succ f =>
      have hf' : xs.length < f := by simpa using hf
      unfold splitGo
      rw [isPrefixOf_single]
      by_cases hx : x = c
      · subst hx
        simp only [beq_self_eq_true, if_true, List.length_singleton, List.drop_succ_cons, List.drop_zero,
          splitC]
        rw [ih f [] hf']
        cases hsp : splitC x xs with
        | nil => exact absurd hsp (splitC_ne_nil x xs)
        | cons p ps => simp
      · have hcx : (c == x) = false := by simp [Ne.symm hx]
        simp only [hcx, Bool.false_eq_true, if_false, splitC, hx]
        rw [ih f (x :: cur) hf']
        cases hsp : splitC c xs with
        | nil => exact absurd hsp (splitC_ne_nil c xs)
        | cons p ps => simp

theorem split_single (c : Char) (s : Str) : split [c] s = splitC c s := by
  unfold split
  rw [splitGo_single c s _ [] (by omega)]
  cases hsp : splitC c s with
  | nil => exact absurd hsp (splitC_ne_nil c s)
  | cons p ps => simp

/-! ## stripping -/

theorem contains_single (c x : Char) : [c].contains x = (x == c) := by
  by_cases h : x = c <;> simp [h]
theorem lstrip_allC (c : Char) (lead s : Str) (h : ∀ x ∈ lead, x = c) :
    lstrip [c] (lead ++ s) = lstrip [c] s := by
  induction lead with
  | nil => rfl
  | cons x xs ih =>
    have hx : x = c := h x (by simp)
    simp only [List.cons_append, lstrip, contains_single, hx, beq_self_eq_true, if_true]
    exact ih (fun y hy => h y (List.mem_cons_of_mem _ hy))

theorem lstrip_allC_nil (c : Char) (lead : Str) (h : ∀ x ∈ lead, x = c) : lstrip [c] lead = [] := by
  have := lstrip_allC c lead [] h
  simpa [lstrip] using this

theorem lstrip_head (c : Char) (s : Str) (h : s.head? ≠ some c) : lstrip [c] s = s := by
  cases s with
  | nil => rfl
  | cons x xs =>
    have hx : x ≠ c := fun e => h (by simp [e])
    simp [lstrip, hx]
/-- leading and trailing separators are removed, nothing else -/
theorem strip_pad (c : Char) (lead body trail : Str) (hl : ∀ x ∈ lead, x = c) (ht : ∀ x ∈ trail, x = c)
    (hh : body.head? ≠ some c) (hlast : body.getLast? ≠ some c) :
    strip [c] (lead ++ body ++ trail) = body := by
  unfold strip rstrip
  rw [List.append_assoc, lstrip_allC c lead _ hl]
  cases body with
  | nil =>
    simp only [List.nil_append]
    rw [lstrip_allC_nil c trail ht]
    simp [lstrip]
  | cons b bs =>
    have h1 : lstrip [c] (b :: bs ++ trail) = b :: bs ++ trail := lstrip_head c _ (by simpa using hh)
    have h2 : lstrip [c] (trail.reverse ++ (b :: bs).reverse) = (b :: bs).reverse := by
      rw [lstrip_allC c trail.reverse _ (fun x hx => ht x (by simpa using hx))]
      exact lstrip_head c _ (by rw [List.head?_reverse]; exact hlast)
    rw [h1, List.reverse_append, h2, List.reverse_reverse]
theorem head?_join (c : Char) (a : Str) (rest : List Str) (ha : a ≠ []) :
    (join [c] (a :: rest)).head? = a.head? := by
  cases rest with
  | nil => rfl
  | cons b rest' =>
    cases a with
    | nil => exact absurd rfl ha
    | cons x xs => simp [join]

theorem getLast?_join (c : Char) : ∀ (l : List Str) (z : Str), l.getLast? = some z → z ≠ [] →
    (join [c] l).getLast? = z.getLast? := by
  intro l
  induction l with
  | nil => intro z h; simp at h
  | cons a rest ih =>
    intro z hz hne
    cases rest with
    | nil => simp at hz; subst hz; rfl
    | cons b rest' =>
      have hz' : (b :: rest').getLast? = some z := by simpa [List.getLast?_cons_cons] using hz
      have := ih z hz' hne
      have hj : join [c] (a :: b :: rest') = a ++ ([c] ++ join [c] (b :: rest')) := by simp [join]
      rw [hj, List.getLast?_append, List.getLast?_append, this]
      cases z with
      | nil => exact absurd rfl hne
      | cons x xs =>
        obtain ⟨y, hy⟩ : ∃ y, (x :: xs).getLast? = some y := ⟨(x :: xs).getLast (by simp), List.getLast?_eq_some_getLast _⟩
        rw [hy]; rfl
/-- stripping a written path leaves the joined components -/
theorem strip_lead_join_trail (c : Char) (lead trail : Str) (l : List Str) (hne : l ≠ [])
    (hl : ∀ x ∈ lead, x = c) (ht : ∀ x ∈ trail, x = c) (hfree : ∀ x ∈ l, x ≠ [] ∧ c ∉ x) :
    strip [c] (lead ++ join [c] l ++ trail) = join [c] l := by
  apply strip_pad c lead _ trail hl ht
  · cases l with
    | nil => exact absurd rfl hne
    | cons a rest =>
      rw [head?_join c a rest (hfree a (by simp)).1]
      intro e
      have := (hfree a (by simp)).2
      cases a with
      | nil => simp at e
      | cons x xs => simp at e; subst e; exact this (by simp)
  · obtain ⟨z, hz⟩ : ∃ z, l.getLast? = some z := by
      cases h : l.getLast? with
      | none => simp at h; exact absurd h hne
      | some z => exact ⟨z, rfl⟩
    have hzl : z ∈ l := List.mem_of_getLast? hz
    rw [getLast?_join c l z hz (hfree z hzl).1]
    intro e
    exact (hfree z hzl).2 (List.mem_of_getLast? e)

/-- Reading a path: whatever separators lead or trail, the components come back. -/
theorem split_strip_join (c : Char) (lead trail : Str) (l : List Str) (hne : l ≠ [])
    (hl : ∀ x ∈ lead, x = c) (ht : ∀ x ∈ trail, x = c) (hfree : ∀ x ∈ l, x ≠ [] ∧ c ∉ x) :
    split [c] (strip [c] (lead ++ join [c] l ++ trail)) = l := by
  rw [split_single]
  have hbody : strip [c] (lead ++ join [c] l ++ trail) = join [c] l := by
    apply strip_pad c lead _ trail hl ht
    · cases l with
      | nil => exact absurd rfl hne
      | cons a rest =>
        rw [head?_join c a rest (hfree a (by simp)).1]
        intro e
        have := (hfree a (by simp)).2
        cases a with
        | nil => simp at e
        | cons x xs => simp at e; subst e; exact this (by simp)
    · obtain ⟨z, hz⟩ : ∃ z, l.getLast? = some z := by
        cases h : l.getLast? with
        | none => simp at h; exact absurd h hne
        | some z => exact ⟨z, rfl⟩
      have hzl : z ∈ l := List.mem_of_getLast? hz
      rw [getLast?_join c l z hz (hfree z hzl).1]
      intro e
      exact (hfree z hzl).2 (List.mem_of_getLast? e)
  rw [hbody, splitC_join c l hne (fun x hx => (hfree x hx).2)]

end Str
