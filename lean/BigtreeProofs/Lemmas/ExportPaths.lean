import BigtreeProofs.Lemmas.ExportBasic
/-! Helper lemmas for C06: split / join / strip on paths, and the insertion fold that rebuilds a
tree from its pre-order list of (path, attributes). Core Lean only. -/

namespace Export

/-! ### split / join / strip -/

theorem splitC_nosep (c : Char) : ∀ (a : Str), c ∉ a → splitC c a = [a]
  | [], _ => rfl
  | x :: xs, h => by
    simp only [List.mem_cons, not_or] at h
    have hx : ¬ x = c := fun e => h.1 e.symm
    simp [splitC, hx, splitC_nosep c xs h.2]

theorem splitC_append_sep (c : Char) (r : Str) : ∀ (a : Str), c ∉ a → splitC c (a ++ c :: r) = a :: splitC c r
  | [], _ => by simp [splitC]
  | x :: xs, h => by
    simp only [List.mem_cons, not_or] at h
    have hx : ¬ x = c := fun e => h.1 e.symm
    simp [splitC, hx, splitC_append_sep c r xs h.2]

theorem splitC_joinC (c : Char) : ∀ (xs : List Str), xs ≠ [] → (∀ x ∈ xs, c ∉ x) → splitC c (joinC c xs) = xs
  | [], h, _ => absurd rfl h
  | [a], _, hs => by simpa [joinC] using splitC_nosep c a (hs a (by simp))
  | a :: b :: rest, _, hs => by
    rw [joinC, splitC_append_sep c _ a (hs a (by simp)),
      splitC_joinC c (b :: rest) (by simp) (fun x hx => hs x (by simp [hx]))]

theorem joinC_head (c : Char) (x : Str) (rest : List Str) (ch : Char) (x' : Str) (hx : x = ch :: x') :
    ∃ tl, joinC c (x :: rest) = ch :: tl := by
  subst hx
  cases rest with
  | nil => exact ⟨x', rfl⟩
  | cons b r => exact ⟨x' ++ c :: joinC c (b :: r), by simp [joinC]⟩

theorem joinC_last (c : Char) : ∀ (xs : List Str), xs ≠ [] → (∀ x ∈ xs, x ≠ [] ∧ c ∉ x) →
    ∃ pre ch, joinC c xs = pre ++ [ch] ∧ ch ≠ c
  | [], h, _ => absurd rfl h
  | [a], _, hs => by
    obtain ⟨hne, hc⟩ := hs a (by simp)
    rcases List.eq_nil_or_concat a with h | ⟨pre, ch, h⟩
    · exact absurd h hne
    · refine ⟨pre, ch, by simpa [joinC] using h, ?_⟩
      intro e
      apply hc
      rw [h, e]; simp
  | a :: b :: rest, _, hs => by
    obtain ⟨pre, ch, h, hne⟩ := joinC_last c (b :: rest) (by simp) (fun x hx => hs x (by simp [hx]))
    exact ⟨a ++ c :: pre, ch, by simp [joinC, h], hne⟩

theorem rstripC_concat (c ch : Char) (pre : Str) (h : ch ≠ c) : rstripC c (pre ++ [ch]) = pre ++ [ch] := by
  simp [rstripC, h]

theorem lstripC_cons (c ch : Char) (tl : Str) (h : ch ≠ c) : lstripC c (ch :: tl) = ch :: tl := by
  have h' : (ch == c) = false := by simp [h]
  simp [lstripC, h']

/-- stripping and splitting a `path_name` gives back the names -/
theorem split_strip_path (c : Char) (xs : List Str) (hne : xs ≠ []) (hs : ∀ x ∈ xs, x ≠ [] ∧ c ∉ x) :
    splitC c (stripC c (c :: joinC c xs)) = xs := by
  have h1 : stripC c (c :: joinC c xs) = joinC c xs := by
    obtain ⟨pre, ch, hj, hch⟩ := joinC_last c xs hne hs
    cases xs with
    | nil => exact absurd rfl hne
    | cons x rest =>
      obtain ⟨hx, hxc⟩ := hs x (by simp)
      cases x with
      | nil => exact absurd rfl hx
      | cons x0 x' =>
        obtain ⟨tl, htl⟩ := joinC_head c (x0 :: x') rest x0 x' rfl
        have hx0 : x0 ≠ c := by
          intro e; apply hxc; simp [e]
        unfold stripC
        have : lstripC c (c :: joinC c ((x0 :: x') :: rest)) = joinC c ((x0 :: x') :: rest) := by
          rw [htl]
          have hcc : (c == c) = true := by simp
          rw [lstripC, List.dropWhile_cons, hcc]
          exact lstripC_cons c x0 tl hx0
        rw [this, hj, rstripC_concat c ch pre hch]
  rw [h1, splitC_joinC c xs hne (fun x hx => (hs x hx).2)]

/-! ### insertion below a node -/

theorem insertAt_name (a : Attrs) : ∀ (p : List Str) (t : Tree), (insertAt a p t).name = t.name
  | [], .node _ _ _ _ => by simp [insertAt]
  | _ :: _, .node _ _ _ _ => by simp [insertAt]

theorem insertIn_not_mem (a : Attrs) (c : Str) (rest : List Str) : ∀ (cs : List Tree),
    (∀ t ∈ cs, t.name ≠ c) → insertIn a c rest cs = cs ++ [mkChain a c rest]
  | [], _ => by simp [insertIn]
  | t :: ts, h => by
    have ht : ¬ t.name = c := h t (by simp)
    simp [insertIn, ht, insertIn_not_mem a c rest ts (fun u hu => h u (by simp [hu]))]

theorem insertIn_last (a : Attrs) (c : Str) (rest : List Str) (x : Tree) (hx : x.name = c) :
    ∀ (cs : List Tree), (∀ t ∈ cs, t.name ≠ c) → insertIn a c rest (cs ++ [x]) = cs ++ [insertAt a rest x]
  | [], _ => by simp [insertIn, hx]
  | t :: ts, h => by
    have ht : ¬ t.name = c := h t (by simp)
    simp [insertIn, ht, insertIn_last a c rest x hx ts (fun u hu => h u (by simp [hu]))]

/-- the loop of `add_path_to_tree` over a list of (relative components, attributes) -/
def foldAt (t : Tree) (es : List (List Str × Attrs)) : Tree := es.foldl (fun t e => insertAt e.2 e.1 t) t

theorem foldAt_nil (t : Tree) : foldAt t [] = t := rfl
theorem foldAt_cons (t : Tree) (e : List Str × Attrs) (es : List (List Str × Attrs)) :
    foldAt t (e :: es) = foldAt (insertAt e.2 e.1 t) es := rfl
theorem foldAt_append (t : Tree) (e₁ e₂ : List (List Str × Attrs)) :
    foldAt t (e₁ ++ e₂) = foldAt (foldAt t e₁) e₂ := by simp [foldAt]

theorem foldAt_name (es : List (List Str × Attrs)) : ∀ (t : Tree), (foldAt t es).name = t.name := by
  induction es with
  | nil => intro t; rfl
  | cons e es ih => intro t; rw [foldAt_cons, ih, insertAt_name]

/-- insertions that all pass through the last child `x` act on `x` alone -/
theorem foldAt_lift (i : Nat) (n : Str) (at' : Attrs) (cs0 : List Tree) (m : Str)
    (h0 : ∀ t ∈ cs0, t.name ≠ m) (es : List (List Str × Attrs)) : ∀ (x : Tree), x.name = m →
    foldAt (.node i n at' (cs0 ++ [x])) (es.map fun e => (m :: e.1, e.2))
      = .node i n at' (cs0 ++ [foldAt x es]) := by
  induction es with
  | nil => intro x _; rfl
  | cons e es ih =>
    intro x hx
    rw [List.map_cons, foldAt_cons, foldAt_cons]
    simp only [insertAt]
    rw [insertIn_last e.2 m e.1 x hx cs0 h0, ih (insertAt e.2 e.1 x) (by rw [insertAt_name, hx])]

/-! ### the pre-order entry list of a tree, relative to its parent -/

mutual
/-- (names from this node down to the entry's node, `describe` of its attributes), pre-order -/
def entries (g : Attrs → Attrs) : Tree → List (List Str × Attrs)
  | .node _ n a cs => ([n], g a) :: (entriesL g cs).map fun e => (n :: e.1, e.2)
def entriesL (g : Attrs → Attrs) : List Tree → List (List Str × Attrs)
  | [] => []
  | t :: ts => entries g t ++ entriesL g ts
end

theorem canon_name (g : Attrs → Attrs) : ∀ (t : Tree), (canonWith g t).name = t.name
  | .node _ _ _ _ => by simp [canonWith]

theorem canonL_names (g : Attrs → Attrs) : ∀ (ts : List Tree), (canonWithL g ts).map Tree.name = ts.map Tree.name
  | [] => by simp [canonWithL]
  | t :: ts => by simp [canonWithL, canon_name, canonL_names g ts]

theorem canonL_append (g : Attrs → Attrs) : ∀ (a b : List Tree), canonWithL g (a ++ b) = canonWithL g a ++ canonWithL g b
  | [], b => by simp [canonWithL]
  | t :: ts, b => by simp [canonWithL, canonL_append g ts b]

theorem allNodes_node (P : Tree → Prop) (i n a cs) :
    AllNodes P (.node i n a cs) ↔ P (.node i n a cs) ∧ AllNodesL P cs := by
  rw [AllNodes]

theorem allNodesL_cons (P : Tree → Prop) (t ts) : AllNodesL P (t :: ts) ↔ AllNodes P t ∧ AllNodesL P ts := by
  rw [AllNodesL]

mutual
/-- inserting the entries of `u` below a node that has no child of that name appends `canon u` -/
theorem foldAt_entries (g : Attrs → Attrs) (hg : ∀ a, (a.map Prod.fst).Nodup → ((g a).map Prod.fst).Nodup) :
    ∀ (u : Tree) (i : Nat) (n : Str) (at' : Attrs) (cs0 : List Tree),
    (∀ c ∈ cs0, c.name ≠ u.name) → AllNodes NodeOK u →
    foldAt (.node i n at' cs0) (entries g u) = .node i n at' (cs0 ++ [canonWith g u])
  | .node j m b ds, i, n, at', cs0, h0, hu => by
    rw [allNodes_node] at hu
    obtain ⟨⟨_, hkeys, hnames⟩, hds⟩ := hu
    simp only [Tree.attrs_node, Tree.children_node, Tree.name_node] at hkeys hnames h0
    rw [entries, foldAt_cons]
    simp only [insertAt]
    rw [insertIn_not_mem (g b) m [] cs0 h0]
    simp only [mkChain]
    rw [dupdate_self (g b) (hg b hkeys)]
    rw [foldAt_lift i n at' cs0 m h0 (entriesL g ds) (.node 0 m (g b) []) rfl]
    rw [foldAt_entriesL g hg ds 0 m (g b) [] (by simp) hnames hds]
    simp [canonWith]
theorem foldAt_entriesL (g : Attrs → Attrs) (hg : ∀ a, (a.map Prod.fst).Nodup → ((g a).map Prod.fst).Nodup) :
    ∀ (ds : List Tree) (i : Nat) (n : Str) (at' : Attrs) (cs0 : List Tree),
    (∀ c ∈ cs0, ∀ d ∈ ds, c.name ≠ d.name) → (ds.map Tree.name).Nodup → AllNodesL NodeOK ds →
    foldAt (.node i n at' cs0) (entriesL g ds) = .node i n at' (cs0 ++ canonWithL g ds)
  | [], i, n, at', cs0, _, _, _ => by simp [entriesL, canonWithL, foldAt_nil]
  | d :: ds, i, n, at', cs0, h0, hn, hds => by
    rw [allNodesL_cons] at hds
    simp only [List.map_cons, List.nodup_cons] at hn
    rw [entriesL, foldAt_append, foldAt_entries g hg d i n at' cs0 (fun c hc => h0 c hc d (by simp)) hds.1]
    rw [foldAt_entriesL g hg ds i n at' (cs0 ++ [canonWith g d]) ?_ hn.2 hds.2]
    · simp [canonWithL]
    · intro c hc d' hd'
      rcases List.mem_append.mp hc with h | h
      · exact h0 c h d' (by simp [hd'])
      · simp only [List.mem_singleton] at h
        subst h
        rw [canon_name]
        intro e
        exact hn.1 (e ▸ List.mem_map.mpr ⟨d', hd', rfl⟩)
end

/-! ### entries and the context pre-order -/

mutual
theorem preCtx_entries (g : Attrs → Attrs) :
    ∀ (u : Tree) (anc : List Str),
    (preCtx anc u).map (fun x => (x.1 ++ [x.2.name], g x.2.attrs)) = (entries g u).map fun e => (anc ++ e.1, e.2)
  | .node j m b ds, anc => by
    rw [preCtx, entries, List.map_cons, List.map_cons, preCtxL_entries g ds (anc ++ [m])]
    simp
theorem preCtxL_entries (g : Attrs → Attrs) :
    ∀ (ds : List Tree) (anc : List Str),
    (preCtxL anc ds).map (fun x => (x.1 ++ [x.2.name], g x.2.attrs)) = (entriesL g ds).map fun e => (anc ++ e.1, e.2)
  | [], anc => by simp [preCtxL, entriesL]
  | d :: ds, anc => by
    rw [preCtxL, entriesL, List.map_append, List.map_append, preCtx_entries g d anc, preCtxL_entries g ds anc]
end

/-- every component of an entry path is a node name of the tree -/
def CompsOK (sep : Char) (p : List Str) : Prop := ∀ s ∈ p, s ≠ [] ∧ sep ∉ s

mutual
theorem entries_comps (sep : Char) (g : Attrs → Attrs) : ∀ (u : Tree), AllNodes NodeOK u → AllNodes (SepFree sep) u →
    ∀ e ∈ entries g u, e.1 ≠ [] ∧ e.1.head? = some u.name ∧ CompsOK sep e.1
  | .node j m b ds, h1, h2, e, he => by
    rw [allNodes_node] at h1 h2
    have hm : m ≠ [] ∧ sep ∉ m := ⟨h1.1.1, h2.1⟩
    rw [entries] at he
    rcases List.mem_cons.mp he with h | h
    · subst h
      refine ⟨by simp, by simp, ?_⟩
      intro s hs
      simp only [List.mem_singleton] at hs
      subst hs; exact hm
    · obtain ⟨e', he', rfl⟩ := List.mem_map.mp h
      obtain ⟨_, _, hc⟩ := entriesL_comps sep g ds h1.2 h2.2 e' he'
      refine ⟨by simp, by simp, ?_⟩
      intro s hs
      rcases List.mem_cons.mp hs with h | h
      · subst h; exact hm
      · exact hc s h
theorem entriesL_comps (sep : Char) (g : Attrs → Attrs) : ∀ (ds : List Tree), AllNodesL NodeOK ds → AllNodesL (SepFree sep) ds →
    ∀ e ∈ entriesL g ds, e.1 ≠ [] ∧ (∃ d ∈ ds, e.1.head? = some d.name) ∧ CompsOK sep e.1
  | [], _, _, e, he => by simp [entriesL] at he
  | d :: ds, h1, h2, e, he => by
    rw [allNodesL_cons] at h1 h2
    rw [entriesL] at he
    rcases List.mem_append.mp he with h | h
    · obtain ⟨a, b, c⟩ := entries_comps sep g d h1.1 h2.1 e h
      exact ⟨a, ⟨d, by simp, b⟩, c⟩
    · obtain ⟨a, ⟨d', hd', b⟩, c⟩ := entriesL_comps sep g ds h1.2 h2.2 e h
      exact ⟨a, ⟨d', by simp [hd'], b⟩, c⟩
end

mutual
theorem entries_nodup (sep : Char) (g : Attrs → Attrs) : ∀ (u : Tree), AllNodes NodeOK u → AllNodes (SepFree sep) u →
    ((entries g u).map Prod.fst).Nodup
  | .node j m b ds, h1, h2 => by
    have h1' := h1
    have h2' := h2
    rw [allNodes_node] at h1' h2'
    rw [entries, List.map_cons, List.nodup_cons]
    constructor
    · intro hmem
      obtain ⟨e, he, heq⟩ := List.mem_map.mp hmem
      obtain ⟨e', he', rfl⟩ := List.mem_map.mp he
      obtain ⟨hne, _, _⟩ := entriesL_comps sep g ds h1'.2 h2'.2 e' he'
      simp only [List.cons.injEq, true_and] at heq
      exact hne heq
    · have hn := entriesL_nodup sep g ds h1'.1.2.2 h1'.2 h2'.2
      rw [List.map_map]
      have : (Prod.fst ∘ fun e : List Str × Attrs => (m :: e.1, e.2)) = (fun p => m :: p) ∘ Prod.fst := rfl
      rw [this, ← List.map_map]
      exact List.Pairwise.map (fun p => m :: p) (fun a b hab h => hab (by simpa using h)) hn
theorem entriesL_nodup (sep : Char) (g : Attrs → Attrs) : ∀ (ds : List Tree), (ds.map Tree.name).Nodup → AllNodesL NodeOK ds →
    AllNodesL (SepFree sep) ds → ((entriesL g ds).map Prod.fst).Nodup
  | [], _, _, _ => by simp [entriesL]
  | d :: ds, hn, h1, h2 => by
    have h1' := h1
    have h2' := h2
    rw [allNodesL_cons] at h1' h2'
    simp only [List.map_cons, List.nodup_cons] at hn
    rw [entriesL, List.map_append, List.nodup_append]
    refine ⟨entries_nodup sep g d h1'.1 h2'.1, entriesL_nodup sep g ds hn.2 h1'.2 h2'.2, ?_⟩
    intro p hp q hq hpq
    obtain ⟨e, he, rfl⟩ := List.mem_map.mp hp
    obtain ⟨e', he', rfl⟩ := List.mem_map.mp hq
    obtain ⟨_, hh, _⟩ := entries_comps sep g d h1'.1 h2'.1 e he
    obtain ⟨_, ⟨d', hd', hh'⟩, _⟩ := entriesL_comps sep g ds h1'.2 h2'.2 e' he'
    rw [hpq, hh'] at hh
    simp only [Option.some.injEq] at hh
    exact hn.1 (hh ▸ List.mem_map.mpr ⟨d', hd', rfl⟩)
end

/-! ### from component lists to path strings -/

theorem insertPath_path (sep : Char) (r : Tree) (p : List Str) (a : Attrs)
    (hr : r.name ≠ [] ∧ sep ∉ r.name) (hp : CompsOK sep p) :
    insertPath sep r (sep :: joinC sep (r.name :: p)) a = some (insertAt a p r) := by
  unfold insertPath
  rw [if_neg (by simp)]
  rw [split_strip_path sep (r.name :: p) (by simp)]
  · have hany : p.any (· == []) = false := by
      rw [List.any_eq_false]
      intro s hs
      have := (hp s hs).1
      simpa using this
    simp only [ne_eq, not_true_eq_false, if_false, hany]
    simp
  · intro x hx
    rcases List.mem_cons.mp hx with h | h
    · subst h; exact hr
    · exact hp x h

theorem foldInsert_paths (sep : Char) (es : List (List Str × Attrs)) : ∀ (r : Tree),
    (r.name ≠ [] ∧ sep ∉ r.name) → (∀ e ∈ es, CompsOK sep e.1) →
    foldInsert sep r (es.map fun e => (sep :: joinC sep (r.name :: e.1), e.2)) = some (foldAt r es) := by
  induction es with
  | nil => intro r _ _; rfl
  | cons e es ih =>
    intro r hr hes
    rw [List.map_cons, foldInsert, insertPath_path sep r e.1 e.2 hr (hes e (by simp))]
    simp only
    have hn : (insertAt e.2 e.1 r).name = r.name := insertAt_name _ _ _
    have := ih (insertAt e.2 e.1 r) (by rw [hn]; exact hr) (fun e' he' => hes e' (by simp [he']))
    rw [hn] at this
    rw [this, foldAt_cons]

/-- `path_name`s of good component lists are distinct when the lists are -/
theorem joinC_inj (sep : Char) (xs ys : List Str) (hx : xs ≠ []) (hy : ys ≠ [])
    (hxs : ∀ x ∈ xs, sep ∉ x) (hys : ∀ y ∈ ys, sep ∉ y) (h : joinC sep xs = joinC sep ys) : xs = ys := by
  rw [← splitC_joinC sep xs hx hxs, ← splitC_joinC sep ys hy hys, h]

end Export
