import BigtreeModel.Helper
import BigtreeModel.HelperDiff
import BigtreeProofs.Lemmas.DiffDefs
import BigtreeProofs.Lemmas.DiffWalk
import BigtreeProofs.Lemmas.DiffStr
import BigtreeProofs.Lemmas.DiffMark
import BigtreeProofs.Lemmas.DiffInsert
import BigtreeProofs.Lemmas.DiffUpdate
import BigtreeProofs.Lemmas.DiffJoin
import BigtreeProofs.Lemmas.DiffRows
import BigtreeProofs.Lemmas.DiffRebuild
/-!
# C15: `add_dict_to_tree_by_path` — the value pairs, then the ` (~)` renames
-/
namespace Helper

/-- one update through a path string, on a relabelled tree -/
theorem addPath_mapN (c : Char) (u : Upd) (fn : List Str → Str → Str) (fa : List Str → Attrs → Attrs)
    (T : Tree) (p : List Str) (hs : SibU T) (hp : p ∈ keys T)
    (hg : ∀ n ∈ p, n ≠ [] ∧ c ∉ n ∧ ¬ sufChanged <:+ n)
    (hd : ∀ q n, fn q n = n ∨ sufChanged <:+ fn q n)
    (hc : ∀ q n, q <+: p → fn q n = n) :
    addPath [c] u (mapN fn fa [] T) (pathName [c] p) =
      .ok (mapN (updFn u p fn) (updFa u p fa) [] T) := by
  obtain ⟨rest, hr⟩ := keys_head T p hp
  subst hr
  rw [addPath_pathName c u _ T.name rest (fun n hn => ⟨(hg n hn).1, (hg n hn).2.1⟩)]
  have hroot : (mapN fn fa [] T).name = T.name := by
    rw [mapN_name]; exact hc _ _ (by simp [List.cons_prefix_cons])
  rw [hroot]
  simp only [bne_self_eq_false, Bool.false_eq_true, if_false]
  exact ins_mapN u fn fa (T.name :: rest) hd hc rest T [] rfl hs hp
    (fun x hx => (hg x (by simp [hx])).2.2)

/-! ## the value pairs -/

theorem fold_pairs (c : Char) (T : Tree) (hs : SibU T) : ∀ (us : List (List Str × Upd)) (fa : List Str → Attrs → Attrs),
    (∀ pu ∈ us, (∃ k x y, pu.2 = .pair k x y) ∧ pu.1 ∈ keys T ∧
      ∀ n ∈ pu.1, n ≠ [] ∧ c ∉ n ∧ ¬ sufChanged <:+ n) →
    applyUpdates [c] (us.map fun pu => (pathName [c] pu.1, pu.2)) (mapN (fun _ n => n) fa [] T) =
      .ok (mapN (fun _ n => n) (us.foldl (fun fa pu => updFa pu.2 pu.1 fa) fa) [] T) := by
  intro us
  induction us with
  | nil => intro fa _; rfl
  | cons pu us ih =>
    intro fa h
    obtain ⟨⟨k, x, y, hu⟩, hk, hg⟩ := h pu (by simp)
    unfold applyUpdates at ih ⊢
    simp only [List.map_cons, List.foldlM_cons, List.foldl_cons]
    rw [addPath_mapN c pu.2 _ fa T pu.1 hs hk hg (fun _ _ => Or.inl rfl) (fun _ _ _ => rfl)]
    have : updFn pu.2 pu.1 (fun _ n => n) = fun _ n => n := by rw [hu]; rfl
    rw [this]
    exact ih _ (fun pu' hpu' => h pu' (by simp [hpu']))

/-! ## the renames -/

def fnS (S : List (List Str)) : List Str → Str → Str :=
  fun q n => if q ∈ S then q.getLastD [] ++ sufChanged else n

theorem fnS_nil : fnS [] = fun _ n => n := by
  funext q n; simp [fnS]

theorem fnS_hd (S : List (List Str)) (q : List Str) (n : Str) : fnS S q n = n ∨ sufChanged <:+ fnS S q n := by
  unfold fnS
  by_cases h : q ∈ S
  · right; simp only [h, if_true]; exact List.suffix_append _ _
  · left; simp [h]

theorem updFn_fnS (S : List (List Str)) (p : List Str) :
    updFn (.name (p.getLastD [] ++ sufChanged)) p (fnS S) = fnS (p :: S) := by
  funext q n
  simp only [updFn, fnS, List.mem_cons]
  by_cases h : q = p
  · subst h; simp
  · simp [h]

theorem fold_renames (c : Char) (T : Tree) (hs : SibU T) (fa : List Str → Attrs → Attrs) :
    ∀ (L S : List (List Str)),
    L.Pairwise (fun a b => ¬ a <+: b) →
    (∀ p ∈ L, p ∈ keys T ∧ ∀ n ∈ p, n ≠ [] ∧ c ∉ n ∧ ¬ sufChanged <:+ n) →
    (∀ p ∈ L, ∀ s ∈ S, ¬ s <+: p) →
    applyUpdates [c] (L.map fun p => (pathName [c] p, Upd.name (p.getLastD [] ++ sufChanged)))
        (mapN (fnS S) fa [] T) = .ok (mapN (fnS (L.reverse ++ S)) fa [] T) := by
  intro L
  induction L with
  | nil => intro S _ _ _; rfl
  | cons p L ih =>
    intro S hpw hL hS
    rw [List.pairwise_cons] at hpw
    obtain ⟨hk, hg⟩ := hL p (by simp)
    unfold applyUpdates at ih ⊢
    simp only [List.map_cons, List.foldlM_cons]
    rw [addPath_mapN c _ (fnS S) fa T p hs hk hg (fnS_hd S)
      (by
        intro q n hq
        have : q ∉ S := fun hqs => hS p (by simp) q hqs hq
        simp [fnS, this])]
    rw [updFn_fnS]
    have hfa : updFa (Upd.name (p.getLastD [] ++ sufChanged)) p fa = fa := rfl
    rw [hfa]
    have := ih (p :: S) hpw.2 (fun p' hp' => hL p' (by simp [hp']))
      (by
        intro p' hp' s hs'
        simp only [List.mem_cons] at hs'
        rcases hs' with rfl | hs'
        · exact hpw.1 p' hp'
        · exact hS p' (by simp [hp']) s hs')
    rw [show (p :: L).reverse ++ S = L.reverse ++ p :: S by simp]
    exact this

/-! ## preimages of the sorted deque -/

theorem exists_preimage_list {α β} (f : α → β) (S : List α) : ∀ (L : List β), (∀ x ∈ L, ∃ a ∈ S, f a = x) →
    ∃ Lc : List α, L = Lc.map f ∧ ∀ a ∈ Lc, a ∈ S := by
  intro L
  induction L with
  | nil => intro _; exact ⟨[], rfl, by simp⟩
  | cons x L ih =>
    intro h
    obtain ⟨a, ha, hfa⟩ := h x (by simp)
    obtain ⟨Lc, hLc, hS⟩ := ih (fun y hy => h y (by simp [hy]))
    refine ⟨a :: Lc, by simp [hfa, hLc], ?_⟩
    intro b hb
    simp only [List.mem_cons] at hb
    rcases hb with rfl | hb
    · exact ha
    · exact hS b hb

/-- the renames as a list of component paths in an order where no path comes before one of its
    extensions -/
theorem renames_eq (c : Char) (attrList : List Str) (t1 t2 : Tree) (h : DiffOK c t1 t2) :
    ∃ Lc : List (List Str),
      renames [c] ((dequeC attrList t1 t2).map (pathName [c])) =
        Lc.map (fun p => (pathName [c] p, Upd.name (p.getLastD [] ++ sufChanged))) ∧
      (∀ q, q ∈ Lc ↔ q ∈ dequeC attrList t1 t2) ∧
      Lc.Pairwise (fun a b => ¬ a <+: b) := by
  have hgood : ∀ q ∈ dequeC attrList t1 t2, q ≠ [] ∧ ∀ n ∈ q, c ∉ n := by
    intro q hq
    have := allPaths_good c t1 t2 h q (dequeC_both attrList t1 t2 q hq).1
    exact ⟨this.1, fun n hn => (this.2 n hn).2.1⟩
  obtain ⟨Lc, hLc, hsub⟩ := exists_preimage_list (pathName [c]) (dequeC attrList t1 t2)
    (sortedDesc ((dequeC attrList t1 t2).map (pathName [c])))
    (by
      intro x hx
      rw [mem_sortedDesc] at hx
      obtain ⟨a, ha, rfl⟩ := List.mem_map.mp hx
      exact ⟨a, ha, rfl⟩)
  refine ⟨Lc, ?_, ?_, ?_⟩
  · unfold renames
    rw [hLc, List.map_map]
    apply List.map_congr_left
    intro p hp
    have gp := hgood p (hsub p hp)
    simp only [Function.comp_apply]
    rw [split_pathName c p gp.1 gp.2]
    congr 2
    cases p with
    | nil => exact absurd rfl gp.1
    | cons a p => simp
  · intro q
    constructor
    · exact hsub q
    · intro hq
      have : pathName [c] q ∈ sortedDesc ((dequeC attrList t1 t2).map (pathName [c])) := by
        rw [mem_sortedDesc]; exact List.mem_map_of_mem hq
      rw [hLc] at this
      obtain ⟨q', hq', he⟩ := List.mem_map.mp this
      have gq := hgood q hq
      have gq' := hgood q' (hsub q' hq')
      have := pathName_inj c q' q gq'.1 gq.1 gq'.2 gq.2 he
      rw [← this]; exact hq'
  · have h1 := sortedDesc_no_prefix_before ((dequeC attrList t1 t2).map (pathName [c]))
    have h2 := sortedDesc_nodup ((dequeC attrList t1 t2).map (pathName [c]))
    rw [hLc] at h1 h2
    rw [List.pairwise_map] at h1
    unfold List.Nodup at h2
    rw [List.pairwise_map] at h2
    have h3 := h1.and h2
    refine List.Pairwise.imp_of_mem ?_ h3
    intro a b ha hb ⟨hab1, hab2⟩ hpre
    obtain ⟨t, rfl⟩ := hpre
    by_cases ht : t = []
    · subst ht; simp at hab2
    · have ga := hgood a (hsub a ha)
      exact hab1 (by
        obtain ⟨s, hs, he⟩ := pathName_prefix c a t ga.1 ht
        exact ⟨s, hs, he⟩)

/-! ## what the value pairs leave at a node -/

def applyU : Upd → Attrs → Attrs
  | .pair k x y, a => setPair a k x y
  | _, a => a

theorem foldl_updFa (m : List Str) : ∀ (us : List (List Str × Upd)) (fa : List Str → Attrs → Attrs) (a : Attrs),
    (us.foldl (fun fa pu => updFa pu.2 pu.1 fa) fa) m a =
      (us.filter fun pu => pu.1 == m).foldl (fun a pu => applyU pu.2 a) (fa m a) := by
  intro us
  induction us with
  | nil => intro fa a; rfl
  | cons pu us ih =>
    intro fa a
    simp only [List.foldl_cons, List.filter_cons]
    rw [ih]
    by_cases hm : pu.1 = m
    · have : (pu.1 == m) = true := by simpa using hm
      simp only [this, if_true, List.foldl_cons]
      congr 1
      obtain ⟨p, u⟩ := pu
      simp only at hm
      subst hm
      cases u <;> simp [updFa, applyU]
    · have : (pu.1 == m) = false := by simpa using hm
      simp only [this, Bool.false_eq_true, if_false]
      rw [updFa_ne pu.2 pu.1 m fa (fun e => hm e.symm)]

theorem filter_beq_nodup (m : List Str) : ∀ (l : List (List Str)), l.Nodup →
    l.filter (fun x => x == m) = if m ∈ l then [m] else [] := by
  intro l
  induction l with
  | nil => intro _; rfl
  | cons a l ih =>
    intro hn
    rw [List.nodup_cons] at hn
    rw [List.filter_cons, ih hn.2]
    by_cases ha : a = m
    · subst ha
      simp [hn.1]
    · have : (a == m) = false := by simpa using ha
      have hne : m ≠ a := fun e => ha e.symm
      simp [this, hne]

theorem pairUpdsC_filter (c : Char) (attrList : List Str) (t1 t2 : Tree) (h : DiffOK c t1 t2) (m : List Str) :
    (pairUpdsC attrList t1 t2).filter (fun pu => pu.1 == m) =
      (attrList.filter fun k => diffAt t1 t2 k m && (allPaths t1 t2).contains m).map fun k => (m, pairOf t1 t2 k m) := by
  unfold pairUpdsC
  induction attrList with
  | nil => rfl
  | cons k l ih =>
    rw [List.flatMap_cons, List.filter_append, ih, List.filter_cons]
    have hk : (((allPaths t1 t2).filter (diffAt t1 t2 k)).map fun p => (p, pairOf t1 t2 k p)).filter
        (fun pu => pu.1 == m) =
        if diffAt t1 t2 k m && (allPaths t1 t2).contains m then [(m, pairOf t1 t2 k m)] else [] := by
      rw [List.filter_map]
      have : ((fun pu : List Str × Upd => pu.1 == m) ∘ fun p => (p, pairOf t1 t2 k p)) = fun p => p == m := rfl
      rw [this, filter_beq_nodup m _ (nodup_filter _ _ (allPaths_nodup c t1 t2 h))]
      simp only [List.mem_filter, List.contains_iff_mem, Bool.and_eq_true]
      by_cases h1 : diffAt t1 t2 k m = true <;> by_cases h2 : m ∈ allPaths t1 t2 <;> simp [h1, h2]
    rw [hk]
    split <;> simp

theorem setPair_fresh (a : Attrs) (k : Str) (x y : Val) (h : ∀ kv ∈ a, kv.1 ≠ k) :
    setPair a k x y = a ++ [(k, x), (k, y)] := by
  unfold setPair
  congr 1
  rw [List.filter_eq_self]
  intro kv hkv
  simpa using h kv hkv

theorem foldl_setPair (m : List Str) (f g : Str → Val) : ∀ (ks : List Str) (a : Attrs), ks.Nodup →
    (∀ kv ∈ a, kv.1 ∉ ks) →
    (ks.map fun k => (m, Upd.pair k (f k) (g k))).foldl (fun a pu => applyU pu.2 a) a =
      a ++ ks.flatMap fun k => [(k, f k), (k, g k)] := by
  intro ks
  induction ks with
  | nil => intro a _ _; simp
  | cons k ks ih =>
    intro a hn ha
    rw [List.nodup_cons] at hn
    simp only [List.map_cons, List.foldl_cons, List.flatMap_cons]
    rw [show applyU (Upd.pair k (f k) (g k)) a = setPair a k (f k) (g k) from rfl]
    rw [setPair_fresh a k _ _ (fun kv hkv e => ha kv hkv (by simp [e]))]
    rw [ih _ hn.2]
    · simp
    · intro kv hkv
      simp only [List.mem_append, List.mem_cons, List.not_mem_nil, or_false] at hkv
      rcases hkv with hkv | rfl | rfl
      · exact fun hk => ha kv hkv (by simp [hk])
      · exact hn.1
      · exact hn.1

/-- the value pairs leave exactly `carried` at the node of a kept path -/
theorem pairs_at (c : Char) (attrList : List Str) (hA : attrList.Nodup) (t1 t2 : Tree) (h : DiffOK c t1 t2)
    (p : List Str) (hp : p ∈ allPaths t1 t2) :
    ((pairUpdsC attrList t1 t2).foldl (fun fa pu => updFa pu.2 pu.1 fa) (fun _ a => a))
      (markFull (stPM t1 t2) p) [] = carried attrList t1 t2 p := by
  rw [foldl_updFa, pairUpdsC_filter c attrList t1 t2 h, carried_eq]
  have hfil : (attrList.filter fun k => diffAt t1 t2 k (markFull (stPM t1 t2) p) &&
        (allPaths t1 t2).contains (markFull (stPM t1 t2) p)) = attrList.filter fun k => diffAt t1 t2 k p := by
    apply List.filter_congr
    intro k _
    by_cases hb : indC t1 t2 p = .both
    · rw [markPM_both t1 t2 p hp hb]
      have : (allPaths t1 t2).contains p = true := List.contains_iff_mem.mpr hp
      rw [this, Bool.and_true]
    · have h1 : diffAt t1 t2 k p = false := by simp [diffAt, hb]
      rw [h1]
      rw [Bool.and_eq_false_iff]
      by_cases hm : markFull (stPM t1 t2) p ∈ allPaths t1 t2
      · left
        simp only [diffAt, Bool.and_eq_false_iff]
        right
        have : indC t1 t2 (markFull (stPM t1 t2) p) ≠ .both := by
          intro hb'
          have := markPM_eq_both c t1 t2 h p _ hp hm hb' rfl
          rw [← this] at hb'
          exact hb hb'
        simpa using this
      · right
        simpa using hm
  rw [hfil]
  by_cases hb : indC t1 t2 p = .both
  · rw [markPM_both t1 t2 p hp hb]
    have := foldl_setPair p (fun k => valAt t1 k p) (fun k => valAt t2 k p)
      (attrList.filter fun k => diffAt t1 t2 k p) [] (nodup_filter _ _ hA) (by simp)
    simpa [pairOf] using this
  · have : (attrList.filter fun k => diffAt t1 t2 k p) = [] := by
      rw [List.filter_eq_nil_iff]
      intro k _
      simp [diffAt, hb]
    rw [this]; rfl

/-! ## what the renames leave as the name of a kept path -/

theorem getLastD_take_succ (p : List Str) (i : Nat) (hi : i < p.length) :
    (p.take (i + 1)).getLastD [] = p.getD i [] := by
  induction p generalizing i with
  | nil => simp at hi
  | cons a p ih =>
    cases i with
    | zero => simp
    | succ i =>
      simp only [List.length_cons, Nat.add_lt_add_iff_right] at hi
      have := ih i hi
      rw [List.take_succ_cons, List.getD_cons_succ, ← this]
      cases hp : p.take (i + 1) with
      | nil => exact absurd hp (take_succ_ne_nil p i hi)
      | cons b q => simp

theorem names_at (c : Char) (attrList : List Str) (t1 t2 : Tree) (h : DiffOK c t1 t2) (S : List (List Str))
    (hS : ∀ q, q ∈ S ↔ q ∈ dequeC attrList t1 t2)
    (p : List Str) (hp : p ∈ allPaths t1 t2) :
    relabel (fnS S) [] (markFull (stPM t1 t2) p) = markFull (status attrList t1 t2) p := by
  rw [relabel_eq_range, markFull_length]
  conv => rhs; unfold markFull
  apply List.map_congr_left
  intro i hi
  rw [List.mem_range] at hi
  have hne := take_succ_ne_nil p i hi
  have hpa : p.take (i + 1) ∈ allPaths t1 t2 :=
    allPaths_prefix_closed t1 t2 p _ hp (List.take_prefix _ _) hne
  simp only [List.nil_append]
  rw [markFull_take, markFull_getD _ p i hi]
  by_cases hch : p.take (i + 1) ∈ dequeC attrList t1 t2
  · obtain ⟨_, hb⟩ := dequeC_both attrList t1 t2 _ hch
    rw [markPM_both t1 t2 _ hpa hb]
    have hst := (status_changed_iff attrList t1 t2 _ hpa).mpr hch
    simp only [fnS, (hS _).mpr hch, if_true, hst, Status.suffix]
    rw [getLastD_take_succ p i hi]
  · have hnotS : markFull (stPM t1 t2) (p.take (i + 1)) ∉ S := by
      intro hin
      have hq := (hS _).mp hin
      obtain ⟨hqa, hqb⟩ := dequeC_both attrList t1 t2 _ hq
      have := markPM_eq_both c t1 t2 h (p.take (i + 1)) _ hpa hqa hqb rfl
      rw [← this] at hq
      exact hch hq
    have hst : status attrList t1 t2 (p.take (i + 1)) ≠ .changed :=
      fun e => hch ((status_changed_iff attrList t1 t2 _ hpa).mp e)
    simp only [fnS, hnotS, if_false]
    rw [status_eq_stPM attrList t1 t2 _ hst]

end Helper
