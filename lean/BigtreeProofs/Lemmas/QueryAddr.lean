import BigtreeModel.Query
/-! Helper lemmas for C12/C09: addresses, parent walks (`ancestors`, `depth`, `root`, `node_path`).
Core Lean only. -/

namespace Query

/-! ### parent -/

@[simp] theorem parent_nil : parent [] = none := rfl

@[simp] theorem parent_snoc (p : Addr) (k : Nat) : parent (p ++ [k]) = some p := by
  cases p with
  | nil => simp [parent]
  | cons x xs =>
    simp only [parent, List.cons_append, Option.some.injEq]
    exact List.dropLast_concat (l₁ := x :: xs) (b := k)

theorem parent_of_ne_nil {a : Addr} (h : a ≠ []) : parent a = some a.dropLast := by
  cases a with
  | nil => exact absurd rfl h
  | cons x xs => rfl

theorem parent_eq_some {a p : Addr} : parent a = some p ↔ ∃ k, a = p ++ [k] := by
  constructor
  · intro h
    rcases List.eq_nil_or_concat a with rfl | ⟨l, b, rfl⟩
    · simp at h
    · simp only [List.concat_eq_append, parent_snoc, Option.some.injEq] at h
      exact ⟨b, by simp [h]⟩
  · rintro ⟨k, rfl⟩; simp

theorem parent_eq_none {a : Addr} : parent a = none ↔ a = [] := by
  cases a with
  | nil => simp
  | cons x xs => simp [parent]

theorem snoc_cases (a : Addr) : a = [] ∨ ∃ p k, a = p ++ [k] := by
  rcases List.eq_nil_or_concat a with h | ⟨l, b, h⟩
  · exact Or.inl h
  · exact Or.inr ⟨l, b, by simpa using h⟩

/-! ### specs unfold along snoc -/

theorem ancestorsSpec_nil : ancestorsSpec [] = [] := rfl

theorem ancestorsSpec_snoc (p : Addr) (k : Nat) :
    ancestorsSpec (p ++ [k]) = p :: ancestorsSpec p := by
  unfold ancestorsSpec
  simp only [List.length_append, List.length_cons, List.length_nil, Nat.zero_add,
    List.range_succ, List.reverse_append, List.reverse_cons, List.reverse_nil, List.nil_append,
    List.singleton_append, List.map_cons, List.cons.injEq]
  constructor
  · simp
  · apply List.map_congr_left
    intro j hj
    have : j < p.length := by simpa using hj
    rw [List.take_append_of_le_length (by omega)]

theorem nodePathSpec_nil : nodePathSpec [] = [[]] := rfl

theorem nodePathSpec_snoc (p : Addr) (k : Nat) :
    nodePathSpec (p ++ [k]) = nodePathSpec p ++ [p ++ [k]] := by
  unfold nodePathSpec
  rw [List.range_succ, List.map_append]
  congr 1
  · simp only [List.length_append, List.length_cons, List.length_nil, Nat.zero_add]
    apply List.map_congr_left
    intro j hj
    have : j < p.length + 1 := by simpa using hj
    rw [List.take_append_of_le_length (by omega)]
  · simp only [List.length_append, List.length_cons, List.length_nil, Nat.zero_add, List.map_cons,
      List.map_nil, List.cons.injEq, and_true]
    exact List.take_of_length_le (by simp)

/-- induction along `p ++ [k]` -/
theorem snoc_induction {P : Addr → Prop} (h0 : P []) (hs : ∀ p k, P p → P (p ++ [k])) : ∀ a, P a := by
  intro a
  generalize hn : a.length = n
  induction n generalizing a with
  | zero =>
    have : a = [] := by cases a <;> simp_all
    subst this; exact h0
  | succ n ih =>
    rcases snoc_cases a with rfl | ⟨p, k, rfl⟩
    · exact h0
    · exact hs p k (ih p (by simp at hn; omega))

/-! ### the fuelled walks -/

theorem ancLoop_eq (f : Nat) : ∀ a : Addr, a.length ≤ f → ancLoop f (parent a) = ancestorsSpec a := by
  induction f with
  | zero =>
    intro a h
    have : a = [] := by cases a <;> simp_all
    subst this; simp [ancLoop, ancestorsSpec]
  | succ f ih =>
    intro a h
    rcases snoc_cases a with rfl | ⟨p, k, rfl⟩
    · simp [ancLoop, ancestorsSpec]
    · have hp : p.length ≤ f := by simp at h; omega
      simp [ancLoop, ancestorsSpec_snoc, ih p hp]

theorem ancestors_eq_spec (a : Addr) : ancestors a = ancestorsSpec a :=
  ancLoop_eq a.length a (Nat.le_refl _)

theorem depthF_eq (f : Nat) : ∀ a : Addr, a.length ≤ f → depthF f a = a.length + 1 := by
  induction f with
  | zero =>
    intro a h
    have : a = [] := by cases a <;> simp_all
    subst this; simp [depthF]
  | succ f ih =>
    intro a h
    rcases snoc_cases a with rfl | ⟨p, k, rfl⟩
    · simp [depthF]
    · have hp : p.length ≤ f := by simp at h; omega
      simp [depthF, ih p hp]

theorem depth_eq_length (a : Addr) : depth a = a.length + 1 := depthF_eq a.length a (Nat.le_refl _)

theorem rootF_eq (f : Nat) : ∀ a : Addr, a.length ≤ f → rootF f a = [] := by
  induction f with
  | zero =>
    intro a h
    have : a = [] := by cases a <;> simp_all
    subst this; simp [rootF]
  | succ f ih =>
    intro a h
    rcases snoc_cases a with rfl | ⟨p, k, rfl⟩
    · simp [rootF]
    · have hp : p.length ≤ f := by simp at h; omega
      simp [rootF, ih p hp]

theorem root_eq_nil (a : Addr) : root a = [] := rootF_eq a.length a (Nat.le_refl _)

theorem nodePathF_eq (f : Nat) : ∀ a : Addr, a.length ≤ f → nodePathF f a = nodePathSpec a := by
  induction f with
  | zero =>
    intro a h
    have : a = [] := by cases a <;> simp_all
    subst this; simp [nodePathF, nodePathSpec]
  | succ f ih =>
    intro a h
    rcases snoc_cases a with rfl | ⟨p, k, rfl⟩
    · simp [nodePathF, nodePathSpec]
    · have hp : p.length ≤ f := by simp at h; omega
      simp [nodePathF, ih p hp, nodePathSpec_snoc]

theorem nodePath_eq_spec (a : Addr) : nodePath a = nodePathSpec a :=
  nodePathF_eq a.length a (Nat.le_refl _)

theorem isRoot_iff (a : Addr) : isRoot a = true ↔ a = [] := by
  simp [isRoot, parent_eq_none]

/-- `[self] + ancestors`, reversed, is the node path -/
theorem self_ancestors_reverse (a : Addr) : (a :: ancestorsSpec a).reverse = nodePathSpec a := by
  induction a using snoc_induction with
  | h0 => rfl
  | hs p k ih =>
    rw [ancestorsSpec_snoc, nodePathSpec_snoc, List.reverse_cons, ih]

theorem length_ancestorsSpec (a : Addr) : (ancestorsSpec a).length = a.length := by
  simp [ancestorsSpec]

end Query
