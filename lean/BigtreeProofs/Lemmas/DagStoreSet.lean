import BigtreeProofs.Lemmas.DagStoreInv
/-!
# DagStore — the two setters: what the checks guarantee, closed forms of the insertion loops,
exactness of the executed roll-back loops
-/

namespace DagStore

theorem nodup_filter {l : List Nat} (p : Nat → Bool) (h : l.Nodup) : (l.filter p).Nodup :=
  List.Pairwise.filter p h

theorem nodup_map_inj {α : Type} {l : List Nat} (f : Nat → α) (hf : ∀ a b, f a = f b → a = b)
    (h : l.Nodup) : (l.map f).Nodup :=
  List.Pairwise.map f (fun a b hab e => hab (hf a b e)) h

/-! ## the guards -/

theorem checkParentLoop_spec {s : DStore} {v : Nat} {l seen : List Nat}
    (h : checkParentLoop s v l seen = true) :
    l.Nodup ∧ ∀ p ∈ l, p < s.n ∧ p ≠ v ∧ v ∉ ancestors s p ∧ p ∉ seen := by
  induction l generalizing seen with
  | nil => simp
  | cons p l ih =>
    unfold checkParentLoop at h
    split at h; · cases h
    split at h; · cases h
    split at h; · cases h
    split at h; · cases h
    rename_i h1 h2 h3 h4
    have := ih h
    refine ⟨List.nodup_cons.2 ⟨fun hp => (this.2 p hp).2.2.2 (by simp), this.1⟩, ?_⟩
    intro q hq
    rcases List.mem_cons.1 hq with rfl | hq
    · exact ⟨by omega, h2, h3, h4⟩
    · have := this.2 q hq
      exact ⟨this.1, this.2.1, this.2.2.1, fun hs => this.2.2.2 (by simp [hs])⟩

theorem checkChildrenLoop_spec {s : DStore} {v : Nat} {l seen : List Nat}
    (h : checkChildrenLoop s v l seen = true) :
    l.Nodup ∧ ∀ c ∈ l, c < s.n ∧ c ≠ v ∧ c ∉ ancestors s v ∧ c ∉ seen := by
  induction l generalizing seen with
  | nil => simp
  | cons p l ih =>
    unfold checkChildrenLoop at h
    split at h; · cases h
    split at h; · cases h
    split at h; · cases h
    split at h; · cases h
    rename_i h1 h2 h3 h4
    have := ih h
    refine ⟨List.nodup_cons.2 ⟨fun hp => (this.2 p hp).2.2.2 (by simp), this.1⟩, ?_⟩
    intro q hq
    rcases List.mem_cons.1 hq with rfl | hq
    · exact ⟨by omega, h2, h3, h4⟩
    · have := this.2 q hq
      exact ⟨this.1, this.2.1, this.2.2.1, fun hs => this.2.2.2 (by simp [hs])⟩

/-! ## closed forms of the insertion loops -/

/-- the edges the parents setter appends: the new parents not yet listed, in argument order -/
def newParentEdges (s : DStore) (v : Nat) (l : List Nat) : List (Nat × Nat) :=
  (l.filter fun p => decide (p ∉ s.parents v)).map fun p => (p, v)

/-- the edges the children setter appends -/
def newChildEdges (s : DStore) (v : Nat) (l : List Nat) : List (Nat × Nat) :=
  (l.filter fun c => decide (v ∉ s.parents c)).map fun c => (v, c)

theorem mem_newParentEdges {s : DStore} {v : Nat} {l : List Nat} {q x : Nat} :
    (q, x) ∈ newParentEdges s v l ↔ x = v ∧ q ∈ l ∧ q ∉ s.parents v := by
  simp only [newParentEdges, List.mem_map, List.mem_filter, decide_eq_true_eq, Prod.mk.injEq]
  constructor
  · rintro ⟨a, ⟨h1, h2⟩, rfl, rfl⟩; exact ⟨rfl, h1, h2⟩
  · rintro ⟨rfl, h1, h2⟩; exact ⟨q, ⟨h1, h2⟩, rfl, rfl⟩

theorem mem_newChildEdges {s : DStore} {v : Nat} {l : List Nat} {q x : Nat} :
    (q, x) ∈ newChildEdges s v l ↔ q = v ∧ x ∈ l ∧ v ∉ s.parents x := by
  simp only [newChildEdges, List.mem_map, List.mem_filter, decide_eq_true_eq, Prod.mk.injEq]
  constructor
  · rintro ⟨a, ⟨h1, h2⟩, rfl, rfl⟩; exact ⟨rfl, h1, h2⟩
  · rintro ⟨rfl, h1, h2⟩; exact ⟨x, ⟨h1, h2⟩, rfl, rfl⟩

theorem newParentEdges_nodup {s : DStore} {v : Nat} {l : List Nat} (h : l.Nodup) :
    (newParentEdges s v l).Nodup :=
  nodup_map_inj _ (fun a b e => by simpa using e) (nodup_filter _ h)

theorem newChildEdges_nodup {s : DStore} {v : Nat} {l : List Nat} (h : l.Nodup) :
    (newChildEdges s v l).Nodup :=
  nodup_map_inj _ (fun a b e => by simpa using e) (nodup_filter _ h)

theorem parentsLoop_eq {s : DStore} {v : Nat} {l : List Nat} (hn : l.Nodup)
    (hl : ∀ p ∈ l, p < s.n) : parentsLoop s v l = (addEs s (newParentEdges s v l), true) := by
  induction l generalizing s with
  | nil => rfl
  | cons p l ih =>
    have hn' := List.nodup_cons.1 hn
    have hp := hl p (by simp)
    have hl' : ∀ q ∈ l, q < s.n := fun q hq => hl q (by simp [hq])
    unfold parentsLoop
    by_cases hm : p ∈ s.parents v
    · rw [if_pos hm, ih hn'.2 hl']
      simp [newParentEdges, hm]
    · rw [if_neg hm]
      simp only [hp, if_true]
      change parentsLoop (s.addE p v) v l = _
      rw [ih hn'.2 (by simpa using hl')]
      have : newParentEdges (s.addE p v) v l = newParentEdges s v l := by
        unfold newParentEdges
        congr 1
        apply List.filter_congr
        intro q hq
        have : q ≠ p := fun e => hn'.1 (e ▸ hq)
        simp [addE_parents, this]
      rw [this]
      simp [newParentEdges, hm, addEs]

theorem childrenLoop_eq {s : DStore} {v : Nat} {l : List Nat} (hn : l.Nodup)
    (hl : ∀ c ∈ l, c < s.n) : childrenLoop s v l = (addEs s (newChildEdges s v l), true) := by
  induction l generalizing s with
  | nil => rfl
  | cons c l ih =>
    have hn' := List.nodup_cons.1 hn
    have hc := hl c (by simp)
    have hl' : ∀ q ∈ l, q < s.n := fun q hq => hl q (by simp [hq])
    unfold childrenLoop
    rw [if_neg (by omega)]
    by_cases hm : v ∈ s.parents c
    · rw [if_pos hm, ih hn'.2 hl']
      simp [newChildEdges, hm]
    · rw [if_neg hm]
      change childrenLoop (s.addE v c) v l = _
      rw [ih hn'.2 (by simpa using hl')]
      have : newChildEdges (s.addE v c) v l = newChildEdges s v l := by
        unfold newChildEdges
        congr 1
        apply List.filter_congr
        intro q hq
        have : q ≠ c := fun e => hn'.1 (e ▸ hq)
        simp [addE_parents, this]
      rw [this]
      simp [newChildEdges, hm, addEs]

/-! ## the executed roll-back loops restore the store exactly -/

theorem parentsRollback_eq {s : DStore} (hs : DWF0 s) {v : Nat} {l : List Nat} (hn : l.Nodup)
    (hl : ∀ p ∈ l, p < s.n) :
    parentsRollback (s.parents v) (addEs s (newParentEdges s v l)) v l = s := by
  induction l with
  | nil => rfl
  | cons p l ih =>
    have hn' := List.nodup_cons.1 hn
    have hp := hl p (by simp)
    have hl' : ∀ q ∈ l, q < s.n := fun q hq => hl q (by simp [hq])
    unfold parentsRollback
    by_cases hm : p ∈ s.parents v
    · rw [if_pos hm]
      have : newParentEdges s v (p :: l) = newParentEdges s v l := by
        simp [newParentEdges, hm]
      rw [this]
      exact ih hn'.2 hl'
    · rw [if_neg hm]
      have hE : newParentEdges s v (p :: l) = (p, v) :: newParentEdges s v l := by
        simp [newParentEdges, hm]
      rw [hE]
      have h1 : p ∈ (addEs s ((p, v) :: newParentEdges s v l)).parents v :=
        mem_addEs_parents.2 (Or.inr (by simp))
      have h2 : v ∈ (addEs s ((p, v) :: newParentEdges s v l)).children p :=
        mem_addEs_children.2 (Or.inr (by simp))
      rw [if_pos h1]
      have h3 : p < (addEs s ((p, v) :: newParentEdges s v l)).n ∧
          v ∈ ((addEs s ((p, v) :: newParentEdges s v l)).popParent v p).children p := ⟨by simpa using hp, h2⟩
      simp only [h3, and_self, if_true]
      change parentsRollback _ ((addEs s ((p, v) :: newParentEdges s v l)).delE p v) v l = s
      rw [delE_addEs_head _ _ hm (fun h => hm ((hs.sym _ _).2 h))]
      exact ih hn'.2 hl'

theorem childrenRollback_eq {s : DStore} (hs : DWF0 s) {v : Nat} {l : List Nat} (hn : l.Nodup)
    (hl : ∀ c ∈ l, c < s.n) :
    childrenRollback (s.children v) (addEs s (newChildEdges s v l)) v l = s := by
  induction l with
  | nil => rfl
  | cons c l ih =>
    have hn' := List.nodup_cons.1 hn
    have hc := hl c (by simp)
    have hl' : ∀ q ∈ l, q < s.n := fun q hq => hl q (by simp [hq])
    unfold childrenRollback
    by_cases hm : c ∈ s.children v
    · rw [if_pos hm]
      have : newChildEdges s v (c :: l) = newChildEdges s v l := by
        simp [newChildEdges, (hs.sym _ _).2 hm]
      rw [this]
      exact ih hn'.2 hl'
    · rw [if_neg hm]
      have hm' : v ∉ s.parents c := fun h => hm ((hs.sym _ _).1 h)
      have hE : newChildEdges s v (c :: l) = (v, c) :: newChildEdges s v l := by
        simp [newChildEdges, hm']
      rw [hE]
      have h1 : v ∈ (addEs s ((v, c) :: newChildEdges s v l)).parents c :=
        mem_addEs_parents.2 (Or.inr (by simp))
      have h2 : c ∈ ((addEs s ((v, c) :: newChildEdges s v l)).popParent c v).children v :=
        mem_addEs_children.2 (Or.inr (by simp))
      rw [if_neg (by simpa using hc), if_pos h1]
      simp only [h2, if_true]
      change childrenRollback _ ((addEs s ((v, c) :: newChildEdges s v l)).delE v c) v l = s
      rw [delE_addEs_head _ _ hm' hm]
      exact ih hn'.2 hl'

end DagStore
