import BigtreeProofs.Lemmas.DagStoreThms
/-!
# DagStore — which edges an operation adds, removes, refuses
-/

namespace DagStore

/-! ## what an accepted assignment adds -/

theorem mem_after_parents {s : DStore} {v : Nat} {l : List Nat} {p c : Nat} :
    p ∈ (addEs s (newParentEdges s v l)).parents c ↔ p ∈ s.parents c ∨ (c = v ∧ p ∈ l) := by
  rw [mem_addEs_parents, mem_newParentEdges]
  constructor
  · rintro (h | ⟨rfl, h, _⟩)
    · exact Or.inl h
    · exact Or.inr ⟨rfl, h⟩
  · rintro (h | ⟨rfl, h⟩)
    · exact Or.inl h
    · by_cases hp : p ∈ s.parents c
      · exact Or.inl hp
      · exact Or.inr ⟨rfl, h, hp⟩

theorem mem_after_children {s : DStore} {v : Nat} {l : List Nat} {p c : Nat} :
    p ∈ (addEs s (newChildEdges s v l)).parents c ↔ p ∈ s.parents c ∨ (p = v ∧ c ∈ l) := by
  rw [mem_addEs_parents, mem_newChildEdges]
  constructor
  · rintro (h | ⟨rfl, h, _⟩)
    · exact Or.inl h
    · exact Or.inr ⟨rfl, h⟩
  · rintro (h | ⟨rfl, h⟩)
    · exact Or.inl h
    · by_cases hp : p ∈ s.parents c
      · exact Or.inl hp
      · exact Or.inr ⟨rfl, h, hp⟩

/-- the edges `(parent, child)` an operation asks for -/
def requested (s : DStore) : Op → List (Nat × Nat)
  | .setParents v a _ => (a.items.getD []).map fun p => (p, v)
  | .setChildren v a _ => (a.items.getD []).map fun c => (v, c)
  | .rshift v o _ => [(v, o)]
  | .lshift v o _ => [(o, v)]
  | .construct _ ps cs _ _ =>
    ((ps.items.getD []).map fun p => (p, s.n)) ++ ((cs.items.getD []).map fun c => (s.n, c))
  | .delChildren _ => []
  | .delItem _ _ => []

def Op.isAssign : Op → Bool
  | .delChildren _ => false
  | .delItem _ _ => false
  | _ => true

theorem setParents_adds {s : DStore} {v : Nat} {a : Arg} {f : Fault}
    (h : (setParents true s v a f).2 = .ok) (p c : Nat) :
    p ∈ (setParents true s v a f).1.parents c ↔
      p ∈ s.parents c ∨ (p, c) ∈ (a.items.getD []).map fun p => (p, v) := by
  obtain ⟨l, rfl, _, _, he⟩ := setParents_ok h
  rw [he, mem_after_parents]
  simp only [Arg.items, Option.getD_some, List.mem_map, Prod.mk.injEq]
  constructor
  · rintro (hm | ⟨rfl, hm⟩)
    · exact Or.inl hm
    · exact Or.inr ⟨p, hm, rfl, rfl⟩
  · rintro (hm | ⟨q, hm, rfl, rfl⟩)
    · exact Or.inl hm
    · exact Or.inr ⟨rfl, hm⟩

theorem setChildren_adds {s : DStore} {v : Nat} {a : Arg} {f : Fault}
    (h : (setChildren true s v a f).2 = .ok) (p c : Nat) :
    p ∈ (setChildren true s v a f).1.parents c ↔
      p ∈ s.parents c ∨ (p, c) ∈ (a.items.getD []).map fun c => (v, c) := by
  obtain ⟨l, ha, _, _, he⟩ := setChildren_ok h
  rw [he, mem_after_children, ha]
  simp only [Option.getD_some, List.mem_map, Prod.mk.injEq]
  constructor
  · rintro (hm | ⟨rfl, hm⟩)
    · exact Or.inl hm
    · exact Or.inr ⟨c, hm, rfl, rfl⟩
  · rintro (hm | ⟨q, hm, rfl, rfl⟩)
    · exact Or.inl hm
    · exact Or.inr ⟨rfl, hm⟩

/-- an accepted assignment adds exactly the requested edges to the old ones -/
theorem step_adds {s : DStore} (hs : DWF s) {op : Op} (h : (step true s op).2 = .ok)
    (ha : op.isAssign = true) (p c : Nat) :
    p ∈ (step true s op).1.parents c ↔ p ∈ s.parents c ∨ (p, c) ∈ requested s op := by
  cases op with
  | setParents v a f =>
    simp only [step] at h ⊢
    split at h
    · rename_i hv; rw [if_pos hv]; exact setParents_adds h p c
    · cases h
  | setChildren v a f =>
    simp only [step] at h ⊢
    split at h
    · rename_i hv; rw [if_pos hv]; exact setChildren_adds h p c
    · cases h
  | rshift v o f =>
    simp only [step] at h ⊢
    split at h
    · rename_i hv; rw [if_pos hv, setParents_adds h]; simp [requested, Arg.items]
    · cases h
  | lshift v o f =>
    simp only [step] at h ⊢
    split at h
    · rename_i hv; rw [if_pos hv, setParents_adds h]; simp [requested, Arg.items]
    · cases h
  | delChildren v => cases ha
  | delItem v nm => cases ha
  | construct nm ps cs fp fc =>
    simp only [step, construct_eq] at h ⊢
    cases h1 : (setParents true (alloc s nm) s.n ps fp).2 with
    | rej => simp [h1] at h
    | ok =>
      simp only [h1, reduceCtorEq, if_false] at h ⊢
      rw [setChildren_adds h, setParents_adds h1, alloc_parents hs.toDWF0]
      simp only [requested, List.mem_append]
      rw [or_assoc]

theorem setParents_prefix (s : DStore) (hs : DWF0 s) (v : Nat) (a : Arg) (f : Fault) (x : Nat) :
    s.parents x <+: (setParents true s v a f).1.parents x ∧
    s.children x <+: (setParents true s v a f).1.children x := by
  cases h : (setParents true s v a f).2 with
  | rej => rw [setParents_rej_id hs h]; exact ⟨List.prefix_refl _, List.prefix_refl _⟩
  | ok =>
    obtain ⟨l, _, _, _, he⟩ := setParents_ok h
    rw [he]; exact ⟨addEs_parents_prefix _ _ _, addEs_children_prefix _ _ _⟩

theorem setChildren_prefix (s : DStore) (hs : DWF0 s) (v : Nat) (a : Arg) (f : Fault) (x : Nat) :
    s.parents x <+: (setChildren true s v a f).1.parents x ∧
    s.children x <+: (setChildren true s v a f).1.children x := by
  cases h : (setChildren true s v a f).2 with
  | rej => rw [setChildren_rej_id hs h]; exact ⟨List.prefix_refl _, List.prefix_refl _⟩
  | ok =>
    obtain ⟨l, _, _, _, he⟩ := setChildren_ok h
    rw [he]; exact ⟨addEs_parents_prefix _ _ _, addEs_children_prefix _ _ _⟩

/-- assignments only add: whatever the outcome (accepted, refused, failed hook, half-built
constructor), every old list is a prefix of the new one -/
theorem step_prefix {s : DStore} (hs : DWF s) {op : Op} (ha : op.isAssign = true) (x : Nat) :
    s.parents x <+: (step true s op).1.parents x ∧
    s.children x <+: (step true s op).1.children x := by
  have rfl' : s.parents x <+: s.parents x ∧ s.children x <+: s.children x :=
    ⟨List.prefix_refl _, List.prefix_refl _⟩
  cases op with
  | setParents v a f =>
    simp only [step]; split
    · exact setParents_prefix s hs.toDWF0 v a f x
    · exact rfl'
  | setChildren v a f =>
    simp only [step]; split
    · exact setChildren_prefix s hs.toDWF0 v a f x
    · exact rfl'
  | rshift v o f =>
    simp only [step]; split
    · exact setParents_prefix s hs.toDWF0 _ _ f x
    · exact rfl'
  | lshift v o f =>
    simp only [step]; split
    · exact setParents_prefix s hs.toDWF0 _ _ f x
    · exact rfl'
  | delChildren v => cases ha
  | delItem v nm => cases ha
  | construct nm ps cs fp fc =>
    simp only [step, construct_eq]
    have h0 := dwf_alloc hs nm
    have hv : s.n < (alloc s nm).n := by simp [alloc]
    have h1 := setParents_prefix (alloc s nm) h0.toDWF0 s.n ps fp x
    rw [alloc_parents hs.toDWF0, alloc_children hs.toDWF0] at h1
    split
    · exact h1
    · have h2 := setChildren_prefix _ (dwf_setParents h0 hv ps fp).toDWF0 s.n cs fc x
      exact ⟨h1.1.trans h2.1, h1.2.trans h2.2⟩

/-! ## what a deletion removes -/

theorem mem_delE_parents {s : DStore} (hs : DWF0 s) {p c q x : Nat} :
    q ∈ (s.delE p c).parents x ↔ q ∈ s.parents x ∧ (q, x) ≠ (p, c) := by
  rw [delE_parents]
  by_cases hx : x = c
  · subst hx
    simp only [if_true, (hs.ndp x).mem_erase_iff, ne_eq, Prod.mk.injEq, and_true]
    exact and_comm
  · simp [hx]

/-- the edges a deletion names -/
def removed (s : DStore) : Op → List (Nat × Nat)
  | .delChildren v => (s.children v).map fun c => (v, c)
  | .delItem v nm =>
    match (s.children v).filter (fun c => s.names c == nm) with
    | [c] => [(v, c)]
    | _ => []
  | _ => []

theorem mem_delChildrenLoop_parents {s : DStore} (hs : DWF s) (v : Nat) (l : List Nat) (q x : Nat) :
    q ∈ (delChildrenLoop s v l).parents x ↔ q ∈ s.parents x ∧ (q, x) ∉ l.map fun c => (v, c) := by
  induction l generalizing s with
  | nil => simp [delChildrenLoop]
  | cons c l ih =>
    simp only [delChildrenLoop]
    change q ∈ (delChildrenLoop (s.delE v c) v l).parents x ↔ _
    rw [ih (hs.delE v c), mem_delE_parents hs.toDWF0]
    simp only [List.map_cons, List.mem_cons, not_or, ne_eq]
    constructor
    · rintro ⟨⟨h1, h2⟩, h3⟩; exact ⟨h1, h2, h3⟩
    · rintro ⟨h1, h2, h3⟩; exact ⟨⟨h1, h2⟩, h3⟩

/-- a deletion removes exactly the named edges (and is accepted unless the name is ambiguous,
in which case nothing is named and nothing removed) -/
theorem step_removes {s : DStore} (hs : DWF s) {op : Op} (ha : op.isAssign = false) (p c : Nat) :
    p ∈ (step true s op).1.parents c ↔ p ∈ s.parents c ∧ (p, c) ∉ removed s op := by
  cases op with
  | delChildren v =>
    simp only [step]
    split
    · exact mem_delChildrenLoop_parents hs v _ p c
    · rename_i hv
      have : s.children v = [] := hs.children_nil (by omega)
      simp [removed, this]
  | delItem v nm =>
    simp only [step]
    split
    · unfold delItem removed
      cases hf : (s.children v).filter (fun c => s.names c == nm) with
      | nil => simp [hf]
      | cons c' t =>
        cases t with
        | nil =>
          simp only [hf]
          change p ∈ (s.delE v c').parents c ↔ _
          rw [mem_delE_parents hs.toDWF0]; simp
        | cons b t => simp [hf]
    · rename_i hv
      have : s.children v = [] := hs.children_nil (by omega)
      simp [removed, this]
  | setParents => cases ha
  | setChildren => cases ha
  | rshift => cases ha
  | lshift => cases ha
  | construct => cases ha

/-! ## what is refused -/

theorem Anc.mono {s t : DStore} (h : ∀ p c, p ∈ s.parents c → p ∈ t.parents c) {a b : Nat}
    (hab : Anc s a b) : Anc t a b := by
  induction hab with
  | base h1 => exact .base (h _ _ h1)
  | step _ h2 ih => exact .step ih (h _ _ h2)

/-- a parents assignment is accepted only if the members are distinct nodes, none is the node
itself and none is one of its descendants -/
theorem setParents_ok_spec {s : DStore} (hs : DWF s) {v : Nat} {a : Arg} {f : Fault}
    (h : (setParents true s v a f).2 = .ok) :
    ∃ l, a = .list l ∧ l.Nodup ∧ ∀ p ∈ l, p < s.n ∧ p ≠ v ∧ ¬ Anc s v p := by
  obtain ⟨l, rfl, hl, _, _⟩ := setParents_ok h
  have := checkParentLoop_spec hl
  exact ⟨l, rfl, this.1, fun p hp => ⟨(this.2 p hp).1, (this.2 p hp).2.1,
    fun h => (this.2 p hp).2.2.1 ((mem_ancestors hs).2 h)⟩⟩

theorem setChildren_ok_spec {s : DStore} (hs : DWF s) {v : Nat} {a : Arg} {f : Fault}
    (h : (setChildren true s v a f).2 = .ok) :
    ∃ l, a.items = some l ∧ l.Nodup ∧ ∀ c ∈ l, c < s.n ∧ c ≠ v ∧ ¬ Anc s c v := by
  obtain ⟨l, ha, hl, _, _⟩ := setChildren_ok h
  have := checkChildrenLoop_spec hl
  exact ⟨l, ha, this.1, fun p hp => ⟨(this.2 p hp).1, (this.2 p hp).2.1,
    fun h => (this.2 p hp).2.2.1 ((mem_ancestors hs).2 h)⟩⟩

/-- first-principles reading of "would create a self-loop, a cycle or a repeated member" (or
names something that is not a node) -/
def Refusable (s : DStore) : Op → Prop
  | .setParents v a _ =>
    ∃ l, a.items = some l ∧ (¬ l.Nodup ∨ v ∈ l ∨ (∃ p ∈ l, Anc s v p) ∨ ∃ p ∈ l, s.n ≤ p)
  | .setChildren v a _ =>
    ∃ l, a.items = some l ∧ (¬ l.Nodup ∨ v ∈ l ∨ (∃ c ∈ l, Anc s c v) ∨ ∃ c ∈ l, s.n ≤ c)
  | .rshift v o _ => v = o ∨ Anc s o v
  | .lshift v o _ => v = o ∨ Anc s v o ∨ s.n ≤ o
  | .construct _ ps cs _ _ =>
    ∃ lp lc, ps.items = some lp ∧ cs.items = some lc ∧
      (¬ lp.Nodup ∨ ¬ lc.Nodup ∨ ∃ p ∈ lp, ∃ c ∈ lc, c = p ∨ Anc s c p)
  | _ => False

theorem reject_loops {s : DStore} (hs : DWF s) {op : Op} (h : Refusable s op) :
    (step true s op).2 = .rej := by
  cases hr : (step true s op).2 with
  | rej => rfl
  | ok =>
    exfalso
    cases op with
    | setParents v a f =>
      simp only [step] at hr
      split at hr
      · obtain ⟨l, rfl, hn, hl⟩ := setParents_ok_spec hs hr
        obtain ⟨l', hl', hbad⟩ := h
        cases hl'
        rcases hbad with hb | hb | ⟨p, hp, hb⟩ | ⟨p, hp, hb⟩
        · exact hb hn
        · exact (hl v hb).2.1 rfl
        · exact (hl p hp).2.2 hb
        · have := (hl p hp).1; omega
      · cases hr
    | setChildren v a f =>
      simp only [step] at hr
      split at hr
      · obtain ⟨l, ha, hn, hl⟩ := setChildren_ok_spec hs hr
        obtain ⟨l', hl', hbad⟩ := h
        rw [ha] at hl'; cases hl'
        rcases hbad with hb | hb | ⟨p, hp, hb⟩ | ⟨p, hp, hb⟩
        · exact hb hn
        · exact (hl v hb).2.1 rfl
        · exact (hl p hp).2.2 hb
        · have := (hl p hp).1; omega
      · cases hr
    | rshift v o f =>
      simp only [step] at hr
      split at hr
      · obtain ⟨l, hl', hn, hl⟩ := setParents_ok_spec hs hr
        cases hl'
        have := hl v (by simp)
        rcases h with hb | hb
        · exact this.2.1 hb
        · exact this.2.2 hb
      · cases hr
    | lshift v o f =>
      simp only [step] at hr
      split at hr
      · obtain ⟨l, hl', hn, hl⟩ := setParents_ok_spec hs hr
        cases hl'
        have := hl o (by simp)
        rcases h with hb | hb | hb
        · exact this.2.1 hb.symm
        · exact this.2.2 hb
        · omega
      · cases hr
    | delChildren v => exact h
    | delItem v nm => exact h
    | construct nm ps cs fp fc =>
      simp only [step, construct_eq] at hr
      cases h1 : (setParents true (alloc s nm) s.n ps fp).2 with
      | rej => simp [h1] at hr
      | ok =>
        simp only [h1, reduceCtorEq, if_false] at hr
        have h0 := dwf_alloc hs nm
        have hv : s.n < (alloc s nm).n := by simp [alloc]
        obtain ⟨lp, rfl, hnp, hlp⟩ := setParents_ok_spec h0 h1
        obtain ⟨lc, hac, hnc, hlc⟩ := setChildren_ok_spec (dwf_setParents h0 hv _ fp) hr
        obtain ⟨lp', lc', e1, e2, hbad⟩ := h
        cases e1; rw [hac] at e2; cases e2
        rcases hbad with hb | hb | ⟨p, hp, c, hc, hb⟩
        · exact hb hnp
        · exact hb hnc
        · have hpn : p ∈ (setParents true (alloc s nm) s.n (.list lp) fp).1.parents s.n := by
            rw [setParents_adds h1]; right; simp [Arg.items, hp]
          have hmono : ∀ q x, q ∈ s.parents x →
              q ∈ (setParents true (alloc s nm) s.n (.list lp) fp).1.parents x := by
            intro q x hq
            rw [setParents_adds h1, alloc_parents hs.toDWF0]; exact Or.inl hq
          apply (hlc c hc).2.2
          rcases hb with rfl | hb
          · exact .base hpn
          · exact .step (hb.mono hmono) hpn

end DagStore
